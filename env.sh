# Sourced by setup.sh and check. Offline Go environment for this sandbox.
export VERIF_ROOT="${VERIF_ROOT:-$(cd "$(dirname "${BASH_SOURCE[0]}")" && pwd)}"
export REPO="${VERIF_REPO:-/repo}"
export GOFLAGS=-mod=mod GOPROXY=off GOSUMDB=off GOTOOLCHAIN=local GONOSUMDB='*' GONOSUMCHECK=1 GOFLAGS=-mod=mod
export GOCACHE="${VERIF_GOCACHE:-$VERIF_ROOT/.build/gocache}"
export GO=go1.26.8
export CARGO_NET_OFFLINE=true PIP_NO_INDEX=1
mkdir -p "$VERIF_ROOT/.build/bin" "$GOCACHE"
