package main

import (
	"verif/mc/core"
	_ "verif/mc/props/c01"
)

func main() { core.Main() }
