package main

import (
	"verif/mc/core"
	_ "verif/mc/props/c02"
)

func main() { core.Main() }
