package main

import (
	"verif/mc/core"
	_ "verif/mc/props/c03"
)

func main() { core.Main() }
