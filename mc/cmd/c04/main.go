package main

import (
	"verif/mc/core"
	_ "verif/mc/props/c04"
)

func main() { core.Main() }
