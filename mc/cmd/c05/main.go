package main

import (
	"verif/mc/core"
	_ "verif/mc/props/c05"
)

func main() { core.Main() }
