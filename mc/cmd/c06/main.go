package main

import (
	"verif/mc/core"
	_ "verif/mc/props/c06"
)

func main() { core.Main() }
