package main

import (
	"verif/mc/core"
	_ "verif/mc/props/c07"
)

func main() { core.Main() }
