package main

import (
	"verif/mc/core"
	_ "verif/mc/props/c08"
)

func main() { core.Main() }
