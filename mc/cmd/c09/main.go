package main

import (
	"verif/mc/core"
	_ "verif/mc/props/c09"
)

func main() { core.Main() }
