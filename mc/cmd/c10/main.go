package main

import (
	"verif/mc/core"
	_ "verif/mc/props/c10"
)

func main() { core.Main() }
