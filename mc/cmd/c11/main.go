package main

import (
	"verif/mc/core"
	_ "verif/mc/props/c11"
)

func main() { core.Main() }
