package main

import (
	"verif/mc/core"
	_ "verif/mc/props/c12"
)

func main() { core.Main() }
