package main

import (
	"verif/mc/core"
	_ "verif/mc/props/c13"
)

func main() { core.Main() }
