package main

import (
	"verif/mc/core"
	_ "verif/mc/props/c14"
)

func main() { core.Main() }
