package main

import (
	"verif/mc/core"
	_ "verif/mc/props/c15"
)

func main() { core.Main() }
