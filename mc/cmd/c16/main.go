package main

import (
	"verif/mc/core"
	_ "verif/mc/props/c16"
)

func main() { core.Main() }
