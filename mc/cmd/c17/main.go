package main

import (
	"verif/mc/core"
	_ "verif/mc/props/c17"
)

func main() { core.Main() }
