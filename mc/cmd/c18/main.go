package main

import (
	"verif/mc/core"
	_ "verif/mc/props/c18"
)

func main() { core.Main() }
