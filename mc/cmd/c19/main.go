package main

import (
	"verif/mc/core"
	_ "verif/mc/props/c19"
)

func main() { core.Main() }
