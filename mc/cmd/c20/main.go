package main

import (
	"verif/mc/core"
	_ "verif/mc/props/c20"
)

func main() { core.Main() }
