package main

import (
	"verif/mc/core"
	_ "verif/mc/props/c21"
)

func main() { core.Main() }
