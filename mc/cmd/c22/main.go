package main

import (
	"verif/mc/core"
	_ "verif/mc/props/c22"
)

func main() { core.Main() }
