package main

import (
	"verif/mc/core"
	_ "verif/mc/props/c23"
)

func main() { core.Main() }
