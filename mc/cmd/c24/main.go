package main

import (
	"verif/mc/core"
	_ "verif/mc/props/c24"
)

func main() { core.Main() }
