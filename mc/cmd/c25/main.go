package main

import (
	"verif/mc/core"
	_ "verif/mc/props/c25"
)

func main() { core.Main() }
