package main

import (
	"verif/mc/core"
	_ "verif/mc/props/c26"
)

func main() { core.Main() }
