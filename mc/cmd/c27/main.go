package main

import (
	"verif/mc/core"
	_ "verif/mc/props/c27"
)

func main() { core.Main() }
