package main

import (
	"verif/mc/core"
	_ "verif/mc/props/c28"
)

func main() { core.Main() }
