package main

import (
	"verif/mc/core"
	_ "verif/mc/props/c29"
)

func main() { core.Main() }
