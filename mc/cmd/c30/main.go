package main

import (
	"verif/mc/core"
	_ "verif/mc/props/c30"
)

func main() { core.Main() }
