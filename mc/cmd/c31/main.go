package main

import (
	"verif/mc/core"
	_ "verif/mc/props/c31"
)

func main() { core.Main() }
