package main

import (
	"verif/mc/core"
	_ "verif/mc/props/c32"
)

func main() { core.Main() }
