package main

import (
	"verif/mc/core"
	_ "verif/mc/props/c33"
)

func main() { core.Main() }
