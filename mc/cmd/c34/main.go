package main

import (
	"verif/mc/core"
	_ "verif/mc/props/c34"
)

func main() { core.Main() }
