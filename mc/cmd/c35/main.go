package main

import (
	"verif/mc/core"
	_ "verif/mc/props/c35"
)

func main() { core.Main() }
