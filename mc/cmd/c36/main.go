package main

import (
	"verif/mc/core"
	_ "verif/mc/props/c36"
)

func main() { core.Main() }
