package main

import (
	"verif/mc/core"
	_ "verif/mc/props/c37"
)

func main() { core.Main() }
