package main

import (
	"verif/mc/core"
	_ "verif/mc/props/c38"
)

func main() { core.Main() }
