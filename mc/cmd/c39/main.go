package main

import (
	"verif/mc/core"
	_ "verif/mc/props/c39"
)

func main() { core.Main() }
