package main

import (
	"verif/mc/core"
	_ "verif/mc/props/c40"
)

func main() { core.Main() }
