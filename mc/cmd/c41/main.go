package main

import (
	"verif/mc/core"
	_ "verif/mc/props/c41"
)

func main() { core.Main() }
