package main

import (
	"verif/mc/core"
	_ "verif/mc/props/c42"
)

func main() { core.Main() }
