package main

import (
	"verif/mc/core"
	_ "verif/mc/props/c43"
)

func main() { core.Main() }
