package main

import (
	"verif/mc/core"
	_ "verif/mc/props/c44"
)

func main() { core.Main() }
