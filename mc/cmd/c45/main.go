package main

import (
	"verif/mc/core"
	_ "verif/mc/props/c45"
)

func main() { core.Main() }
