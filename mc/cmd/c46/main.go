package main

import (
	"verif/mc/core"
	_ "verif/mc/props/c46"
)

func main() { core.Main() }
