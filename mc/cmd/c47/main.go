package main

import (
	"verif/mc/core"
	_ "verif/mc/props/c47"
)

func main() { core.Main() }
