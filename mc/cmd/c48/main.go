package main

import (
	"verif/mc/core"
	_ "verif/mc/props/c48"
)

func main() { core.Main() }
