package main

import (
	"verif/mc/core"
	_ "verif/mc/props/c49"
)

func main() { core.Main() }
