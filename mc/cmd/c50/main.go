package main

import (
	"verif/mc/core"
	_ "verif/mc/props/c50"
)

func main() { core.Main() }
