package main

import (
	"verif/mc/core"
	_ "verif/mc/props/c51"
)

func main() { core.Main() }
