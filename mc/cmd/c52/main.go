package main

import (
	"verif/mc/core"
	_ "verif/mc/props/c52"
)

func main() { core.Main() }
