// mc is the checker binary for all properties that do not need the controlled scheduler.
package main

import (
	"verif/mc/core"
	_ "verif/mc/props"
)

func main() { core.Main() }
