// ovgen writes the `go build -overlay` files used by every check, from /repo's *current* tree.
//
//	plain overlay: stub for the emptied spatial_reference_systems.go (only if the tree's file does
//	               not parse), the virtual package verifshim/vexport (re-exports of internal/…
//	               packages), and any extra overlay given in VERIF_EXTRA_OVERLAY.
//	sched overlay: plain + for every non-test .go file of the module that imports sync or
//	               sync/atomic a copy whose import is rewritten to the verifshim/vsync / vatomic
//	               wrappers (and lock_subsystem.go's time import to vtime), plus those packages.
//
// Usage: ovgen -repo /repo -verif /verif -out /verif/.build
package main

import (
	"bytes"
	"encoding/json"
	"flag"
	"fmt"
	"go/parser"
	"go/token"
	"os"
	"path/filepath"
	"sort"
	"strconv"
	"strings"
)

type overlay struct {
	Replace map[string]string
}

func must(err error) {
	if err != nil {
		fmt.Fprintln(os.Stderr, "ovgen:", err)
		os.Exit(2)
	}
}

func writeIfChanged(path string, data []byte) {
	old, err := os.ReadFile(path)
	if err == nil && bytes.Equal(old, data) {
		return
	}
	must(os.MkdirAll(filepath.Dir(path), 0o755))
	must(os.WriteFile(path, data, 0o644))
}

const shimBase = "github.com/dolthub/go-mysql-server/verifshim/"

func main() {
	repo := flag.String("repo", "/repo", "")
	verif := flag.String("verif", "/verif", "")
	out := flag.String("out", "/verif/.build", "")
	flag.Parse()

	plain := overlay{Replace: map[string]string{}}

	// 1. emptied file stub
	srs := filepath.Join(*repo, "sql/types/spatial_reference_systems.go")
	fset := token.NewFileSet()
	if _, err := parser.ParseFile(fset, srs, nil, parser.PackageClauseOnly); err != nil {
		plain.Replace[srs] = filepath.Join(*verif, "overlay/srs_stub.go")
	}

	// 2. virtual packages under /repo/verifshim/<name>/ from /verif/overlay/<name>/*.go and files
	//    added to existing packages from /verif/overlay/add/<pkgpath>/*.go
	addVirtual := func(o *overlay, name string) {
		files, _ := filepath.Glob(filepath.Join(*verif, "overlay", name, "*.go"))
		for _, f := range files {
			o.Replace[filepath.Join(*repo, "verifshim", name, filepath.Base(f))] = f
		}
	}
	addVirtual(&plain, "vexport")
	addRoot := filepath.Join(*verif, "overlay/add")
	filepath.Walk(addRoot, func(p string, info os.FileInfo, err error) error {
		if err != nil || info.IsDir() || !strings.HasSuffix(p, ".go") {
			return nil
		}
		rel, _ := filepath.Rel(addRoot, p)
		plain.Replace[filepath.Join(*repo, rel)] = p
		return nil
	})

	// 3. extra overlay (mutants)
	if extra := os.Getenv("VERIF_EXTRA_OVERLAY"); extra != "" {
		b, err := os.ReadFile(extra)
		must(err)
		var e overlay
		must(json.Unmarshal(b, &e))
		for k, v := range e.Replace {
			plain.Replace[k] = v
		}
	}

	// sched overlay
	sched := overlay{Replace: map[string]string{}}
	for k, v := range plain.Replace {
		sched.Replace[k] = v
	}
	for _, n := range []string{"vsync", "vatomic", "vtime", "vsched"} {
		addVirtual(&sched, n)
	}
	rwDir := filepath.Join(*out, "rewritten")
	keep := map[string]bool{}
	var rewritten []string
	filepath.Walk(*repo, func(p string, info os.FileInfo, err error) error {
		if err != nil {
			return nil
		}
		if info.IsDir() {
			b := filepath.Base(p)
			if p != *repo && (strings.HasPrefix(b, ".") || strings.HasPrefix(b, "_") || b == "testdata" || b == "verifshim") {
				return filepath.SkipDir
			}
			return nil
		}
		if !strings.HasSuffix(p, ".go") || strings.HasSuffix(p, "_test.go") {
			return nil
		}
		src := p
		if r, ok := plain.Replace[p]; ok {
			src = r
		}
		data, err := os.ReadFile(src)
		if err != nil || len(data) == 0 {
			return nil
		}
		if !bytes.Contains(data, []byte(`"sync`)) && !strings.HasSuffix(p, "sql/lock_subsystem.go") {
			return nil
		}
		fs := token.NewFileSet()
		f, err := parser.ParseFile(fs, src, data, parser.ImportsOnly)
		if err != nil {
			return nil
		}
		type edit struct {
			start, end int
			text       string
		}
		var edits []edit
		for _, im := range f.Imports {
			path, _ := strconv.Unquote(im.Path.Value)
			var repl, defName string
			switch path {
			case "sync":
				repl, defName = shimBase+"vsync", "sync"
			case "sync/atomic":
				repl, defName = shimBase+"vatomic", "atomic"
			case "time":
				if strings.HasSuffix(p, "sql/lock_subsystem.go") {
					repl, defName = shimBase+"vtime", "time"
				}
			}
			if repl == "" {
				continue
			}
			name := defName
			start := fs.Position(im.Path.Pos()).Offset
			if im.Name != nil {
				name = im.Name.Name
				start = fs.Position(im.Name.Pos()).Offset
			}
			end := fs.Position(im.Path.End()).Offset
			edits = append(edits, edit{start, end, name + " " + strconv.Quote(repl)})
		}
		if len(edits) == 0 {
			return nil
		}
		sort.Slice(edits, func(i, j int) bool { return edits[i].start > edits[j].start })
		nd := append([]byte{}, data...)
		for _, e := range edits {
			nd = append(nd[:e.start], append([]byte(e.text), nd[e.end:]...)...)
		}
		rel, _ := filepath.Rel(*repo, p)
		dst := filepath.Join(rwDir, rel)
		writeIfChanged(dst, nd)
		keep[dst] = true
		sched.Replace[p] = dst
		rewritten = append(rewritten, rel)
		return nil
	})
	// remove stale rewritten files
	filepath.Walk(rwDir, func(p string, info os.FileInfo, err error) error {
		if err == nil && !info.IsDir() && !keep[p] {
			os.Remove(p)
		}
		return nil
	})

	pj, _ := json.MarshalIndent(plain, "", " ")
	sj, _ := json.MarshalIndent(sched, "", " ")
	writeIfChanged(filepath.Join(*out, "overlay.json"), pj)
	writeIfChanged(filepath.Join(*out, "overlay-sched.json"), sj)
	sort.Strings(rewritten)
	writeIfChanged(filepath.Join(*out, "rewritten.txt"), []byte(strings.Join(rewritten, "\n")+"\n"))
}
