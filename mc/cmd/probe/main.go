package main

import (
	"fmt"
	"os"
	"time"

	"verif/mc/eng"
)

func main() {
	t0 := time.Now()
	e := eng.New()
	if os.Getenv("PROBE_ROOT") != "" {
		e.E.Analyzer.Catalog.MySQLDb.AddRootAccount()
	}
	s := e.NewSession("root")
	for _, q := range os.Args[1:] {
		r := s.Exec(q)
		fmt.Printf("%s\n  -> %s\n", q, r.Summary())
		if ok, is := r.OK(); is {
			fmt.Printf("  ok: %+v\n", ok)
		}
	}
	fmt.Println(s.Dump())
	fmt.Println(time.Since(t0))
}
