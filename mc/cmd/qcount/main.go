package main

import (
	"fmt"
	"os"

	"verif/mc/qgen"
)

func main() {
	for d := 0; d <= 2; d++ {
		for _, rep := range []bool{true, false} {
			n := 0
			byTag := map[string]int{}
			qgen.Enumerate(d, qgen.Options{Rep: rep, MaxTables: 3}, func(g qgen.GQ) {
				n++
				if len(os.Args) > 1 && n%997 == 0 {
					fmt.Println(g.SQL(), g.Tags)
				}
				for _, c := range g.Classes() {
					byTag[c[:4]]++
				}
			})
			fmt.Println("d", d, "rep", rep, "queries", n, byTag)
		}
	}
}
