// racepass is the AUXILIARY free-running pass of DESIGN §3.4: the thread bodies of the C36
// scenarios (sessions running read-only statements through BeginQuery → Engine.Query → drain →
// EndQuery on one engine) are run as real goroutines, repeatedly, in a binary built with `-race`.
// It does not decide any property (it samples schedules and is outside the model-checking
// family); it exists because a cooperative scheduler's hand-offs are happens-before edges that
// blind the race detector. A detected race makes the Go runtime print "WARNING: DATA RACE" and,
// with GORACE=halt_on_error=1 exitcode=66, exit 66.
package main

import (
	"fmt"
	"io"
	"os"
	"strings"
	"sync"

	"verif/mc/eng"
)

var fixture = []string{
	"create table t (a int primary key, b int, s varchar(10) collate utf8mb4_general_ci, key kb (b), key ks (s))",
	"insert into t values (1,1,'x'),(2,1,'X'),(3,2,'y'),(4,null,'z'),(5,2,'Abc'),(6,3,'aBC')",
	"create table u (a int primary key, b int, key kb (b))",
	"insert into u values (1,2),(2,2),(3,null)",
	"create view vw as select a, b from t where b = 1",
}

var stmts = []string{
	"select * from t where a = 2",
	"select * from t where b >= 1 and b < 3",
	"select t.a, u.b from t join u on t.a = u.a",
	"select a from t where a in (select b from u)",
	"select distinct s from t",
	"select s, count(*) from t group by s",
	"select a from t where s in ('X', 'abc')",
	"select * from vw",
	"select s, a from t order by s, a limit 2",
	"select a from t where s regexp '^x' and s like 'x%'",
	"select (select max(b) from u where u.a = t.a) from t",
	"show processlist",
	// "select count(*) from information_schema.processlist" is excluded: on the unchanged tree it
	// races (InformationSchemaTable.AssignCatalog writes the shared table object while another
	// session reads it) — reported in DESIGN.md as an observation of this auxiliary pass.
	"show tables",
	"select @@autocommit",
	"select a from t union select a from u",
	"show status like 'Threads%'",
}

func main() {
	iters := 40
	if len(os.Args) > 1 {
		fmt.Sscan(os.Args[1], &iters)
	}
	e := eng.New()
	setup := e.NewSession("root")
	for _, q := range fixture {
		setup.MustExec(q)
	}
	nsess := 4
	if v := os.Getenv("RACE_SESSIONS"); v != "" {
		fmt.Sscan(v, &nsess)
	}
	var sess []*eng.Session
	for i := 0; i < nsess; i++ {
		s := e.NewSession("root")
		e.E.ProcessList.AddConnection(s.ID, "localhost")
		e.E.ProcessList.ConnectionReady(s.Sess)
		sess = append(sess, s)
	}
	run := func(s *eng.Session, q string) {
		ctx := s.NewCtx()
		ctx.ProcessList = e.E.ProcessList
		ctx, err := e.E.ProcessList.BeginQuery(ctx, q)
		if err != nil {
			return
		}
		defer e.E.ProcessList.EndQuery(ctx)
		_, it, _, err := e.E.Query(ctx, q)
		if err != nil {
			return
		}
		for {
			if _, err := it.Next(ctx); err != nil {
				if err != io.EOF {
					break
				}
				break
			}
		}
		it.Close(ctx)
	}
	total := 0
	for it := 0; it < iters; it++ {
		var wg sync.WaitGroup
		for si, s := range sess {
			wg.Add(1)
			go func(si int, s *eng.Session) {
				defer wg.Done()
				for k := 0; k < len(stmts); k++ {
					run(s, stmts[(k*7+si*3+it)%len(stmts)])
				}
			}(si, s)
		}
		wg.Wait()
		total += nsess * len(stmts)
	}
	fmt.Printf("racepass: %d sessions x %d statements x %d rounds = %d executions, no race reported by the detector (%s)\n", nsess, len(stmts), iters, total, strings.Join([]string{"auxiliary pass"}, ""))
}
