// racepass is the AUXILIARY free-running pass of DESIGN §3.4: the thread bodies of the C36
// scenarios (sessions running read-only statements through BeginQuery → Engine.Query → drain →
// EndQuery on one engine) are run as real goroutines, repeatedly, in a binary built with `-race`.
// It does not decide any property (it samples schedules and is outside the model-checking
// family); it exists because a cooperative scheduler's hand-offs are happens-before edges that
// blind the race detector. A detected race makes the Go runtime print "WARNING: DATA RACE" and,
// with GORACE=halt_on_error=1 exitcode=66, exit 66.
package main

import (
	"fmt"
	"io"
	"os"
	"strings"
	"sync"

	"verif/mc/eng"
	"verif/mc/props/c35/wire"
)

var fixture = []string{
	"create table t (a int primary key, b int, s varchar(10) collate utf8mb4_general_ci, key kb (b), key ks (s))",
	"insert into t values (1,1,'x'),(2,1,'X'),(3,2,'y'),(4,null,'z'),(5,2,'Abc'),(6,3,'aBC')",
	"create table u (a int primary key, b int, key kb (b))",
	"insert into u values (1,2),(2,2),(3,null)",
	"create view vw as select a, b from t where b = 1",
}

var stmts = []string{
	"select * from t where a = 2",
	"select * from t where b >= 1 and b < 3",
	"select t.a, u.b from t join u on t.a = u.a",
	"select a from t where a in (select b from u)",
	"select distinct s from t",
	"select s, count(*) from t group by s",
	"select a from t where s in ('X', 'abc')",
	"select * from vw",
	"select s, a from t order by s, a limit 2",
	"select a from t where s regexp '^x' and s like 'x%'",
	"select (select max(b) from u where u.a = t.a) from t",
	"show processlist",
	// "select count(*) from information_schema.processlist" is excluded: on the unchanged tree it
	// races (InformationSchemaTable.AssignCatalog writes the shared table object while another
	// session reads it) — reported in DESIGN.md as an observation of this auxiliary pass.
	"show tables",
	"select @@autocommit",
	"select a from t union select a from u",
	"show status like 'Threads%'",
}

func main() {
	iters := 40
	if len(os.Args) > 1 {
		fmt.Sscan(os.Args[1], &iters)
	}
	e := eng.New()
	setup := e.NewSession("root")
	for _, q := range fixture {
		setup.MustExec(q)
	}
	nsess := 4
	if v := os.Getenv("RACE_SESSIONS"); v != "" {
		fmt.Sscan(v, &nsess)
	}
	var sess []*eng.Session
	for i := 0; i < nsess; i++ {
		s := e.NewSession("root")
		e.E.ProcessList.AddConnection(s.ID, "localhost")
		e.E.ProcessList.ConnectionReady(s.Sess)
		sess = append(sess, s)
	}
	run := func(s *eng.Session, q string) {
		ctx := s.NewCtx()
		ctx.ProcessList = e.E.ProcessList
		ctx, err := e.E.ProcessList.BeginQuery(ctx, q)
		if err != nil {
			return
		}
		defer e.E.ProcessList.EndQuery(ctx)
		_, it, _, err := e.E.Query(ctx, q)
		if err != nil {
			return
		}
		for {
			if _, err := it.Next(ctx); err != nil {
				if err != io.EOF {
					break
				}
				break
			}
		}
		it.Close(ctx)
	}
	total := 0
	for it := 0; it < iters; it++ {
		var wg sync.WaitGroup
		for si, s := range sess {
			wg.Add(1)
			go func(si int, s *eng.Session) {
				defer wg.Done()
				for k := 0; k < len(stmts); k++ {
					run(s, stmts[(k*7+si*3+it)%len(stmts)])
				}
			}(si, s)
		}
		wg.Wait()
		total += nsess * len(stmts)
	}
	wireClients(iters)
	fmt.Printf("racepass: %d sessions x %d statements x %d rounds = %d executions, no race reported by the detector (%s)\n", nsess, len(stmts), iters, total, strings.Join([]string{"auxiliary pass"}, ""))
}

// wireClients: K real go-sql-driver clients on a unix-socket server, each repeatedly reading its own
// tagged rows (results below one 128-row batch, the case where the handler's pooled conversion
// buffer is still referenced when the statement returns) and comparing them with what it wrote.
func wireClients(iters int) {
	e := eng.New()
	s0 := e.NewSession("root")
	const k = 12
	for c := 0; c < k; c++ {
		s0.MustExec(fmt.Sprintf("create table w%d (id int primary key, tag varchar(40))", c))
		var vals []string
		for i := 0; i < 40; i++ {
			vals = append(vals, fmt.Sprintf("(%d,'client-%d-row-%d')", i, c, i))
		}
		s0.MustExec(fmt.Sprintf("insert into w%d values %s", c, strings.Join(vals, ",")))
	}
	if os.Getenv("VERIF_SCRATCH") == "" {
		d, _ := os.MkdirTemp(os.Getenv("VERIF_ROOT")+"/.build", "racepass-")
		os.Setenv("VERIF_SCRATCH", d)
		defer os.RemoveAll(d)
	}
	srv := wire.Start(e.E, e.Pro, wire.Options{Socket: true})
	defer srv.Close()
	var wg sync.WaitGroup
	var mu sync.Mutex
	bad := 0
	for c := 0; c < k; c++ {
		wg.Add(1)
		go func(c int) {
			defer wg.Done()
			db := srv.DB("mydb", "")
			defer db.Close()
			for it := 0; it < iters*5; it++ {
				rows, err := db.Query(fmt.Sprintf("select id, tag from w%d order by id", c))
				if err != nil {
					continue
				}
				n := 0
				for rows.Next() {
					var id int
					var tag string
					if rows.Scan(&id, &tag) == nil && tag != fmt.Sprintf("client-%d-row-%d", c, id) {
						mu.Lock()
						bad++
						mu.Unlock()
					}
					n++
				}
				rows.Close()
			}
		}(c)
	}
	wg.Wait()
	if bad > 0 {
		fmt.Printf("racepass-wire: %d rows received by a client did not belong to it\n", bad)
		os.Exit(67)
	}
	fmt.Printf("racepass-wire: %d clients x %d statements over a unix socket, all rows belonged to their client\n", k, iters*5)
}
