// Package core is the plumbing shared by every check: the property registry, per-run counters,
// violation records with signatures, sharding across worker subprocesses, the known-findings
// matcher, replay artefacts and the evidence writer.
package core

import (
	"encoding/json"
	"fmt"
	"hash/fnv"
	"os"
	"runtime/debug"
	"sort"
	"strings"
	"sync"
	"syscall"
	"time"
)

// Prop describes one registered property check.
type Prop struct {
	ID    string
	Level string // exploration | fault_enumeration | model_checking
	// Rule says how cases are enumerated and what makes one non-trivial (goes into evidence).
	Rule        string
	Assumptions []string
	// Workers: 0 = default (16 subprocesses), 1 = run in a single process.
	Workers int
	// Budget per tier in seconds (0 = default: quick 70, thorough 900).
	QuickBudget, ThoroughBudget int
	// GoMaxProcs for worker subprocesses (0 = default 2). Scheduler-based checks use 1: the
	// token hand-off between goroutines is ~6x faster without cross-thread wake-ups.
	GoMaxProcs int
	Run                         func(r *Run)
	// Replay re-runs exactly one case from a witness (without the explorer) and records any
	// violation it sees into r. Optional.
	Replay func(r *Run, witness json.RawMessage)
}

var registry = map[string]*Prop{}

func Register(p *Prop) {
	if _, dup := registry[p.ID]; dup {
		panic("duplicate property " + p.ID)
	}
	registry[p.ID] = p
}

func Lookup(id string) *Prop { return registry[id] }

func IDs() []string {
	var ids []string
	for k := range registry {
		ids = append(ids, k)
	}
	sort.Strings(ids)
	return ids
}

// Violation is a structured violation record. Signature = everything but the witness.
type Violation struct {
	Property string            `json:"property"`
	Check    string            `json:"check"`   // sub-check inside the property
	Clause   string            `json:"clause"`  // which clause of the oracle failed
	Kind     string            `json:"kind"`    // wrong-value, missing-rows, panic, ...
	Subject  map[string]string `json:"subject"` // classifying coordinates
	Witness  json.RawMessage   `json:"witness"` // concrete minimal case (replayable)
	Observed string            `json:"observed"`
	Expected string            `json:"expected"`
	Count    int64             `json:"count"` // how many cases had this signature
}

func (v *Violation) Signature() string {
	keys := make([]string, 0, len(v.Subject))
	for k := range v.Subject {
		keys = append(keys, k)
	}
	sort.Strings(keys)
	var sb strings.Builder
	fmt.Fprintf(&sb, "%s/%s/%s/%s", v.Property, v.Check, v.Clause, v.Kind)
	for _, k := range keys {
		fmt.Fprintf(&sb, "/%s=%s", k, v.Subject[k])
	}
	return sb.String()
}

func witnessLess(a, b json.RawMessage) bool {
	if len(a) != len(b) {
		return len(a) < len(b)
	}
	return string(a) < string(b)
}

// Result is what a worker reports to the parent.
type Result struct {
	Evaluations int64                 `json:"evaluations"`
	NonTrivial  int64                 `json:"nontrivial"`
	Counters    map[string]int64      `json:"counters"`
	MaxCounters map[string]int64      `json:"max_counters"`
	Outcomes    map[string]int64      `json:"outcomes"`
	Samples     []json.RawMessage     `json:"samples"`
	AutoSamples []string              `json:"auto_samples"` // first non-trivial case keys (fallback samples)
	Violations  map[string]*Violation `json:"violations"`
	Capped      []string              `json:"capped"`
	Notes       []string              `json:"notes"`
	Info        map[string]any        `json:"info"`
}

// Run carries the state of one (worker) run of a property.
type Run struct {
	Prop    *Prop
	Tier    string
	Seed    int64
	Shard   int
	NShards int
	Start   time.Time
	End     time.Time // soft budget

	mu     sync.Mutex
	res    Result
	ntSeen map[uint64]struct{}
	expCalls int
	expired  bool
	// Announce, when non-empty, is a file the worker writes the current case to before
	// running it (so the parent can attribute a worker death).
	Announce string
}

func NewRun(p *Prop, tier string, seed int64, shard, nshards int, budget time.Duration) *Run {
	r := &Run{Prop: p, Tier: tier, Seed: seed, Shard: shard, NShards: nshards, Start: time.Now()}
	r.End = r.Start.Add(budget)
	r.res.Counters = map[string]int64{}
	r.res.MaxCounters = map[string]int64{}
	r.res.Outcomes = map[string]int64{}
	r.res.Violations = map[string]*Violation{}
	r.res.Info = map[string]any{}
	r.ntSeen = map[uint64]struct{}{}
	return r
}

func (r *Run) Quick() bool    { return r.Tier == "quick" }
func (r *Run) Thorough() bool { return r.Tier == "thorough" }

// Mine reports whether case number i belongs to this shard.
func (r *Run) Mine(i int64) bool {
	if r.NShards <= 1 {
		return true
	}
	m := (i + r.Seed) % int64(r.NShards)
	if m < 0 {
		m += int64(r.NShards)
	}
	return int(m) == r.Shard
}

// Expired reports whether the soft time budget is exhausted. A property that stops because of
// it must call Capped.
//
// The budget is measured in CPU time of this worker process (so that an oversubscribed machine
// does not shrink what a tier covers), with a wall-clock cap of 12x the budget.
func (r *Run) Expired() bool {
	r.expCalls++
	if r.expired {
		return true
	}
	if r.expCalls&15 != 1 { // getrusage is cheap but not free
		return false
	}
	budget := r.End.Sub(r.Start)
	if time.Since(r.Start) > 12*budget || cpuTime() > budget {
		r.expired = true
	}
	return r.expired
}

func cpuTime() time.Duration {
	var ru syscall.Rusage
	if err := syscall.Getrusage(syscall.RUSAGE_SELF, &ru); err != nil {
		return 0
	}
	return time.Duration(ru.Utime.Nano() + ru.Stime.Nano())
}

// Capped records that a cap was hit; the run is then not exhaustive.
func (r *Run) Capped(what string) {
	r.mu.Lock()
	defer r.mu.Unlock()
	for _, c := range r.res.Capped {
		if c == what {
			return
		}
	}
	r.res.Capped = append(r.res.Capped, what)
}

func (r *Run) Eval() { r.mu.Lock(); r.res.Evaluations++; r.mu.Unlock() }
func (r *Run) EvalN(n int64) {
	r.mu.Lock()
	r.res.Evaluations += n
	r.mu.Unlock()
}

func (r *Run) Count(name string, n int64) {
	r.mu.Lock()
	r.res.Counters[name] += n
	r.mu.Unlock()
}

// Max records a maximum (e.g. max_depth).
func (r *Run) Max(name string, n int64) {
	r.mu.Lock()
	if n > r.res.MaxCounters[name] {
		r.res.MaxCounters[name] = n
	}
	r.mu.Unlock()
}

func (r *Run) Info(name string, v any) {
	r.mu.Lock()
	r.res.Info[name] = v
	r.mu.Unlock()
}

func (r *Run) Note(s string) {
	r.mu.Lock()
	r.res.Notes = append(r.res.Notes, s)
	r.mu.Unlock()
}

// Outcome counts a distinct observed outcome class (bounded number of keys).
func (r *Run) Outcome(key string) {
	r.mu.Lock()
	if _, ok := r.res.Outcomes[key]; ok || len(r.res.Outcomes) < 200 {
		r.res.Outcomes[key]++
	} else {
		r.res.Outcomes["(other)"]++
	}
	r.mu.Unlock()
}

func hash64(s string) uint64 {
	h := fnv.New64a()
	h.Write([]byte(s))
	return h.Sum64()
}

// NonTrivial records a distinct non-trivial case. The key must identify the case (cases are
// partitioned across shards, so per-shard counts add up exactly).
func (r *Run) NonTrivial(key string) {
	h := hash64(key)
	r.mu.Lock()
	if _, ok := r.ntSeen[h]; !ok {
		r.ntSeen[h] = struct{}{}
		r.res.NonTrivial++
		if len(r.res.AutoSamples) < 3 {
			if len(key) > 400 {
				key = key[:400] + "…"
			}
			r.res.AutoSamples = append(r.res.AutoSamples, key)
		}
	}
	r.mu.Unlock()
}

const maxSamples = 6

// Sample keeps the first few cases as written-out samples.
func (r *Run) Sample(x any) {
	r.mu.Lock()
	defer r.mu.Unlock()
	if len(r.res.Samples) >= maxSamples {
		return
	}
	b, err := json.Marshal(x)
	if err != nil {
		b, _ = json.Marshal(fmt.Sprint(x))
	}
	r.res.Samples = append(r.res.Samples, b)
}

func (r *Run) WantSample() bool {
	r.mu.Lock()
	defer r.mu.Unlock()
	return len(r.res.Samples) < maxSamples
}

// Violate records a violation. Per signature the smallest witness is kept.
func (r *Run) Violate(v Violation) {
	v.Property = r.Prop.ID
	if v.Subject == nil {
		v.Subject = map[string]string{}
	}
	if len(v.Observed) > 2000 {
		v.Observed = v.Observed[:2000] + "…"
	}
	if len(v.Expected) > 2000 {
		v.Expected = v.Expected[:2000] + "…"
	}
	sig := v.Signature()
	r.mu.Lock()
	defer r.mu.Unlock()
	old, ok := r.res.Violations[sig]
	if !ok {
		v.Count = 1
		r.res.Violations[sig] = &v
		return
	}
	old.Count++
	if witnessLess(v.Witness, old.Witness) {
		c := old.Count
		*old = v
		old.Count = c
	}
}

func (r *Run) NumViolations() int {
	r.mu.Lock()
	defer r.mu.Unlock()
	return len(r.res.Violations)
}

// AnnounceCase writes the case about to be run to the announce file (cheap; no fsync).
func (r *Run) AnnounceCase(desc string) {
	if r.Announce == "" {
		return
	}
	os.WriteFile(r.Announce, []byte(desc), 0o644)
}

// Try runs f and returns the recovered panic value (nil if none) and the stack.
func Try(f func()) (pv any, stack string) {
	defer func() {
		if x := recover(); x != nil {
			pv = x
			stack = string(debug.Stack())
		}
	}()
	f()
	return nil, ""
}

// TopFrame extracts the first non-runtime, non-harness frame of a panic stack for signatures.
func TopFrame(stack string) string {
	lines := strings.Split(stack, "\n")
	for i := 0; i+1 < len(lines); i++ {
		l := lines[i]
		if strings.HasPrefix(l, "\t") || l == "" || strings.HasPrefix(l, "goroutine ") {
			continue
		}
		if strings.HasPrefix(l, "runtime") || strings.HasPrefix(l, "panic(") || strings.HasPrefix(l, "verif/mc/") || strings.HasPrefix(l, "created by") || strings.HasPrefix(l, "reflect.") {
			continue
		}
		// function line, e.g. github.com/x/y.(*T).M(...)
		if j := strings.LastIndex(l, "("); j > 0 {
			l = l[:j]
		}
		return l
	}
	return "unknown"
}

func J(x any) json.RawMessage {
	b, err := json.Marshal(x)
	if err != nil {
		b, _ = json.Marshal(fmt.Sprint(x))
	}
	return b
}

func (r *Run) Result() *Result { return &r.res }
