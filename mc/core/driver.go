package core

import (
	"bufio"
	"crypto/sha1"
	"encoding/json"
	"flag"
	"fmt"
	"os"
	"os/exec"
	"path/filepath"
	"runtime"
	"runtime/pprof"
	"sort"
	"strconv"
	"strings"
	"time"
)

// KnownFinding is one line of /verif/known_findings.jsonl.
type KnownFinding struct {
	Status    string            `json:"status"` // known | fixed
	Property  string            `json:"property"`
	Signature map[string]string `json:"signature"` // check, clause, kind and subject fields to match
	Witness   json.RawMessage   `json:"witness,omitempty"`
	What      string            `json:"what"`
	Commit    string            `json:"commit,omitempty"`
}

func loadKnown(path string) ([]KnownFinding, error) {
	f, err := os.Open(path)
	if err != nil {
		if os.IsNotExist(err) {
			return nil, nil
		}
		return nil, err
	}
	defer f.Close()
	var out []KnownFinding
	sc := bufio.NewScanner(f)
	sc.Buffer(make([]byte, 1<<20), 1<<24)
	for sc.Scan() {
		line := strings.TrimSpace(sc.Text())
		if line == "" || strings.HasPrefix(line, "#") {
			continue
		}
		var k KnownFinding
		if err := json.Unmarshal([]byte(line), &k); err != nil {
			return nil, fmt.Errorf("known_findings: %v in %q", err, line)
		}
		out = append(out, k)
	}
	return out, sc.Err()
}

func (k *KnownFinding) matches(v *Violation) bool {
	if k.Status != "known" || k.Property != v.Property {
		return false
	}
	for f, want := range k.Signature {
		var got string
		contains := false
		if strings.HasSuffix(f, "~") { // "field~": substring match
			contains = true
			f = strings.TrimSuffix(f, "~")
		}
		switch f {
		case "check":
			got = v.Check
		case "clause":
			got = v.Clause
		case "kind":
			got = v.Kind
		default:
			var ok bool
			got, ok = v.Subject[f]
			if !ok {
				return false
			}
		}
		if contains {
			for _, part := range strings.Split(want, "&&") { // all parts must occur
				if !strings.Contains(got, part) {
					return false
				}
			}
			continue
		}
		if got != want {
			return false
		}
	}
	return true
}

// ReplayFile is the artefact written for each violation signature.
type ReplayFile struct {
	Property  string     `json:"property"`
	Signature string     `json:"signature"`
	Violation *Violation `json:"violation"`
}

func verifRoot() string {
	if v := os.Getenv("VERIF_ROOT"); v != "" {
		return v
	}
	return "/verif"
}

// Main is the entry point of the mc binaries.
func Main() {
	prop := flag.String("prop", "", "property id")
	tier := flag.String("tier", "quick", "quick|thorough")
	worker := flag.Bool("worker", false, "internal: run as worker")
	shard := flag.Int("shard", 0, "")
	nshards := flag.Int("nshards", 1, "")
	out := flag.String("out", "", "internal: worker result file")
	replay := flag.String("replay", "", "replay artefact to re-run")
	budget := flag.Int("budget", 0, "override time budget in seconds")
	list := flag.Bool("list", false, "list registered properties")
	flag.Parse()

	if *list {
		for _, id := range IDs() {
			fmt.Println(id)
		}
		return
	}
	if t := os.Getenv("VERIF_TIER"); t == "quick" || t == "thorough" {
		*tier = t
	}
	p := Lookup(*prop)
	if p == nil {
		fmt.Fprintf(os.Stderr, "unknown property %q (registered: %v)\n", *prop, IDs())
		os.Exit(2)
	}
	seed := int64(0)
	if s := os.Getenv("VERIF_SEED"); s != "" {
		if n, err := strconv.ParseInt(s, 10, 64); err == nil {
			seed = n
		}
	}
	bsec := p.QuickBudget
	if *tier == "thorough" {
		bsec = p.ThoroughBudget
	}
	if bsec == 0 {
		if *tier == "thorough" {
			bsec = 900
		} else {
			bsec = 70
		}
	}
	if *budget > 0 {
		bsec = *budget
	}
	if b := os.Getenv("VERIF_BUDGET"); b != "" {
		if n, err := strconv.Atoi(b); err == nil && n > 0 {
			bsec = n
		}
	}

	switch {
	case *replay != "":
		os.Exit(doReplay(p, *tier, seed, *replay))
	case *worker:
		r := NewRun(p, *tier, seed, *shard, *nshards, time.Duration(bsec)*time.Second)
		r.Announce = *out + ".case"
		p.Run(r)
		if mp := os.Getenv("VERIF_MEMPROF"); mp != "" { // diagnostic only: heap profile of this worker
			if f, err := os.Create(mp); err == nil {
				runtime.GC()
				pprof.WriteHeapProfile(f)
				f.Close()
				var ms runtime.MemStats
				runtime.ReadMemStats(&ms)
				fmt.Fprintf(os.Stderr, "MEMPROF goroutines=%d heap_inuse=%dMB heap_sys=%dMB stack_sys=%dMB sys=%dMB heap_released=%dMB\n", runtime.NumGoroutine(), ms.HeapInuse>>20, ms.HeapSys>>20, ms.StackSys>>20, ms.Sys>>20, ms.HeapReleased>>20)
				if g, err := os.Create(mp + ".goroutines"); err == nil {
					pprof.Lookup("goroutine").WriteTo(g, 1)
					g.Close()
				}
			}
		}
		b, err := json.Marshal(r.Result())
		if err != nil {
			fmt.Fprintln(os.Stderr, "marshal:", err)
			os.Exit(2)
		}
		if err := os.WriteFile(*out, b, 0o644); err != nil {
			fmt.Fprintln(os.Stderr, err)
			os.Exit(2)
		}
	default:
		os.Exit(parent(p, *tier, seed, bsec))
	}
}

func doReplay(p *Prop, tier string, seed int64, path string) int {
	b, err := os.ReadFile(path)
	if err != nil {
		fmt.Fprintln(os.Stderr, err)
		return 2
	}
	var rf ReplayFile
	if err := json.Unmarshal(b, &rf); err != nil || rf.Violation == nil {
		fmt.Fprintln(os.Stderr, "bad replay file:", err)
		return 2
	}
	if p.Replay == nil {
		fmt.Fprintln(os.Stderr, "property has no replay function")
		return 2
	}
	r := NewRun(p, tier, seed, 0, 1, 10*time.Minute)
	p.Replay(r, rf.Violation.Witness)
	fmt.Printf("replay %s\n  recorded signature: %s\n  recorded observed: %s\n  recorded expected: %s\n", path, rf.Signature, rf.Violation.Observed, rf.Violation.Expected)
	repro := false
	for sig, v := range r.Result().Violations {
		fmt.Printf("  replay produced: %s\n    observed: %s\n    expected: %s\n", sig, v.Observed, v.Expected)
		if sig == rf.Signature {
			repro = true
		}
	}
	if repro {
		fmt.Printf("REPRODUCED property=%s\n", p.ID)
		return 1
	}
	fmt.Printf("NOT-REPRODUCED property=%s\n", p.ID)
	return 0
}

func parent(p *Prop, tier string, seed int64, bsec int) int {
	start := time.Now()
	root := verifRoot()
	n := p.Workers
	if n == 0 {
		n = 16
		if w := os.Getenv("VERIF_WORKERS"); w != "" {
			if k, err := strconv.Atoi(w); err == nil && k > 0 {
				n = k
			}
		}
	}
	scratch, err := os.MkdirTemp(filepath.Join(root, ".build"), "run-"+p.ID+"-")
	if err != nil {
		fmt.Fprintln(os.Stderr, err)
		return 2
	}
	defer os.RemoveAll(scratch)
	self, _ := os.Executable()

	type wres struct {
		res   *Result
		err   error
		death string
	}
	results := make([]wres, n)
	done := make(chan int, n)
	for i := 0; i < n; i++ {
		go func(i int) {
			defer func() { done <- i }()
			outf := filepath.Join(scratch, fmt.Sprintf("w%d.json", i))
			cmd := exec.Command(self, "-prop", p.ID, "-tier", tier, "-worker", "-shard", strconv.Itoa(i), "-nshards", strconv.Itoa(n), "-out", outf, "-budget", strconv.Itoa(bsec))
			cmd.Env = append(os.Environ(), "VERIF_SEED="+strconv.FormatInt(seed, 10), "VERIF_SCRATCH="+scratch, "GOMAXPROCS="+gomaxprocs(p, n))
			logf, _ := os.Create(filepath.Join(scratch, fmt.Sprintf("w%d.log", i)))
			cmd.Stdout = logf
			cmd.Stderr = logf
			err := cmd.Run()
			logf.Close()
			b, rerr := os.ReadFile(outf)
			if rerr != nil {
				lg, _ := os.ReadFile(filepath.Join(scratch, fmt.Sprintf("w%d.log", i)))
				cs, _ := os.ReadFile(outf + ".case")
				tail := string(lg)
				if len(tail) > 3000 {
					tail = tail[:1500] + "\n…\n" + tail[len(tail)-1500:]
				}
				results[i] = wres{err: fmt.Errorf("worker %d died (%v)", i, err), death: "case: " + string(cs) + "\nlog: " + tail}
				return
			}
			var r Result
			if jerr := json.Unmarshal(b, &r); jerr != nil {
				results[i] = wres{err: jerr}
				return
			}
			results[i] = wres{res: &r}
		}(i)
	}
	for i := 0; i < n; i++ {
		<-done
	}

	merged := Result{Counters: map[string]int64{}, MaxCounters: map[string]int64{}, Outcomes: map[string]int64{}, Violations: map[string]*Violation{}, Info: map[string]any{}}
	for i, w := range results {
		if w.err != nil {
			fmt.Fprintf(os.Stderr, "HARNESS-ERROR property=%s %v\n%s\n", p.ID, w.err, w.death)
			return 2
		}
		r := w.res
		merged.Evaluations += r.Evaluations
		merged.NonTrivial += r.NonTrivial
		for k, v := range r.Counters {
			merged.Counters[k] += v
		}
		for k, v := range r.MaxCounters {
			if v > merged.MaxCounters[k] {
				merged.MaxCounters[k] = v
			}
		}
		for k, v := range r.Outcomes {
			merged.Outcomes[k] += v
		}
		for k, v := range r.Info {
			if _, ok := merged.Info[k]; !ok {
				merged.Info[k] = v
			}
		}
		if i < 3 || len(merged.Samples) < 4 {
			for _, s := range r.Samples {
				if len(merged.Samples) < 8 {
					merged.Samples = append(merged.Samples, s)
				}
			}
		}
		if len(merged.AutoSamples) < 6 {
			merged.AutoSamples = append(merged.AutoSamples, r.AutoSamples...)
		}
		for _, c := range r.Capped {
			found := false
			for _, d := range merged.Capped {
				found = found || d == c
			}
			if !found {
				merged.Capped = append(merged.Capped, c)
			}
		}
		for _, nt := range r.Notes {
			found := false
			for _, d := range merged.Notes {
				found = found || d == nt
			}
			if !found {
				merged.Notes = append(merged.Notes, nt)
			}
		}
		for sig, v := range r.Violations {
			old, ok := merged.Violations[sig]
			if !ok {
				merged.Violations[sig] = v
				continue
			}
			c := old.Count + v.Count
			if witnessLess(v.Witness, old.Witness) {
				merged.Violations[sig] = v
			}
			merged.Violations[sig].Count = c
		}
	}

	known, err := loadKnown(filepath.Join(root, "known_findings.jsonl"))
	if err != nil {
		fmt.Fprintln(os.Stderr, "HARNESS-ERROR", err)
		return 2
	}
	sigs := make([]string, 0, len(merged.Violations))
	for s := range merged.Violations {
		sigs = append(sigs, s)
	}
	sort.Strings(sigs)
	knownHit := map[int]int64{}
	var unknown []string
	for _, s := range sigs {
		v := merged.Violations[s]
		hit := -1
		for i := range known {
			if known[i].matches(v) {
				hit = i
				break
			}
		}
		if hit >= 0 {
			knownHit[hit] += v.Count
		} else {
			unknown = append(unknown, s)
		}
	}
	var khits []int
	for i := range knownHit {
		khits = append(khits, i)
	}
	sort.Ints(khits)
	for _, i := range khits {
		fmt.Printf("KNOWN-FINDING: property=%s %s (cases=%d)\n", p.ID, known[i].What, knownHit[i])
	}

	exit := 0
	os.MkdirAll(filepath.Join(root, "replays"), 0o755)
	for _, s := range unknown {
		v := merged.Violations[s]
		h := sha1.Sum([]byte(s))
		path := filepath.Join(root, "replays", fmt.Sprintf("%s-%x.json", p.ID, h[:5]))
		rf := ReplayFile{Property: p.ID, Signature: s, Violation: v}
		b, _ := json.MarshalIndent(rf, "", " ")
		os.WriteFile(path, b, 0o644)
		// determinism: the violation must reproduce from its artefact every time
		if p.Replay != nil && os.Getenv("VERIF_NO_RECHECK") == "" {
			repro, not := 0, 0
			for k := 0; k < 3; k++ {
				cmd := exec.Command(self, "-prop", p.ID, "-tier", tier, "-replay", path)
				cmd.Env = os.Environ()
				err := cmd.Run()
				if ee, ok := err.(*exec.ExitError); ok && ee.ExitCode() == 1 {
					repro++
				} else {
					not++
				}
			}
			if repro > 0 && not > 0 {
				fmt.Printf("HARNESS-NONDETERMINISM property=%s signature=%s replay=%s (reproduced %d/3)\n", p.ID, s, path, repro)
				if exit == 0 {
					exit = 2
				}
				continue
			}
			if repro == 0 {
				fmt.Printf("HARNESS-NONDETERMINISM property=%s signature=%s replay=%s (explorer saw it, replay never does)\n", p.ID, s, path)
				if exit == 0 {
					exit = 2
				}
				continue
			}
		}
		fmt.Printf("VIOLATION property=%s replay=%s\n", p.ID, path)
		fmt.Printf("  signature: %s\n  cases: %d\n  witness: %s\n  observed: %s\n  expected: %s\n", s, v.Count, truncate(string(v.Witness), 600), v.Observed, v.Expected)
		exit = 1
	}

	wall := time.Since(start).Seconds()
	if err := writeEvidence(root, p, tier, seed, &merged, wall, len(unknown), len(khits), n); err != nil {
		fmt.Fprintln(os.Stderr, "HARNESS-ERROR evidence:", err)
		return 2
	}
	exh := len(merged.Capped) == 0
	fmt.Printf("%s %s: evaluations=%d distinct_nontrivial=%d outcomes=%d exhaustive=%v violations=%d known=%d wall=%.1fs\n", p.ID, tier, merged.Evaluations, merged.NonTrivial, len(merged.Outcomes), exh, len(unknown), len(khits), wall)
	for k, v := range merged.Counters {
		_ = k
		_ = v
	}
	if len(merged.Outcomes) == 1 && merged.Evaluations > 1 {
		fmt.Printf("WARNING: one distinct outcome from %d executions\n", merged.Evaluations)
	}
	for _, c := range merged.Capped {
		fmt.Printf("CAPPED: %s\n", c)
	}
	return exit
}

func gomaxprocs(p *Prop, n int) string {
	if p.GoMaxProcs > 0 {
		return strconv.Itoa(p.GoMaxProcs)
	}
	if n >= 8 {
		return "2"
	}
	return "4"
}

func truncate(s string, n int) string {
	if len(s) > n {
		return s[:n] + "…"
	}
	return s
}

func writeEvidence(root string, p *Prop, tier string, seed int64, m *Result, wall float64, nviol, nknown, workers int) error {
	cov := map[string]any{}
	cov["evaluations"] = m.Evaluations
	cov["distinct_nontrivial"] = m.NonTrivial
	cov["rule"] = p.Rule
	samples := make([]any, 0, len(m.Samples))
	for _, s := range m.Samples {
		samples = append(samples, s)
	}
	if len(samples) == 0 {
		// the property wrote out no samples itself: fall back to the identifying keys of the first
		// non-trivial cases of this run
		for _, k := range m.AutoSamples {
			samples = append(samples, map[string]string{"nontrivial_case_key": k})
		}
	}
	cov["samples"] = samples
	cov["exhaustive"] = len(m.Capped) == 0
	if len(m.Capped) > 0 {
		cov["caps_hit"] = m.Capped
	}
	for k, v := range m.Counters {
		cov[k] = v
	}
	for k, v := range m.MaxCounters {
		cov[k] = v
	}
	for k, v := range m.Info {
		cov[k] = v
	}
	cov["distinct_outcomes"] = len(m.Outcomes)
	if len(m.Outcomes) <= 40 {
		cov["outcomes"] = m.Outcomes
	}
	if len(m.Notes) > 0 {
		cov["notes"] = m.Notes
	}
	cov["workers"] = workers
	cov["known_findings_matched"] = nknown
	if p.Level == "model_checking" {
		if _, ok := cov["states"]; !ok {
			cov["states"] = m.Evaluations
		}
		if _, ok := cov["transitions"]; !ok {
			cov["transitions"] = m.Evaluations
		}
		if _, ok := cov["traces_validated_against_impl"]; !ok {
			cov["traces_validated_against_impl"] = m.Evaluations
		}
	}
	ev := map[string]any{
		"property_id": p.ID,
		"tier":        tier,
		"seed":        seed,
		"level":       p.Level,
		"coverage":    cov,
		"assumptions": p.Assumptions,
		"wall_s":      wall,
		"violations":  nviol,
	}
	if p.Assumptions == nil {
		ev["assumptions"] = []string{}
	}
	b, err := json.MarshalIndent(ev, "", " ")
	if err != nil {
		return err
	}
	os.MkdirAll(filepath.Join(root, "evidence"), 0o755)
	return os.WriteFile(filepath.Join(root, "evidence", p.ID+".json"), append(b, '\n'), 0o644)
}
