package core

import (
	"encoding/json"
	"os"
	"path/filepath"
	"testing"
)

// TestKnownLinesMatchRecordedReplays: every replay artefact named in VERIF_EXPECT_KNOWN (a glob,
// e.g. /verif/replays/C01-*.json) must be matched by a "known" line of known_findings.jsonl. Used
// after adding a known line for a thorough-tier finding whose full run takes an hour.
func TestKnownLinesMatchRecordedReplays(t *testing.T) {
	glob := os.Getenv("VERIF_EXPECT_KNOWN")
	if glob == "" {
		t.Skip("VERIF_EXPECT_KNOWN not set")
	}
	known, err := loadKnown("/verif/known_findings.jsonl")
	if err != nil {
		t.Fatal(err)
	}
	files, _ := filepath.Glob(glob)
	n := 0
	for _, f := range files {
		b, err := os.ReadFile(f)
		if err != nil {
			t.Fatal(err)
		}
		var rec struct {
			Violation Violation `json:"violation"`
		}
		if err := json.Unmarshal(b, &rec); err != nil {
			t.Fatal(f, err)
		}
		ok := false
		for i := range known {
			if known[i].Status == "known" && known[i].matches(&rec.Violation) {
				ok = true
				break
			}
		}
		if !ok {
			t.Errorf("%s: %s is not matched by any known line", f, rec.Violation.Signature())
		}
		n++
	}
	t.Logf("%d replay artefacts checked", n)
}
