// Package eng is the engine fixture: fresh in-memory engines, sessions, statement execution with
// panic containment, canonical value/row formatting, error classes, plan text, state dumps.
package eng

import (
	"context"
	"fmt"
	"io"
	"sort"
	"strings"
	"time"

	sqle "github.com/dolthub/go-mysql-server"
	"github.com/dolthub/go-mysql-server/memory"
	"github.com/dolthub/go-mysql-server/sql"
	"github.com/dolthub/go-mysql-server/sql/types"
	"github.com/dolthub/go-mysql-server/sql/variables"
	"github.com/cockroachdb/apd/v3"
	"github.com/sirupsen/logrus"
)

func init() {
	logrus.SetOutput(io.Discard)
	logrus.SetLevel(logrus.PanicLevel)
}

// Engine is a fresh in-memory engine with one or more databases.
type Engine struct {
	E      *sqle.Engine
	Pro    *memory.DbProvider
	DBs    []*memory.Database
	nextID uint32
}

// ResetGlobals re-initialises the process-global variable tables.
func ResetGlobals() {
	variables.InitSystemVariables()
	variables.InitStatusVariables()
}

// New builds a fresh engine with the named databases (default "mydb"). Process-global system
// and status variables are re-initialised.
func New(dbnames ...string) *Engine {
	return NewWithConfig(nil, dbnames...)
}

func NewWithConfig(cfg *sqle.Config, dbnames ...string) *Engine {
	ResetGlobals()
	if len(dbnames) == 0 {
		dbnames = []string{"mydb"}
	}
	e := &Engine{}
	var dbs []sql.Database
	for _, n := range dbnames {
		db := memory.NewDatabase(n)
		e.DBs = append(e.DBs, db)
		dbs = append(dbs, db)
	}
	e.Pro = memory.NewDBProvider(dbs...)
	if cfg == nil {
		e.E = sqle.NewDefault(e.Pro)
	} else {
		e.E = sqle.New(analyzerDefault(e.Pro), cfg)
	}
	return e
}

// Session is one client session on an Engine.
type Session struct {
	Eng  *Engine
	Sess *memory.Session
	Ctx  *sql.Context
	ID   uint32
	pid  uint64
}

// NewSession opens a session for user@localhost with current database = first database.
func (e *Engine) NewSession(user string) *Session {
	return e.NewSessionAt(user, "localhost")
}

func (e *Engine) NewSessionAt(user, addr string) *Session {
	e.nextID++
	id := e.nextID
	base := sql.NewBaseSessionWithClientServer("srv", sql.Client{User: user, Address: addr, Capabilities: 0}, id)
	ms := memory.NewSession(base, e.Pro)
	s := &Session{Eng: e, Sess: ms, ID: id}
	s.Ctx = sql.NewContext(context.Background(), sql.WithSession(ms))
	s.Ctx.SetCurrentDatabase(e.DBs[0].Name())
	return s
}

// Result of one statement.
type Result struct {
	Schema sql.Schema
	Rows   []sql.Row
	Err    error
	Panic  any
	Stack  string
}

// NewCtx returns a fresh per-statement context for the session (same session, new pid).
func (s *Session) NewCtx() *sql.Context {
	s.pid++
	ctx := sql.NewContext(context.Background(), sql.WithSession(s.Sess), sql.WithPid(uint64(s.ID)<<32|s.pid))
	return ctx
}

// Exec runs one statement to completion (iterator drained and closed). Panics are contained.
func (s *Session) Exec(q string) (res *Result) {
	res = &Result{}
	ctx := s.NewCtx()
	defer func() {
		if x := recover(); x != nil {
			res.Panic = x
			res.Stack = stack()
			res.Err = fmt.Errorf("panic: %v", x)
		}
	}()
	sch, it, _, err := s.Eng.E.Query(ctx, q)
	if err != nil {
		res.Err = err
		return
	}
	res.Schema = sch
	for {
		row, err := it.Next(ctx)
		if err == io.EOF {
			break
		}
		if err != nil {
			res.Err = err
			it.Close(ctx)
			return
		}
		res.Rows = append(res.Rows, row)
	}
	if err := it.Close(ctx); err != nil {
		res.Err = err
	}
	return
}

// MustExec runs a fixture statement and panics with the statement text if it fails.
func (s *Session) MustExec(q string) *Result {
	r := s.Exec(q)
	if r.Err != nil {
		panic(fmt.Sprintf("fixture statement failed: %s: %v", q, r.Err))
	}
	return r
}

// OK returns the OkResult of a DML/DDL statement, if the result is one.
func (r *Result) OK() (types.OkResult, bool) {
	if r.Err == nil && len(r.Rows) == 1 && len(r.Rows[0]) == 1 {
		if ok, isOk := r.Rows[0][0].(types.OkResult); isOk {
			return ok, true
		}
	}
	return types.OkResult{}, false
}

// Plan returns the analysed plan text of q (without executing it).
func (s *Session) Plan(q string) (string, error) {
	ctx := s.NewCtx()
	var out string
	var err error
	func() {
		defer func() {
			if x := recover(); x != nil {
				err = fmt.Errorf("panic: %v", x)
			}
		}()
		n, e := s.Eng.E.AnalyzeQuery(ctx, q)
		if e != nil {
			err = e
			return
		}
		out = n.String()
	}()
	return out, err
}

// FormatValue renders an engine value canonically (type-insensitive for numbers that denote the
// same value: 1, int8(1), uint64(1) and decimal 1.00 print differently only by their digits).
func FormatValue(v any) string {
	switch x := v.(type) {
	case nil:
		return "NULL"
	case bool:
		if x {
			return "1"
		}
		return "0"
	case int, int8, int16, int32, int64, uint, uint8, uint16, uint32, uint64:
		return fmt.Sprintf("%d", x)
	case float32:
		return fmtFloat(float64(x))
	case float64:
		return fmtFloat(x)
	case *apd.Decimal:
		if x == nil {
			return "NULL"
		}
		return x.Text('f')
	case apd.Decimal:
		return x.Text('f')
	case string:
		return "'" + x + "'"
	case []byte:
		return "'" + string(x) + "'"
	case time.Time:
		return "'" + x.Format("2006-01-02 15:04:05.999999") + "'"
	case types.OkResult:
		return fmt.Sprintf("OK(affected=%d,insert_id=%d)", x.RowsAffected, x.InsertID)
	case types.Timespan:
		return "'" + x.String() + "'"
	case sql.JSONWrapper:
		s, err := types.JsonToMySqlString(context.Background(), x)
		if err != nil {
			return fmt.Sprintf("JSON!%v", err)
		}
		return s
	case sql.StringWrapper:
		s, err := x.Unwrap(context.Background())
		if err != nil {
			return fmt.Sprintf("WRAP!%v", err)
		}
		return "'" + s + "'"
	case sql.BytesWrapper:
		s, err := x.Unwrap(context.Background())
		if err != nil {
			return fmt.Sprintf("WRAP!%v", err)
		}
		return "'" + string(s) + "'"
	case fmt.Stringer:
		return x.String()
	default:
		return fmt.Sprintf("%v", x)
	}
}

func fmtFloat(f float64) string {
	if f == float64(int64(f)) && f > -1e15 && f < 1e15 {
		return fmt.Sprintf("%d", int64(f))
	}
	return fmt.Sprintf("%g", f)
}

// FormatRow renders a row as "(v1,v2,…)".
func FormatRow(r sql.Row) string {
	parts := make([]string, len(r))
	for i, v := range r {
		parts[i] = FormatValue(v)
	}
	return "(" + strings.Join(parts, ",") + ")"
}

// RowStrings renders all rows in result order.
func (r *Result) RowStrings() []string {
	out := make([]string, len(r.Rows))
	for i, row := range r.Rows {
		out[i] = FormatRow(row)
	}
	return out
}

// Multiset renders all rows sorted (multiset comparison).
func (r *Result) Multiset() []string {
	out := r.RowStrings()
	sort.Strings(out)
	return out
}

// Summary renders the outcome for messages: error class or sorted rows.
func (r *Result) Summary() string {
	if r.Panic != nil {
		return fmt.Sprintf("PANIC %v", r.Panic)
	}
	if r.Err != nil {
		return "ERR[" + ErrClass(r.Err) + "] " + r.Err.Error()
	}
	return strings.Join(r.Multiset(), " ")
}

func EqualStrings(a, b []string) bool {
	if len(a) != len(b) {
		return false
	}
	for i := range a {
		if a[i] != b[i] {
			return false
		}
	}
	return true
}

// Tables lists the tables of database db (sorted).
func (s *Session) Tables(db string) []string {
	r := s.Exec("show full tables from `" + db + "`")
	var out []string
	for _, row := range r.Rows {
		if len(row) >= 2 && fmt.Sprint(row[1]) == "BASE TABLE" {
			out = append(out, fmt.Sprint(row[0]))
		}
	}
	sort.Strings(out)
	return out
}

// Dump is a canonical dump of every base table of every database: SHOW CREATE TABLE text and the
// rows of a full scan, sorted.
func (s *Session) Dump() string {
	var sb strings.Builder
	for _, db := range s.Eng.DBs {
		for _, t := range s.Tables(db.Name()) {
			q := "`" + db.Name() + "`.`" + t + "`"
			sc := s.Exec("show create table " + q)
			if sc.Err != nil {
				fmt.Fprintf(&sb, "%s: SHOW CREATE ERR %v\n", q, sc.Err)
			} else if len(sc.Rows) == 1 {
				fmt.Fprintf(&sb, "%s\n", sc.Rows[0][1])
			}
			rows := s.Exec("select * from " + q)
			if rows.Err != nil {
				fmt.Fprintf(&sb, "  ERR %v\n", rows.Err)
				continue
			}
			for _, r := range rows.Multiset() {
				fmt.Fprintf(&sb, "  %s\n", r)
			}
		}
	}
	return sb.String()
}

// DumpRows is like Dump but only table contents (no DDL text).
func (s *Session) DumpRows() string {
	var sb strings.Builder
	for _, db := range s.Eng.DBs {
		for _, t := range s.Tables(db.Name()) {
			q := "`" + db.Name() + "`.`" + t + "`"
			rows := s.Exec("select * from " + q)
			fmt.Fprintf(&sb, "%s:", q)
			if rows.Err != nil {
				fmt.Fprintf(&sb, " ERR %v\n", rows.Err)
				continue
			}
			fmt.Fprintf(&sb, " %s\n", strings.Join(rows.Multiset(), " "))
		}
	}
	return sb.String()
}
