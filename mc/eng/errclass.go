package eng

import (
	"runtime/debug"
	"strings"

	"github.com/dolthub/go-mysql-server/sql"
	"github.com/dolthub/go-mysql-server/sql/analyzer"
	"github.com/dolthub/go-mysql-server/sql/types"
	"github.com/dolthub/vitess/go/mysql"
)

func analyzerDefault(pro sql.DatabaseProvider) *analyzer.Analyzer { return analyzer.NewDefault(pro) }

func stack() string { return string(debug.Stack()) }

// ErrClass maps an engine error to a coarse class; checks compare classes, never messages.
func ErrClass(err error) string {
	if err == nil {
		return "ok"
	}
	msg := err.Error()
	if strings.HasPrefix(msg, "panic:") {
		return "panic"
	}
	switch {
	case sql.ErrPrimaryKeyViolation.Is(err), sql.ErrUniqueKeyViolation.Is(err), sql.ErrDuplicateEntry.Is(err):
		return "duplicate-key"
	case sql.ErrForeignKeyChildViolation.Is(err), sql.ErrForeignKeyParentViolation.Is(err), sql.ErrForeignKeyNotResolved.Is(err):
		return "fk-violation"
	case sql.ErrCheckConstraintViolated.Is(err):
		return "check"
	case sql.ErrInsertIntoNonNullableProvidedNull.Is(err), sql.ErrInsertIntoNonNullableDefaultNullColumn.Is(err):
		return "not-null"
	case sql.ErrValueOutOfRange.Is(err), types.ErrLengthBeyondLimit.Is(err):
		return "out-of-range"
	case sql.ErrPrivilegeCheckFailed.Is(err), sql.ErrDatabaseAccessDeniedForUser.Is(err), sql.ErrTableAccessDeniedForUser.Is(err):
		return "privilege"
	case sql.ErrReadOnly.Is(err), sql.ErrReadOnlyTransaction.Is(err), sql.ErrDatabaseWriteLocked.Is(err):
		return "read-only"
	case sql.ErrUnsupportedFeature.Is(err), sql.ErrUnsupportedSyntax.Is(err):
		return "unsupported"
	case sql.ErrSyntaxError.Is(err):
		return "parse"
	case sql.ErrLockDeadlock.Is(err):
		return "deadlock"
	}
	if se, ok := err.(*mysql.SQLError); ok {
		switch se.Number() {
		case mysql.ERDupEntry:
			return "duplicate-key"
		case mysql.ERParseError:
			return "parse"
		case mysql.ERDataOutOfRange, 1264, 1406:
			return "out-of-range"
		}
	}
	c := sql.CastSQLError(err)
	if c != nil {
		switch c.Number() {
		case mysql.ERDupEntry:
			return "duplicate-key"
		case mysql.ERParseError:
			return "parse"
		case mysql.ERBadNullError:
			return "not-null"
		case mysql.ERNotSupportedYet:
			return "unsupported"
		}
	}
	low := strings.ToLower(msg)
	switch {
	case strings.Contains(low, "syntax error"):
		return "parse"
	case strings.Contains(low, "out of range"):
		return "out-of-range"
	case strings.Contains(low, "unsupported") || strings.Contains(low, "not supported") || strings.Contains(low, "not yet implemented") || strings.Contains(low, "not implemented"):
		return "unsupported"
	case strings.Contains(low, "too long") || strings.Contains(low, "too large"):
		return "out-of-range"
	}
	return "other"
}
