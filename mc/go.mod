module verif/mc

go 1.26.2

require (
	github.com/anishathalye/porcupine v1.3.0
	github.com/dolthub/go-mysql-server v0.0.0
)

replace github.com/dolthub/go-mysql-server => /repo
