// Package hist is the explicit-state explorer over histories of a real system that cannot be
// cloned: a state is identified with a history that reaches it; a successor is computed by
// building a fresh system, replaying the history and applying one more operation.
//
// Breadth-first by depth. Up to UnmergedDepth every sequence is run; beyond it a history whose
// canonical state key was already reached (in this worker) is not expanded again (merging only
// prunes, so it is sound as long as equal keys have equal futures — properties put everything
// their oracle can observe into the key). A step on which the oracle reported a violation, or
// which the property declares not enabled, is not expanded.
//
// Work is sharded over worker subprocesses by the first ShardDepth operations.
package hist

import (
	"fmt"

	"verif/mc/core"
)

type Config struct {
	NOps          int
	MaxDepth      int
	UnmergedDepth int
	ShardDepth    int // default 2 (1 if MaxDepth < 2)
	// Step runs history h on a fresh system and applies the property's oracle to the LAST step
	// (earlier steps were checked when they were last). It returns the canonical key of the
	// reached state and whether the state may be expanded.
	Step func(h []int) (key string, expand bool)
	// Label renders an operation for samples (optional).
	Label func(op int) string
}

// Disabled is returned as the key by Step for an operation that is not enabled in the reached
// state (protocol precondition): it is not counted as a transition and not expanded.
const Disabled = "\x00disabled"

type node struct {
	h []int
}

// Explore runs the search and records states/transitions/max_depth/merged counters into r.
func Explore(r *core.Run, c Config) {
	if c.ShardDepth == 0 {
		c.ShardDepth = 2
	}
	if c.ShardDepth > c.MaxDepth {
		c.ShardDepth = c.MaxDepth
	}
	seen := map[string]struct{}{}
	var frontier []node
	label := func(h []int) any {
		if c.Label == nil {
			return h
		}
		out := make([]string, len(h))
		for i, op := range h {
			out[i] = c.Label(op)
		}
		return out
	}

	// Phase 1: enumerate prefixes of length ShardDepth owned by this worker.
	var prefixes [][]int
	var gen func(p []int)
	idx := int64(0)
	gen = func(p []int) {
		if len(p) == c.ShardDepth {
			if r.Mine(idx) {
				prefixes = append(prefixes, append([]int{}, p...))
			}
			idx++
			return
		}
		for op := 0; op < c.NOps; op++ {
			gen(append(p, op))
		}
	}
	gen(nil)

	// validity/expandability cache for proper prefixes of the shard prefixes
	type pe struct{ expand bool }
	pcache := map[string]pe{}
	stepCounted := func(h []int, count bool) (string, bool) {
		key, expand := c.Step(h)
		if key == Disabled {
			return key, false
		}
		if count {
			r.Eval()
			r.Count("transitions", 1)
			r.Max("max_depth", int64(len(h)))
			if !expand {
				r.Count("not_expanded", 1)
			}
			if r.WantSample() && len(h) == c.MaxDepth {
				r.Sample(map[string]any{"history": label(h), "state_key_hash": fmt.Sprintf("%x", hashKey(key))})
			}
		}
		return key, expand
	}
	for _, p := range prefixes {
		if r.Expired() {
			r.Capped("time budget reached while expanding shard prefixes")
			break
		}
		ok := true
		for k := 1; k < len(p) && ok; k++ {
			ks := fmt.Sprint(p[:k])
			e, have := pcache[ks]
			if !have {
				// this worker counts the proper prefix only if the remainder is all zeros
				count := true
				for _, x := range p[k:] {
					if x != 0 {
						count = false
					}
				}
				key, expand := stepCounted(p[:k], count)
				if count && key != Disabled {
					if _, dup := seen[key]; !dup {
						seen[key] = struct{}{}
						r.Count("states", 1)
					}
				}
				e = pe{expand}
				pcache[ks] = e
			}
			ok = e.expand
		}
		if !ok {
			continue
		}
		key, expand := stepCounted(p, true)
		if key == Disabled {
			continue
		}
		if _, dup := seen[key]; !dup {
			seen[key] = struct{}{}
			r.Count("states", 1)
		} else if len(p) > c.UnmergedDepth {
			r.Count("merged", 1)
			continue
		}
		if expand {
			frontier = append(frontier, node{p})
		}
	}

	// Phase 2: BFS below the prefixes.
	for depth := c.ShardDepth + 1; depth <= c.MaxDepth && len(frontier) > 0; depth++ {
		var next []node
		for _, n := range frontier {
			if r.Expired() {
				r.Capped(fmt.Sprintf("time budget reached at depth %d (depth %d complete)", depth, depth-1))
				return
			}
			for op := 0; op < c.NOps; op++ {
				h := append(append(make([]int, 0, len(n.h)+1), n.h...), op)
				key, expand := stepCounted(h, true)
				if key == Disabled {
					continue
				}
				_, dup := seen[key]
				if !dup {
					seen[key] = struct{}{}
					r.Count("states", 1)
				} else if depth > c.UnmergedDepth {
					r.Count("merged", 1)
					continue
				}
				if expand && depth < c.MaxDepth {
					next = append(next, node{h})
				}
			}
		}
		frontier = next
	}
}

func hashKey(s string) uint64 {
	var h uint64 = 14695981039346656037
	for i := 0; i < len(s); i++ {
		h ^= uint64(s[i])
		h *= 1099511628211
	}
	return h
}
