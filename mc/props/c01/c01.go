// Package c01 — query results do not depend on the physical plan chosen.
//
// For every join/subquery query of the grammar and every database of the family, EVERY
// alternative the optimizer's memo contains is forced (one deviation from the default cost model
// at a time, through the pluggable memo.Coster seam), plus every join hint, and the result of each
// forced plan is compared with the default plan's result.
package c01

import (
	"encoding/json"
	"fmt"
	"sort"
	"strings"

	"verif/mc/core"
	"verif/mc/eng"
	"verif/mc/qgen"
	"verif/mc/qrun"
)

var hints2 = []string{"", "MERGE_JOIN(t,u)", "HASH_JOIN(t,u)", "LOOKUP_JOIN(t,u)", "LOOKUP_JOIN(u,t)", "INNER_JOIN(t,u)", "JOIN_ORDER(t,u)", "JOIN_ORDER(u,t)", "NO_MERGE_JOIN", "LEFT_OUTER_LOOKUP_JOIN(t,u)", "SEMI_JOIN(t,s)", "ANTI_JOIN(t,s)", "MERGE_JOIN(t,s)", "HASH_JOIN(t,s)", "LOOKUP_JOIN(t,s)", "NO_ICP", "LEFT_DEEP"}

var quickTier bool

func coster(l *qrun.Loaded) *qrun.ChoiceCoster {
	if c, ok := l.Aux.(*qrun.ChoiceCoster); ok {
		return c
	}
	c := qrun.NewChoiceCoster()
	l.Eng.E.Analyzer.Coster = c
	l.Aux = c
	return c
}

type runOut struct {
	rows  []string
	err   string
	panic string
	plan  string
}

func exec(l *qrun.Loaded, cc *qrun.ChoiceCoster, sql string, ordered bool, force map[int]int) runOut {
	cc.Reset(force)
	res := l.Sess.Exec(sql)
	var o runOut
	if res.Panic != nil {
		o.panic = fmt.Sprint(res.Panic) + " @" + core.TopFrame(res.Stack)
		return o
	}
	if res.Err != nil {
		o.err = eng.ErrClass(res.Err) + ": " + res.Err.Error()
		return o
	}
	o.rows = qrun.NormRows(res)
	if !ordered {
		sort.Strings(o.rows)
	}
	return o
}

func planOf(l *qrun.Loaded, cc *qrun.ChoiceCoster, sql string, force map[int]int) string {
	cc.Reset(force)
	p, err := l.Sess.Plan(sql)
	if err != nil {
		return "ERR"
	}
	return qrun.PlanOps(p)
}

// Stats shared with the run for evidence.
var opKindsSeen = map[string]bool{}

func oracle(c qrun.Case) (*qrun.Failure, bool, bool) {
	cc := coster(c.DB)
	ordered := len(c.G.Q.OrderBy) > 0
	base := c.G.Q.Hint
	defer func() { c.G.Q.Hint = base }()
	c.G.Q.Hint = ""
	sql0 := c.G.SQL()
	r0 := exec(c.DB, cc, sql0, ordered, nil)
	if r0.err != "" && qrunUnsupported(c, r0.err) {
		return nil, true, false
	}
	arity := append([]int{}, cc.Arity...)
	fingerprint := c.DB.Spec.Family == "star" || c.DB.Spec.Family == "ministar" || strings.HasSuffix(c.DB.Spec.Family, "-min")
	plan0 := ""
	if fingerprint {
		plan0 = planOf(c.DB, cc, sql0, nil)
	}
	plans := map[string]bool{plan0: true}
	forcedRuns := 0
	cmp := func(how string, o runOut, sqlx string, force map[int]int) *qrun.Failure {
		forcedRuns++
		plan := ""
		differs := o.panic != "" || (o.err != "") != (r0.err != "") || (o.err == "" && !qrun.Equal(o.rows, r0.rows))
		if fingerprint || differs {
			plan = planOf(c.DB, cc, sqlx, force)
			if plan0 == "" {
				plan0 = planOf(c.DB, cc, sql0, nil)
			}
			plans[plan] = true
			for _, op := range strings.Split(plan, "+") {
				opKindsSeen[op] = true
			}
		}
		pair := plan0 + " vs " + plan
		switch {
		case o.panic != "":
			return &qrun.Failure{Clause: "plan-dependence", Kind: "panic", Observed: how + ": " + o.panic, Expected: strings.Join(r0.rows, " ") + r0.err, Extra: map[string]string{"plans": pair}}
		case (o.err != "") != (r0.err != ""):
			return &qrun.Failure{Clause: "plan-dependence", Kind: "error-vs-rows", Observed: how + ": " + o.err + strings.Join(o.rows, " "), Expected: "default plan: " + r0.err + strings.Join(r0.rows, " "), Extra: map[string]string{"plans": pair}}
		case o.err == "" && !qrun.Equal(o.rows, r0.rows):
			return &qrun.Failure{Clause: "plan-dependence", Kind: qrun.DiffKind(o.rows, r0.rows), Observed: how + ": " + strings.Join(o.rows, " "), Expected: "default plan (" + plan0 + "): " + strings.Join(r0.rows, " "), Extra: map[string]string{"plans": pair}}
		}
		return nil
	}
	var fail *qrun.Failure
	// every memo alternative, one deviation at a time
	for ord, k := range arity {
		if k < 2 {
			continue
		}
		for pos := 0; pos < k; pos++ {
			force := map[int]int{ord: pos}
			o := exec(c.DB, cc, sql0, ordered, force)
			if f := cmp(fmt.Sprintf("forced alternative %d of choice point %d", pos, ord), o, sql0, force); f != nil && fail == nil {
				fail = f
			}
		}
	}
	// every hint (quick tier: single-slot queries only)
	for _, h := range hints2[1:] {
		if quickTier && len(c.G.Tags) > 1 {
			break
		}
		if strings.Contains(h, ",s)") && !strings.Contains(sql0, " AS s") {
			continue
		}
		if strings.Contains(h, "(t,u)") || strings.Contains(h, "(u,t)") {
			if !strings.Contains(sql0, " u") {
				continue
			}
		}
		c.G.Q.Hint = h
		sqlh := c.G.SQL()
		o := exec(c.DB, cc, sqlh, ordered, nil)
		if f := cmp("hint "+h, o, sqlh, nil); f != nil && fail == nil {
			fail = f
		}
	}
	c.G.Q.Hint = ""
	if fingerprint {
		return fail, false, len(plans) >= 2
	}
	return fail, false, forcedRuns >= 2
}

func qrunUnsupported(c qrun.Case, errText string) bool {
	cl := errText[:strings.Index(errText, ":")]
	if cl == "unsupported" {
		return true
	}
	for _, k := range c.G.Classes() {
		for pre, want := range qrun.UnsupportedProfile {
			if strings.HasPrefix(k, pre) && cl == want {
				return true
			}
		}
	}
	return false
}

func joinOrSub(g qgen.GQ) bool {
	if quickTier && len(g.Tags) > 1 {
		// quick: two-slot queries must pair a join/subquery/set slot with a filter, grouping or
		// another join/subquery slot (order/distinct on top do not create new plans)
		for _, c := range g.Classes() {
			if strings.HasPrefix(c, "order") || strings.HasPrefix(c, "distinct") {
				return false
			}
		}
	}
	for _, c := range g.Classes() {
		if strings.HasPrefix(c, "join") || strings.HasPrefix(c, "sub:") || strings.HasPrefix(c, "set:") {
			return true
		}
	}
	return false
}

func init() {
	core.Register(&core.Prop{
		ID:    "C01",
		Level: "exploration",
		Rule: "every query of Q(2) that contains a join, a subquery predicate or a set operation (2-3 tables) x every database of the family x {default plan, EVERY alternative of EVERY costed memo group forced singly through the memo.Coster seam (choice DFS, 1 deviation), every join hint}; " +
			"oracle: each forced plan returns the same multiset (sequence under ORDER BY) as the default plan, and errors/panics agree; non-trivial = at least two distinct physical plans (operator fingerprints of EXPLAIN, measured on the DB* databases) actually executed for the (query, database); on the small databases: at least two forced alternatives/hints executed",
		Assumptions: []string{"one forced deviation from the default cost model at a time (not every simultaneous combination)", "a choice point is a costed memo group identified by first-costed order within one analysis"},
		QuickBudget: 90, ThoroughBudget: 1500,
		Run: func(r *core.Run) {
			quickTier = r.Quick()
			cfg := qrun.Config{Depth: 2, Rep: true, MaxTables: 3, DBLevelSingle: 0, DBLevelMulti: -2, Oracle: oracle, Filter: joinOrSub}
			if r.Thorough() {
				cfg = qrun.Config{Depth: 2, Rep: false, MaxTables: 3, DBLevelSingle: 1, DBLevelMulti: 0, Oracle: oracle, Filter: joinOrSub}
			}
			qrun.Run(r, cfg)
			var ks []string
			for k := range opKindsSeen {
				ks = append(ks, k)
			}
			sort.Strings(ks)
			r.Info("plan_operators_executed", ks)
		},
		Replay: func(r *core.Run, w json.RawMessage) {
			var wit qrun.Witness
			if json.Unmarshal(w, &wit) != nil {
				return
			}
			g, ok := qrun.FindQuery(wit, 2, 3)
			if !ok {
				return
			}
			c := qrun.Case{G: g, DB: qrun.Load(wit.Spec)}
			if f, skip, _ := oracle(c); !skip && f != nil {
				r.Violate(core.Violation{Clause: f.Clause, Kind: f.Kind, Subject: qrun.Subject(c, f), Witness: w, Observed: f.Observed, Expected: f.Expected})
			}
		},
	})
}
