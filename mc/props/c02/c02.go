// Package c02 — query results match the SQL definition of the query.
//
// Every query of the standard grammar Q(d) is executed by the real engine on every database of the
// standard family and compared with the definitional evaluator sqlref on the same AST and data.
package c02

import (
	"encoding/json"
	"strings"

	"verif/mc/core"
	"verif/mc/qrun"
	"verif/mc/sqlref"
)

func oracle(c qrun.Case) (*qrun.Failure, bool, bool) {
	res := c.DB.Sess.Exec(c.G.SQL())
	ref, rerr := sqlref.Eval(c.G.Q, c.DB.Ref)
	if res.Panic != nil {
		return &qrun.Failure{Clause: "ref-mismatch", Kind: "panic", Observed: res.Summary(), Extra: map[string]string{"frame": core.TopFrame(res.Stack)}}, false, true
	}
	if res.Err != nil {
		if qrun.Unsupported(c.G, res.Err) {
			return nil, true, false
		}
		if rerr != nil {
			return nil, false, true // both reject (e.g. scalar subquery with more than one row)
		}
		return &qrun.Failure{Clause: "ref-mismatch", Kind: "error-vs-rows", Observed: res.Summary(), Expected: strings.Join(ref.Multiset(), " ")}, false, true
	}
	if rerr != nil {
		return &qrun.Failure{Clause: "ref-mismatch", Kind: "rows-vs-error", Observed: res.Summary(), Expected: rerr.Error()}, false, true
	}
	got := qrun.NormRows(res)
	if ref.Ordered {
		want := ref.Sequence()
		if !qrun.Equal(got, want) {
			return &qrun.Failure{Clause: "ref-mismatch", Kind: qrun.DiffKind(got, want), Observed: strings.Join(got, " "), Expected: strings.Join(want, " ")}, false, true
		}
	} else {
		g, want := qrun.Sorted(got), ref.Multiset()
		if !qrun.Equal(g, want) {
			return &qrun.Failure{Clause: "ref-mismatch", Kind: qrun.DiffKind(g, want), Observed: strings.Join(g, " "), Expected: strings.Join(want, " ")}, false, true
		}
	}
	return nil, false, len(ref.Rows) > 0
}

func init() {
	core.Register(&core.Prop{
		ID:    "C02",
		Level: "exploration",
		Rule: "every query of the grammar Q(2) (base SELECT over t with <=2 of the feature slots join[2-3 tables]/filter/subquery predicate/grouping+aggregates/DISTINCT/set operation/ORDER BY+LIMIT; quick: representative alternatives when two slots combine, thorough: all) " +
			"on every database of the family (DB*: every row over {NULL,0,1,2}^2 plus duplicates, 3 layouts; every assignment of <=1 row over {NULL,1,2}^2 to t and u; every pair of <=2-row PK tables; quick uses a subset for two-slot queries); " +
			"engine result vs the definitional evaluator sqlref (3VL, NULL-aware IN/NOT IN/ANY/ALL, outer-join padding, aggregates skip NULLs, set operations with multiset semantics), rows compared as multisets, as sequences under a total ORDER BY; " +
			"non-trivial = the reference result is non-empty",
		Assumptions: []string{"integer columns over {NULL,0,1,2}; numeric results compared as exact rationals rounded to 3 decimals (AVG scale)", "constructs the engine rejects as unsupported are outside the domain (counted)"},
		QuickBudget: 75, ThoroughBudget: 1200,
		Run: func(r *core.Run) {
			cfg := qrun.Config{Depth: 2, Rep: true, MaxTables: 3, DBLevelSingle: 1, DBLevelMulti: 0, Oracle: oracle}
			if r.Thorough() {
				cfg = qrun.Config{Depth: 2, Rep: false, MaxTables: 3, DBLevelSingle: 2, DBLevelMulti: 1, Oracle: oracle}
			}
			qrun.Run(r, cfg)
		},
		Replay: func(r *core.Run, w json.RawMessage) {
			var wit qrun.Witness
			if json.Unmarshal(w, &wit) != nil {
				return
			}
			g, ok := qrun.FindQuery(wit, 2, 3)
			if !ok {
				return
			}
			c := qrun.Case{G: g, DB: qrun.Load(wit.Spec)}
			if f, skip, _ := oracle(c); !skip && f != nil {
				subj := qrun.Subject(c, f)
				r.Violate(core.Violation{Clause: f.Clause, Kind: f.Kind, Subject: subj, Witness: w, Observed: f.Observed, Expected: f.Expected})
			}
		},
	})
}
