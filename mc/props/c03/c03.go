// Package c03 — index lookups return exactly the rows a full scan would.
//
// Metamorphic, reference-free: twin tables ti (with one index shape) and ts (no index) hold the
// same rows; every filter of a bounded grammar over the indexed columns is run against both and
// the two outcomes (row multisets, or error classes) must agree. The literals of the filters
// range over the type's value image D' plus out-of-type values (min-1, max+1, fractional for an
// integer column, non-numeric strings, longer-than-column strings, wrong-type literals) — the
// inputs index_builder.go's convertKey / ceil / floor branches on.
package c03

import (
	"encoding/json"
	"fmt"
	"sort"
	"strings"

	"verif/mc/core"
	"verif/mc/eng"
)

type fixture struct {
	tc   typeConfig
	sh   shape
	rows [][]string
	sess *eng.Session
}

func insertSQL(table string, rows [][]string) []string {
	var out []string
	const chunk = 64
	for i := 0; i < len(rows); i += chunk {
		j := i + chunk
		if j > len(rows) {
			j = len(rows)
		}
		var vs []string
		for _, r := range rows[i:j] {
			vs = append(vs, "("+strings.Join(r, ",")+")")
		}
		out = append(out, "INSERT INTO "+table+" VALUES "+strings.Join(vs, ","))
	}
	return out
}

func loadDDL(tiDDL, tsDDL string, rows [][]string) *eng.Session {
	e := eng.New()
	s := e.NewSession("root")
	s.MustExec(tiDDL)
	s.MustExec(tsDDL)
	for _, q := range insertSQL("ti", rows) {
		s.MustExec(q)
	}
	for _, q := range insertSQL("ts", rows) {
		s.MustExec(q)
	}
	return s
}

func load(tc typeConfig, sh shape, rows [][]string) *fixture {
	ti, ts := ddl(tc, sh)
	return &fixture{tc: tc, sh: sh, rows: rows, sess: loadDDL(ti, ts, rows)}
}

type outcome struct {
	rows  []string // sorted
	err   string   // error class
	msg   string
	pan   string
	frame string
}

func (o outcome) String() string {
	switch {
	case o.pan != "":
		return "PANIC " + o.pan + " @" + o.frame
	case o.err != "":
		return "ERR[" + o.err + "] " + o.msg
	}
	return fmt.Sprintf("%d rows: %s", len(o.rows), strings.Join(o.rows, " "))
}

func topFrame(stack string) string {
	lines := strings.Split(stack, "\n")
	seenPanic := false
	for _, l := range lines {
		if strings.HasPrefix(l, "panic(") {
			seenPanic = true
			continue
		}
		if !seenPanic || strings.HasPrefix(l, "\t") || l == "" {
			continue
		}
		if strings.HasPrefix(l, "runtime.") || strings.HasPrefix(l, "runtime/") {
			continue
		}
		if j := strings.LastIndex(l, "("); j > 0 {
			l = l[:j]
		}
		return l
	}
	return core.TopFrame(stack)
}

func run(s *eng.Session, q string) outcome {
	r := s.Exec(q)
	if r.Panic != nil {
		return outcome{pan: fmt.Sprint(r.Panic), frame: topFrame(r.Stack)}
	}
	if r.Err != nil {
		return outcome{err: eng.ErrClass(r.Err), msg: r.Err.Error()}
	}
	return outcome{rows: r.Multiset()}
}

type failure struct {
	kind     string
	obs, exp string
	diff     []string // rows in exactly one of the results
	frame    string
	errClass string // class of the error of the side that failed (error kinds)
	nonEmpty string // "yes" when the side that answered returned at least one row (error/panic kinds)
}

// compare runs the filter against both twins. indexed: plan of the ti query uses the index;
// dropped: no Filter node remains above the index access.
func compare(s *eng.Session, where string) (f *failure, oi, os outcome) {
	oi = run(s, "SELECT * FROM ti WHERE "+where)
	os = run(s, "SELECT * FROM ts WHERE "+where)
	switch {
	case oi.pan != "" || os.pan != "":
		fr := oi.frame
		if fr == "" {
			fr = os.frame
		}
		return &failure{kind: "panic", obs: "indexed: " + oi.String(), exp: "full scan: " + os.String(), frame: fr, nonEmpty: yn(len(oi.rows)+len(os.rows) > 0)}, oi, os
	case oi.err != "" && os.err != "":
		if oi.err != os.err {
			return &failure{kind: "error-class-differs", obs: "indexed: " + oi.String(), exp: "full scan: " + os.String(), errClass: oi.err + "/" + os.err}, oi, os
		}
		return nil, oi, os
	case oi.err != "":
		return &failure{kind: "error-vs-rows", obs: "indexed: " + oi.String(), exp: "full scan: " + os.String(), errClass: oi.err, nonEmpty: yn(len(os.rows) > 0)}, oi, os
	case os.err != "":
		return &failure{kind: "rows-vs-error", obs: "indexed: " + oi.String(), exp: "full scan: " + os.String(), errClass: os.err, nonEmpty: yn(len(oi.rows) > 0)}, oi, os
	}
	if eng.EqualStrings(oi.rows, os.rows) {
		return nil, oi, os
	}
	gi, gs := map[string]int{}, map[string]int{}
	for _, x := range oi.rows {
		gi[x]++
	}
	for _, x := range os.rows {
		gs[x]++
	}
	missing, extra := false, false
	var diff []string
	for k, n := range gs {
		if gi[k] < n {
			missing = true
			diff = append(diff, k)
		}
	}
	for k, n := range gi {
		if gs[k] < n {
			extra = true
			diff = append(diff, k)
		}
	}
	sort.Strings(diff)
	kind := "missing-rows"
	if missing && extra {
		kind = "wrong-rows"
	} else if extra {
		kind = "extra-rows"
	}
	return &failure{kind: kind, obs: "indexed: " + oi.String(), exp: "full scan: " + os.String(), diff: diff}, oi, os
}

// planInfo classifies the analysed plan of the ti query.
func planInfo(s *eng.Session, where string) (indexed, dropped bool, plan string) {
	p, err := s.Plan("SELECT * FROM ti WHERE " + where)
	if err != nil {
		return false, false, "ERR " + err.Error()
	}
	indexed = strings.Contains(p, "IndexedTableAccess")
	dropped = indexed && !strings.Contains(p, "Filter")
	return indexed, dropped, p
}

type witness struct {
	Type    string            `json:"type"`
	Shape   string            `json:"shape"`
	DDL     []string          `json:"ddl"`
	Rows    [][]string        `json:"rows"`
	Where   string            `json:"where"`
	Subject map[string]string `json:"subject"`
	Plan    string            `json:"plan,omitempty"`
}

func yn(b bool) string {
	if b {
		return "yes"
	}
	return ""
}

func rowKey(r []string) string { return strings.Join(r, ",") }

// fmtRowLike renders a row of SQL literals the way eng.FormatRow renders the stored value (used
// only to map differing result rows back to inserted rows; a miss just skips that shortcut).
func matchRows(all [][]string, s *eng.Session, diff []string) [][]string {
	// find inserted rows whose stored rendering is in diff: query ts row by row is expensive, so
	// use position: SELECT * FROM ts returns in insertion order for an index-free memory table.
	r := s.Exec("SELECT * FROM ts")
	if r.Err != nil || len(r.Rows) != len(all) {
		return nil
	}
	want := map[string]bool{}
	for _, d := range diff {
		want[d] = true
	}
	var out [][]string
	seen := map[string]bool{}
	for i, row := range r.RowStrings() {
		if want[row] && !seen[rowKey(all[i])] {
			seen[rowKey(all[i])] = true
			out = append(out, all[i])
		}
	}
	return out
}

var negOp = map[string]string{"=": "<>", "<>": "=", "<": ">=", ">=": "<", ">": "<=", "<=": ">", "<=>": "NOT <=>", "IN": "NOT IN", "NOT IN": "IN",
	"BETWEEN": "NOT BETWEEN", "NOT BETWEEN": "BETWEEN", "IS NULL": "IS NOT NULL", "IS NOT NULL": "IS NULL", "LIKE": "NOT LIKE", "NOT LIKE": "LIKE"}

func indexClass(sh shape) string {
	switch {
	case sh.StrOnly:
		return "prefix"
	case len(sh.NotNull) > 0:
		return "primary"
	case len(sh.Unique) > 0:
		return "unique"
	}
	return "secondary"
}

// subjectOf computes the classifying coordinates of a (minimised) failing case: column type(s),
// index class, the operators and connectives of the filter in negation normal form, the classes
// of its literals, and the error class / panic frame.
func subjectOf(tc typeConfig, sh shape, n *node, f *failure) map[string]string {
	var ops, lits, cts, cs []string
	inType, outType := 0, 0
	var walk func(x *node, neg bool)
	walk = func(x *node, neg bool) {
		switch x.Op {
		case "NOT":
			walk(x.Kids[0], !neg)
			return
		case "AND", "OR":
			op := x.Op
			if neg {
				op = map[string]string{"AND": "OR", "OR": "AND"}[op]
			}
			cs = append(cs, op)
			for _, k := range x.Kids {
				walk(k, neg)
			}
			return
		}
		op := x.opName()
		if neg {
			op = negOp[op]
		}
		ops = append(ops, op)
		cts = append(cts, tc.Cols[x.Col].Name)
		for _, l := range x.L {
			lits = append(lits, l.Class)
			if l.Class == "in" || l.Class == "null" || l.Class == "pattern" {
				inType++
			} else {
				outType++
			}
		}
	}
	walk(n, false)
	mix := "in-type-only"
	switch {
	case outType > 0 && inType > 0:
		mix = "mixed"
	case outType > 0:
		mix = "out-of-type-only"
	}
	subj := map[string]string{
		"coltype": uniqSorted(cts),
		"index":   indexClass(sh),
		"ops":     uniqSorted(ops),
		"lits":    uniqSorted(lits),
		"lit_mix": mix,
		"conn":    uniqSorted(cs),
	}
	if f.errClass != "" {
		subj["err"] = f.errClass
	}
	if f.frame != "" {
		subj["frame"] = f.frame
	}
	return subj
}

// negated returns the atom equivalent to NOT(leaf) where the grammar has one.
func negated(l *node) *node {
	if l.Op != "" {
		return nil
	}
	k, ok := negOp[l.opName()]
	if !ok || k == "NOT <=>" {
		return nil
	}
	return &node{Col: l.Col, Kind: k, L: l.L}
}

// shrink reduces a failing filter over the loaded fixture (cheap: two queries per candidate):
// any proper subtree that fails with the same kind, then any simpler atom derived from a leaf.
func shrink(fx *fixture, n *node, f *failure) (*node, *failure) {
	for changed := true; changed; {
		changed = false
		var cands []*node
		var collect func(x *node)
		collect = func(x *node) {
			for _, k := range x.Kids {
				cands = append(cands, k)
				collect(k)
			}
		}
		collect(n)
		sort.SliceStable(cands, func(i, j int) bool { return cands[i].size() < cands[j].size() })
		if n.Op == "" {
			cands = n.simpler()
		}
		if n.Op == "NOT" { // NOT(A op B) -> NOT A, NOT B ; NOT(atom) -> the negated atom
			in := n.Kids[0]
			var extra []*node
			for _, k := range in.Kids {
				extra = append(extra, &node{Op: "NOT", Kids: []*node{k}})
			}
			if na := negated(in); na != nil {
				extra = append(extra, na)
			}
			cands = append(extra, cands...)
		}
		for _, c := range cands {
			if nf, _, _ := compare(fx.sess, c.String()); nf != nil && nf.kind == f.kind {
				n, f, changed = c, nf, true
				break
			}
		}
	}
	return n, f
}

type minimal struct {
	n    *node
	rows [][]string
	f    *failure
	plan string
}

// minimise shrinks a failing case: the filter first, then the rows: one row (preferring a row
// for which the side that does answer returns it), else no row, else the differing rows, else
// the whole table. The failure kind is preserved throughout.
func minimise(fx *fixture, n *node, f *failure, cache map[string]*minimal) *minimal {
	n, f = shrink(fx, n, f)
	where := n.String()
	if m, ok := cache[where]; ok {
		return m
	}
	try := func(rows [][]string) (*failure, string) {
		s := load(fx.tc, fx.sh, rows).sess
		nf, _, _ := compare(s, where)
		if nf == nil || nf.kind != f.kind {
			return nil, ""
		}
		_, _, plan := planInfo(s, where)
		return nf, plan
	}
	done := func(rows [][]string, nf *failure, plan string) *minimal {
		m := &minimal{n: n, rows: rows, f: nf, plan: plan}
		cache[where] = m
		return m
	}
	var cands [][]string
	if len(f.diff) > 0 {
		cands = matchRows(fx.rows, fx.sess, f.diff)
	} else {
		cands = fx.rows
		if len(cands) > 80 { // a spread of the table: every stride-th row
			var sp [][]string
			for i := 0; i < len(cands); i += (len(cands) + 79) / 80 {
				sp = append(sp, cands[i])
			}
			cands = sp
		}
	}
	var fallback *minimal
	for _, r := range cands {
		if nf, plan := try([][]string{r}); nf != nil {
			if nf.nonEmpty == "yes" || len(f.diff) > 0 {
				return done([][]string{r}, nf, plan)
			}
			if fallback == nil {
				fallback = &minimal{n: n, rows: [][]string{r}, f: nf, plan: plan}
			}
		}
	}
	if nf, plan := try(nil); nf != nil {
		return done(nil, nf, plan)
	}
	if fallback != nil {
		cache[where] = fallback
		return fallback
	}
	if len(cands) > 0 && len(cands) < len(fx.rows) {
		if nf, plan := try(cands); nf != nil {
			return done(cands, nf, plan)
		}
	}
	_, _, plan := planInfo(fx.sess, where)
	return done(fx.rows, f, plan)
}

func report(r *core.Run, fx *fixture, n *node, f *failure, cache map[string]*minimal) {
	m := minimise(fx, n, f, cache)
	ti, ts := ddl(fx.tc, fx.sh)
	subj := subjectOf(fx.tc, fx.sh, m.n, m.f)
	w := witness{Type: fx.tc.Name, Shape: fx.sh.Name, DDL: []string{ti, ts}, Rows: m.rows, Where: m.n.String(), Subject: subj, Plan: m.plan}
	r.Violate(core.Violation{Check: "index-vs-scan", Clause: "same-rows", Kind: m.f.kind, Subject: subj, Witness: core.J(w), Observed: m.f.obs, Expected: m.f.exp})
}

func init() {
	core.Register(&core.Prop{
		ID:    "C03",
		Level: "exploration",
		Rule: "every (column type, index shape, filter): twin tables ti (index shape in {KEY(a), KEY(a,b), KEY(a,b,c), PRIMARY KEY(a), PRIMARY KEY(a,b), UNIQUE(b), KEY(a(2)) prefix}) and ts (no index) holding all of D'^k once " +
			"(k = 2 or 3 table columns; the maximal duplicate-free subset for unique shapes), D' = {NULL, min, -1/0/1, max} image of TINYINT, INT UNSIGNED, BIGINT, DECIMAL(4,1), VARCHAR(4) utf8mb4_0900_bin / _ai_ci, DATE and one mixed-type table; " +
			"filters = every atom (= <> < <= > >= <=> both operand orders, [NOT] IN lists, [NOT] BETWEEN, IS [NOT] NULL, [NOT] LIKE, NOT atom) over every indexed column with literals over D' plus out-of-type literals (min-1, max+1, fractional, float, numeric/junk strings, over-long strings, wrong-type), " +
			"every AND/OR pair (quick: representative x representative atoms; thorough: full x representative in both orders, incl. one non-indexed column) and depth-2 trees (A op B) op' C, NOT (A op B) over a small atom set; " +
			"oracle: SELECT * FROM ti WHERE p and SELECT * FROM ts WHERE p give the same row multiset or the same error class; non-trivial = the analysed plan of the ti query contains IndexedTableAccess",
		Assumptions: []string{"the index-free twin evaluates the filter row by row (plan.Filter over a table scan); no reference semantics is assumed, only agreement", "memory backend (in-memory indexes filter rows by the range expression built from the lookup)"},
		QuickBudget: 70, ThoroughBudget: 900,
		Run: func(r *core.Run) {
			idx := int64(0)
			capped := false
			for _, tc := range typeConfigs() {
				for _, sh := range shapes {
					if sh.StrOnly && !tc.Cols[0].Str {
						continue
					}
					if capped {
						break
					}
					var fx *fixture
					cache := map[string]*minimal{}
					nIndexed, nAll := int64(0), int64(0)
					forEachFilter(tc, sh, r.Thorough(), func(n *node) bool {
						idx++
						if !r.Mine(idx) {
							return true
						}
						if r.Expired() {
							r.Capped("time budget reached at " + tc.Name + " / " + sh.Name)
							capped = true
							return false
						}
						if fx == nil {
							fx = load(tc, sh, tableRows(tc, sh, r.Thorough()))
							r.Max("table_rows_max", int64(len(fx.rows)))
						}
						where := n.String()
						r.Eval()
						nAll++
						f, oi, _ := compare(fx.sess, where)
						indexed, dropped, plan := planInfo(fx.sess, where)
						cls := "full-scan-plan"
						if indexed {
							cls = "indexed"
							nIndexed++
							r.NonTrivial(tc.Name + "|" + sh.Name + "|" + where)
							r.Count("indexed/"+sh.Name, 1)
							if dropped {
								r.Count("filter_dropped/"+sh.Name, 1)
								cls = "indexed,filter-dropped"
							}
						}
						switch {
						case oi.err != "" && f == nil:
							if oi.err == "unsupported" {
								r.Count("skipped_unsupported", 1)
							}
							r.Outcome(cls + "/both-error:" + oi.err)
						case f != nil:
							r.Outcome(cls + "/" + f.kind)
						case len(oi.rows) == 0:
							r.Outcome(cls + "/equal-empty")
						case len(oi.rows) == len(fx.rows):
							r.Outcome(cls + "/equal-all-rows")
						default:
							r.Outcome(cls + "/equal-some-rows")
						}
						if indexed && f == nil && oi.err == "" && len(oi.rows) > 0 && len(oi.rows) < len(fx.rows) && idx%97 == 0 && r.WantSample() {
							r.Sample(map[string]any{"type": tc.Name, "shape": sh.Name, "where": where, "rows_in_table": len(fx.rows), "rows_returned": len(oi.rows), "plan": plan})
						}
						if f != nil {
							report(r, fx, n, f, cache)
						}
						return true
					})
					r.Count("cases/"+sh.Name, nAll)
				}
			}
			r.Info("type_configs", len(typeConfigs()))
			r.Info("shapes", len(shapes))
		},
		Replay: func(r *core.Run, w json.RawMessage) {
			var c witness
			if json.Unmarshal(w, &c) != nil || len(c.DDL) != 2 {
				return
			}
			s := loadDDL(c.DDL[0], c.DDL[1], c.Rows)
			f, _, _ := compare(s, c.Where)
			if f != nil {
				subj := c.Subject
				if f.frame != "" {
					subj["frame"] = f.frame
				}
				r.Violate(core.Violation{Check: "index-vs-scan", Clause: "same-rows", Kind: f.kind, Subject: subj, Witness: w, Observed: f.obs, Expected: f.exp})
			}
		},
	})
}
