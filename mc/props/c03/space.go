package c03

import (
	"sort"
	"strings"
)

// ---------------------------------------------------------------------------------------------
// alphabet: column types, their value image D' and the literals filters range over
// ---------------------------------------------------------------------------------------------

type lit struct {
	SQL   string
	Class string // in | null | oor-low | oor-high | frac | float | numstr | junkstr | wrong-type | long | case | datetime | zero-date | invalid-date | pad
}

type colType struct {
	Name string // label used in subjects
	DDL  string
	Str  bool
	Vals []string // D' as SQL literals; Vals[0] == "NULL"
	Out  []lit    // out-of-type literals
	Like []string // LIKE patterns (strings only)
	Tiny []int    // indices into lits() used for the smallest representative set
	Rep  []int    // indices into lits() used for the representative set
}

func (c colType) lits() []lit {
	out := []lit{{"NULL", "null"}}
	for _, v := range c.Vals[1:] {
		out = append(out, lit{v, "in"})
	}
	return append(out, c.Out...)
}

var (
	tTiny = colType{Name: "tinyint", DDL: "TINYINT",
		Vals: []string{"NULL", "-128", "-1", "0", "1", "127"},
		Out: []lit{{"-129", "oor-low"}, {"128", "oor-high"}, {"1.5", "frac"}, {"-0.5", "frac"}, {"1.0", "whole-decimal"}, {"1.5e0", "float"}, {"1e0", "float"},
			{"'1'", "numstr"}, {"'1.5'", "numstr"}, {"'1x'", "junkstr"}, {"'x'", "junkstr"}, {"'2000-01-01'", "wrong-type"}},
		Rep: []int{0, 1, 3, 4, 5, 6, 7, 8, 13, 15}, Tiny: []int{0, 4, 7, 8}}
	tUint = colType{Name: "int unsigned", DDL: "INT UNSIGNED",
		Vals: []string{"NULL", "0", "1", "2", "4294967295"},
		Out: []lit{{"-1", "oor-low"}, {"4294967296", "oor-high"}, {"1.5", "frac"}, {"-0.5", "frac"}, {"1.0", "whole-decimal"}, {"1.5e0", "float"}, {"-1e0", "float"},
			{"'1'", "numstr"}, {"'-1'", "numstr"}, {"'1x'", "junkstr"}, {"'x'", "junkstr"}, {"18446744073709551616", "oor-high"}},
		Rep: []int{0, 1, 2, 4, 5, 6, 7, 8, 12, 14}, Tiny: []int{0, 2, 5, 7}}
	tBig = colType{Name: "bigint", DDL: "BIGINT",
		Vals: []string{"NULL", "-9223372036854775808", "-1", "0", "1", "9223372036854775807"},
		Out: []lit{{"-9223372036854775809", "oor-low"}, {"9223372036854775808", "oor-high"}, {"1.5", "frac"}, {"-0.5", "frac"}, {"18446744073709551616", "oor-high"}, {"1.5e0", "float"}, {"1e19", "float"},
			{"'1'", "numstr"}, {"'9223372036854775808'", "numstr"}, {"'1x'", "junkstr"}, {"'x'", "junkstr"}, {"9223372036854775807.5", "frac"}},
		Rep: []int{0, 1, 3, 4, 5, 6, 7, 8, 12, 15}, Tiny: []int{0, 4, 7, 8}}
	tDec = colType{Name: "decimal(4,1)", DDL: "DECIMAL(4,1)",
		Vals: []string{"NULL", "-999.9", "-1.0", "0.0", "0.5", "1.0", "999.9"},
		Out: []lit{{"-1000", "oor-low"}, {"1000", "oor-high"}, {"0.55", "frac"}, {"0.45", "frac"}, {"1", "int"}, {"0.5e0", "float"}, {"999.95", "oor-high"},
			{"'0.5'", "numstr"}, {"'1x'", "junkstr"}, {"'x'", "junkstr"}, {"-999.95", "oor-low"}, {"0.50", "whole-decimal"}},
		Rep: []int{0, 1, 3, 4, 5, 6, 7, 8, 9, 10, 14}, Tiny: []int{0, 4, 8, 9}}
	strOut = []lit{{"'abcde'", "long"}, {"'abd'", "prefix-sibling"}, {"'B'", "case"}, {"'AB'", "case"}, {"'a '", "pad"}, {"'aa'", "between"}, {"1", "wrong-type"}, {"0", "wrong-type"}, {"1.5", "wrong-type"}, {"'1'", "numstr"}}
	tStrBin = colType{Name: "varchar(4) bin", DDL: "VARCHAR(4) COLLATE utf8mb4_0900_bin", Str: true,
		Vals: []string{"NULL", "''", "'A'", "'a'", "'ab'", "'abc'", "'b'"},
		Out:  strOut, Like: []string{"'a%'", "'A%'", "'%'", "'ab%'", "'a_'", "'abc%'", "'%b'", "''"},
		Rep:  []int{0, 1, 2, 3, 4, 5, 6, 7, 8, 9, 11, 13}, Tiny: []int{0, 3, 5, 8}}
	tStrCI = colType{Name: "varchar(4) ci", DDL: "VARCHAR(4) COLLATE utf8mb4_0900_ai_ci", Str: true,
		Vals: []string{"NULL", "''", "'A'", "'a'", "'ab'", "'abc'", "'b'"},
		Out:  strOut, Like: []string{"'a%'", "'A%'", "'%'", "'ab%'", "'a_'", "'abc%'", "'%b'", "''"},
		Rep:  []int{0, 1, 2, 3, 4, 5, 6, 7, 8, 9, 11, 13}, Tiny: []int{0, 3, 5, 8}}
	tDate = colType{Name: "date", DDL: "DATE",
		Vals: []string{"NULL", "'1000-01-01'", "'1999-12-31'", "'2000-01-01'", "'2000-01-02'", "'9999-12-31'"},
		Out: []lit{{"'0999-12-31'", "oor-low"}, {"'0000-00-00'", "zero-date"}, {"'2000-01-01 00:00:00'", "datetime"}, {"'2000-01-01 12:00:00'", "datetime"}, {"20000101", "wrong-type"}, {"'x'", "junkstr"},
			{"'2000-13-01'", "junkstr-invalid-date"}, {"'10000-01-01'", "junkstr-year-10000"}, {"1", "wrong-type"}, {"'2000-1-1'", "numstr"}},
		Rep: []int{0, 1, 3, 4, 5, 6, 8, 9, 10, 11}, Tiny: []int{0, 3, 9, 11}}
)

// typeConfig = the column types of (a, b, c).
type typeConfig struct {
	Name string
	Cols [3]colType
}

func typeConfigs() []typeConfig {
	h := func(c colType) typeConfig { return typeConfig{c.Name, [3]colType{c, c, c}} }
	return []typeConfig{h(tTiny), h(tUint), h(tBig), h(tDec), h(tStrBin), h(tStrCI), h(tDate),
		{"mixed(tinyint,varchar ci,decimal)", [3]colType{tTiny, tStrCI, tDec}}}
}

// ---------------------------------------------------------------------------------------------
// index shapes
// ---------------------------------------------------------------------------------------------

type shape struct {
	Name    string
	K       int    // number of table columns
	Index   string // index clause of ti
	Idx     []int  // indexed columns (filter atoms range over these: full sets)
	Other   int    // a non-indexed column that may appear in compound filters (-1: none)
	NotNull []int  // columns declared NOT NULL in both twins (primary key columns)
	Unique  []int  // columns that must be unique as a tuple
	StrOnly bool   // needs column a to be a string type
}

var shapes = []shape{
	{Name: "KEY(a)", K: 2, Index: "KEY ia (a)", Idx: []int{0}, Other: 1},
	{Name: "KEY(a,b)", K: 3, Index: "KEY iab (a,b)", Idx: []int{0, 1}, Other: 2},
	{Name: "KEY(a,b,c)", K: 3, Index: "KEY iabc (a,b,c)", Idx: []int{0, 1, 2}, Other: -1},
	{Name: "PRIMARY KEY(a)", K: 2, Index: "PRIMARY KEY (a)", Idx: []int{0}, Other: 1, NotNull: []int{0}, Unique: []int{0}},
	{Name: "PRIMARY KEY(a,b)", K: 3, Index: "PRIMARY KEY (a,b)", Idx: []int{0, 1}, Other: 2, NotNull: []int{0, 1}, Unique: []int{0, 1}},
	{Name: "UNIQUE(b)", K: 2, Index: "UNIQUE KEY ub (b)", Idx: []int{1}, Other: 0, Unique: []int{1}},
	{Name: "KEY(a(2))", K: 2, Index: "KEY ip (a(2))", Idx: []int{0}, Other: 1, StrOnly: true},
}

var colNames = []string{"a", "b", "c"}

func has(xs []int, x int) bool {
	for _, y := range xs {
		if y == x {
			return true
		}
	}
	return false
}

// ddl returns CREATE TABLE statements for the twins.
func ddl(tc typeConfig, sh shape) (ti, ts string) {
	var cols []string
	for i := 0; i < sh.K; i++ {
		c := colNames[i] + " " + tc.Cols[i].DDL
		if has(sh.NotNull, i) {
			c += " NOT NULL"
		}
		cols = append(cols, c)
	}
	ts = "CREATE TABLE ts (" + strings.Join(cols, ", ") + ")"
	ti = "CREATE TABLE ti (" + strings.Join(cols, ", ") + ", " + sh.Index + ")"
	return
}

// rows: all of D'^K once; for unique / not-null shapes the maximal subset in enumeration order
// after rotating the free columns so that they still vary (row i of the key space gets free
// column values Vals[(i+j) mod n]).
// domain of column i in the twin tables: D' itself, reduced for trailing columns of the
// three-column tables so that the row count (and with it the cost of one case) stays bounded.
func domain(tc typeConfig, sh shape, i int, thorough bool) []string {
	v := tc.Cols[i].Vals
	if sh.K < 3 || i == 0 || len(sh.Unique) > 0 {
		return v
	}
	if i == 2 {
		return []string{v[0], v[2], v[len(v)-1]}
	}
	if thorough && sh.Name == "KEY(a,b,c)" {
		return v
	}
	return []string{v[0], v[1], v[3], v[len(v)-1]}
}

func tableRows(tc typeConfig, sh shape, thorough bool) [][]string {
	var out [][]string
	if len(sh.Unique) == 0 {
		var rec func(i int, cur []string)
		rec = func(i int, cur []string) {
			if i == sh.K {
				out = append(out, append([]string{}, cur...))
				return
			}
			for _, v := range domain(tc, sh, i, thorough) {
				rec(i+1, append(cur, v))
			}
		}
		rec(0, nil)
		return out
	}
	// key tuples: product over the unique columns (NULL excluded where NOT NULL; for a UNIQUE
	// key NULL may repeat, so NULL key rows are added once per value of the free column)
	var keys [][]string
	var rec func(j int, cur []string)
	rec = func(j int, cur []string) {
		if j == len(sh.Unique) {
			keys = append(keys, append([]string{}, cur...))
			return
		}
		col := sh.Unique[j]
		for _, v := range tc.Cols[col].Vals {
			if v == "NULL" || uniqueSkip(tc.Cols[col], v) {
				continue
			}
			rec(j+1, append(cur, v))
		}
	}
	rec(0, nil)
	n := 0
	emit := func(key []string) {
		row := make([]string, sh.K)
		f := 0
		for c := 0; c < sh.K; c++ {
			if j := indexOf(sh.Unique, c); j >= 0 {
				row[c] = key[j]
				continue
			}
			vals := tc.Cols[c].Vals
			row[c] = vals[(n+f)%len(vals)]
			f++
		}
		n++
		out = append(out, row)
	}
	for _, k := range keys {
		emit(k)
	}
	if len(sh.NotNull) == 0 { // UNIQUE allows many NULLs
		for range tc.Cols[0].Vals {
			emit([]string{"NULL"})
		}
	}
	return out
}

// uniqueSkip: values left out of unique-key domains. 'A' equals 'a' under the _ai_ci collation
// (a genuine duplicate), and '' is left out because the memory backend's primary-key accumulator
// concatenates key parts without a separator (('','A') collides with ('A','') — the C13 defect,
// outside this property).
func uniqueSkip(ct colType, v string) bool {
	if !ct.Str {
		return false
	}
	return v == "''" || (strings.Contains(ct.DDL, "_ci") && v == "'A'")
}

func indexOf(xs []int, x int) int {
	for i, y := range xs {
		if y == x {
			return i
		}
	}
	return -1
}

// ---------------------------------------------------------------------------------------------
// filters
// ---------------------------------------------------------------------------------------------

// node is a filter tree: a structured atom (leaf) or a connective over sub-filters.
type node struct {
	Op   string // "" leaf | AND | OR | NOT
	Kids []*node
	// leaf:
	Col  int
	Kind string // = <> < <= > >= <=> IN "NOT IN" BETWEEN "NOT BETWEEN" "IS NULL" "IS NOT NULL" LIKE "NOT LIKE"
	Rev  bool   // comparison written literal-first (L op x)
	L    []lit
}

func (n *node) String() string {
	switch n.Op {
	case "":
		return n.atomSQL()
	case "NOT":
		return "NOT (" + n.Kids[0].String() + ")"
	}
	parts := make([]string, len(n.Kids))
	for i, k := range n.Kids {
		parts[i] = "(" + k.String() + ")"
	}
	return strings.Join(parts, " "+n.Op+" ")
}

func (n *node) atomSQL() string {
	x := colNames[n.Col]
	switch n.Kind {
	case "IS NULL", "IS NOT NULL":
		return x + " " + n.Kind
	case "IN", "NOT IN":
		ls := make([]string, len(n.L))
		for i, l := range n.L {
			ls[i] = l.SQL
		}
		return x + " " + n.Kind + " (" + strings.Join(ls, ", ") + ")"
	case "BETWEEN", "NOT BETWEEN":
		return x + " " + n.Kind + " " + n.L[0].SQL + " AND " + n.L[1].SQL
	}
	if n.Rev {
		return n.L[0].SQL + " " + n.Kind + " " + x
	}
	return x + " " + n.Kind + " " + n.L[0].SQL
}

var swapOp = map[string]string{"<": ">", "<=": ">=", ">": "<", ">=": "<=", "=": "=", "<>": "<>", "<=>": "<=>"}

// opName is the operator as the engine normalises it (index column on the left).
func (n *node) opName() string {
	if n.Rev {
		return swapOp[n.Kind]
	}
	return n.Kind
}

// simpler returns atoms that follow from / make up this atom, used to shrink a failing atom to
// the comparison that carries the fault (BETWEEN -> one bound, IN list -> one member -> '=',
// literal-first -> column-first, <=> non-NULL -> =).
func (n *node) simpler() []*node {
	if n.Op != "" {
		return nil
	}
	at := func(kind string, ls ...lit) *node { return &node{Col: n.Col, Kind: kind, L: ls} }
	var out []*node
	switch n.Kind {
	case "BETWEEN":
		out = append(out, at(">=", n.L[0]), at("<=", n.L[1]))
	case "NOT BETWEEN":
		out = append(out, at("<", n.L[0]), at(">", n.L[1]))
	case "IN":
		if len(n.L) == 1 {
			out = append(out, at("=", n.L[0]))
		} else {
			for _, l := range n.L {
				out = append(out, at("IN", l))
			}
			if len(n.L) > 2 {
				out = append(out, at("IN", n.L[0], n.L[1]), at("IN", n.L[1], n.L[2]), at("IN", n.L[0], n.L[2]))
			}
		}
	case "NOT IN":
		if len(n.L) == 1 {
			out = append(out, at("<>", n.L[0]))
		} else {
			for _, l := range n.L {
				out = append(out, at("NOT IN", l))
			}
		}
	case "<=>":
		if n.L[0].Class != "null" {
			out = append(out, at("=", n.L[0]))
		}
	}
	if n.Rev {
		out = append(out, at(swapOp[n.Kind], n.L[0]))
	}
	return out
}

func (n *node) leaves(f func(*node)) {
	if n.Op == "" {
		f(n)
		return
	}
	for _, k := range n.Kids {
		k.leaves(f)
	}
}

func (n *node) size() int {
	s := 1
	for _, k := range n.Kids {
		s += k.size()
	}
	return s
}

func uniqSorted(xs []string) string {
	m := map[string]bool{}
	var out []string
	for _, x := range xs {
		if x != "" && !m[x] {
			m[x] = true
			out = append(out, x)
		}
	}
	sort.Strings(out)
	return strings.Join(out, ",")
}

var cmpOps = []string{"=", "<>", "<", "<=", ">", ">=", "<=>"}

const (
	setTiny = iota
	setRep
	setFull
)

// atoms returns the atom set of the given size class over column col of type ct.
func atoms(ct colType, col int, level int) []*node {
	all := ct.lits()
	pick := func(idx []int) []lit {
		var o []lit
		for _, i := range idx {
			o = append(o, all[i])
		}
		return o
	}
	var out []*node
	at := func(kind string, ls ...lit) { out = append(out, &node{Col: col, Kind: kind, L: ls}) }
	mid := all[3] // an in-type value in the middle of D'
	maxv := all[len(ct.Vals)-1]
	pat := func(i int) lit { return lit{ct.Like[i], "pattern"} }
	switch level {
	case setTiny:
		ls := pick(ct.Tiny)
		for _, l := range ls[1:] {
			at("=", l)
		}
		at(">", ls[1])
		at("<=", ls[2])
		at("IS NULL")
		at("IN", ls[1], ls[3])
		at("<>", ls[1])
		return out
	case setRep:
		ls := pick(ct.Rep)
		for _, op := range []string{"=", "<", ">=", "<>"} {
			for _, l := range ls {
				if l.Class == "null" && op != "=" {
					continue
				}
				at(op, l)
			}
		}
		at("<=>", all[0])
		at("<=>", mid)
		at("IS NULL")
		at("IS NOT NULL")
		at("IN", ls[1], ls[2])
		at("IN", mid, ls[len(ls)-1])
		at("NOT IN", ls[1], ls[2])
		at("NOT IN", mid, all[0])
		at("BETWEEN", ls[1], mid)
		at("BETWEEN", mid, ls[len(ls)-1])
		if ct.Str {
			at("LIKE", pat(0))
			at("LIKE", pat(3))
		}
		return out
	}
	// full
	for _, op := range cmpOps {
		for _, l := range all {
			at(op, l)
		}
	}
	for _, op := range []string{"<", ">=", "="} { // literal on the left (normalizeLeafSides swaps)
		for _, l := range all {
			out = append(out, &node{Col: col, Kind: op, Rev: true, L: []lit{l}})
		}
	}
	for _, neg := range []string{"IN", "NOT IN"} {
		for _, l := range all {
			at(neg, l)
			if l.SQL != mid.SQL {
				at(neg, mid, l)
			}
		}
		at(neg, all[1], all[2], maxv)
		at(neg, ct.Out[0], ct.Out[1])
	}
	// BETWEEN over a curated bound set: NULL, min, mid, max + some out-of-type literals
	bset := []lit{all[0], all[1], mid, maxv}
	for i, l := range ct.Out {
		if i < 4 || l.Class == "junkstr" || l.Class == "wrong-type" || l.Class == "datetime" || l.Class == "long" {
			bset = append(bset, l)
		}
	}
	for _, lo := range bset {
		for _, hi := range bset {
			at("BETWEEN", lo, hi)
		}
	}
	for _, hi := range bset {
		at("NOT BETWEEN", all[1], hi)
	}
	at("IS NULL")
	at("IS NOT NULL")
	if ct.Str {
		for i := range ct.Like {
			at("LIKE", pat(i))
		}
		at("NOT LIKE", pat(0))
		at("NOT LIKE", pat(2))
	}
	for _, op := range []string{"=", "<", "<=>", ">="} {
		for _, l := range pick(ct.Rep) {
			out = append(out, &node{Op: "NOT", Kids: []*node{{Col: col, Kind: op, L: []lit{l}}}})
		}
	}
	return out
}

// filterCols returns the columns compound filters range over: the indexed ones, then the other.
func filterCols(sh shape) []int {
	c := append([]int{}, sh.Idx...)
	if sh.Other >= 0 {
		c = append(c, sh.Other)
	}
	return c
}

// forEachFilter enumerates the filter space of (tc, sh) for the tier, deterministically.
func forEachFilter(tc typeConfig, sh shape, thorough bool, f func(*node) bool) {
	cols := filterCols(sh)
	full, rep, tiny := map[int][]*node{}, map[int][]*node{}, map[int][]*node{}
	for _, c := range cols {
		full[c] = atoms(tc.Cols[c], c, setFull)
		rep[c] = atoms(tc.Cols[c], c, setRep)
		tiny[c] = atoms(tc.Cols[c], c, setTiny)
	}
	// depth 0: every atom over every indexed column
	for _, c := range sh.Idx {
		for _, a := range full[c] {
			if !f(a) {
				return
			}
		}
	}
	// pair enumerates A x B x {AND, OR}; pairs whose atoms are both in skipA/skipB were already done
	pair := func(A, B []*node, skipA, skipB map[string]bool) bool {
		for _, a := range A {
			for _, b := range B {
				if a.String() == b.String() {
					continue
				}
				if skipA != nil && skipA[a.String()] && skipB[b.String()] {
					continue
				}
				for _, op := range []string{"AND", "OR"} {
					if !f(&node{Op: op, Kids: []*node{a, b}}) {
						return false
					}
				}
			}
		}
		return true
	}
	sqlSet := func(ns []*node) map[string]bool {
		m := map[string]bool{}
		for _, n := range ns {
			m[n.String()] = true
		}
		return m
	}
	// depth 1: pairs over ordered column pairs with at least one indexed column. The leading
	// indexed column paired with itself gets the large sets (one-column range intersection and
	// union); the other column pairs get smaller ones (multi-column ranges, leftover filters).
	lead := sh.Idx[0]
	for _, ci := range cols {
		for _, cj := range cols {
			if !has(sh.Idx, ci) && !has(sh.Idx, cj) {
				continue
			}
			switch {
			case thorough && ci == lead && cj == lead && sh.K == 2:
				// full x representative, then (for the plain KEY(a) / PRIMARY KEY(a) shapes) the
				// mirror representative x full minus what was done
				if !pair(full[ci], rep[cj], nil, nil) {
					return
				}
				if len(sh.Unique) > 0 && len(sh.NotNull) == 0 || sh.StrOnly {
					continue
				}
				if !pair(rep[ci], full[cj], sqlSet(full[ci]), sqlSet(rep[cj])) {
					return
				}
			case thorough:
				if !pair(rep[ci], rep[cj], nil, nil) {
					return
				}
			case ci == lead && cj == lead:
				if !pair(rep[ci], tiny[cj], nil, nil) {
					return
				}
				if !pair(tiny[ci], rep[cj], sqlSet(rep[ci]), sqlSet(tiny[cj])) {
					return
				}
			default:
				if !pair(tiny[ci], tiny[cj], nil, nil) {
					return
				}
			}
		}
	}
	// depth 2: (A op B) op' C and NOT (A op B) over the tiny sets
	var pool []*node
	tcols := cols
	if !thorough {
		tcols = sh.Idx
	}
	for _, c := range tcols {
		ts := tiny[c]
		if !thorough && len(ts) > 4 {
			ts = []*node{ts[0], ts[3], ts[4], ts[6]}
		}
		if thorough && len(tcols) > 2 {
			ts = []*node{ts[0], ts[2], ts[3], ts[4], ts[5], ts[6]}
		}
		pool = append(pool, ts...)
	}
	for _, a := range pool {
		for _, b := range pool {
			if a == b {
				continue
			}
			for _, op := range []string{"AND", "OR"} {
				in := &node{Op: op, Kids: []*node{a, b}}
				if !f(&node{Op: "NOT", Kids: []*node{in}}) {
					return
				}
				for _, c := range pool {
					if c == a || c == b {
						continue
					}
					for _, op2 := range []string{"AND", "OR"} {
						if op2 == op {
							continue // (A and B) and C is a flat conjunction, covered by pairs closely enough
						}
						if !f(&node{Op: op2, Kids: []*node{in, c}}) {
							return
						}
					}
				}
			}
		}
	}
}
