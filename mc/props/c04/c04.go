// Package c04 — ORDER BY output is ordered and LIMIT/OFFSET select the right slice.
//
// Every ORDER BY key list (1–2 keys from {a, b, a+b, -a, s, s COLLATE utf8mb4_0900_ai_ci} x
// {ASC,DESC}) with every LIMIT n OFFSET m (n,m in 0..6), LIMIT n alone and no limit, over small
// tables with deliberate ties and NULLs, under the layouts {no index, KEY(a), KEY(a,b),
// PRIMARY KEY(a)}, with and without a sargable WHERE a >= c — so that all three mechanisms are
// reached: Sort, TopN and index-order sort elimination (forward and reverse). The oracle is an
// independent comparator written here (NULLs lowest, integers numerically, strings by code point
// for the _bin collation and by a case/accent fold for _ai_ci).
package c04

import (
	"encoding/json"
	"fmt"
	"sort"
	"strings"

	"verif/mc/core"
	"verif/mc/eng"
)

// ---------------------------------------------------------------------------------------------
// data
// ---------------------------------------------------------------------------------------------

// val: nil = NULL, int64 or string.
type row struct {
	A, B *int64
	S    *string
}

func iv(x int64) *int64   { return &x }
func sv(x string) *string { return &x }

func (r row) sql() string {
	f := func(p *int64) string {
		if p == nil {
			return "NULL"
		}
		return fmt.Sprint(*p)
	}
	s := "NULL"
	if r.S != nil {
		s = "'" + *r.S + "'"
	}
	return "(" + f(r.A) + "," + f(r.B) + "," + s + ")"
}

func (r row) key() string { return r.sql() }

type jrow struct {
	A *int64  `json:"a"`
	B *int64  `json:"b"`
	S *string `json:"s"`
}

// mk builds rows from a compact notation: "a,b,s;..." with "-" for NULL.
func mk(spec string) []row {
	var out []row
	if spec == "" {
		return out
	}
	for _, rs := range strings.Split(spec, ";") {
		p := strings.Split(rs, ",")
		var r row
		var x int64
		if p[0] != "-" {
			fmt.Sscan(p[0], &x)
			r.A = iv(x)
		}
		if p[1] != "-" {
			fmt.Sscan(p[1], &x)
			r.B = iv(x)
		}
		if p[2] != "-" {
			r.S = sv(p[2])
		}
		out = append(out, r)
	}
	return out
}

// tables: <=5 rows over {NULL,1,2} ints and strings with ties under both collations; the
// insertion order is deliberately not sorted by anything.
var tableSpecs = []string{
	"-,1,a;1,2,A;2,1,b;1,1,B;2,-,-",  // NULLs in every column, ties on a, case ties on s
	"1,2,b;1,1,a;1,-,A;1,2,B;1,1,-",  // a constant: everything is decided by later keys / ties
	"2,2,B;-,2,á;-,-,a;2,1,ab;1,-,b", // two NULL a's whose b values are stored out of order, accent tie (a = á under ai_ci), prefix string
	"1,1,a;2,2,b;1,1,a;2,2,b;1,1,a",  // duplicate rows
	"2,1,A;1,2,a",                    // two rows
	"-,-,-",                          // a single all-NULL row
	"",                               // empty
	"2,-,b;2,2,a;1,-,B;-,1,A;-,-,ab", // thorough: another mix
	"1,2,-;2,1,-;-,-,-;2,2,a;1,1,A",  // thorough: NULL strings dominate
	"2,2,b;2,1,a;1,2,B",              // thorough: three rows
}

// for PRIMARY KEY(a) the a column must be distinct and non-NULL: a is replaced by a permutation.
var pkPerm = []int64{3, 1, 5, 2, 4}

func pkRows(rows []row) []row {
	out := make([]row, len(rows))
	for i, r := range rows {
		r.A = iv(pkPerm[i%len(pkPerm)])
		out[i] = r
	}
	return out
}

type layout struct {
	Name, Index string
	PK          bool
}

var layouts = []layout{
	{"none", "", false},
	{"KEY(a)", ", KEY ia (a)", false},
	{"KEY(a,b)", ", KEY iab (a,b)", false},
	{"PRIMARY KEY(a)", ", PRIMARY KEY (a)", true},
}

func ddl(l layout) string {
	a := "a INT"
	if l.PK {
		a = "a INT NOT NULL"
	}
	return "CREATE TABLE t (" + a + ", b INT, s VARCHAR(4)" + l.Index + ")"
}

func load(l layout, rows []row) *eng.Session {
	e := eng.New()
	s := e.NewSession("root")
	s.MustExec(ddl(l))
	if len(rows) > 0 {
		var vs []string
		for _, r := range rows {
			vs = append(vs, r.sql())
		}
		s.MustExec("INSERT INTO t VALUES " + strings.Join(vs, ","))
	}
	return s
}

// ---------------------------------------------------------------------------------------------
// keys and the reference comparator
// ---------------------------------------------------------------------------------------------

type keyDef struct {
	Name string // label
	SQL  string
}

var keyDefs = []keyDef{
	{"a", "a"}, {"b", "b"}, {"a+b", "a+b"}, {"-a", "-a"}, {"s", "s"}, {"s-ci", "s COLLATE utf8mb4_0900_ai_ci"},
}

type keyTerm struct {
	K    int  `json:"k"` // index into keyDefs
	Desc bool `json:"desc"`
}

func (k keyTerm) sql() string {
	if k.Desc {
		return keyDefs[k.K].SQL + " DESC"
	}
	return keyDefs[k.K].SQL + " ASC"
}

// kv is a key value: null, int or (folded) string.
type kv struct {
	null bool
	i    int64
	s    string
	str  bool
}

var foldMap = map[rune]rune{'á': 'a', 'Á': 'a', 'à': 'a', 'ä': 'a'}

func fold(s string) string {
	var sb strings.Builder
	for _, c := range strings.ToLower(s) {
		if m, ok := foldMap[c]; ok {
			c = m
		}
		sb.WriteRune(c)
	}
	return sb.String()
}

func evalKey(k int, r row) kv {
	switch keyDefs[k].Name {
	case "a":
		if r.A == nil {
			return kv{null: true}
		}
		return kv{i: *r.A}
	case "b":
		if r.B == nil {
			return kv{null: true}
		}
		return kv{i: *r.B}
	case "a+b":
		if r.A == nil || r.B == nil {
			return kv{null: true}
		}
		return kv{i: *r.A + *r.B}
	case "-a":
		if r.A == nil {
			return kv{null: true}
		}
		return kv{i: -*r.A}
	case "s":
		if r.S == nil {
			return kv{null: true}
		}
		return kv{s: *r.S, str: true}
	case "s-ci":
		if r.S == nil {
			return kv{null: true}
		}
		return kv{s: fold(*r.S), str: true}
	}
	panic("bad key")
}

// cmpKV: NULL is the lowest value; ints numerically; strings by code point (UTF-8 byte order
// equals code point order) — the _bin collation on raw strings, _ai_ci on folded strings (the
// folded alphabet is plain ASCII letters, whose 0900 weights are in alphabetical order, NO PAD).
func cmpKV(x, y kv) int {
	switch {
	case x.null && y.null:
		return 0
	case x.null:
		return -1
	case y.null:
		return 1
	}
	if x.str {
		return strings.Compare(x.s, y.s)
	}
	switch {
	case x.i < y.i:
		return -1
	case x.i > y.i:
		return 1
	}
	return 0
}

func cmpRows(keys []keyTerm, x, y row) int {
	for _, k := range keys {
		c := cmpKV(evalKey(k.K, x), evalKey(k.K, y))
		if k.Desc {
			c = -c
		}
		if c != 0 {
			return c
		}
	}
	return 0
}

func tupleString(keys []keyTerm, r row) string {
	parts := make([]string, len(keys))
	for i, k := range keys {
		v := evalKey(k.K, r)
		switch {
		case v.null:
			parts[i] = "NULL"
		case v.str:
			parts[i] = "'" + v.s + "'"
		default:
			parts[i] = fmt.Sprint(v.i)
		}
	}
	return "<" + strings.Join(parts, ",") + ">"
}

// ---------------------------------------------------------------------------------------------
// cases
// ---------------------------------------------------------------------------------------------

type tcase struct {
	Layout int       `json:"layout"`
	Rows   []jrow    `json:"rows"`
	Keys   []keyTerm `json:"keys"`
	// Limit: -1 = no LIMIT clause; Offset: -1 = no OFFSET clause
	Limit  int    `json:"limit"`
	Offset int    `json:"offset"`
	Where  int    `json:"where"` // 0 = none, else WHERE a >= Where
	Proj   bool   `json:"proj"`  // SELECT s, b, a instead of SELECT *
	SQL    string `json:"sql,omitempty"`
	DDL    string `json:"ddl,omitempty"`
}

func (c tcase) rows() []row {
	out := make([]row, len(c.Rows))
	for i, r := range c.Rows {
		out[i] = row{r.A, r.B, r.S}
	}
	return out
}

func toJ(rows []row) []jrow {
	out := make([]jrow, len(rows))
	for i, r := range rows {
		out[i] = jrow{r.A, r.B, r.S}
	}
	return out
}

func (c tcase) sql() string {
	sel := "SELECT * FROM t"
	if c.Proj {
		sel = "SELECT s, b, a FROM t"
	}
	if c.Where > 0 {
		sel += fmt.Sprintf(" WHERE a >= %d", c.Where)
	}
	var ks []string
	for _, k := range c.Keys {
		ks = append(ks, k.sql())
	}
	sel += " ORDER BY " + strings.Join(ks, ", ")
	if c.Limit >= 0 {
		sel += fmt.Sprintf(" LIMIT %d", c.Limit)
		if c.Offset >= 0 {
			sel += fmt.Sprintf(" OFFSET %d", c.Offset)
		}
	}
	return sel
}

func planClass(p string) string {
	switch {
	case strings.Contains(p, "TopN("):
		return "TopN"
	case strings.Contains(p, "Sort("):
		return "Sort"
	case strings.Contains(p, "IndexedTableAccess"):
		if strings.Contains(p, "reverse: true") {
			return "index-order-reverse"
		}
		return "index-order-forward"
	case strings.Contains(p, "EmptyTable") || strings.Contains(p, "Empty"):
		return "empty-table"
	}
	return "unsorted-plan"
}

type failure struct {
	clause, kind, obs, exp string
	frame                  string
}

func decodeRow(vals []any, proj bool) (row, bool) {
	if len(vals) != 3 {
		return row{}, false
	}
	if proj {
		vals = []any{vals[2], vals[1], vals[0]}
	}
	var r row
	toI := func(v any) (*int64, bool) {
		switch x := v.(type) {
		case nil:
			return nil, true
		case int32:
			return iv(int64(x)), true
		case int64:
			return iv(x), true
		case int:
			return iv(int64(x)), true
		}
		return nil, false
	}
	var ok bool
	if r.A, ok = toI(vals[0]); !ok {
		return r, false
	}
	if r.B, ok = toI(vals[1]); !ok {
		return r, false
	}
	switch x := vals[2].(type) {
	case nil:
	case string:
		r.S = sv(x)
	case []byte:
		r.S = sv(string(x))
	default:
		return r, false
	}
	return r, true
}

func topFrame(stack string) string {
	seen := false
	for _, l := range strings.Split(stack, "\n") {
		if strings.HasPrefix(l, "panic(") {
			seen = true
			continue
		}
		if !seen || strings.HasPrefix(l, "\t") || l == "" || strings.HasPrefix(l, "runtime.") {
			continue
		}
		if j := strings.LastIndex(l, "("); j > 0 {
			l = l[:j]
		}
		return l
	}
	return core.TopFrame(stack)
}

// check runs one case against a loaded session and applies the three oracle clauses.
func check(s *eng.Session, c tcase) (f *failure, got []row, want []string) {
	res := s.Exec(c.sql())
	if res.Panic != nil {
		return &failure{clause: "executes", kind: "panic", obs: fmt.Sprint(res.Panic), frame: topFrame(res.Stack)}, nil, nil
	}
	if res.Err != nil {
		return &failure{clause: "executes", kind: "error:" + eng.ErrClass(res.Err), obs: res.Err.Error(), exp: "an ordered result"}, nil, nil
	}
	for _, vals := range res.Rows {
		r, ok := decodeRow(vals, c.Proj)
		if !ok {
			return &failure{clause: "executes", kind: "unexpected-value-type", obs: eng.FormatRow(vals), exp: "(int, int, varchar) row"}, nil, nil
		}
		got = append(got, r)
	}
	// the rows the ORDER BY ranges over
	var base []row
	for _, r := range c.rows() {
		if c.Where > 0 && (r.A == nil || *r.A < int64(c.Where)) {
			continue
		}
		base = append(base, r)
	}
	ref := append([]row{}, base...)
	sort.SliceStable(ref, func(i, j int) bool { return cmpRows(c.Keys, ref[i], ref[j]) < 0 })
	lo, hi := 0, len(ref)
	if c.Limit >= 0 {
		if c.Offset > 0 {
			lo = c.Offset
		}
		if lo > len(ref) {
			lo = len(ref)
		}
		hi = lo + c.Limit
		if hi > len(ref) {
			hi = len(ref)
		}
	}
	slice := ref[lo:hi]
	for _, r := range slice {
		want = append(want, tupleString(c.Keys, r))
	}
	gotS := make([]string, len(got))
	gotT := make([]string, len(got))
	for i, r := range got {
		gotS[i] = r.key()
		gotT[i] = tupleString(c.Keys, r)
	}
	describe := fmt.Sprintf("rows %s keys %s", strings.Join(gotS, " "), strings.Join(gotT, " "))
	// (2) sub-multiset of the unlimited result, right length
	avail := map[string]int{}
	for _, r := range base {
		avail[r.key()]++
	}
	for _, r := range got {
		if avail[r.key()] == 0 {
			return &failure{clause: "subset-of-unlimited", kind: "foreign-or-duplicated-row", obs: describe, exp: fmt.Sprintf("a sub-multiset of the %d filtered table rows", len(base))}, got, want
		}
		avail[r.key()]--
	}
	if len(got) != len(slice) {
		kind := "too-few-rows"
		if len(got) > len(slice) {
			kind = "too-many-rows"
		}
		return &failure{clause: "slice-length", kind: kind, obs: fmt.Sprintf("%d rows: %s", len(got), describe), exp: fmt.Sprintf("%d rows = min(n, max(0, N-m)) with N=%d", len(slice), len(base))}, got, want
	}
	// (1) sorted
	for i := 1; i < len(got); i++ {
		if cmpRows(c.Keys, got[i-1], got[i]) > 0 {
			kind := "out-of-order"
			for ki, k := range c.Keys {
				x, y := evalKey(k.K, got[i-1]), evalKey(k.K, got[i])
				if cmpKV(x, y) == 0 {
					continue
				}
				if x.null != y.null {
					kind = "null-placement"
				}
				_ = ki
				break
			}
			return &failure{clause: "sorted", kind: kind, obs: describe, exp: "non-decreasing key tuples under " + keyList(c.Keys) + " (NULLs first for ASC, last for DESC)"}, got, want
		}
	}
	// (3) key tuples of the slice
	for i := range got {
		if cmpRows(c.Keys, got[i], slice[i]) != 0 {
			return &failure{clause: "slice-keys", kind: "wrong-slice", obs: describe, exp: "key tuples " + strings.Join(want, " ") + fmt.Sprintf(" (positions %d..%d of the reference ordering)", lo+1, hi)}, got, want
		}
	}
	return nil, got, want
}

func keyList(keys []keyTerm) string {
	var ks []string
	for _, k := range keys {
		ks = append(ks, k.sql())
	}
	return strings.Join(ks, ", ")
}

func limitKind(c tcase) string {
	switch {
	case c.Limit < 0:
		return "none"
	case c.Offset < 0:
		return "limit"
	}
	return "limit+offset"
}

func subject(c tcase, f *failure, plan string) map[string]string {
	var ks []string
	dirs := map[bool]bool{}
	for _, k := range c.Keys {
		ks = append(ks, keyDefs[k.K].Name)
		dirs[k.Desc] = true
	}
	dir := "asc"
	if dirs[true] && dirs[false] {
		dir = "mixed"
	} else if dirs[true] {
		dir = "desc"
	}
	subj := map[string]string{
		"plan":   planClass(plan),
		"keys":   strings.Join(ks, ","),
		"dir":    dir,
		"limit":  limitKind(c),
		"layout": layouts[c.Layout].Name,
		"where":  fmt.Sprint(c.Where > 0),
		"proj":   fmt.Sprint(c.Proj),
	}
	if f.frame != "" {
		subj["frame"] = f.frame
	}
	return subj
}

// minimise: fewer rows, fewer keys, no WHERE, SELECT *, smaller n/m — as long as the same clause
// and kind fail and the plan class stays the same.
func minimise(c tcase, f *failure, pc string) (tcase, *failure) {
	try := func(n tcase) *failure {
		s := load(layouts[n.Layout], n.rows())
		nf, _, _ := check(s, n)
		if nf == nil || nf.clause != f.clause || nf.kind != f.kind {
			return nil
		}
		p, _ := s.Plan(n.sql())
		if planClass(p) != pc {
			return nil
		}
		return nf
	}
	for changed := true; changed; {
		changed = false
		var cands []tcase
		if len(c.Keys) > 1 {
			for i := range c.Keys {
				n := c
				n.Keys = []keyTerm{c.Keys[i]}
				cands = append(cands, n)
			}
		}
		for i, k := range c.Keys { // a simpler key expression in the same position and direction
			for j := 0; j < k.K; j++ {
				n := c
				n.Keys = append([]keyTerm{}, c.Keys...)
				n.Keys[i].K = j
				if len(n.Keys) == 2 && n.Keys[0].K == n.Keys[1].K {
					continue
				}
				cands = append(cands, n)
			}
		}
		if c.Layout != 0 { // no index, as long as the plan class stays the same
			n := c
			n.Layout = 0
			cands = append(cands, n)
		}
		if c.Where > 0 {
			n := c
			n.Where = 0
			cands = append(cands, n)
		}
		if c.Proj {
			n := c
			n.Proj = false
			cands = append(cands, n)
		}
		for i := range c.Rows {
			n := c
			n.Rows = append(append([]jrow{}, c.Rows[:i]...), c.Rows[i+1:]...)
			cands = append(cands, n)
		}
		if c.Limit > 0 {
			n := c
			n.Limit--
			cands = append(cands, n)
		}
		if c.Offset > 0 {
			n := c
			n.Offset--
			cands = append(cands, n)
		}
		for _, n := range cands {
			if nf := try(n); nf != nil {
				c, f, changed = n, nf, true
				break
			}
		}
	}
	return c, f
}

type minimal struct {
	c tcase
	f *failure
}

// minCache: failing cases that agree on (clause, kind, plan class, limit kind, keys, directions,
// layout) share one minimisation (most of a broken mechanism's cases fail; minimising each would
// eat the budget). The cached minimal case is re-reported, so counts still add up.
var minCache = map[string]*minimal{}

func report(r *core.Run, c tcase, f *failure, plan string) {
	pc := planClass(plan)
	ck := fmt.Sprint(f.clause, "|", f.kind, "|", pc, "|", limitKind(c), "|", keyList(c.Keys), "|", c.Layout)
	m, ok := minCache[ck]
	if !ok {
		mc, mf := minimise(c, f, pc)
		m = &minimal{mc, mf}
		minCache[ck] = m
	}
	mc, mf := m.c, m.f
	s := load(layouts[mc.Layout], mc.rows())
	mplan, _ := s.Plan(mc.sql())
	mc.SQL = mc.sql()
	mc.DDL = ddl(layouts[mc.Layout])
	r.Violate(core.Violation{Check: "order-limit", Clause: mf.clause, Kind: mf.kind, Subject: subject(mc, mf, mplan), Witness: core.J(mc), Observed: mf.obs, Expected: mf.exp})
}

// keyLists enumerates the ORDER BY lists of the tier.
func keyLists(thorough bool) [][]keyTerm {
	var out [][]keyTerm
	for k := range keyDefs {
		for _, d := range []bool{false, true} {
			out = append(out, []keyTerm{{k, d}})
		}
	}
	// ordered pairs of distinct keys x all four direction combinations
	quickPairs := map[[2]string]bool{
		{"a", "b"}: true, {"b", "a"}: true, {"a", "s"}: true, {"s", "a"}: true, {"a+b", "a"}: true, {"-a", "b"}: true,
		{"s-ci", "s"}: true, {"s-ci", "a"}: true, {"b", "s-ci"}: true, {"a", "-a"}: true, {"a", "s-ci"}: true,
	}
	for k1 := range keyDefs {
		for k2 := range keyDefs {
			if k1 == k2 {
				continue
			}
			if !thorough && !quickPairs[[2]string{keyDefs[k1].Name, keyDefs[k2].Name}] {
				continue
			}
			for _, d1 := range []bool{false, true} {
				for _, d2 := range []bool{false, true} {
					out = append(out, []keyTerm{{k1, d1}, {k2, d2}})
				}
			}
		}
	}
	return out
}

type limitSpec struct{ n, m int }

func limitSpecs() []limitSpec {
	out := []limitSpec{{-1, -1}}
	for n := 0; n <= 6; n++ {
		out = append(out, limitSpec{n, -1})
	}
	for n := 0; n <= 6; n++ {
		for m := 0; m <= 6; m++ {
			out = append(out, limitSpec{n, m})
		}
	}
	return out
}

func init() {
	core.Register(&core.Prop{
		ID:    "C04",
		Level: "exploration",
		Rule: "every (table, layout, WHERE, select list, ORDER BY key list, LIMIT/OFFSET): tables of <=5 rows over {NULL,1,2} ints (a,b) and a VARCHAR s over {NULL,a,A,b,B,ab,á} with deliberate ties, duplicates and NULLs (quick 7 tables, thorough 10; a replaced by a permutation of 1..5 under PRIMARY KEY(a)); " +
			"layouts {no index, KEY(a), KEY(a,b), PRIMARY KEY(a)}; with and without WHERE a >= 1 (thorough also a >= 2); SELECT * and the permuted projection SELECT s,b,a; key lists = every single key of {a, b, a+b, -a, s, s COLLATE utf8mb4_0900_ai_ci} x {ASC,DESC} and ordered pairs of distinct keys x all four direction combinations (quick: 11 pairs; thorough: all 30); " +
			"no LIMIT, LIMIT n (n in 0..6) and LIMIT n OFFSET m (n,m in 0..6); oracle with an independent comparator: (2) output is a sub-multiset of the filtered table with length min(n, max(0,N-m)); (1) key tuples non-decreasing under type/collation order with NULLs first for ASC, last for DESC; (3) the key tuples at positions m+1..m+n equal those of the reference ordering; " +
			"non-trivial = the filtered table has >=2 rows with distinct key tuples; the plan class (Sort / TopN / index-order forward / reverse) is recorded per case and all must occur",
		Assumptions: []string{"strings are ASCII letters plus 'á'; under utf8mb4_0900_ai_ci their order is the alphabetical order of the case/accent-folded string (NO PAD), under utf8mb4_0900_bin the code point order", "which of several rows with equal key tuples appears is free (ties may permute rows, not keys)"},
		QuickBudget: 70, ThoroughBudget: 900,
		Run: func(r *core.Run) {
			specs := tableSpecs
			if r.Quick() {
				specs = tableSpecs[:7]
			}
			wheres := []int{0, 1}
			if r.Thorough() {
				wheres = []int{0, 1, 2}
			}
			kls := keyLists(r.Thorough())
			lims := limitSpecs()
			r.Info("tables", len(specs))
			r.Info("key_lists", len(kls))
			r.Info("limit_specs", len(lims))
			r.Info("layouts", len(layouts))
			idx := int64(0)
			seenPlan := map[string]int{}
			sampled := map[string]int{}
			defer func() {
				for _, pc := range []string{"Sort", "TopN", "index-order-forward", "index-order-reverse"} {
					if seenPlan[pc] == 0 {
						r.Note("WARNING: plan class " + pc + " was never reached in this shard")
					}
				}
			}()
			for ti, spec := range specs {
				for li, l := range layouts {
					rows := mk(spec)
					if l.PK {
						rows = pkRows(rows)
					}
					var sess *eng.Session
					for _, w := range wheres {
						if l.PK && w > 0 {
							w++ // a ranges over 1..5 under the primary key: cut deeper
						}
						for _, proj := range []bool{false, true} {
							for _, kl := range kls {
								if proj && r.Quick() && len(kl) > 1 {
									continue
								}
								for _, lim := range lims {
									idx++
									if !r.Mine(idx) {
										continue
									}
									if r.Expired() {
										r.Capped(fmt.Sprintf("time budget reached at table %d layout %s", ti, l.Name))
										return
									}
									if sess == nil {
										sess = load(l, rows)
									}
									c := tcase{Layout: li, Rows: toJ(rows), Keys: kl, Limit: lim.n, Offset: lim.m, Where: w, Proj: proj}
									r.Eval()
									f, got, want := check(sess, c)
									plan, _ := sess.Plan(c.sql())
									pc := planClass(plan)
									r.Count("plan/"+pc, 1)
									seenPlan[pc]++
									r.Count("plan/"+pc+"/"+limitKind(c), 1)
									out := "ok"
									if f != nil {
										out = f.clause + "/" + f.kind
									}
									r.Outcome(pc + "/" + limitKind(c) + "/" + out)
									// non-trivial: at least two distinct key tuples among the rows the ORDER BY ranges over
									distinct := map[string]bool{}
									for _, rw := range c.rows() {
										if c.Where > 0 && (rw.A == nil || *rw.A < int64(c.Where)) {
											continue
										}
										distinct[tupleString(kl, rw)] = true
									}
									if len(distinct) >= 2 {
										r.NonTrivial(fmt.Sprintf("%d|%d|%s", ti, li, c.sql()))
										r.Count("nontrivial/"+pc, 1)
										if f == nil && len(got) >= 2 && sampled[pc] < 2 && idx%13 == 0 && r.WantSample() {
											sampled[pc]++
											var gs []string
											for _, g := range got {
												gs = append(gs, g.key())
											}
											r.Sample(map[string]any{"ddl": ddl(l), "rows": spec, "sql": c.sql(), "plan_class": pc, "output": gs, "expected_key_tuples": want})
										}
									}
									if f != nil {
										report(r, c, f, plan)
									}
								}
							}
						}
					}
				}
			}
		},
		Replay: func(r *core.Run, w json.RawMessage) {
			var c tcase
			if json.Unmarshal(w, &c) != nil || c.Layout < 0 || c.Layout >= len(layouts) {
				return
			}
			s := load(layouts[c.Layout], c.rows())
			f, _, _ := check(s, c)
			if f != nil {
				plan, _ := s.Plan(c.sql())
				r.Violate(core.Violation{Check: "order-limit", Clause: f.clause, Kind: f.kind, Subject: subject(c, f, plan), Witness: w, Observed: f.obs, Expected: f.exp})
			}
		},
	})
}
