// Package c05 — a predicate partitions rows into TRUE, FALSE and NULL parts.
//
// Pure-engine metamorphic check (ternary logic partitioning): for every base query Q0, every
// predicate p of a template grammar and every database of the standard family,
//   rows(Q0) = rows(Q0 WHERE p) ⊎ rows(Q0 WHERE NOT p) ⊎ rows(Q0 WHERE p IS NULL)
// and rows(Q0 WHERE p) = the rows of SELECT …, (p) AS f FROM Q0 whose f is TRUE; likewise for
// HAVING and for an inner-join ON condition.
package c05

import (
	"encoding/json"
	"fmt"
	"sort"
	"strings"

	"verif/mc/core"
	"verif/mc/eng"
	"verif/mc/qgen"
	"verif/mc/qrun"
)

// base query shapes. %P = predicate position. X,Y,Z are substituted in predicate templates.
type base struct {
	name    string
	all     string // Q0
	with    string // Q0 restricted by predicate %P
	flag    string // select list variant with (%P) AS f as LAST column ("" = not applicable)
	x, y, z string
}

var bases = []base{
	{"where/single", "SELECT * FROM t", "SELECT * FROM t WHERE %P", "SELECT t.*, (%P) AS f FROM t", "t.a", "t.b", "t.a"},
	{"where/inner-join", "SELECT * FROM t JOIN u ON t.a = u.a", "SELECT * FROM t JOIN u ON t.a = u.a WHERE %P", "SELECT t.*, u.*, (%P) AS f FROM t JOIN u ON t.a = u.a", "t.a", "t.b", "u.b"},
	{"where/left-join", "SELECT * FROM t LEFT JOIN u ON t.a = u.b", "SELECT * FROM t LEFT JOIN u ON t.a = u.b WHERE %P", "SELECT t.*, u.*, (%P) AS f FROM t LEFT JOIN u ON t.a = u.b", "t.b", "u.a", "u.b"},
	{"having/grouped", "SELECT t.a AS ga, COUNT(*) AS c, MAX(t.b) AS m FROM t GROUP BY t.a", "SELECT t.a AS ga, COUNT(*) AS c, MAX(t.b) AS m FROM t GROUP BY t.a HAVING %P", "", "ga", "m", "c"},
	{"on/inner-join", "SELECT * FROM t JOIN u ON t.a = u.a", "SELECT * FROM t JOIN u ON (t.a = u.a) AND (%P)", "", "t.b", "u.b", "t.a"},
	// string bases (tables w / wi are added by this check to every database: same rows, wi has KEY(s))
	{"where/strings", "SELECT * FROM w", "SELECT * FROM w WHERE %P", "SELECT w.*, (%P) AS f FROM w", "w.s", "w.r", "w.s"},
	{"where/strings-indexed", "SELECT * FROM wi", "SELECT * FROM wi WHERE %P", "SELECT wi.*, (%P) AS f FROM wi", "wi.s", "wi.r", "wi.s"},
	{"on/strings-join", "SELECT * FROM w JOIN wi ON w.k = wi.k", "SELECT * FROM w JOIN wi ON (w.k = wi.k) AND (%P)", "", "w.s", "wi.r", "wi.s"},
}

const firstStringBase = 5

// extra tables for the string bases: every prefix/successor relationship a LIKE 'p%' -> range
// rewrite can get wrong ('ab' vs 'ac' = prefix with its last code point incremented, 'abc', case
// variants, the wildcard characters themselves, empty string, NULL).
var stringDDL = []string{
	"create table w (k int, s varchar(10), r varchar(10))",
	"create table wi (k int, s varchar(10), r varchar(10), key ks (s))",
}

var stringRows = "(1,NULL,'a'),(2,'','a'),(3,'a','a'),(4,'ab','ab'),(5,'ac','ab'),(6,'abc','ab'),(7,'b','a'),(8,'B','b'),(9,'AB','ab'),(10,'a%','a'),(11,'ab_','ab'),(12,'aa','b'),(13,'abd',NULL),(14,'ab\u00ff','ab')"

func stringAtoms() []string {
	return []string{
		"X LIKE 'ab%'", "X LIKE 'a%'", "X LIKE 'b%'", "X LIKE '%b'", "X LIKE 'a_'", "X LIKE 'ab'", "X LIKE 'a\\%'", "X LIKE 'ab\\_'", "X LIKE ''", "X LIKE '%'", "X LIKE NULL", "X LIKE 'AB%'", "X LIKE 'a%c'", "X LIKE '_b%'",
		"X NOT LIKE 'ab%'", "X NOT LIKE 'a%'", "X LIKE CONCAT(Y, '%')", "X LIKE Y", "Y LIKE 'a%'",
		"X >= 'ab' AND X < 'ac'", "X = 'ab'", "X <> 'ab'", "X < 'b'", "X <= 'ab'", "X > 'ab'", "X >= 'ac'", "X <=> NULL", "X <=> 'a'", "X BETWEEN 'a' AND 'ac'", "X NOT BETWEEN 'ab' AND 'b'", "X IN ('a', 'ac')", "X NOT IN ('ab', NULL)", "X IN (Y, 'b')",
		"X REGEXP '^a'", "LEFT(X, 1) = 'a'", "X COLLATE utf8mb4_0900_ai_ci LIKE 'AB%'", "X COLLATE utf8mb4_0900_ai_ci = 'AB'", "CONCAT(X, 'x') LIKE 'abx%'", "X IS NULL", "X IS NOT NULL", "LENGTH(X) = 2", "X = Y", "X < Y", "STRCMP(X, Y) = 0",
		"X LIKE 'ab%' AND Y = 'ab'", "X LIKE 'a%' OR Y IS NULL", "NOT (X LIKE 'ab%') AND X >= 'ab'",
	}
}

var ops = []string{"=", "<>", "<", "<=", ">", ">=", "<=>"}

// atom templates over X, Y, Z.
func atoms() []string {
	var a []string
	for _, op := range ops {
		a = append(a, "X "+op+" Y", "X "+op+" 1", "Y "+op+" 2", "X "+op+" NULL")
	}
	a = append(a,
		"X IS NULL", "X IS NOT NULL", "Y IS NULL",
		"X IN (1, 2)", "X NOT IN (1, 2)", "X IN (1, NULL)", "X NOT IN (1, NULL)", "X IN (Y, 2)", "X NOT IN (Y, 2)", "X IN (NULL)", "X NOT IN (NULL)",
		"X BETWEEN 1 AND 2", "X NOT BETWEEN 1 AND 2", "X BETWEEN Y AND 2", "X NOT BETWEEN Y AND 2", "X BETWEEN NULL AND 2", "Y NOT BETWEEN 1 AND NULL",
		"X + Y = 2", "X * Y > 1", "X DIV Y = 1", "X % Y = 0", "X - Y < 0", "-X = Y", "X / Y > 0.5", "X / Y IS NULL",
		"(CASE WHEN X > 1 THEN Y ELSE X END) = 1", "(CASE X WHEN 1 THEN Y WHEN 2 THEN 0 END) = 1", "COALESCE(X, Y) = 1", "IFNULL(Y, 0) = 0", "NULLIF(X, Y) IS NULL", "IF(X IS NULL, Y, X) = 2", "IF(X, Y, Z) = 1",
		"ABS(X - Y) = 1", "GREATEST(X, Y) = 2", "LEAST(X, Y) = 1", "ISNULL(X)", "CONCAT(X, Y) = '12'", "CONCAT_WS(',', X, Y) = '1,2'", "LENGTH(X) = 1", "X LIKE '1%'", "X NOT LIKE '1'",
		"X XOR Y", "(X, Y) = (1, 2)", "(X, Y) IN ((1, 2), (2, 1))", "(X, Y) NOT IN ((1, 2), (2, NULL))", "(X, Y) <> (1, 1)",
		"X IN (SELECT b FROM v)", "X NOT IN (SELECT b FROM v)", "X NOT IN (SELECT a FROM v WHERE b IS NOT NULL)", "EXISTS (SELECT 1 FROM v WHERE v.a = X)", "NOT EXISTS (SELECT 1 FROM v WHERE v.b = Y)", "X = (SELECT MAX(a) FROM v)", "X > (SELECT MIN(b) FROM v WHERE v.a = Y)",
		"SIGN(X) = 1", "MOD(X, 2) = 1", "POW(X, 2) = 4", "X & Y", "(X | Y) = 3", "(X << 1) = 2", "BIT_COUNT(X) = 1", "ROUND(X / 2) = 1", "FLOOR(X / 2) = 0", "CEIL(X / 2) = 1",
		"CAST(X AS CHAR) = '1'", "CAST(X AS SIGNED) = 1", "CAST(Y AS DECIMAL(5,2)) = 1.00", "DATE_ADD('2020-01-01', INTERVAL X DAY) = '2020-01-02'",
		"X IS TRUE", "X IS NOT TRUE", "X IS FALSE", "X IS NOT FALSE", "(X = Y) IS UNKNOWN", "(X = Y) IS NOT UNKNOWN", "NOT X", "X AND Y", "X OR Y", "X",
		"STRCMP(X, Y) = 0", "INTERVAL(X, 1, 2) = 1", "ELT(X, 'a', 'b') = 'a'", "FIELD(X, 2, 1) = 2", "X REGEXP '^1$'", "INSTR(CONCAT(X, Y), '2') = 2", "COALESCE(NULL, X) IN (1)",
		"X = Z", "X < Z OR Y IS NULL", "Z IS NULL AND X = 1",
	)
	return a
}

type pred struct {
	Tpl   string
	Parts []string // atom templates it was built from (for minimisation)
}

func predicates(thorough bool) []pred {
	as := atoms()
	var out []pred
	for _, a := range as {
		out = append(out, pred{a, nil})
	}
	for _, a := range as {
		out = append(out, pred{"NOT (" + a + ")", []string{a}})
	}
	// connectives: over representatives (quick) / over all atoms x representatives (thorough)
	reps := []string{"X = 1", "X < Y", "Y <=> NULL", "Y IS NULL", "X NOT IN (1, NULL)", "X BETWEEN 1 AND 2", "COALESCE(X, Y) = 1", "Y <> 2", "X NOT IN (SELECT b FROM v)", "X XOR Y"}
	left := reps
	if thorough {
		left = as
	}
	for _, p := range left {
		for _, q := range reps {
			if p == q {
				continue
			}
			for _, t := range []string{"(" + p + ") AND (" + q + ")", "(" + p + ") OR (" + q + ")", "NOT ((" + p + ") AND (" + q + "))", "(" + p + ") OR NOT (" + q + ")"} {
				out = append(out, pred{t, []string{p, q}})
			}
		}
	}
	return out
}

func subst(tpl string, b base) string {
	r := strings.NewReplacer("X", b.x, "Y", b.y, "Z", b.z)
	// protect keywords containing X/Y/Z: XOR, MAX, ... -> templates use these; replace token-wise
	var sb strings.Builder
	i := 0
	for i < len(tpl) {
		c := tpl[i]
		if (c == 'X' || c == 'Y' || c == 'Z') && (i == 0 || !isWord(tpl[i-1])) && (i+1 == len(tpl) || !isWord(tpl[i+1])) {
			sb.WriteString(r.Replace(string(c)))
			i++
			continue
		}
		sb.WriteByte(c)
		i++
	}
	return sb.String()
}

func isWord(c byte) bool {
	return c == '_' || (c >= 'a' && c <= 'z') || (c >= 'A' && c <= 'Z') || (c >= '0' && c <= '9')
}

// load builds the database and adds the string tables.
func load(spec qgen.DBSpec) *qrun.Loaded {
	l := qrun.Load(spec)
	for _, q := range stringDDL {
		l.Sess.MustExec(q)
	}
	l.Sess.MustExec("insert into w values " + stringRows)
	l.Sess.MustExec("insert into wi values " + stringRows)
	return l
}

type tcase struct {
	Base int             `json:"base"`
	Pred string          `json:"pred"` // template
	Spec qgen.DBSpec     `json:"spec"`
	SQL  map[string]string `json:"sql,omitempty"`
}

type outcome struct {
	rows []string
	err  string
	pan  string
}

func run(s *eng.Session, q string) outcome {
	r := s.Exec(q)
	if r.Panic != nil {
		return outcome{pan: fmt.Sprint(r.Panic) + " @" + core.TopFrame(r.Stack)}
	}
	if r.Err != nil {
		return outcome{err: eng.ErrClass(r.Err)}
	}
	rows := qrun.NormRows(r)
	sort.Strings(rows)
	return outcome{rows: rows}
}

type failure struct {
	clause, kind, obs, exp string
}

// check evaluates one (base, predicate, database). nontrivial = all three partitions non-empty.
func check(l *qrun.Loaded, bi int, tpl string) (f *failure, skip bool, nt bool, sqls map[string]string) {
	b := bases[bi]
	p := subst(tpl, b)
	qAll := b.all
	qT := strings.Replace(b.with, "%P", "("+p+")", 1)
	qF := strings.Replace(b.with, "%P", "(NOT ("+p+"))", 1)
	qN := strings.Replace(b.with, "%P", "(("+p+") IS NULL)", 1)
	sqls = map[string]string{"all": qAll, "true": qT, "false": qF, "null": qN}
	oa, ot, of, on := run(l.Sess, qAll), run(l.Sess, qT), run(l.Sess, qF), run(l.Sess, qN)
	for _, o := range []outcome{oa, ot, of, on} {
		if o.pan != "" {
			return &failure{"tlp-partition", "panic", o.pan, ""}, false, true, sqls
		}
	}
	nerr := 0
	for _, o := range []outcome{ot, of, on} {
		if o.err != "" {
			nerr++
		}
	}
	if oa.err != "" {
		return nil, true, false, sqls
	}
	if nerr == 3 {
		return nil, true, false, sqls // predicate rejected in this position (unsupported / invalid): outside the domain
	}
	if nerr > 0 {
		return &failure{"tlp-partition", "error-in-some-partitions", fmt.Sprintf("true:%s false:%s null:%s", ot.err, of.err, on.err), "all three partitions evaluate"}, false, true, sqls
	}
	union := append(append(append([]string{}, ot.rows...), of.rows...), on.rows...)
	sort.Strings(union)
	if !qrun.Equal(union, oa.rows) {
		return &failure{"tlp-partition", qrun.DiffKind(union, oa.rows),
			fmt.Sprintf("TRUE:%v FALSE:%v NULL:%v", ot.rows, of.rows, on.rows), fmt.Sprintf("a partition of %v", oa.rows)}, false, true, sqls
	}
	nt = len(ot.rows) > 0 && len(of.rows) > 0 && len(on.rows) > 0
	if b.flag != "" {
		qf := strings.Replace(b.flag, "%P", p, 1)
		sqls["flag"] = qf
		r := l.Sess.Exec(qf)
		if r.Panic != nil {
			return &failure{"select-flag", "panic", fmt.Sprint(r.Panic) + " @" + core.TopFrame(r.Stack), ""}, false, true, sqls
		}
		if r.Err != nil {
			return &failure{"select-flag", "error-vs-rows", eng.ErrClass(r.Err) + ": " + r.Err.Error(), "the predicate evaluates in WHERE"}, false, true, sqls
		}
		var sel []string
		for _, row := range r.Rows {
			fv := eng.FormatValue(row[len(row)-1])
			if fv == "NULL" || fv == "0" || fv == "'0'" || fv == "''" {
				continue
			}
			parts := make([]string, len(row)-1)
			for j, v := range row[:len(row)-1] {
				parts[j] = eng.FormatValue(v)
			}
			sel = append(sel, "("+strings.Join(parts, ",")+")")
		}
		sort.Strings(sel)
		if !qrun.Equal(sel, ot.rows) {
			return &failure{"select-flag", qrun.DiffKind(ot.rows, sel), fmt.Sprintf("WHERE p: %v", ot.rows), fmt.Sprintf("rows whose select-list p is TRUE: %v", sel)}, false, true, sqls
		}
	}
	return nil, false, nt, sqls
}

func subject(f *failure, bi int, tpl string, spec qgen.DBSpec) map[string]string {
	nulls := "no"
	for _, rows := range spec.T {
		for _, r := range rows {
			if r[0] == nil || r[1] == nil {
				nulls = "yes"
			}
		}
	}
	return map[string]string{"base": bases[bi].name, "pred": tpl, "layout": spec.LayoutClass(), "layout_name": spec.Layout, "nulls": nulls}
}

func minimise(spec qgen.DBSpec, bi int, pr pred, f *failure) (qgen.DBSpec, string, *failure, map[string]string) {
	var sqls map[string]string
	tpl := pr.Tpl
	// a compound predicate is reduced to one of its atoms (or its negation) when that alone
	// fails the same clause
	l0 := load(spec)
	for _, part := range pr.Parts {
		done := false
		for _, cand := range []string{part, "NOT (" + part + ")"} {
			nf, skip, _, sq := check(l0, bi, cand)
			if !skip && nf != nil && nf.clause == f.clause {
				tpl, f, sqls, done = cand, nf, sq, true
				break
			}
		}
		if done {
			break
		}
	}
	for changed := true; changed; {
		changed = false
		for _, t := range []string{"t", "u", "v"} {
			for i := range spec.T[t] {
				ns := spec.Without(t, i)
				nf, skip, _, sq := check(load(ns), bi, tpl)
				if !skip && nf != nil && nf.clause == f.clause {
					spec, f, sqls, changed = ns, nf, sq, true
					break
				}
			}
			if changed {
				break
			}
		}
	}
	return spec, tpl, f, sqls
}

func init() {
	core.Register(&core.Prop{
		ID:    "C05",
		Level: "exploration",
		Rule: "every (base query, predicate, database): bases {single table WHERE, inner join WHERE, left join WHERE, grouped HAVING, inner-join ON}; predicates = ~150 atom templates (all comparison operators incl. <=>, IS [NOT] NULL/TRUE/FALSE/UNKNOWN, IN/NOT IN lists with NULL, BETWEEN, arithmetic incl. DIV/%//, CASE/COALESCE/IFNULL/NULLIF/IF, ~40 built-ins, row comparisons, IN/EXISTS/scalar subqueries), their negations, and AND/OR/NOT combinations (quick: 10 representative atoms squared; thorough: all atoms x representatives); " +
			"databases = the standard family (DB*, all <=1-row assignments, all <=2-row PK tables; indexed and unindexed layouts); oracle: Q0 = (Q0 WHERE p) + (Q0 WHERE NOT p) + (Q0 WHERE p IS NULL) as multisets, and WHERE p selects exactly the rows whose select-list p is TRUE; non-trivial = all three partitions non-empty",
		Assumptions: []string{"integer data over {NULL,0,1,2}", "a predicate that the engine rejects in all three partitions is outside the domain"},
		QuickBudget: 75, ThoroughBudget: 1200,
		Run: func(r *core.Run) {
			level := 0
			if r.Thorough() {
				level = 1
			}
			specs := qgen.Databases(level)
			if r.Quick() {
				var sel []qgen.DBSpec
				n := map[string]int{}
				for _, sp := range specs {
					n[sp.Family]++
					if sp.Family == "star" || n[sp.Family]%2 == 1 {
						sel = append(sel, sp)
					}
				}
				specs = sel
			}
			preds := predicates(r.Thorough())
			var spreds []pred
			for _, a := range stringAtoms() {
				spreds = append(spreds, pred{a, nil}, pred{"NOT (" + a + ")", []string{a}})
			}
			r.Info("predicates", len(preds))
			r.Info("string_predicates", len(spreds))
			r.Info("databases", len(specs))
			r.Info("bases", len(bases))
			idx := int64(0)
			for _, sp := range specs {
				var l *qrun.Loaded
				for bi := range bases {
					plist := preds
					if bi >= firstStringBase {
						if sp.Family != "star" {
							continue // the string tables are the same in every database
						}
						plist = spreds
					}
					for _, pr := range plist {
						tpl := pr.Tpl
						idx++
						if !r.Mine(idx) {
							continue
						}
						if r.Expired() {
							r.Capped("time budget reached")
							return
						}
						if l == nil {
							l = load(sp)
						}
						r.Eval()
						f, skip, nt, _ := check(l, bi, tpl)
						if skip {
							r.Count("skipped_rejected_predicate", 1)
							continue
						}
						if nt {
							r.NonTrivial(fmt.Sprint(bi, tpl, sp.Name()))
							r.Outcome(bases[bi].name)
							if r.WantSample() {
								r.Sample(map[string]any{"base": bases[bi].name, "pred": subst(tpl, bases[bi]), "db": sp.Name()})
							}
						}
						if f != nil {
							ms, mtpl, mf, sqls := minimise(sp, bi, pr, f)
							r.Violate(core.Violation{Clause: mf.clause, Kind: mf.kind, Subject: subject(mf, bi, mtpl, ms),
								Witness: core.J(tcase{Base: bi, Pred: mtpl, Spec: ms, SQL: sqls}), Observed: mf.obs, Expected: mf.exp})
						}
					}
				}
			}
		},
		Replay: func(r *core.Run, w json.RawMessage) {
			var c tcase
			if json.Unmarshal(w, &c) != nil {
				return
			}
			f, skip, _, _ := check(load(c.Spec), c.Base, c.Pred)
			if !skip && f != nil {
				r.Violate(core.Violation{Clause: f.clause, Kind: f.kind, Subject: subject(f, c.Base, c.Pred, c.Spec), Witness: w, Observed: f.obs, Expected: f.exp})
			}
		},
	})
}
