// Package c06 — equivalent SQL formulations return equal results.
//
// Pure-engine metamorphic check: generated PAIRS of statements that SQL defines to be equivalent
// are run on every database of the standard family and must return equal multisets (or errors of
// the same class). Pair classes: IN-list vs OR-chain (lists crossing the hashed-IN rewrite, NULL
// members, row values), BETWEEN vs two comparisons, IN (subquery) vs EXISTS vs semi-join forms,
// NOT IN vs its NULL-aware NOT EXISTS form, JOIN ON vs CROSS JOIN WHERE vs comma join, CTE vs
// derived table vs inlined body vs view, DISTINCT vs GROUP BY, misc identities, and constant
// folding vs row evaluation (an expression over literals vs over a one-row table holding them).
package c06

import (
	"encoding/json"
	"fmt"
	"sort"
	"strings"

	"verif/mc/core"
	"verif/mc/eng"
	"verif/mc/qgen"
	"verif/mc/qrun"
)

type pair struct {
	Class string `json:"class"`
	A     string `json:"a"`
	B     string `json:"b"`
	// Setup statements (views) run once per database before A/B; Teardown after.
	Setup, Teardown []string
}

func lit(v string) string { return v }

var dom = []string{"NULL", "1", "2", "0"}

func pairs(thorough bool) []pair {
	var out []pair
	add := func(class, a, b string) { out = append(out, pair{Class: class, A: a, B: b}) }
	cols := []string{"t.a", "t.b"}
	// 1. IN list vs OR chain, k = 1..4 (quick: lists from {1,2,NULL}; thorough adds 0 and the column b)
	members := []string{"1", "2", "NULL"}
	if thorough {
		members = []string{"1", "2", "NULL", "0", "t.b"}
	}
	var lists [][]string
	var rec func(cur []string, start int)
	rec = func(cur []string, start int) {
		if len(cur) > 0 {
			lists = append(lists, append([]string{}, cur...))
		}
		if len(cur) == 4 {
			return
		}
		for i := start; i < len(members); i++ {
			rec(append(cur, members[i]), i) // with repetition (duplicates in the list)
		}
	}
	rec(nil, 0)
	for _, x := range cols {
		for _, l := range lists {
			ors := make([]string, len(l))
			ands := make([]string, len(l))
			for i, m := range l {
				ors[i] = "(" + x + " = " + m + ")"
				ands[i] = "(" + x + " <> " + m + ")"
			}
			in := x + " IN (" + strings.Join(l, ", ") + ")"
			nin := x + " NOT IN (" + strings.Join(l, ", ") + ")"
			add("in-list/where", "SELECT * FROM t WHERE "+in, "SELECT * FROM t WHERE "+strings.Join(ors, " OR "))
			add("not-in-list/where", "SELECT * FROM t WHERE "+nin, "SELECT * FROM t WHERE "+strings.Join(ands, " AND "))
			add("in-list/select", "SELECT t.a, t.b, "+in+" AS f FROM t", "SELECT t.a, t.b, ("+strings.Join(ors, " OR ")+") AS f FROM t")
			add("not-in-list/select", "SELECT t.a, t.b, "+nin+" AS f FROM t", "SELECT t.a, t.b, ("+strings.Join(ands, " AND ")+") AS f FROM t")
		}
	}
	// row-value IN
	tups := [][]string{{"(1, 2)"}, {"(1, 2)", "(2, 1)"}, {"(1, NULL)", "(2, 1)"}, {"(NULL, NULL)"}, {"(1, 1)", "(2, NULL)", "(NULL, 2)"}}
	for _, l := range tups {
		ors := make([]string, len(l))
		for i, m := range l {
			ors[i] = "((t.a, t.b) = " + m + ")"
		}
		add("in-tuple/where", "SELECT * FROM t WHERE (t.a, t.b) IN ("+strings.Join(l, ", ")+")", "SELECT * FROM t WHERE "+strings.Join(ors, " OR "))
		add("not-in-tuple/where", "SELECT * FROM t WHERE (t.a, t.b) NOT IN ("+strings.Join(l, ", ")+")", "SELECT * FROM t WHERE NOT ("+strings.Join(ors, " OR ")+")")
		add("in-tuple/select", "SELECT t.a, t.b, (t.a, t.b) IN ("+strings.Join(l, ", ")+") AS f FROM t", "SELECT t.a, t.b, ("+strings.Join(ors, " OR ")+") AS f FROM t")
	}
	// 2. BETWEEN
	for _, x := range cols {
		for _, lo := range []string{"NULL", "1", "2", "t.b"} {
			for _, hi := range []string{"NULL", "1", "2"} {
				add("between/where", fmt.Sprintf("SELECT * FROM t WHERE %s BETWEEN %s AND %s", x, lo, hi), fmt.Sprintf("SELECT * FROM t WHERE %s >= %s AND %s <= %s", x, lo, x, hi))
				add("not-between/where", fmt.Sprintf("SELECT * FROM t WHERE %s NOT BETWEEN %s AND %s", x, lo, hi), fmt.Sprintf("SELECT * FROM t WHERE %s < %s OR %s > %s", x, lo, x, hi))
				add("between/select", fmt.Sprintf("SELECT t.a, t.b, %s BETWEEN %s AND %s AS f FROM t", x, lo, hi), fmt.Sprintf("SELECT t.a, t.b, (%s >= %s AND %s <= %s) AS f FROM t", x, lo, x, hi))
			}
		}
	}
	// 3. IN (subquery) / EXISTS / join forms
	for _, x := range cols {
		for _, sc := range []string{"u.a", "u.b"} {
			for _, w := range []string{"", " WHERE u.a = 1", " WHERE u.b IS NOT NULL", " WHERE u.a < u.b"} {
				and := " WHERE "
				if w != "" {
					and = w + " AND "
				}
				add("in-sub/exists", fmt.Sprintf("SELECT * FROM t WHERE %s IN (SELECT %s FROM u%s)", x, sc, w), fmt.Sprintf("SELECT * FROM t WHERE EXISTS (SELECT 1 FROM u%s%s = %s)", and, sc, x))
				add("in-sub/distinct-join", fmt.Sprintf("SELECT * FROM t WHERE %s IN (SELECT %s FROM u%s)", x, sc, w), fmt.Sprintf("SELECT t.* FROM t JOIN (SELECT DISTINCT %s AS k FROM u%s) d ON d.k = %s", sc, w, x))
				add("not-in-sub/not-exists", fmt.Sprintf("SELECT * FROM t WHERE %s NOT IN (SELECT %s FROM u%s)", x, sc, w), fmt.Sprintf("SELECT * FROM t WHERE NOT EXISTS (SELECT 1 FROM u%s(%s = %s OR %s IS NULL OR %s IS NULL))", and, sc, x, sc, x))
				add("in-sub/any-count", fmt.Sprintf("SELECT * FROM t WHERE %s IN (SELECT %s FROM u%s)", x, sc, w), fmt.Sprintf("SELECT * FROM t WHERE (SELECT COUNT(*) FROM u%s%s = %s) > 0", and, sc, x))
			}
		}
	}
	add("not-exists/left-join-null", "SELECT t.* FROM t WHERE NOT EXISTS (SELECT 1 FROM u WHERE u.a = t.a)", "SELECT t.* FROM t LEFT JOIN (SELECT DISTINCT a FROM u WHERE a IS NOT NULL) d ON d.a = t.a WHERE d.a IS NULL")
	add("exists/semi-hint", "SELECT * FROM t WHERE EXISTS (SELECT 1 FROM u WHERE u.b = t.b)", "SELECT /*+ SEMI_JOIN(t,u) */ * FROM t WHERE EXISTS (SELECT 1 FROM u WHERE u.b = t.b)")
	// 4. join spellings
	ons := []string{"t.a = u.a", "t.b = u.b", "t.a = u.b", "t.a < u.a", "t.a <=> u.a", "t.a = u.a AND t.b = u.b", "t.a = u.a AND u.b = 1", "t.a = u.a OR t.b = u.b", "t.a + 1 = u.a", "t.a IN (u.a, u.b)"}
	for _, on := range ons {
		add("join-on/cross-where", "SELECT * FROM t JOIN u ON "+on, "SELECT * FROM t CROSS JOIN u WHERE "+on)
		add("join-on/comma-where", "SELECT * FROM t JOIN u ON "+on, "SELECT * FROM t, u WHERE "+on)
		add("join-on/swapped", "SELECT t.a, t.b, u.a, u.b FROM t JOIN u ON "+on, "SELECT t.a, t.b, u.a, u.b FROM u JOIN t ON "+on)
		add("left-join/right-join-swapped", "SELECT t.a, t.b, u.a, u.b FROM t LEFT JOIN u ON "+on, "SELECT t.a, t.b, u.a, u.b FROM u RIGHT JOIN t ON "+on)
		add("join-on/derived", "SELECT * FROM t JOIN u ON "+on, "SELECT * FROM (SELECT * FROM t) t JOIN (SELECT * FROM u) u ON "+on)
		add("join-on/straight", "SELECT * FROM t JOIN u ON "+on, "SELECT /*+ JOIN_ORDER(u,t) */ * FROM t JOIN u ON "+on)
	}
	// 5. CTE / derived / inlined / view
	bodies := []string{"SELECT a, b FROM t WHERE a > 1", "SELECT a, COUNT(*) AS c FROM t GROUP BY a", "SELECT DISTINCT b AS a, a AS b FROM t", "SELECT t.a, u.b FROM t JOIN u ON t.a = u.a", "SELECT a, b FROM t UNION SELECT a, b FROM u", "SELECT a, b FROM t ORDER BY a, b LIMIT 2"}
	outers := []string{"SELECT * FROM %s", "SELECT * FROM %s WHERE x.a = 1", "SELECT x.a FROM %s WHERE x.a IS NOT NULL", "SELECT COUNT(*) FROM %s", "SELECT * FROM %s JOIN v ON v.a = x.a"}
	for bi, b := range bodies {
		for _, o := range outers {
			cte := "WITH x AS (" + b + ") " + fmt.Sprintf(o, "x")
			der := fmt.Sprintf(o, "("+b+") x")
			add("cte/derived", cte, der)
			vname := fmt.Sprintf("vw%d", bi)
			p := pair{Class: "view/derived", A: fmt.Sprintf(o, vname+" x"), B: der, Setup: []string{"CREATE VIEW " + vname + " AS " + b}, Teardown: []string{"DROP VIEW " + vname}}
			out = append(out, p)
		}
		add("cte-twice/derived-twice", "WITH x AS ("+b+") SELECT COUNT(*) FROM x x1 JOIN x x2 ON x1.a = x2.a", "SELECT COUNT(*) FROM ("+b+") x1 JOIN ("+b+") x2 ON x1.a = x2.a")
	}
	// 7. misc identities
	add("distinct/group-by", "SELECT DISTINCT a, b FROM t", "SELECT a, b FROM t GROUP BY a, b")
	add("distinct/group-by-1", "SELECT DISTINCT a FROM t", "SELECT a FROM t GROUP BY a")
	add("count-star/sum-1", "SELECT a, COUNT(*) FROM t GROUP BY a", "SELECT a, CAST(SUM(1) AS SIGNED) FROM t GROUP BY a")
	add("union/union-all-distinct", "SELECT a, b FROM t UNION SELECT a, b FROM u", "SELECT DISTINCT * FROM (SELECT a, b FROM t UNION ALL SELECT a, b FROM u) x")
	add("intersect/in-form", "SELECT a FROM t INTERSECT SELECT a FROM u", "SELECT DISTINCT a FROM t WHERE EXISTS (SELECT 1 FROM u WHERE u.a <=> t.a)")
	add("except/not-exists-form", "SELECT a FROM t EXCEPT SELECT a FROM u", "SELECT DISTINCT a FROM t WHERE NOT EXISTS (SELECT 1 FROM u WHERE u.a <=> t.a)")
	add("ne/not-eq", "SELECT * FROM t WHERE a <> b", "SELECT * FROM t WHERE NOT (a = b)")
	add("having/where", "SELECT a, COUNT(*) FROM t GROUP BY a HAVING a > 1", "SELECT a, COUNT(*) FROM t WHERE a > 1 GROUP BY a")
	add("is-null/nullsafe", "SELECT * FROM t WHERE b IS NULL", "SELECT * FROM t WHERE b <=> NULL")
	add("coalesce/case", "SELECT a, COALESCE(a, b) FROM t", "SELECT a, CASE WHEN a IS NOT NULL THEN a ELSE b END FROM t")
	add("filter-push/derived", "SELECT * FROM (SELECT a, b FROM t) x WHERE x.a = 1", "SELECT a, b FROM t WHERE a = 1")
	add("and-commutes", "SELECT * FROM t WHERE a = 1 AND b IS NULL", "SELECT * FROM t WHERE b IS NULL AND a = 1")
	add("or-distributes", "SELECT * FROM t WHERE a = 1 AND (b = 1 OR b = 2)", "SELECT * FROM t WHERE (a = 1 AND b = 1) OR (a = 1 AND b = 2)")
	add("de-morgan", "SELECT * FROM t WHERE NOT (a = 1 AND b = 2)", "SELECT * FROM t WHERE NOT (a = 1) OR NOT (b = 2)")
	add("double-not", "SELECT * FROM t WHERE NOT (NOT (a < b))", "SELECT * FROM t WHERE a < b")
	add("limit-comma/offset", "SELECT a, b FROM t ORDER BY a, b LIMIT 1, 2", "SELECT a, b FROM t ORDER BY a, b LIMIT 2 OFFSET 1")
	return out
}

// folding templates: an expression over X,Y evaluated with literals vs with columns of a one-row table.
func foldTemplates() []string {
	ops := []string{"=", "<>", "<", "<=", ">", ">=", "<=>"}
	var a []string
	for _, op := range ops {
		a = append(a, "X "+op+" Y")
	}
	a = append(a, "X + Y", "X - Y", "X * Y", "X / Y", "X DIV Y", "X % Y", "-X", "X IS NULL", "X IS NOT NULL", "X IN (Y, 1)", "X NOT IN (Y, NULL)", "X BETWEEN Y AND 2",
		"COALESCE(X, Y)", "IFNULL(X, Y)", "NULLIF(X, Y)", "IF(X, Y, 7)", "CASE WHEN X > Y THEN X ELSE Y END", "CASE X WHEN Y THEN 1 ELSE 0 END", "GREATEST(X, Y)", "LEAST(X, Y)", "ABS(X - Y)",
		"X AND Y", "X OR Y", "X XOR Y", "NOT X", "X IS TRUE", "X IS NOT FALSE", "CONCAT(X, Y)", "CONCAT_WS('-', X, Y)", "X & Y", "X | Y", "X << Y", "POW(X, Y)", "MOD(X, Y)", "ROUND(X / 3, 1)", "SIGN(X - Y)",
		"ISNULL(X)", "INTERVAL(X, Y, 2)", "ELT(X, 'a', 'b')", "FIELD(X, Y, 2)", "STRCMP(X, Y)", "(X, Y) = (1, 2)", "(X, Y) IN ((1, 2), (2, NULL))", "CAST(X AS CHAR)", "CAST(X + Y AS DECIMAL(5,2))", "X = (SELECT Y)", "X IN (SELECT Y)", "EXISTS (SELECT X)")
	return a
}

func substXY(tpl, x, y string) string {
	var sb strings.Builder
	for i := 0; i < len(tpl); i++ {
		c := tpl[i]
		isW := func(b byte) bool {
			return b == '_' || (b >= 'a' && b <= 'z') || (b >= 'A' && b <= 'Z') || (b >= '0' && b <= '9')
		}
		if (c == 'X' || c == 'Y') && (i == 0 || !isW(tpl[i-1])) && (i+1 == len(tpl) || !isW(tpl[i+1])) {
			if c == 'X' {
				sb.WriteString(x)
			} else {
				sb.WriteString(y)
			}
			continue
		}
		sb.WriteByte(c)
	}
	return sb.String()
}

type outcome struct {
	rows []string
	err  string
	pan  string
}

func run(s *eng.Session, q string) outcome {
	r := s.Exec(q)
	if r.Panic != nil {
		return outcome{pan: fmt.Sprint(r.Panic) + " @" + core.TopFrame(r.Stack)}
	}
	if r.Err != nil {
		return outcome{err: eng.ErrClass(r.Err)}
	}
	rows := qrun.NormRows(r)
	sort.Strings(rows)
	return outcome{rows: rows}
}

type failure struct{ kind, obs, exp string }

func compare(a, b outcome) *failure {
	switch {
	case a.pan != "" || b.pan != "":
		return &failure{"panic", "A: " + a.pan + " B: " + b.pan, ""}
	case a.err != "" && b.err != "":
		if a.err != b.err {
			return &failure{"different-error-class", "A: " + a.err, "B: " + b.err}
		}
		return nil
	case a.err != "" || b.err != "":
		return &failure{"error-vs-rows", fmt.Sprintf("A: %s%v", a.err, a.rows), fmt.Sprintf("B: %s%v", b.err, b.rows)}
	case !qrun.Equal(a.rows, b.rows):
		return &failure{qrun.DiffKind(a.rows, b.rows), fmt.Sprintf("A: %v", a.rows), fmt.Sprintf("B: %v", b.rows)}
	}
	return nil
}

func checkPair(l *qrun.Loaded, p pair) (f *failure, skip bool, nt bool) {
	for _, s := range p.Setup {
		if r := l.Sess.Exec(s); r.Err != nil {
			return nil, true, false
		}
	}
	a, b := run(l.Sess, p.A), run(l.Sess, p.B)
	for _, s := range p.Teardown {
		l.Sess.Exec(s)
	}
	if a.err == "unsupported" || b.err == "unsupported" || (a.err == "parse" && b.err == "parse") {
		return nil, true, false
	}
	return compare(a, b), false, len(a.rows) > 0
}

type witness struct {
	Pair pair        `json:"pair"`
	Spec qgen.DBSpec `json:"spec"`
}

func subject(p pair, spec qgen.DBSpec, f *failure) map[string]string {
	nulls := "no"
	for _, rows := range spec.T {
		for _, r := range rows {
			if r[0] == nil || r[1] == nil {
				nulls = "yes"
			}
		}
	}
	return map[string]string{"class": p.Class, "layout": spec.LayoutClass(), "layout_name": spec.Layout, "nulls": nulls}
}

func minimise(spec qgen.DBSpec, p pair, f *failure) (qgen.DBSpec, *failure) {
	for changed := true; changed; {
		changed = false
		for _, t := range []string{"t", "u", "v"} {
			for i := range spec.T[t] {
				ns := spec.Without(t, i)
				nf, skip, _ := checkPair(qrun.Load(ns), p)
				if !skip && nf != nil {
					spec, f, changed = ns, nf, true
					break
				}
			}
			if changed {
				break
			}
		}
	}
	return spec, f
}

func init() {
	core.Register(&core.Prop{
		ID:    "C06",
		Level: "exploration",
		Rule: "every generated pair of equivalent statements x every database of the standard family: IN-list vs OR-chain and NOT IN vs AND-chain for all lists of 1..4 members (with repetition) over {1,2,NULL} [thorough: {1,2,NULL,0,t.b}] in WHERE and in the select list, row-value IN, BETWEEN vs comparisons, IN(subquery) vs EXISTS / DISTINCT join / COUNT forms, NOT IN vs NULL-aware NOT EXISTS, JOIN ON vs CROSS JOIN WHERE vs comma vs swapped vs derived vs hinted order (10 conditions), CTE vs derived table vs view (6 bodies x 5 uses), ~25 misc identities; " +
			"plus constant folding vs row evaluation: ~55 expression templates x all (x,y) in {NULL,0,1,2}^2 evaluated over literals and over the columns of a one-row table; oracle: equal multisets or errors of the same class; non-trivial = the pair returns rows",
		Assumptions: []string{"integer data over {NULL,0,1,2}", "a pair where either side is rejected as unsupported is outside the domain"},
		QuickBudget: 75, ThoroughBudget: 1200,
		Run: func(r *core.Run) {
			level := 0
			if r.Thorough() {
				level = 1
			}
			ps := pairs(r.Thorough())
			specs := qgen.Databases(level)
			r.Info("pairs", len(ps))
			r.Info("databases", len(specs))
			idx := int64(0)
			for _, sp := range specs {
				var l *qrun.Loaded
				for _, p := range ps {
					idx++
					if !r.Mine(idx) {
						continue
					}
					if r.Expired() {
						r.Capped("time budget reached in the pair space")
						return
					}
					if l == nil {
						l = qrun.Load(sp)
					}
					r.Eval()
					f, skip, nt := checkPair(l, p)
					if skip {
						r.Count("skipped_unsupported", 1)
						continue
					}
					if nt {
						r.NonTrivial(p.A + "|" + p.B + "|" + sp.Name())
						r.Outcome(p.Class)
						if r.WantSample() {
							r.Sample(map[string]any{"class": p.Class, "a": p.A, "b": p.B, "db": sp.Name()})
						}
					}
					if f != nil {
						ms, mf := minimise(sp, p, f)
						r.Violate(core.Violation{Check: "pairs", Clause: "spelling-pair", Kind: mf.kind, Subject: subject(p, ms, mf), Witness: core.J(witness{p, ms}), Observed: mf.obs, Expected: mf.exp})
					}
				}
			}
			// constant folding vs row evaluation
			e := eng.New()
			s := e.NewSession("root")
			s.MustExec("create table one (x int, y int)")
			for _, tpl := range foldTemplates() {
				for _, x := range dom {
					for _, y := range dom {
						idx++
						if !r.Mine(idx) {
							continue
						}
						r.Eval()
						f, nt := checkFold(s, tpl, x, y)
						if nt {
							r.NonTrivial("fold|" + tpl + "|" + x + "|" + y)
							r.Outcome("fold")
						}
						if f != nil {
							r.Violate(core.Violation{Check: "folding", Clause: "constant-vs-row", Kind: f.kind, Subject: map[string]string{"expr": tpl},
								Witness: core.J(map[string]string{"fold": tpl, "x": x, "y": y}), Observed: f.obs, Expected: f.exp})
						}
					}
				}
			}
		},
		Replay: func(r *core.Run, w json.RawMessage) {
			var fw map[string]string
			if json.Unmarshal(w, &fw) == nil && fw["fold"] != "" {
				e := eng.New()
				s := e.NewSession("root")
				s.MustExec("create table one (x int, y int)")
				if f, _ := checkFold(s, fw["fold"], fw["x"], fw["y"]); f != nil {
					r.Violate(core.Violation{Check: "folding", Clause: "constant-vs-row", Kind: f.kind, Subject: map[string]string{"expr": fw["fold"]}, Witness: w, Observed: f.obs, Expected: f.exp})
				}
				return
			}
			var wit witness
			if json.Unmarshal(w, &wit) != nil {
				return
			}
			if f, skip, _ := checkPair(qrun.Load(wit.Spec), wit.Pair); !skip && f != nil {
				r.Violate(core.Violation{Check: "pairs", Clause: "spelling-pair", Kind: f.kind, Subject: subject(wit.Pair, wit.Spec, f), Witness: w, Observed: f.obs, Expected: f.exp})
			}
		},
	})
}

func checkFold(s *eng.Session, tpl, x, y string) (*failure, bool) {
	s.MustExec("delete from one")
	s.MustExec(fmt.Sprintf("insert into one values (%s, %s)", x, y))
	a := run(s, "SELECT "+substXY(tpl, x, y)+" AS e FROM one")
	b := run(s, "SELECT "+substXY(tpl, "one.x", "one.y")+" AS e FROM one")
	if a.err == "unsupported" || b.err == "unsupported" || (a.err != "" && b.err != "" && a.err == b.err) {
		return nil, false
	}
	if f := compare(a, b); f != nil {
		return f, true
	}
	// the same expression as a filter, plain and under NOT, with both / one / no operand constant:
	// the analyzer simplifies filters with constant operands (x AND NULL, x OR TRUE, …) by rules of
	// its own, which must agree with evaluating the expression on the row
	for _, wrap := range []string{"%s", "NOT (%s)"} {
		ref := run(s, "SELECT COUNT(*) FROM one WHERE "+fmt.Sprintf(wrap, substXY(tpl, "one.x", "one.y")))
		for _, v := range [][2]string{{x, y}, {"one.x", y}, {x, "one.y"}} {
			q := "SELECT COUNT(*) FROM one WHERE " + fmt.Sprintf(wrap, substXY(tpl, v[0], v[1]))
			o := run(s, q)
			if o.err == "unsupported" || ref.err == "unsupported" || (o.err != "" && ref.err != "" && o.err == ref.err) {
				continue
			}
			if f := compare(o, ref); f != nil {
				f.kind = "filter-" + f.kind
				f.obs = q + " -> " + f.obs
				f.exp = "with both operands read from the row: " + f.exp
				return f, true
			}
		}
	}
	return nil, a.err == "" && len(a.rows) == 1 && a.rows[0] != "(NULL)"
}
