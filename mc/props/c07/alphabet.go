package c07

import (
	"math/big"
	"strings"
)

// val is one element of a value alphabet: its SQL spelling plus the content it denotes (used only to
// CLASSIFY how two values differ — never by the oracle, which asks the engine's own '=').
type val struct {
	SQL  string // literal as written in INSERT / inline
	Kind byte   // 'n' number, 's' character string, 'b' binary string, 't' temporal, '0' NULL
	S    string // content: numeral text / string content / canonical timestamp
}

func null() val             { return val{"NULL", '0', ""} }
func num(s string) val      { return val{s, 'n', s} }
func str(s string) val      { return val{"'" + s + "'", 's', s} }
func tim(lit, c string) val { return val{lit, 't', c} }
func bin(lit, c string) val { return val{lit, 'b', c} }

// typing = how the two values of a pair are typed when they are stored in tables.
type typing struct {
	Name   string
	T1, T2 string // SQL column types of t.v / u.v (equal for same-type typings)
	C1, C2 string // class names (signature coordinates)
	V1, V2 []val
	Filler string // literal that equals no alphabet value (for IN lists)
	// SetOps: UNION/INTERSECT/EXCEPT and grouping over a UNION ALL of both columns are applicable
	// (the operands have one comparison domain; a number and a string have not: UNION compares
	// them as strings while '=' compares them as numbers).
	SetOps bool
}

func (t *typing) same() bool { return t.T1 == t.T2 }

var strVals = []val{str("a"), str("A"), str("á"), str("a "), str("ab"), str(""), null()}

func sameTyping(name, sqlType, class string, vs []val, filler string) typing {
	return typing{Name: name, T1: sqlType, T2: sqlType, C1: class, C2: class, V1: vs, V2: vs, Filler: filler, SetOps: true}
}

var (
	intVals    = []val{num("0"), num("1"), num("-1"), num("2"), null()}
	uintVals   = []val{num("0"), num("1"), num("18446744073709551615"), null()}
	dblVals    = []val{num("0e0"), num("-0e0"), num("1"), num("1.5"), num("0.1"), num("2"), null()}
	fltVals    = []val{num("0e0"), num("-0e0"), num("1"), num("0.1"), null()}
	decVals    = []val{num("0"), num("-0.0"), num("1"), num("1.0"), num("1.00"), num("1.10"), num("1.1"), num("2"), null()}
	decXVals   = []val{num("0"), num("1"), num("1.50"), num("0.10"), num("2"), null()}
	intXVals   = []val{num("0"), num("1"), num("2"), null()}
	numTxtVals = []val{str("0"), str("1"), str("1.0"), str("01"), str("1e0"), str("1.5"), str("a"), str(""), null()}
	dateVals   = []val{tim("'2020-01-01'", "2020-01-01 00:00:00"), tim("'2020-01-02'", "2020-01-02 00:00:00"), null()}
	dtVals     = []val{tim("'2020-01-01 00:00:00'", "2020-01-01 00:00:00"), tim("'2020-01-01 00:00:01'", "2020-01-01 00:00:01"), tim("'2020-01-02 00:00:00'", "2020-01-02 00:00:00"), null()}
	dateTxt    = []val{str("2020-01-01"), str("2020-1-1"), str("20200101"), str("2020-01-01 00:00:00"), str("2020-01-02"), null()}
	vbinVals   = []val{bin("'a'", "a"), bin("'A'", "A"), bin("'a '", "a "), bin("x'6100'", "a\x00"), bin("'ab'", "ab"), bin("''", ""), null()}
	binVals    = []val{bin("'a'", "a\x00"), bin("x'6100'", "a\x00"), bin("'A'", "A\x00"), bin("'ab'", "ab"), null()}
)

var collations = []string{"utf8mb4_0900_bin", "utf8mb4_bin", "utf8mb4_0900_ai_ci", "utf8mb4_0900_as_cs", "utf8mb4_general_ci", "utf8mb4_unicode_ci"}

func typings() []typing {
	ts := []typing{
		sameTyping("int", "INT", "int", intVals, "99"),
		sameTyping("bigint-unsigned", "BIGINT UNSIGNED", "uint", uintVals, "99"),
		sameTyping("double", "DOUBLE", "double", dblVals, "99"),
		sameTyping("float", "FLOAT", "float", fltVals, "99"),
		sameTyping("decimal(10,2)", "DECIMAL(10,2)", "decimal", decVals, "99"),
	}
	for _, c := range collations {
		ts = append(ts, sameTyping("varchar/"+c, "VARCHAR(10) COLLATE "+c, "varchar:"+c, strVals, "'~zz'"))
	}
	for _, c := range []string{"utf8mb4_0900_ai_ci", "utf8mb4_general_ci"} {
		ts = append(ts, sameTyping("char/"+c, "CHAR(4) COLLATE "+c, "char:"+c, strVals, "'~zz'"))
	}
	ts = append(ts, sameTyping("text/utf8mb4_0900_ai_ci", "TEXT COLLATE utf8mb4_0900_ai_ci", "text:utf8mb4_0900_ai_ci", strVals, "'~zz'"))
	ts = append(ts,
		sameTyping("varbinary", "VARBINARY(4)", "varbinary", vbinVals, "'~zz'"),
		sameTyping("binary(2)", "BINARY(2)", "binary", binVals, "'~z'"),
		sameTyping("date", "DATE", "date", dateVals, "'1999-09-09'"),
		sameTyping("datetime", "DATETIME", "datetime", dtVals, "'1999-09-09 09:09:09'"),
	)
	cross := func(n1, t1, c1 string, v1 []val, n2, t2, c2 string, v2 []val, filler string, setops bool) {
		ts = append(ts,
			typing{Name: n1 + "~" + n2, T1: t1, T2: t2, C1: c1, C2: c2, V1: v1, V2: v2, Filler: filler, SetOps: setops},
			typing{Name: n2 + "~" + n1, T1: t2, T2: t1, C1: c2, C2: c1, V1: v2, V2: v1, Filler: filler, SetOps: setops})
	}
	cross("int", "INT", "int", intXVals, "decimal", "DECIMAL(10,2)", "decimal", decXVals, "99", true)
	cross("int", "INT", "int", intXVals, "double", "DOUBLE", "double", dblVals, "99", true)
	cross("decimal", "DECIMAL(10,2)", "decimal", decXVals, "double", "DOUBLE", "double", dblVals, "99", true)
	cross("float", "FLOAT", "float", fltVals, "double", "DOUBLE", "double", dblVals, "99", true)
	cross("int", "INT", "int", intXVals, "uint", "BIGINT UNSIGNED", "uint", uintVals, "99", true)
	cross("int", "INT", "int", intXVals, "numtext", "VARCHAR(10)", "varchar:numerals", numTxtVals, "99", false)
	cross("decimal", "DECIMAL(10,2)", "decimal", decXVals, "numtext", "VARCHAR(10)", "varchar:numerals", numTxtVals, "99", false)
	cross("double", "DOUBLE", "double", dblVals, "numtext", "VARCHAR(10)", "varchar:numerals", numTxtVals, "99", false)
	cross("date", "DATE", "date", dateVals, "datetime", "DATETIME", "datetime", dtVals, "'1999-09-09 09:09:09'", true)
	cross("date", "DATE", "date", dateVals, "datetext", "VARCHAR(20)", "varchar:dates", dateTxt, "'1999-09-09'", false)
	cross("varchar", "VARCHAR(10) COLLATE utf8mb4_0900_ai_ci", "varchar:utf8mb4_0900_ai_ci", strVals, "char", "CHAR(4) COLLATE utf8mb4_0900_ai_ci", "char:utf8mb4_0900_ai_ci", strVals, "'~zz'", true)
	cross("varchar", "VARCHAR(10) COLLATE utf8mb4_0900_ai_ci", "varchar:utf8mb4_0900_ai_ci", strVals, "text", "TEXT COLLATE utf8mb4_0900_ai_ci", "text:utf8mb4_0900_ai_ci", strVals, "'~zz'", true)
	cross("binary(2)", "BINARY(2)", "binary", binVals, "varbinary", "VARBINARY(4)", "varbinary", vbinVals, "'~z'", true)
	return ts
}

// ---- literal placement: values written as typed literals, no conversion into a column type

type litGroup struct {
	Name   string
	Class  func(v val) string
	Vals   []val
	Filler string
}

func collLit(s, coll string) val {
	return val{"_utf8mb4'" + s + "' COLLATE " + coll, 's', s}
}

func litGroups() []litGroup {
	numClass := func(v val) string {
		switch {
		case v.Kind == '0':
			return "null"
		case v.Kind == 's':
			return "lit-text-numeral"
		case strings.ContainsAny(v.SQL, "eE"):
			return "lit-float"
		case strings.Contains(v.SQL, "."):
			return "lit-decimal"
		}
		return "lit-int"
	}
	gs := []litGroup{{
		Name: "num", Class: numClass, Filler: "99",
		Vals: []val{num("0"), num("-0"), num("0.0"), num("-0.0"), num("0e0"), num("-0e0"), num("1"), num("1.0"), num("1.00"), num("1e0"), str("1"), str("1.0"),
			num("0.1"), num("0.10"), num("1e-1"), num("2"), null()},
	}}
	for _, c := range []string{"utf8mb4_0900_bin", "utf8mb4_0900_ai_ci", "utf8mb4_0900_as_cs", "utf8mb4_general_ci"} {
		c := c
		var vs []val
		for _, s := range []string{"a", "A", "á", "a ", "ab"} {
			vs = append(vs, collLit(s, c))
		}
		vs = append(vs, null())
		gs = append(gs, litGroup{Name: "str/" + c, Filler: "_utf8mb4'~zz' COLLATE " + c, Vals: vs, Class: func(v val) string {
			if v.Kind == '0' {
				return "null"
			}
			return "lit-text:" + c
		}})
	}
	gs = append(gs, litGroup{Name: "bin", Filler: "x'7e7e'", Class: func(v val) string {
		if v.Kind == '0' {
			return "null"
		}
		return "lit-binary"
	}, Vals: []val{bin("x'61'", "a"), bin("x'41'", "A"), bin("_binary'a'", "a"), bin("x'6100'", "a\x00"), bin("x'6120'", "a "), null()}})
	gs = append(gs, litGroup{Name: "time", Filler: "TIMESTAMP'1999-09-09 09:09:09'", Class: func(v val) string {
		switch {
		case v.Kind == '0':
			return "null"
		case v.Kind == 's':
			return "lit-text-date"
		case strings.HasPrefix(v.SQL, "DATE"):
			return "lit-date"
		}
		return "lit-datetime"
	}, Vals: []val{tim("DATE'2020-01-01'", "2020-01-01 00:00:00"), tim("TIMESTAMP'2020-01-01 00:00:00'", "2020-01-01 00:00:00"), tim("TIMESTAMP'2020-01-01 00:00:01'", "2020-01-01 00:00:01"),
		tim("CAST('2020-01-01' AS DATETIME)", "2020-01-01 00:00:00"), tim("DATE'2020-01-02'", "2020-01-02 00:00:00"), str("2020-01-01"), null()}})
	return gs
}

// ---- how do two values differ (classification for signatures and the non-trivial rule)

func ratOf(s string) (*big.Rat, bool) {
	s = strings.TrimSpace(s)
	if s == "" {
		return nil, false
	}
	r, ok := new(big.Rat).SetString(s)
	return r, ok
}

var accentFold = strings.NewReplacer("á", "a", "Á", "A")

// pairDiff classifies how the values of a pair differ, given their value classes.
func pairDiff(x, y val, c1, c2 string) string {
	d := diffClass(x, y)
	empty := func(v val) bool { return (v.Kind == 's' || v.Kind == 'b') && v.S == "" }
	switch {
	case d == "null" && (empty(x) || empty(y)):
		return "null-vs-empty-string"
	case d == "value" && (empty(x) || empty(y)):
		return "empty-string-vs-value"
	case c1 != c2 && (d == "identical" || d == "signed-zero"):
		// the same spelling stored under two types, e.g. 1 as INT and as DECIMAL(10,2)
		return "representation"
	}
	return d
}

func diffClass(x, y val) string {
	if x.Kind == '0' || y.Kind == '0' {
		return "null"
	}
	if x.SQL == y.SQL {
		return "identical"
	}
	isNumLike := func(v val) bool { return v.Kind == 'n' }
	switch {
	case isNumLike(x) || isNumLike(y):
		if x.Kind == 't' || y.Kind == 't' || x.Kind == 'b' || y.Kind == 'b' {
			return "mixed"
		}
		rx, okx := ratOf(x.S)
		ry, oky := ratOf(y.S)
		if !okx || !oky {
			return "non-numeric-text"
		}
		if rx.Cmp(ry) != 0 {
			return "value"
		}
		if rx.Sign() == 0 && strings.HasPrefix(x.S, "-") != strings.HasPrefix(y.S, "-") {
			return "signed-zero"
		}
		if x.S == y.S {
			return "identical"
		}
		return "representation"
	case x.Kind == 't' && y.Kind == 't':
		if x.S == y.S {
			return "midnight-representation"
		}
		return "value"
	case x.Kind == 't' || y.Kind == 't':
		return "text-vs-temporal"
	case x.Kind == 'b' && y.Kind == 'b', x.Kind == 's' && y.Kind == 's':
		a, b := x.S, y.S
		switch {
		case a == b:
			return "identical"
		case strings.TrimRight(a, "\x00") == strings.TrimRight(b, "\x00"):
			return "trailing-nul"
		case strings.TrimRight(a, " ") == strings.TrimRight(b, " "):
			return "trailing-space"
		case strings.ToLower(accentFold.Replace(a)) == strings.ToLower(accentFold.Replace(b)):
			return "case-or-accent"
		}
		return "value"
	}
	return "mixed"
}

// representational: the two values differ, but only in a way an equality may ignore — these are
// the pairs on which hashing has to canonicalise exactly like '=' does.
func representational(d string) bool {
	switch d {
	case "representation", "signed-zero", "midnight-representation", "text-vs-temporal", "trailing-nul", "trailing-space", "case-or-accent", "non-numeric-text":
		return true
	}
	return false
}

// family maps a value class to its comparison family (signature coordinate "domain").
func family(class string) string {
	switch {
	case class == "varchar:numerals" || class == "lit-text-numeral":
		return "numeral-text"
	case class == "varchar:dates" || class == "lit-text-date":
		return "date-text"
	case strings.HasPrefix(class, "varchar") || strings.HasPrefix(class, "char") || strings.HasPrefix(class, "text") || strings.HasPrefix(class, "lit-text"):
		return "text"
	case class == "int" || class == "uint" || class == "lit-int":
		return "int"
	case class == "decimal" || class == "lit-decimal":
		return "decimal"
	case class == "double" || class == "float" || class == "lit-float":
		return "float"
	case class == "binary" || class == "varbinary" || class == "lit-binary":
		return "binary"
	case class == "date" || class == "datetime" || class == "lit-date" || class == "lit-datetime":
		return "temporal"
	}
	return class
}

func domainOf(c1, c2 string) string {
	f1, f2 := family(c1), family(c2)
	switch {
	case f1 == f2 || f2 == "null":
		return f1
	case f1 == "null":
		return f2
	case f1 > f2:
		return f2 + "~" + f1
	}
	return f1 + "~" + f2
}
