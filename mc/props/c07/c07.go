// Package c07 — grouping and de-duplication use the same equality as '='.
//
// Metamorphic check against the engine's own '=': every ordered pair (x,y) of a value alphabet is
// placed (a) in typed tables (t.v = x, u.v = y, and both rows in b when the types are equal) and
// (b) as typed literals; the engine is asked `x = y`; then every hashing operator must merge /
// match the two values exactly when that answer is TRUE. hash.HashOf / HashOfSimple are called
// directly on the stored values: x = y TRUE => equal hashes.
package c07

import (
	"encoding/json"
	"fmt"
	"runtime/debug"
	"sort"
	"strings"

	"github.com/dolthub/go-mysql-server/sql"
	"github.com/dolthub/go-mysql-server/sql/hash"
	"github.com/dolthub/go-mysql-server/sql/types"

	"verif/mc/core"
	"verif/mc/eng"
)

// relation of the two values according to the engine's '='
const (
	relEQ = "equal"
	relNE = "unequal"
	relNN = "null,null"
	relXN = "null,value"
	relNY = "value,null"
)

// operator kinds (how a result is read and what is expected)
const (
	kGroups = iota // number of result rows = number of groups
	kCountDistinct
	kIntersect
	kExcept
	kMatchValue // scalar 1 / 0 / NULL
	kMatchCount // count(*) of matching rows: 1 / 0
)

type opDef struct {
	Name    string // operator (signature coordinate)
	Variant string
	Kind    int
	SQL     string
	RefSQL  string // own '=' reference (operators that compare against a literal); "" = t.v = u.v
	RefKind int    // kMatchValue or kMatchCount
	Same    bool   // needs both rows in one column (table b): same-type typings only
	SetOp   bool   // only when the typing has one comparison domain
	Plan    string // the analysed plan must contain this for the case to exercise the mechanism
}

func expected(kind int, rel string) string {
	switch kind {
	case kGroups:
		if rel == relEQ || rel == relNN {
			return "1"
		}
		return "2"
	case kCountDistinct:
		switch rel {
		case relEQ:
			return "1"
		case relNE:
			return "2"
		case relNN:
			return "0"
		}
		return "1"
	case kIntersect:
		if rel == relEQ || rel == relNN {
			return "1"
		}
		return "0"
	case kExcept:
		if rel == relEQ || rel == relNN {
			return "0"
		}
		return "1"
	case kMatchValue:
		switch rel {
		case relEQ:
			return "1"
		case relNE:
			return "0"
		}
		return "NULL"
	case kMatchCount:
		if rel == relEQ {
			return "1"
		}
		return "0"
	}
	panic("bad kind")
}

// observe reads an operator's result as a string comparable with expected().
func observe(kind int, res *eng.Result) string {
	switch kind {
	case kGroups, kIntersect, kExcept:
		return fmt.Sprint(len(res.Rows))
	}
	if len(res.Rows) != 1 || len(res.Rows[0]) != 1 {
		return fmt.Sprintf("%d rows", len(res.Rows))
	}
	return eng.FormatValue(res.Rows[0][0])
}

// the operator suite for values stored in tables t (x), u (y), b (x and y)
func tableOps(ty *typing, y val) []opDef {
	both := "(SELECT k, v FROM t UNION ALL SELECT k, v FROM u) s"
	ops := []opDef{
		{Name: "group-by", Variant: "1col", Kind: kGroups, SQL: "SELECT COUNT(*) FROM b GROUP BY v", Same: true},
		{Name: "group-by", Variant: "2col", Kind: kGroups, SQL: "SELECT COUNT(*) FROM b GROUP BY k, v", Same: true},
		{Name: "group-by", Variant: "union-all-derived", Kind: kGroups, SQL: "SELECT COUNT(*) FROM " + both + " GROUP BY v", SetOp: true},
		{Name: "distinct", Variant: "1col", Kind: kGroups, SQL: "SELECT DISTINCT v FROM b", Same: true},
		{Name: "distinct", Variant: "2col", Kind: kGroups, SQL: "SELECT DISTINCT k, v FROM b", Same: true},
		{Name: "distinct", Variant: "union-all-derived", Kind: kGroups, SQL: "SELECT DISTINCT v FROM " + both, SetOp: true},
		{Name: "count-distinct", Variant: "1col", Kind: kCountDistinct, SQL: "SELECT COUNT(DISTINCT v) FROM b", Same: true},
		{Name: "count-distinct", Variant: "2col", Kind: kCountDistinct, SQL: "SELECT COUNT(DISTINCT k, v) FROM b", Same: true},
		{Name: "count-distinct", Variant: "union-all-derived", Kind: kCountDistinct, SQL: "SELECT COUNT(DISTINCT v) FROM " + both, SetOp: true},
		{Name: "union", Variant: "1col", Kind: kGroups, SQL: "SELECT v FROM t UNION SELECT v FROM u", SetOp: true},
		{Name: "union", Variant: "2col", Kind: kGroups, SQL: "SELECT k, v FROM t UNION SELECT k, v FROM u", SetOp: true},
		{Name: "intersect", Variant: "1col", Kind: kIntersect, SQL: "SELECT v FROM t INTERSECT SELECT v FROM u", SetOp: true},
		{Name: "intersect", Variant: "2col", Kind: kIntersect, SQL: "SELECT k, v FROM t INTERSECT SELECT k, v FROM u", SetOp: true},
		{Name: "except", Variant: "1col", Kind: kExcept, SQL: "SELECT v FROM t EXCEPT SELECT v FROM u", SetOp: true},
		{Name: "except", Variant: "2col", Kind: kExcept, SQL: "SELECT k, v FROM t EXCEPT SELECT k, v FROM u", SetOp: true},
		{Name: "in-list", Variant: "column-in-column", Kind: kMatchValue, SQL: "SELECT t.v IN (u.v) FROM t, u"},
		{Name: "in-list", Variant: "column-in-literal", Kind: kMatchValue, SQL: "SELECT v IN (" + y.SQL + ") FROM t", RefSQL: "SELECT v = " + y.SQL + " FROM t", RefKind: kMatchValue},
		{Name: "in-list", Variant: "column-in-literals", Kind: kMatchValue, SQL: "SELECT v IN (" + y.SQL + ", " + ty.Filler + ") FROM t", RefSQL: "SELECT v = " + y.SQL + " FROM t", RefKind: kMatchValue},
		{Name: "in-list-hashed", Variant: "filter", Kind: kMatchCount, SQL: "SELECT COUNT(*) FROM t WHERE v IN (" + y.SQL + ", " + ty.Filler + ")", RefSQL: "SELECT COUNT(*) FROM t WHERE v = " + y.SQL, RefKind: kMatchCount, Plan: "HASH IN"},
		{Name: "in-subquery", Variant: "filter", Kind: kMatchCount, SQL: "SELECT COUNT(*) FROM t WHERE v IN (SELECT v FROM u)"},
		{Name: "in-subquery", Variant: "projection", Kind: kMatchValue, SQL: "SELECT v IN (SELECT v FROM u) FROM t"},
		{Name: "in-subquery", Variant: "2col-filter", Kind: kMatchCount, SQL: "SELECT COUNT(*) FROM t WHERE (k, v) IN (SELECT k, v FROM u)"},
		// tj / uj hold a first row (0, 0, NULL) that joins nothing: the hash table is only probed from the
		// second probe-side row on (the first one is answered while the table is being built)
		{Name: "hash-join", Variant: "1col", Kind: kMatchCount, SQL: "SELECT /*+ HASH_JOIN(tj,uj) */ COUNT(*) FROM tj JOIN uj ON tj.v = uj.v", Plan: "HashJoin"},
		{Name: "hash-join", Variant: "2col", Kind: kMatchCount, SQL: "SELECT /*+ HASH_JOIN(tj,uj) */ COUNT(*) FROM tj JOIN uj ON tj.k = uj.k AND tj.v = uj.v", Plan: "HashJoin"},
		{Name: "hash-join", Variant: "semi-join-of-in-subquery", Kind: kMatchCount, SQL: "SELECT /*+ HASH_JOIN(tj,uj) */ COUNT(*) FROM tj WHERE v IN (SELECT v FROM uj)", Plan: "HashLookup"},
	}
	return ops
}

// the operator suite for typed literals (table one has exactly one row)
func literalOps(x, y val, filler string) []opDef {
	X, Y := x.SQL, y.SQL
	both := "(SELECT 1 AS k, " + X + " AS v FROM one UNION ALL SELECT 1, " + Y + " FROM one) s"
	return []opDef{
		{Name: "group-by", Variant: "union-all-derived", Kind: kGroups, SQL: "SELECT COUNT(*) FROM " + both + " GROUP BY v", SetOp: true},
		{Name: "group-by", Variant: "2col-union-all-derived", Kind: kGroups, SQL: "SELECT COUNT(*) FROM " + both + " GROUP BY k, v", SetOp: true},
		{Name: "distinct", Variant: "union-all-derived", Kind: kGroups, SQL: "SELECT DISTINCT v FROM " + both, SetOp: true},
		{Name: "count-distinct", Variant: "union-all-derived", Kind: kCountDistinct, SQL: "SELECT COUNT(DISTINCT v) FROM " + both, SetOp: true},
		{Name: "union", Variant: "1col", Kind: kGroups, SQL: "SELECT " + X + " AS v FROM one UNION SELECT " + Y + " FROM one", SetOp: true},
		{Name: "union", Variant: "2col", Kind: kGroups, SQL: "SELECT 1 AS k, " + X + " AS v FROM one UNION SELECT 1, " + Y + " FROM one", SetOp: true},
		{Name: "intersect", Variant: "1col", Kind: kIntersect, SQL: "SELECT " + X + " AS v FROM one INTERSECT SELECT " + Y + " FROM one", SetOp: true},
		{Name: "except", Variant: "1col", Kind: kExcept, SQL: "SELECT " + X + " AS v FROM one EXCEPT SELECT " + Y + " FROM one", SetOp: true},
		{Name: "in-list", Variant: "literal-in-literal", Kind: kMatchValue, SQL: "SELECT " + X + " IN (" + Y + ") FROM one"},
		{Name: "in-list", Variant: "literal-in-literals", Kind: kMatchValue, SQL: "SELECT " + X + " IN (" + Y + ", " + filler + ") FROM one"},
		{Name: "in-list-hashed", Variant: "filter", Kind: kMatchCount, SQL: "SELECT COUNT(*) FROM one WHERE " + X + " IN (" + Y + ", " + filler + ")", Plan: "HASH IN"},
		{Name: "in-subquery", Variant: "filter", Kind: kMatchCount, SQL: "SELECT COUNT(*) FROM one WHERE " + X + " IN (SELECT " + Y + " FROM one)"},
		{Name: "in-subquery", Variant: "projection", Kind: kMatchValue, SQL: "SELECT " + X + " IN (SELECT " + Y + " FROM one) FROM one"},
		{Name: "hash-join", Variant: "1col", Kind: kMatchCount, SQL: "SELECT /*+ HASH_JOIN(a,c) */ COUNT(*) FROM (SELECT NULL AS v FROM one UNION ALL SELECT " + X + " FROM one) a JOIN (SELECT NULL AS v FROM one UNION ALL SELECT " + Y + " FROM one) c ON a.v = c.v", Plan: "HashJoin"},
	}
}

type caseID struct {
	Place  string `json:"place"` // table | literal | triple
	Typing string `json:"typing"`
	X      string `json:"x"`
	Y      string `json:"y"`
	Z      string `json:"z,omitempty"`
	Op     string `json:"op,omitempty"`  // the operator that failed (information; replay runs the whole pair)
	SQL    string `json:"sql,omitempty"` // its statement
	Setup  string `json:"setup,omitempty"`
}

type ctxInfo struct {
	r     *core.Run
	id    caseID
	pair  string // C1~C2 (value classes, ordered)
	dom   string // comparison families, unordered
	types string // same-type | cross-type | literal
	diff  string
	setup []string
}

func (c *ctxInfo) subject(op opDef) map[string]string {
	return map[string]string{"op": op.Name, "variant": op.Variant, "place": c.id.Place, "types": c.types, "domain": c.dom, "diff": c.diff}
}

func (c *ctxInfo) witness(op string, q string) json.RawMessage {
	id := c.id
	id.Op = op
	id.SQL = q
	id.Setup = strings.Join(c.setup, "; ")
	return core.J(id)
}

func typesOf(ty *typing) string {
	if ty.same() {
		return "same-type"
	}
	return "cross-type"
}

func relOf(x, y val, eq string) (string, bool) {
	switch {
	case x.Kind == '0' && y.Kind == '0':
		return relNN, eq == "NULL"
	case x.Kind == '0':
		return relXN, eq == "NULL"
	case y.Kind == '0':
		return relNY, eq == "NULL"
	case eq == "1":
		return relEQ, true
	case eq == "0":
		return relNE, true
	}
	return "", false
}

// refRel evaluates an '=' reference statement and classifies the relation.
func refRel(s *eng.Session, q string, kind int, x, y val) (rel string, note string) {
	res := s.Exec(q)
	if res.Err != nil {
		return "", "error:" + eng.ErrClass(res.Err)
	}
	got := observe(kind, res)
	if kind == kMatchCount {
		// count(*) of rows satisfying v = y: 1 = TRUE, 0 = FALSE or NULL
		switch {
		case x.Kind == '0' || y.Kind == '0':
			rel, _ = relOf(x, y, "NULL")
			if got != "0" {
				return "", "null-compares-true"
			}
			return rel, ""
		case got == "1":
			return relEQ, ""
		case got == "0":
			return relNE, ""
		}
		return "", "unreadable:" + got
	}
	rel, ok := relOf(x, y, got)
	if !ok {
		return "", "eq-not-boolean:" + got
	}
	return rel, ""
}

func violationKind(rel, got, exp string, kind int) string {
	switch rel {
	case relEQ:
		return "splits-equal"
	case relNE:
		return "merges-unequal"
	}
	return "null-handling"
}

// runOps runs the applicable operators and judges them against the relation.
func (c *ctxInfo) runOps(s *eng.Session, ops []opDef, x, y val, baseRel string, same, setops bool, sample map[string]string) {
	r := c.r
	nt := representational(c.diff)
	for _, op := range ops {
		if (op.Same && !same) || (op.SetOp && !setops) {
			continue
		}
		rel := baseRel
		if op.RefSQL != "" {
			var note string
			rel, note = refRel(s, op.RefSQL, op.RefKind, x, y)
			if rel == "" {
				r.Count("reference_eq_unusable:"+note, 1)
				continue
			}
		}
		if rel == "" {
			continue
		}
		r.Eval()
		opName := op.Name + "/" + op.Variant
		res := s.Exec(op.SQL)
		if res.Panic != nil {
			r.Violate(core.Violation{Check: c.id.Place, Clause: "no-panic", Kind: "panic", Subject: map[string]string{"op": op.Name, "variant": op.Variant, "place": c.id.Place, "domain": c.dom, "frame": topFrame(res.Stack)},
				Witness: c.witness(opName, op.SQL), Observed: fmt.Sprint(res.Panic)})
			continue
		}
		if res.Err != nil {
			cls := eng.ErrClass(res.Err)
			if cls == "unsupported" {
				r.Count("skipped_unsupported:"+op.Name, 1)
				continue
			}
			r.Outcome(opName + " error:" + cls)
			r.Violate(core.Violation{Check: c.id.Place, Clause: "operator-returns-a-result", Kind: "error:" + cls, Subject: c.subject(op),
				Witness: c.witness(opName, op.SQL), Observed: res.Err.Error(), Expected: expected(op.Kind, rel) + " (x = y is " + rel + ")"})
			continue
		}
		forced := true
		if op.Plan != "" {
			p, err := s.Plan(op.SQL)
			forced = err == nil && strings.Contains(p, op.Plan)
			if !forced {
				r.Count("plan_without_"+op.Plan, 1)
			}
		}
		got, exp := observe(op.Kind, res), expected(op.Kind, rel)
		if sample != nil {
			sample[opName] = got
		}
		verdict := "agrees"
		if got != exp {
			verdict = violationKind(rel, got, exp, op.Kind)
		}
		r.Outcome(op.Name + " " + rel + " -> " + verdict)
		if nt && forced {
			r.NonTrivial(c.id.Place + "|" + c.id.Typing + "|" + x.SQL + "|" + y.SQL + "|" + opName)
		}
		if got != exp {
			r.Violate(core.Violation{Check: c.id.Place, Clause: "operator-agrees-with-equals", Kind: verdict, Subject: c.subject(op),
				Witness: c.witness(opName, op.SQL), Observed: got, Expected: exp + " (the engine's x = y is " + rel + ")"})
		}
	}
}

func topFrame(stack string) string {
	lines := strings.Split(stack, "\n")
	for _, l := range lines {
		if strings.HasPrefix(l, "github.com/dolthub/go-mysql-server/") && !strings.Contains(l, "verifshim") {
			if j := strings.LastIndex(l, "("); j > 0 {
				l = l[:j]
			}
			return l
		}
	}
	return "unknown"
}

func setupTables(ty *typing, x, y val, z *val) []string {
	qs := []string{
		"CREATE TABLE t (id INT PRIMARY KEY, k INT, v " + ty.T1 + ")",
		"CREATE TABLE u (id INT PRIMARY KEY, k INT, v " + ty.T2 + ")",
		"INSERT INTO t VALUES (1, 1, " + x.SQL + ")",
		"INSERT INTO u VALUES (1, 1, " + y.SQL + ")",
		"CREATE TABLE tj (id INT PRIMARY KEY, k INT, v " + ty.T1 + ")",
		"CREATE TABLE uj (id INT PRIMARY KEY, k INT, v " + ty.T2 + ")",
		"INSERT INTO tj VALUES (0, 0, NULL), (1, 1, " + x.SQL + ")",
		"INSERT INTO uj VALUES (0, 0, NULL), (1, 1, " + y.SQL + ")",
	}
	if ty.same() {
		qs = append(qs, "CREATE TABLE b (id INT PRIMARY KEY, k INT, v "+ty.T1+")")
		ins := "INSERT INTO b VALUES (1, 1, " + x.SQL + "), (2, 1, " + y.SQL + ")"
		if z != nil {
			ins += ", (3, 1, " + z.SQL + ")"
		}
		qs = append(qs, ins)
	}
	return qs
}

func runTablePair(r *core.Run, ty *typing, x, y val) {
	e := eng.New()
	s := e.NewSession("root")
	setup := setupTables(ty, x, y, nil)
	for _, q := range setup {
		s.MustExec(q)
	}
	c := &ctxInfo{r: r, types: typesOf(ty), id: caseID{Place: "table", Typing: ty.Name, X: x.SQL, Y: y.SQL}, pair: ty.C1 + "~" + ty.C2, dom: domainOf(ty.C1, ty.C2), diff: pairDiff(x, y, ty.C1, ty.C2), setup: setup}
	rel, note := refRel(s, "SELECT t.v = u.v FROM t, u", kMatchValue, x, y)
	if rel == "" {
		r.Count("reference_eq_unusable:"+note, 1)
	}
	var sample map[string]string
	if r.WantSample() && representational(c.diff) && rel == relEQ {
		sample = map[string]string{}
	}
	c.runOps(s, tableOps(ty, y), x, y, rel, ty.same(), ty.SetOps, sample)
	if rel != "" {
		c.direct(s, rel)
	}
	if sample != nil {
		r.Sample(map[string]any{"place": "table", "typing": ty.Name, "x": x.SQL, "y": y.SQL, "engine_x_eq_y": rel, "difference": c.diff, "operator_results": sample})
	}
}

// direct calls hash.HashOf / hash.HashOfSimple on the stored values.
func (c *ctxInfo) direct(s *eng.Session, rel string) {
	if rel != relEQ {
		return
	}
	r := c.r
	rx := s.Exec("SELECT k, v FROM t")
	ry := s.Exec("SELECT k, v FROM u")
	if rx.Err != nil || ry.Err != nil || len(rx.Rows) != 1 || len(ry.Rows) != 1 {
		return
	}
	ctx := s.NewCtx()
	t1, t2 := rx.Schema[1].Type, ry.Schema[1].Type
	gx, gy := rx.Rows[0][1], ry.Rows[0][1]
	type route struct {
		name, variant string
		f             func(v any, t sql.Type) (uint64, error)
		sameOnly      bool
	}
	cmpT := types.GetCompareType(t1, t2)
	routes := []route{
		{"HashOf(schema)", "1col", func(v any, t sql.Type) (uint64, error) { return hash.HashOf(ctx, sql.Schema{{Type: t}}, sql.Row{v}) }, true},
		{"HashOf(schema)", "2col", func(v any, t sql.Type) (uint64, error) {
			return hash.HashOf(ctx, sql.Schema{{Type: types.Int32}, {Type: t}}, sql.Row{int32(1), v})
		}, true},
		{"HashOf(nil)", "1col", func(v any, t sql.Type) (uint64, error) { return hash.HashOf(ctx, nil, sql.Row{v}) }, true},
		{"HashOfSimple(compare-type)", "1col", func(v any, t sql.Type) (uint64, error) {
			h, _, err := hash.HashOfSimple(ctx, v, cmpT)
			return h, err
		}, false},
	}
	for _, rt := range routes {
		if rt.sameOnly && !t1.Equals(t2) {
			continue
		}
		var hx, hy uint64
		var ex, ey error
		pv, stack := core.Try(func() {
			hx, ex = rt.f(gx, t1)
			hy, ey = rt.f(gy, t2)
		})
		r.Eval()
		op := opDef{Name: rt.name, Variant: rt.variant}
		call := fmt.Sprintf("%s on %T(%s) and %T(%s), types %s / %s, compare type %s", rt.name, gx, eng.FormatValue(gx), gy, eng.FormatValue(gy), t1, t2, cmpT)
		if pv != nil {
			r.Violate(core.Violation{Check: "direct", Clause: "no-panic", Kind: "panic", Subject: map[string]string{"op": rt.name, "domain": c.dom, "frame": topFrame(stack)},
				Witness: c.witness(rt.name, call), Observed: fmt.Sprint(pv)})
			continue
		}
		if ex != nil || ey != nil {
			r.Outcome(rt.name + " error")
			r.Violate(core.Violation{Check: "direct", Clause: "hash-is-defined", Kind: "error", Subject: c.subject(op),
				Witness: c.witness(rt.name, call), Observed: fmt.Sprint(ex, " / ", ey)})
			continue
		}
		if representational(c.diff) {
			r.NonTrivial("direct|" + c.id.Typing + "|" + c.id.X + "|" + c.id.Y + "|" + rt.name + rt.variant)
		}
		if hx == hy {
			r.Outcome(rt.name + " equal -> agrees")
			continue
		}
		r.Outcome(rt.name + " equal -> splits-equal")
		r.Violate(core.Violation{Check: "direct", Clause: "equal-values-hash-equal", Kind: "splits-equal", Subject: c.subject(op),
			Witness: c.witness(rt.name, call), Observed: fmt.Sprintf("%x != %x", hx, hy), Expected: "equal hashes (the engine's x = y is TRUE)"})
	}
}

func runLiteralPair(r *core.Run, g *litGroup, x, y val) {
	e := eng.New()
	s := e.NewSession("root")
	setup := []string{"CREATE TABLE one (id INT PRIMARY KEY)", "INSERT INTO one VALUES (1)"}
	for _, q := range setup {
		s.MustExec(q)
	}
	c := &ctxInfo{r: r, types: "literal", id: caseID{Place: "literal", Typing: g.Name, X: x.SQL, Y: y.SQL}, pair: g.Class(x) + "~" + g.Class(y), dom: domainOf(g.Class(x), g.Class(y)), diff: pairDiff(x, y, g.Class(x), g.Class(y)), setup: setup}
	rel, note := refRel(s, "SELECT "+x.SQL+" = "+y.SQL+" FROM one", kMatchValue, x, y)
	if rel == "" {
		r.Count("reference_eq_unusable:"+note, 1)
		return
	}
	// set operations need one comparison domain: both numbers, both character strings, ...
	setops := x.Kind == y.Kind || x.Kind == '0' || y.Kind == '0'
	var sample map[string]string
	if r.WantSample() && representational(c.diff) && rel == relEQ && g.Name == "num" {
		sample = map[string]string{}
	}
	c.runOps(s, literalOps(x, y, g.Filler), x, y, rel, false, setops, sample)
	if sample != nil {
		r.Sample(map[string]any{"place": "literal", "x": x.SQL, "y": y.SQL, "engine_x_eq_y": rel, "difference": c.diff, "operator_results": sample})
	}
}

// runTriple: three values in one column; the operators must produce exactly the '='-classes.
func runTriple(r *core.Run, ty *typing, x, y, z val) {
	e := eng.New()
	s := e.NewSession("root")
	setup := setupTables(ty, x, y, &z)
	for _, q := range setup {
		s.MustExec(q)
	}
	vals := []val{x, y, z}
	id := caseID{Place: "triple", Typing: ty.Name, X: x.SQL, Y: y.SQL, Z: z.SQL}
	c := &ctxInfo{r: r, types: typesOf(ty), id: id, pair: ty.C1 + "~" + ty.C2, dom: domainOf(ty.C1, ty.C2), setup: setup}
	// classes from the engine's '=' on the stored values
	res := s.Exec("SELECT a.id, c.id, a.v = c.v FROM b a, b c")
	if res.Err != nil || len(res.Rows) != 9 {
		r.Count("reference_eq_unusable:triple", 1)
		return
	}
	var eq [3][3]string
	for _, row := range res.Rows {
		i, j := int(toInt(row[0]))-1, int(toInt(row[1]))-1
		eq[i][j] = eng.FormatValue(row[2])
	}
	parent := []int{0, 1, 2}
	find := func(i int) int {
		for parent[i] != i {
			i = parent[i]
		}
		return i
	}
	for i := 0; i < 3; i++ {
		for j := 0; j < 3; j++ {
			if eq[i][j] == "1" {
				parent[find(i)] = find(j)
			}
		}
	}
	// the relation must be an equivalence on the triple, otherwise "classes" is not defined
	for i := 0; i < 3; i++ {
		for j := 0; j < 3; j++ {
			isNull := vals[i].Kind == '0' || vals[j].Kind == '0'
			if isNull != (eq[i][j] == "NULL") || (!isNull && (eq[i][j] == "1") != (find(i) == find(j))) {
				r.Count("triples_where_equals_is_not_an_equivalence", 1)
				return
			}
		}
	}
	sizes := map[int]int{}
	nulls := 0
	for i := 0; i < 3; i++ {
		if vals[i].Kind == '0' {
			nulls++
		} else {
			sizes[find(i)]++
		}
	}
	var groupSizes []int
	joinRows := 0
	for _, n := range sizes {
		groupSizes = append(groupSizes, n)
		joinRows += n * n
	}
	nonNullClasses := len(groupSizes)
	if nulls > 0 {
		groupSizes = append(groupSizes, nulls)
	}
	sort.Ints(groupSizes)
	classes := len(groupSizes)
	d1, d2, d3 := diffClass(x, y), diffClass(y, z), diffClass(x, z)
	c.diff = "triple"
	nt := (representational(d1) || representational(d2) || representational(d3)) && nonNullClasses < 3-nulls
	type top struct {
		name, q string
		exp     string
		read    func(*eng.Result) string
	}
	nrows := func(res *eng.Result) string { return fmt.Sprint(len(res.Rows)) }
	scalar := func(res *eng.Result) string { return observe(kMatchCount, res) }
	counts := func(res *eng.Result) string {
		var cs []int
		for _, row := range res.Rows {
			cs = append(cs, int(toInt(row[0])))
		}
		sort.Ints(cs)
		return fmt.Sprint(cs)
	}
	tops := []top{
		{"group-by", "SELECT COUNT(*) FROM b GROUP BY v", fmt.Sprint(groupSizes), counts},
		{"group-by", "SELECT COUNT(*) FROM b GROUP BY k, v", fmt.Sprint(groupSizes), counts},
		{"distinct", "SELECT DISTINCT v FROM b", fmt.Sprint(classes), nrows},
		{"count-distinct", "SELECT COUNT(DISTINCT v) FROM b", fmt.Sprint(nonNullClasses), scalar},
		{"union", "SELECT v FROM b WHERE id = 1 UNION SELECT v FROM b WHERE id = 2 UNION SELECT v FROM b WHERE id = 3", fmt.Sprint(classes), nrows},
		{"hash-join", "SELECT /*+ HASH_JOIN(a,c) */ COUNT(*) FROM b a JOIN b c ON a.v = c.v", fmt.Sprint(joinRows), scalar},
		{"in-subquery", "SELECT COUNT(*) FROM b WHERE v IN (SELECT v FROM b)", fmt.Sprint(3 - nulls), scalar},
	}
	for _, t := range tops {
		r.Eval()
		res := s.Exec(t.q)
		op := opDef{Name: t.name, Variant: "3rows"}
		if res.Panic != nil {
			r.Violate(core.Violation{Check: "triple", Clause: "no-panic", Kind: "panic", Subject: map[string]string{"op": t.name, "variant": "3rows", "place": "triple", "domain": c.dom, "frame": topFrame(res.Stack)},
				Witness: c.witness(t.name, t.q), Observed: fmt.Sprint(res.Panic)})
			continue
		}
		if res.Err != nil {
			r.Violate(core.Violation{Check: "triple", Clause: "operator-returns-a-result", Kind: "error:" + eng.ErrClass(res.Err), Subject: c.subject(op), Witness: c.witness(t.name, t.q), Observed: res.Err.Error()})
			continue
		}
		got := t.read(res)
		if nt {
			r.NonTrivial("triple|" + ty.Name + "|" + x.SQL + "|" + y.SQL + "|" + z.SQL + "|" + t.q)
		}
		if got == t.exp {
			r.Outcome(t.name + " 3rows -> agrees")
			continue
		}
		r.Outcome(t.name + " 3rows -> differs")
		r.Violate(core.Violation{Check: "triple", Clause: "groups-are-the-equality-classes", Kind: "wrong-grouping", Subject: c.subject(op), Witness: c.witness(t.name, t.q),
			Observed: got, Expected: fmt.Sprintf("%s ('=' classes of the three values: sizes %v, %d NULL)", t.exp, groupSizes, nulls)})
	}
	if r.WantSample() && nt {
		r.Sample(map[string]any{"place": "triple", "typing": ty.Name, "values": []string{x.SQL, y.SQL, z.SQL}, "equality_class_sizes": groupSizes})
	}
}

func toInt(v any) int64 {
	switch x := v.(type) {
	case int64:
		return x
	case int32:
		return int64(x)
	case int:
		return int64(x)
	case int8:
		return int64(x)
	case int16:
		return int64(x)
	case uint64:
		return int64(x)
	case uint32:
		return int64(x)
	}
	return -1
}

func findVal(vs []val, s string) (val, bool) {
	for _, v := range vs {
		if v.SQL == s {
			return v, true
		}
	}
	return val{}, false
}

func run(r *core.Run) {
	debug.SetGCPercent(400)
	tys := typings()
	idx := int64(0)
	pairs, triples := 0, 0
	r.Info("typings", len(tys))
	r.Info("literal_groups", len(litGroups()))
	capped := func() bool {
		if r.Expired() {
			r.Capped("time budget reached (order: table pairs, literal pairs, triples)")
			return true
		}
		return false
	}
	for ti := range tys {
		ty := &tys[ti]
		for _, x := range ty.V1 {
			for _, y := range ty.V2 {
				idx++
				pairs++
				if !r.Mine(idx) {
					continue
				}
				if capped() {
					return
				}
				runTablePair(r, ty, x, y)
			}
		}
	}
	lgs := litGroups()
	for gi := range lgs {
		g := &lgs[gi]
		for _, x := range g.Vals {
			for _, y := range g.Vals {
				idx++
				pairs++
				if !r.Mine(idx) {
					continue
				}
				if capped() {
					return
				}
				runLiteralPair(r, g, x, y)
			}
		}
	}
	// triples: quick = the string / decimal / double typings over a reduced alphabet; thorough = all same-type typings, all triples
	for ti := range tys {
		ty := &tys[ti]
		if !ty.same() {
			continue
		}
		vs := ty.V1
		if r.Quick() {
			if !(strings.HasPrefix(ty.Name, "varchar/") || ty.Name == "double" || ty.Name == "decimal(10,2)") {
				continue
			}
			if len(vs) > 5 {
				vs = append(append([]val{}, vs[:4]...), vs[len(vs)-1])
			}
		}
		for i, x := range vs {
			for j, y := range vs {
				for k, z := range vs {
					if i > j || j > k { // multisets: the operators are symmetric in row order up to insertion order; ordered pairs cover order
						continue
					}
					idx++
					triples++
					if !r.Mine(idx) {
						continue
					}
					if capped() {
						return
					}
					runTriple(r, ty, x, y, z)
				}
			}
		}
	}
	r.Info("pairs", pairs)
	r.Info("triples", triples)
}

func replay(r *core.Run, w json.RawMessage) {
	var id caseID
	if json.Unmarshal(w, &id) != nil {
		return
	}
	switch id.Place {
	case "table", "triple":
		tys := typings()
		for ti := range tys {
			ty := &tys[ti]
			if ty.Name != id.Typing {
				continue
			}
			x, ok1 := findVal(ty.V1, id.X)
			y, ok2 := findVal(ty.V2, id.Y)
			if !ok1 || !ok2 {
				return
			}
			if id.Place == "triple" {
				if z, ok := findVal(ty.V1, id.Z); ok {
					runTriple(r, ty, x, y, z)
				}
				return
			}
			runTablePair(r, ty, x, y)
		}
	case "literal":
		lgs := litGroups()
		for gi := range lgs {
			g := &lgs[gi]
			if g.Name != id.Typing {
				continue
			}
			x, ok1 := findVal(g.Vals, id.X)
			y, ok2 := findVal(g.Vals, id.Y)
			if ok1 && ok2 {
				runLiteralPair(r, g, x, y)
			}
		}
	}
}

func init() {
	core.Register(&core.Prop{
		ID:    "C07",
		Level: "exploration",
		Rule: "every ORDERED pair (x,y) of the value alphabet of every typing: (a) stored in typed tables t.v=x, u.v=y (and both in b.v when the types are equal) for 18 same-type typings " +
			"(INT, BIGINT UNSIGNED, DOUBLE, FLOAT, DECIMAL(10,2), VARCHAR under utf8mb4_0900_bin/_bin/_0900_ai_ci/_0900_as_cs/_general_ci/_unicode_ci, CHAR and TEXT under ci collations, VARBINARY, BINARY(2), DATE, DATETIME) " +
			"and 26 ordered cross-type typings (int/decimal/double/float/unsigned, number vs numeral text, date vs datetime, date vs text, varchar vs char/text, binary vs varbinary); (b) as typed literals (numbers in every spelling incl. signed zeros and '1', " +
			"collated strings, binary strings, DATE/TIMESTAMP literals); alphabets: 0 -0 1 1.0 1.00 1e0 '1' 0.1 0.10, 'a' 'A' 'á' 'a ' 'ab' '', x'6100', midnight datetimes, NULL. " +
			"For each pair the engine's own `x = y` is the reference; GROUP BY, DISTINCT, COUNT(DISTINCT), UNION, INTERSECT, EXCEPT (1 and 2 columns, over a column and over a UNION ALL), IN (list) evaluated and hashed (plan must show HASH IN), " +
			"IN (subquery) as filter / projection / 2-column tuple, hash join forced by /*+ HASH_JOIN */ (plan must show HashJoin; 1- and 2-column keys) must merge/match the two values iff `=` is TRUE (NULLs: one group, never a match); " +
			"hash.HashOf (with schema, 1/2 columns, and without schema) and hash.HashOfSimple (with types.GetCompareType) directly on the stored values: `=` TRUE => equal hashes. " +
			"Triples (x<=y<=z positions) in one column: group sizes, DISTINCT/COUNT(DISTINCT)/UNION cardinalities, self hash join and IN-subquery counts equal those of the '='-classes (quick: VARCHAR, DOUBLE, DECIMAL typings over 5 values; thorough: all same-type typings, all values). " +
			"non-trivial = the two values are spelled differently but differ only in representation (numeric representation, sign of zero, letter case, accent, trailing space/NUL, date vs midnight datetime, numeral text) and the forced plan operator is present",
		Assumptions: []string{
			"the reference is the engine's own '=' on the same operands (whether '=' itself is right is C26/C29)",
			"UNION/INTERSECT/EXCEPT and grouping over a UNION ALL are judged only where both operands have one comparison domain (number vs numeral text and date vs text only for IN and joins, where MySQL compares as numbers/dates)",
			"NULL handling follows the SQL standard: NULLs form one group / one row for GROUP BY, DISTINCT and set operations, are ignored by COUNT(DISTINCT), and never match in IN or a join",
		},
		Run:    run,
		Replay: replay,
	})
}
