package c08

import (
	"context"
	"fmt"
	"io"
	"strings"

	sqle "github.com/dolthub/go-mysql-server"
	"github.com/dolthub/go-mysql-server/sql"
	"github.com/dolthub/go-mysql-server/sql/types"

	"verif/mc/core"
	"verif/mc/eng"
)

// ---------------------------------------------------------------------------------------------
// Two ways to run a query against a table of the space.
//
// fast: one engine per worker whose database holds a table `t` implemented here (a sql.Table over
// a row slice that the harness swaps between cases). Every query text is parsed, bound and
// analysed ONCE (Engine.AnalyzeQuery) and the analysed plan is executed per table through the
// engine's public Engine.PrepQueryPlanForExecution: exec-iterator construction, window iterators,
// framers, aggregation buffers — the code under test — run for real on every case; only the
// analyzer (which does not look at table contents) is not repeated.
//
// slow: fresh engine (eng.New), CREATE TABLE + INSERT into a memory table, Engine.Query of the SQL
// text. Used to confirm every mismatch before it is reported, for minimisation, for Replay, and
// for the diagonal cross-check fast == slow.

type vtable struct {
	sch  sql.Schema
	rows []sql.Row
}

func (t *vtable) Name() string                   { return "t" }
func (t *vtable) String() string                 { return "t" }
func (t *vtable) Schema(*sql.Context) sql.Schema { return t.sch }
func (t *vtable) Collation() sql.CollationID     { return sql.Collation_Default }
func (t *vtable) Partitions(*sql.Context) (sql.PartitionIter, error) {
	return &onePartition{}, nil
}
func (t *vtable) PartitionRows(*sql.Context, sql.Partition) (sql.RowIter, error) {
	out := make([]sql.Row, len(t.rows))
	for i, r := range t.rows {
		out[i] = append(make(sql.Row, 0, len(r)), r...) // private copy, no spare capacity
	}
	return sql.RowsToRowIter(out...), nil
}

type vpart struct{}

func (vpart) Key() []byte { return []byte("p") }

type onePartition struct{ done bool }

func (p *onePartition) Next(*sql.Context) (sql.Partition, error) {
	if p.done {
		return nil, io.EOF
	}
	p.done = true
	return vpart{}, nil
}
func (p *onePartition) Close(*sql.Context) error { return nil }

type vdb struct{ t *vtable }

func (d *vdb) Name() string { return "mydb" }
func (d *vdb) GetTableInsensitive(_ *sql.Context, n string) (sql.Table, bool, error) {
	if strings.EqualFold(n, "t") {
		return d.t, true, nil
	}
	return nil, false, nil
}
func (d *vdb) GetTableNames(*sql.Context) ([]string, error) { return []string{"t"}, nil }

type fastEngine struct {
	e    *sqle.Engine
	t    *vtable
	sess *sql.BaseSession
}

func newFastEngine() *fastEngine {
	eng.ResetGlobals()
	col := func(n string, pk bool) *sql.Column {
		return &sql.Column{Name: n, Type: types.Int32, Nullable: !pk, PrimaryKey: pk, Source: "t", DatabaseSource: "mydb"}
	}
	t := &vtable{sch: sql.Schema{col("id", true), col("g", false), col("k", false), col("v", false)}}
	f := &fastEngine{t: t}
	f.e = sqle.NewDefault(sql.NewDatabaseProvider(&vdb{t}))
	f.sess = sql.NewBaseSessionWithClientServer("srv", sql.Client{User: "root", Address: "localhost"}, 1)
	return f
}

func (f *fastEngine) ctx() *sql.Context {
	c := sql.NewContext(context.Background(), sql.WithSession(f.sess))
	c.SetCurrentDatabase("mydb")
	return c
}

func toSQLRow(r RowT) sql.Row {
	v := func(x int) interface{} {
		if x == null {
			return nil
		}
		return int32(x)
	}
	return sql.Row{int32(r.ID), v(r.G), v(r.K), v(r.V)}
}

func (f *fastEngine) load(rows []RowT) {
	f.t.rows = f.t.rows[:0]
	for _, r := range rows {
		f.t.rows = append(f.t.rows, toSQLRow(r))
	}
}

// Plan is one query: a key expression plus the columns under test.
type Plan struct {
	Name string
	Kind string // "window": SELECT id, cols FROM t | "grouped": SELECT g, cols FROM t GROUP BY g | "ungrouped": SELECT 0, cols FROM t
	Cols []*Col
	node sql.Node
	sql  string
}

func planSQL(kind string, cols []*Col) string {
	exprs := make([]string, len(cols))
	for i, c := range cols {
		exprs[i] = c.SQL()
	}
	list := strings.Join(exprs, ", ")
	switch kind {
	case "window":
		return "SELECT id, " + list + " FROM t"
	case "grouped":
		return "SELECT g, " + list + " FROM t GROUP BY g"
	case "ungrouped":
		return "SELECT " + list + " FROM t"
	}
	panic("bad plan kind " + kind)
}

// outcome of running a plan on a table: rows keyed by id / g / 0.
type outcome struct {
	rows  map[int][]interface{}
	nrows map[int][]Val // normalised lazily
	dup   bool // a key occurred twice
	err   error
	panic string
}

func collect(kind string, rows []sql.Row) outcome {
	o := outcome{rows: map[int][]interface{}{}}
	for _, r := range rows {
		key := 0
		vals := []interface{}(r)
		if kind != "ungrouped" {
			k := norm(r[0])
			if k.K != kInt {
				o.dup = true
				continue
			}
			key = int(k.I)
			vals = r[1:]
		}
		if _, ok := o.rows[key]; ok {
			o.dup = true
		}
		o.rows[key] = vals
	}
	return o
}

func (f *fastEngine) analyze(kind string, cols []*Col) (*Plan, error) {
	p := &Plan{Kind: kind, Cols: cols, sql: planSQL(kind, cols)}
	var err error
	pv, stack := core.Try(func() {
		// analyse against a populated table: an empty one can be folded into an EmptyTable node
		f.load([]RowT{{ID: 1, G: 1, K: 1, V: 1}})
		p.node, err = f.e.AnalyzeQuery(f.ctx(), p.sql)
	})
	if pv != nil {
		return nil, fmt.Errorf("panic: %v @%s", pv, topFrame(stack))
	}
	if err != nil {
		return nil, err
	}
	return p, nil
}

func (f *fastEngine) run(p *Plan, rows []RowT) (o outcome) {
	f.load(rows)
	ctx := f.ctx()
	var out []sql.Row
	var err error
	pv, stack := core.Try(func() {
		var it sql.RowIter
		_, it, _, err = f.e.PrepQueryPlanForExecution(ctx, p.sql, p.node, nil)
		if err != nil {
			return
		}
		for {
			var r sql.Row
			r, err = it.Next(ctx)
			if err == io.EOF {
				err = nil
				break
			}
			if err != nil {
				it.Close(ctx)
				return
			}
			out = append(out, r)
		}
		err = it.Close(ctx)
	})
	if pv != nil {
		return outcome{panic: fmt.Sprintf("%v @%s", pv, topFrame(stack))}
	}
	if err != nil {
		return outcome{err: err}
	}
	return collect(p.Kind, out)
}

// slowRun: fresh engine, memory table, full Engine.Query.
func slowRun(kind string, cols []*Col, rows []RowT) outcome {
	e := eng.New()
	s := e.NewSession("root")
	s.MustExec("CREATE TABLE t (id INT PRIMARY KEY, g INT, k INT, v INT)")
	if len(rows) > 0 {
		var vals []string
		for _, r := range rows {
			vals = append(vals, fmt.Sprintf("(%d,%s,%s,%s)", r.ID, sqlInt(r.G), sqlInt(r.K), sqlInt(r.V)))
		}
		s.MustExec("INSERT INTO t VALUES " + strings.Join(vals, ","))
	}
	r := s.Exec(planSQL(kind, cols))
	if r.Panic != nil {
		return outcome{panic: fmt.Sprintf("%v @%s", r.Panic, topFrame(r.Stack))}
	}
	if r.Err != nil {
		return outcome{err: r.Err}
	}
	return collect(kind, r.Rows)
}

// topFrame: first frame of a panic stack inside go-mysql-server (core.TopFrame stops at the
// harness' own recover wrapper for engine panics).
func topFrame(stack string) string {
	for _, l := range strings.Split(stack, "\n") {
		if strings.HasPrefix(l, "github.com/dolthub/go-mysql-server") && !strings.Contains(l, "/verifshim/") {
			if j := strings.LastIndex(l, "("); j > 0 {
				l = l[:j]
			}
			return l
		}
	}
	return core.TopFrame(stack)
}
