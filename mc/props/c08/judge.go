package c08

import (
	"fmt"
	"sort"
	"strings"

	"verif/mc/core"
	"verif/mc/eng"
)

// ---------------------------------------------------------------------------------------------
// judging one column of one outcome

type judged struct {
	check, clause, kind string
	subject             map[string]string
	observed, expected  string
	fill                func() // renders observed/expected (only needed when the mismatch is reported)
}

func (j *judged) render() *judged {
	if j.fill != nil {
		j.fill()
		j.fill = nil
	}
	return j
}

func (j *judged) sig() string {
	v := core.Violation{Property: "C08", Check: j.check, Clause: j.clause, Kind: j.kind, Subject: j.subject}
	return v.Signature()
}

func valClass(v Val) string {
	switch v.K {
	case kNull:
		return "NULL"
	case kInt:
		if v.I == 0 {
			return "zero"
		}
		return "number"
	case kUint, kRat, kSqrt, kFloat:
		return "number"
	case kStr:
		return "string"
	case kList:
		if len(v.L) == 0 {
			return "empty-array"
		}
		return "array"
	case kObj:
		return "object"
	}
	if strings.HasPrefix(v.S, "NaN") || strings.Contains(v.S, "Inf") {
		return "NaN/Inf"
	}
	return "other"
}

// coarseClass: value classes that distinguish root causes, not data.
func coarseClass(v Val) string {
	switch c := valClass(v); c {
	case "NULL", "NaN/Inf", "empty-array", "other":
		return c
	}
	return "value"
}

// partitionsOf splits the table into the units the column is computed over.
func partitionsOf(kind string, c *Col, rows []RowT) [][]RowT {
	byG := (kind == "window" && c.Part) || kind == "grouped"
	if !byG {
		if kind == "window" && len(rows) == 0 {
			return nil
		}
		return [][]RowT{rows}
	}
	var out [][]RowT
	for _, g := range gDom {
		var p []RowT
		for _, r := range rows {
			if r.G == g {
				p = append(p, r)
			}
		}
		if len(p) > 0 {
			out = append(out, p)
		}
	}
	return out
}

func keysOf(kind string, part []RowT) []int {
	switch kind {
	case "window":
		ks := make([]int, len(part))
		for i, r := range part {
			ks[i] = r.ID
		}
		return ks
	case "grouped":
		return []int{part[0].G}
	}
	return []int{0}
}

func expectedKeys(kind string, rows []RowT) []int {
	switch kind {
	case "window":
		ks := make([]int, len(rows))
		for i, r := range rows {
			ks[i] = r.ID
		}
		return ks
	case "grouped":
		var ks []int
		for _, g := range gDom {
			for _, r := range rows {
				if r.G == g {
					ks = append(ks, g)
					break
				}
			}
		}
		return ks
	}
	return []int{0}
}

func arrangeOrd(c *Col) string {
	if c.Mode == "group" {
		return oNone
	}
	return c.Ord
}

// tableCtx caches the canonical partitions of one table per (kind, partitioning, ordering).
type tableCtx struct {
	rows  []RowT
	cache map[string][][]RowT
}

func newTableCtx(rows []RowT) *tableCtx { return &tableCtx{rows: rows, cache: map[string][][]RowT{}} }

// parts returns the canonically sorted units (partitions / groups) the column is computed over.
func (t *tableCtx) parts(kind string, c *Col) [][]RowT {
	ord := arrangeOrd(c)
	key := kind + "|" + ord
	if c.Part {
		key += "|g"
	}
	if p, ok := t.cache[key]; ok {
		return p
	}
	ps := partitionsOf(kind, c, t.rows)
	out := make([][]RowT, len(ps))
	for i, p := range ps {
		out[i] = canonical(ord, p)
	}
	t.cache[key] = out
	return out
}

// val returns the normalised value of column ci in the result row with the given key.
func (o *outcome) val(key, ci int) Val {
	if o.nrows == nil {
		o.nrows = map[int][]Val{}
	}
	nr, ok := o.nrows[key]
	if !ok {
		row, has := o.rows[key]
		if has {
			nr = make([]Val, len(row))
			for i, x := range row {
				nr[i] = norm(x)
			}
		}
		o.nrows[key] = nr
	}
	if ci >= len(nr) {
		return Val{K: kOther, S: "missing"}
	}
	return nr[ci]
}

// judgeCol compares column ci of outcome o with the reference. nil = conforms.
func judgeCol(kind string, c *Col, tc *tableCtx, o *outcome, ci int) *judged {
	probe := isProbe(c)
	get := func(key int) Val {
		v := o.val(key, ci)
		if probe && v.K == kList && len(v.L) == 0 {
			return vNull // the probe only reveals the frame; [] vs NULL is judged on JSON_ARRAYAGG(v)
		}
		return v
	}
	ord := arrangeOrd(c)
	for _, canon := range tc.parts(kind, c) {
		exp := refPartition(c, canon)
		bad := -1
		switch kind {
		case "window":
			for i := range canon {
				if !match(exp[i], get(canon[i].ID)) {
					bad = i
					break
				}
			}
		case "grouped":
			if !match(exp[0], get(canon[0].G)) {
				bad = 0
			}
		default:
			if !match(exp[0], get(0)) {
				bad = 0
			}
		}
		if bad < 0 {
			continue
		}
		if c.orderSensitive() && hasTies(ord, canon) {
			found := false
			arrangements(ord, canon, func(arr []RowT) bool {
				e2 := refPartition(c, arr)
				k2 := keysOf(kind, arr)
				for i, k := range k2 {
					if !match(e2[i], get(k)) {
						return false
					}
				}
				found = true
				return true
			})
			if found {
				continue
			}
		}
		return describe(kind, c, canon, exp, keysOf(kind, canon), bad, get)
	}
	return nil
}

// describe builds the classified mismatch record for row `bad` of the canonical arrangement.
func describe(kind string, c *Col, canon []RowT, exp []Val, keys []int, bad int, get func(int) Val) *judged {
	got := get(keys[bad])
	j := &judged{check: c.Mode, kind: "wrong-value", subject: map[string]string{"fn": c.fnLabel()}}
	// what the function was evaluated over
	S := canon
	if c.Mode == "window" {
		if c.usesFrame() {
			lo, hi := frameOf(c, canon, bad)
			if lo > hi {
				S = nil
			} else {
				S = canon[lo : hi+1]
			}
		}
	}
	nonNull := 0
	for _, r := range S {
		if argOf(c, r) != null {
			nonNull++
		}
	}
	unit := "frame"
	if c.Mode == "group" {
		unit = "group"
	} else if !c.usesFrame() {
		unit = "partition"
	}
	switch {
	case len(S) == 0:
		j.clause = "empty-" + unit
	case nonNull == 0 && c.Fn != "COUNT*" && !c.selectsRow():
		j.clause = "all-null-" + unit
	default:
		j.clause = "value"
		if c.Mode == "window" {
			j.subject["window"] = c.windowClass()
		}
	}
	if c.Mode == "window" && !c.usesFrame() {
		// partition functions: neither the frame clause nor the NULL-ness of v matters
		j.clause = "value"
		delete(j.subject, "window")
		j.subject["ord"] = c.ordClass()
	}
	if !c.selectsRow() {
		// NULL-ness of the result is part of an aggregate's definition (for the row-selecting
		// functions it only reflects the data)
		j.subject["got"] = coarseClass(got)
		j.subject["want"] = coarseClass(exp[bad])
	}
	if isProbe(c) {
		j.check, j.kind = "frame", "wrong-frame"
		var generic bool
		j.clause, generic = frameClause(c, canon, bad)
		j.subject = map[string]string{}
		if generic {
			j.subject["frame"] = c.Frame.class()
			j.subject["ord"] = c.ordClass()
			j.subject["diff"] = frameDiff(exp[bad], got)
		}
	}
	j.fill = func() {
		var all, want []string
		for i, k := range keys {
			all = append(all, fmt.Sprintf("%d:%s", k, get(k).String()))
			want = append(want, fmt.Sprintf("%d:%s", k, exp[i].String()))
		}
		keyName := map[string]string{"window": "id", "grouped": "g", "ungrouped": "row"}[kind]
		j.observed = fmt.Sprintf("%s=%d: %s   (all rows %s:value = %s)", keyName, keys[bad], got.String(), keyName, strings.Join(all, " "))
		j.expected = fmt.Sprintf("%s=%d: %s   (%s)", keyName, keys[bad], exp[bad].String(), strings.Join(want, " "))
	}
	return j
}

// frameClause says which part of the frame definition row `i` of the partition exercises. The
// first three clauses name conditions under which value-based (RANGE / default) frames are broken
// as a whole at the pinned commit; they are checked first so that each of those root causes gets
// one signature. The remaining clauses are the generic ones.
func frameClause(c *Col, canon []RowT, i int) (clause string, generic bool) {
	valueBased := c.Frame == nil && c.Ord != "" || c.Frame != nil && c.Frame.Unit == "RANGE"
	if valueBased {
		hasNullKey := false
		for _, r := range canon {
			if r.K == null {
				hasNullKey = true
			}
		}
		switch {
		case strings.Contains(c.Ord, ","):
			return "value-frame-peers-with-multi-key-order-by", false
		case c.Ord == oKd:
			return "value-frame-bounds-with-descending-order", false
		case hasNullKey && c.Ord == oK:
			return "value-frame-bounds-with-null-order-keys", false
		}
	}
	switch {
	case c.Frame == nil && c.Ord == "":
		return "default-frame-without-order-by", true
	case c.Frame == nil:
		return "default-frame-with-order-by", true
	case c.Frame.Unit == "RANGE" && c.Frame.hasOffset():
		return "range-offset", true
	case c.Frame.Unit == "RANGE":
		return "range-peers", true
	}
	return "rows-position", true
}

func frameDiff(exp, got Val) string {
	set := func(v Val) map[int64]bool {
		m := map[int64]bool{}
		if v.K == kList {
			for _, x := range v.L {
				m[x.I] = true
			}
		}
		return m
	}
	if got.K != kNull && got.K != kList {
		return "not-an-array"
	}
	e, g := set(exp), set(got)
	extra, missing := 0, 0
	for x := range g {
		if !e[x] {
			extra++
		}
	}
	for x := range e {
		if !g[x] {
			missing++
		}
	}
	switch {
	case extra > 0 && missing > 0:
		return "extra-and-missing-rows"
	case extra > 0:
		return "extra-rows"
	case missing > 0:
		return "missing-rows"
	}
	return "row-order"
}

// judgeRows checks the statement-level outcome: error/panic expectations and the row set.
func judgeRows(kind string, cols []*Col, rows []RowT, o *outcome) *judged {
	wantErr := false
	for _, c := range cols {
		if expectsError(c, rows) {
			wantErr = true
		}
	}
	subj := func() map[string]string {
		if len(cols) == 1 {
			c := cols[0]
			s := map[string]string{"fn": c.fnLabel()}
			if c.Mode == "window" {
				s["frame"] = c.Frame.class()
				s["ord"] = c.ordClass()
			}
			return s
		}
		return map[string]string{"fn": fmt.Sprintf("(%d columns)", len(cols))}
	}
	check := cols[0].Mode
	switch {
	case o.panic != "":
		// one signature per panic site: the function / frame that happened to reach it is not part of it
		s := map[string]string{"frame_fn": o.panic[strings.LastIndex(o.panic, "@")+1:]}
		return &judged{check: check, clause: "no-panic", kind: "panic", subject: s, observed: "panic: " + o.panic, expected: "a result"}
	case o.err != nil && !wantErr:
		s := subj()
		s["errclass"] = eng.ErrClass(o.err)
		return &judged{check: check, clause: "no-error", kind: "error", subject: s, observed: "error: " + o.err.Error(), expected: "a result (the construct is in the domain: not in the committed list of rejected constructs)"}
	case o.err == nil && wantErr:
		return &judged{check: check, clause: "null-key-is-an-error", kind: "no-error", subject: subj(), observed: "rows returned", expected: "an error: JSON_OBJECTAGG key is NULL"}
	case o.err != nil:
		return nil
	}
	want := expectedKeys(kind, rows)
	ok := !o.dup && len(o.rows) == len(want)
	for _, k := range want {
		if _, has := o.rows[k]; !has {
			ok = false
		}
	}
	if !ok {
		var got []int
		for k := range o.rows {
			got = append(got, k)
		}
		sort.Ints(got)
		return &judged{check: check, clause: "one-result-row-per-input-row-or-group", kind: "wrong-row-set", subject: map[string]string{"plan": kind},
			observed: fmt.Sprintf("result keys %v (duplicates: %v)", got, o.dup), expected: fmt.Sprintf("keys %v", want)}
	}
	return nil
}

// ---------------------------------------------------------------------------------------------
// witness, slow-path judgement, minimisation, replay

type witness struct {
	Kind   string  `json:"kind"`
	Rows   [][3]int `json:"rows"` // (g,k,v), -1 = NULL; ids are 1..n in this order
	Cols   []*Col  `json:"cols"`
	Target int     `json:"target"` // index of the judged column, -1 = statement level
	SQL    string  `json:"sql"`
	Setup  string  `json:"setup"`
}

func mkWitness(kind string, cols []*Col, target int, rows []RowT) witness {
	w := witness{Kind: kind, Cols: cols, Target: target, SQL: planSQL(kind, cols)}
	var vals []string
	for _, r := range rows {
		w.Rows = append(w.Rows, [3]int{r.G, r.K, r.V})
		vals = append(vals, fmt.Sprintf("(%d,%s,%s,%s)", r.ID, sqlInt(r.G), sqlInt(r.K), sqlInt(r.V)))
	}
	w.Setup = "CREATE TABLE t (id INT PRIMARY KEY, g INT, k INT, v INT)"
	if len(vals) > 0 {
		w.Setup += "; INSERT INTO t VALUES " + strings.Join(vals, ",")
	}
	return w
}

func (w *witness) rows() []RowT {
	out := make([]RowT, len(w.Rows))
	for i, r := range w.Rows {
		out[i] = RowT{ID: i + 1, G: r[0], K: r[1], V: r[2]}
	}
	return out
}

// slowJudge runs the statement on a fresh engine and judges it (statement level first, then the
// target column).
func slowJudge(kind string, cols []*Col, target int, rows []RowT) *judged {
	o := slowRun(kind, cols, rows)
	if j := judgeRows(kind, cols, rows, &o); j != nil {
		return j
	}
	if o.err != nil || target < 0 {
		return nil
	}
	if j := judgeCol(kind, cols[target], newTableCtx(rows), &o, target); j != nil {
		return j.render()
	}
	return nil
}

func without(rows []RowT, i int) []RowT {
	out := make([]RowT, 0, len(rows)-1)
	for j, r := range rows {
		if j != i {
			r.ID = len(out) + 1
			out = append(out, r)
		}
	}
	return out
}

// minimise removes rows, then simplifies values, while the same signature keeps failing.
func minimise(kind string, cols []*Col, target int, rows []RowT, j *judged) ([]RowT, *judged) {
	sig := j.sig()
	// a smaller table must show the SAME defect: for a frame-evaluated function that means its
	// window's frame is right on the smaller table (otherwise the wrong value would derive from a
	// frame defect, which has its own signature)
	var win *Col
	if target >= 0 && len(cols) == 1 && kind == "window" && !isProbe(cols[target]) && cols[target].usesFrame() {
		c := cols[target]
		win = probe(c.Part, c.Ord, c.Frame)
	}
	slowJudgeTogether := func(kind string, cols []*Col, target int, cand []RowT) *judged {
		nj := slowJudgeTogether(kind, cols, target, cand)
		if nj != nil && nj.sig() == sig && win != nil && slowJudge(kind, []*Col{win}, 0, cand) != nil {
			return nil
		}
		return nj
	}
	for changed := true; changed; {
		changed = false
		for i := range rows {
			cand := without(rows, i)
			if nj := slowJudgeTogether(kind, cols, target, cand); nj != nil && nj.sig() == sig {
				rows, j, changed = cand, nj, true
				break
			}
		}
	}
	// value simplification: g -> 1, k -> 1, v -> 1 (one field at a time)
	for i := range rows {
		for f := 0; f < 3; f++ {
			cand := append([]RowT(nil), rows...)
			switch f {
			case 0:
				if cand[i].G == 1 {
					continue
				}
				cand[i].G = 1
			case 1:
				if cand[i].K == 1 {
					continue
				}
				cand[i].K = 1
			case 2:
				if cand[i].V == 1 {
					continue
				}
				cand[i].V = 1
			}
			if nj := slowJudgeTogether(kind, cols, target, cand); nj != nil && nj.sig() == sig {
				rows, j = cand, nj
			}
		}
	}
	return rows, j
}

func violationOf(j *judged, w witness) core.Violation {
	return core.Violation{Check: j.check, Clause: j.clause, Kind: j.kind, Subject: j.subject, Witness: core.J(w), Observed: j.observed, Expected: j.expected}
}

