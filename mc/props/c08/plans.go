package c08

// Column sets.
//
//  frames   every valid frame (ROWS and RANGE; {UP,nP,CR,nF,UF}^2, n in 0..2, plus short forms)
//           x ASC/DESC orderings, observed through the frame-revealing probe JSON_ARRAYAGG(id)
//           (ROWS with the total orderings (k,id)/(k DESC,id); RANGE with the tie-leaving
//           orderings k / k DESC), plus the default frames with and without ORDER BY, RANGE
//           without ORDER BY, and unpartitioned windows.                       -> all tables
//  funcs    every frame-evaluated function x 14 representative windows.       -> all tables
//  partfn   ROW_NUMBER, RANK, DENSE_RANK, PERCENT_RANK, CUME_DIST, NTILE(1..4), LAG/LEAD with
//           offsets 0..2 with and without default, NTH_VALUE.                  -> all tables
//  group    every aggregate in a GROUP BY g query and in an ungrouped query.   -> all tables
//  wide     every frame-evaluated function x every frame x ASC/DESC.          -> small tables

var frameFns = []string{"COUNT*", "COUNT", "SUM", "AVG", "MIN", "MAX", "BIT_AND", "BIT_OR", "BIT_XOR", "COUNTD",
	"FIRST_VALUE", "LAST_VALUE", "NTH_VALUE", "JSON_ARRAYAGG", "JSON_OBJECTAGG", "GROUP_CONCAT", "STD", "STDDEV_SAMP", "VAR_POP", "VAR_SAMP"}

var aliasFns = []string{"STDDEV", "STDDEV_POP", "VARIANCE"}

func isProbe(c *Col) bool { return c.Mode == "window" && c.Fn == "JSON_ARRAYAGG" && c.Arg == "id" }

func probe(part bool, ord string, f *Frame) *Col {
	return &Col{Mode: "window", Fn: "JSON_ARRAYAGG", Arg: "id", Part: part, Ord: ord, Frame: f}
}

func fnCol(fn string, w *Col) *Col {
	c := &Col{Mode: "window", Fn: fn, Part: w.Part, Ord: w.Ord, Frame: w.Frame}
	if fn == "NTH_VALUE" {
		c.N = 2
	}
	return c
}

func fr(unit string, s Bound, e Bound) *Frame { return &Frame{Unit: unit, Start: s, End: &e} }

var (
	up = Bound{Kind: bUP}
	cr = Bound{Kind: bCR}
	uf = Bound{Kind: bUF}
)

func pre(n int) Bound { return Bound{Kind: bP, N: n} }
func fol(n int) Bound { return Bound{Kind: bF, N: n} }

// representative windows for the funcs set (as probe columns: their windows are part of `frames`).
func repWindows() []*Col {
	return []*Col{
		probe(true, oNone, nil),
		probe(true, oKI, nil),
		probe(true, oK, nil),
		probe(true, oKdI, fr("ROWS", up, cr)),
		probe(true, oKI, fr("ROWS", pre(1), fol(1))),
		probe(true, oKI, fr("ROWS", cr, uf)),
		probe(true, oKI, fr("ROWS", pre(2), pre(1))),
		probe(true, oKdI, fr("ROWS", fol(1), fol(2))),
		probe(true, oKI, fr("ROWS", pre(0), fol(0))),
		probe(true, oK, fr("RANGE", pre(1), fol(1))),
		probe(true, oKd, fr("RANGE", cr, cr)),
		probe(true, oKd, fr("RANGE", fol(1), uf)),
		probe(true, oK, fr("RANGE", up, pre(1))),
		probe(false, oKI, fr("ROWS", pre(1), cr)),
	}
}

func dedupCols(cols []*Col) []*Col {
	seen := map[string]bool{}
	var out []*Col
	for _, c := range cols {
		if k := c.key(); !seen[k] {
			seen[k] = true
			out = append(out, c)
		}
	}
	return out
}

func framesSet() []*Col {
	var cols []*Col
	for _, f := range allFrames("ROWS") {
		cols = append(cols, probe(true, oKI, f), probe(true, oKdI, f))
	}
	for _, f := range allFrames("RANGE") {
		cols = append(cols, probe(true, oK, f), probe(true, oKd, f))
	}
	// tie-break direction reversed, for a few ROWS frames
	for _, f := range []*Frame{fr("ROWS", up, cr), fr("ROWS", pre(1), fol(1)), fr("ROWS", pre(2), pre(1)), fr("ROWS", fol(1), uf), fr("ROWS", cr, fol(2)), {Unit: "ROWS", Start: pre(1)}} {
		cols = append(cols, probe(true, oKId, f), probe(true, oKdId, f))
	}
	// RANGE without offsets does not need a numeric single key: without ORDER BY and with (k,id)
	for _, f := range []*Frame{fr("RANGE", up, cr), fr("RANGE", up, uf), fr("RANGE", cr, cr), fr("RANGE", cr, uf), {Unit: "RANGE", Start: up}, {Unit: "RANGE", Start: cr}} {
		cols = append(cols, probe(true, oNone, f), probe(true, oKI, f))
	}
	// default frames
	for _, o := range []string{oNone, oK, oKd, oKI, oKdI, oKId} {
		cols = append(cols, probe(true, o, nil))
	}
	// unpartitioned windows
	cols = append(cols, probe(false, oNone, nil), probe(false, oKI, nil), probe(false, oK, nil), probe(false, oKI, fr("ROWS", pre(1), fol(1))), probe(false, oKd, fr("RANGE", pre(1), fol(1))), probe(false, oKdI, fr("ROWS", cr, uf)))
	cols = append(cols, repWindows()...)
	return dedupCols(cols)
}

func funcsSet() []*Col {
	var cols []*Col
	for _, w := range repWindows() {
		for _, fn := range frameFns {
			cols = append(cols, fnCol(fn, w))
		}
	}
	for _, w := range repWindows()[1:3] {
		for _, fn := range aliasFns {
			cols = append(cols, fnCol(fn, w))
		}
	}
	// FIRST_VALUE / LAST_VALUE / NTH_VALUE over tie-leaving orderings and explicit RANGE frames
	// (accepted iff some sort order consistent with ORDER BY explains the whole partition)
	for _, fn := range []string{"FIRST_VALUE", "LAST_VALUE"} {
		for _, w := range []*Col{probe(true, oKd, nil), probe(true, oK, fr("RANGE", up, cr)), probe(true, oK, fr("RANGE", cr, uf)), probe(true, oK, fr("RANGE", up, uf)), probe(true, oKI, fr("RANGE", up, cr)), probe(true, oNone, fr("RANGE", up, cr))} {
			cols = append(cols, fnCol(fn, w))
		}
	}
	return dedupCols(cols)
}

func partfnSet() []*Col {
	var cols []*Col
	w := func(fn string, part bool, ord string, f *Frame) *Col {
		return &Col{Mode: "window", Fn: fn, Part: part, Ord: ord, Frame: f}
	}
	for _, o := range []string{oKI, oKdI, oKId, oKdId, oK, oNone} {
		cols = append(cols, w("ROW_NUMBER", true, o, nil))
	}
	cols = append(cols, w("ROW_NUMBER", false, oKI, nil), w("ROW_NUMBER", false, oNone, nil), w("ROW_NUMBER", true, oKI, fr("ROWS", pre(1), cr)), w("ROW_NUMBER", true, oKdI, fr("ROWS", cr, uf)))
	for _, fn := range []string{"RANK", "DENSE_RANK", "PERCENT_RANK", "CUME_DIST"} {
		for _, o := range []string{oK, oKd, oKI, oNone} {
			cols = append(cols, w(fn, true, o, nil))
		}
		cols = append(cols, w(fn, false, oK, nil), w(fn, false, oKd, nil), w(fn, true, oK, fr("ROWS", pre(1), cr)), w(fn, true, oKd, fr("RANGE", cr, uf)))
	}
	for n := 1; n <= 4; n++ {
		for _, o := range []string{oKI, oKdI, oKId} {
			c := w("NTILE", true, o, nil)
			c.N = n
			cols = append(cols, c)
		}
		c := w("NTILE", false, oKI, nil)
		c.N = n
		cols = append(cols, c)
	}
	nt := w("NTILE", true, oK, nil)
	nt.N = 2
	nt2 := w("NTILE", true, oKI, fr("ROWS", pre(1), cr))
	nt2.N = 2
	cols = append(cols, nt, nt2)
	for _, fn := range []string{"LAG", "LEAD"} {
		for _, o := range []string{oKI, oKdI, oKId} {
			cols = append(cols, w(fn, true, o, nil))
			for off := 0; off <= 2; off++ {
				a := w(fn, true, o, nil)
				a.HasOff, a.Off = true, off
				b := w(fn, true, o, nil)
				b.HasOff, b.Off, b.Def = true, off, ip(9)
				cols = append(cols, a, b)
			}
		}
		u := w(fn, false, oKI, nil)
		u.HasOff, u.Off = true, 1
		ud := w(fn, false, oKdI, nil)
		ud.HasOff, ud.Off, ud.Def = true, 2, ip(9)
		f1 := w(fn, true, oKI, fr("ROWS", cr, cr))
		f1.HasOff, f1.Off = true, 1
		t := w(fn, true, oK, nil) // ties: any consistent sort order
		cols = append(cols, u, ud, f1, t)
	}
	for n := 1; n <= 2; n++ {
		for _, win := range []*Col{probe(true, oKI, nil), probe(true, oKI, fr("ROWS", up, uf)), probe(true, oKdI, fr("ROWS", pre(1), fol(1)))} {
			c := fnCol("NTH_VALUE", win)
			c.N = n
			cols = append(cols, c)
		}
	}
	return dedupCols(cols)
}

func groupSet() []*Col {
	g := func(fn, arg string) *Col { return &Col{Mode: "group", Fn: fn, Arg: arg} }
	var cols []*Col
	for _, fn := range []string{"COUNT*", "COUNT", "COUNTD", "COUNTD2", "SUM", "SUMD", "AVG", "AVGD", "MIN", "MAX", "BIT_AND", "BIT_OR", "BIT_XOR",
		"STD", "STDDEV", "STDDEV_POP", "STDDEV_SAMP", "VAR_POP", "VAR_SAMP", "VARIANCE", "ANY_VALUE", "JSON_ARRAYAGG", "JSON_OBJECTAGG"} {
		cols = append(cols, g(fn, ""))
	}
	for _, fn := range []string{"COUNT", "SUM", "MIN", "MAX", "COUNTD", "AVG"} {
		cols = append(cols, g(fn, "k"))
	}
	cols = append(cols, g("JSON_ARRAYAGG", "id"))
	gc := func(fn string, distinct bool, inOrd string, sep *string) *Col {
		return &Col{Mode: "group", Fn: fn, Distinct: distinct, InOrd: inOrd, Sep: sep}
	}
	cols = append(cols,
		gc("GROUP_CONCAT", false, "", nil),
		gc("GROUP_CONCAT", true, "", nil),
		gc("GROUP_CONCAT", false, oKI, nil),
		gc("GROUP_CONCAT", false, oKdId, nil),
		gc("GROUP_CONCAT", false, oK, nil),
		gc("GROUP_CONCAT", true, oV, nil),
		gc("GROUP_CONCAT", true, oVd, sp("|")),
		gc("GROUP_CONCAT", false, "", sp("|")),
		gc("GROUP_CONCAT", false, oI, sp("")),
		gc("GROUP_CONCAT", false, "idd", sp(", ")),
		gc("GROUP_CONCAT2", false, oI, nil),
		gc("GROUP_CONCAT2", false, oKdI, sp("-")),
	)
	return dedupCols(cols)
}

// soloGroupCols must run alone: they are expected to fail the statement for some tables.
func soloGroupCols() []*Col {
	return []*Col{{Mode: "group", Fn: "JSON_OBJECTAGG", Arg: "k"}}
}

// wideWindows lists every (ordering, frame) window of the wide set.
func wideWindows() []*Col {
	var ws []*Col
	for _, f := range allFrames("ROWS") {
		ws = append(ws, probe(true, oKI, f), probe(true, oKdI, f))
	}
	for _, f := range allFrames("RANGE") {
		ws = append(ws, probe(true, oK, f), probe(true, oKd, f))
	}
	return ws
}
