package c08

import (
	"fmt"
	"math"
	"math/big"
	"sort"
	"strconv"
	"strings"
)

// ---------------------------------------------------------------------------------------------
// Definitional reference. Everything here is written from the definitions (SQL:2016 part 2,
// 7.15 <window clause>, 10.9 <aggregate function>, 6.10 <window function>; MySQL 8.0 manual
// 14.19 "Aggregate Functions", 14.20 "Window Functions"), not from the engine's code:
//
//  * ORDER BY k ASC puts NULL first, DESC puts NULL last; rows equal on all ORDER BY keys are
//    peers; without ORDER BY all rows of the partition are peers.
//  * default frame: with ORDER BY = RANGE BETWEEN UNBOUNDED PRECEDING AND CURRENT ROW (through the
//    current row's LAST PEER); without ORDER BY = the whole partition.
//  * ROWS frame = rows by position; RANGE frame = rows by ORDER BY value: CURRENT ROW means the
//    current row's peer group, `n PRECEDING`/`n FOLLOWING` mean the value k∓n in sort direction;
//    if the current row's key is NULL an offset bound denotes the row's peers; NULL keys of other
//    rows sort before every value (ASC) / after every value (DESC) and are therefore inside a
//    frame only when the bound on that side is UNBOUNDED.
//  * aggregates ignore NULL arguments; over no non-NULL input they give NULL, COUNT gives 0,
//    BIT_AND gives all bits set, BIT_OR/BIT_XOR give 0; *_SAMP need two values.
//  * ROW_NUMBER, RANK, DENSE_RANK, PERCENT_RANK, CUME_DIST, NTILE, LAG, LEAD work on the whole
//    partition whatever the frame clause says.

// cmpOrd compares two rows on the keys of ordering o (no tie-break). `null` (-1) is smaller than
// every domain value, which gives NULL first for ASC and NULL last for DESC.
func cmpOrd(o string, a, b RowT) int {
	ci := func(x, y int) int {
		if x < y {
			return -1
		}
		if x > y {
			return 1
		}
		return 0
	}
	switch o {
	case oNone:
		return 0
	case oK:
		return ci(a.K, b.K)
	case oKd:
		return -ci(a.K, b.K)
	case oKI:
		if c := ci(a.K, b.K); c != 0 {
			return c
		}
		return ci(a.ID, b.ID)
	case oKdI:
		if c := ci(a.K, b.K); c != 0 {
			return -c
		}
		return ci(a.ID, b.ID)
	case oKId:
		if c := ci(a.K, b.K); c != 0 {
			return c
		}
		return -ci(a.ID, b.ID)
	case oKdId:
		if c := ci(a.K, b.K); c != 0 {
			return -c
		}
		return -ci(a.ID, b.ID)
	case oI:
		return ci(a.ID, b.ID)
	case "idd":
		return -ci(a.ID, b.ID)
	case oV:
		return ci(a.V, b.V)
	case oVd:
		return -ci(a.V, b.V)
	}
	panic("reference: unknown ordering " + o)
}

// canonical returns rows sorted by ordering o, ties in id order.
func canonical(o string, rows []RowT) []RowT {
	out := append([]RowT(nil), rows...)
	sort.SliceStable(out, func(i, j int) bool {
		if c := cmpOrd(o, out[i], out[j]); c != 0 {
			return c < 0
		}
		return out[i].ID < out[j].ID
	})
	return out
}

// arrangements calls f with every arrangement of rows consistent with ordering o (the canonical
// one first). f returns true to stop.
func arrangements(o string, rows []RowT, f func([]RowT) bool) {
	base := canonical(o, rows)
	// tie runs
	var runs [][2]int
	for i := 0; i < len(base); {
		j := i + 1
		for j < len(base) && cmpOrd(o, base[i], base[j]) == 0 {
			j++
		}
		runs = append(runs, [2]int{i, j})
		i = j
	}
	cur := append([]RowT(nil), base...)
	var rec func(ri int) bool
	rec = func(ri int) bool {
		if ri == len(runs) {
			return f(cur)
		}
		lo, hi := runs[ri][0], runs[ri][1]
		return permute(cur[lo:hi], 0, func() bool { return rec(ri + 1) })
	}
	rec(0)
}

func permute(s []RowT, k int, f func() bool) bool {
	if k >= len(s)-1 {
		return f()
	}
	for i := k; i < len(s); i++ {
		s[k], s[i] = s[i], s[k]
		stop := permute(s, k+1, f)
		s[k], s[i] = s[i], s[k]
		if stop {
			return true
		}
	}
	return false
}

func hasTies(o string, rows []RowT) bool {
	for i := range rows {
		for j := i + 1; j < len(rows); j++ {
			if cmpOrd(o, rows[i], rows[j]) == 0 {
				return true
			}
		}
	}
	return false
}

// frameOf returns the inclusive position range of the frame of row i (lo > hi = empty).
func frameOf(c *Col, part []RowT, i int) (int, int) {
	n := len(part)
	firstPeer, lastPeer := i, i
	for firstPeer > 0 && cmpOrd(c.Ord, part[firstPeer-1], part[i]) == 0 {
		firstPeer--
	}
	for lastPeer < n-1 && cmpOrd(c.Ord, part[lastPeer+1], part[i]) == 0 {
		lastPeer++
	}
	f := c.Frame
	if f == nil {
		if c.Ord == "" {
			return 0, n - 1
		}
		return 0, lastPeer
	}
	s, e := f.Start, f.end()
	if f.Unit == "ROWS" {
		pos := func(b Bound) int {
			switch b.Kind {
			case bUP:
				return 0
			case bP:
				return i - b.N
			case bCR:
				return i
			case bF:
				return i + b.N
			}
			return n - 1
		}
		lo, hi := pos(s), pos(e)
		if lo < 0 {
			lo = 0
		}
		if hi > n-1 {
			hi = n - 1
		}
		return lo, hi
	}
	// RANGE
	desc := c.Ord == oKd
	ki := part[i].K
	var lo, hi int
	switch s.Kind {
	case bUP:
		lo = 0
	case bCR:
		lo = firstPeer
	default: // n PRECEDING / n FOLLOWING
		if ki == null {
			lo = firstPeer
			break
		}
		delta := s.N // FOLLOWING in sort direction
		if s.Kind == bP {
			delta = -s.N
		}
		lo = n
		for j := 0; j < n; j++ {
			kj := part[j].K
			var atOrAfter bool
			if !desc {
				atOrAfter = kj != null && kj >= ki+delta
			} else {
				atOrAfter = kj == null || kj <= ki-delta
			}
			if atOrAfter {
				lo = j
				break
			}
		}
	}
	switch e.Kind {
	case bUF:
		hi = n - 1
	case bCR:
		hi = lastPeer
	default:
		if ki == null {
			hi = lastPeer
			break
		}
		delta := e.N
		if e.Kind == bP {
			delta = -e.N
		}
		hi = -1
		for j := n - 1; j >= 0; j-- {
			kj := part[j].K
			var atOrBefore bool
			if !desc {
				atOrBefore = kj == null || kj <= ki+delta
			} else {
				atOrBefore = kj != null && kj >= ki-delta
			}
			if atOrBefore {
				hi = j
				break
			}
		}
	}
	return lo, hi
}

func argOf(c *Col, r RowT) int {
	switch c.Arg {
	case "id":
		return r.ID
	case "k":
		return r.K
	}
	return r.V
}

// refPartition computes the column over one partition (window mode: one value per row of part,
// in the order of part, which must be sorted consistently with c.Ord) or one group (group mode:
// a single value; part is the group in "arrival" order).
func refPartition(c *Col, part []RowT) []Val {
	if c.Mode == "group" {
		return []Val{aggOver(c, part)}
	}
	n := len(part)
	out := make([]Val, n)
	switch c.Fn {
	case "ROW_NUMBER":
		for i := range part {
			out[i] = vInt(int64(i + 1))
		}
		return out
	case "RANK", "DENSE_RANK", "PERCENT_RANK", "CUME_DIST":
		dense := 0
		for i := range part {
			first := i
			for first > 0 && cmpOrd(c.Ord, part[first-1], part[i]) == 0 {
				first--
			}
			last := i
			for last < n-1 && cmpOrd(c.Ord, part[last+1], part[i]) == 0 {
				last++
			}
			if first == i {
				dense++
			}
			switch c.Fn {
			case "RANK":
				out[i] = vInt(int64(first + 1))
			case "DENSE_RANK":
				out[i] = vInt(int64(dense))
			case "PERCENT_RANK":
				if n == 1 {
					out[i] = Val{K: kRat, R: new(big.Rat)}
				} else {
					out[i] = Val{K: kRat, R: big.NewRat(int64(first), int64(n-1))}
				}
			case "CUME_DIST":
				out[i] = Val{K: kRat, R: big.NewRat(int64(last+1), int64(n))}
			}
		}
		return out
	case "NTILE":
		// n rows into b buckets: bucket sizes differ by at most one, larger buckets first
		b := c.N
		q, r := n/b, n%b
		i := 0
		for bucket := 1; bucket <= b && i < n; bucket++ {
			size := q
			if bucket <= r {
				size++
			}
			for s := 0; s < size; s++ {
				out[i] = vInt(int64(bucket))
				i++
			}
		}
		return out
	case "LAG", "LEAD":
		off := 1
		if c.HasOff {
			off = c.Off
		}
		if c.Fn == "LAG" {
			off = -off
		}
		for i := range part {
			j := i + off
			switch {
			case j >= 0 && j < n:
				out[i] = vIntOrNull(argOf(c, part[j]))
			case c.Def != nil:
				out[i] = vInt(int64(*c.Def))
			default:
				out[i] = vNull
			}
		}
		return out
	}
	for i := range part {
		lo, hi := frameOf(c, part, i)
		if lo > hi {
			out[i] = aggOver(c, nil)
		} else {
			out[i] = aggOver(c, part[lo:hi+1])
		}
	}
	return out
}

// aggOver computes an aggregate over the rows S (frame or group, in order).
func aggOver(c *Col, S []RowT) Val {
	var xs []int // non-NULL argument values in order
	for _, r := range S {
		if a := argOf(c, r); a != null {
			xs = append(xs, a)
		}
	}
	distinct := func(in []int) []int {
		var out []int
		seen := map[int]bool{}
		for _, x := range in {
			if !seen[x] {
				seen[x] = true
				out = append(out, x)
			}
		}
		return out
	}
	sum := func(in []int) int64 {
		var s int64
		for _, x := range in {
			s += int64(x)
		}
		return s
	}
	switch c.Fn {
	case "COUNT*":
		return vInt(int64(len(S)))
	case "COUNT":
		return vInt(int64(len(xs)))
	case "COUNTD":
		return vInt(int64(len(distinct(xs))))
	case "COUNTD2":
		seen := map[[2]int]bool{}
		for _, r := range S {
			if r.K != null && r.V != null {
				seen[[2]int{r.K, r.V}] = true
			}
		}
		return vInt(int64(len(seen)))
	case "SUM", "SUMD":
		if c.Fn == "SUMD" {
			xs = distinct(xs)
		}
		if len(xs) == 0 {
			return vNull
		}
		return vInt(sum(xs))
	case "AVG", "AVGD":
		if c.Fn == "AVGD" {
			xs = distinct(xs)
		}
		if len(xs) == 0 {
			return vNull
		}
		return Val{K: kRat, R: big.NewRat(sum(xs), int64(len(xs)))}
	case "MIN", "MAX":
		if len(xs) == 0 {
			return vNull
		}
		m := xs[0]
		for _, x := range xs {
			if (c.Fn == "MIN" && x < m) || (c.Fn == "MAX" && x > m) {
				m = x
			}
		}
		return vInt(int64(m))
	case "BIT_AND":
		acc := uint64(math.MaxUint64)
		for _, x := range xs {
			acc &= uint64(x)
		}
		return normUint(acc)
	case "BIT_OR":
		var acc uint64
		for _, x := range xs {
			acc |= uint64(x)
		}
		return normUint(acc)
	case "BIT_XOR":
		var acc uint64
		for _, x := range xs {
			acc ^= uint64(x)
		}
		return normUint(acc)
	case "STD", "STDDEV", "STDDEV_POP", "VAR_POP", "VARIANCE", "STDDEV_SAMP", "VAR_SAMP":
		mk := ratMemoKey(c.Fn, xs)
		if v, ok := ratMemo[mk]; ok {
			return v
		}
		v := varianceFamily(c.Fn, xs)
		ratMemo[mk] = v
		return v
	}
	return aggOverSelect(c, S)
}

// ratMemo caches the exact-rational results per (function, multiset of inputs): the value domain
// is tiny and big.Rat arithmetic is the most expensive part of the reference.
var ratMemo = map[string]Val{}

func ratMemoKey(fn string, xs []int) string {
	var cnt [8]int
	for _, x := range xs {
		cnt[x&7]++
	}
	return fmt.Sprintf("%s%v", fn, cnt)
}

func varianceFamily(fn string, xs []int) Val {
	sum := func(in []int) int64 {
		var s int64
		for _, x := range in {
			s += int64(x)
		}
		return s
	}
	samp := fn == "STDDEV_SAMP" || fn == "VAR_SAMP"
	n := int64(len(xs))
	if n == 0 || (samp && n == 1) {
		return vNull
	}
	// variance = (sum(x^2) - sum(x)^2/n) / d, exactly
	var s2 int64
	for _, x := range xs {
		s2 += int64(x) * int64(x)
	}
	s := sum(xs)
	num := new(big.Rat).Sub(big.NewRat(s2, 1), big.NewRat(s*s, n))
	d := n
	if samp {
		d = n - 1
	}
	v := num.Quo(num, big.NewRat(d, 1))
	if strings.HasPrefix(fn, "VAR") {
		return Val{K: kRat, R: v}
	}
	return Val{K: kSqrt, R: v}
}

// aggOverSelect: the row-selecting and structural aggregates.
func aggOverSelect(c *Col, S []RowT) Val {
	switch c.Fn {
	case "FIRST_VALUE", "ANY_VALUE":
		if len(S) == 0 {
			return vNull
		}
		return vIntOrNull(argOf(c, S[0]))
	case "LAST_VALUE":
		if len(S) == 0 {
			return vNull
		}
		return vIntOrNull(argOf(c, S[len(S)-1]))
	case "NTH_VALUE":
		if len(S) < c.N {
			return vNull
		}
		return vIntOrNull(argOf(c, S[c.N-1]))
	case "JSON_ARRAYAGG":
		if len(S) == 0 {
			return vNull
		}
		l := make([]Val, len(S))
		for i, r := range S {
			l[i] = vIntOrNull(argOf(c, r))
		}
		return Val{K: kList, L: l}
	case "JSON_OBJECTAGG":
		if len(S) == 0 {
			return vNull
		}
		m := map[string]Val{}
		for _, r := range S {
			key := r.ID
			if c.Arg == "k" {
				key = r.K
			}
			if key == null {
				return Val{K: kOther, S: "error: NULL key"}
			}
			m[strconv.Itoa(key)] = vIntOrNull(r.V) // duplicate keys: the last one in order wins
		}
		keys := make([]string, 0, len(m))
		for k := range m {
			keys = append(keys, k)
		}
		sort.Strings(keys)
		l := make([]Val, len(keys))
		for i, k := range keys {
			l[i] = m[k]
		}
		return Val{K: kObj, Keys: keys, L: l}
	case "GROUP_CONCAT", "GROUP_CONCAT2":
		rows := append([]RowT(nil), S...)
		if c.InOrd != "" {
			sort.SliceStable(rows, func(i, j int) bool { return cmpOrd(c.InOrd, rows[i], rows[j]) < 0 })
		}
		var toks []string
		seen := map[string]bool{}
		for _, r := range rows {
			var t string
			if c.Fn == "GROUP_CONCAT2" {
				if r.K == null || r.V == null {
					continue
				}
				t = strconv.Itoa(r.K) + strconv.Itoa(r.V)
			} else {
				a := argOf(c, r)
				if a == null {
					continue
				}
				t = strconv.Itoa(a)
			}
			if c.Distinct {
				if seen[t] {
					continue
				}
				seen[t] = true
			}
			toks = append(toks, t)
		}
		if len(toks) == 0 {
			return vNull
		}
		sep := ","
		if c.Sep != nil {
			sep = *c.Sep
		}
		return Val{K: kStr, S: strings.Join(toks, sep)}
	}
	panic(fmt.Sprintf("reference: unknown function %q", c.Fn))
}

// expectsError: the statement must fail (JSON_OBJECTAGG with a NULL key in some evaluated group).
func expectsError(c *Col, rows []RowT) bool {
	if c.Fn == "JSON_OBJECTAGG" && c.Arg == "k" {
		for _, r := range rows {
			if r.K == null {
				return true
			}
		}
	}
	return false
}
