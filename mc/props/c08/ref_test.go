package c08

import (
	"fmt"
	"strings"
	"testing"
)

// Sanity checks of the reference against worked examples of the MySQL 8.0 manual (section 14.20.1
// "Window Function Descriptions": the table `numbers` with val = 1,1,2,3,3,3,4,4,5) and against
// hand-computed frames. Run: go test -tags verif -vet=off -overlay … ./props/c08/
func manualRows() []RowT {
	var rows []RowT
	for i, k := range []int{1, 1, 2, 3, 3, 3, 4, 4, 5} {
		rows = append(rows, RowT{ID: i + 1, G: 1, K: k, V: k})
	}
	return rows
}

func render(vs []Val) string {
	var s []string
	for _, v := range vs {
		if f, ok := v.asFloat(); ok && (v.K == kRat || v.K == kSqrt) {
			s = append(s, fmt.Sprintf("%.3f", f))
		} else {
			s = append(s, v.String())
		}
	}
	return strings.Join(s, " ")
}

func TestReferenceAgainstManual(t *testing.T) {
	rows := manualRows()
	w := func(fn, ord string) *Col { return &Col{Mode: "window", Fn: fn, Ord: ord} }
	cases := []struct {
		c    *Col
		want string
	}{
		{w("ROW_NUMBER", oKI), "1 2 3 4 5 6 7 8 9"},
		{w("RANK", oK), "1 1 3 4 4 4 7 7 9"},
		{w("DENSE_RANK", oK), "1 1 2 3 3 3 4 4 5"},
		{w("CUME_DIST", oK), "0.222 0.222 0.333 0.667 0.667 0.667 0.889 0.889 1.000"},
		{w("PERCENT_RANK", oK), "0.000 0.000 0.250 0.375 0.375 0.375 0.750 0.750 1.000"},
		{&Col{Mode: "window", Fn: "NTILE", N: 2, Ord: oKI}, "1 1 1 1 1 2 2 2 2"},
		{&Col{Mode: "window", Fn: "NTILE", N: 4, Ord: oKI}, "1 1 1 2 2 3 3 4 4"},
		{&Col{Mode: "window", Fn: "LAG", Ord: oKI}, "NULL 1 1 2 3 3 3 4 4"},
		{&Col{Mode: "window", Fn: "LEAD", Ord: oKI, HasOff: true, Off: 2, Def: ip(0)}, "2 3 3 3 4 4 5 0 0"},
		// default frame with ORDER BY = through the last peer (running total jumps per peer group)
		{w("SUM", oK), "2 2 4 13 13 13 21 21 26"},
		{w("LAST_VALUE", oK), "1 1 2 3 3 3 4 4 5"},
		// no ORDER BY = whole partition
		{w("SUM", oNone), "26 26 26 26 26 26 26 26 26"},
		{&Col{Mode: "window", Fn: "SUM", Ord: oKI, Frame: fr("ROWS", pre(1), fol(1))}, "2 4 6 8 9 10 11 13 9"},
		{&Col{Mode: "window", Fn: "SUM", Ord: oK, Frame: fr("RANGE", pre(1), fol(1))}, "4 4 13 19 19 19 22 22 13"},
		{&Col{Mode: "window", Fn: "COUNT*", Ord: oKd, Frame: fr("RANGE", pre(1), cr)}, "3 3 4 5 5 5 3 3 1"}, // given per id 1..9
		{&Col{Mode: "window", Fn: "SUM", Ord: oKI, Frame: fr("ROWS", pre(2), pre(1))}, "NULL 1 2 3 5 6 6 7 8"},
		{&Col{Mode: "window", Fn: "COUNT", Ord: oKI, Frame: fr("ROWS", fol(1), fol(2))}, "2 2 2 2 2 2 2 1 0"},
		{&Col{Mode: "window", Fn: "AVG", Ord: oKI, Frame: fr("ROWS", cr, uf)}, "2.889 3.125 3.429 3.667 3.800 4.000 4.333 4.500 5.000"},
		{&Col{Mode: "window", Fn: "FIRST_VALUE", Ord: oKI, Frame: fr("ROWS", pre(1), cr)}, "1 1 1 2 3 3 3 4 4"},
	}
	for _, tc := range cases {
		part := canonical(tc.c.Ord, rows)
		got := render(refPartition(tc.c, part))
		want := tc.want
		if tc.c.Ord == oKd { // expectations above are written in id order for readability
			byID := map[int]string{}
			ws := strings.Fields(want)
			// want is given per id 1..9; re-order into the partition order
			for i, r := range rows {
				byID[r.ID] = ws[i]
			}
			var o []string
			for _, r := range part {
				o = append(o, byID[r.ID])
			}
			want = strings.Join(o, " ")
		}
		if got != want {
			t.Errorf("%s\n got  %s\n want %s", tc.c.SQL(), got, want)
		}
	}
}

func TestReferenceNullKeysAndEmptyInputs(t *testing.T) {
	rows := []RowT{{ID: 1, G: 1, K: null, V: 1}, {ID: 2, G: 1, K: null, V: null}, {ID: 3, G: 1, K: 1, V: 2}, {ID: 4, G: 1, K: 3, V: null}}
	frameIDs := func(c *Col) string {
		part := canonical(c.Ord, rows)
		var out []string
		for i, r := range part {
			lo, hi := frameOf(c, part, i)
			var ids []string
			for j := lo; j <= hi; j++ {
				ids = append(ids, fmt.Sprint(part[j].ID))
			}
			out = append(out, fmt.Sprintf("%d:[%s]", r.ID, strings.Join(ids, ",")))
		}
		return strings.Join(out, " ")
	}
	for _, tc := range []struct {
		c    *Col
		want string
	}{
		// ASC: NULLs first; a NULL current key makes offset bounds mean "the peers"
		{probe(false, oK, fr("RANGE", pre(1), fol(1))), "1:[1,2] 2:[1,2] 3:[3] 4:[4]"},
		{probe(false, oK, fr("RANGE", up, fol(2))), "1:[1,2] 2:[1,2] 3:[1,2,3,4] 4:[1,2,3,4]"},
		{probe(false, oK, fr("RANGE", pre(2), uf)), "1:[1,2,3,4] 2:[1,2,3,4] 3:[3,4] 4:[3,4]"},
		{probe(false, oK, nil), "1:[1,2] 2:[1,2] 3:[1,2,3] 4:[1,2,3,4]"},
		// DESC: NULLs last
		{probe(false, oKd, fr("RANGE", pre(2), cr)), "4:[4] 3:[4,3] 1:[1,2] 2:[1,2]"},
		{probe(false, oKd, fr("RANGE", fol(1), uf)), "4:[3,1,2] 3:[1,2] 1:[1,2] 2:[1,2]"},
		{probe(false, oKd, nil), "4:[4] 3:[4,3] 1:[4,3,1,2] 2:[4,3,1,2]"},
	} {
		if got := frameIDs(tc.c); got != tc.want {
			t.Errorf("%s\n got  %s\n want %s", tc.c.SQL(), got, tc.want)
		}
	}
	g := func(fn string) string { return aggOver(&Col{Mode: "group", Fn: fn}, nil).String() }
	for fn, want := range map[string]string{"COUNT*": "0", "COUNT": "0", "SUM": "NULL", "AVG": "NULL", "MIN": "NULL", "MAX": "NULL", "BIT_AND": "18446744073709551615",
		"BIT_OR": "0", "BIT_XOR": "0", "STD": "NULL", "VAR_SAMP": "NULL", "GROUP_CONCAT": "NULL", "JSON_ARRAYAGG": "NULL", "JSON_OBJECTAGG": "NULL", "COUNTD": "0"} {
		if got := g(fn); got != want {
			t.Errorf("%s over no rows: got %s want %s", fn, got, want)
		}
	}
	one := []RowT{{ID: 1, G: 1, K: 1, V: 2}}
	if got := aggOver(&Col{Mode: "group", Fn: "STDDEV_SAMP"}, one).String(); got != "NULL" {
		t.Errorf("STDDEV_SAMP of one value: %s", got)
	}
	if got := render([]Val{aggOver(&Col{Mode: "group", Fn: "VAR_POP"}, append(one, RowT{ID: 2, G: 1, K: 1, V: 0}))}); got != "1.000" {
		t.Errorf("VAR_POP(2,0): %s", got)
	}
}
