package c08

import "strings"

// Constructs of the C08 space that go-mysql-server rejects at the pinned commit (parse error or
// unknown function). They are outside the domain: columns matching an entry are not evaluated
// (counted as skipped_unsupported). Each entry is re-verified on every run; the rejection of any
// column NOT matched by this list is reported as a violation (check "rejected").
type rejectedConstruct struct {
	Name     string
	Why      string
	ErrClass string // eng.ErrClass of the rejection
	MsgPart  string // substring of the message (when the class alone is not specific)
	Match    func(c *Col) bool
}

var rejectedConstructs = []rejectedConstruct{
	{
		Name:     "NTH_VALUE",
		Why:      "function: 'nth_value' not found (not implemented)",
		ErrClass: "other",
		Match:    func(c *Col) bool { return c.Fn == "NTH_VALUE" },
	},
	{
		Name:     "CUME_DIST",
		Why:      "function: 'cume_dist' not found (not implemented)",
		ErrClass: "other",
		Match:    func(c *Col) bool { return c.Fn == "CUME_DIST" },
	},
	{
		Name:     "GROUP_CONCAT OVER",
		Why:      "the grammar does not accept an OVER clause after GROUP_CONCAT(...) (syntax error)",
		ErrClass: "parse",
		Match:    func(c *Col) bool { return c.Mode == "window" && (c.Fn == "GROUP_CONCAT" || c.Fn == "GROUP_CONCAT2") },
	},
	{
		Name:     "BIT_AND/BIT_OR/BIT_XOR OVER",
		Why:      "the bitwise aggregates are not wired as window functions: any OVER clause fails with 'Unimplemented BitAnd.Eval()'",
		ErrClass: "other",
		MsgPart:  "Unimplemented Bit",
		Match:    func(c *Col) bool { return c.Mode == "window" && strings.HasPrefix(c.Fn, "BIT_") },
	},
	{
		Name:     "JSON_OBJECTAGG OVER",
		Why:      "JSON_OBJECTAGG is not wired as a window function: any OVER clause fails with 'Unimplemented JSONObjectAgg.Eval()'",
		ErrClass: "other",
		MsgPart:  "Unimplemented JSONObjectAgg",
		Match:    func(c *Col) bool { return c.Mode == "window" && c.Fn == "JSON_OBJECTAGG" },
	},
}

func rejectedBy(c *Col) *rejectedConstruct {
	for i := range rejectedConstructs {
		if rejectedConstructs[i].Match(c) {
			return &rejectedConstructs[i]
		}
	}
	return nil
}
