package c08

import (
	"encoding/json"
	"fmt"
	"os"
	"runtime/debug"
	"sort"
	"strings"
	"syscall"

	"verif/mc/core"
	"verif/mc/eng"
)

// ---------------------------------------------------------------------------------------------
// scheduling columns into statements
//
// go-mysql-server identifies the window expressions of one statement by their printed form, and
// (at the pinned commit) a frame that starts at UNBOUNDED PRECEDING always prints as `... BETWEEN
// UNBOUNDED PRECEDING AND UNBOUNDED FOLLOWING`, whatever its end: two such expressions in the same
// statement are conflated (a genuine defect, exercised on purpose by the `together` set and
// reported there). The big multi-column statements that serve as the vehicle for the per-column
// checks therefore never contain two columns with the same conflation key.

func windowConfKey(c *Col) string {
	f := "default"
	if c.Frame != nil {
		f = c.Frame.String()
		if c.Frame.Start.Kind == bUP {
			f = c.Frame.Unit + ":UP.."
		}
	}
	return fmt.Sprintf("%v|%s|%s", c.Part, c.Ord, f)
}

func colConfKey(c *Col) string {
	if c.Mode == "group" {
		return c.call()
	}
	call := c.call()
	if c.Fn == "NTILE" {
		call = "NTILE" // second conflation defect: NTILE(1) and NTILE(2) over the same window print alike
	}
	return call + "|" + windowConfKey(c)
}

// schedule packs groups of columns (a group stays in one statement) into statements of at most
// capCols columns without two columns sharing a conflation key.
func schedule(groups [][]*Col, capCols int) [][]*Col {
	type stmt struct {
		cols []*Col
		keys map[string]bool
	}
	var stmts []*stmt
	for _, g := range groups {
		placed := false
		for _, s := range stmts {
			if len(s.cols)+len(g) > capCols {
				continue
			}
			clash := false
			for _, c := range g {
				if s.keys[colConfKey(c)] {
					clash = true
					break
				}
			}
			if clash {
				continue
			}
			for _, c := range g {
				s.keys[colConfKey(c)] = true
			}
			s.cols = append(s.cols, g...)
			placed = true
			break
		}
		if !placed {
			s := &stmt{keys: map[string]bool{}}
			for _, c := range g {
				s.keys[colConfKey(c)] = true
			}
			s.cols = append(s.cols, g...)
			stmts = append(stmts, s)
		}
	}
	out := make([][]*Col, len(stmts))
	for i, s := range stmts {
		out[i] = s.cols
	}
	return out
}

func singletons(cols []*Col) [][]*Col {
	out := make([][]*Col, len(cols))
	for i, c := range cols {
		out[i] = []*Col{c}
	}
	return out
}

// togetherSet: small statements whose columns must be evaluated independently of each other.
func togetherSet() [][]*Col {
	w := func(fn string, ord string, f *Frame) *Col { return &Col{Mode: "window", Fn: fn, Part: true, Ord: ord, Frame: f} }
	lag := func(off int) *Col { return &Col{Mode: "window", Fn: "LAG", Part: true, Ord: oKI, HasOff: true, Off: off} }
	nt := func(n int) *Col { return &Col{Mode: "window", Fn: "NTILE", Part: true, Ord: oKI, N: n} }
	return [][]*Col{
		{w("SUM", oKI, fr("ROWS", up, cr)), w("SUM", oKI, fr("ROWS", up, uf))},                       // running total next to grand total
		{w("COUNT*", oKI, fr("ROWS", up, uf)), w("COUNT*", oKI, fr("ROWS", up, pre(1))), w("COUNT*", oKI, &Frame{Unit: "ROWS", Start: up})},
		{probe(true, oK, fr("RANGE", up, cr)), probe(true, oK, fr("RANGE", up, fol(1))), probe(true, oK, fr("RANGE", up, uf))},
		{w("SUM", oKI, fr("ROWS", pre(1), fol(1))), w("SUM", oKI, fr("ROWS", pre(2), fol(2))), w("SUM", oKI, fr("ROWS", pre(1), fol(2)))}, // offsets only
		{w("MAX", oK, fr("RANGE", pre(1), cr)), w("MAX", oK, fr("RANGE", pre(2), cr)), w("MAX", oKd, fr("RANGE", pre(1), cr))},
		{w("SUM", oKI, fr("ROWS", cr, uf)), w("SUM", oKI, fr("ROWS", cr, fol(1))), w("SUM", oKI, fr("ROWS", cr, cr))},
		{w("SUM", oKI, nil), w("SUM", oKdI, nil), w("SUM", oK, nil), w("SUM", oNone, nil), {Mode: "window", Fn: "SUM", Ord: oKI}},
		{lag(1), lag(2), {Mode: "window", Fn: "LEAD", Part: true, Ord: oKI, HasOff: true, Off: 1}, {Mode: "window", Fn: "LAG", Part: true, Ord: oKI, HasOff: true, Off: 1, Def: ip(9)}},
		{nt(2), nt(3), w("ROW_NUMBER", oKI, nil), w("RANK", oK, nil), w("DENSE_RANK", oK, nil), w("RANK", oKd, nil)},
		{w("FIRST_VALUE", oKI, fr("ROWS", pre(1), fol(1))), w("LAST_VALUE", oKI, fr("ROWS", pre(1), fol(1))), w("FIRST_VALUE", oKI, fr("ROWS", cr, fol(1))), w("LAST_VALUE", oKI, fr("ROWS", up, uf))},
	}
}

// ---------------------------------------------------------------------------------------------
// worker

type worker struct {
	r     *core.Run
	fast  *fastEngine
	seen  map[string]bool
	hist  map[string]int64
	dbg   bool
	nCols int64
	nMismatch int64
	nDeriv int64
	quiet bool // phase A on a table owned by another worker: compute verdicts, report and count nothing
	solo  map[string]*Plan     // single-column plans (together set, cross-check)
	fails map[*Plan]*failStreak // consecutive identical failures of single-column statements
}

type failStreak struct {
	sig string
	n   int
}

// retireAfter: a single-column statement that failed (panic / error) this many times in a row
// with the same signature is not executed on further tables (counted, visible in the evidence).
const retireAfter = 12


type planSet struct {
	name     string
	kind     string
	together bool // judge columns in the context of their statement (confirmation uses the whole statement)
	plans    []*Plan
	ncols    int
}

// relation describes how two columns of one statement differ (signature coordinate of
// cross-column interference findings).
func relation(c, d *Col) string {
	if c.Mode == "window" && d.Mode == "window" && c.call() == d.call() && c.Part == d.Part && c.Ord == d.Ord && c.Frame != nil && d.Frame != nil && c.Frame.Unit == d.Frame.Unit {
		if c.Frame.Start.Kind == bUP && d.Frame.Start.Kind == bUP {
			return "same-function-and-window-frames-differ-only-after-UNBOUNDED-PRECEDING-start"
		}
		if c.Frame.class() == d.Frame.class() || strings.ReplaceAll(c.Frame.class(), "0", "n") == strings.ReplaceAll(d.Frame.class(), "0", "n") {
			return "same-function-and-window-frames-differ-only-in-offsets"
		}
		return "same-function-partition-order-different-frames"
	}
	if c.call() == d.call() {
		return "same-function-different-windows"
	}
	if c.Fn == d.Fn && c.Mode == "window" && c.windowKey() == d.windowKey() {
		return "same-function-and-window-different-arguments"
	}
	return "different-functions"
}

var relationRank = []string{
	"same-function-and-window-frames-differ-only-after-UNBOUNDED-PRECEDING-start",
	"same-function-and-window-frames-differ-only-in-offsets",
	"same-function-partition-order-different-frames",
	"same-function-and-window-different-arguments",
	"same-function-different-windows",
	"different-functions",
}

func togetherJudged(j *judged, c *Col, others []*Col) *judged {
	j.render()
	best := len(relationRank) - 1
	for _, d := range others {
		if d == c {
			continue
		}
		r := relation(c, d)
		for i, name := range relationRank {
			if name == r && i < best {
				best = i
			}
		}
	}
	subj := map[string]string{"relation": relationRank[best]}
	if relationRank[best] == "same-function-and-window-different-arguments" {
		subj["fn"] = c.Fn
	}
	return &judged{check: "statement", clause: "columns-of-one-statement-are-evaluated-independently", kind: "wrong-value",
		subject: subj, observed: j.observed, expected: j.expected}
}

// slowJudgeTogether judges column target of the statement cols; a mismatch that the column alone
// does not show is a cross-column interference.
func slowJudgeTogether(kind string, cols []*Col, target int, rows []RowT) *judged {
	j := slowJudge(kind, cols, target, rows)
	if j == nil || target < 0 || len(cols) == 1 || j.kind == "panic" || j.kind == "error" {
		return j
	}
	if solo := slowJudge(kind, []*Col{cols[target]}, 0, rows); solo != nil {
		return solo // the column is wrong on its own: that is the finding
	}
	return togetherJudged(j, cols[target], cols)
}

// report handles a mismatch seen on the fast path for column `target` of statement ctxCols: once
// per signature it is confirmed on the slow path with the column alone, minimised and recorded.
// If the column alone is right, the smallest sub-statement that reproduces it is searched.
func (w *worker) report(kind string, ctxCols []*Col, target int, rows []RowT, j *judged) {
	if w.quiet {
		return
	}
	w.nMismatch++
	sig := j.sig()
	if w.seen[sig] {
		return
	}
	w.seen[sig] = true
	j.render()
	cols, tgt := ctxCols, target
	var sj *judged
	if target >= 0 {
		cols, tgt = []*Col{ctxCols[target]}, 0
		sj = slowJudge(kind, cols, 0, rows)
		if sj == nil && len(ctxCols) > 1 {
			// interference between columns? find a pair
			c := ctxCols[target]
		search:
			for _, d := range ctxCols {
				if d == c {
					continue
				}
				for _, pair := range [][]*Col{{d, c}, {c, d}} {
					t := 0
					if pair[1] == c {
						t = 1
					}
					if pj := slowJudgeTogether(kind, pair, t, rows); pj != nil {
						cols, tgt, sj = pair, t, pj
						break search
					}
				}
			}
			if sj == nil {
				if pj := slowJudgeTogether(kind, ctxCols, target, rows); pj != nil {
					cols, tgt, sj = ctxCols, target, pj
				}
			}
		}
	} else {
		sj = slowJudge(kind, cols, -1, rows)
	}
	if sj == nil {
		// not reproducible through Engine.Query on a fresh engine
		w.r.Count("fast_path_only_mismatch", 1)
		w.r.Violate(core.Violation{Check: "harness-crosscheck", Clause: "fast-path-equals-engine-query", Kind: "divergence", Subject: map[string]string{"fn": ctxCols[0].fnLabel()},
			Witness: core.J(mkWitness(kind, ctxCols, target, rows)), Observed: j.observed, Expected: "same as Engine.Query: " + j.expected})
		return
	}
	if s2 := sj.sig(); s2 != sig {
		if w.seen[s2] {
			return
		}
		w.seen[s2] = true
	}
	mrows, mj := minimise(kind, cols, tgt, rows, sj)
	if w.dbg {
		fmt.Fprintf(os.Stderr, "MISMATCH %s\n   sql: %s\n   rows: %v\n   observed: %s\n   expected: %s\n", mj.sig(), planSQL(kind, cols), mrows, mj.observed, mj.expected)
	}
	w.r.Violate(violationOf(mj, mkWitness(kind, cols, tgt, mrows)))
}

// build analyses each statement; a statement that the engine rejects is bisected and every
// rejected column is reported (it is not in the committed rejected list, or it would have been
// filtered out before).
func (w *worker) build(name, kind string, stmts [][]*Col) *planSet {
	ps := &planSet{name: name, kind: kind}
	var add func(cs []*Col)
	add = func(cs []*Col) {
		if len(cs) == 0 {
			return
		}
		p, err := w.fast.analyze(kind, cs)
		if err == nil {
			p.Name = fmt.Sprintf("%s#%d", name, len(ps.plans))
			ps.plans = append(ps.plans, p)
			ps.ncols += len(cs)
			return
		}
		if len(cs) == 1 {
			one := []RowT{{ID: 1, G: 1, K: 1, V: 1}}
			o := outcome{err: err}
			if strings.HasPrefix(err.Error(), "panic: ") {
				o = outcome{panic: strings.TrimPrefix(err.Error(), "panic: ")}
			}
			if j := judgeRows(kind, cs, one, &o); j != nil {
				w.report(kind, cs, -1, one, j)
			}
			return
		}
		add(cs[:len(cs)/2])
		add(cs[len(cs)/2:])
	}
	for _, cs := range stmts {
		add(cs)
	}
	return ps
}

func filterRejected(cols []*Col) (keep []*Col, nrej int) {
	for _, c := range cols {
		if rejectedBy(c) != nil {
			nrej++
			continue
		}
		keep = append(keep, c)
	}
	return
}

// execSet runs every statement of the set on the table; statement-level failures are handled
// (culprit isolation) and leave a nil outcome.
func (w *worker) execSet(ps *planSet, rows []RowT) []*outcome {
	outs := make([]*outcome, len(ps.plans))
	n := len(ps.plans) // planFailure may append single-column plans; they start with the next table
	for pi := 0; pi < n; pi++ {
		p := ps.plans[pi]
		if fs := w.fails[p]; fs != nil && fs.n >= retireAfter {
			if !w.quiet {
				w.r.Count("retired_failing_column_skipped", 1)
			}
			continue
		}
		o := w.fast.run(p, rows)
		if !w.quiet {
			w.r.Eval()
			w.nCols += int64(len(p.Cols))
		}
		if j := judgeRows(p.Kind, p.Cols, rows, &o); j != nil {
			if len(p.Cols) == 1 {
				fs := w.fails[p]
				if fs == nil || fs.sig != j.sig() {
					fs = &failStreak{sig: j.sig()}
					w.fails[p] = fs
				}
				fs.n++
			}
			w.planFailure(ps, pi, rows, j)
			if ps.plans[pi] != p {
				pi-- // the statement was rebuilt without its failing columns: run it on this table too
			}
			continue
		}
		delete(w.fails, p)
		if o.err != nil {
			continue // expected error
		}
		outs[pi] = &o
	}
	return outs
}

// judgeSet judges the columns selected by want. bad collects the windows whose frame the probe
// found wrong on this table: frame-evaluated functions over such a window are not judged (their
// values derive from the wrong frame, which is reported once, as a frame finding).
func (w *worker) judgeSet(ps *planSet, outs []*outcome, tc *tableCtx, bad map[string]bool, want func(c *Col) bool) {
	rows := tc.rows
	for pi, o := range outs {
		if o == nil {
			continue
		}
		p := ps.plans[pi]
		for ci, c := range p.Cols {
			if !want(c) {
				continue
			}
			if !isProbe(c) && c.Mode == "window" && c.usesFrame() && bad[c.windowKey()] {
				w.nDeriv++
				continue
			}
			j := judgeCol(p.Kind, c, tc, o, ci)
			if j == nil {
				continue
			}
			if isProbe(c) {
				bad[c.windowKey()] = true
			}
			if ps.together {
				if solo := judgeSolo(w, p.Kind, c, rows); solo == nil {
					j = togetherJudged(j, c, p.Cols)
				}
			}
			w.report(p.Kind, p.Cols, ci, rows, j)
		}
	}
}

// judgeSolo evaluates the column alone on the fast path.
func judgeSolo(w *worker, kind string, c *Col, rows []RowT) *judged {
	p, ok := w.solo[kind+"|"+c.SQL()]
	if !ok {
		var err error
		p, err = w.fast.analyze(kind, []*Col{c})
		if err != nil {
			p = nil
		}
		w.solo[kind+"|"+c.SQL()] = p
	}
	if p == nil {
		return &judged{check: "window", clause: "no-error", kind: "error", subject: map[string]string{}}
	}
	o := w.fast.run(p, rows)
	if j := judgeRows(kind, p.Cols, rows, &o); j != nil {
		return j
	}
	return judgeCol(kind, c, newTableCtx(rows), &o, 0)
}

func (w *worker) histogram(ps *planSet, outs []*outcome) (mask int) {
	for pi, o := range outs {
		if o == nil {
			continue
		}
		p := ps.plans[pi]
		for key, row := range o.rows {
			for ci := range row {
				if ci >= len(p.Cols) {
					break
				}
				cls := valClass(o.val(key, ci))
				w.hist[p.Cols[ci].Fn+"="+cls]++
				switch cls {
				case "NULL":
					mask |= 1
				case "zero":
					mask |= 2
				case "empty-array":
					mask |= 8
				default:
					mask |= 4
				}
			}
		}
	}
	return mask
}

// planFailure: a whole statement failed (error, panic, wrong row set). The culprit columns are
// isolated on the slow path and reported one by one; the statement is rebuilt without them and
// they continue as single-column statements.
func (w *worker) planFailure(ps *planSet, pi int, rows []RowT, j *judged) {
	p := ps.plans[pi]
	if len(p.Cols) == 1 {
		w.report(p.Kind, p.Cols, -1, rows, j)
		return
	}
	var keep, culprits []*Col
	for _, c := range p.Cols {
		o := slowRun(p.Kind, []*Col{c}, rows)
		if cj := judgeRows(p.Kind, []*Col{c}, rows, &o); cj != nil {
			culprits = append(culprits, c)
			w.report(p.Kind, []*Col{c}, -1, rows, cj)
		} else {
			keep = append(keep, c)
		}
	}
	if len(culprits) == 0 {
		w.report(p.Kind, p.Cols, -1, rows, j) // only the combination fails
		return
	}
	w.r.Count("statements_split_after_failure", 1)
	np, err := w.fast.analyze(p.Kind, keep)
	if err != nil {
		panic(fmt.Sprintf("harness: re-analysis of a statement without its failing columns failed: %v", err))
	}
	np.Name = p.Name
	ps.plans[pi] = np
	for _, c := range culprits {
		sp, err := w.fast.analyze(p.Kind, []*Col{c})
		if err != nil {
			continue
		}
		sp.Name = fmt.Sprintf("%s#solo%d", ps.name, len(ps.plans))
		ps.plans = append(ps.plans, sp)
	}
}

func nonTrivialTable(rows []RowT) bool {
	n := map[int]int{}
	for _, r := range rows {
		n[r.G]++
		if n[r.G] >= 2 {
			return true
		}
	}
	return false
}

func maskName(m int) string {
	var s []string
	for i, n := range []string{"NULL", "zero", "value", "empty-array"} {
		if m&(1<<i) != 0 {
			s = append(s, n)
		}
	}
	if len(s) == 0 {
		return "none"
	}
	return strings.Join(s, "+")
}

func cpuMillis() int64 {
	var ru syscall.Rusage
	if syscall.Getrusage(syscall.RUSAGE_SELF, &ru) != nil {
		return 0
	}
	return (ru.Utime.Nano() + ru.Stime.Nano()) / 1e6
}

func notProbe(c *Col) bool { return !isProbe(c) }
func always(*Col) bool    { return true }

// kOnly: the column does not reference v.
func kOnly(c *Col) bool {
	if isProbe(c) {
		return true
	}
	switch c.Fn {
	case "ROW_NUMBER", "RANK", "DENSE_RANK", "PERCENT_RANK", "CUME_DIST", "NTILE":
		return c.Mode == "window"
	}
	return false
}

// projKey identifies the (g,k) projection of a table.
func projKey(rows []RowT) string {
	b := make([]byte, 0, 2*len(rows))
	for _, r := range rows {
		b = append(b, byte('0'+r.G), byte('1'+r.K))
	}
	return string(b)
}

func run(r *core.Run) {
	w := &worker{r: r, fast: newFastEngine(), seen: map[string]bool{}, hist: map[string]int64{}, dbg: os.Getenv("C08_DEBUG") != "", solo: map[string]*Plan{}, fails: map[*Plan]*failStreak{}}
	debug.SetGCPercent(400)
	maxRows, wideRows := 4, 3
	if r.Thorough() {
		maxRows, wideRows = 5, 4
	}
	if s := os.Getenv("C08_MAXROWS"); s != "" {
		fmt.Sscan(s, &maxRows)
		if wideRows > maxRows {
			wideRows = maxRows
		}
	}
	nTables, nTablesWide := numTables(maxRows), numTables(wideRows)
	r.Info("max_rows_per_table", maxRows)
	r.Info("max_rows_per_table_wide_set", wideRows)
	r.Info("tables", nTables)
	r.Info("tables_wide_set", nTablesWide)

	// the committed list of rejected constructs is still accurate
	one := []RowT{{ID: 1, G: 1, K: 1, V: 1}}
	all := append(append(append(framesSet(), funcsSet()...), partfnSet()...), groupSet()...)
	var names []string
	for i := range rejectedConstructs {
		rc := &rejectedConstructs[i]
		names = append(names, rc.Name)
		if !r.Mine(int64(i)) {
			continue
		}
		for _, c := range all {
			if rc.Match(c) {
				o := slowRun("window", []*Col{c}, one)
				switch {
				case o.err == nil && o.panic == "":
					r.Count("rejected_list_entry_now_accepted", 1)
					r.Note("construct in the committed rejected list is accepted now (list is stale, construct still not evaluated): " + rc.Name)
				case o.panic != "" || eng.ErrClass(o.err) != rc.ErrClass || !strings.Contains(o.err.Error(), rc.MsgPart):
					r.Count("rejected_list_entry_fails_differently", 1)
					r.Note(fmt.Sprintf("rejected construct %s now fails differently: %v %s (listed: class %s, message part %q)", rc.Name, o.err, o.panic, rc.ErrClass, rc.MsgPart))
				default:
					r.Count("rejected_constructs_verified", 1)
				}
				break
			}
		}
	}
	r.Info("rejected_constructs", names)

	// ---- all-table sets
	// Columns that do not reference v (the frame probes JSON_ARRAYAGG(id), ROW_NUMBER, the rank
	// family, NTILE) behave identically on tables that differ only in v: they run on every
	// multiset over (g,k) with v fixed (phase A). All other columns run on every multiset over
	// (g,k,v) (phase B). Phase A is executed by every worker for all (g,k)-tables, because its
	// per-window frame verdicts are needed in phase B (frame-evaluated functions over a window
	// whose frame is wrong on that (g,k) projection are not judged); only the worker that owns a
	// (g,k)-table counts and reports it.
	allWin, nrejWin := filterRejected(dedupCols(append(append(framesSet(), funcsSet()...), partfnSet()...)))
	var kCols, vCols []*Col
	haveProbe := map[string]bool{}
	for _, c := range allWin {
		if kOnly(c) {
			kCols = append(kCols, c)
			if isProbe(c) {
				haveProbe[c.windowKey()] = true
			}
		} else {
			vCols = append(vCols, c)
		}
	}
	for _, c := range vCols { // every window used by a frame-evaluated function is probed
		if c.usesFrame() && !haveProbe[c.windowKey()] {
			haveProbe[c.windowKey()] = true
			kCols = append(kCols, probe(c.Part, c.Ord, c.Frame))
		}
	}
	grpCols, nrejGrp := filterRejected(groupSet())
	skippedPerTable := int64(nrejWin + 2*nrejGrp)
	kset := w.build("window-k", "window", schedule(singletons(kCols), 72))
	vset := w.build("window-v", "window", schedule(singletons(vCols), 72))
	together := w.build("together", "window", togetherSet())
	together.together = true
	grouped := w.build("grouped", "grouped", schedule(singletons(grpCols), 72))
	ungrouped := w.build("ungrouped", "ungrouped", schedule(singletons(grpCols), 72))
	groupedSolo := w.build("grouped-solo", "grouped", singletons(soloGroupCols()))
	ungroupedSolo := w.build("ungrouped-solo", "ungrouped", singletons(soloGroupCols()))
	bsets := []*planSet{vset, together, grouped, ungrouped, groupedSolo, ungroupedSolo}
	for _, ps := range append([]*planSet{kset}, bsets...) {
		r.Info("columns_"+ps.name, ps.ncols)
		r.Info("statements_"+ps.name, len(ps.plans))
	}
	type flatCol struct {
		kind string
		c    *Col
	}
	var flat []flatCol
	for _, ps := range append([]*planSet{kset}, bsets...) {
		for _, p := range ps.plans {
			for _, c := range p.Cols {
				flat = append(flat, flatCol{p.Kind, c})
			}
		}
	}

	capped := false
	cpu0 := cpuMillis()
	r.Count("cpu_ms/setup", cpu0)
	// phase A
	nGK := int64(0)
	badByProj := map[string]map[string]bool{}
	forEachTableGK(maxRows, func(idx int64, rows []RowT) bool {
		nGK++
		mine := r.Mine(idx)
		if r.Expired() {
			r.Capped(fmt.Sprintf("time budget reached in phase A at (g,k)-table %d", idx))
			capped = true
			return false
		}
		w.quiet = !mine
		bad := map[string]bool{}
		tc := newTableCtx(rows)
		outs := w.execSet(kset, rows)
		w.judgeSet(kset, outs, tc, bad, isProbe)
		w.judgeSet(kset, outs, tc, bad, notProbe)
		badByProj[projKey(rows)] = bad
		if mine {
			mask := w.histogram(kset, outs)
			if nonTrivialTable(rows) {
				for pi := range outs {
					r.NonTrivial(fmt.Sprintf("gk%d/%d", idx, pi))
				}
			}
			r.Outcome(fmt.Sprintf("%s rows=%d results:%s", kset.name, len(rows), maskName(mask)))
			if idx%4 == 0 {
				fc := flat[int(idx/4)%kset.ncols]
				w.crosscheck(fc.kind, fc.c, rows)
			}
		}
		w.quiet = false
		return true
	})
	r.Info("tables_gk", nGK)
	cpu1 := cpuMillis()
	r.Count("cpu_ms/phaseA", cpu1-cpu0)

	// phase B
	if os.Getenv("C08_PHASEA_ONLY") != "" { // development knob
		return
	}
	if !capped {
		forEachTable(maxRows, func(idx int64, rows []RowT) bool {
			if !r.Mine(idx) {
				return true
			}
			if r.Expired() {
				r.Capped(fmt.Sprintf("time budget reached in phase B at table %d of %d (tables are enumerated smallest first)", idx, nTables))
				capped = true
				return false
			}
			r.AnnounceCase(fmt.Sprintf("table %d %v", idx, rows))
			nt := nonTrivialTable(rows)
			bad := badByProj[projKey(rows)]
			if bad == nil {
				panic("harness: no phase-A verdict for projection " + projKey(rows))
			}
			tc := newTableCtx(rows)
			for _, ps := range bsets {
				outs := w.execSet(ps, rows)
				w.judgeSet(ps, outs, tc, bad, always)
				mask := w.histogram(ps, outs)
				if nt {
					for pi := range outs {
						r.NonTrivial(fmt.Sprintf("%d/%s/%d", idx, ps.name, pi))
					}
				}
				r.Outcome(fmt.Sprintf("%s rows=%d results:%s", ps.name, len(rows), maskName(mask)))
			}
			r.Count("skipped_unsupported", skippedPerTable)
			// diagonal cross-check of the plan-reuse path against Engine.Query on a fresh engine
			if idx%16 == 0 {
				fc := flat[kset.ncols+int(idx/16)%(len(flat)-kset.ncols)]
				w.crosscheck(fc.kind, fc.c, rows)
			}
			if idx%1009 == 5 && len(rows) >= 3 && nt && r.WantSample() {
				w.sample(rows)
			}
			return true
		})
	}

	cpu2 := cpuMillis()
	r.Count("cpu_ms/phaseB", cpu2-cpu1)
	defer func() { r.Count("cpu_ms/wide", cpuMillis()-cpu2) }()
	// ---- wide set: every frame-evaluated function x every frame x ASC/DESC on the small tables;
	// sharded by statement
	if !capped && os.Getenv("C08_NOWIDE") == "" { // C08_NOWIDE / C08_MAXROWS: development knobs only
		var fns []string
		nrej := 0
		for _, fn := range frameFns {
			if rejectedBy(&Col{Mode: "window", Fn: fn}) != nil {
				nrej++
				continue
			}
			fns = append(fns, fn)
		}
		var groups [][]*Col
		for _, win := range wideWindows() {
			g := []*Col{win}
			for _, fn := range fns {
				g = append(g, fnCol(fn, win))
			}
			groups = append(groups, g)
		}
		stmts := schedule(groups, 6*(len(fns)+1))
		r.Info("columns_wide", len(groups)*(len(fns)+1))
		r.Info("statements_wide", len(stmts))
		for si, cols := range stmts {
			if !r.Mine(int64(si)) {
				continue
			}
			ps := w.build(fmt.Sprintf("wide%d", si), "window", [][]*Col{cols})
			nwin := 0
			for _, c := range cols {
				if isProbe(c) {
					nwin++
				}
			}
			stop := false
			forEachTable(wideRows, func(idx int64, rows []RowT) bool {
				if r.Expired() {
					r.Capped(fmt.Sprintf("time budget reached in the wide set (statement %d of %d, table %d of %d)", si, len(stmts), idx, nTablesWide))
					stop = true
					return false
				}
				bad := map[string]bool{}
				outs := w.execSet(ps, rows)
				tc := newTableCtx(rows)
				w.judgeSet(ps, outs, tc, bad, isProbe)
				w.judgeSet(ps, outs, tc, bad, notProbe)
				mask := w.histogram(ps, outs)
				if nonTrivialTable(rows) {
					r.NonTrivial(fmt.Sprintf("wide/%d/%d", si, idx))
				}
				r.Outcome(fmt.Sprintf("wide rows=%d results:%s", len(rows), maskName(mask)))
				r.Count("skipped_unsupported", int64(nrej*nwin))
				return true
			})
			if stop {
				break
			}
		}
	}
	r.Count("column_evaluations", w.nCols)
	r.Count("mismatching_column_evaluations", w.nMismatch)
	r.Count("skipped_wrong_frame_derivative", w.nDeriv)
	var hk []string
	for k := range w.hist {
		hk = append(hk, k)
	}
	sort.Strings(hk)
	for _, k := range hk {
		r.Count("result/"+k, w.hist[k])
	}
}

// crosscheck: the same single column through Engine.Query on a fresh engine with a memory table
// must give exactly what the plan-reuse path gave.
func (w *worker) crosscheck(kind string, c *Col, rows []RowT) {
	p, err := w.fast.analyze(kind, []*Col{c})
	if err != nil {
		return
	}
	fo := w.fast.run(p, rows)
	so := slowRun(kind, []*Col{c}, rows)
	render := func(o *outcome) string {
		if o.panic != "" {
			return "panic"
		}
		if o.err != nil {
			return "error:" + eng.ErrClass(o.err)
		}
		var keys []int
		for k := range o.rows {
			keys = append(keys, k)
		}
		sort.Ints(keys)
		var sb strings.Builder
		for _, k := range keys {
			fmt.Fprintf(&sb, "%d:%s ", k, norm(o.rows[k][0]).String())
		}
		return sb.String()
	}
	w.r.Count("crosschecked_against_engine_query", 1)
	if a, b := render(&fo), render(&so); a != b {
		w.r.Violate(core.Violation{Check: "harness-crosscheck", Clause: "fast-path-equals-engine-query", Kind: "divergence", Subject: map[string]string{"fn": c.fnLabel()},
			Witness: core.J(mkWitness(kind, []*Col{c}, 0, rows)), Observed: "plan reuse: " + a, Expected: "Engine.Query: " + b})
	}
}

// sample writes out one case: table, a few statements, engine results and reference values.
func (w *worker) sample(rows []RowT) {
	pick := []*Col{
		{Mode: "window", Fn: "SUM", Part: true, Ord: oK, Frame: fr("RANGE", pre(1), fol(1))},
		{Mode: "window", Fn: "JSON_ARRAYAGG", Arg: "id", Part: true, Ord: oKdI, Frame: fr("ROWS", pre(1), cr)},
		{Mode: "window", Fn: "DENSE_RANK", Part: true, Ord: oKd},
		{Mode: "window", Fn: "LAG", Part: true, Ord: oKI, HasOff: true, Off: 1, Def: ip(9)},
	}
	o := slowRun("window", pick, rows)
	type cell struct {
		ID       int      `json:"id"`
		Engine   []string `json:"engine"`
		Expected []string `json:"reference"`
	}
	var cells []cell
	for _, r := range rows {
		cl := cell{ID: r.ID}
		for ci, c := range pick {
			for _, part := range partitionsOf("window", c, rows) {
				canon := canonical(c.Ord, part)
				exp := refPartition(c, canon)
				for i, cr := range canon {
					if cr.ID == r.ID {
						cl.Expected = append(cl.Expected, exp[i].String())
					}
				}
			}
			if row, ok := o.rows[r.ID]; ok {
				cl.Engine = append(cl.Engine, norm(row[ci]).String())
			}
		}
		cells = append(cells, cl)
	}
	gcols := []*Col{{Mode: "group", Fn: "COUNT*"}, {Mode: "group", Fn: "SUM"}, {Mode: "group", Fn: "AVG"}, {Mode: "group", Fn: "GROUP_CONCAT", InOrd: oKdId, Sep: sp("|")}, {Mode: "group", Fn: "STDDEV_SAMP"}}
	g := slowRun("grouped", gcols, rows)
	var gres []string
	for _, part := range partitionsOf("grouped", gcols[0], rows) {
		var e, x []string
		for ci, c := range gcols {
			e = append(e, refPartition(c, canonical(oNone, part))[0].String())
			if row, ok := g.rows[part[0].G]; ok {
				x = append(x, norm(row[ci]).String())
			}
		}
		gres = append(gres, fmt.Sprintf("g=%d engine=(%s) reference=(%s)", part[0].G, strings.Join(x, ", "), strings.Join(e, ", ")))
	}
	wt := mkWitness("window", pick, -1, rows)
	w.r.Sample(map[string]any{"setup": wt.Setup, "window_sql": wt.SQL, "window_rows": cells, "group_sql": planSQL("grouped", gcols), "group_rows": gres})
}

func replay(r *core.Run, raw json.RawMessage) {
	var w witness
	if json.Unmarshal(raw, &w) != nil || len(w.Cols) == 0 {
		return
	}
	rows := w.rows()
	if j := slowJudgeTogether(w.Kind, w.Cols, w.Target, rows); j != nil {
		r.Violate(violationOf(j, w))
	}
}

func init() {
	core.Register(&core.Prop{
		ID:    "C08",
		Level: "exploration",
		Rule: "tables = every multiset of <=4 (quick) / <=5 (thorough) rows over g{1,2} x k{NULL,1,2,3} x v{NULL,0,1,2} (ids 1..n in canonical order), smallest first; PARTITION BY g (plus a few unpartitioned windows). " +
			"Phase A, on every multiset over (g,k) (v is not referenced, fixed): every valid ROWS and RANGE frame {UNBOUNDED PRECEDING, n PRECEDING, CURRENT ROW, n FOLLOWING, UNBOUNDED FOLLOWING}^2, n in 0..2, plus the short forms, x ORDER BY k ASC/DESC (ROWS: totalised by id, both tie-break directions for a subset; RANGE: with ties), default frames with/without ORDER BY, RANGE without ORDER BY — the frame's row set is observed with JSON_ARRAYAGG(id); ROW_NUMBER, RANK, DENSE_RANK, PERCENT_RANK, CUME_DIST, NTILE(1..4) (with ties for the rank family). " +
			"Phase B, on every multiset over (g,k,v): COUNT(*), COUNT, SUM, AVG, MIN, MAX, BIT_AND/OR/XOR, COUNT(DISTINCT), FIRST_VALUE, LAST_VALUE, NTH_VALUE, JSON_ARRAYAGG, JSON_OBJECTAGG, GROUP_CONCAT, STD/STDDEV/STDDEV_POP/STDDEV_SAMP/VAR_POP/VAR_SAMP/VARIANCE as window functions x 14 representative windows (default frames, ROWS and RANGE, empty frames at both edges); LAG/LEAD offsets 0..2 with/without default; all aggregates incl. DISTINCT forms, GROUP_CONCAT with DISTINCT/ORDER BY/SEPARATOR/several expressions, JSON_ARRAYAGG/OBJECTAGG, ANY_VALUE in GROUP BY g and ungrouped statements (empty table included); 10 small statements whose columns differ only in frame bounds / offsets / arguments (cross-column independence). " +
			"Wide set, on every table of <=3 (quick) / <=4 (thorough) rows: every frame-evaluated function x every frame x ASC/DESC. " +
			"Oracle: definitional reference (exact rational arithmetic with math/big; 1e-9 relative tolerance only for AVG / STD / VAR family, PERCENT_RANK, CUME_DIST); where ORDER BY leaves ties, a result is accepted iff some sort order consistent with ORDER BY explains the whole partition. " +
			"A case (evaluation) = one statement (<=72 columns; wide: 6 windows x all functions) executed on one table; non-trivial = some partition of the table has >=2 rows.",
		Assumptions: []string{
			"statements are analysed once per worker and the analysed plan is executed per table through Engine.PrepQueryPlanForExecution over a harness table (sql.Table over a row slice); every reported mismatch is first reproduced through Engine.Query on a fresh engine with a memory table; every 16th table (every 4th in phase A) cross-checks one column between both paths",
			"columns that do not reference v (frame probes, ROW_NUMBER, rank family, NTILE) are evaluated on the (g,k) projections only: an unreferenced column cannot influence them",
			"constructs in props/c08/rejected.go (NTH_VALUE, CUME_DIST, GROUP_CONCAT/BIT_AND/BIT_OR/BIT_XOR/JSON_OBJECTAGG ... OVER) are rejected by the engine and outside the domain; frames that MySQL rejects statically (start after end) are not in the space",
			"frame-evaluated functions over a window whose frame the probe found wrong on the table's (g,k) projection are not judged separately (the frame finding covers them); a single-column statement that failed 12 times in a row with the same signature (a reported panic/error) is not executed on further tables",
			"multi-column statements never contain two columns that the engine conflates by their printed form (frames starting at UNBOUNDED PRECEDING, NTILE arguments); the conflation itself is exercised and reported by the cross-column statements",
		},
		QuickBudget: 75, ThoroughBudget: 1500,
		Run:    run,
		Replay: replay,
	})
}
