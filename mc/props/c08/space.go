// Package c08 — aggregate and window functions compute their defined values.
//
// Bounded-exhaustive comparison of the real executor (group-by aggregation buffers, window
// framers, window functions) against a definitional reference written from the SQL standard /
// MySQL manual. See design.d/C08.md.
package c08

import (
	"fmt"
	"strings"
)

// ---------------------------------------------------------------------------------------------
// data space: rows over (g, k, v); a table is a multiset of row types (ids are assigned 1..n in
// canonical multiset order).

// null is the in-band marker of SQL NULL for the small integer domains used here.
const null = -1

// RowT is one row; K and V use `null` for NULL.
type RowT struct {
	ID int `json:"id"`
	G  int `json:"g"`
	K  int `json:"k"`
	V  int `json:"v"`
}

var gDom = []int{1, 2}
var kDom = []int{null, 1, 2, 3}
var vDom = []int{null, 0, 1, 2}

// rowTypes lists the 32 row types in canonical order.
func rowTypes() [][3]int {
	var out [][3]int
	for _, g := range gDom {
		for _, k := range kDom {
			for _, v := range vDom {
				out = append(out, [3]int{g, k, v})
			}
		}
	}
	return out
}

// forEachTable enumerates every multiset of size 0..maxRows over the row types, smallest first,
// in a fixed order. f returns false to stop.
func forEachTable(maxRows int, f func(idx int64, rows []RowT) bool) {
	types := rowTypes()
	var idx int64
	for n := 0; n <= maxRows; n++ {
		sel := make([]int, n)
		var rec func(pos, from int) bool
		rec = func(pos, from int) bool {
			if pos == n {
				rows := make([]RowT, n)
				for i, t := range sel {
					rows[i] = RowT{ID: i + 1, G: types[t][0], K: types[t][1], V: types[t][2]}
				}
				ok := f(idx, rows)
				idx++
				return ok
			}
			for t := from; t < len(types); t++ {
				sel[pos] = t
				if !rec(pos+1, t) {
					return false
				}
			}
			return true
		}
		if !rec(0, 0) {
			return
		}
	}
}

// forEachTableGK enumerates every multiset of size 0..maxRows over (g,k) with v fixed to 1.
func forEachTableGK(maxRows int, f func(idx int64, rows []RowT) bool) {
	var types [][2]int
	for _, g := range gDom {
		for _, k := range kDom {
			types = append(types, [2]int{g, k})
		}
	}
	var idx int64
	for n := 0; n <= maxRows; n++ {
		sel := make([]int, n)
		var rec func(pos, from int) bool
		rec = func(pos, from int) bool {
			if pos == n {
				rows := make([]RowT, n)
				for i, t := range sel {
					rows[i] = RowT{ID: i + 1, G: types[t][0], K: types[t][1], V: 1}
				}
				ok := f(idx, rows)
				idx++
				return ok
			}
			for t := from; t < len(types); t++ {
				sel[pos] = t
				if !rec(pos+1, t) {
					return false
				}
			}
			return true
		}
		if !rec(0, 0) {
			return
		}
	}
}

func numTables(maxRows int) int64 {
	var n int64
	forEachTable(maxRows, func(int64, []RowT) bool { n++; return true })
	return n
}

func sqlInt(x int) string {
	if x == null {
		return "NULL"
	}
	return fmt.Sprint(x)
}

// ---------------------------------------------------------------------------------------------
// query space: one Col = one select-list expression (an aggregate in a grouped query, or a
// window expression).

// Bound kinds.
const (
	bUP = "UP" // UNBOUNDED PRECEDING
	bP  = "P"  // n PRECEDING
	bCR = "CR" // CURRENT ROW
	bF  = "F"  // n FOLLOWING
	bUF = "UF" // UNBOUNDED FOLLOWING
)

type Bound struct {
	Kind string `json:"kind"`
	N    int    `json:"n,omitempty"`
}

func (b Bound) sql() string {
	switch b.Kind {
	case bUP:
		return "UNBOUNDED PRECEDING"
	case bP:
		return fmt.Sprintf("%d PRECEDING", b.N)
	case bCR:
		return "CURRENT ROW"
	case bF:
		return fmt.Sprintf("%d FOLLOWING", b.N)
	case bUF:
		return "UNBOUNDED FOLLOWING"
	}
	panic("bad bound " + b.Kind)
}

func (b Bound) short() string {
	if b.Kind == bP || b.Kind == bF {
		return fmt.Sprintf("%d%s", b.N, b.Kind)
	}
	return b.Kind
}

// Frame is an explicit frame clause. End == nil is the short form (`ROWS 1 PRECEDING`), whose end
// is CURRENT ROW by definition.
type Frame struct {
	Unit  string `json:"unit"` // ROWS | RANGE
	Start Bound  `json:"start"`
	End   *Bound `json:"end,omitempty"`
}

func (f *Frame) sql() string {
	if f.End == nil {
		return f.Unit + " " + f.Start.sql()
	}
	return f.Unit + " BETWEEN " + f.Start.sql() + " AND " + f.End.sql()
}

func (f *Frame) end() Bound {
	if f.End == nil {
		return Bound{Kind: bCR}
	}
	return *f.End
}

func (f *Frame) String() string {
	if f == nil {
		return "default"
	}
	if f.End == nil {
		return f.Unit + ":" + f.Start.short()
	}
	return f.Unit + ":" + f.Start.short() + ".." + f.End.short()
}

// class is the frame class used in signatures: unit and bound kinds, a zero offset is marked
// (0 PRECEDING / 0 FOLLOWING are the classic boundary values), other offsets are not.
func (f *Frame) class() string {
	if f == nil {
		return "default"
	}
	bc := func(b Bound) string {
		if (b.Kind == bP || b.Kind == bF) && b.N == 0 {
			return "0" + b.Kind
		}
		if b.Kind == bP || b.Kind == bF {
			return "n" + b.Kind
		}
		return b.Kind
	}
	if f.End == nil {
		return f.Unit + ":" + bc(f.Start) + "(short)"
	}
	return f.Unit + ":" + bc(f.Start) + ".." + bc(*f.End)
}

func (f *Frame) hasOffset() bool {
	if f == nil {
		return false
	}
	e := f.end()
	return f.Start.Kind == bP || f.Start.Kind == bF || e.Kind == bP || e.Kind == bF
}

// validFrame applies the standard's / MySQL's static frame rules: the start may not be UNBOUNDED
// FOLLOWING, the end may not be UNBOUNDED PRECEDING, and the start bound kind may not come after
// the end bound kind (CURRENT ROW..n PRECEDING, n FOLLOWING..CURRENT ROW, n FOLLOWING..n PRECEDING
// are errors in MySQL; n PRECEDING..m PRECEDING with n<m is legal and denotes an empty frame).
func validFrame(s, e Bound) bool {
	rank := map[string]int{bUP: 0, bP: 1, bCR: 2, bF: 3, bUF: 4}
	if s.Kind == bUF || e.Kind == bUP {
		return false
	}
	return rank[s.Kind] <= rank[e.Kind]
}

func allBounds() []Bound {
	out := []Bound{{Kind: bUP}}
	for n := 0; n <= 2; n++ {
		out = append(out, Bound{Kind: bP, N: n})
	}
	out = append(out, Bound{Kind: bCR})
	for n := 0; n <= 2; n++ {
		out = append(out, Bound{Kind: bF, N: n})
	}
	return append(out, Bound{Kind: bUF})
}

// allFrames lists every valid explicit frame of a unit: {UP, nP, CR, nF, UF}^2 with n in 0..2
// (49 valid pairs) plus the 5 short forms.
func allFrames(unit string) []*Frame {
	var out []*Frame
	bs := allBounds()
	for _, s := range bs {
		for _, e := range bs {
			if validFrame(s, e) {
				e := e
				out = append(out, &Frame{Unit: unit, Start: s, End: &e})
			}
		}
	}
	for _, s := range bs {
		if validFrame(s, Bound{Kind: bCR}) {
			out = append(out, &Frame{Unit: unit, Start: s})
		}
	}
	return out
}

// Orderings (window ORDER BY). "k" / "kd" leave ties; the others are total (id is unique).
const (
	oNone = ""
	oK    = "k"
	oKd   = "kd"
	oKI   = "k,id"
	oKdI  = "kd,id"
	oKId  = "k,idd"
	oKdId = "kd,idd"
	oI    = "id"
	oV    = "v"  // only inside GROUP_CONCAT
	oVd   = "vd" // only inside GROUP_CONCAT
)

func ordSQL(o string) string {
	if o == "" {
		return ""
	}
	var parts []string
	for _, p := range strings.Split(o, ",") {
		switch p {
		case "k":
			parts = append(parts, "k")
		case "kd":
			parts = append(parts, "k DESC")
		case "id":
			parts = append(parts, "id")
		case "idd":
			parts = append(parts, "id DESC")
		case "v":
			parts = append(parts, "v")
		case "vd":
			parts = append(parts, "v DESC")
		default:
			panic("bad ordering " + o)
		}
	}
	return "ORDER BY " + strings.Join(parts, ", ")
}

func ordTotal(o string) bool { return strings.Contains(o, "id") }

// Col is one select-list expression.
type Col struct {
	Mode string `json:"mode"` // "window" | "group"
	Fn   string `json:"fn"`   // function key, see fnSQL
	Arg  string `json:"arg,omitempty"`

	// LAG/LEAD
	Off    int  `json:"off,omitempty"`
	HasOff bool `json:"has_off,omitempty"`
	Def    *int `json:"def,omitempty"`
	// NTILE / NTH_VALUE
	N int `json:"n,omitempty"`
	// GROUP_CONCAT
	Distinct bool    `json:"distinct,omitempty"`
	InOrd    string  `json:"in_ord,omitempty"`
	Sep      *string `json:"sep,omitempty"`

	// window
	Part  bool   `json:"part,omitempty"` // PARTITION BY g
	Ord   string `json:"ord,omitempty"`
	Frame *Frame `json:"frame,omitempty"`

	wkey string // cached windowKey
}

func (c *Col) call() string {
	arg := c.Arg
	if arg == "" {
		arg = "v"
	}
	switch c.Fn {
	case "COUNT*":
		return "COUNT(*)"
	case "COUNTD":
		return "COUNT(DISTINCT " + arg + ")"
	case "COUNTD2":
		return "COUNT(DISTINCT k, v)"
	case "SUMD":
		return "SUM(DISTINCT " + arg + ")"
	case "AVGD":
		return "AVG(DISTINCT " + arg + ")"
	case "ROW_NUMBER", "RANK", "DENSE_RANK", "PERCENT_RANK", "CUME_DIST":
		return c.Fn + "()"
	case "NTILE":
		return fmt.Sprintf("NTILE(%d)", c.N)
	case "NTH_VALUE":
		return fmt.Sprintf("NTH_VALUE(%s, %d)", arg, c.N)
	case "LAG", "LEAD":
		s := c.Fn + "(" + arg
		if c.HasOff {
			s += fmt.Sprintf(", %d", c.Off)
			if c.Def != nil {
				s += fmt.Sprintf(", %d", *c.Def)
			}
		}
		return s + ")"
	case "JSON_OBJECTAGG":
		key := "id"
		if c.Arg == "k" {
			key = "k"
		}
		return "JSON_OBJECTAGG(" + key + ", v)"
	case "GROUP_CONCAT", "GROUP_CONCAT2":
		s := "GROUP_CONCAT("
		if c.Distinct {
			s += "DISTINCT "
		}
		if c.Fn == "GROUP_CONCAT2" {
			s += "k, v"
		} else {
			s += arg
		}
		if c.InOrd != "" {
			s += " " + ordSQL(c.InOrd)
		}
		if c.Sep != nil {
			s += " SEPARATOR '" + *c.Sep + "'"
		}
		return s + ")"
	}
	return c.Fn + "(" + arg + ")"
}

func (c *Col) over() string {
	var parts []string
	if c.Part {
		parts = append(parts, "PARTITION BY g")
	}
	if c.Ord != "" {
		parts = append(parts, ordSQL(c.Ord))
	}
	if c.Frame != nil {
		parts = append(parts, c.Frame.sql())
	}
	return "OVER (" + strings.Join(parts, " ") + ")"
}

// SQL renders the select-list expression.
func (c *Col) SQL() string {
	if c.Mode == "group" {
		return c.call()
	}
	return c.call() + " " + c.over()
}

// fnLabel is the function coordinate of signatures (variant details that select a different
// engine code path are part of it; concrete offsets are not).
func (c *Col) fnLabel() string {
	switch c.Fn {
	case "LAG", "LEAD":
		s := c.Fn
		if c.Def != nil {
			s += "+default"
		}
		return s
	case "GROUP_CONCAT2":
		return "GROUP_CONCAT(several expressions)"
	case "GROUP_CONCAT":
		s := c.Fn
		if c.Distinct {
			s += "+DISTINCT"
		}
		if c.InOrd != "" {
			s += "+ORDER"
		}
		if c.Sep != nil {
			s += "+SEPARATOR"
		}
		return s
	case "JSON_OBJECTAGG":
		if c.Arg == "k" {
			return "JSON_OBJECTAGG(k)"
		}
	}
	return c.Fn
}

func (c *Col) ordClass() string {
	switch {
	case c.Mode == "group":
		return "-"
	case c.Ord == "":
		return "none"
	case ordTotal(c.Ord):
		if strings.HasPrefix(c.Ord, "kd") {
			return "total-desc"
		}
		return "total"
	case c.Ord == oKd:
		return "ties-desc"
	}
	return "ties"
}

// windowClass is the coarse window coordinate of value signatures.
func (c *Col) windowClass() string {
	switch {
	case c.Frame != nil:
		return c.Frame.Unit
	case c.Ord == "":
		return "default-frame-no-order-by"
	case ordTotal(c.Ord):
		return "default-frame-total-order"
	}
	return "default-frame-order-with-ties"
}

// selectsRow: the function returns the argument of one selected row.
func (c *Col) selectsRow() bool {
	switch c.Fn {
	case "FIRST_VALUE", "LAST_VALUE", "NTH_VALUE", "LAG", "LEAD", "ANY_VALUE":
		return true
	}
	return false
}

// key identifies a column inside the run (also the plan column cache key).
func (c *Col) key() string { return c.Mode + "|" + c.SQL() }

// windowKey identifies the window (partition, ordering, frame) of a column.
func (c *Col) windowKey() string {
	if c.wkey == "" {
		c.wkey = fmt.Sprintf("%v|%s|%s", c.Part, c.Ord, c.Frame.String())
	}
	return c.wkey
}

// orderSensitive: the value depends on the relative order of rows that the ordering leaves tied.
func (c *Col) orderSensitive() bool {
	switch c.Fn {
	case "ROW_NUMBER", "NTILE", "LAG", "LEAD", "FIRST_VALUE", "LAST_VALUE", "NTH_VALUE", "JSON_ARRAYAGG", "GROUP_CONCAT", "GROUP_CONCAT2", "ANY_VALUE", "JSON_OBJECTAGG":
		return true
	}
	// ROWS frames select rows by position
	return c.Frame != nil && c.Frame.Unit == "ROWS"
}

// usesFrame: functions whose value is computed over the window frame. All others operate on the
// whole partition and ignore a frame clause (MySQL manual, "Window Function Frame Specification").
func (c *Col) usesFrame() bool {
	switch c.Fn {
	case "ROW_NUMBER", "RANK", "DENSE_RANK", "PERCENT_RANK", "CUME_DIST", "NTILE", "LAG", "LEAD":
		return false
	}
	return true
}

func ip(x int) *int       { return &x }
func sp(s string) *string { return &s }
