package c08

import (
	"context"
	"fmt"
	"math"
	"math/big"
	"sort"
	"strings"

	"github.com/cockroachdb/apd/v3"
	"github.com/dolthub/go-mysql-server/sql"
)

// Val is a value of the reference side or a normalised engine value.
type Val struct {
	K kind
	I int64    // kInt
	U uint64   // kUint
	R *big.Rat // kRat (exact) ; kSqrt: the radicand
	F float64  // kFloat (engine side only)
	S string   // kStr, kOther
	L []Val    // kList: JSON array ; kObj: values aligned with Keys
	Keys []string
}

type kind uint8

const (
	kNull kind = iota
	kInt
	kUint
	kRat   // exact rational; compared with tolerance against floats (AVG / VAR family, PERCENT_RANK)
	kSqrt  // square root of the exact rational R (STD family); compared with tolerance
	kFloat // engine float64
	kStr
	kList
	kObj
	kOther // engine value of an unexpected Go type / NaN / Inf (never equal to anything)
)

var vNull = Val{K: kNull}

func vInt(i int64) Val { return Val{K: kInt, I: i} }
func vIntOrNull(x int) Val {
	if x == null {
		return vNull
	}
	return vInt(int64(x))
}

func (v Val) String() string {
	switch v.K {
	case kNull:
		return "NULL"
	case kInt:
		return fmt.Sprint(v.I)
	case kUint:
		return fmt.Sprint(v.U)
	case kRat:
		if v.R.IsInt() {
			return v.R.Num().String()
		}
		f, _ := v.R.Float64()
		return fmt.Sprintf("%s(=%.12g)", v.R.String(), f)
	case kSqrt:
		f, _ := v.R.Float64()
		return fmt.Sprintf("sqrt(%s)(=%.12g)", v.R.String(), math.Sqrt(f))
	case kFloat:
		return fmt.Sprintf("%.15g", v.F)
	case kStr:
		return "'" + v.S + "'"
	case kList:
		parts := make([]string, len(v.L))
		for i, x := range v.L {
			parts[i] = x.jsonString()
		}
		return "[" + strings.Join(parts, ", ") + "]"
	case kObj:
		parts := make([]string, len(v.L))
		for i, x := range v.L {
			parts[i] = fmt.Sprintf("%q: %s", v.Keys[i], x.jsonString())
		}
		return "{" + strings.Join(parts, ", ") + "}"
	}
	return "?" + v.S
}

func (v Val) jsonString() string {
	if v.K == kNull {
		return "null"
	}
	return v.String()
}

func valsString(vs []Val) string {
	parts := make([]string, len(vs))
	for i, v := range vs {
		parts[i] = v.String()
	}
	return "(" + strings.Join(parts, ",") + ")"
}

// norm converts an engine value to a Val.
func norm(x interface{}) Val {
	switch t := x.(type) {
	case nil:
		return vNull
	case int:
		return vInt(int64(t))
	case int8:
		return vInt(int64(t))
	case int16:
		return vInt(int64(t))
	case int32:
		return vInt(int64(t))
	case int64:
		return vInt(t)
	case uint8:
		return vInt(int64(t))
	case uint16:
		return vInt(int64(t))
	case uint32:
		return vInt(int64(t))
	case uint:
		return normUint(uint64(t))
	case uint64:
		return normUint(t)
	case bool:
		if t {
			return vInt(1)
		}
		return vInt(0)
	case float32:
		return normFloat(float64(t))
	case float64:
		return normFloat(t)
	case *apd.Decimal:
		if t == nil {
			return vNull
		}
		return normDecimalText(t.Text('f'))
	case apd.Decimal:
		return normDecimalText(t.Text('f'))
	case string:
		return Val{K: kStr, S: t}
	case []byte:
		return Val{K: kStr, S: string(t)}
	case []interface{}:
		l := make([]Val, len(t))
		for i, e := range t {
			l[i] = norm(e)
		}
		return Val{K: kList, L: l}
	case map[string]interface{}:
		keys := make([]string, 0, len(t))
		for k := range t {
			keys = append(keys, k)
		}
		sort.Strings(keys)
		l := make([]Val, len(keys))
		for i, k := range keys {
			l[i] = norm(t[k])
		}
		return Val{K: kObj, L: l, Keys: keys}
	case sql.JSONWrapper:
		i, err := t.ToInterface(context.Background())
		if err != nil {
			return Val{K: kOther, S: "json:" + err.Error()}
		}
		if i == nil {
			return Val{K: kOther, S: "json-null-document"}
		}
		return norm(i)
	case sql.StringWrapper:
		s, err := t.Unwrap(context.Background())
		if err != nil {
			return Val{K: kOther, S: "wrap:" + err.Error()}
		}
		return Val{K: kStr, S: s}
	case fmt.Stringer:
		// decimal.Decimal and friends
		return normDecimalText(t.String())
	}
	return Val{K: kOther, S: fmt.Sprintf("%T:%v", x, x)}
}

func normUint(u uint64) Val {
	if u <= math.MaxInt64 {
		return vInt(int64(u))
	}
	return Val{K: kUint, U: u}
}

func normFloat(f float64) Val {
	if math.IsNaN(f) || math.IsInf(f, 0) {
		return Val{K: kOther, S: fmt.Sprint(f)}
	}
	if f == math.Trunc(f) && math.Abs(f) < 1e15 {
		return vInt(int64(f))
	}
	return Val{K: kFloat, F: f}
}

func normDecimalText(s string) Val {
	r, ok := new(big.Rat).SetString(s)
	if !ok {
		return Val{K: kOther, S: "decimal:" + s}
	}
	if r.IsInt() && r.Num().IsInt64() {
		return vInt(r.Num().Int64())
	}
	return Val{K: kRat, R: r}
}

const relTol = 1e-9

func approxEq(a, b float64) bool {
	d := math.Abs(a - b)
	m := math.Max(math.Abs(a), math.Abs(b))
	return d <= relTol*math.Max(1, m)
}

// asFloat gives the float64 nearest to a numeric Val.
func (v Val) asFloat() (float64, bool) {
	switch v.K {
	case kInt:
		return float64(v.I), true
	case kUint:
		return float64(v.U), true
	case kFloat:
		return v.F, true
	case kRat:
		f, _ := v.R.Float64()
		return f, true
	case kSqrt:
		f, _ := v.R.Float64()
		return math.Sqrt(f), true
	}
	return 0, false
}

// match reports whether the engine value got is the expected value. Integers, strings, JSON
// values and NULL are compared exactly; expectations of kind kRat / kSqrt (AVG, the variance and
// standard deviation family, PERCENT_RANK, CUME_DIST) are compared numerically with a relative
// tolerance of 1e-9, because the engine computes them in binary floating point.
func match(exp, got Val) bool {
	switch exp.K {
	case kNull:
		return got.K == kNull
	case kInt:
		return got.K == kInt && got.I == exp.I
	case kUint:
		return got.K == kUint && got.U == exp.U
	case kStr:
		return got.K == kStr && got.S == exp.S
	case kRat, kSqrt:
		g, ok := got.asFloat()
		if !ok {
			return false
		}
		e, _ := exp.asFloat()
		return approxEq(e, g)
	case kList:
		if got.K != kList || len(got.L) != len(exp.L) {
			return false
		}
		for i := range exp.L {
			if !match(exp.L[i], got.L[i]) {
				return false
			}
		}
		return true
	case kObj:
		if got.K != kObj || len(got.L) != len(exp.L) {
			return false
		}
		for i := range exp.L {
			if exp.Keys[i] != got.Keys[i] || !match(exp.L[i], got.L[i]) {
				return false
			}
		}
		return true
	}
	return false
}
