// Package c09 — result values conform to the result schema.
//
// Every query of the grammar Q(2) plus a list of typed select-list expression queries (arithmetic,
// CASE/COALESCE, aggregates, unions of differently typed branches, outer joins of NOT NULL
// columns) is run on every database of the family; every value of every returned row is checked
// against the schema the engine returned for that statement.
package c09

import (
	"context"
	"encoding/json"
	"fmt"
	"reflect"
	"strings"

	"github.com/dolthub/go-mysql-server/sql"

	"verif/mc/core"
	"verif/mc/eng"
	"verif/mc/qgen"
	"verif/mc/qrun"
)

// extra statements (text only): %s are not used; tables t,u,v(a,b).
var extra = []string{
	"SELECT t.a + t.b AS e FROM t",
	"SELECT t.a * t.b, t.a - t.b, -t.a FROM t",
	"SELECT t.a / t.b AS e FROM t",
	"SELECT t.a DIV t.b, t.a % t.b FROM t",
	// constant divisors, zero and non-zero, under a dividend that cannot be NULL
	"SELECT t.a % 0, t.a DIV 0, t.a / 0, MOD(t.a, 0), t.a % 2, COALESCE(t.b, 1) % 0, COALESCE(t.b, 1) % 0.0, COALESCE(t.b, 1) % '0', COALESCE(t.b, 1) DIV 0, COALESCE(t.b, 1) / 0, COALESCE(t.b, 1) % 2, COALESCE(t.b, 1) DIV 2 FROM t",
	"SELECT t.a + 0.5, t.a * 1e0, t.a + '1' FROM t",
	"SELECT CASE WHEN t.a > 1 THEN t.b ELSE 'x' END AS e FROM t",
	"SELECT CASE WHEN t.a > 1 THEN t.b ELSE 1.5 END AS e FROM t",
	"SELECT CASE WHEN t.a > 1 THEN t.b END AS e FROM t",
	"SELECT COALESCE(t.a, t.b), IFNULL(t.a, 'n'), NULLIF(t.a, t.b), IF(t.a, t.b, 'z') FROM t",
	"SELECT COALESCE(t.a, 0) AS e FROM t",
	"SELECT t.a = t.b, t.a <=> t.b, t.a IS NULL, NOT t.a, t.a AND t.b, t.a IN (1, NULL) FROM t",
	"SELECT COUNT(*), COUNT(t.b), SUM(t.b), AVG(t.b), MIN(t.b), MAX(t.b) FROM t",
	"SELECT t.a, COUNT(*), SUM(t.b), AVG(t.b), MIN(t.b), MAX(t.b), GROUP_CONCAT(t.b) FROM t GROUP BY t.a",
	"SELECT SUM(t.a + 0.5), AVG(t.a * 1.0), BIT_OR(t.a), STD(t.b) FROM t",
	"SELECT t.a FROM t UNION SELECT u.b + 0.5 FROM u",
	"SELECT t.a FROM t UNION ALL SELECT 'x' FROM u",
	"SELECT t.a, t.b FROM t UNION SELECT u.b, NULL FROM u",
	"SELECT NULL AS e FROM t UNION SELECT u.a FROM u",
	"SELECT t.a FROM t UNION SELECT CAST(u.a AS UNSIGNED) FROM u",
	"SELECT t.a FROM t UNION SELECT CAST(u.a AS CHAR) FROM u",
	"SELECT t.a FROM t INTERSECT SELECT u.a + 0.0 FROM u",
	"SELECT t.a FROM t EXCEPT SELECT CAST(u.b AS DECIMAL(5,2)) FROM u",
	"SELECT * FROM t LEFT JOIN u ON t.a = u.a",
	"SELECT * FROM t RIGHT JOIN u ON t.a = u.a",
	"SELECT u.a, u.b FROM t LEFT JOIN u ON t.b = u.a",
	"SELECT u.a + 1, COALESCE(u.a, 0), u.a IS NULL FROM t LEFT JOIN u ON t.b = u.a",
	"SELECT t.a, (SELECT MAX(u.a) FROM u WHERE u.b = t.b) AS e FROM t",
	"SELECT t.a, (SELECT u.a FROM u WHERE u.a = t.a LIMIT 1) AS e FROM t",
	"SELECT t.a, EXISTS (SELECT 1 FROM u WHERE u.a = t.a), t.a IN (SELECT u.b FROM u) FROM t",
	"SELECT CAST(t.a AS CHAR), CAST(t.a AS DECIMAL(3,1)), CAST(t.a AS UNSIGNED), CAST(t.b AS SIGNED), CAST(t.a AS DOUBLE), CAST(t.a AS DATE), CAST(t.a AS JSON) FROM t",
	"SELECT CONCAT(t.a, t.b), LENGTH(t.a), ABS(t.a - 2), ROUND(t.a / 2), FLOOR(t.a / 2), POW(t.a, 2), SQRT(t.a), GREATEST(t.a, t.b), LEAST(t.a, 1.5) FROM t",
	"SELECT ROW_NUMBER() OVER (ORDER BY t.a, t.b), RANK() OVER (ORDER BY t.a), SUM(t.b) OVER (PARTITION BY t.a), LAG(t.b) OVER (ORDER BY t.a, t.b), FIRST_VALUE(t.b) OVER (ORDER BY t.a, t.b) FROM t",
	"SELECT DISTINCT t.a + t.b FROM t",
	"SELECT x.a, x.c FROM (SELECT t.a AS a, COUNT(*) AS c FROM t GROUP BY t.a) x",
	"WITH c AS (SELECT t.a AS a, t.b + 1 AS b1 FROM t) SELECT * FROM c",
	"SELECT DATE_ADD('2020-01-01', INTERVAL t.a DAY), DATEDIFF('2020-01-03', '2020-01-01') + t.a, YEAR('2020-01-01') * t.a FROM t",
	"SELECT JSON_OBJECT('k', t.a), JSON_ARRAY(t.a, t.b), JSON_EXTRACT(JSON_OBJECT('k', t.a), '$.k') FROM t",
	"SELECT t.a | t.b, t.a & 1, t.a << 1, ~t.a, t.a XOR t.b FROM t",
	"SELECT -t.a, -(t.a + 0.5), -CAST(t.a AS UNSIGNED) FROM t",
	"SELECT 1, 1.5, 1e0, 'a', NULL, TRUE, X'41', 0x41, b'1', DATE '2020-01-01', 18446744073709551615, -9223372036854775808 FROM t",
}

type issue struct {
	clause, kind, obs, exp string
	extra                  map[string]string
	col                    int
}

func checkResult(res *eng.Result) (out *issue) {
	colIdx := -1
	defer func() {
		if out != nil {
			out.col = colIdx
		}
	}()
	ctx := sql.NewContext(context.Background())
	for _, row := range res.Rows {
		if len(row) != len(res.Schema) {
			return &issue{"schema-conformance", "row-width", fmt.Sprintf("row has %d values", len(row)), fmt.Sprintf("schema has %d columns", len(res.Schema)), nil, -1}
		}
		for i, v := range row {
			col := res.Schema[i]
			tname := strings.ToLower(col.Type.String())
			if j := strings.Index(tname, "("); j > 0 {
				tname = tname[:j]
			}
			ex := map[string]string{"coltype": tname, "expr": col.Name}
			colIdx = i
			if v == nil {
				if !col.Nullable {
					return &issue{"schema-conformance", "null-in-not-null-column", fmt.Sprintf("column %d (%s %s) holds NULL", i, col.Name, col.Type), "schema says NOT NULL", ex, -1}
				}
				continue
			}
			ex["gotype"] = reflect.TypeOf(v).String()
			var conv any
			var inRange sql.ConvertInRange
			var err error
			if pv, _ := core.Try(func() { conv, inRange, err = col.Type.Convert(ctx, v) }); pv != nil {
				return &issue{"schema-conformance", "convert-panics", fmt.Sprintf("column %d (%s): Convert(%T %v) panics: %v", i, col.Type, v, v, pv), "", ex, -1}
			}
			if err != nil {
				return &issue{"schema-conformance", "value-not-convertible", fmt.Sprintf("column %d (%s): Convert(%T %s): %v", i, col.Type, v, eng.FormatValue(v), err), "a value of the column type", ex, -1}
			}
			if inRange != sql.InRange {
				return &issue{"schema-conformance", "value-out-of-range", fmt.Sprintf("column %d (%s): value %T %s is out of the type's range", i, col.Type, v, eng.FormatValue(v)), "a value of the column type", ex, -1}
			}
			var cmp int
			if pv, _ := core.Try(func() { cmp, err = col.Type.Compare(ctx, conv, v) }); pv == nil && err == nil && cmp != 0 {
				return &issue{"schema-conformance", "convert-changes-value", fmt.Sprintf("column %d (%s): %T %s converts to %s", i, col.Type, v, eng.FormatValue(v), eng.FormatValue(conv)), "the same value", ex, -1}
			}
			if pv, _ := core.Try(func() { _, err = col.Type.SQL(ctx, nil, v) }); pv != nil {
				return &issue{"schema-conformance", "sql-panics", fmt.Sprintf("column %d (%s): SQL(%T %v) panics: %v", i, col.Type, v, v, pv), "", ex, -1}
			}
			if err != nil {
				return &issue{"schema-conformance", "sql-fails", fmt.Sprintf("column %d (%s): SQL(%T %s): %v", i, col.Type, v, eng.FormatValue(v), err), "wire-encodable", ex, -1}
			}
		}
	}
	return nil
}

func exprClass(e string) string {
	up := strings.ToUpper(e)
	if strings.Contains(up, "OVER (") || strings.Contains(up, "OVER(") {
		return "window"
	}
	for _, f := range []string{"SUM(", "AVG(", "MIN(", "MAX(", "COUNT(", "STD(", "STDDEV", "VARIANCE(", "VAR_", "BIT_OR(", "BIT_AND(", "BIT_XOR(", "GROUP_CONCAT(", "ANY_VALUE(", "JSON_ARRAYAGG(", "JSON_OBJECTAGG("} {
		if strings.Contains(up, f) {
			return "aggregate"
		}
	}
	return "scalar"
}

func classify(iss *issue, sqlText string) {
	if iss == nil || iss.extra == nil {
		return
	}
	iss.extra["exprclass"] = exprClass(iss.extra["expr"])
	up := strings.ToUpper(sqlText)
	iss.extra["outer_join"] = "no"
	if strings.Contains(up, "LEFT JOIN") || strings.Contains(up, "RIGHT JOIN") {
		iss.extra["outer_join"] = "yes"
	}
}

func oracleSQL(l *qrun.Loaded, sqlText string) (iss *issue, skip bool, nt bool) {
	defer func() { classify(iss, sqlText) }()
	res := l.Sess.Exec(sqlText)
	if res.Panic != nil {
		return &issue{"schema-conformance", "panic", fmt.Sprint(res.Panic), "", map[string]string{"frame": core.TopFrame(res.Stack)}, -1}, false, true
	}
	if res.Err != nil {
		return nil, true, false
	}
	for _, c := range res.Schema {
		if _, bare := c.Source, true; bare && c.Source == "" {
			nt = true // at least one column is an expression, not a bare table column
		}
	}
	nt = nt && len(res.Rows) > 0
	return checkResult(res), false, nt
}

func oracle(c qrun.Case) (*qrun.Failure, bool, bool) {
	iss, skip, nt := oracleSQL(c.DB, c.G.SQL())
	if skip || iss == nil {
		return nil, skip, nt
	}
	// name the failing column by its defining expression rather than by its alias
	if !c.G.Q.Star && iss.col >= 0 && iss.col < len(c.G.Q.Select) && iss.extra != nil {
		iss.extra["expr"] = c.G.Q.Select[iss.col].E.SQL()
		classify(iss, c.G.SQL())
	}
	return &qrun.Failure{Clause: iss.clause, Kind: iss.kind, Observed: iss.obs, Expected: iss.exp, Extra: iss.extra}, false, nt
}

func subjectOf(c qrun.Case, f *qrun.Failure) map[string]string {
	subj := map[string]string{}
	for k, v := range f.Extra {
		subj[k] = v
	}
	return subj
}

type xcase struct {
	SQL  string      `json:"sql"`
	Spec qgen.DBSpec `json:"spec"`
}

func stmtClass(q string) string {
	// classify by the first distinguishing keyword set (for signatures)
	up := strings.ToUpper(q)
	for _, k := range []string{"UNION", "INTERSECT", "EXCEPT", "LEFT JOIN", "RIGHT JOIN", "OVER (", "GROUP BY", "CASE", "CAST(", "WITH "} {
		if strings.Contains(up, k) {
			return strings.ToLower(strings.Trim(k, " ("))
		}
	}
	return "expr"
}

func init() {
	core.Register(&core.Prop{
		ID:    "C09",
		Level: "exploration",
		Rule: "every query of Q(2) (quick: representative alternatives for combined slots) plus 40 typed select-list statements (arithmetic, CASE/COALESCE with mixed branch types, aggregates, window functions, set operations of differently typed branches, outer joins of NOT NULL primary-key columns, casts, literals of every kind) on every database of the family; " +
			"oracle per returned value: NULL only in a column the result schema declares nullable; otherwise the column type's Convert accepts it in range without changing it (Compare = 0) and the type's SQL() wire encoding succeeds; non-trivial = the statement returns rows and at least one column is an expression (no source table)",
		Assumptions: []string{"the Go representation type itself is not compared (the handler converts through Type.SQL); only convertibility, range and value preservation are"},
		QuickBudget: 75, ThoroughBudget: 1200,
		Run: func(r *core.Run) {
			cfg := qrun.Config{Depth: 2, Rep: true, MaxTables: 3, DBLevelSingle: 0, DBLevelMulti: -2, Oracle: oracle, Subject: subjectOf}
			lvl := 0
			if r.Thorough() {
				cfg = qrun.Config{Depth: 2, Rep: false, MaxTables: 3, DBLevelSingle: 1, DBLevelMulti: 0, Oracle: oracle, Subject: subjectOf}
				lvl = 1
			}
			// part 2 first (small): typed expression statements
			idx := int64(0)
			for _, sp := range qgen.Databases(lvl) {
				var l *qrun.Loaded
				for _, q := range extra {
					idx++
					if !r.Mine(idx) {
						continue
					}
					if l == nil {
						l = qrun.Load(sp)
					}
					r.Eval()
					iss, skip, nt := oracleSQL(l, q)
					if skip {
						r.Count("skipped_rejected", 1)
						continue
					}
					if nt {
						r.NonTrivial(q + "|" + sp.Name())
						r.Outcome("typed:" + stmtClass(q))
						if r.WantSample() {
							r.Sample(map[string]any{"sql": q, "db": sp.Name()})
						}
					}
					if iss != nil {
						subj := map[string]string{}
						for k, v := range iss.extra {
							subj[k] = v
						}
						r.Violate(core.Violation{Check: "typed-statements", Clause: iss.clause, Kind: iss.kind, Subject: subj, Witness: core.J(xcase{SQL: q, Spec: sp}), Observed: iss.obs, Expected: iss.exp})
					}
				}
			}
			qrun.Run(r, cfg)
		},
		Replay: func(r *core.Run, w json.RawMessage) {
			var x xcase
			if json.Unmarshal(w, &x) == nil && x.SQL != "" && x.Spec.Layout != "" {
				iss, skip, _ := oracleSQL(qrun.Load(x.Spec), x.SQL)
				if !skip && iss != nil {
					subj := map[string]string{}
					for k, v := range iss.extra {
						subj[k] = v
					}
					r.Violate(core.Violation{Check: "typed-statements", Clause: iss.clause, Kind: iss.kind, Subject: subj, Witness: w, Observed: iss.obs, Expected: iss.exp})
				}
				return
			}
			var wit qrun.Witness
			if json.Unmarshal(w, &wit) != nil {
				return
			}
			g, ok := qrun.FindQuery(wit, 2, 3)
			if !ok {
				return
			}
			c := qrun.Case{G: g, DB: qrun.Load(wit.Spec)}
			if f, skip, _ := oracle(c); !skip && f != nil {
				r.Violate(core.Violation{Clause: f.Clause, Kind: f.Kind, Subject: subjectOf(c, f), Witness: w, Observed: f.Observed, Expected: f.Expected})
			}
		},
	})
}
