// Package c10 decides property C10 (no SQL input crashes the engine) by bounded-exhaustive
// enumeration of statement texts run through the real Engine.Query.
package c10

import (
	"encoding/json"
	"fmt"
	"os"
	"runtime/debug"
	"sort"
	"strings"
	"syscall"
	"time"

	"verif/mc/core"
)

// witness identifies one case: the space it came from and the statement text (with ${long}
// standing for the 70 000-byte string body). Fixture is implied by the space.
type witness struct {
	Space string   `json:"space"`         // func | charset | collation | tokens | mutate
	Pre   []string `json:"pre,omitempty"` // session set-up statements run first on the same (fresh) session
	SQL   string   `json:"sql"`
	Desc  string   `json:"desc,omitempty"` // how the case was generated (function/args, mutation)
}

func fixtureOf(space string) string {
	if space == "mutate" {
		return "full"
	}
	return "light"
}

const (
	caseLimit = 30 * time.Second // watchdog per case; exceeding it is recorded, never a violation
	slowMark  = 2 * time.Second  // cases slower than this are listed in the evidence
)

type slowCase struct {
	SQL string  `json:"sql"`
	Sec float64 `json:"sec"`
}

type checker struct {
	r    *core.Run
	slow []slowCase
	// token space only: the session is shared between cases and a parse error never reaches the
	// engine, so the SELECT 1 probe after parse errors is batched: the probe runs once after at
	// most 64 consecutive parse errors of this worker (and immediately after any other error).
	// If it fails, the pending cases are re-run one by one, each on a fresh engine with its own
	// probe, to attribute the failure.
	batchParse bool
	pending    []witness
}

const parseBatch = 64

// judge applies the oracle to one executed case. Returns true when the case was non-trivial
// (got past the parser and argument-count checks: reached binding, analysis or execution).
func (c *checker) judge(x *runner, w witness, o outcome) bool {
	r := c.r
	if o.Elapsed > slowMark {
		c.slow = append(c.slow, slowCase{SQL: clip(w.SQL, 200), Sec: o.Elapsed.Seconds()})
	}
	cls := o.class()
	switch {
	case o.TimedOut:
		r.Count("abandoned_slow", 1)
		r.Note("abandoned after watchdog (not judged): " + clip(w.SQL, 300))
		r.Capped("cases abandoned by the per-case watchdog are not judged")
		r.Outcome(w.Space + "/" + cls)
		return false
	case o.Panic != nil:
		frame := panicFrame(o.Stack)
		r.Outcome("panic@" + frame)
		r.Violate(core.Violation{
			Check: "query", Clause: "no-panic", Kind: "panic",
			Subject:  map[string]string{"frame": frame},
			Witness:  core.J(w),
			Observed: fmt.Sprintf("panic: %v\n%s", o.Panic, stackHead(o.Stack, 12)),
			Expected: "rows or an error",
		})
		x.e = nil // do not trust an engine that panicked
		return true
	case o.NoResult:
		r.Outcome(w.Space + "/" + cls)
		r.Violate(core.Violation{
			Check: "query", Clause: "rows-or-error", Kind: "no-result",
			Subject: map[string]string{"space": w.Space}, Witness: core.J(w),
			Observed: "Engine.Query returned a nil iterator and a nil error", Expected: "rows or an error",
		})
		return true
	}
	r.Outcome(w.Space + "/" + cls)
	if o.Err != nil {
		if c.batchParse && errClass(o.Err) == "parse" {
			c.pending = append(c.pending, w)
			if len(c.pending) >= parseBatch {
				c.flush(x)
			}
			return false
		}
		if len(c.pending) > 0 {
			c.flush(x)
		}
		if ok, obs := x.selectOne(); !ok {
			r.Violate(core.Violation{
				Check: "query", Clause: "session-usable-after-error", Kind: "session-broken",
				Subject: map[string]string{"after": errClass(o.Err)}, Witness: core.J(w),
				Observed: "after error [" + clip(o.Err.Error(), 200) + "] SELECT 1 gave " + obs, Expected: "SELECT 1 returns 1",
			})
			x.e = nil
		}
		switch errClass(o.Err) {
		case "parse", "arity", "no-such-function":
			return false
		}
	}
	return true
}

// flush runs the batched SELECT 1 probe of the token space.
func (c *checker) flush(x *runner) {
	pend := c.pending
	c.pending = nil
	if len(pend) == 0 || x.e == nil {
		return
	}
	c.r.Count("session_probes_batched", 1)
	if ok, _ := x.selectOne(); ok {
		return
	}
	// attribute: each pending case alone on a fresh engine, probed immediately
	x.e = nil
	found := false
	for _, w := range pend {
		y := newRunner(fixtureOf(w.Space), caseLimit)
		y.fresh()
		o := y.run(expand(w.SQL))
		if o.Err == nil || o.Panic != nil {
			continue
		}
		if ok, obs := y.selectOne(); !ok {
			found = true
			c.r.Violate(core.Violation{
				Check: "query", Clause: "session-usable-after-error", Kind: "session-broken",
				Subject: map[string]string{"after": errClass(o.Err)}, Witness: core.J(w),
				Observed: "after error [" + clip(o.Err.Error(), 200) + "] SELECT 1 gave " + obs, Expected: "SELECT 1 returns 1",
			})
		}
	}
	if !found {
		// the break needs the shared session's history: report the batch (replay will not
		// reproduce it from one statement and the driver then flags it for investigation)
		var sqls []string
		for _, w := range pend {
			sqls = append(sqls, w.SQL)
		}
		c.r.Violate(core.Violation{
			Check: "query", Clause: "session-usable-after-error", Kind: "session-broken",
			Subject: map[string]string{"after": "parse-batch"}, Witness: core.J(witness{Space: "tokens", SQL: pend[len(pend)-1].SQL, Desc: "batch: " + strings.Join(sqls, " ;; ")}),
			Observed: "SELECT 1 failed after a batch of parse errors on a shared session", Expected: "SELECT 1 returns 1",
		})
	}
}

func clip(s string, n int) string {
	if len(s) > n {
		return s[:n] + "…"
	}
	return s
}

// stackHead keeps the first n function lines below the panic.
func stackHead(stack string, n int) string {
	var out []string
	lines := strings.Split(stack, "\n")
	start := 0
	for i, l := range lines {
		if strings.HasPrefix(l, "panic(") {
			start = i + 1
		}
	}
	for _, l := range lines[start:] {
		if strings.HasPrefix(l, "\t") || l == "" || strings.HasPrefix(l, "verif/mc/") || strings.HasPrefix(l, "created by") {
			continue
		}
		if j := strings.LastIndex(l, "("); j > 0 {
			l = l[:j]
		}
		out = append(out, l)
		if len(out) >= n {
			break
		}
	}
	return strings.Join(out, " < ")
}

// protect bounds what a runaway case can do to the sandbox: address space (a huge allocation
// becomes a Go "out of memory" fatal error of this worker, attributed through AnnounceCase) and
// goroutine stack (unbounded recursion dies after 256 MiB instead of 1 GiB).
func protect() {
	debug.SetMaxStack(256 << 20)
	debug.SetGCPercent(400) // cases are short-lived and allocation-heavy; the heap stays small
	lim := uint64(6) << 30
	var cur syscall.Rlimit
	if syscall.Getrlimit(syscall.RLIMIT_AS, &cur) == nil && (cur.Cur == ^uint64(0) || cur.Cur > lim) {
		syscall.Setrlimit(syscall.RLIMIT_AS, &syscall.Rlimit{Cur: lim, Max: cur.Max})
	}
}

func run(r *core.Run) {
	protect()
	c := &checker{r: r}
	only := os.Getenv("C10_ONLY") // development: restrict to one space
	var idx int64                 // global case number (sharding)

	// cheap and productive spaces first; the token space (0.13 % of it gets past the parser) last:
	// if the soft budget expires, the CAPPED lines say where each remaining space stopped
	if only == "" || only == "mutate" {
		idx = c.mutateSpace(idx)
	}
	if only == "" || only == "charset" {
		idx = c.charsetSpace(idx)
	}
	if only == "" || only == "func" {
		idx = c.funcSpace(idx)
	}
	if only == "" || only == "tokens" {
		idx = c.tokenSpace(idx)
	}
	sort.Slice(c.slow, func(i, j int) bool { return c.slow[i].Sec > c.slow[j].Sec })
	if len(c.slow) > 0 {
		r.Count("slow_cases_over_2s", int64(len(c.slow)))
		if len(c.slow) > 5 {
			c.slow = c.slow[:5]
		}
		for _, s := range c.slow {
			r.Note(fmt.Sprintf("slow (%.1fs, not a violation): %s", s.Sec, s.SQL))
		}
	}
}

// ---------------------------------------------------------------- space 1: functions

func (c *checker) funcSpace(idx int64) int64 {
	r := c.r
	fns := registryFunctions()
	maxArity := 2
	if r.Thorough() {
		maxArity = 3
	}
	var excl []string
	nWindow := 0
	for _, f := range fns {
		if f.Excluded != "" {
			excl = append(excl, f.Name+": "+f.Excluded)
		}
		if f.Window {
			nWindow++
		}
	}
	for fn, p := range timeoutGuard {
		excl = append(excl, fmt.Sprintf("%s: argument %d restricted to NULL and 0 (blocks for its timeout)", fn, p+1))
	}
	var sg []string
	for fn := range sizeGuard {
		sg = append(sg, fn)
	}
	sort.Strings(sg)
	excl = append(excl, strings.Join(sg, ",")+": count/length argument not paired with literals of magnitude > 2^20, other arguments not paired with the long string (count is clamped to 2^31-1 and count*len bytes are allocated without a max_allowed_packet check: one call allocates >= 2 GiB)")
	excl = append(excl, "replace: subject and replacement not both the long string (every match is replaced: 70 kB x 70 k matches = 4.9 GB)")
	excl = append(excl, "regexp_replace: the long string is not the subject (70 k matches take 10-45 s in the embedded ICU engine: slow, not a crash) nor the replacement of 1e308")
	excl = append(excl, "benchmark: not registered by this engine (would spin)")
	sort.Strings(excl)
	r.Info("registry_functions", len(fns))
	r.Info("window_capable_functions", nWindow)
	r.Info("literal_alphabet", litNames())
	r.Info("exclusions", excl)
	r.Info("max_arity", maxArity)

	x := newRunner("light", caseLimit)
	nl := len(literals)
	devOnly := os.Getenv("C10_FUNCS") // development aid: comma-separated function names
	for _, f := range fns {
		if f.Excluded != "" {
			continue
		}
		if devOnly != "" && !strings.Contains(","+devOnly+",", ","+f.Name+",") {
			continue
		}
		forms := []string{""}
		if f.Window {
			forms = append(forms, "window")
		}
		for arity := 0; arity <= maxArity; arity++ {
			if r.Expired() {
				r.Capped(fmt.Sprintf("function space stopped at %s arity %d", f.Name, arity))
				return idx
			}
			// arity probe: f(NULL,…,NULL). A fixed-arity registry entry, or a variadic one that
			// answers "wrong number of arguments", is not enumerated at this arity (1 case).
			accepted := f.Fixed < 0 || f.Fixed == arity
			if accepted && f.Fixed < 0 {
				args := make([]lit, arity)
				for i := range args {
					args[i] = literals[0]
				}
				x.shared()
				o := x.run(callSQL(f.Name, args, ""))
				if o.Panic != nil || o.TimedOut {
					x.e = nil
				}
				if o.Err != nil && errClass(o.Err) == "arity" {
					accepted = false
				}
			}
			if !accepted {
				// still one case: the wrong-arity call must produce an error, not a crash
				args := make([]lit, arity)
				for i := range args {
					args[i] = literals[1]
				}
				idx++
				if r.Mine(idx) {
					c.oneFunc(x, f.Name, args, "")
				}
				continue
			}
			if r.Shard == 0 {
				r.Count(fmt.Sprintf("func_arity%d_accepted", arity), 1)
			}
			total := pow(nl, arity)
			args := make([]lit, arity)
			for t := int64(0); t < total; t++ {
				if t&255 == 0 && r.Expired() {
					r.Capped(fmt.Sprintf("function space stopped inside %s arity %d", f.Name, arity))
					return idx
				}
				v := t
				skip := ""
				for i := arity - 1; i >= 0; i-- {
					args[i] = literals[v%int64(nl)]
					v /= int64(nl)
				}
				for i := range args {
					if g := guarded(f.Name, i, args[i], arity); g != "" {
						skip = g
					}
				}
				if g := guardedTuple(f.Name, args); g != "" {
					skip = g
				}
				for _, form := range forms {
					idx++
					if !r.Mine(idx) {
						continue
					}
					if skip != "" {
						r.Count("func_cases_guarded_"+skip, 1)
						continue
					}
					c.oneFunc(x, f.Name, args, form)
				}
			}
		}
	}
	return idx
}

func litNames() []string {
	out := make([]string, len(literals))
	for i, l := range literals {
		out[i] = l.Name + " = " + clip(l.SQL, 80)
	}
	return out
}

func (c *checker) oneFunc(x *runner, fn string, args []lit, form string) {
	r := c.r
	q := callSQL(fn, args, form)
	names := make([]string, len(args))
	for i, a := range args {
		names[i] = a.Name
	}
	w := witness{Space: "func", SQL: q, Desc: fn + "(" + strings.Join(names, ",") + ")" + form}
	r.AnnounceCase("func: " + clip(q, 400))
	x.shared()
	r.Eval()
	o := x.run(expand(q))
	if c.judge(x, w, o) {
		r.NonTrivial("func|" + w.Desc)
		if r.WantSample() && len(args) == 2 && o.Err == nil {
			r.Sample(map[string]any{"space": "func", "sql": clip(q, 200), "outcome": o.class(), "rows": o.Rows})
		}
	}
}

// ---------------------------------------------------------------- space 1b: charsets, collations

func (c *checker) charsetSpace(idx int64) int64 {
	r := c.r
	css, cols := allCharsets(), allCollations()
	r.Info("charsets", len(css))
	r.Info("collations", len(cols))
	x := newRunner("light", caseLimit)
	one := func(space, tmpl, name string, l lit) {
		parts := strings.Split(fillTemplate(tmpl, l.SQL, name), " ;; ")
		q, pre := parts[len(parts)-1], parts[:len(parts)-1]
		w := witness{Space: space, Pre: pre, SQL: q, Desc: name + "/" + l.Name}
		r.AnnounceCase(space + ": " + clip(strings.Join(parts, " ;; "), 400))
		x.shared()
		r.Eval()
		o := c.runWithPre(x, &w)
		if c.judge(x, w, o) {
			r.NonTrivial(space + "|" + tmpl + "|" + w.Desc)
		}
		if len(pre) > 0 && x.e != nil {
			x.freshSession() // the session variables set by pre must not reach the next case
		}
	}
	sweep := func(space string, names, tmpls []string) bool {
		for _, n := range names {
			for ti, tmpl := range tmpls {
				for _, l := range literals {
					if ti > 0 && !stringLike[l.Name] {
						continue
					}
					idx++
					if r.Mine(idx) {
						if r.Expired() {
							r.Capped(space + " space stopped at " + n)
							return false
						}
						one(space, tmpl, n, l)
					}
				}
			}
		}
		return true
	}
	if sweep("charset", css, charsetTemplates) {
		sweep("collation", cols, collationTemplates)
	}
	return idx
}

// runWithPre runs the set-up statements of w on a fresh session of the runner's engine, then the
// case statement. A set-up statement that panics becomes the case (w is rewritten to it).
func (c *checker) runWithPre(x *runner, w *witness) outcome {
	if len(w.Pre) > 0 {
		x.freshSession()
		for i, p := range w.Pre {
			if o := x.run(expand(p)); o.Panic != nil || o.TimedOut {
				w.SQL, w.Pre = p, w.Pre[:i]
				return o
			}
		}
	}
	return x.run(expand(w.SQL))
}

// ---------------------------------------------------------------- space 3: catalogue mutations

type mutation struct {
	Stmt int    `json:"stmt"`
	Kind string `json:"kind"`
	I    int    `json:"i"`
	J    int    `json:"j"`
}

func (c *checker) mutateSpace(idx int64) int64 {
	r := c.r
	r.Info("catalogue_statements", len(catalogue))
	x := newRunner("full", caseLimit)
	seen := map[string]bool{} // identical mutant texts of one statement are run once
	one := func(m mutation, toks []string) {
		q, ok := mutate(toks, m.Kind, m.I, m.J)
		if !ok {
			return
		}
		key := fmt.Sprintf("%d|%s", m.Stmt, q)
		if seen[key] {
			return
		}
		seen[key] = true
		idx++
		if !r.Mine(idx) {
			return
		}
		w := witness{Space: "mutate", SQL: q, Desc: fmt.Sprintf("stmt %d %s %d %d", m.Stmt, m.Kind, m.I, m.J)}
		r.AnnounceCase("mutate: " + clip(q, 400))
		if x.e == nil {
			x.fresh()
		}
		r.Eval()
		o := x.run(q)
		nt := c.judge(x, w, o)
		if !(o.Err != nil && o.Panic == nil && errClass(o.Err) == "parse") {
			x.e = nil // anything that got past the parser may have changed the fixture
		}
		if m.Kind == mutNone {
			if o.Err == nil && o.Panic == nil {
				r.Count("catalogue_originals_ok", 1)
			} else {
				r.Count("catalogue_originals_rejected", 1)
				r.Note("catalogue statement rejected by the engine (still mutated): " + clip(q, 120) + " => " + o.class())
			}
			return
		}
		if nt {
			r.NonTrivial(key)
		}
	}
	for si, stmt := range catalogue {
		if r.Expired() {
			r.Capped(fmt.Sprintf("mutation space stopped at catalogue statement %d", si))
			return idx
		}
		toks := tokenize(stmt)
		r.Max("catalogue_max_tokens", int64(len(toks)))
		one(mutation{Stmt: si, Kind: mutNone}, toks)
		for i := range toks {
			one(mutation{Stmt: si, Kind: mutDel, I: i}, toks)
			one(mutation{Stmt: si, Kind: mutDup, I: i}, toks)
		}
		for i := range toks {
			one(mutation{Stmt: si, Kind: mutSwap, I: i}, toks)
			for j := range substitutes {
				one(mutation{Stmt: si, Kind: mutSub, I: i, J: j}, toks)
			}
		}
		if r.Thorough() {
			for i := range toks {
				for j := i + 1; j < len(toks); j++ {
					one(mutation{Stmt: si, Kind: mutDel2, I: i, J: j}, toks)
				}
			}
		}
	}
	return idx
}

// ---------------------------------------------------------------- space 2: token sequences

func (c *checker) tokenSpace(idx int64) int64 {
	r := c.r
	maxLen := 5
	if r.Thorough() {
		maxLen = 6
	}
	r.Info("token_alphabet", tokenAlphabet)
	r.Info("token_max_len", maxLen)
	x := newRunner("light", caseLimit)
	x.reuse = 4096
	c.batchParse = true
	defer func() { c.flush(x); c.batchParse = false }()
	k := len(tokenAlphabet)
	block := int64(k * k)
	lastBlock, lastN := int64(-1), -1
	executed := 0
	for n := 0; n <= maxLen; n++ {
		total := pow(k, n)
		for t := int64(0); t < total; t++ {
			idx++
			if !r.Mine(idx) {
				continue
			}
			if executed++; executed%64 == 0 && r.Expired() {
				r.Capped(fmt.Sprintf("token space stopped at length %d, sequence %d of %d", n, t, total))
				return idx
			}
			q := tokenSeq(n, t)
			// the statements are read-only, so the engine is shared; announce per block of 196
			if b := t / block; b != lastBlock || n != lastN {
				lastBlock, lastN = b, n
				r.AnnounceCase(fmt.Sprintf("tokens: length %d, block starting at %q (sequences %d..%d)", n, tokenSeq(n, t-t%block), t-t%block, t-t%block+block-1))
			}
			if x.e == nil || x.used >= x.reuse {
				c.flush(x)
			}
			x.shared()
			r.Eval()
			o := x.run(q)
			w := witness{Space: "tokens", SQL: q}
			if c.judge(x, w, o) {
				r.NonTrivial("tokens|" + q)
				if r.WantSample() && o.Err == nil && n >= 4 {
					r.Sample(map[string]any{"space": "tokens", "sql": q, "outcome": o.class(), "rows": o.Rows})
				}
			}
		}
	}
	return idx
}

// ---------------------------------------------------------------- replay

func replay(r *core.Run, raw json.RawMessage) {
	var w witness
	if json.Unmarshal(raw, &w) != nil {
		return
	}
	c := &checker{r: r}
	x := newRunner(fixtureOf(w.Space), caseLimit)
	x.fresh()
	o := c.runWithPre(x, &w)
	c.judge(x, w, o)
}

func init() {
	core.Register(&core.Prop{
		ID:    "C10",
		Level: "exploration",
		Rule: "every statement text of four explicitly bounded spaces is run through Engine.Query on a fresh in-memory engine and drained: " +
			"(1) every function name of the registry (function.BuiltIns + lock functions + version) x every argument tuple of arity 0..2 (quick) / 0..3 (thorough) over the literal alphabet listed under literal_alphabet, " +
			"at every arity the registry entry accepts (fixed-arity entries and variadic entries that answer 'wrong argument count' to f(NULL,..) get one case at the other arities), plus the OVER(PARTITION BY b ORDER BY a) form for window-capable functions; " +
			"(1b) every charset x literal through CONVERT(x USING cs), CAST(x AS CHAR CHARACTER SET cs), _cs x, SET NAMES cs; every collation x literal through COLLATE templates (plain, =, LIKE, functions, ORDER BY, DISTINCT, after an introducer) and with collation_connection set to it; " +
			"(2) every token sequence of length 0..5 (quick) / 0..6 (thorough) over the 14-token alphabet listed under token_alphabet; " +
			"(3) every single-token deletion, duplication, adjacent swap and substitution by each of 12 tokens (thorough: also every two-token deletion) of every statement of a catalogue of valid statements of every kind. " +
			"Oracle: rows or an error; a recovered panic is a violation whose signature is the top engine frame below the panic; after every error SELECT 1 on the same session returns 1. " +
			"non-trivial = the text got past the parser and the argument-count check (it reached name resolution, analysis or execution)",
		Assumptions: []string{
			"in-memory backend (memory.DbProvider), root session, default configuration; no wire protocol",
			"functions that sleep, spin or read host files and argument combinations that allocate >= 2 GiB are excluded (listed under exclusions)",
			"a case slower than the 30 s watchdog is abandoned and reported as not judged, never as a violation",
			"unrecoverable faults (fatal error, stack overflow, out of memory under the 6 GiB address-space limit) kill the worker: the run then ends with HARNESS-ERROR naming the announced case",
		},
		QuickBudget:    75,
		ThoroughBudget: 900,
		Run:            run,
		Replay:         replay,
	})
}
