package c10

import (
	"context"
	"fmt"
	"io"
	"strings"
	"time"

	"github.com/dolthub/go-mysql-server/sql"
	"github.com/dolthub/go-mysql-server/sql/mysql_db"

	"verif/mc/core"
	"verif/mc/eng"
)

// outcome of one statement run through Engine.Query + drain.
type outcome struct {
	Err      error
	Panic    any
	Stack    string
	Rows     int
	NoResult bool // Query returned neither an iterator nor an error
	TimedOut bool // abandoned after the per-case watchdog (never a violation)
	Elapsed  time.Duration
}

func (o *outcome) class() string {
	switch {
	case o.TimedOut:
		return "abandoned-slow"
	case o.Panic != nil:
		return "panic"
	case o.NoResult:
		return "no-result"
	case o.Err != nil:
		return "err:" + errClass(o.Err)
	}
	return "ok"
}

// errClass refines eng.ErrClass with the classes that matter for the non-trivial rule.
func errClass(err error) string {
	switch {
	case sql.ErrInvalidArgumentNumber.Is(err):
		return "arity"
	case sql.ErrFunctionNotFound.Is(err):
		return "no-such-function"
	case sql.ErrInvalidArgumentType.Is(err) || sql.ErrInvalidType.Is(err):
		return "arg-type"
	case sql.ErrInvalidOperandColumns.Is(err):
		return "operand-columns"
	case sql.ErrTableNotFound.Is(err) || sql.ErrColumnNotFound.Is(err) || sql.ErrTableColumnNotFound.Is(err) || sql.ErrDatabaseNotFound.Is(err):
		return "name-resolution"
	}
	return eng.ErrClass(err)
}

// drain runs q on a fresh per-statement context of the session and drains the iterator, touching
// (unwrapping) every value the way any consumer of the query API must. Panics are contained.
func drain(s *eng.Session, parent context.Context, q string) (o outcome) {
	pv, stack := core.Try(func() {
		ctx := s.NewCtx()
		if parent != nil {
			ctx = ctx.WithContext(parent)
		}
		_, it, _, err := s.Eng.E.Query(ctx, q)
		if err != nil {
			o.Err = err
			return
		}
		if it == nil {
			o.NoResult = true
			return
		}
		for {
			row, err := it.Next(ctx)
			if err == io.EOF {
				break
			}
			if err != nil {
				o.Err = err
				it.Close(ctx)
				return
			}
			o.Rows++
			for _, v := range row {
				if _, err := sql.UnwrapAny(ctx, v); err != nil {
					o.Err = err
					it.Close(ctx)
					return
				}
			}
		}
		if err := it.Close(ctx); err != nil {
			o.Err = err
		}
	})
	if pv != nil {
		o.Panic = pv
		o.Stack = stack
	}
	return o
}

// runner owns the engine a group of cases runs on and the watchdog.
type runner struct {
	fixture string // "light" or "full"
	e       *eng.Engine
	s       *eng.Session
	limit   time.Duration
	timer   *time.Timer
	used    int
	reuse   int // cases per engine in shared mode
	reqs    chan execReq
}

func newRunner(fixture string, limit time.Duration) *runner {
	x := &runner{fixture: fixture, limit: limit, reuse: 256}
	x.timer = time.NewTimer(time.Hour)
	x.timer.Stop()
	return x
}

// fresh replaces the engine by a new one with the fixture loaded.
func (x *runner) fresh() {
	x.e = eng.New("mydb", "otherdb")
	x.s = x.e.NewSession("root")
	var stmts []string
	if x.fixture == "full" {
		stmts = fullFixture
	} else {
		stmts = lightFixture
	}
	if x.fixture == "full" {
		// enable the grant tables (root@localhost superuser) so that account statements work
		x.e.E.Analyzer.Catalog.MySQLDb.AddRootAccount()
		x.e.E.Analyzer.Catalog.MySQLDb.SetPersister(&mysql_db.NoopPersister{})
	}
	for _, q := range stmts {
		x.s.MustExec(q)
	}
	x.used = 0
}

// shared prepares the runner for the next case of a read-only space: the engine and session are
// shared between cases and replaced every 256 cases and after any panic or abandoned case.
func (x *runner) shared() {
	if x.e == nil || x.used >= x.reuse {
		x.fresh()
	}
	x.used++
}

// freshSession opens a new session on the current engine (session state such as user variables,
// LAST_INSERT_ID, FOUND_ROWS does not leak between cases).
func (x *runner) freshSession() {
	if x.e == nil {
		x.fresh()
		return
	}
	x.s = x.e.NewSession("root")
}

type execReq struct {
	s      *eng.Session
	parent context.Context
	q      string
	done   chan outcome
}

// executor is a long-lived goroutine that runs the cases (so that its stack, grown once by the
// parser, is not re-grown for every case). After an abandoned case it is replaced.
func (x *runner) executor() chan execReq {
	if x.reqs == nil {
		ch := make(chan execReq)
		x.reqs = ch
		go func() {
			for rq := range ch {
				rq.done <- drain(rq.s, rq.parent, rq.q)
			}
		}()
	}
	return x.reqs
}

// run executes q under the watchdog. A case that exceeds the limit is cancelled, given a grace
// period, and otherwise abandoned on its goroutine (the engine is replaced); this is recorded as
// "abandoned-slow", never as a violation.
func (x *runner) run(q string) outcome {
	if x.e == nil {
		x.fresh()
	}
	t0 := time.Now()
	cctx, cancel := context.WithCancel(context.Background())
	defer cancel()
	done := make(chan outcome, 1)
	x.executor() <- execReq{s: x.s, parent: cctx, q: q, done: done}
	x.timer.Reset(x.limit)
	var o outcome
	select {
	case o = <-done:
		if !x.timer.Stop() {
			select {
			case <-x.timer.C:
			default:
			}
		}
	case <-x.timer.C:
		cancel()
		select {
		case o = <-done:
			// finished after cancellation: whatever it returned, the case was slow; keep the
			// outcome only if it is a panic (a panic is a panic however long it took)
			if o.Panic == nil {
				o = outcome{TimedOut: true}
			}
		case <-time.After(x.limit / 2):
			o = outcome{TimedOut: true}
			x.e = nil // the goroutine still owns the old engine
			close(x.reqs)
			x.reqs = nil
		}
	}
	o.Elapsed = time.Since(t0)
	return o
}

// selectOne checks that the session is still usable: SELECT 1 returns exactly the row (1).
func (x *runner) selectOne() (ok bool, observed string) {
	r := x.s.Exec("SELECT 1")
	if r.Panic != nil {
		return false, fmt.Sprintf("panic: %v", r.Panic)
	}
	if r.Err != nil {
		return false, "error: " + r.Err.Error()
	}
	if len(r.Rows) != 1 || len(r.Rows[0]) != 1 || eng.FormatValue(r.Rows[0][0]) != "1" {
		return false, "rows: " + strings.Join(r.RowStrings(), " ")
	}
	return true, ""
}

// panicFrame is the signature of a panic: the top frame below the panic that belongs to neither the
// Go runtime/standard library nor the harness (so a panic raised inside strings.Repeat or math/big
// is attributed to the engine function that made the call); falls back to core.TopFrame.
func panicFrame(stack string) string {
	lines := strings.Split(stack, "\n")
	// start below the LAST panic( line: a deferred function that recovers and re-panics (e.g.
	// planbuilder.(*Builder).Parse.func1) sits above the original panic site
	start := -1
	for i, l := range lines {
		if strings.HasPrefix(l, "panic(") {
			start = i
		}
	}
	if start < 0 {
		return core.TopFrame(stack)
	}
	for _, l := range lines[start+1:] {
		if strings.HasPrefix(l, "\t") || l == "" || strings.HasPrefix(l, "goroutine ") {
			continue
		}
		slash := strings.Index(l, "/")
		if slash < 0 || !strings.Contains(l[:slash], ".") {
			continue // standard library ("strings.Repeat", "math/big.nat.mul") or harness ("verif/mc/...")
		}
		if j := strings.LastIndex(l, "("); j > 0 {
			l = l[:j]
		}
		return l
	}
	return core.TopFrame(stack)
}
