package c10

import (
	"sort"
	"strings"

	"github.com/dolthub/go-mysql-server/sql"
	"github.com/dolthub/go-mysql-server/sql/expression"
	"github.com/dolthub/go-mysql-server/sql/expression/function"
	"github.com/dolthub/go-mysql-server/sql/types"

	"verif/mc/core"
)

// lit is one value of the literal alphabet. SQL may contain the placeholder ${long}, which expand()
// replaces by the long string body (so witnesses stay small).
type lit struct {
	Name string
	SQL  string
	// Big marks numeric literals whose magnitude exceeds 2^20: they are not paired with the
	// count/length arguments of the amplifying functions (see sizeGuard).
	Big bool
}

// longLen is the length of the long string: just past the 65535-byte TEXT/VARCHAR boundary.
const longLen = 70000

var longBody = strings.Repeat("a", longLen)

func expand(q string) string { return strings.ReplaceAll(q, "${long}", longBody) }

var literals = []lit{
	{Name: "null", SQL: "NULL"},
	{Name: "zero", SQL: "0"},
	{Name: "one", SQL: "1"},
	{Name: "neg1", SQL: "-1"},
	{Name: "i64max", SQL: "9223372036854775807", Big: true},
	{Name: "i64min", SQL: "-9223372036854775808", Big: true},
	{Name: "u64max", SQL: "18446744073709551615", Big: true},
	{Name: "f1e308", SQL: "1e308", Big: true},
	{Name: "half", SQL: "0.5"},
	{Name: "dec65", SQL: "99999999999999999999999999999999999999999999999999999999999999999.5", Big: true},
	{Name: "empty", SQL: "''"},
	{Name: "a", SQL: "'a'"},
	{Name: "utf8_4byte", SQL: "'\U0001F600'"},
	{Name: "xFF", SQL: "X'FF'"},
	{Name: "latin1_E9", SQL: "_latin1 X'E9'"},
	{Name: "utf16_lone_surrogate", SQL: "_utf16 X'D800'"},
	{Name: "date_valid", SQL: "'2020-02-29'"},
	{Name: "datetime_max", SQL: "'9999-12-31 23:59:59.999999'"},
	{Name: "date_invalid", SQL: "'2021-02-30 25:61:61'"},
	{Name: "date_zero", SQL: "'0000-00-00'"},
	{Name: "json_text", SQL: `'{"a":[1,{"b":null}]}'`},
	{Name: "json_value", SQL: `CAST('[1,"a",null]' AS JSON)`},
	{Name: "wkt", SQL: "'POINT(1 2)'"},
	{Name: "geometry", SQL: "ST_GeomFromText('LINESTRING(0 0,1 1)')"},
	{Name: "interval", SQL: "INTERVAL 1 DAY"},
	{Name: "long", SQL: "'${long}'"},
	{Name: "tuple", SQL: "(1,2)"},
	{Name: "subquery", SQL: "(SELECT 1)"},
	{Name: "star", SQL: "*"},
	{Name: "uservar", SQL: "@u"},
}

// excludedFuncs are registry entries that are never called: they sleep, spin, or read files.
var excludedFuncs = map[string]string{
	"sleep":     "sleeps for its argument (seconds)",
	"benchmark": "spins for its first argument",
	"load_file": "reads a file of the host",
}

// timeoutGuard: blocking functions whose timeout argument (0-based position) is restricted to
// {NULL, 0}.
var timeoutGuard = map[string]int{
	"get_lock": 1,
}

// sizeGuard lists, per amplifying function, the 0-based positions of its count/length argument:
// the engine clamps such arguments to 2^31-1 and allocates count*len(str) bytes without a
// max_allowed_packet check, i.e. one call allocates >= 2 GiB. Big literals are not placed there,
// and the long string is not placed in the other positions of these functions (the product
// would be 70 kB * count).
var sizeGuard = map[string][]int{
	"repeat": {1},
	"space":  {0},
	"lpad":   {1},
	"rpad":   {1},
}

// guardedTuple excludes argument combinations whose cost is a product of argument sizes:
//   - replace / regexp_replace: every match is replaced, so subject and replacement are not both
//     the long string (70 kB x 70 k matches = 4.9 GB);
//   - regexp_replace: the long string is not used as the subject at all (70 k matches take 10-45 s
//     through the embedded ICU engine: slow, not a crash), nor as the replacement when the subject
//     is 1e308 (309 digits).
func guardedTuple(fn string, args []lit) string {
	if len(args) < 3 {
		return ""
	}
	switch fn {
	case "replace":
		if args[0].Name == "long" && args[2].Name == "long" {
			return "size"
		}
	case "regexp_replace":
		if args[0].Name == "long" || args[0].Name == "f1e308" && args[2].Name == "long" {
			return "size"
		}
	}
	return ""
}

type funcInfo struct {
	Name     string
	Fixed    int  // exact arity for FunctionK entries, -1 for FunctionN
	Window   bool // an instance implements sql.WindowAdaptableExpression
	Excluded string
}

// registryFunctions lists every function name the engine registers: function.BuiltIns, the lock
// functions and version (added by sqle.New), sorted by name.
func registryFunctions() []funcInfo {
	var fns []sql.Function
	fns = append(fns, function.BuiltIns...)
	ctx := sql.NewEmptyContext()
	fns = append(fns, function.GetLockingFuncs(ctx, sql.NewLockSubsystem())...)
	fns = append(fns, sql.FunctionN{Name: "version", Fn: function.NewVersion("")})
	seen := map[string]bool{}
	var out []funcInfo
	for _, f := range fns {
		n := f.FunctionName()
		if seen[n] {
			continue
		}
		seen[n] = true
		fi := funcInfo{Name: n, Fixed: -1, Excluded: excludedFuncs[n]}
		switch f.(type) {
		case sql.Function0:
			fi.Fixed = 0
		case sql.Function1:
			fi.Fixed = 1
		case sql.Function2:
			fi.Fixed = 2
		case sql.Function3:
			fi.Fixed = 3
		case sql.Function4:
			fi.Fixed = 4
		case sql.Function5:
			fi.Fixed = 5
		case sql.Function6:
			fi.Fixed = 6
		case sql.Function7:
			fi.Fixed = 7
		}
		if fi.Excluded == "" {
			fi.Window = isWindow(f, fi.Fixed)
		}
		out = append(out, fi)
	}
	sort.Slice(out, func(i, j int) bool { return out[i].Name < out[j].Name })
	return out
}

// isWindow instantiates the function on NULL literals (arity 0..3) and reports whether any
// instance can be used as a window function.
func isWindow(f sql.Function, fixed int) bool {
	ctx := sql.NewEmptyContext()
	for k := 0; k <= 3; k++ {
		if fixed >= 0 && k != fixed {
			continue
		}
		args := make([]sql.Expression, k)
		for i := range args {
			args[i] = expression.NewLiteral(nil, types.Null)
		}
		var e sql.Expression
		core.Try(func() {
			x, err := f.NewInstance(ctx, args)
			if err == nil {
				e = x
			}
		})
		if e == nil {
			continue
		}
		if _, ok := e.(sql.WindowAdaptableExpression); ok {
			return true
		}
	}
	return false
}

// guarded reports whether placing literal l at position pos of fn is excluded, and why.
func guarded(fn string, pos int, l lit, arity int) string {
	if p, ok := timeoutGuard[fn]; ok && pos == p && l.Name != "null" && l.Name != "zero" {
		return "timeout"
	}
	if ps, ok := sizeGuard[fn]; ok {
		isCount := false
		for _, p := range ps {
			if p == pos {
				isCount = true
			}
		}
		if isCount && l.Big {
			return "size"
		}
		if !isCount && l.Name == "long" {
			return "size"
		}
	}
	return ""
}

// callSQL renders one function call case. form: "" = SELECT f(args); "window" = SELECT f(args)
// OVER (PARTITION BY b ORDER BY a) FROM t.
func callSQL(fn string, args []lit, form string) string {
	var sb strings.Builder
	sb.WriteString("SELECT ")
	sb.WriteString(fn)
	sb.WriteString("(")
	for i, a := range args {
		if i > 0 {
			sb.WriteString(", ")
		}
		sb.WriteString(a.SQL)
	}
	sb.WriteString(")")
	if form == "window" {
		sb.WriteString(" OVER (PARTITION BY b ORDER BY a) FROM t")
	}
	return sb.String()
}

// charsets / collations known to the engine (implemented or not), sorted by name.
func allCharsets() []string {
	var out []string
	it := sql.NewCharacterSetsIterator()
	for {
		cs, ok := it.Next()
		if !ok {
			break
		}
		out = append(out, cs.Name)
	}
	sort.Strings(out)
	return out
}

func allCollations() []string {
	var out []string
	it := sql.NewCollationsIterator()
	for {
		c, ok := it.Next()
		if !ok {
			break
		}
		out = append(out, c.Name)
	}
	sort.Strings(out)
	return out
}

// charset/collation templates; %x = literal, %n = charset or collation name. The first template of
// each list is run with every literal, the others with the string-like literals only. "a ;; b":
// a is a session set-up statement run first on a fresh session.
var charsetTemplates = []string{
	"SELECT CONVERT(%x USING %n)",
	"SELECT CAST(%x AS CHAR CHARACTER SET %n)",
	"SELECT LENGTH(_%n %x), UPPER(_%n %x)",
	"SELECT CONVERT(CONVERT(%x USING %n) USING utf8mb4) = %x",
	"SET NAMES %n ;; SELECT %x, LENGTH(%x), UPPER(%x)",
}

var collationTemplates = []string{
	"SELECT %x COLLATE %n",
	"SELECT %x COLLATE %n = 'A'",
	"SELECT %x COLLATE %n LIKE 'A%'",
	"SELECT UPPER(%x COLLATE %n), COLLATION(CONCAT(%x COLLATE %n, 'a'))",
	"SELECT a FROM t ORDER BY CONCAT(b, %x) COLLATE %n",
	"SELECT DISTINCT CONCAT(b, %x) COLLATE %n FROM t",
	"SELECT _utf8mb4 %x COLLATE %n",
	"SET collation_connection = '%n' ;; SELECT %x LIKE 'A%'",
	"SET collation_connection = '%n' ;; SELECT %x = 'A', UPPER(%x), CONCAT(%x, 'b')",
}

var stringLike = map[string]bool{"null": true, "empty": true, "a": true, "utf8_4byte": true, "xFF": true, "latin1_E9": true, "utf16_lone_surrogate": true, "json_text": true, "long": true}

func fillTemplate(t, x, n string) string {
	return strings.ReplaceAll(strings.ReplaceAll(t, "%x", x), "%n", n)
}
