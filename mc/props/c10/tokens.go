package c10

import "strings"

// tokenAlphabet is the 14-token alphabet of space (2).
var tokenAlphabet = []string{"SELECT", "FROM", "t", "a", "(", ")", ",", "*", "1", "'x'", "NULL", "WHERE", "=", "ORDER BY"}

// tokenSeq renders sequence number idx (base-|alphabet| digits, most significant first) of length n.
func tokenSeq(n int, idx int64) string {
	k := int64(len(tokenAlphabet))
	d := make([]string, n)
	for i := n - 1; i >= 0; i-- {
		d[i] = tokenAlphabet[idx%k]
		idx /= k
	}
	return strings.Join(d, " ")
}

func pow(b, e int) int64 {
	r := int64(1)
	for i := 0; i < e; i++ {
		r *= int64(b)
	}
	return r
}

// tokenize splits a statement of the catalogue into tokens: words/numbers, quoted strings,
// back-quoted identifiers, user/system variables, multi-character operators, single punctuation.
func tokenize(q string) []string {
	var out []string
	i := 0
	isWord := func(c byte) bool {
		return c == '_' || c == '$' || c >= '0' && c <= '9' || c >= 'a' && c <= 'z' || c >= 'A' && c <= 'Z' || c >= 0x80
	}
	glue := false // the next token is appended to the previous one
	for i < len(q) {
		c := q[i]
		if glue && c != '\'' && !isWord(c) {
			glue = false
		}
		switch {
		case c == ' ' || c == '\n' || c == '\t':
			i++
		case c == '/' && strings.HasPrefix(q[i:], "/*"):
			j := strings.Index(q[i+2:], "*/")
			if j < 0 {
				j = len(q)
			} else {
				j += i + 4
			}
			out = append(out, q[i:j])
			i = j
		case c == '\'' || c == '"' || c == '`':
			j := i + 1
			for j < len(q) {
				if q[j] == '\\' && c != '`' && j+1 < len(q) {
					j += 2
					continue
				}
				if q[j] == c {
					if j+1 < len(q) && q[j+1] == c {
						j += 2
						continue
					}
					break
				}
				j++
			}
			if j < len(q) {
				j++
			}
			tok := q[i:j]
			if len(out) > 0 && glue {
				// N'x', X'41', b'01', 'user'@'host': no space before the quote
				out[len(out)-1] += tok
			} else {
				out = append(out, tok)
			}
			i = j
			glue = false
			if i < len(q) && q[i] == '@' && i+1 < len(q) && q[i+1] != '@' {
				// account name: 'user'@'host' / 'user'@host
				out[len(out)-1] += "@"
				i++
				glue = true
			}
			continue
		case c == '@':
			j := i + 1
			for j < len(q) && (q[j] == '@' || isWord(q[j]) || q[j] == '.' && j+1 < len(q) && isWord(q[j+1])) {
				j++
			}
			out = append(out, q[i:j])
			i = j
		case isWord(c):
			j := i
			for j < len(q) && (isWord(q[j]) || q[j] == '.' && j+1 < len(q) && q[j+1] >= '0' && q[j+1] <= '9' && q[i] >= '0' && q[i] <= '9') {
				j++
			}
			tok := q[i:j]
			if glue {
				out[len(out)-1] += tok
				glue = false
			} else {
				out = append(out, tok)
			}
			i = j
			if i < len(q) && q[i] == '\'' && (len(tok) == 1 || tok[0] == '_') {
				glue = true // charset introducer or N/X/B prefix written without a space
			}
			continue
		default:
			ops := []string{"->>", "<=>", "->", "<=", ">=", "<>", "!=", ":=", "||", "&&", "<<", ">>"}
			matched := false
			for _, op := range ops {
				if strings.HasPrefix(q[i:], op) {
					out = append(out, op)
					i += len(op)
					matched = true
					break
				}
			}
			if !matched {
				out = append(out, string(c))
				i++
			}
		}
	}
	return out
}

// mutation kinds of space (3)
const (
	mutNone = "original"
	mutDel  = "delete"
	mutDup  = "duplicate"
	mutSwap = "swap"    // thorough: swap token i and i+1
	mutDel2 = "delete2" // thorough: delete tokens i and j (i<j)
	mutSub  = "substitute"
)

// substitutes are the tokens a position is replaced by in the thorough tier.
var substitutes = []string{"NULL", "0", "''", "(", ")", ",", "*", "SELECT", "-1", "18446744073709551616", "`x y`", "@v"}

func joinTokens(toks []string) string { return strings.Join(toks, " ") }

// mutate applies mutation (kind, i, j) to the token list; ok=false if the position is out of range.
func mutate(toks []string, kind string, i, j int) (string, bool) {
	n := len(toks)
	cp := func() []string { return append([]string(nil), toks...) }
	switch kind {
	case mutNone:
		return joinTokens(toks), true
	case mutDel:
		if i < 0 || i >= n {
			return "", false
		}
		t := cp()
		return joinTokens(append(t[:i], t[i+1:]...)), true
	case mutDup:
		if i < 0 || i >= n {
			return "", false
		}
		t := append([]string(nil), toks[:i+1]...)
		t = append(t, toks[i:]...)
		return joinTokens(t), true
	case mutSwap:
		if i < 0 || i+1 >= n {
			return "", false
		}
		t := cp()
		t[i], t[i+1] = t[i+1], t[i]
		return joinTokens(t), true
	case mutDel2:
		if i < 0 || j <= i || j >= n {
			return "", false
		}
		var t []string
		for k, x := range toks {
			if k != i && k != j {
				t = append(t, x)
			}
		}
		return joinTokens(t), true
	case mutSub:
		if i < 0 || i >= n || j < 0 || j >= len(substitutes) {
			return "", false
		}
		t := cp()
		t[i] = substitutes[j]
		return joinTokens(t), true
	}
	return "", false
}
