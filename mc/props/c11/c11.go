// Package c11 — repeated queries reflect the current data; no stale results.
//
// Explorer: hist (BFS over statement histories of two sessions on one real engine, fresh engine
// per history). Reference: versioned committed state + per-session uncommitted changes and a
// hand-written evaluator per query shape (model.go). See design.d/C11.md.
package c11

import (
	"encoding/json"
	"fmt"
	"os"
	"runtime/debug"
	"strings"

	sqle "github.com/dolthub/go-mysql-server"
	"github.com/dolthub/go-mysql-server/memory"

	"verif/mc/core"
	"verif/mc/eng"
	"verif/mc/hist"
)

// ---------------------------------------------------------------------------------------------
// alphabet

type opKind int

const (
	opRead     opKind = iota // arg = shape
	opDML                    // arg = index into dmls
	opAlterCol               // alter table t add column c int / drop column c (toggle)
	opIndex                  // create index ib on t (b) / drop index ib on t (toggle)
	opView                   // create or replace view v as <the other definition>
	opBegin
	opCommit
	opRollback
	opPrepare // prepare s from '<derived-table join>' again
	opFail    // select nope from t: resolves t, then fails in analysis (the statement's transaction is dropped, neither committed nor rolled back)
)

type op struct {
	Sess int
	Kind opKind
	Arg  int
}

var dmls = []dml{
	{0, 0, 3, 1}, // insert into t (a,b) values (3,1)
	{0, 1, 1, 0}, // update t set b = 3 - b where a = 1
	{0, 2, 2, 0}, // delete from t where a = 2
	{1, 0, 3, 2}, // insert into u (a,b) values (3,2)
	{1, 1, 1, 0}, // update u set b = 3 - b where a = 1
	{1, 2, 2, 0}, // delete from u where a = 2
}

const (
	dInsT = iota
	dUpdT
	dDelT
	dInsU
	dUpdU
	dDelU
)

func (o op) class() string {
	switch o.Kind {
	case opRead:
		return "read"
	case opDML:
		return "dml"
	case opAlterCol:
		return "ddl-column"
	case opIndex:
		return "ddl-index"
	case opView:
		return "ddl-view"
	case opBegin:
		return "begin"
	case opCommit:
		return "commit"
	case opRollback:
		return "rollback"
	case opFail:
		return "failed-statement"
	}
	return "prepare"
}

// quickAlphabet: one operation per kind. Session 1 reads (the four shapes that keep state
// between statements: prepared statement, procedure, view, derived-table join), writes t and runs
// transactions; session 2 changes data and schema under it.
func quickAlphabet() []op {
	return []op{
		{0, opRead, shEX}, {0, opRead, shCL}, {0, opRead, shVW}, {0, opRead, shCR},
		{0, opDML, dUpdT}, {0, opDML, dInsT},
		{0, opBegin, 0}, {0, opCommit, 0}, {0, opRollback, 0}, {0, opFail, 0},
		{1, opDML, dDelT}, {1, opDML, dUpdU},
		{1, opAlterCol, 0}, {1, opIndex, 0}, {1, opView, 0},
	}
}

// fullAlphabet: both sessions, every read shape, every DML, every DDL, transactions, PREPARE.
func fullAlphabet() []op {
	var a []op
	for s := 0; s < 2; s++ {
		for sh := 0; sh <= shST; sh++ { // select * from u is only used for the dump
			a = append(a, op{s, opRead, sh})
		}
		for d := range dmls {
			a = append(a, op{s, opDML, d})
		}
		a = append(a, op{s, opAlterCol, 0}, op{s, opIndex, 0}, op{s, opView, 0},
			op{s, opBegin, 0}, op{s, opCommit, 0}, op{s, opRollback, 0}, op{s, opPrepare, 0}, op{s, opFail, 0})
	}
	return a
}

var fixture = []string{
	"create table t (a int primary key, b int)",
	"insert into t values (1,1),(2,2)",
	"create table u (a int primary key, b int)",
	"insert into u values (1,1),(2,2)",
	"create view v as " + viewDef[0],
	"create procedure p() " + sqlIN,
}

// failSQL resolves table t and then fails while the statement is analysed: unknown column
const failSQL = "select nope from t"

const prepareSQL = "prepare s from '" + sqlCR + "'"

// sqlOf renders the statement of an operation in the current model state (DDL toggles depend on
// the latest committed schema).
func sqlOf(o op, m *model) string {
	switch o.Kind {
	case opRead:
		return suite[o.Arg].sql
	case opDML:
		return dmls[o.Arg].sql()
	case opAlterCol:
		if m.latest().hasC {
			return "alter table t drop column c"
		}
		return "alter table t add column c int"
	case opIndex:
		if m.latest().hasIdx {
			return "drop index ib on t"
		}
		return "create index ib on t (b)"
	case opView:
		return "create or replace view v as " + viewDef[1-m.latest().view]
	case opBegin:
		return "begin"
	case opCommit:
		return "commit"
	case opRollback:
		return "rollback"
	case opPrepare:
		return prepareSQL
	case opFail:
		return failSQL
	}
	return ""
}

// ---------------------------------------------------------------------------------------------
// real system

type system struct {
	e    *eng.Engine
	sess [2]*eng.Session
	obs  *eng.Session // third session: ran the fixture, afterwards only reads (autocommit)
}

func newSystem() *system {
	db := memory.NewDatabase("mydb")
	pro := memory.NewDBProvider(db)
	e := &eng.Engine{E: sqle.NewDefault(pro), Pro: pro, DBs: []*memory.Database{db}}
	setup := e.NewSession("root")
	for _, q := range fixture {
		setup.MustExec(q)
	}
	s := &system{e: e, obs: setup}
	for i := range s.sess {
		s.sess[i] = e.NewSession("root")
		s.sess[i].MustExec(prepareSQL)
	}
	setup.MustExec(prepareSQL)
	return s
}

// ---------------------------------------------------------------------------------------------
// stepper

type witness struct {
	Alphabet string   `json:"alphabet"`
	Ops      []int    `json:"ops"`
	Labels   []string `json:"labels,omitempty"`
	At       string   `json:"at,omitempty"`
}

type stepper struct {
	r     *core.Run
	name  string
	alpha []op
	// symmetric: both sessions have the same operations, so the first statement is by session 1
	symmetric bool
}

func newViol(clause, kind, shape, observed, expected string, frame ...string) *viol {
	v := &viol{clause: clause, kind: kind, shape: shape, observed: observed, expected: expected}
	if len(frame) > 0 {
		v.frame = frame[0]
	}
	return v
}

type viol struct {
	clause, kind       string
	shape              string
	observed, expected string
	frame              string // top engine frame of a panic
}

func (st *stepper) wit(labels []string, h []int, at string) json.RawMessage {
	return core.J(witness{Alphabet: st.name, Ops: h, Labels: labels, At: at})
}

// context of a violation: classifying coordinates
type vctx struct {
	last   string // class of the last operation of the history
	reader string // acting-session | other-session | new-session | statement
	inTx   bool   // the session showing the symptom is inside an explicit transaction
	openTx string // transaction of the acting session before the last operation: none | non-writing | writing
	lastQ  string // shape of the last operation if it is a read
	index  bool   // the secondary index ib on t(b) exists in the latest committed version
}

func (st *stepper) report(labels []string, h []int, at string, c vctx, v *viol) {
	st.r.Violate(core.Violation{Check: "repeat-read", Clause: v.clause, Kind: v.kind,
		Subject: map[string]string{"query": v.shape, "after": c.last, "seen_by": c.reader, "reader_in_tx": yesno(c.inTx), "open_tx": c.openTx, "last_query": c.lastQ, "index": yesno(c.index), "frame": v.frame},
		Witness: st.wit(labels, h, at), Observed: v.observed, Expected: v.expected})
}

func yesno(b bool) string {
	if b {
		return "yes"
	}
	return "no"
}

func openTxOf(ms *sessModel) string {
	if !ms.inTx {
		return "none"
	}
	if ms.wrote {
		return "writing"
	}
	return "non-writing"
}

// readOnce runs shape sh in session s (-1 = the third session) and judges it.
func readOnce(sys *system, m *model, s, sh int) (*viol, []string, string) {
	es := sys.obs
	if s >= 0 {
		es = sys.sess[s]
	}
	res := es.Exec(suite[sh].sql)
	if res.Panic != nil {
		return newViol("no-panic", "panic", suite[sh].name, fmt.Sprintf("panic: %v", res.Panic), "rows", core.TopFrame(res.Stack)), nil, ""
	}
	if res.Err != nil {
		return newViol("query-succeeds", "unexpected-error", suite[sh].name, "error class "+eng.ErrClass(res.Err)+": "+res.Err.Error(), "rows"), nil, ""
	}
	got := res.Multiset()
	verdict, expected, class := m.judgeRead(s, sh, got)
	if s >= 0 {
		m.touchShape(s, sh)
	}
	if verdict != "" {
		return newViol("reflects-current-data", verdict, suite[sh].name, strings.Join(got, " "), expected), got, ""
	}
	return nil, got, class
}

// Step runs history h on a fresh engine and applies the oracle to the last operation and to the
// whole read suite run afterwards in every session (the engine is discarded after the step).
func (st *stepper) Step(h []int) (string, bool) {
	r := st.r
	if st.symmetric && len(h) > 0 && st.alpha[h[0]].Sess != 0 {
		return hist.Disabled, false
	}
	sys := newSystem()
	m := newModel()
	var labels []string
	for i, oi := range h {
		o := st.alpha[oi]
		last := i == len(h)-1
		ms := &m.s[o.Sess]
		m.step = i + 1
		// DDL inside an open explicit transaction is C17's subject (implicit commit), not C11's
		if ms.inTx && (o.Kind == opAlterCol || o.Kind == opIndex || o.Kind == opView) {
			if last {
				r.Count("disabled", 1)
				return hist.Disabled, false
			}
			return "unreachable", false
		}
		q := sqlOf(o, m)
		labels = append(labels, fmt.Sprintf("s%d: %s", o.Sess+1, q))
		c := vctx{last: o.class(), reader: "statement", inTx: ms.inTx, openTx: openTxOf(ms), lastQ: "-"}
		if o.Kind == opRead {
			c.lastQ = suite[o.Arg].name
		}
		pendingBefore := (m.s[0].inTx && len(m.s[0].ops) > 0) || (m.s[1].inTx && len(m.s[1].ops) > 0)
		outcome := o.class()
		var v *viol
		switch o.Kind {
		case opRead:
			var class string
			v, _, class = readOnce(sys, m, o.Sess, o.Arg)
			outcome = "read-" + suite[o.Arg].name + ":" + class
		default:
			res := sys.sess[o.Sess].Exec(q)
			switch {
			case res.Panic != nil:
				v = newViol("no-panic", "panic", "-", fmt.Sprintf("panic: %v", res.Panic), "no panic", core.TopFrame(res.Stack))
			case o.Kind == opDML:
				d := dmls[o.Arg]
				want := m.expectDML(o.Sess, d)
				affected, dup := -1, false
				if res.Err != nil {
					dup = eng.ErrClass(res.Err) == "duplicate-key"
					affected = 0
					if !dup {
						v = newViol("statement-result", "unexpected-error", "-", "error class "+eng.ErrClass(res.Err)+": "+res.Err.Error(), "no error")
						break
					}
				} else if ok, is := res.OK(); is {
					affected = int(ok.RowsAffected)
				}
				got := fmt.Sprintf("%d/%v", affected, dup)
				if !want[got] {
					v = newViol("statement-result", "wrong-affected-rows", "-", "affected/duplicate-key = "+got, fmt.Sprint(keysOf(want)))
					break
				}
				m.doDML(o.Sess, d, affected)
				outcome = fmt.Sprintf("dml-%s:%s", d.sql()[:6], got)
			case o.Kind == opFail:
				// no effect on the model: the statement must fail and leave nothing behind
				if res.Err == nil {
					v = newViol("statement-result", "missing-error", "-", "no error", "unknown column error")
				}
			case res.Err != nil:
				v = newViol("statement-result", "unexpected-error", "-", "error class "+eng.ErrClass(res.Err)+": "+res.Err.Error(), "no error")
			case o.Kind == opAlterCol:
				m.ddl(o.Sess, func(v *version) { v.hasC = !v.hasC }, true)
			case o.Kind == opIndex:
				m.ddl(o.Sess, func(v *version) { v.hasIdx = !v.hasIdx }, true)
			case o.Kind == opView:
				m.ddl(o.Sess, func(v *version) { v.view = 1 - v.view }, false)
			case o.Kind == opBegin:
				m.begin(o.Sess)
			case o.Kind == opCommit:
				m.commit(o.Sess)
			case o.Kind == opRollback:
				m.endTx(o.Sess)
			case o.Kind == opPrepare:
				ms.prepared = 1
			}
		}
		if !last {
			if v != nil || m.degraded {
				return "unreachable", false // such prefixes are never expanded
			}
			continue
		}
		r.Outcome(outcome)
		c.index = m.latest().hasIdx
		if v != nil {
			st.report(labels, h, "step", c, v)
			return "violation", false
		}
		if m.degraded {
			// two committed writing transactions overlapped in time: the in-memory backend
			// documents no isolation for that; the committed state is unspecified from here
			r.Count("skipped_overlapping_writers", 1)
			return "overlapping-writers", false
		}
		// non-trivial: the history changed something (committed or pending) and a read follows it
		if len(m.versions) > 1 || pendingBefore || len(m.s[0].ops)+len(m.s[1].ops) > 0 {
			r.NonTrivial(st.name + fmt.Sprint(h))
		}
		key := m.key()
		// (1) canonical dump of the reached state: a third session (autocommit, a new transaction
		// per statement) sees exactly the latest committed state, and both sessions' plain reads
		// of t and u agree with the model. A history failing here is not expanded.
		var obs []string
		observe := func(clause, kind, blame, at string) bool {
			c.reader, c.inTx = "new-session", false
			shapes := []int{shST, shSU, shVW}
			if clause != "" {
				shapes = shapes[:2] // re-checks look at the rows of t and u only
			}
			for _, sh := range shapes {
				r.Count("observations", 1)
				if v, _, _ := readOnce(sys, m, -1, sh); v != nil {
					if clause != "" && v.clause == "reflects-current-data" {
						v.clause, v.kind, v.shape = clause, kind, blame
					}
					st.report(labels, h, at+suite[sh].sql, c, v)
					return false
				}
			}
			return true
		}
		if !observe("", "", "", "new session: ") {
			return "violation", false
		}
		sessOf := func(k int) (int, string) {
			if k == 0 {
				return o.Sess, "acting-session"
			}
			return 1 - o.Sess, "other-session"
		}
		// probe runs one shape in session s (twice in a row for the acting session)
		probe := func(s int, who string, sh int, twice bool) bool {
			c.reader, c.inTx = who, m.s[s].inTx
			r.Count("observations", 1)
			v, got, _ := readOnce(sys, m, s, sh)
			if v != nil {
				st.report(labels, h, fmt.Sprintf("s%d: %s", s+1, suite[sh].sql), c, v)
				return false
			}
			obs = append(obs, strings.Join(got, ""))
			if !twice {
				return true
			}
			r.Count("observations", 1)
			r.Count("repeat_comparisons", 1)
			v, again, _ := readOnce(sys, m, s, sh)
			if v == nil && !sameRows(got, again) {
				v = newViol("repeat-is-deterministic", "differs-on-repeat", suite[sh].name, strings.Join(again, " "), "same rows as the run just before: "+strings.Join(got, " "))
			}
			if v != nil {
				st.report(labels, h, fmt.Sprintf("s%d (second run): %s", s+1, suite[sh].sql), c, v)
				return false
			}
			return true
		}
		for k := 0; k < 2; k++ {
			s, who := sessOf(k)
			for _, sh := range []int{shST, shSU} {
				if !probe(s, who, sh, false) {
					return "violation", false
				}
			}
		}
		// (2) probe suite: every cache-building shape in both sessions (every query twice in a row
		// in the acting session). The state was just found equal to the model, so a failure here is
		// a defect of that read (or caused by an earlier probe), not of the history: it is
		// recorded, probing stops, and the history is still expanded. CALL and the view come last.
		key += "|" + strings.Join(obs, "|")
		for gi, group := range [][]int{{shCR, shHJ, shIN, shSC, shCO, shCT, shEX}, {shCL}, {shVW}} {
			for k := 0; k < 2; k++ {
				s, who := sessOf(k)
				for _, sh := range group {
					if k == 1 && sh != shEX && sh != shCL && sh != shVW {
						// shapes whose caches live inside one statement's plan behave the same in
						// whichever session; the other session runs the ones with state outside it
						continue
					}
					if !probe(s, who, sh, k == 0) {
						r.Count("probe_suite_stopped_after_violation", 1)
						return key, true
					}
					if !m.s[s].inTx || len(m.s[s].ops) == 0 {
						continue
					}
					// a read inside a transaction leaves the transaction's own uncommitted changes alone
					for _, plain := range []int{shST, shSU} {
						r.Count("observations", 1)
						if v, _, _ := readOnce(sys, m, s, plain); v != nil {
							if v.clause == "reflects-current-data" {
								v.clause, v.kind, v.shape = "reads-have-no-effect", "read-dropped-uncommitted-changes", suite[sh].name
							}
							st.report(labels, h, fmt.Sprintf("s%d: %s after %s", s+1, suite[plain].sql, suite[sh].sql), c, v)
							r.Count("probe_suite_stopped_after_violation", 1)
							return key, true
						}
					}
				}
				// the committed state is looked at again after the first group (both sessions), after
				// the acting session's CALL, after its view read, and at the very end
				blame := suite[group[len(group)-1]].name
				if gi == 0 {
					blame = "plain-select-shapes"
				}
				if (gi == 0 && k == 0) || (gi == 1 && k == 1) {
					continue
				}
				c.reader, c.inTx = who, m.s[s].inTx
				if !observe("reads-have-no-effect", "reads-changed-committed-state", blame, fmt.Sprintf("new session after s%d ran %s: ", s+1, blame)) {
					r.Count("probe_suite_stopped_after_violation", 1)
					return key, true
				}
			}
		}
		if r.WantSample() && len(h) >= 4 && pendingBefore {
			r.Sample(map[string]any{"history": labels, "committed_after": m.latest().String()})
		}
		return key + "|" + strings.Join(obs, "|"), true
	}
	return "init", true
}

func keysOf(m map[string]bool) []string {
	var ks []string
	for k := range m {
		ks = append(ks, k)
	}
	for i := 1; i < len(ks); i++ {
		for j := i; j > 0 && ks[j] < ks[j-1]; j-- {
			ks[j], ks[j-1] = ks[j-1], ks[j]
		}
	}
	return ks
}

func explore(r *core.Run, name string, alpha []op, symmetric bool, unmerged, maxDepth int) {
	eng.ResetGlobals()
	debug.SetGCPercent(400) // a fresh engine per history is mostly garbage
	st := &stepper{r: r, name: name, alpha: alpha, symmetric: symmetric}
	r.Info("alphabet_"+name, len(alpha))
	r.Info("unmerged_depth_"+name, unmerged)
	r.Info("max_depth_bound_"+name, maxDepth)
	hist.Explore(r, hist.Config{
		NOps: len(alpha), MaxDepth: maxDepth, UnmergedDepth: unmerged,
		Step: st.Step,
		Label: func(i int) string {
			o := alpha[i]
			return fmt.Sprintf("s%d: %s", o.Sess+1, sqlOf(o, newModel()))
		},
	})
}

func alphabetByName(n string) ([]op, bool) {
	if n == "full" {
		return fullAlphabet(), true
	}
	return quickAlphabet(), false
}

func init() {
	core.Register(&core.Prop{
		ID:    "C11",
		Level: "model_checking",
		Rule: "BFS over all statement histories of two sessions on one real engine (fresh engine per history; t(a pk,b)={(1,1),(2,2)}, u likewise, view v, procedure p, statement s prepared in every session). " +
			"Read suite (10 shapes that build caches): join against a derived table (CachedResults), hash join, uncorrelated IN subquery, scalar subquery, correlated subquery, view, CTE used twice, CALL of a procedure that selects, EXECUTE of the prepared derived-table join, select *. " +
			"quick alphabet (15, one operation per kind): session 1 = execute / call / view / derived-join reads, update and insert into t, BEGIN, COMMIT, ROLLBACK, a statement that fails in analysis after resolving t; session 2 = delete from t, update u, ALTER TABLE t ADD/DROP COLUMN, CREATE/DROP INDEX, CREATE OR REPLACE VIEW; every history of length <= 4 (no merging). " +
			"thorough: (a) the quick alphabet, every history of length <= 3, then BFS to depth 5 merging histories that reach an equal model state with equal observations; (b) full alphabet (48): both sessions x {10 reads, insert/update/delete on t and on u, the three DDLs, BEGIN/COMMIT/ROLLBACK, PREPARE, failing statement}, sessions symmetric so the first statement is by session 1, every history of length <= 2, then merged BFS to depth 4. " +
			"After the last statement of each history (the engine is discarded per history) a third session reads select * from t, select * from u and the view (must be exactly the latest committed state), both sessions read t and u plainly, and then the probe suite runs: every shape twice in a row in the acting session, execute/call/view also in the other session, with the third session looking again in between (reads must not change the committed state). " +
			"Oracle: hand-written Go evaluation of each shape over the model rows; a read by s must equal the evaluation on some state in which every object (t, u, view) is taken from a committed version between s's BEGIN and the latest (outside a transaction: exactly the latest) plus s's own uncommitted changes; the second run of a query must equal the first. " +
			"DDL inside an open explicit transaction is outside the domain (C17); a history in which two committed writing transactions overlap in time is not judged beyond that point. " +
			"non-trivial = the history changed data or schema (committed or pending) before the judged reads",
		Assumptions: []string{
			"statements execute one after another (statement-granularity interleavings)",
			"inside an explicit transaction any committed version since its BEGIN is acceptable, per object (snapshot-at-begin, per-table lazy snapshots and read-latest-committed all pass)",
			"the reference evaluation of the ten fixed shapes is hand-written Go over <= 3 rows per table (no NULLs in a, b; b in {1,2})",
		},
		QuickBudget:    70,
		ThoroughBudget: 900,
		Run: func(r *core.Run) {
			if r.Quick() {
				explore(r, "quick", quickAlphabet(), false, 4, 4)
			} else {
				// VERIF_C11_ONLY=quick|full runs one of the two thorough explorations (development aid)
				only := os.Getenv("VERIF_C11_ONLY")
				if only != "full" {
					explore(r, "quick", quickAlphabet(), false, 3, 5)
				}
				if only != "quick" {
					explore(r, "full", fullAlphabet(), true, 2, 4)
				}
			}
		},
		Replay: func(r *core.Run, w json.RawMessage) {
			var wt witness
			if json.Unmarshal(w, &wt) != nil {
				return
			}
			alpha, sym := alphabetByName(wt.Alphabet)
			st := &stepper{r: r, name: wt.Alphabet, alpha: alpha, symmetric: sym}
			for _, i := range wt.Ops {
				if i < 0 || i >= len(alpha) {
					return
				}
			}
			st.Step(wt.Ops)
		},
	})
}
