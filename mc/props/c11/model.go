package c11

import (
	"fmt"
	"sort"
	"strconv"
	"strings"
)

// ---------------------------------------------------------------------------------------------
// data model: t(a pk, b [, c]), u(a pk, b), view v (two definitions)

type rows map[int]int // a -> b

func (r rows) clone() rows {
	c := make(rows, len(r))
	for k, v := range r {
		c[k] = v
	}
	return c
}

func (r rows) keys() []int {
	ks := make([]int, 0, len(r))
	for k := range r {
		ks = append(ks, k)
	}
	sort.Ints(ks)
	return ks
}

func (r rows) String() string {
	var sb strings.Builder
	for _, k := range r.keys() {
		fmt.Fprintf(&sb, "(%d,%d)", k, r[k])
	}
	return "{" + sb.String() + "}"
}

// version is one committed state of the database.
type version struct {
	t      rows
	hasC   bool // column t.c exists (always NULL)
	hasIdx bool // index ib on t(b) exists (no visible effect)
	u      rows
	view   int // definition of v: 0 = "... where b = 1", 1 = "... where b = 2"
}

func (v version) clone() version {
	v.t, v.u = v.t.clone(), v.u.clone()
	return v
}

func (v version) String() string {
	return fmt.Sprintf("t=%s c=%v idx=%v u=%s view=%d", v.t, v.hasC, v.hasIdx, v.u, v.view)
}

// env is what one query evaluation sees.
type env struct {
	t    rows
	hasC bool
	u    rows
	view int
}

func (e env) String() string { return fmt.Sprintf("t=%s c=%v u=%s view=%d", e.t, e.hasC, e.u, e.view) }

// ---------------------------------------------------------------------------------------------
// the read suite: SQL text + hand-written reference evaluation

type shape struct {
	name string
	sql  string
	eval func(e env) []string // result rows rendered like eng.FormatRow, sorted
}

const sqlCR = "select /*+ JOIN_ORDER(t,d) */ t.a, d.s from t join (select b, sum(a) as s from u group by b) d on d.b <= t.b"
const sqlIN = "select a from t where b in (select b from u)"

func row(vals ...any) string {
	parts := make([]string, len(vals))
	for i, v := range vals {
		switch x := v.(type) {
		case int:
			parts[i] = strconv.Itoa(x)
		case nil:
			parts[i] = "NULL"
		default:
			parts[i] = fmt.Sprint(x)
		}
	}
	return "(" + strings.Join(parts, ",") + ")"
}

func sorted(a []string) []string {
	sort.Strings(a)
	return a
}

func evalCR(e env) []string {
	sum := map[int]int{}
	for a, b := range e.u {
		sum[b] += a
	}
	var out []string
	for a, b := range e.t {
		for gb, s := range sum {
			if gb <= b {
				out = append(out, row(a, s))
			}
		}
	}
	return sorted(out)
}

func evalIN(e env) []string {
	has := map[int]bool{}
	for _, b := range e.u {
		has[b] = true
	}
	var out []string
	for a, b := range e.t {
		if has[b] {
			out = append(out, row(a))
		}
	}
	return sorted(out)
}

var viewDef = [2]string{"select a, b from t where b = 1", "select a, b from t where b = 2"}

var suite = []shape{
	{"derived-table-join-cached-results", sqlCR, evalCR},
	{"hash-join", "select /*+ HASH_JOIN(t,u) */ t.a, u.a from t join u on t.b = u.b", func(e env) []string {
		var out []string
		for a, b := range e.t {
			for ua, ub := range e.u {
				if b == ub {
					out = append(out, row(a, ua))
				}
			}
		}
		return sorted(out)
	}},
	{"in-subquery", sqlIN, evalIN},
	{"scalar-subquery", "select a, (select max(b) from u) from t", func(e env) []string {
		var mx any
		for _, b := range e.u {
			if mx == nil || b > mx.(int) {
				mx = b
			}
		}
		var out []string
		for a := range e.t {
			out = append(out, row(a, mx))
		}
		return sorted(out)
	}},
	{"correlated-subquery", "select a, (select count(*) from u where u.b = t.b) from t", func(e env) []string {
		var out []string
		for a, b := range e.t {
			n := 0
			for _, ub := range e.u {
				if ub == b {
					n++
				}
			}
			out = append(out, row(a, n))
		}
		return sorted(out)
	}},
	{"view", "select a, b from v", func(e env) []string {
		var out []string
		for a, b := range e.t {
			if b == e.view+1 {
				out = append(out, row(a, b))
			}
		}
		return sorted(out)
	}},
	{"cte-used-twice", "with c as (select a, b from u) select x.a, y.a from c x join c y on x.b = y.b", func(e env) []string {
		var out []string
		for xa, xb := range e.u {
			for ya, yb := range e.u {
				if xb == yb {
					out = append(out, row(xa, ya))
				}
			}
		}
		return sorted(out)
	}},
	{"call-procedure", "call p()", evalIN},
	{"execute-prepared", "execute s", evalCR},
	{"select-star", "select * from t", func(e env) []string {
		var out []string
		for a, b := range e.t {
			if e.hasC {
				out = append(out, row(a, b, nil))
			} else {
				out = append(out, row(a, b))
			}
		}
		return sorted(out)
	}},
	// only used for the dump of the reached state, not a probe
	{"select-star-u", "select * from u", func(e env) []string {
		var out []string
		for a, b := range e.u {
			out = append(out, row(a, b))
		}
		return sorted(out)
	}},
}

const (
	shCR = iota
	shHJ
	shIN
	shSC
	shCO
	shVW
	shCT
	shCL
	shEX
	shST
	shSU
)

// which tables a shape reads: bit 0 = t, bit 1 = u, bit 2 = view definition
var shapeReads = []int{3, 3, 3, 3, 3, 5, 2, 3, 3, 1, 2}

// ---------------------------------------------------------------------------------------------
// DML

type dml struct {
	tbl  int // 0 = t, 1 = u
	kind int // 0 insert, 1 update (toggle b), 2 delete
	key  int
	val  int
}

func (d dml) sql() string {
	tn := [2]string{"t", "u"}[d.tbl]
	switch d.kind {
	case 0:
		return fmt.Sprintf("insert into %s (a,b) values (%d,%d)", tn, d.key, d.val)
	case 1:
		return fmt.Sprintf("update %s set b = 3 - b where a = %d", tn, d.key)
	}
	return fmt.Sprintf("delete from %s where a = %d", tn, d.key)
}

// apply performs the statement on r; returns rows affected and whether it fails with a duplicate key.
func (d dml) apply(r rows) (int, bool) {
	_, present := r[d.key]
	switch d.kind {
	case 0:
		if present {
			return 0, true
		}
		r[d.key] = d.val
		return 1, false
	case 1:
		if !present {
			return 0, false
		}
		r[d.key] = 3 - r[d.key]
		return 1, false
	}
	if !present {
		return 0, false
	}
	delete(r, d.key)
	return 1, false
}

// ---------------------------------------------------------------------------------------------
// sessions and versions

type sessModel struct {
	inTx      bool // explicit transaction open
	beginV    int
	beginStep int
	wrote     bool
	ops       []dml  // uncommitted changes, in order
	touched   [2]int // version current at first touch of t / u in the open transaction (-1: none); key only
	prepared  int    // how often s was (re-)prepared; key only
}

type model struct {
	versions  []version
	s         [2]sessModel
	step      int
	lastWrite [2]int // step of the session's last committed write (DML with effect, or DDL on a table)
	degraded  bool   // two committed writing transactions overlapped in time: committed state unspecified
}

func newModel() *model {
	m := &model{}
	m.versions = []version{{t: rows{1: 1, 2: 2}, u: rows{1: 1, 2: 2}}}
	for i := range m.s {
		m.s[i].touched = [2]int{-1, -1}
	}
	return m
}

func (m *model) latest() version { return m.versions[len(m.versions)-1] }

func (m *model) lo(s int) int {
	if s >= 0 && m.s[s].inTx {
		return m.s[s].beginV
	}
	return len(m.versions) - 1
}

// tableView = V.<tbl> (+) the session's uncommitted changes of that table.
func (m *model) tableView(s int, tbl int, v version) rows {
	var r rows
	if tbl == 0 {
		r = v.t.clone()
	} else {
		r = v.u.clone()
	}
	if s >= 0 && m.s[s].inTx {
		for _, d := range m.s[s].ops {
			if d.tbl == tbl {
				d.apply(r)
			}
		}
	}
	return r
}

// envs lists every environment a read by session s (-1 = a new session) may legitimately see:
// each object independently from any committed version between the transaction's begin and the
// latest, plus the session's own uncommitted changes. from/to select the version range.
func (m *model) envsRange(s, from, to int) []env {
	var out []env
	seen := map[string]bool{}
	for i := from; i <= to; i++ {
		for j := from; j <= to; j++ {
			for k := from; k <= to; k++ {
				e := env{t: m.tableView(s, 0, m.versions[i]), hasC: m.versions[i].hasC, u: m.tableView(s, 1, m.versions[j]), view: m.versions[k].view}
				key := e.String()
				if !seen[key] {
					seen[key] = true
					out = append(out, e)
				}
			}
		}
	}
	return out
}

func (m *model) envs(s int) []env { return m.envsRange(s, m.lo(s), len(m.versions)-1) }

func (m *model) touch(s, tbl int) {
	if m.s[s].inTx && m.s[s].touched[tbl] < 0 {
		m.s[s].touched[tbl] = len(m.versions) - 1
	}
}

func (m *model) touchShape(s, sh int) {
	if shapeReads[sh]&1 != 0 {
		m.touch(s, 0)
	}
	if shapeReads[sh]&2 != 0 {
		m.touch(s, 1)
	}
}

func sameRows(a, b []string) bool {
	if len(a) != len(b) {
		return false
	}
	for i := range a {
		if a[i] != b[i] {
			return false
		}
	}
	return true
}

// judgeRead compares an observed (sorted) result with the model. verdict: "" = fine,
// "stale-result" = equals the result on an earlier state that is no longer visible,
// "wrong-result" = matches no state at all.
func (m *model) judgeRead(s, sh int, got []string) (verdict, expected, class string) {
	es := m.envs(s)
	for i, e := range es {
		if sameRows(suite[sh].eval(e), got) {
			class = "latest"
			if i != len(es)-1 && !sameRows(suite[sh].eval(es[len(es)-1]), got) {
				class = "older-version-in-range"
			}
			return "", "", class
		}
	}
	var exp []string
	for _, e := range es {
		exp = append(exp, strings.Join(suite[sh].eval(e), " "))
	}
	expected = strings.Join(dedup(exp), "  |  ")
	matches := func(who, from int) bool {
		for _, e := range m.envsRange(who, from, len(m.versions)-1) {
			if sameRows(suite[sh].eval(e), got) {
				return true
			}
		}
		return false
	}
	// Several explanations can fit the same rows; they are tried in this order:
	// the reader's visible versions WITHOUT its own uncommitted changes (it lost them: stale),
	// its visible versions plus the OTHER session's uncommitted changes, any older committed
	// version, an older version plus the other session's uncommitted changes.
	lo := m.lo(s)
	if s >= 0 && m.s[s].inTx && len(m.s[s].ops) > 0 && matches(-1, lo) {
		return "stale-result", expected, ""
	}
	for _, from := range []int{lo, 0} {
		for o := 0; o < 2; o++ {
			if o != s && m.s[o].inTx && len(m.s[o].ops) > 0 && matches(o, from) {
				return "uncommitted-changes-visible", expected, ""
			}
		}
		if from == lo && (matches(s, 0) || matches(-1, 0)) {
			return "stale-result", expected, ""
		}
	}
	return "wrong-result", expected, ""
}

func dedup(a []string) []string {
	var out []string
	seen := map[string]bool{}
	for _, x := range a {
		if !seen[x] {
			seen[x] = true
			out = append(out, x)
		}
	}
	return out
}

// commit publishes the session's changes on top of the latest version.
func (m *model) commit(s int) {
	ms := &m.s[s]
	if !ms.inTx {
		return
	}
	if len(ms.ops) > 0 {
		nv := m.latest().clone()
		nv.t = m.tableView(s, 0, m.latest())
		nv.u = m.tableView(s, 1, m.latest())
		m.versions = append(m.versions, nv)
	}
	if ms.wrote {
		if m.lastWrite[1-s] > 0 && m.lastWrite[1-s] >= ms.beginStep {
			m.degraded = true
		}
		m.lastWrite[s] = m.step
	}
	m.endTx(s)
}

func (m *model) endTx(s int) {
	ms := &m.s[s]
	ms.inTx, ms.wrote, ms.ops = false, false, nil
	ms.touched = [2]int{-1, -1}
}

func (m *model) begin(s int) {
	m.commit(s) // BEGIN inside a transaction commits it
	ms := &m.s[s]
	ms.inTx = true
	ms.beginV = len(m.versions) - 1
	ms.beginStep = m.step
	ms.touched = [2]int{-1, -1}
}

// expectDML lists the outcomes (affected rows, duplicate-key error) the statement may have.
func (m *model) expectDML(s int, d dml) map[string]bool {
	out := map[string]bool{}
	for vi := m.lo(s); vi < len(m.versions); vi++ {
		n, dup := d.apply(m.tableView(s, d.tbl, m.versions[vi]))
		out[fmt.Sprintf("%d/%v", n, dup)] = true
	}
	return out
}

// doDML records a statement that was executed with the given outcome.
func (m *model) doDML(s int, d dml, affected int) {
	ms := &m.s[s]
	m.touch(s, d.tbl)
	if ms.inTx {
		ms.ops = append(ms.ops, d)
		if affected > 0 {
			ms.wrote = true
		}
		return
	}
	// autocommit: its own transaction
	if affected > 0 {
		nv := m.latest().clone()
		if d.tbl == 0 {
			d.apply(nv.t)
		} else {
			d.apply(nv.u)
		}
		m.versions = append(m.versions, nv)
		m.lastWrite[s] = m.step
	}
}

func (m *model) ddl(s int, f func(v *version), writesTable bool) {
	nv := m.latest().clone()
	f(&nv)
	m.versions = append(m.versions, nv)
	if writesTable {
		m.lastWrite[s] = m.step
	}
}

// ---------------------------------------------------------------------------------------------
// state key (merging)

func (m *model) key() string {
	var sb strings.Builder
	sb.WriteString(m.latest().String())
	for s := 0; s < 2; s++ {
		ms := &m.s[s]
		fmt.Fprintf(&sb, "|s%d tx=%v prep=%d", s, ms.inTx, ms.prepared)
		if !ms.inTx {
			continue
		}
		fmt.Fprintf(&sb, " wrote=%v overlapped=%v ops=%v", ms.wrote, m.lastWrite[1-s] > 0 && m.lastWrite[1-s] >= ms.beginStep, ms.ops)
		var vs []string
		for vi := ms.beginV; vi < len(m.versions); vi++ {
			vs = append(vs, m.versions[vi].String())
		}
		sb.WriteString(" range=" + strings.Join(dedup(vs), ";"))
		for tbl := 0; tbl < 2; tbl++ {
			if ms.touched[tbl] >= 0 {
				v := m.versions[ms.touched[tbl]]
				if tbl == 0 {
					fmt.Fprintf(&sb, " snap-t=%s,%v,%v", v.t, v.hasC, v.hasIdx)
				} else {
					fmt.Fprintf(&sb, " snap-u=%s", v.u)
				}
			}
		}
	}
	return sb.String()
}
