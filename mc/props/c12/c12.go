// Package c12 — prepared statements behave like the inlined statement text.
//
// A catalogue of parameterised statements × a typed parameter alphabet × four routes (SQL
// PREPARE/EXECUTE USING @v, Engine.QueryWithBindings, the handler's ComPrepare/ComStmtExecute,
// and go-sql-driver on a unix socket), each compared with the same statement text with the
// values written as literals; plus re-execution histories (hist.go).
package c12

import (
	"context"
	dsql "database/sql"
	"encoding/json"
	"fmt"
	"io"
	"strconv"
	"strings"

	"github.com/dolthub/go-mysql-server/sql"
	"github.com/dolthub/vitess/go/sqltypes"
	querypb "github.com/dolthub/vitess/go/vt/proto/query"
	"github.com/dolthub/vitess/go/vt/sqlparser"

	"verif/mc/core"
	"verif/mc/eng"
	"verif/mc/props/c35/wire"
)

func init() {
	core.Register(&core.Prop{
		ID:    "C12",
		Level: "exploration",
		Rule: "catalogue part: 63 parameterised statements (? in WHERE comparisons/BETWEEN/LIKE/IS NULL/<=>, select list, arithmetic, CASE, CAST, LIMIT and OFFSET, IN lists, function arguments, HAVING, scalar subquery, join condition, derived table, EXISTS, UNION, INSERT VALUES / INSERT…SELECT / ON DUPLICATE KEY / REPLACE / UPDATE / DELETE); for every statement and every parameter slot, the slot takes every value of a 62-value typed alphabet (NULL; INT64 at every width boundary ±1; UINT64; INT8/UINT8/INT16/INT32/UINT32/YEAR-typed integers; DECIMAL; DOUBLE/FLOAT; VARCHAR/TEXT incl. empty, numeric-looking, quote, backslash, multi-byte, LIKE pattern; BLOB incl. non-UTF-8; DATE/DATETIME/TIMESTAMP/TIME; JSON) while the other slots keep a default (thorough adds, for every statement with two or more parameters, every pair of a 14-value reduced alphabet in its first two slots); each tuple is executed (DML: on a fresh engine per execution; SELECT: fresh session/connection on a per-worker engine) through every route {SQL PREPARE + SET @v + EXECUTE USING, Engine.QueryWithBindings, handler ComPrepare+ComStmtExecute, go-sql-driver prepared statement on a unix socket (values expressible as driver.Value)} and compared with Engine.Query (or, for the protocol routes, ComQuery / a text-protocol query) of the statement text with the values inlined as literals: rows in order, affected rows / insert id, table dump after DML, error number; tuples whose inlined text is not parsable (LIMIT 'x', LIMIT NULL) are outside the domain and only checked for crashes. " +
			"history part: 5 (statement, v1, v2, DML, ALTER) configurations × 3 routes: every sequence of {prepare, execute(v1), execute(v2), DML, ALTER, deallocate} up to depth 4 (quick) / 5 (thorough) by BFS on fresh engines (hist.Explore), the oracle applied at every step against a twin engine that runs the inlined text. " +
			"A case is non-trivial when the prepared execution and the inlined execution both ran and at least one of them succeeded.",
		Assumptions: []string{
			"literal rendering per type is the harness's: integers as digits, DECIMAL as digits with point, DOUBLE with exponent (1.5e+00), character strings quoted, BLOB as the binary-string expression unhex('…') (not x'…', which MySQL treats as a number in numeric context; the quoted string is accepted too when it is valid UTF-8), DATE/TIME/DATETIME/TIMESTAMP/JSON as quoted strings",
			"ORDER BY ? / GROUP BY ? are not in the catalogue (a parameter there is a constant in MySQL, the inlined integer a column position)",
			"result column types and names are not compared (MySQL types parameters differently from literals as well); values are compared in their canonical text",
			"protocol routes are compared with the same protocol on a twin engine running the inlined text, so wire encoding (C28) is not judged again here",
		},
		Run:    run,
		Replay: replay,
	})
}

// ---------------------------------------------------------------------------------------------

type kase struct {
	Part  string   `json:"part"` // catalogue | history
	Stmt  string   `json:"stmt"`
	Vals  []string `json:"vals,omitempty"` // value names, one per slot
	Route string   `json:"route"`
	Hist  []string `json:"hist,omitempty"`
	Cfg   int      `json:"cfg,omitempty"`
}

var routes = []string{"sql-prepare", "api-bindings", "handler-binary", "driver-binary"}

// outcome of one execution in canonical form.
type outcome struct {
	ErrNum int    // 0 = success
	ErrMsg string // for messages only
	Panic  string
	Rows   []string
	OK     string
	Dump   string
}

func (o outcome) String() string {
	switch {
	case o.Panic != "":
		return "PANIC " + o.Panic
	case o.ErrNum != 0:
		return fmt.Sprintf("ERROR %d (%s)", o.ErrNum, clip(o.ErrMsg))
	case o.OK != "":
		return o.OK + dumpNote(o.Dump)
	}
	return fmt.Sprintf("%d rows %s", len(o.Rows), clip(strings.Join(o.Rows, " ")))
}

func dumpNote(d string) string {
	if d == "" {
		return ""
	}
	return " tables: " + clip(strings.ReplaceAll(d, "\n", " "))
}

func clip(s string) string {
	if len(s) > 400 {
		return s[:400] + "…"
	}
	return s
}

func errNum(err error) int {
	if err == nil {
		return 0
	}
	if c := sql.CastSQLError(err); c != nil {
		return c.Number()
	}
	return 1105
}

func sameOutcome(a, b outcome) bool {
	if a.Panic != "" || b.Panic != "" {
		return false
	}
	if a.ErrNum != 0 || b.ErrNum != 0 {
		return a.ErrNum == b.ErrNum && a.Dump == b.Dump
	}
	return a.OK == b.OK && eng.EqualStrings(a.Rows, b.Rows) && a.Dump == b.Dump
}

// diffKind classifies how two outcomes differ.
func diffKind(got, want outcome) string {
	switch {
	case got.Panic != "":
		return "panic"
	case got.ErrNum != 0 && want.ErrNum == 0:
		return "error-instead-of-result"
	case got.ErrNum == 0 && want.ErrNum != 0:
		return "result-instead-of-error"
	case got.ErrNum != 0:
		if got.ErrNum != want.ErrNum {
			return "different-error"
		}
		return "different-effects-after-error"
	case got.OK != want.OK:
		return "different-ok-counts"
	case !eng.EqualStrings(got.Rows, want.Rows):
		return "different-rows"
	}
	return "different-table-contents"
}

func inline(q string, lits []string) string {
	var sb strings.Builder
	i := 0
	for _, c := range q {
		if c == '?' {
			sb.WriteString(lits[i])
			i++
		} else {
			sb.WriteRune(c)
		}
	}
	if i != len(lits) {
		panic("placeholder count: " + q)
	}
	return sb.String()
}

func engOutcome(s *eng.Session, res *eng.Result, dump bool) outcome {
	o := outcome{}
	if res.Panic != nil {
		o.Panic = fmt.Sprintf("%v at %s", res.Panic, topFrame(res.Stack))
		return o
	}
	if res.Err != nil {
		o.ErrNum, o.ErrMsg = errNum(res.Err), res.Err.Error()
	} else if ok, isOK := res.OK(); isOK {
		o.OK = fmt.Sprintf("OK affected=%d insert_id=%d", ok.RowsAffected, ok.InsertID)
	} else {
		o.Rows = res.RowStrings()
	}
	if dump {
		o.Dump = s.DumpRows()
	}
	return o
}

func wireOutcome(s *eng.Session, res *wire.Res, dump bool) outcome {
	o := outcome{}
	if res.Panic != nil {
		o.Panic = fmt.Sprintf("%v at %s", res.Panic, topFrame(res.Stack))
		return o
	}
	if res.Err != nil {
		o.ErrNum, o.ErrMsg = errNum(res.Err), res.Err.Error()
	} else if res.IsOK() {
		b := res.Batches[0]
		o.OK = fmt.Sprintf("OK affected=%d insert_id=%d", b.RowsAffected, b.InsertID)
	} else {
		for _, row := range res.Rows() {
			parts := make([]string, len(row))
			for i, c := range row {
				if c.IsNull() {
					parts[i] = "NULL"
				} else {
					parts[i] = "'" + string(c.Raw()) + "'"
				}
			}
			o.Rows = append(o.Rows, "("+strings.Join(parts, ",")+")")
		}
	}
	if dump {
		o.Dump = s.DumpRows()
	}
	return o
}

func topFrame(stack string) string {
	for _, l := range strings.Split(stack, "\n") {
		if strings.HasPrefix(l, "github.com/dolthub/") && !strings.Contains(l, "verif") {
			if i := strings.LastIndex(l, "("); i > 0 {
				l = l[:i]
			}
			return l
		}
	}
	return "unknown"
}

// world: an engine with the fixture. Read-only statements (SELECT) share one world per worker
// (fresh session / connection per execution); DML statements get a fresh world per execution.
type world struct {
	e      *eng.Engine
	s      *eng.Session
	shared bool
	srv    *wire.Server // in-process handler
	ssrv   *wire.Server // unix socket
	db     *dsql.DB
}

func newWorld() *world {
	w := &world{e: eng.New()}
	w.s = w.e.NewSession("root")
	for _, q := range fixture {
		w.s.MustExec(q)
	}
	return w
}

var sharedWorld *world

func acquire(st stmt) *world {
	if st.DML {
		return newWorld()
	}
	if sharedWorld == nil {
		sharedWorld = newWorld()
		sharedWorld.shared = true
	}
	return sharedWorld
}

// session: the setup session for a fresh world, a new session on the shared one.
func (w *world) session() *eng.Session {
	if w.shared {
		return w.e.NewSession("root")
	}
	return w.s
}

func (w *world) handler() *wire.Server {
	if w.srv == nil {
		w.srv = wire.Start(w.e.E, w.e.Pro, wire.Options{})
	}
	return w.srv
}

func (w *world) pool() *dsql.DB {
	if w.db == nil {
		w.ssrv = wire.Start(w.e.E, w.e.Pro, wire.Options{Socket: true})
		w.db = w.ssrv.DB("mydb", "")
	}
	return w.db
}

func (w *world) release() {
	if w.shared {
		return
	}
	if w.db != nil {
		w.db.Close()
		w.ssrv.Close()
	}
	if w.srv != nil {
		w.srv.Close()
	}
}

func bindVar(p pval) *querypb.BindVariable {
	if p.BT == querypb.Type_NULL_TYPE {
		return &querypb.BindVariable{Type: querypb.Type_NULL_TYPE}
	}
	return wire.BV(p.BT, p.Text)
}

// bindingExprs: what the handler (and the database/sql driver of the repo) build from protocol
// values: sqltypes.BindVariableToValue + sqlparser.ExprFromValue.
func bindingExprs(vals []pval) (map[string]sqlparser.Expr, error) {
	out := map[string]sqlparser.Expr{}
	for i, p := range vals {
		v, err := sqltypes.BindVariableToValue(bindVar(p))
		if err != nil {
			return nil, err
		}
		e, err := sqlparser.ExprFromValue(v)
		if err != nil {
			return nil, err
		}
		out[fmt.Sprintf("v%d", i+1)] = e
	}
	return out, nil
}

func drain(ctx *sql.Context, f func() (sql.Schema, sql.RowIter, error)) *eng.Result {
	res := &eng.Result{}
	pv, stack := core.Try(func() {
		sch, it, err := f()
		if err != nil {
			res.Err = err
			return
		}
		res.Schema = sch
		for {
			row, err := it.Next(ctx)
			if err == io.EOF {
				break
			}
			if err != nil {
				res.Err = err
				it.Close(ctx)
				return
			}
			res.Rows = append(res.Rows, row)
		}
		if err := it.Close(ctx); err != nil {
			res.Err = err
		}
	})
	if pv != nil {
		res.Panic, res.Stack, res.Err = pv, stack, fmt.Errorf("panic: %v", pv)
	}
	return res
}

// refEngine / refHandler / refDriver run the inlined text on a twin world through the same
// observation channel as the route they belong to.
func refEngine(st stmt, inl string) outcome {
	w := acquire(st)
	defer w.release()
	s := w.session()
	return engOutcome(s, s.Exec(inl), st.DML)
}

func refHandler(st stmt, inl string) outcome {
	w := acquire(st)
	defer w.release()
	c := w.handler().NewConn("mydb")
	defer c.Close()
	return wireOutcome(w.s, c.Query(inl), st.DML)
}

// channelOf: routes that share a reference channel.
func channelOf(route string) string {
	switch route {
	case "sql-prepare", "api-bindings":
		return "engine"
	case "handler-binary":
		return "handler"
	}
	return "driver"
}

func refRun(route string, st stmt, inl string) outcome {
	switch channelOf(route) {
	case "engine":
		return refEngine(st, inl)
	case "handler":
		return refHandler(st, inl)
	}
	return driverRun(st, inl, nil)
}

// runRoute executes the prepared form of st with vals and returns its outcome.
func runRoute(route string, st stmt, vals []pval) (got outcome, applicable bool) {
	switch route {
	case "sql-prepare":
		w := acquire(st)
		defer w.release()
		s := w.session()
		for i, p := range vals {
			if r := s.Exec(fmt.Sprintf("set @p%d = %s", i+1, p.Lits[0])); r.Err != nil {
				return outcome{}, false // the value cannot be put into a user variable
			}
		}
		var res *eng.Result
		if r := s.Exec("prepare st from " + quote(st.Q)); r.Err != nil {
			res = r
		} else {
			names := make([]string, len(vals))
			for i := range vals {
				names[i] = fmt.Sprintf("@p%d", i+1)
			}
			q := "execute st"
			if len(names) > 0 {
				q += " using " + strings.Join(names, ", ")
			}
			res = s.Exec(q)
		}
		return engOutcome(s, res, st.DML), true

	case "api-bindings":
		w := acquire(st)
		defer w.release()
		s := w.session()
		b, err := bindingExprs(vals)
		if err != nil {
			return outcome{}, false
		}
		ctx := s.NewCtx()
		res := drain(ctx, func() (sql.Schema, sql.RowIter, error) {
			sch, it, _, err := w.e.E.QueryWithBindings(ctx, st.Q, nil, b, nil)
			return sch, it, err
		})
		return engOutcome(s, res, st.DML), true

	case "handler-binary":
		w := acquire(st)
		defer w.release()
		c := w.handler().NewConn("mydb")
		defer c.Close()
		var res *wire.Res
		ps, err := c.Prepare(st.Q, len(vals))
		if err != nil {
			res = &wire.Res{Err: err}
		} else {
			bvs := make([]*querypb.BindVariable, len(vals))
			for i, p := range vals {
				bvs[i] = bindVar(p)
			}
			res = ps.Execute(bvs, nil)
		}
		return wireOutcome(w.s, res, st.DML), true

	case "driver-binary":
		args := make([]any, len(vals))
		for i, p := range vals {
			if !p.HasGo {
				return outcome{}, false
			}
			args[i] = p.Go
		}
		return driverRun(st, st.Q, args), true
	}
	panic("route " + route)
}

func driverCell(v any) string {
	switch x := v.(type) {
	case nil:
		return "NULL"
	case int64:
		return "'" + strconv.FormatInt(x, 10) + "'"
	case uint64:
		return "'" + strconv.FormatUint(x, 10) + "'"
	case float32:
		return "'" + strconv.FormatFloat(float64(x), 'g', -1, 32) + "'"
	case float64:
		return "'" + strconv.FormatFloat(x, 'g', -1, 64) + "'"
	case []byte:
		return "'" + string(x) + "'"
	case string:
		return "'" + x + "'"
	}
	return fmt.Sprintf("%T(%v)", v, v)
}

// driverRun executes q with args through go-sql-driver on a fresh world (args == nil: text
// protocol; otherwise a server-side prepared statement).
func driverRun(st stmt, q string, args []any) (o outcome) {
	w := acquire(st)
	defer w.release()
	db := w.pool()
	ctx := context.Background()
	conn, err := db.Conn(ctx)
	if err != nil {
		panic(fmt.Sprintf("harness: cannot connect: %v", err))
	}
	defer conn.Close()
	if st.DML {
		var res dsql.Result
		if args == nil {
			res, err = conn.ExecContext(ctx, q)
		} else {
			res, err = conn.ExecContext(ctx, q, args...)
		}
		if err != nil {
			o.ErrNum, o.ErrMsg = driverErrNum(err), err.Error()
		} else {
			a, _ := res.RowsAffected()
			id, _ := res.LastInsertId()
			o.OK = fmt.Sprintf("OK affected=%d insert_id=%d", a, id)
		}
		o.Dump = w.s.DumpRows()
		return o
	}
	var rows *dsql.Rows
	if args == nil {
		rows, err = conn.QueryContext(ctx, q)
	} else {
		rows, err = conn.QueryContext(ctx, q, args...)
	}
	if err != nil {
		o.ErrNum, o.ErrMsg = driverErrNum(err), err.Error()
		return o
	}
	defer rows.Close()
	defer func() {
		if x := recover(); x != nil { // client library panic on a malformed stream
			o = outcome{ErrNum: -2, ErrMsg: fmt.Sprintf("client library panic on the received stream: %v", x)}
		}
	}()
	cols, _ := rows.Columns()
	for rows.Next() {
		vals := make([]any, len(cols))
		ptrs := make([]any, len(cols))
		for i := range vals {
			ptrs[i] = &vals[i]
		}
		if err := rows.Scan(ptrs...); err != nil {
			o.ErrNum, o.ErrMsg = driverErrNum(err), err.Error()
			return o
		}
		parts := make([]string, len(vals))
		for i, v := range vals {
			parts[i] = driverCell(v)
		}
		o.Rows = append(o.Rows, "("+strings.Join(parts, ",")+")")
	}
	if err := rows.Err(); err != nil {
		o.ErrNum, o.ErrMsg = driverErrNum(err), err.Error()
	}
	return o
}

// ---------------------------------------------------------------------------------------------

func whereClass(q string) string {
	l := strings.ToLower(q)
	switch {
	case strings.HasPrefix(l, "insert"), strings.HasPrefix(l, "replace"):
		return "insert"
	case strings.HasPrefix(l, "update"):
		return "update"
	case strings.HasPrefix(l, "delete"):
		return "delete"
	case strings.Contains(l, "limit ?") || strings.Contains(l, "offset ?"):
		return "limit"
	case strings.Contains(l, " in (?") || strings.Contains(l, "? in ("):
		return "in-list"
	case strings.Contains(l, "having"):
		return "having"
	case strings.Contains(l, "union") || strings.Contains(l, "(select") || strings.Contains(l, " join "):
		return "subquery-join-union"
	case strings.HasPrefix(l, "select id") || strings.HasPrefix(l, "select count(*) from t where"):
		return "where"
	}
	return "select-list"
}

func ptypeClass(p pval) string {
	switch p.BT {
	case querypb.Type_NULL_TYPE:
		return "null"
	case querypb.Type_DECIMAL:
		return "decimal"
	case querypb.Type_FLOAT32, querypb.Type_FLOAT64:
		return "float"
	case querypb.Type_VARCHAR, querypb.Type_TEXT:
		return "string"
	case querypb.Type_BLOB:
		return "binary"
	case querypb.Type_DATE, querypb.Type_DATETIME, querypb.Type_TIMESTAMP, querypb.Type_TIME:
		return "temporal"
	case querypb.Type_JSON:
		return "json"
	case querypb.Type_UINT64:
		return "uint64"
	}
	return "int"
}

func findStmt(q string) (stmt, bool) {
	for _, s := range catalogue() {
		if s.Q == q {
			return s, true
		}
	}
	return stmt{}, false
}

func findVal(name string, defs []pval) (pval, bool) {
	for _, p := range alphabet() {
		if p.Name == name {
			return p, true
		}
	}
	for _, p := range defs {
		if p.Name == name {
			return p, true
		}
	}
	return pval{}, false
}

func mechOf(route string) string {
	if route == "sql-prepare" {
		return "uservar"
	}
	return "bindvar"
}

func isParseError(o outcome) bool {
	return o.ErrNum != 0 && strings.Contains(strings.ToLower(o.ErrMsg), "syntax error")
}

// catalogueCase runs one (statement, value tuple) through the given routes; slot is the varied
// slot. The inlined references are computed once per observation channel.
func catalogueCase(r *core.Run, st stmt, vals []pval, slots []int, rts []string) {
	names := make([]string, len(vals))
	for i, p := range vals {
		names[i] = p.Name
	}
	// every combination of the allowed renderings of the varied values (first = all primary)
	var inlinedTexts []string
	lits := make([]string, len(vals))
	for i, p := range vals {
		lits[i] = p.Lits[0]
	}
	var rec func(k int)
	rec = func(k int) {
		if k == len(slots) {
			inlinedTexts = append(inlinedTexts, inline(st.Q, lits))
			return
		}
		for _, lit := range vals[slots[k]].Lits {
			lits[slots[k]] = lit
			rec(k + 1)
		}
		lits[slots[k]] = vals[slots[k]].Lits[0]
	}
	rec(0)
	// classifying type of the tuple: the type classes of the varied slots ("null+binary" for a pair)
	ptype := ""
	for _, sl := range slots {
		c := ptypeClass(vals[sl])
		if !strings.Contains("+"+ptype+"+", "+"+c+"+") {
			if ptype != "" {
				ptype += "+"
			}
			ptype += c
		}
	}
	refCache := map[string]outcome{}
	ref := func(route string, i int) outcome {
		key := fmt.Sprintf("%s|%d", channelOf(route), i)
		if o, ok := refCache[key]; ok {
			return o
		}
		o := refRun(route, st, inlinedTexts[i])
		refCache[key] = o
		return o
	}
	for _, route := range rts {
		k := kase{Part: "catalogue", Stmt: st.Q, Vals: names, Route: route}
		r.AnnounceCase(string(core.J(k)))
		r.Eval()
		got, ok := runRoute(route, st, vals)
		if !ok {
			r.Count("route_not_applicable", 1)
			continue
		}
		matched := false
		for i := range inlinedTexts {
			if sameOutcome(got, ref(route, i)) {
				matched = true
				break
			}
		}
		want := ref(route, 0)
		subj := map[string]string{"mech": mechOf(route), "where": whereClass(st.Q), "ptype": ptype}
		if isParseError(want) {
			// the inlined text is not a statement (LIMIT 'x', LIMIT NULL …): the property says nothing
			// about the result, but the prepared execution must not crash
			r.Count("skipped_inlined_text_unparsable", 1)
			r.Outcome(fmt.Sprintf("%s/%s/%s/inlined-unparsable", route, whereClass(st.Q), ptype))
			switch {
			case got.Panic != "":
				subj["frame"] = got.Panic[strings.LastIndex(got.Panic, " at ")+4:]
				r.Violate(core.Violation{Check: "catalogue", Clause: "no-panic", Kind: "panic", Subject: subj, Witness: core.J(k), Observed: "prepared: " + got.String(), Expected: "an error or a result"})
			case got.ErrNum == -1:
				r.Violate(core.Violation{Check: "catalogue", Clause: "no-panic", Kind: "connection-lost", Subject: subj, Witness: core.J(k), Observed: "prepared: " + got.String(), Expected: "an error packet or a result"})
			}
			continue
		}
		class := "both-fail"
		if got.ErrNum == 0 || want.ErrNum == 0 {
			class = "result"
			r.NonTrivial(fmt.Sprintf("%s|%v|%s", st.Q, names, route))
		}
		if want.ErrNum != 0 && eng.ErrClass(fmt.Errorf("%s", want.ErrMsg)) == "unsupported" {
			r.Count("skipped_unsupported", 1)
		}
		r.Outcome(fmt.Sprintf("%s/%s/%s/%s", route, whereClass(st.Q), ptype, class))
		if !matched && (strings.Contains(got.ErrMsg, "i/o timeout") || strings.Contains(want.ErrMsg, "i/o timeout")) {
			r.Count("socket_timeouts", 1) // the client gave up waiting: inconclusive
			continue
		}
		if !matched {
			kind := diffKind(got, want)
			if kind == "panic" {
				subj["frame"] = got.Panic[strings.LastIndex(got.Panic, " at ")+4:]
			}
			r.Violate(core.Violation{Check: "catalogue", Clause: "prepared-equals-inlined", Kind: kind, Subject: subj, Witness: core.J(k),
				Observed: "prepared: " + got.String(), Expected: "inlined [" + clip(inlinedTexts[0]) + "]: " + want.String()})
		}
		if r.WantSample() && matched && len(slots) == 1 && slots[0] == 0 && (vals[0].Name == "int64:128" || vals[0].Name == "varchar:it's") && (route == "handler-binary" || route == "sql-prepare") {
			r.Sample(map[string]any{"statement": st.Q, "values": names, "route": route, "inlined_text": inlinedTexts[len(inlinedTexts)-1], "prepared_outcome": got.String(), "inlined_outcome": want.String()})
		}
	}
}

func run(r *core.Run) {
	runSequences(r)
	runHistories(r) // the cheaper part first
	var idx int64
	alpha := alphabet()
	cat := catalogue()
	nTuples := 0
	capped := false
	for _, st := range cat {
		seen := map[string]bool{}
		for slot := range st.Def {
			for _, v := range alpha {
				vals := append([]pval(nil), st.Def...)
				vals[slot] = v
				key := ""
				for _, p := range vals {
					key += p.Name + "\x00"
				}
				if seen[key] {
					continue
				}
				seen[key] = true
				nTuples++
				i := idx
				idx++
				if !r.Mine(i) {
					continue
				}
				if r.Expired() {
					capped = true
					continue
				}
				catalogueCase(r, st, vals, []int{slot}, routes)
			}
		}
		// thorough: the first two slots of multi-parameter statements take every pair of a reduced
		// alphabet (one value per type class and the width boundaries)
		if r.Thorough() && len(st.Def) >= 2 {
			red := reducedAlphabet()
			for _, v0 := range red {
				for _, v1 := range red {
					vals := append([]pval(nil), st.Def...)
					vals[0], vals[1] = v0, v1
					key := ""
					for _, p := range vals {
						key += p.Name + "\x00"
					}
					if seen[key] {
						continue
					}
					seen[key] = true
					nTuples++
					i := idx
					idx++
					if !r.Mine(i) {
						continue
					}
					if r.Expired() {
						capped = true
						continue
					}
					catalogueCase(r, st, vals, []int{0, 1}, routes)
				}
			}
		}
	}
	r.Info("catalogue_statements", len(cat))
	r.Info("alphabet_values", len(alpha))
	r.Info("value_tuples", nTuples)
	if capped {
		r.Capped("catalogue part stopped by the time budget")
	}
}

func replay(r *core.Run, w json.RawMessage) {
	if replaySeq(r, w) {
		return
	}
	var k kase
	if err := json.Unmarshal(w, &k); err != nil {
		panic(err)
	}
	if k.Part == "history" {
		replayHistory(r, k)
		return
	}
	st, ok := findStmt(k.Stmt)
	if !ok {
		panic("unknown statement " + k.Stmt)
	}
	vals := make([]pval, len(k.Vals))
	var slots []int
	for i, n := range k.Vals {
		p, ok := findVal(n, st.Def)
		if !ok {
			panic("unknown value " + n)
		}
		vals[i] = p
		if n != st.Def[i].Name {
			slots = append(slots, i)
		}
	}
	if len(slots) == 0 {
		slots = []int{0}
	}
	catalogueCase(r, st, vals, slots, []string{k.Route})
}
