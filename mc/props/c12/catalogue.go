package c12

// stmt is one parameterised statement of the catalogue: the text with ? placeholders and the
// default value of every slot (used while another slot is varied over the whole alphabet).
type stmt struct {
	Q    string
	Def  []pval
	DML  bool
	Skip string // non-empty: why a route is not applicable (unused)
}

var fixture = []string{
	"create table t (id int primary key, a int, b varchar(20), c decimal(10,2), d datetime, e double, f blob, j json)",
	`insert into t values (1,10,'x',1.50,'2020-01-01 00:00:00',1.5,x'61','{"k": 1}'), (2,20,'y',2.25,'2020-06-15 12:00:00',-2.5,x'00ff','[1, 2]'), (3,null,null,null,null,null,null,null), (4,127,'abc',999.99,'1999-12-31 23:59:59',1e20,x'','{}'), (5,10,'10',0.00,'2020-01-01 10:11:12',0,x'414200','null')`,
	"create table u (id int primary key auto_increment, v varchar(20), n int)",
	"insert into u (v, n) values ('x', 1), ('q', 2), ('x', 4)",
}

func sel(q string, def ...pval) stmt { return stmt{Q: q, Def: def} }
func dml(q string, def ...pval) stmt { return stmt{Q: q, Def: def, DML: true} }

// catalogue: ? in WHERE, select list, LIMIT/OFFSET, IN lists, function arguments, HAVING,
// subqueries/joins/derived tables/unions, and INSERT/UPDATE/DELETE/REPLACE/ON DUPLICATE KEY.
func catalogue() []stmt {
	return []stmt{
		// WHERE
		sel("select id from t where a = ? order by id", dI(10)),
		sel("select id from t where a > ? order by id", dI(10)),
		sel("select id from t where b = ? order by id", dS("x")),
		sel("select id from t where c <= ? order by id", dD("1.50")),
		sel("select id from t where d < ? order by id", dT("2020-01-01 10:11:12")),
		sel("select id from t where e = ? order by id", dF(1.5)),
		sel("select id from t where f = ? order by id", dB("61")),
		sel("select id from t where a between ? and ? order by id", dI(10), dI(20)),
		sel("select id from t where a is null or a <> ? order by id", dI(10)),
		sel("select id from t where b like ? order by id", dS("%b%")),
		sel("select id from t where ? is null order by id", dI(1)),
		sel("select id, b from t where id = ?", dI(2)),
		sel("select id from t where a = ? or b = ? order by id", dI(20), dS("abc")),
		sel("select id from t where not (a < ?) order by id", dI(20)),
		sel("select id from t where a <=> ? order by id", dI(10)),
		// select list
		sel("select ?", dI(1)),
		sel("select ?, id from t order by id", dS("x")),
		sel("select ? + 1", dI(1)),
		sel("select ? + a from t order by id", dI(1)),
		sel("select concat(?, b) from t order by id", dS("p")),
		sel("select ? is null, ? = ?", dI(1), dI(1), dS("1")),
		sel("select 0 - ?", dI(1)),
		sel("select ? div 2, ? % 3", dI(7), dI(7)),
		sel("select case when a > ? then 'big' else 'small' end from t order by id", dI(15)),
		sel("select coalesce(?, a) from t order by id", dI(5)),
		sel("select cast(? as signed), cast(? as char), cast(? as decimal(10,2))", dS("12"), dI(12), dS("1.5")),
		sel("select ? = a, ? = b from t order by id", dI(10), dS("x")),
		// LIMIT / OFFSET
		sel("select id from t order by id limit ?", dI(2)),
		sel("select id from t order by id limit ? offset ?", dI(2), dI(1)),
		sel("select id from t order by id limit 2 offset ?", dI(3)),
		// IN lists
		sel("select id from t where a in (?, ?, ?) order by id", dI(10), dI(20), dI(30)),
		sel("select id from t where b in (?, 'y') order by id", dS("x")),
		sel("select id from t where a not in (?, ?) order by id", dI(10), dI(127)),
		sel("select ? in (1, 2, 3)", dI(2)),
		// function arguments
		sel("select length(?), upper(?), hex(?)", dS("abc"), dS("abc"), dS("abc")),
		sel("select abs(?), round(?, 1), floor(?)", dD("-1.55"), dD("-1.55"), dD("-1.55")),
		sel("select date_add(?, interval 1 day)", dT("2020-01-01 10:11:12")),
		sel("select date_format(?, '%Y-%m')", dT("2020-01-01 10:11:12")),
		sel("select substring(b, ?) from t order by id", dI(2)),
		sel("select json_extract(?, '$.k')", dJ(`{"k": 1}`)),
		sel("select if(?, 'yes', 'no')", dI(1)),
		sel("select ifnull(?, 'dflt')", dI(1)),
		sel("select greatest(?, 5), least(?, 5)", dI(7), dI(7)),
		// aggregation / HAVING
		sel("select count(*) from t where a > ?", dI(10)),
		sel("select a, count(*) from t group by a having count(*) >= ? order by a", dI(2)),
		sel("select sum(a + ?) from t", dI(1)),
		// subqueries, joins, derived tables, unions
		sel("select id from t where a > (select min(a) + ? from t) order by id", dI(5)),
		sel("select t.id from t join u on t.id = u.n and u.v = ? order by t.id", dS("x")),
		sel("select id from (select id, a from t where a > ?) s order by id", dI(10)),
		sel("select id from t where exists (select 1 from u where u.n = t.id and u.v = ?) order by id", dS("x")),
		sel("select id from t where a = ? union select id from t where a = ? order by 1", dI(10), dI(20)),
		// DML
		dml("insert into u (v, n) values (?, ?)", dS("new"), dI(9)),
		dml("insert into u (v) values (?), (?)", dS("p"), dS("q")),
		dml("insert into t (id, a, b) values (?, ?, ?)", dI(9), dI(90), dS("nine")),
		dml("insert into u (v, n) select b, ? from t where a > ?", dI(7), dI(10)),
		dml("update t set a = ? where id = 1", dI(11)),
		dml("update t set b = ?, a = a + ? where id > ?", dS("upd"), dI(1), dI(3)),
		dml("update t set c = ?, d = ?, e = ?, f = ? where id = 2", dD("3.25"), dT("2021-02-03 04:05:06"), dF(2.5), dB("0102")),
		dml("update t set j = ? where id = 1", dJ(`{"k": 2}`)),
		dml("delete from t where a = ?", dI(10)),
		dml("delete from t where id in (?, ?)", dI(1), dI(4)),
		dml("insert into t (id, a) values (?, ?) on duplicate key update a = ?", dI(1), dI(5), dI(55)),
		dml("replace into u (id, v) values (?, ?)", dI(1), dS("rep")),
	}
}
