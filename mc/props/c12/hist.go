package c12

import (
	"errors"
	"fmt"
	"strings"

	"github.com/dolthub/go-mysql-server/sql"
	querypb "github.com/dolthub/vitess/go/vt/proto/query"
	gomysql "github.com/go-sql-driver/mysql"

	"verif/mc/core"
	"verif/mc/eng"
	"verif/mc/hist"
	"verif/mc/props/c35/wire"
)

func driverErrNum(err error) int {
	var me *gomysql.MySQLError
	if errors.As(err, &me) {
		return int(me.Number)
	}
	return -1
}

// hcfg is one history configuration.
type hcfg struct {
	Q      string
	V1, V2 pval
	D, A   string
	DML    bool
}

func hconfigs() []hcfg {
	return []hcfg{
		{Q: "select * from t where a > ? order by id", V1: dI(15), V2: dI(5), D: "update t set a = a + 100 where id = 1", A: "alter table t add column z int default 7"},
		{Q: "insert into u (v, n) values (?, 1)", V1: dS("p"), V2: vNull(), D: "delete from u where n = 1", A: "alter table u add column w int not null default 3", DML: true},
		{Q: "update t set b = ? where id = 1", V1: dS("new"), V2: dI(12345), D: "delete from t where id = 1", A: "alter table t modify b varchar(3)", DML: true},
		{Q: "select count(*) from t where d < ?", V1: dT("2020-01-01 10:11:12"), V2: dS("2020-01-01"), D: "insert into t (id, d) values (9, '1990-01-01 00:00:00')", A: "alter table t drop column d"},
		{Q: "select id from t where a = ? order by id limit 2", V1: dI(10), V2: dI(127), D: "insert into t (id, a) values (8, 10), (7, 10)", A: "alter table t add index ia (a)"},
	}
}

const (
	opP = iota
	opE1
	opE2
	opD
	opA
	opX
	nOps
)

var opNames = []string{"prepare", "execute(v1)", "execute(v2)", "dml", "alter", "deallocate"}

var histRoutes = []string{"sql-prepare", "api-bindings", "handler-binary"}

// hsys is the system under test for one history.
type hsys struct {
	route string
	cfg   hcfg
	w     *world
	srv   *wire.Server
	c     *wire.Conn
	ps    *wire.Stmt
	// reference twin
	ref      *world
	prepared bool // reference model: is the statement prepared
}

func newHsys(route string, cfg hcfg) *hsys {
	h := &hsys{route: route, cfg: cfg}
	h.ref = newWorld()
	h.w = newWorld()
	if route == "handler-binary" {
		h.srv = h.w.handler()
		h.c = h.srv.NewConn("mydb")
	}
	return h
}

func (h *hsys) close() {
	if h.c != nil {
		h.c.Close()
	}
	h.w.release()
}

var errUnknownStmt = errNum(sql.ErrUnknownPreparedStatement.New("st"))

// apply runs op on both systems; it returns the outcomes (got, want), whether the op is enabled,
// and alternative acceptable outcomes.
func (h *hsys) apply(op int) (got outcome, wants []outcome, enabled bool) {
	cfg := h.cfg
	val := func() pval {
		if op == opE2 {
			return cfg.V2
		}
		return cfg.V1
	}
	refExec := func(q string) outcome { return engOutcome(h.ref.s, h.ref.s.Exec(q), true) }
	okOutcome := func() outcome { return outcome{OK: "OK affected=0 insert_id=0", Dump: h.ref.s.DumpRows()} }
	errOutcome := func(n int) outcome {
		return outcome{ErrNum: n, ErrMsg: "unknown prepared statement", Dump: h.ref.s.DumpRows()}
	}

	switch op {
	case opD, opA:
		q := cfg.D
		if op == opA {
			q = cfg.A
		}
		want := refExec(q)
		if h.route == "handler-binary" {
			got = wireOutcome(h.w.s, h.c.Query(q), true)
		} else {
			got = engOutcome(h.w.s, h.w.s.Exec(q), true)
		}
		return got, []outcome{want}, true

	case opP:
		// reference: preparing succeeds when the statement can be planned; an engine that defers the
		// error to EXECUTE is accepted as well
		inl := inline(cfg.Q, []string{cfg.V1.Lits[0]})
		_, perr := h.ref.s.Plan(inl)
		wants = []outcome{okOutcome()}
		if perr != nil {
			wants = append(wants, outcome{ErrNum: errNum(perr), ErrMsg: perr.Error(), Dump: h.ref.s.DumpRows()})
		}
		switch h.route {
		case "sql-prepare":
			res := h.w.s.Exec("prepare st from " + quote(cfg.Q))
			got = engOutcome(h.w.s, res, true)
			if res.Err == nil {
				got.OK = "OK affected=0 insert_id=0"
			}
		case "api-bindings":
			ctx := h.w.s.NewCtx()
			var err error
			pv, stack := core.Try(func() { _, err = h.w.e.E.PrepareQuery(ctx, cfg.Q) })
			got = outcome{Dump: h.w.s.DumpRows()}
			switch {
			case pv != nil:
				got.Panic = fmt.Sprintf("%v at %s", pv, topFrame(stack))
			case err != nil:
				got.ErrNum, got.ErrMsg = errNum(err), err.Error()
			default:
				got.OK = "OK affected=0 insert_id=0"
			}
		case "handler-binary":
			ps, err := h.c.Prepare(cfg.Q, 1)
			got = outcome{Dump: h.w.s.DumpRows()}
			if err != nil {
				got.ErrNum, got.ErrMsg = errNum(err), err.Error()
			} else {
				got.OK = "OK affected=0 insert_id=0"
				h.ps = ps
			}
		}
		if got.ErrNum == 0 && got.Panic == "" {
			h.prepared = true
		}
		return got, wants, true

	case opE1, opE2:
		p := val()
		var wantsE []outcome
		if h.prepared || h.route == "api-bindings" {
			for _, lit := range p.Lits {
				inl := inline(cfg.Q, []string{lit})
				if len(wantsE) > 0 {
					break // a second rendering would need a second twin; the primary one is used in histories
				}
				wantsE = append(wantsE, refExec(inl))
			}
		}
		switch h.route {
		case "sql-prepare":
			if !h.prepared {
				wantsE = []outcome{errOutcome(errUnknownStmt)}
			}
			h.w.s.MustExec("set @p1 = " + p.Lits[0])
			got = engOutcome(h.w.s, h.w.s.Exec("execute st using @p1"), true)
		case "api-bindings":
			b, err := bindingExprs([]pval{p})
			if err != nil {
				panic(err)
			}
			ctx := h.w.s.NewCtx()
			res := drain(ctx, func() (sql.Schema, sql.RowIter, error) {
				sch, it, _, err := h.w.e.E.QueryWithBindings(ctx, cfg.Q, nil, b, nil)
				return sch, it, err
			})
			got = engOutcome(h.w.s, res, true)
		case "handler-binary":
			if h.ps == nil {
				return outcome{}, nil, false // the vitess connection rejects an unknown statement id itself
			}
			got = wireOutcome(h.w.s, h.ps.Execute([]*querypb.BindVariable{bindVar(p)}, nil), true)
			// the twin ran through Engine.Query: bring its rows into wire text form
			for i := range wantsE {
				wantsE[i].Rows = nil
			}
			got.Rows = nil // rows are compared below through the text route
		}
		return got, wantsE, true

	case opX:
		switch h.route {
		case "sql-prepare":
			if h.prepared {
				wants = []outcome{okOutcome()}
			} else {
				wants = []outcome{errOutcome(errUnknownStmt)}
			}
			got = engOutcome(h.w.s, h.w.s.Exec("deallocate prepare st"), true)
			if got.ErrNum == 0 {
				h.prepared = false
			}
			return got, wants, true
		case "handler-binary":
			if h.ps == nil {
				return outcome{}, nil, false
			}
			// COM_STMT_CLOSE is handled by the vitess connection alone (the handler is not told)
			h.ps = nil
			h.prepared = false
			return outcome{OK: "closed", Dump: h.w.s.DumpRows()}, []outcome{{OK: "closed", Dump: h.ref.s.DumpRows()}}, true
		}
		return outcome{}, nil, false
	}
	panic("op")
}

func histLabels(h []int) []string {
	out := make([]string, len(h))
	for i, op := range h {
		out[i] = opNames[op]
	}
	return out
}

// histStep replays history h for (cfg, route) and judges its last step.
func histStep(r *core.Run, ci int, route string, h []int) (key string, expand bool) {
	cfg := hconfigs()[ci]
	sys := newHsys(route, cfg)
	defer sys.close()
	var got outcome
	var wants []outcome
	for i, op := range h {
		var enabled bool
		got, wants, enabled = sys.apply(op)
		if !enabled {
			if i != len(h)-1 {
				panic("disabled operation inside a history")
			}
			return hist.Disabled, false
		}
	}
	last := h[len(h)-1]
	matched := false
	for _, w := range wants {
		if sameOutcome(got, w) {
			matched = true
		}
	}
	// handler route: rows of an execute are compared through the text protocol on the twin's state
	if matched && route == "handler-binary" && (last == opE1 || last == opE2) && !cfg.DML {
		// re-run on fresh systems to compare the rows: prepared (binary) vs ComQuery (inlined)
		matched = handlerRowsEqual(cfg, h)
	}
	k := kase{Part: "history", Cfg: ci, Stmt: cfg.Q, Route: route, Hist: histLabels(h)}
	r.Outcome(fmt.Sprintf("history/%s/%s/%s", route, opNames[last], map[bool]string{true: "ok", false: "err"}[got.ErrNum == 0]))
	if (last == opE1 || last == opE2) && len(h) >= 2 {
		r.NonTrivial(fmt.Sprintf("h|%d|%s|%v", ci, route, h))
	}
	if !matched {
		want := outcome{}
		if len(wants) > 0 {
			want = wants[0]
		}
		after := "first"
		for _, op := range h[:len(h)-1] {
			if op == opA {
				after = "after-alter"
			} else if op == opD && after == "first" {
				after = "after-dml"
			}
		}
		r.Violate(core.Violation{Check: "history", Clause: "step-equals-inlined", Kind: diffKind(got, want),
			Subject: map[string]string{"route": route, "op": opNames[last], "stmt": whereClass(cfg.Q), "when": after},
			Witness: core.J(k), Observed: strings.Join(histLabels(h), " → ") + ": " + got.String(), Expected: "inlined: " + want.String()})
		return "violation", false
	}
	prepared := "0"
	if sys.prepared {
		prepared = "1"
	}
	return prepared + "|" + sys.w.s.Dump(), true
}

// handlerRowsEqual replays h on two fresh handler systems: on A the last execute is the prepared
// one, on B the inlined text through ComQuery; the text rows must be equal.
func handlerRowsEqual(cfg hcfg, h []int) bool {
	a := newHsys("handler-binary", cfg)
	defer a.close()
	b := newHsys("handler-binary", cfg)
	defer b.close()
	for _, op := range h[:len(h)-1] {
		a.apply(op)
		b.apply(op)
	}
	last := h[len(h)-1]
	p := cfg.V1
	if last == opE2 {
		p = cfg.V2
	}
	if a.ps == nil {
		return true
	}
	ga := wireOutcome(a.w.s, a.ps.Execute([]*querypb.BindVariable{bindVar(p)}, nil), false)
	gb := wireOutcome(b.w.s, b.c.Query(inline(cfg.Q, []string{p.Lits[0]})), false)
	return sameOutcome(ga, gb)
}

func runHistories(r *core.Run) {
	depth := 4
	if r.Thorough() {
		depth = 5
	}
	for ci := range hconfigs() {
		for _, route := range histRoutes {
			ci, route := ci, route
			hist.Explore(r, hist.Config{
				NOps: nOps, MaxDepth: depth, UnmergedDepth: 2,
				Step:  func(h []int) (string, bool) { return histStep(r, ci, route, h) },
				Label: func(op int) string { return opNames[op] },
			})
		}
	}
	r.Info("history_configs", len(hconfigs()))
	r.Info("history_depth", depth)
}

func replayHistory(r *core.Run, k kase) {
	var h []int
	for _, l := range k.Hist {
		for i, n := range opNames {
			if n == l {
				h = append(h, i)
			}
		}
	}
	histStep(r, k.Cfg, k.Route, h)
}

var _ = eng.ErrClass
