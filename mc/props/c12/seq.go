package c12

import (
	"encoding/json"
	"fmt"
	"strings"

	querypb "github.com/dolthub/vitess/go/vt/proto/query"

	"github.com/dolthub/go-mysql-server/sql"

	"verif/mc/core"
	"verif/mc/eng"
	"verif/mc/props/c35/wire"
)

// Same-session sequences: the catalogue part runs every case in a fresh session / connection, so
// anything the engine caches PER SESSION across statements (prepared-statement ASTs keyed by the
// statement text) is never shared between two statements there. Here several parameterised
// statements run one after the other in ONE long-lived session (api-bindings) and ONE connection
// (handler-binary), in every order of each group, and each result must still equal the inlined
// text. The groups contain statements that differ only in letter case (of a string literal, of a
// comment, of keywords), in whitespace, and in nothing but a literal digit — the classes a text
// keyed cache may wrongly conflate — next to unrelated statements.

func seqGroups() [][]stmt {
	return [][]stmt{
		{sel("select id, b from t where b = 'x' and id > ? order by id", dI(0)), sel("select id, b from t where b = 'X' and id > ? order by id", dI(0))},
		{sel("select 'ab', ?", dI(1)), sel("select 'AB', ?", dI(1)), sel("select 'Ab', ?", dI(1))},
		{sel("select id from t where a = ? /* k */ order by id", dI(10)), sel("select id from t where a = ? /* K */ order by id desc", dI(10))},
		{sel("select id from t where a = ? order by id", dI(10)), sel("SELECT id FROM t WHERE a = ? ORDER BY id", dI(20))},
		{sel("select id from t where a = ?  order by id", dI(10)), sel("select id from t where a = ? order by id", dI(20))},
		{sel("select id + 1 from t where a = ? order by id", dI(10)), sel("select id + 2 from t where a = ? order by id", dI(10))},
		{sel("select concat(b, 'q') from t where id = ?", dI(1)), sel("select concat(b, 'Q') from t where id = ?", dI(1)), sel("select concat(B, 'q') from t where id = ?", dI(2))},
	}
}

func apiRunOn(w *world, s *eng.Session, st stmt, vals []pval) outcome {
	b, err := bindingExprs(vals)
	if err != nil {
		return outcome{ErrNum: -1, ErrMsg: "bindings"}
	}
	ctx := s.NewCtx()
	res := drain(ctx, func() (sql.Schema, sql.RowIter, error) {
		sch, it, _, err := w.e.E.QueryWithBindings(ctx, st.Q, nil, b, nil)
		return sch, it, err
	})
	return engOutcome(s, res, false)
}

func handlerRunOn(w *world, c *wire.Conn, st stmt, vals []pval) outcome {
	ps, err := c.Prepare(st.Q, len(vals))
	var res *wire.Res
	if err != nil {
		res = &wire.Res{Err: err}
	} else {
		bvs := make([]*querypb.BindVariable, len(vals))
		for i, p := range vals {
			bvs[i] = bindVar(p)
		}
		res = ps.Execute(bvs, nil)
	}
	return wireOutcome(w.s, res, false)
}

type seqWitness struct {
	Seq   string   `json:"seq"` // "group/order/route"
	Group int      `json:"group"`
	Order []int    `json:"order"`
	Route string   `json:"route"`
	Texts []string `json:"texts"`
}

func perms(n int) [][]int {
	var out [][]int
	var rec func(cur []int, used []bool)
	rec = func(cur []int, used []bool) {
		if len(cur) == n {
			out = append(out, append([]int{}, cur...))
			return
		}
		for i := 0; i < n; i++ {
			if !used[i] {
				used[i] = true
				rec(append(cur, i), used)
				used[i] = false
			}
		}
	}
	rec(nil, make([]bool, n))
	return out
}

// seqCase runs group g in the given order (followed by the first statement again) on one
// session/connection and compares every step with the inlined text.
func seqCase(r *core.Run, g int, order []int, route string) {
	grp := seqGroups()[g]
	w := newWorld()
	defer w.release()
	var s *eng.Session
	var c *wire.Conn
	if route == "api-bindings" {
		s = w.e.NewSession("root")
	} else {
		c = w.handler().NewConn("mydb")
		defer c.Close()
	}
	steps := append(append([]int{}, order...), order[0])
	var texts []string
	for _, i := range steps {
		texts = append(texts, grp[i].Q)
	}
	for k, i := range steps {
		st := grp[i]
		lits := make([]string, len(st.Def))
		for j, p := range st.Def {
			lits[j] = p.Lits[0]
		}
		inl := inline(st.Q, lits)
		var got outcome
		if route == "api-bindings" {
			got = apiRunOn(w, s, st, st.Def)
		} else {
			got = handlerRunOn(w, c, st, st.Def)
		}
		want := refRun(route, st, inl)
		r.Eval()
		r.NonTrivial(fmt.Sprintf("seq|%d|%v|%s|%d", g, order, route, k))
		if !sameOutcome(got, want) {
			r.Violate(core.Violation{Check: "same-session-sequence", Clause: "prepared-vs-inline", Kind: diffKind(got, want),
				Subject: map[string]string{"route": route, "position": fmt.Sprint(min(k, 1))},
				Witness: core.J(seqWitness{Seq: "seq", Group: g, Order: order, Route: route, Texts: texts}),
				Observed: fmt.Sprintf("step %d %q -> %s", k, st.Q, clip(got.String())), Expected: clip(want.String())})
			return
		}
	}
	if r.WantSample() {
		r.Sample(map[string]any{"same_session_sequence": texts, "route": route})
	}
}

func runSequences(r *core.Run) {
	idx := int64(1 << 40)
	for g, grp := range seqGroups() {
		for _, order := range perms(len(grp)) {
			for _, route := range []string{"api-bindings", "handler-binary"} {
				idx++
				if !r.Mine(idx) {
					continue
				}
				seqCase(r, g, order, route)
			}
		}
	}
}

func replaySeq(r *core.Run, w json.RawMessage) bool {
	var sw seqWitness
	if json.Unmarshal(w, &sw) != nil || sw.Seq != "seq" || !strings.Contains("api-bindings handler-binary", sw.Route) {
		return false
	}
	seqCase(r, sw.Group, sw.Order, sw.Route)
	return true
}
