package c12

import (
	"encoding/hex"
	"fmt"
	"strconv"
	"strings"

	querypb "github.com/dolthub/vitess/go/vt/proto/query"
)

// pval is one typed parameter value.
type pval struct {
	Name string // label in witnesses
	// Lits: the literal texts that denote this value when written into the statement. The first
	// one is the primary rendering (also used for SET @v = …); the oracle accepts the result of
	// any of them (MySQL leaves e.g. the character-set of a binary parameter to the client).
	Lits []string
	// wire form: protocol type + text, as the vitess connection hands it to the handler
	BT   querypb.Type
	Text string
	// Go is the argument for go-sql-driver (hasGo=false: not expressible as a driver.Value of
	// that protocol type)
	Go    any
	HasGo bool
}

func quote(s string) string {
	return "'" + strings.NewReplacer("\\", "\\\\", "'", "''").Replace(s) + "'"
}

// sp puts a blank before a negative number so that "-?" does not inline to a "--" comment.
func sp(s string) string {
	if strings.HasPrefix(s, "-") {
		return " " + s
	}
	return s
}

func vNull() pval {
	return pval{Name: "NULL", Lits: []string{"NULL"}, BT: querypb.Type_NULL_TYPE, Go: nil, HasGo: true}
}
func vInt(t querypb.Type, s string) pval {
	p := pval{Name: strings.ToLower(t.String()) + ":" + s, Lits: []string{sp(s)}, BT: t, Text: s}
	if t == querypb.Type_INT64 {
		n, _ := strconv.ParseInt(s, 10, 64)
		p.Go, p.HasGo = n, true
	}
	if t == querypb.Type_UINT64 {
		n, _ := strconv.ParseUint(s, 10, 64)
		p.Go, p.HasGo = n, true
	}
	return p
}
func vDec(s string) pval {
	return pval{Name: "decimal:" + s, Lits: []string{sp(s)}, BT: querypb.Type_DECIMAL, Text: s}
}

// vFloat: the inlined literal is an approximate-number literal (with exponent), so that it is a
// DOUBLE like the parameter and not an exact DECIMAL.
func vFloat(f float64) pval {
	txt := strconv.FormatFloat(f, 'g', -1, 64)
	lit := strconv.FormatFloat(f, 'e', -1, 64)
	return pval{Name: "double:" + txt, Lits: []string{sp(lit)}, BT: querypb.Type_FLOAT64, Text: txt, Go: f, HasGo: true}
}
func vStr(s string) pval {
	return pval{Name: "varchar:" + s, Lits: []string{quote(s)}, BT: querypb.Type_VARCHAR, Text: s, Go: s, HasGo: true}
}
func vText(s string) pval {
	return pval{Name: "text:" + s, Lits: []string{quote(s)}, BT: querypb.Type_TEXT, Text: s}
}

// vBin: a binary string. Inlined as unhex('…') — a binary-string expression; x'…' would be a
// hexadecimal literal, which MySQL treats as a number in numeric context, unlike a BLOB
// parameter. When the bytes are valid UTF-8 the quoted character string is accepted too (the
// handler turns every quoted protocol type into a string literal).
func vBin(h string, utf8ok bool) pval {
	b, err := hex.DecodeString(h)
	if err != nil {
		panic(err)
	}
	p := pval{Name: "blob:x" + h, Lits: []string{"unhex('" + h + "')"}, BT: querypb.Type_BLOB, Text: string(b), Go: b, HasGo: true}
	if utf8ok {
		p.Lits = append(p.Lits, quote(string(b)))
	}
	return p
}

// vTemporal: DATE/DATETIME/TIMESTAMP/TIME parameters; inlined as the quoted string.
func vTemporal(t querypb.Type, s string) pval {
	return pval{Name: strings.ToLower(t.String()) + ":" + s, Lits: []string{quote(s)}, BT: t, Text: s}
}
func vJSON(s string) pval {
	return pval{Name: "json:" + s, Lits: []string{quote(s)}, BT: querypb.Type_JSON, Text: s}
}

// alphabet is the typed parameter alphabet.
func alphabet() []pval {
	i64, u64 := querypb.Type_INT64, querypb.Type_UINT64
	return []pval{
		vNull(),
		vInt(i64, "0"), vInt(i64, "1"), vInt(i64, "-1"), vInt(i64, "2"), vInt(i64, "10"), vInt(i64, "127"), vInt(i64, "128"), vInt(i64, "-128"), vInt(i64, "-129"), vInt(i64, "255"), vInt(i64, "256"),
		vInt(i64, "32767"), vInt(i64, "32768"), vInt(i64, "2147483647"), vInt(i64, "2147483648"), vInt(i64, "-2147483649"), vInt(i64, "9223372036854775807"), vInt(i64, "-9223372036854775808"),
		vInt(u64, "18446744073709551615"), vInt(u64, "9223372036854775808"),
		vInt(querypb.Type_INT8, "-128"), vInt(querypb.Type_UINT8, "255"), vInt(querypb.Type_INT16, "-32768"), vInt(querypb.Type_INT32, "2147483647"), vInt(querypb.Type_UINT32, "4294967295"), vInt(querypb.Type_YEAR, "2020"),
		vDec("1.50"), vDec("-0.01"), vDec("12345678.99"), vDec("0.5"), vDec("10"), vDec("99999999999999999999.999"),
		vFloat(1.5), vFloat(-0.0025), vFloat(1e20), vFloat(10), pval{Name: "float:2.5", Lits: []string{"2.5e+00"}, BT: querypb.Type_FLOAT32, Text: "2.5"},
		vStr(""), vStr("x"), vStr("abc"), vStr("10"), vStr("1.5x"), vStr("it's"), vStr("é€"), vStr("2020-01-01"), vStr("%b%"), vStr(" 10 "), vStr("a\\b"), vText("y"),
		vBin("61", true), vBin("00ff", false), vBin("414200", true), vBin("", true),
		vTemporal(querypb.Type_DATE, "2020-01-01"), vTemporal(querypb.Type_DATETIME, "2020-01-01 10:11:12"), vTemporal(querypb.Type_DATETIME, "2020-01-01 10:11:12.123456"),
		vTemporal(querypb.Type_TIMESTAMP, "1999-12-31 23:59:59"), vTemporal(querypb.Type_TIME, "10:11:12"), vTemporal(querypb.Type_TIME, "-838:59:59"),
		vJSON(`{"k": 1}`), vJSON(`[1, 2]`), vStr(`{"k": {"z": [true]}}`),
	}
}

// defaults used for the slots that are not being varied
func dI(n int) pval     { return vInt(querypb.Type_INT64, fmt.Sprint(n)) }
func dS(s string) pval  { return vStr(s) }
func dD(s string) pval  { return vDec(s) }
func dF(f float64) pval { return vFloat(f) }
func dB(h string) pval  { return vBin(h, false) }
func dT(s string) pval  { return vTemporal(querypb.Type_DATETIME, s) }
func dJ(s string) pval  { return vJSON(s) }

// reducedAlphabet: one value per type class plus the integer width boundaries (thorough pairs).
func reducedAlphabet() []pval {
	want := map[string]bool{"NULL": true, "int64:0": true, "int64:-1": true, "int64:128": true, "int64:2147483648": true, "uint64:18446744073709551615": true,
		"decimal:1.50": true, "double:1.5": true, "varchar:": true, "varchar:10": true, "varchar:it's": true, "blob:x00ff": true, "datetime:2020-01-01 10:11:12": true, "json:[1, 2]": true}
	var out []pval
	for _, p := range alphabet() {
		if want[p.Name] {
			out = append(out, p)
		}
	}
	return out
}
