// Package c13: DML statements match a reference table model.
//
// hist BFS over statement histories on fresh engines; after every statement the engine's result
// (error class, RowsAffected, InsertID, matched/changed) and the contents of the table must equal
// one of the outcomes the reference model (verif/mc/tmodel) allows.
package c13

import (
	"encoding/json"
	"fmt"
	"os"
	"strings"

	"verif/mc/core"
	"verif/mc/hist"
	"verif/mc/tmodel"
)

type witness struct {
	Schema string   `json:"schema"`
	Ops    []int    `json:"ops"`
	SQL    []string `json:"sql"`
}

type stepper struct {
	r  *core.Run
	a  *tmodel.Alphabet
	rp *tmodel.Replayer
}

func (st *stepper) wit(h []int) json.RawMessage {
	w := witness{Schema: st.a.Schema.Name, Ops: h}
	w.SQL = append(w.SQL, st.a.Schema.DDL()...)
	for _, op := range h {
		w.SQL = append(w.SQL, st.a.Ops[op].SQL(st.a.Schema))
	}
	return core.J(w)
}

// Step replays h on a fresh engine and checks the last statement against the model.
func (st *stepper) Step(h []int) (string, bool) {
	r, s := st.r, st.a.Schema
	y, ok := st.rp.Prefix(h[:len(h)-1])
	if !ok {
		return hist.Disabled, false
	}
	op := st.a.Ops[h[len(h)-1]]
	pre := y.M
	obs, hit, all, capped := y.Apply(op)
	if hit == nil {
		if capped {
			r.Count("order_enumeration_capped", 1)
			return s.Name + ":capped:" + fmt.Sprint(h), false
		}
		d := tmodel.Classify(s, all, obs)
		sub := tmodel.Subject(s, op, pre, all)
		v := core.Violation{Check: "model", Clause: d.Clause, Kind: d.Kind, Subject: sub, Witness: st.wit(h),
			Observed: obs.String(s), Expected: tmodel.DescribeAll(all, capped)}
		if obs.Panic {
			sub["frame"] = core.TopFrame(obs.Stack)
		}
		r.Violate(v)
		r.Count("pruned_after_violation", 1)
		return s.Name + ":violation:" + fmt.Sprint(h), false
	}
	st.rp.Remember(h, y.M)
	cls := "ok-unchanged"
	switch {
	case hit.Err != "":
		cls = "err-" + hit.Err
	case pre.Key() != y.M.Key():
		cls = "ok-changed"
	}
	r.Outcome(op.KindName() + ":" + cls)
	if len(all) > 1 {
		r.Count("order_dependent_steps", 1)
	}
	if len(pre.T[op.Table].Rows) > 0 || pre.Key() != y.M.Key() {
		r.NonTrivial(s.Name + fmt.Sprint(h))
	}
	return s.Name + "\n" + y.M.Key(), true
}

func explore(r *core.Run, a *tmodel.Alphabet, unmerged, maxDepth int) {
	st := &stepper{r: r, a: a, rp: tmodel.NewReplayer(a)}
	r.Info("alphabet_"+a.Schema.Name, len(a.Ops))
	hist.Explore(r, hist.Config{NOps: len(a.Ops), MaxDepth: maxDepth, UnmergedDepth: unmerged, Step: st.Step,
		Label: func(i int) string { return a.Ops[i].SQL(a.Schema) }})
}

func init() {
	core.Register(&core.Prop{
		ID:    "C13",
		Level: "model_checking",
		Rule: "BFS over statement histories on fresh engines (hist explorer), one table per history, five table shapes {keyless, PK(a), PK(a,b), PK(a)+UNIQUE(b), PK(a varchar(3))}; " +
			"alphabet of 40 statements per shape over the values {1,2,3,12,23} (+NULL for non-key columns): single/two-row INSERT, INSERT IGNORE, REPLACE, INSERT ... ON DUPLICATE KEY UPDATE (b=b+1 | a=a+1 | b=VALUES(b)), " +
			"UPDATE SET b=c | a=a+1 | a=c [WHERE][ORDER BY [DESC]][LIMIT 1], DELETE [WHERE][ORDER BY][LIMIT 1], INSERT ... SELECT from the same table, TRUNCATE. " +
			"Every history of length <= 2 is run (no merging), longer histories reaching an already seen table content are merged (not expanded again); depth bound 3 (quick) / 4 (thorough). " +
			"After each statement: error class, RowsAffected, InsertID (=0), UPDATE matched/changed and SELECT * must equal one outcome of the reference model (tmodel: keyed map / multiset, MySQL 8.0 rules: REPLACE counts deleted+inserted, ODKU counts 2 per changed row and 0 per unchanged row, LIMIT counts matched rows, statement-level atomicity); " +
			"where MySQL leaves the row processing order open (no ORDER BY, ties, key-shifting UPDATE) the model enumerates all orders and the engine must match one of them. " +
			"non-trivial = the statement acts on a non-empty table or changes the table",
		Assumptions: []string{
			"single session, autocommit, strict SQL mode, no AUTO_INCREMENT column (InsertID must be 0; AUTO_INCREMENT is C20)",
			"the reference model (mc/tmodel) encodes the MySQL 8.0 manual's DML semantics; it was written without reading the engine's execution code",
			"TRUNCATE's affected-row count is unspecified in MySQL and not compared",
			"the model state of an already validated history prefix is cached per worker; the engine is assumed deterministic across replays (violations are re-run 3x by the driver)",
		},
		Run: func(r *core.Run) {
			un, depth := 2, 3
			if r.Thorough() {
				depth = 4
			}
			r.Info("unmerged_depth", un)
			r.Info("max_depth_bound", depth)
			r.Info("passes", "every shape is first explored to depth 2, then again to the depth bound (so that a run cut short by the time budget has covered every shape); the histories of length <= 2 are therefore executed twice")
			for _, d := range []int{2, depth} {
				for _, a := range tmodel.C13Alphabets() {
					if only := os.Getenv("VERIF_C13_SCHEMAS"); only != "" && !strings.Contains(","+only+",", ","+a.Schema.Name+",") {
						r.Capped("development filter VERIF_C13_SCHEMAS=" + only)
						continue
					}
					explore(r, a, un, d)
				}
			}
		},
		Replay: func(r *core.Run, w json.RawMessage) {
			var wt witness
			if json.Unmarshal(w, &wt) != nil {
				return
			}
			a := tmodel.AlphabetByName(tmodel.C13Alphabets(), wt.Schema)
			if a == nil || len(wt.Ops) == 0 {
				return
			}
			for _, i := range wt.Ops {
				if i < 0 || i >= len(a.Ops) {
					return
				}
			}
			st := &stepper{r: r, a: a, rp: tmodel.NewReplayer(a)}
			st.Step(wt.Ops)
		},
	})
}
