// Package c14: primary and unique keys are enforced exactly.
//
// Same explorer as C13 (hist BFS over statement histories on fresh engines, reference model
// verif/mc/tmodel) on key-focused table shapes. Two oracles:
//
//   - state invariant, on every reached state: the rows READ FROM THE ENGINE contain no two rows
//     with equal primary key or equal non-NULL unique key, equality computed by the model
//     (collation, prefix length, numeric value) — never by the engine;
//   - step oracle: the statement is rejected as a duplicate  <=>  the model says it creates a
//     duplicate; and the table content after the statement is the model's (so under IGNORE /
//     REPLACE / ON DUPLICATE KEY UPDATE the row is skipped / replaced / updated).
//
// Affected-row counts are C13's business and are not compared here.
package c14

import (
	"encoding/json"
	"fmt"
	"os"
	"strings"

	"verif/mc/core"
	"verif/mc/hist"
	"verif/mc/tmodel"
)

type witness struct {
	Schema string   `json:"schema"`
	Ops    []int    `json:"ops"`
	SQL    []string `json:"sql"`
}

type stepper struct {
	r  *core.Run
	a  *tmodel.Alphabet
	rp *tmodel.Replayer
}

func newStepper(r *core.Run, a *tmodel.Alphabet) *stepper {
	rp := tmodel.NewReplayer(a)
	rp.Accept = accepts
	return &stepper{r: r, a: a, rp: rp}
}

func (st *stepper) wit(h []int) json.RawMessage {
	w := witness{Schema: st.a.Schema.Name, Ops: h}
	w.SQL = append(w.SQL, st.a.Schema.DDL()...)
	for _, op := range h {
		w.SQL = append(w.SQL, st.a.Ops[op].SQL(st.a.Schema))
	}
	return core.J(w)
}

// accepts: error class and table contents (not the counts).
func accepts(s *tmodel.Schema, o *tmodel.Outcome, obs *tmodel.Observed) bool {
	return o.Err == obs.Err && o.DB.Key() == obs.State(s)
}

func (st *stepper) Step(h []int) (string, bool) {
	r, s := st.r, st.a.Schema
	// the prefix is replayed under this property's acceptance (class + contents)
	y, ok := st.rp.Prefix(h[:len(h)-1])
	if !ok {
		return hist.Disabled, false
	}
	op := st.a.Ops[h[len(h)-1]]
	def := s.Table(op.Table)
	pre := y.M
	obs, hit, all, capped := y.ApplyWith(op, accepts)

	// (1) state invariant on what the engine holds
	rows, rerr := y.EngineRows(def)
	if rerr != nil {
		r.Violate(core.Violation{Check: "invariant", Clause: "table-readable", Kind: "read-error", Subject: map[string]string{"schema": s.Name},
			Witness: st.wit(h), Observed: rerr.Error(), Expected: "rows"})
		return s.Name + ":violation:" + fmt.Sprint(h), false
	}
	r.Count("invariant_evaluations", 1)
	if dups := tmodel.KeyViolations(def, rows); len(dups) > 0 {
		sub := tmodel.Subject14(s, op, pre, all, rows)
		r.Violate(core.Violation{Check: "invariant", Clause: "no-two-rows-with-equal-key", Kind: "duplicate-in-state", Subject: sub,
			Witness: st.wit(h), Observed: strings.Join(dups, "; "), Expected: "no two rows equal on a primary or unique key (model equality: collation, prefix, numeric value)"})
		r.Count("pruned_after_violation", 1)
		return s.Name + ":violation:" + fmt.Sprint(h), false
	}

	// (2) step oracle
	if hit == nil {
		if capped {
			r.Count("order_enumeration_capped", 1)
			return s.Name + ":capped:" + fmt.Sprint(h), false
		}
		d := tmodel.Classify(s, all, obs)
		clause := "rejected-iff-duplicate"
		switch {
		case d.Clause == "no-panic":
			clause = "no-panic"
		case d.Kind == "false-duplicate" || d.Kind == "missed-duplicate":
		case d.Clause == "contents":
			clause = "duplicate-handling"
			if !strings.Contains(op.KindName(), "ignore") && !strings.Contains(op.KindName(), "replace") && !strings.Contains(op.KindName(), "odku") {
				clause = "contents"
			}
		default:
			clause = d.Clause
		}
		sub := tmodel.Subject14(s, op, pre, all, rows)
		if obs.Panic {
			sub["frame"] = core.TopFrame(obs.Stack)
		}
		r.Violate(core.Violation{Check: "step", Clause: clause, Kind: d.Kind, Subject: sub, Witness: st.wit(h),
			Observed: obs.String(s), Expected: tmodel.DescribeAll(all, capped)})
		r.Count("pruned_after_violation", 1)
		return s.Name + ":violation:" + fmt.Sprint(h), false
	}
	st.rp.Remember(h, y.M)
	cls := "accepted"
	switch {
	case hit.Err == "duplicate-key":
		cls = "rejected-duplicate"
	case hit.Err != "":
		cls = "err-" + hit.Err
	case pre.Key() == y.M.Key():
		cls = "no-change"
	}
	r.Outcome(op.KindName() + ":" + cls)
	// non-trivial: the statement meets an existing key (model equality) or is rejected
	collides := hit.Err != "" || tmodel.KeyAlias(def, pre.T[op.Table].Rows, tmodel.StmtRows(def, op)) ||
		len(tmodel.KeyViolations(def, append(append([][]tmodel.V{}, pre.T[op.Table].Rows...), tmodel.StmtRows(def, op)...))) > 0
	if collides {
		r.NonTrivial(s.Name + fmt.Sprint(h))
	}
	return s.Name + "\n" + y.M.Key(), true
}

func explore(r *core.Run, a *tmodel.Alphabet, unmerged, maxDepth int) {
	st := newStepper(r, a)
	r.Info("alphabet_"+a.Schema.Name, len(a.Ops))
	r.Info("depth_"+a.Schema.Name, maxDepth)
	hist.Explore(r, hist.Config{NOps: len(a.Ops), MaxDepth: maxDepth, UnmergedDepth: unmerged, Step: st.Step,
		Label: func(i int) string { return a.Ops[i].SQL(a.Schema) }})
}

func init() {
	core.Register(&core.Prop{
		ID:    "C14",
		Level: "model_checking",
		Rule: "BFS over statement histories on fresh engines (hist explorer, same reference model as C13) on key-focused table shapes: " +
			"C13's PK(a,b) and PK(a)+UNIQUE(b) over {1,2,3,12,23}; VARCHAR primary key and VARCHAR unique key under utf8mb4_0900_ai_ci and utf8mb4_0900_bin over {'a','A','á','ab','abc'} (+NULL in unique keys); " +
			"prefix unique keys s(2) under _bin and s(1) under _ai_ci; composite UNIQUE(b,c) with NULL members over {1,2,NULL}; DECIMAL(4,2) primary and unique keys over the literals {1.0, 1.00, 1, '1.0', 1.001, 1.005, 1.01, 2}. " +
			"Alphabets of 23-40 statements per shape: single/two-row INSERT, INSERT IGNORE, REPLACE, ON DUPLICATE KEY UPDATE, key-changing and plain UPDATE, DELETE. " +
			"Histories of length <= 2 are all run, deeper ones merged on equal table content; depth 3 (quick: depth 2 for the two C13 shapes) / depth 4 (thorough). " +
			"On EVERY reached state the rows read from the engine are checked by the MODEL's key equality for two rows with an equal primary or non-NULL unique key; " +
			"on every step: rejected as duplicate <=> the model says a duplicate would be created, and the table content equals the model's (IGNORE skips, REPLACE replaces, ODKU updates). " +
			"non-trivial = the statement is rejected or meets a stored/co-inserted row with an equal key",
		Assumptions: []string{
			"key equality of the reference model: utf8mb4_0900_ai_ci folds case and accents (NO PAD), _bin compares code points, prefix keys compare the first n characters, DECIMAL compares the value rounded to the column scale (half away from zero), a NULL member makes a unique key distinct",
			"affected-row counts are not compared here (C13)",
			"single session, autocommit, strict SQL mode",
		},
		Run: func(r *core.Run) {
			r.Info("passes", "every shape is first explored to depth 2, then again to its depth bound (a run cut short by the time budget has covered every shape); histories of length <= 2 are therefore executed twice")
			for pass := 0; pass < 2; pass++ {
				for i, a := range tmodel.C14Alphabets() {
					if only := os.Getenv("VERIF_C14_SCHEMAS"); only != "" && !strings.Contains(","+only+",", ","+a.Schema.Name+",") {
						r.Capped("development filter VERIF_C14_SCHEMAS=" + only)
						continue
					}
					depth := 3
					if i < 2 {
						depth = 2
					}
					if r.Thorough() {
						depth++
					}
					if pass == 0 {
						depth = 2
					} else if depth == 2 {
						continue
					}
					explore(r, a, 2, depth)
				}
			}
		},
		Replay: func(r *core.Run, w json.RawMessage) {
			var wt witness
			if json.Unmarshal(w, &wt) != nil {
				return
			}
			a := tmodel.AlphabetByName(tmodel.C14Alphabets(), wt.Schema)
			if a == nil || len(wt.Ops) == 0 {
				return
			}
			for _, i := range wt.Ops {
				if i < 0 || i >= len(a.Ops) {
					return
				}
			}
			newStepper(r, a).Step(wt.Ops)
		},
	})
}
