// Package c15: a failed data-modifying statement has no effect (fault enumeration).
//
// For every table state reached by C13's statement alphabets within two statements (plus four
// multi-structure table shapes: secondary indexes, FK child with CASCADE, audit triggers, CHECK /
// NOT NULL / conversion constraints) and every statement of the alphabet:
//
//	(a) the statement is run naturally (it may fail by itself at any row position) while a hook
//	    counts the row-edit calls n of the in-memory table editor (all tables);
//	(b) for EVERY k in 1..n the state is rebuilt on a fresh engine and the statement is re-run with
//	    memory.VerifEditHook returning a storage error at the k-th row edit.
//
// Oracle: if the statement returns an error, the full dump (rows of every table and every
// index-driven read) equals the dump taken before it; if it returns success the tables equal the
// reference model's; afterwards two more statements are run and compared with the model (a
// poisoned edit accumulator shows there).
package c15

import (
	"encoding/json"
	"fmt"
	"os"
	"sort"
	"strings"

	"github.com/dolthub/go-mysql-server/memory"

	"verif/mc/core"
	"verif/mc/tmodel"
)

type witness struct {
	Schema string   `json:"schema"`
	Hist   []int    `json:"hist"`
	Op     int      `json:"op"`
	FailAt int      `json:"fail_at"` // 0 = natural run
	SQL    []string `json:"sql"`
}

// ---------------------------------------------------------------------------------------------
// the fault hook

type hook struct {
	calls  int
	failAt int
	log    []string
}

func (h *hook) install() {
	memory.VerifEditHook = func(op, table string) error {
		h.calls++
		h.log = append(h.log, op+":"+table)
		if h.calls == h.failAt {
			return tmodel.ErrInjected
		}
		return nil
	}
}

func uninstall() { memory.VerifEditHook = nil }

// ---------------------------------------------------------------------------------------------
// full dump: rows of every table + index-driven reads

var intDomain = func() string {
	p := make([]string, 0, 40)
	for i := 0; i <= 36; i++ {
		p = append(p, fmt.Sprint(i))
	}
	return strings.Join(p, ",")
}()

// indexReads lists the read queries that go through each index of each table.
func indexReads(s *tmodel.Schema) []string {
	var qs []string
	for _, t := range s.Tables {
		first := func(cols []int) (string, bool) {
			c := t.Cols[cols[0]]
			return c.Name, c.Kind == tmodel.KInt
		}
		if len(t.PK) > 0 {
			if n, isInt := first(t.PK); isInt {
				qs = append(qs, fmt.Sprintf("select * from %s where %s > -1000", t.Name, n))
			} else {
				qs = append(qs, fmt.Sprintf("select * from %s where %s >= ''", t.Name, n))
			}
		}
		for _, ix := range t.Idx {
			n, isInt := first(ix.Cols)
			switch {
			case isInt && ix.Unique:
				// (a range over a unique index is planned as a table scan; IN goes through the index)
				qs = append(qs, fmt.Sprintf("select * from %s where %s in (%s)", t.Name, n, intDomain))
			case isInt:
				qs = append(qs, fmt.Sprintf("select * from %s where %s > -1000", t.Name, n))
			default:
				qs = append(qs, fmt.Sprintf("select * from %s where %s >= ''", t.Name, n))
			}
			if !t.Cols[ix.Cols[0]].NotNull {
				qs = append(qs, fmt.Sprintf("select * from %s where %s is null", t.Name, n))
			}
		}
	}
	return qs
}

func fullDump(y *tmodel.Sys, reads []string, tabs map[string][]string) string {
	var sb strings.Builder
	if tabs == nil {
		tabs = y.ReadTables()
	}
	for _, t := range y.Schema.Tables {
		fmt.Fprintf(&sb, "%s: %s\n", t.Name, strings.Join(tabs[t.Name], " "))
	}
	for _, q := range reads {
		r := y.S.Exec(q)
		if r.Err != nil {
			fmt.Fprintf(&sb, "%s => ERR %s\n", q, tmodel.ErrClass(r.Err))
			continue
		}
		fmt.Fprintf(&sb, "%s => %s\n", q[strings.Index(q, "from"):], strings.Join(r.Multiset(), " "))
	}
	return sb.String()
}

func diffDump(a, b string) string {
	la, lb := strings.Split(a, "\n"), strings.Split(b, "\n")
	var out []string
	for i := range la {
		if i < len(lb) && la[i] != lb[i] {
			out = append(out, "before{"+clip(la[i])+"} after{"+clip(lb[i])+"}")
		}
	}
	return strings.Join(out, "; ")
}

func clip(s string) string {
	if len(s) > 260 {
		return s[:260] + "…"
	}
	return s
}

// ---------------------------------------------------------------------------------------------

type space struct {
	a     *tmodel.Alphabet
	rp    *tmodel.Replayer
	reads []string
	// representative histories of the distinct states reachable within `depth` statements
	states [][]int
	follow []*tmodel.Stmt
}

// acceptState: the property does not speak about counts; class and contents decide.
func acceptState(s *tmodel.Schema, o *tmodel.Outcome, obs *tmodel.Observed) bool {
	return o.Err == obs.Err && o.DB.Key() == obs.State(s)
}

// enumerateStates walks the MODEL breadth-first (canonical outcome of every statement) and keeps
// one shortest history per distinct model state. The engine re-validates every history it is
// asked to replay, so a state the engine cannot reach is skipped, not assumed.
func enumerateStates(a *tmodel.Alphabet, depth int) [][]int {
	type node struct {
		h  []int
		db *tmodel.DB
	}
	root := tmodel.NewDB(a.Schema)
	for _, st := range a.Schema.Seed {
		hit, _, _ := root.Exec(st, func(o *tmodel.Outcome) bool { return o.Err == "" })
		if hit == nil {
			panic("seed fails in the model")
		}
		root = hit.DB
	}
	seen := map[string]bool{root.Key(): true}
	out := [][]int{{}}
	frontier := []node{{nil, root}}
	for d := 0; d < depth; d++ {
		var next []node
		for _, n := range frontier {
			for op, st := range a.Ops {
				hit, _, _ := n.db.Exec(st, func(o *tmodel.Outcome) bool { return true })
				if hit == nil || hit.Err != "" {
					continue
				}
				k := hit.DB.Key()
				if seen[k] {
					continue
				}
				seen[k] = true
				h := append(append([]int{}, n.h...), op)
				out = append(out, h)
				next = append(next, node{h, hit.DB})
			}
		}
		frontier = next
	}
	return out
}

// followUps: two simple statements whose model outcome is unambiguous — insert a row with a fresh
// key into the main table, then delete it again.
func followUps(a *tmodel.Alphabet) []*tmodel.Stmt {
	t := a.Schema.Table("t")
	row := make([]tmodel.V, len(t.Cols))
	for i, c := range t.Cols {
		switch c.Kind {
		case tmodel.KStr:
			row[i] = tmodel.S("7")
		default:
			row[i] = tmodel.I(7)
		}
	}
	return []*tmodel.Stmt{
		tmodel.Ins("t", row),
		tmodel.Del("t", &tmodel.Cond{Col: 0, Op: "=", V: row[0]}, -1, false, -1),
	}
}

func newSpace(a *tmodel.Alphabet, depth int) *space {
	rp := tmodel.NewReplayer(a)
	rp.Accept = acceptState
	return &space{a: a, rp: rp, reads: indexReads(a.Schema), states: enumerateStates(a, depth), follow: followUps(a)}
}

func (sp *space) wit(h []int, op, failAt int) json.RawMessage {
	s := sp.a.Schema
	w := witness{Schema: s.Name, Hist: h, Op: op, FailAt: failAt}
	w.SQL = append(w.SQL, s.DDL()...)
	for _, st := range s.Seed {
		w.SQL = append(w.SQL, st.SQL(s))
	}
	for _, i := range h {
		w.SQL = append(w.SQL, sp.a.Ops[i].SQL(s))
	}
	w.SQL = append(w.SQL, "-- statement under test:", sp.a.Ops[op].SQL(s))
	return core.J(w)
}

func editTables(log []string) string {
	set := map[string]bool{}
	for _, l := range log {
		set[l[strings.Index(l, ":")+1:]] = true
	}
	var ts []string
	for t := range set {
		ts = append(ts, t)
	}
	sort.Strings(ts)
	return strings.Join(ts, "+")
}

// runCase executes one (state, statement, fault position) case. It returns the number of edit
// calls the statement made (meaningful for the natural run) and ok=false if the state could not be
// rebuilt.
func (sp *space) runCase(r *core.Run, h []int, op, failAt int, before string) (calls int, dump string, ok bool) {
	s := sp.a.Schema
	st := sp.a.Ops[op]
	y, good := sp.rp.Prefix(h)
	if !good {
		r.Count("state_not_reproduced_by_engine", 1)
		return 0, "", false
	}
	r.Eval()
	if before == "" {
		// (the injected runs of a case reuse the dump of its natural run: same history, fresh engine)
		before = fullDump(y, sp.reads, nil)
	}
	pre := y.M
	hk := &hook{failAt: failAt}
	hk.install()
	obs := y.Run(st)
	uninstall()
	mode := "natural"
	if failAt > 0 {
		mode = "injected"
		r.Count("injected_fault_executions", 1)
	} else {
		r.Count("natural_executions", 1)
	}
	subject := func() map[string]string {
		sub := tmodel.Subject(s, st, pre, nil)
		sub["mode"] = mode
		sub["error"] = obs.Err
		sub["edited"] = editTables(hk.log)
		if failAt > 0 && len(hk.log) >= failAt {
			sub["fault_op"] = hk.log[failAt-1][:strings.Index(hk.log[failAt-1], ":")]
			sub["fault_pos"] = "first"
			if failAt > 1 {
				sub["fault_pos"] = "later"
			}
		}
		if obs.Panic {
			sub["frame"] = core.TopFrame(obs.Stack)
		}
		return sub
	}
	if obs.Panic {
		r.Violate(core.Violation{Check: "atomicity", Clause: "no-panic", Kind: "panic", Subject: subject(), Witness: sp.wit(h, op, failAt),
			Observed: obs.ErrText, Expected: "an error or a result"})
		return hk.calls, before, true
	}
	if failAt > 0 && hk.calls < failAt {
		// the statement made fewer edit calls than in the natural run: the engine is not
		// deterministic across replays — a harness-level problem, reported as such
		r.Count("fault_position_not_reached", 1)
		return hk.calls, before, true
	}
	if obs.Err != "" {
		prog := "0"
		if hk.calls >= 2 {
			prog = "1+"
		}
		r.Outcome(mode + ":failed-" + obs.Err + ":edits-before=" + prog)
		after := fullDump(y, sp.reads, obs.Tables)
		if hk.calls >= 2 {
			r.NonTrivial(fmt.Sprintf("%s%v/%d/%d", s.Name, h, op, failAt))
		}
		if after != before {
			sub := subject()
			sub["damaged"] = "index-reads-only"
			nt := len(s.Tables)
			if strings.Join(strings.SplitN(after, "\n", nt+1)[:nt], "\n") != strings.Join(strings.SplitN(before, "\n", nt+1)[:nt], "\n") {
				sub["damaged"] = "rows"
			}
			r.Violate(core.Violation{Check: "atomicity", Clause: "failed-statement-has-no-effect", Kind: "state-changed", Subject: sub,
				Witness: sp.wit(h, op, failAt), Observed: obs.Err + " (" + clip(obs.ErrText) + ") but " + diffDump(before, after), Expected: "dump after the failed statement = dump before it"})
			return hk.calls, before, true
		}
	} else {
		r.Outcome(mode + ":succeeded")
		if failAt > 0 {
			// a storage error that does not fail the statement: the statement must then have
			// applied everything (checked against the model below) — it normally cannot
			r.Count("injected_fault_swallowed", 1)
		}
		hit, all, capped := pre.Exec(st, func(o *tmodel.Outcome) bool { return o.Err == "" && o.DB.Key() == obs.State(s) })
		if hit == nil {
			anyOK := false
			for i := range all {
				anyOK = anyOK || all[i].Err == ""
			}
			switch {
			case capped:
				r.Count("order_enumeration_capped", 1)
			case !anyOK && failAt == 0:
				// the model says the statement must fail: whether it may succeed is C13/C14's
				// question, not this property's
				r.Count("success_where_model_fails", 1)
			default:
				r.Violate(core.Violation{Check: "atomicity", Clause: "successful-statement-applies-all-changes", Kind: "differs-from-model", Subject: subject(),
					Witness: sp.wit(h, op, failAt), Observed: obs.String(s), Expected: tmodel.DescribeAll(all, capped)})
			}
			return hk.calls, before, true
		}
		y.M = hit.DB
	}
	// follow-up statements against the model (state = before, or the model's successor)
	for i, f := range sp.follow {
		fobs, fhit, fall, fcap := y.ApplyWith(f, acceptState)
		r.Count("follow_up_statements", 1)
		if fhit == nil && !fcap {
			sub := subject()
			sub["follow_up"] = fmt.Sprint(i + 1)
			r.Violate(core.Violation{Check: "atomicity", Clause: "next-statement-unaffected", Kind: "differs-from-model", Subject: sub,
				Witness: sp.wit(h, op, failAt), Observed: "follow-up `" + f.SQL(s) + "`: " + fobs.String(s), Expected: tmodel.DescribeAll(fall, fcap)})
			break
		}
	}
	return hk.calls, before, true
}

func (sp *space) run(r *core.Run, base *int64) {
	s := sp.a.Schema
	r.Info("states_"+s.Name, len(sp.states))
	r.Info("alphabet_"+s.Name, len(sp.a.Ops))
	for _, h := range sp.states {
		for op := range sp.a.Ops {
			idx := *base
			*base++
			if !r.Mine(idx) {
				continue
			}
			if r.Expired() {
				r.Capped("time budget reached in shape " + s.Name)
				return
			}
			r.AnnounceCase(fmt.Sprintf("%s %v op=%d", s.Name, h, op))
			n, before, ok := sp.runCase(r, h, op, 0, "")
			if !ok {
				continue
			}
			r.Max("max_edit_calls_per_statement", int64(n))
			for k := 1; k <= n; k++ {
				sp.runCase(r, h, op, k, before)
			}
		}
	}
}

func alphabets(quick bool) (as []*tmodel.Alphabet, depth map[string]int) {
	depth = map[string]int{}
	for _, a := range tmodel.C13Alphabets() {
		as = append(as, a)
		depth[a.Schema.Name] = 2
		if quick && a.Schema.Name != "pk_a_uq_b" && a.Schema.Name != "pk_ab" {
			depth[a.Schema.Name] = 1
		}
	}
	for _, a := range tmodel.C15FeatureAlphabets() {
		as = append(as, a)
		depth[a.Schema.Name] = 3
		if quick {
			depth[a.Schema.Name] = 2
		}
	}
	return
}

func byName(name string) *tmodel.Alphabet {
	as, _ := alphabets(false)
	return tmodel.AlphabetByName(as, name)
}

func init() {
	core.Register(&core.Prop{
		ID:    "C15",
		Level: "fault_enumeration",
		Rule: "states: one representative history per distinct table content reachable within d statements of the alphabet, for C13's five table shapes (d = 2; quick: d = 1 for keyless, PK(a) and PK(a varchar)) and four multi-structure shapes (d = 2 quick / 3 thorough) " +
			"(idx: PK + KEY(b) + UNIQUE(c) + KEY(b,c); fk: parent + child with ON DELETE/UPDATE CASCADE, seeded; trig: AFTER INSERT/UPDATE/DELETE triggers writing an audit table and SIGNALling on b=23 / old.b=12; chk: CHECK(b<20), NOT NULL, varchar(3)); " +
			"statements: every statement of the shape's alphabet (C13's 40; 19-28 for the others incl. 3-row INSERTs whose duplicate / CHECK / NOT NULL / conversion / FK / SIGNAL failure falls on row 1, 2 or 3). " +
			"For every (state, statement): one natural run counting the n row-edit calls of the in-memory table editor (memory.VerifEditHook, all tables), then for EVERY k in 1..n a re-run from the same state on a fresh engine with a storage error injected at the k-th edit call. " +
			"Oracle: error => dump after = dump before (rows of all tables + reads through every index); success => tables equal the reference model; then INSERT of a fresh key and DELETE of it are run and compared with the model. " +
			"non-trivial = a failing execution that had already made at least one row edit",
		Assumptions: []string{
			"the in-memory backend has no durable state: crash points have no object, only fault sequences of length 1 (one failing edit call per execution) are enumerated",
			"row edits of the in-memory table editor (Insert/Update/Delete incl. cascades and trigger bodies) are the storage calls; ApplyEdits at statement end has no failure hook",
			"AUTO_INCREMENT counters are not part of the dump (no such column in the shapes)",
			"success of a statement the model rejects, and affected-row counts, are C13/C14's questions and only counted here",
		},
		Run: func(r *core.Run) {
			as, depth := alphabets(r.Quick())
			var base int64
			for _, a := range as {
				if only := os.Getenv("VERIF_C15_SCHEMAS"); only != "" && !strings.Contains(","+only+",", ","+a.Schema.Name+",") {
					r.Capped("development filter VERIF_C15_SCHEMAS=" + only)
					continue
				}
				d := depth[a.Schema.Name]
				r.Info("state_depth_"+a.Schema.Name, d)
				newSpace(a, d).run(r, &base)
			}
		},
		Replay: func(r *core.Run, w json.RawMessage) {
			var wt witness
			if json.Unmarshal(w, &wt) != nil {
				return
			}
			a := byName(wt.Schema)
			if a == nil || wt.Op < 0 || wt.Op >= len(a.Ops) {
				return
			}
			for _, i := range wt.Hist {
				if i < 0 || i >= len(a.Ops) {
					return
				}
			}
			sp := newSpace(a, 0)
			// the engine iterates Go maps (pending edits, partitions, indexes, cascade editors):
			// which rows / index rows a failed statement damages can differ between runs of the
			// same case, and with it the classifying subject; the case is therefore re-run a fixed
			// number of times and every signature it shows is recorded
			for try := 0; try < 10; try++ {
				sp.runCase(r, wt.Hist, wt.Op, wt.FailAt, "")
			}
		},
	})
}
