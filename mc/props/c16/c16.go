// Package c16 — indexes stay consistent with table data across histories.
//
// Explorer: hist (BFS over statement histories, fresh engine per history). Table t(a PK, b, c, s)
// with KEY(b), UNIQUE(c), KEY(b,c), KEY(s(2)) and a keyless, index-free twin u that receives the
// same statements. Oracle on every reached state: (1) representation invariant of the memory
// backend's secondary index storage (read through overlay/add/memory/verif_c16.go), (2) every
// index-driven query equals the same query on the twin. See design.d/C16.md.
package c16

import (
	"crypto/sha1"
	"encoding/hex"
	"encoding/json"
	"fmt"
	"io"
	"runtime/debug"
	"sort"
	"strings"

	"github.com/dolthub/go-mysql-server/memory"
	"github.com/dolthub/go-mysql-server/sql"
	"github.com/dolthub/go-mysql-server/sql/plan"
	"github.com/dolthub/go-mysql-server/sql/planbuilder"
	"github.com/dolthub/go-mysql-server/sql/transform"

	"verif/mc/core"
	"verif/mc/eng"
	"verif/mc/hist"
)

const ddlT = "create table t (a int primary key, b int, c int, s varchar(8), key kb (b), unique key kc (c), key kbc (b, c), key ks (s(2)))"
const ddlU = "create table u (a int, b int, c int, s varchar(8))"

// ---------------------------------------------------------------------------------------------
// operation alphabet

type op struct {
	Name string
	Kind string // insert update update-pk delete replace truncate create-index drop-index failing begin rollback commit
	T    string // statement on t
	// U: statements applied to the twin when the statement on t succeeded ("" = none). For
	// REPLACE the twin deletes the rows REPLACE conflicts with (PK, and the unique key c while
	// that index exists) and inserts.
	U     []string
	RepC  string // REPLACE: the c value of the new row ("" = NULL, cannot conflict)
	RepA  string
	Quick bool
}

func ins(name, row string, quick bool) op {
	return op{Name: name, Kind: "insert", T: "insert into t values " + row, U: []string{"insert into u values " + row}, Quick: quick}
}

func dml(name, kind, stmt string, quick bool) op {
	return op{Name: name, Kind: kind, T: strings.Replace(stmt, "%T", "t", 1), U: []string{strings.Replace(stmt, "%T", "u", 1)}, Quick: quick}
}

func rep(name, a, b, c, s string, quick bool) op {
	row := "(" + a + "," + b + "," + c + "," + s + ")"
	o := op{Name: name, Kind: "replace", T: "replace into t values " + row, U: []string{"insert into u values " + row}, RepA: a, Quick: quick}
	if c != "NULL" {
		o.RepC = c
	}
	return o
}

func ddl(name, kind, stmt string, quick bool) op {
	return op{Name: name, Kind: kind, T: stmt, Quick: quick}
}

// fullAlphabet: the thorough alphabet; Quick marks the 14 operations of the quick tier.
func fullAlphabet() []op {
	return []op{
		// single-row inserts over keys {1,2,3}; b is not in key order, b has a duplicate, c and s have NULLs,
		// rows 1 and 2 share the 2-character prefix of s
		ins("ins1", "(1,2,1,'aab')", true),
		ins("ins2", "(2,1,NULL,'aac')", true),
		ins("ins3", "(3,1,3,NULL)", true),
		// updates
		dml("upd2-b3", "update", "update %T set b = 3 where a = 2", true),
		dml("upd1-bnull", "update", "update %T set b = NULL, s = 'ab' where a = 1", false),
		dml("upd3-c1", "update", "update %T set c = 1 where a = 3", false),       // duplicate on c when row 1 has c=1
		dml("upd-by-kb", "update", "update %T set s = 'aa' where b = 1", true),   // index-driven, up to 2 rows
		dml("upd-c9-by-kb", "update", "update %T set c = 9 where b = 1", false),  // fails on the 2nd row while kc exists
		dml("upd-range-kb", "update", "update %T set b = 1 where b >= 2", false), // index-driven range, moves entries
		dml("updpk-1to3", "update-pk", "update %T set a = 3 where a = 1", true),  // first -> last
		dml("updpk-3to1", "update-pk", "update %T set a = 1 where a = 3", false), // last -> first
		// deletes: by key (first / middle / last row when all three exist), by position, through an index
		dml("del1", "delete", "delete from %T where a = 1", true),
		dml("del2", "delete", "delete from %T where a = 2", true),
		dml("del3", "delete", "delete from %T where a = 3", false),
		dml("del-first", "delete", "delete from %T order by a limit 1", false),
		dml("del-last", "delete", "delete from %T order by a desc limit 1", false),
		dml("del-by-kb", "delete", "delete from %T where b = 1", true), // index-driven, up to 2 rows
		// replace (different contents than the inserts; rep1/rep3 also conflict on c with another row)
		rep("rep1", "1", "1", "3", "'ab'", true),
		rep("rep2", "2", "2", "2", "'aab'", false),
		rep("rep3", "3", "NULL", "1", "'b'", false),
		// one REPLACE carrying the same (possibly absent) primary key twice: the second row replaces
		// the first inside the statement (delete of a row that only exists in the pending edits)
		{Name: "rep4-twice", Kind: "replace", T: "replace into t values (4,3,NULL,'d'),(4,2,NULL,'e')", U: []string{"insert into u values (4,2,NULL,'e')"}, RepA: "4", Quick: true},
		dml("truncate", "truncate", "truncate table %T", true),
		ddl("drop-kb", "drop-index", "alter table t drop index kb", true),
		ddl("create-kb", "create-index", "create index kb on t (b)", true),
		ddl("drop-kc", "drop-index", "drop index kc on t", false),
		ddl("create-kc", "create-index", "create unique index kc on t (c)", false),
		ddl("drop-kbc", "drop-index", "drop index kbc on t", false),
		ddl("create-kcb", "create-index", "create index kcb on t (c, b)", false),
		ddl("drop-ks", "drop-index", "drop index ks on t", false),
		ddl("create-ks", "create-index", "create index ks on t (s(2))", false),
		// a statement that always fails on its second row (duplicate primary key inside the statement)
		ddl("fail-dup", "failing", "insert into t values (4,3,NULL,'d'),(4,3,NULL,'d')", true),
		ddl("begin", "begin", "begin", true),
		ddl("rollback", "rollback", "rollback", true),
		ddl("commit", "commit", "commit", false),
	}
}

func alphabet(name string) []op {
	all := fullAlphabet()
	if name == "full" {
		return all
	}
	var out []op
	for _, o := range all {
		if o.Quick {
			out = append(out, o)
		}
	}
	return out
}

// ---------------------------------------------------------------------------------------------
// the read suite

type query struct {
	Quick bool
	Name  string
	Where string // predicate ("" with OrderBy: whole table)
	Order string // "" or "b", "b desc", "c": the index may serve the order; compared as sequence of that column
}

// suite: the reads; a leading '+' marks the reads of the quick tier.
func suite(all bool) []query {
	var qs []query
	w := func(ws ...string) {
		for _, x := range ws {
			quick := strings.HasPrefix(x, "+")
			x = strings.TrimPrefix(x, "+")
			if all || quick {
				qs = append(qs, query{Name: x, Where: x})
			}
		}
	}
	// primary key
	w("+a = 1", "a = 2", "+a = 3", "+a > 1", "a <= 2")
	// kb (or kbc's prefix when kb is dropped)
	w("+b = 1", "+b = 2", "+b = 3", "+b is null", "+b < 2", "+b >= 2", "b >= 1 and b <= 2", "b <> 1", "+b in (1, 3)", "b is not null")
	// kc / kcb
	w("+c = 1", "c = 2", "+c = 3", "c = 9", "+c >= 2", "+c < 3", "c is null", "c is not null")
	// kbc
	w("+b = 1 and c >= 1", "+b = 1 and c is null", "b = 2 and c = 1", "b is null and c is null", "+b = 1 and c < 3", "b >= 1 and c = 3", "+b = 3 and c is not null")
	// ks (prefix index)
	w("+s = 'aab'", "s = 'aac'", "+s = 'aa'", "s = 'b'", "+s is null", "+s >= 'aac'", "+s like 'aa%'", "s < 'ab'")
	for _, q := range []query{
		{Quick: true, Name: "order by b", Where: "b is not null", Order: "b"},
		{Quick: true, Name: "order by b desc", Where: "b >= 1", Order: "b desc"},
		{Name: "order by c", Where: "c >= 1", Order: "c"},
		{Quick: true, Name: "order by b, c", Where: "b >= 1", Order: "b, c"},
	} {
		if all || q.Quick {
			qs = append(qs, q)
		}
	}
	return qs
}

func (q query) sql(table string) string {
	cols := "a, b, c, s"
	s := "select " + cols + " from " + table
	if q.Where != "" {
		s += " where " + q.Where
	}
	if q.Order != "" {
		s += " order by " + q.Order
	}
	return s
}

// accessOf classifies the analysed plan: the name of the index of the IndexedTableAccess on t, or
// "scan" when the plan reads t without an index.
func accessOf(node sql.Node) string {
	acc := "scan"
	if node == nil {
		return acc
	}
	transform.Inspect(node, func(n sql.Node) bool {
		if ita, ok := n.(*plan.IndexedTableAccess); ok && strings.EqualFold(ita.Name(), "t") {
			acc = "index:" + strings.ToLower(ita.Index().ID())
		}
		return true
	})
	return acc
}

// ---------------------------------------------------------------------------------------------
// the system under test

type system struct {
	e     *eng.Engine
	s     *eng.Session
	hasKc bool // the unique index on c exists (decides which rows REPLACE conflicts with)
}

func newSystem() *system {
	e := eng.New()
	s := e.NewSession("root")
	s.MustExec(ddlT)
	s.MustExec(ddlU)
	return &system{e: e, s: s, hasKc: true}
}

func (y *system) inTxn() bool { return y.s.Sess.GetIgnoreAutoCommit() }

type applied struct {
	res     *eng.Result
	twinErr string // a twin statement failed (harness error)
}

// apply runs the operation on t and, when it succeeded, its counterpart on the twin.
func (y *system) apply(o op) applied {
	r := y.s.Exec(o.T)
	out := applied{res: r}
	if r.Err != nil {
		return out
	}
	switch o.Name {
	case "drop-kc":
		y.hasKc = false
	case "create-kc":
		y.hasKc = true
	}
	var us []string
	if o.Kind == "replace" {
		cond := "a = " + o.RepA
		if y.hasKc && o.RepC != "" {
			cond += " or c = " + o.RepC
		}
		us = append(us, "delete from u where "+cond)
	}
	us = append(us, o.U...)
	for _, q := range us {
		if ur := y.s.Exec(q); ur.Err != nil {
			out.twinErr = q + ": " + ur.Err.Error()
			return out
		}
	}
	return out
}

// ---------------------------------------------------------------------------------------------
// representation invariant

type mismatch struct {
	kind, index, observed, expected string
}

func cellLess(a, b interface{}) (less, equal bool) {
	if a == nil || b == nil {
		return a == nil && b != nil, a == nil && b == nil
	}
	switch x := a.(type) {
	case string:
		if y, ok := b.(string); ok {
			return x < y, x == y
		}
	}
	ai, aok := toInt(a)
	bi, bok := toInt(b)
	if aok && bok {
		return ai < bi, ai == bi
	}
	fa, fb := eng.FormatValue(a), eng.FormatValue(b)
	return fa < fb, fa == fb
}

func toInt(v interface{}) (int64, bool) {
	switch x := v.(type) {
	case int8:
		return int64(x), true
	case int16:
		return int64(x), true
	case int32:
		return int64(x), true
	case int64:
		return x, true
	case int:
		return int64(x), true
	}
	return 0, false
}

func fmtCells(c []interface{}) string {
	p := make([]string, len(c))
	for i, v := range c {
		p[i] = eng.FormatValue(v)
	}
	return "(" + strings.Join(p, ",") + ")"
}

func fmtEntries(ix memory.VerifC16Index) string {
	var p []string
	for _, en := range ix.Entries {
		loc := "?"
		if en.LocOK {
			loc = fmt.Sprintf("%s[%d]", en.Partition, en.Idx)
		}
		p = append(p, fmtCells(en.Cells)+"->"+loc)
	}
	return strings.Join(p, " ")
}

func fmtRows(d memory.VerifC16Table) string {
	var p []string
	for _, pk := range d.PartitionKeys {
		for i, r := range d.Partitions[pk] {
			p = append(p, fmt.Sprintf("%s[%d]=%s", pk, i, eng.FormatRow(r)))
		}
	}
	return strings.Join(p, " ")
}

// checkRepr: every secondary index holds exactly one entry per row, the entry's key cells equal
// the cells of the row its location points at, locations are a bijection onto the rows, entries
// are sorted by the index expressions (NULLs first).
func checkRepr(d memory.VerifC16Table) *mismatch {
	total := 0
	for _, rows := range d.Partitions {
		total += len(rows)
	}
	for _, ix := range d.Indexes {
		ext := append([]int{}, ix.KeyCols...)
		for _, pk := range d.PkOrdinals {
			in := false
			for _, k := range ix.KeyCols {
				in = in || k == pk
			}
			if !in {
				ext = append(ext, pk)
			}
		}
		ctxt := "index " + ix.ID + ": " + fmtEntries(ix) + " ; rows: " + fmtRows(d)
		if len(ix.Entries) != total {
			return &mismatch{"entry-count", ix.ID, fmt.Sprintf("%d entries for %d rows; %s", len(ix.Entries), total, ctxt), "one entry per row"}
		}
		seen := map[string]bool{}
		for i, en := range ix.Entries {
			if !en.LocOK {
				return &mismatch{"dangling-location", ix.ID, fmt.Sprintf("entry %d has no location cell; %s", i, ctxt), "location cell"}
			}
			rows, ok := d.Partitions[en.Partition]
			if !ok || en.Idx < 0 || en.Idx >= len(rows) {
				return &mismatch{"dangling-location", ix.ID, fmt.Sprintf("entry %d points at %s[%d]; %s", i, en.Partition, en.Idx, ctxt), "location of an existing row"}
			}
			lk := fmt.Sprintf("%s/%d", en.Partition, en.Idx)
			if seen[lk] {
				return &mismatch{"duplicate-location", ix.ID, fmt.Sprintf("two entries point at %s[%d]; %s", en.Partition, en.Idx, ctxt), "locations pairwise distinct"}
			}
			seen[lk] = true
		}
		for i, en := range ix.Entries {
			row := d.Partitions[en.Partition][en.Idx]
			if len(en.Cells) != len(ext) {
				return &mismatch{"entry-shape", ix.ID, fmt.Sprintf("entry %d has %d key cells; %s", i, len(en.Cells), ctxt), fmt.Sprintf("%d (index columns + missing primary key columns)", len(ext))}
			}
			for j, col := range ext {
				if col < 0 || col >= len(row) {
					return &mismatch{"entry-shape", ix.ID, fmt.Sprintf("index column %d not in the row; %s", col, ctxt), "columns of the table"}
				}
				if _, eq := cellLess(en.Cells[j], row[col]); !eq {
					return &mismatch{"key-mismatch", ix.ID, fmt.Sprintf("entry %d %s points at row %s; %s", i, fmtCells(en.Cells), eng.FormatRow(row), ctxt), "entry key cells equal the cells of the row it points at"}
				}
			}
		}
		for i := 1; i < len(ix.Entries); i++ {
			a, b := ix.Entries[i-1].Cells, ix.Entries[i].Cells
			for j := range ix.KeyCols {
				less, eq := cellLess(a[j], b[j])
				if less {
					break
				}
				if !eq {
					return &mismatch{"unsorted", ix.ID, fmt.Sprintf("entry %d %s before entry %d %s; %s", i-1, fmtCells(a), i, fmtCells(b), ctxt), "entries sorted by the index columns, NULLs first"}
				}
			}
		}
	}
	return nil
}

// reprKey: canonical text of the dump (entries sorted, so that the arbitrary order of ties and of
// multi-row statement application does not split states).
func reprKey(d memory.VerifC16Table) string {
	var sb strings.Builder
	sb.WriteString(fmtRows(d))
	for _, ix := range d.Indexes {
		var p []string
		for _, en := range ix.Entries {
			p = append(p, fmt.Sprintf("%s->%s[%d]", fmtCells(en.Cells), en.Partition, en.Idx))
		}
		sort.Strings(p)
		fmt.Fprintf(&sb, "|%s u=%v %v %v:%s", ix.ID, ix.Unique, ix.KeyCols, ix.PrefixLens, strings.Join(p, " "))
	}
	return sb.String()
}

// ---------------------------------------------------------------------------------------------
// behavioural oracle

type bmismatch struct {
	clause, kind, query, access, observed, expected string
	panicFrame                                      string
}

func colOf(order string) int {
	switch strings.Fields(order)[0] {
	case "b", "b,":
		return 1
	case "c":
		return 2
	}
	return 0
}

func orderSeq(rows []sql.Row, order string) []string {
	var out []string
	cols := []int{colOf(order)}
	if order == "b, c" {
		cols = []int{1, 2}
	}
	for _, r := range rows {
		var p []string
		for _, c := range cols {
			p = append(p, eng.FormatValue(r[c]))
		}
		out = append(out, strings.Join(p, ","))
	}
	return out
}

// behaviour runs the read suite in session s (on t and on the twin) and compares.
func (st *stepper) behaviour(s *eng.Session, count bool) *bmismatch {
	r := st.r
	// the twin holds the same rows as a full scan of t
	ts, us := s.Exec("select a, b, c, s from t"), s.Exec("select a, b, c, s from u")
	if ts.Err != nil || us.Err != nil {
		return &bmismatch{clause: "same-rows-as-twin", kind: "error", query: "full scan", access: "scan", observed: ts.Summary() + " / " + us.Summary(), expected: "rows"}
	}
	if !eng.EqualStrings(ts.Multiset(), us.Multiset()) {
		return &bmismatch{clause: "same-rows-as-twin", kind: "rows-differ", query: "full scan", access: "scan", observed: "t: " + ts.Summary(), expected: "u: " + us.Summary()}
	}
	for _, q := range st.qs {
		qt, qu := q.sql("t"), q.sql("u")
		node, rt := planAndRun(s, qt)
		acc := accessOf(node)
		ru := st.twin(s, us, qu)
		if count {
			r.Count("queries_compared", 1)
			if acc != "scan" {
				r.Count("index_driven_queries", 1)
				r.Count("via_"+acc, 1)
			} else {
				r.Count("not_index_driven", 1)
			}
		}
		if rt.Panic != nil {
			return &bmismatch{clause: "index-lookup", kind: "panic", query: q.Name, access: acc, observed: fmt.Sprint(rt.Panic), expected: "rows", panicFrame: core.TopFrame(rt.Stack)}
		}
		if ru.err != "" {
			return &bmismatch{clause: "harness", kind: "twin-query-failed", query: q.Name, access: acc, observed: ru.err, expected: "rows"}
		}
		if rt.Err != nil {
			return &bmismatch{clause: "index-lookup", kind: "error", query: q.Name, access: acc, observed: rt.Summary(), expected: strings.Join(ru.multiset, " ")}
		}
		if !eng.EqualStrings(rt.Multiset(), ru.multiset) {
			kind := "wrong-rows"
			if len(rt.Rows) < len(ru.multiset) {
				kind = "missing-rows"
			} else if len(rt.Rows) > len(ru.multiset) {
				kind = "extra-rows"
			}
			return &bmismatch{clause: "index-lookup", kind: kind, query: q.Name, access: acc, observed: qt + " -> " + rt.Summary(), expected: qu + " -> " + strings.Join(ru.multiset, " ")}
		}
		if q.Order != "" {
			if got := orderSeq(rt.Rows, q.Order); !eng.EqualStrings(got, ru.order) {
				return &bmismatch{clause: "index-lookup", kind: "wrong-order", query: q.Name, access: acc, observed: qt + " -> " + strings.Join(got, " "), expected: qu + " -> " + strings.Join(ru.order, " ")}
			}
		}
	}
	return nil
}

// planAndRun analyses q once, returns the text of the analysed plan and the result of executing
// exactly that plan (the steps of Engine.Query: begin the statement's transaction unless one is
// open, bind + analyse, PrepQueryPlanForExecution, drain, close = autocommit).
func planAndRun(s *eng.Session, q string) (analysed sql.Node, res *eng.Result) {
	res = &eng.Result{}
	ctx := s.NewCtx()
	defer func() {
		if x := recover(); x != nil {
			res.Panic = x
			res.Stack = string(debug.Stack())
			res.Err = fmt.Errorf("panic: %v", x)
		}
	}()
	e := s.Eng.E
	if ctx.GetTransaction() == nil {
		tx, err := s.Sess.StartTransaction(ctx, sql.ReadWrite)
		if err != nil {
			res.Err = err
			return
		}
		ctx.SetTransaction(tx)
	}
	binder := planbuilder.New(ctx, e.Analyzer.Catalog, e.EventScheduler)
	parsed, _, _, qFlags, err := binder.Parse(q, nil, false)
	if err != nil {
		res.Err = err
		return
	}
	node, err := e.Analyzer.Analyze(ctx, parsed, nil, qFlags)
	if err != nil {
		res.Err = err
		return
	}
	analysed = node
	sch, it, _, err := e.PrepQueryPlanForExecution(ctx, q, node, qFlags)
	if err != nil {
		res.Err = err
		return
	}
	res.Schema = sch
	for {
		row, err := it.Next(ctx)
		if err == io.EOF {
			break
		}
		if err != nil {
			res.Err = err
			it.Close(ctx)
			return
		}
		res.Rows = append(res.Rows, row)
	}
	if err := it.Close(ctx); err != nil {
		res.Err = err
	}
	return
}

type twinResult struct {
	multiset []string
	order    []string
	err      string
}

// twin evaluates a read on the keyless, index-free twin. The result of a full-scan query over
// an index-free table is a function of the table's rows: it is executed once per distinct twin
// content and query in this worker and remembered.
func (st *stepper) twin(s *eng.Session, scan *eng.Result, q string) twinResult {
	key := strings.Join(scan.Multiset(), " ") + "\x00" + q
	if v, ok := st.twinCache[key]; ok {
		st.r.Count("twin_queries_from_cache", 1)
		return v
	}
	st.r.Count("twin_queries_executed", 1)
	ru := s.Exec(q)
	var v twinResult
	if ru.Err != nil {
		v.err = ru.Summary()
	} else {
		v.multiset = ru.Multiset()
		if i := strings.Index(q, " order by "); i >= 0 {
			v.order = orderSeq(ru.Rows, q[i+len(" order by "):])
		}
	}
	st.twinCache[key] = v
	return v
}

// ---------------------------------------------------------------------------------------------
// one history

type witness struct {
	Alphabet string   `json:"alphabet"`
	History  []int    `json:"history"`
	SQL      []string `json:"sql"`
}

type stepper struct {
	r         *core.Run
	alpha     string
	ops       []op
	qs        []query
	twinCache map[string]twinResult
}

func newStepper(r *core.Run, alpha string) *stepper {
	return &stepper{r: r, alpha: alpha, ops: alphabet(alpha), qs: suite(alpha == "full"), twinCache: map[string]twinResult{}}
}

func (st *stepper) wit(h []int) json.RawMessage {
	w := witness{Alphabet: st.alpha, History: h, SQL: []string{ddlT}}
	for _, i := range h {
		w.SQL = append(w.SQL, st.ops[i].T)
	}
	return core.J(w)
}

func indexClass(id string) string {
	switch strings.ToLower(id) {
	case "kb":
		return "single-column"
	case "kc":
		return "unique"
	case "kbc", "kcb":
		return "composite"
	case "ks":
		return "prefix"
	}
	return id
}

type view struct {
	name string
	d    memory.VerifC16Table
}

// views dumps the committed table and, inside a transaction, the session's working copy.
func (y *system) views() []view {
	db := y.e.DBs[0].BaseDatabase
	vs := []view{{"committed", memory.VerifC16Committed(db, "t")}}
	if y.inTxn() {
		vs[0].name = "committed-during-transaction"
		vs = append(vs, view{"session", memory.VerifC16Session(y.s.Ctx, db, "t")})
	}
	return vs
}

// checkViews evaluates the representation invariant on every view; on a failure it records the
// violation (witness: the history up to and including the step after which it was seen).
func (st *stepper) checkViews(y *system, vs []view, h []int, o op) bool {
	r := st.r
	subject := map[string]string{"after": o.Kind}
	for _, v := range vs {
		if !v.d.Found {
			r.Violate(core.Violation{Check: "index-consistency", Clause: "harness", Kind: "no-dump", Subject: subject, Witness: st.wit(h), Observed: "table t not found by the dump accessor", Expected: "dump"})
			return false
		}
		r.Count("index_dumps_checked", int64(len(v.d.Indexes)))
		var mm *mismatch
		if pv, stack := core.Try(func() { mm = checkRepr(v.d) }); pv != nil {
			r.Violate(core.Violation{Check: "index-consistency", Clause: "harness", Kind: "dump-panic", Subject: subject, Witness: st.wit(h), Observed: fmt.Sprint(pv) + "\n" + stack, Expected: "dump"})
			return false
		}
		if mm != nil {
			subject["view"] = v.name
			obs := "after `" + o.T + "` (" + v.name + " table): " + mm.observed
			// what a reader of that view observes
			rs := y.s
			if v.name == "committed-during-transaction" {
				rs = y.e.NewSession("root")
			}
			if bm := st.behaviour(rs, false); bm != nil {
				obs = "observable: " + bm.observed + " but " + bm.expected + " ; " + obs
			}
			r.Violate(core.Violation{Check: "index-consistency", Clause: "representation-invariant", Kind: mm.kind, Subject: subject, Witness: st.wit(h), Observed: obs, Expected: mm.expected})
			return false
		}
	}
	return true
}

// Step runs history h on a fresh engine and applies the oracle to the state after its last step.
// The (cheap) representation invariant is also evaluated after every earlier step: the memory
// backend applies the rows of a multi-row statement in Go map order, so damage done by an earlier
// step need not have shown when that step was the last one of a shorter history.
func (st *stepper) Step(h []int) (string, bool) {
	r := st.r
	y := newSystem()
	var before string
	var last op
	var ap applied
	var vs []view
	for i, oi := range h {
		o := st.ops[oi]
		isLast := i == len(h)-1
		switch o.Kind {
		case "begin":
			if y.inTxn() {
				if isLast {
					return hist.Disabled, false
				}
				return "unreachable", false
			}
		case "rollback", "commit":
			if !y.inTxn() {
				if isLast {
					return hist.Disabled, false
				}
				return "unreachable", false
			}
		}
		if isLast {
			before = y.s.Exec("select a, b, c, s from t").Summary() + "|" + fmt.Sprint(y.inTxn())
			last = o
		}
		ap = y.apply(o)
		if ap.res.Panic != nil || ap.twinErr != "" {
			if !isLast {
				return "unreachable", false // such prefixes are never expanded
			}
			break
		}
		vs = y.views()
		if !st.checkViews(y, vs, h[:i+1], o) {
			return "violation", false
		}
	}
	subject := map[string]string{"after": last.Kind}
	if ap.res.Panic != nil {
		subject["frame"] = core.TopFrame(ap.res.Stack)
		r.Violate(core.Violation{Check: "index-consistency", Clause: "no-panic", Kind: "panic", Subject: subject, Witness: st.wit(h), Observed: last.T + ": " + fmt.Sprint(ap.res.Panic), Expected: "no panic"})
		return "violation", false
	}
	if ap.twinErr != "" {
		r.Violate(core.Violation{Check: "index-consistency", Clause: "harness", Kind: "twin-statement-failed", Subject: subject, Witness: st.wit(h), Observed: ap.twinErr, Expected: "the twin accepts every statement"})
		return "violation", false
	}
	outcome := "ok"
	if ap.res.Err != nil {
		outcome = "err-" + eng.ErrClass(ap.res.Err)
	}
	inTxn := y.inTxn()
	var key strings.Builder
	fmt.Fprintf(&key, "txn=%v kc=%v", inTxn, y.hasKc)
	for _, v := range vs {
		key.WriteString("\n" + v.name + ":" + reprKey(v.d))
	}

	// (2) behaviour: index-driven reads equal the reads on the twin, in every view
	readers := []struct {
		name string
		s    *eng.Session
	}{{vs[len(vs)-1].name, y.s}}
	if inTxn {
		readers = append(readers, struct {
			name string
			s    *eng.Session
		}{"committed-during-transaction", y.e.NewSession("root")})
	}
	for _, rd := range readers {
		if bm := st.behaviour(rd.s, true); bm != nil {
			subject["view"] = rd.name
			subject["access"] = bm.access
			if bm.panicFrame != "" {
				subject["frame"] = bm.panicFrame
			}
			r.Violate(core.Violation{Check: "index-consistency", Clause: bm.clause, Kind: bm.kind, Subject: subject, Witness: st.wit(h), Observed: "after `" + last.T + "`, " + rd.name + " view, " + bm.observed, Expected: bm.expected})
			return "violation", false
		}
	}

	after := y.s.Exec("select a, b, c, s from t")
	afterKey := after.Summary() + "|" + fmt.Sprint(inTxn)
	changed := afterKey != before
	cls := last.Kind + ":" + outcome
	if outcome == "ok" && !changed && last.Kind != "create-index" && last.Kind != "drop-index" {
		cls += "-noop"
	}
	r.Outcome(cls)
	if (changed || ap.res.Err != nil || last.Kind == "create-index" || last.Kind == "drop-index") && (len(after.Rows) > 0 || before != "|false" && before != "|true") {
		r.NonTrivial(st.alpha + fmt.Sprint(h))
		if len(h) >= 4 && changed && inTxn && r.WantSample() {
			var w witness
			json.Unmarshal(st.wit(h), &w)
			r.Sample(map[string]any{"history": w.SQL[1:], "rows_after": after.Summary(), "last_step": cls})
		}
	}
	sum := sha1.Sum([]byte(key.String()))
	return hex.EncodeToString(sum[:]), true
}

// ---------------------------------------------------------------------------------------------

func explore(r *core.Run, alpha string, unmerged, maxDepth int) {
	st := newStepper(r, alpha)
	r.Info("alphabet_size", len(st.ops))
	var names []string
	for _, o := range st.ops {
		names = append(names, o.Name+": "+o.T)
	}
	r.Info("alphabet", names)
	r.Info("read_suite_size", len(st.qs))
	r.Info("unmerged_depth", unmerged)
	r.Info("max_depth_bound", maxDepth)
	hist.Explore(r, hist.Config{
		NOps: len(st.ops), MaxDepth: maxDepth, UnmergedDepth: unmerged,
		Step:  st.Step,
		Label: func(i int) string { return st.ops[i].Name },
	})
}

func init() {
	core.Register(&core.Prop{
		ID:    "C16",
		Level: "model_checking",
		Rule: "BFS over statement histories on fresh engines (hist): table t(a PK, b, c, s) with KEY kb(b), UNIQUE kc(c), KEY kbc(b,c), KEY ks(s(2)) and a keyless index-free twin u that receives the same statements " +
			"(REPLACE on the twin = delete the conflicting rows, insert; statements that fail on t are not applied). " +
			"Alphabet quick (16): insert of rows 1..3, update by PK, index-driven 2-row update, UPDATE of the PK (first row becomes last), delete of rows 1 and 2 (first / middle), index-driven multi-row delete, REPLACE (conflicts on PK and on the unique key), TRUNCATE, DROP INDEX kb, CREATE INDEX kb, a 2-row insert failing on its 2nd row, BEGIN, ROLLBACK; " +
			"thorough (33): + updates to NULL / failing on the unique key / failing on the 2nd row / index range, PK update last->first, delete of row 3 and of the first / last row by position, two more REPLACEs, drop/create of the unique, composite and prefix indexes, COMMIT. " +
			"BEGIN only outside, ROLLBACK/COMMIT only inside a transaction. Every history of length <= 3 is run (no merging); deeper levels expand only states not seen before in the worker, to depth 5 (quick) / 6 (thorough). " +
			"State key = rows + internal dump of every index (entries with row locations) of the committed table and, inside a transaction, of the session's working copy. " +
			"Oracle: (1) representation invariant on that dump after EVERY step: one entry per row, key cells equal the row's, location cells are a bijection onto the rows, entries sorted (NULLs first); on the committed table and, inside a transaction, on the session copy too; " +
			"(2) after the last step: 26 (quick) / 42 (thorough) reads — point, range, IN, IS [NOT] NULL, LIKE prefix, composite, ORDER BY asc/desc — on t must return the rows of the same read on the twin (and the same key sequence for ORDER BY); each read's analysed plan is inspected and the read is counted as index-driven, per index, when it contains IndexedTableAccess(t); inside a transaction a second session also reads the committed tables; the full scans of t and u must agree (index-driven DML hit the right rows). " +
			"non-trivial = last step changed rows / index set / transaction state or failed, on a table that has or had rows",
		Assumptions: []string{
			"the result of a full-scan query on the keyless, index-free twin is a function of the twin's rows (executed once per distinct content and query per worker)",
			"REPLACE deletes every row that conflicts on the primary key or on a unique key (MySQL semantics) — used to keep the twin in sync",
			"multi-row statements are applied by the memory backend in Go map order; the oracle and the state key do not depend on the order of ties",
			"single writer session (C17 covers concurrent transactions)",
		},
		QuickBudget:    70,
		ThoroughBudget: 900,
		Run: func(r *core.Run) {
			debug.SetGCPercent(400)
			if r.Quick() {
				explore(r, "quick", 3, 5)
			} else {
				explore(r, "full", 3, 6)
			}
		},
		Replay: func(r *core.Run, w json.RawMessage) {
			var wt witness
			if json.Unmarshal(w, &wt) != nil {
				return
			}
			st := newStepper(r, wt.Alphabet)
			for _, i := range wt.History {
				if i < 0 || i >= len(st.ops) {
					return
				}
			}
			st.Step(wt.History)
		},
	})
}
