// Package c17 — transactions commit or roll back exactly their own changes.
//
// Explorer: hist (BFS over statement-granularity interleavings of two sessions on one real
// engine, fresh engine per history). Reference: versioned committed state + per-session overlay
// (model.go). See design.d/C17.md.
package c17

import (
	"encoding/json"
	"fmt"
	"runtime/debug"
	"sort"
	"strconv"
	"strings"

	sqle "github.com/dolthub/go-mysql-server"
	"github.com/dolthub/go-mysql-server/memory"

	"verif/mc/core"
	"verif/mc/eng"
	"verif/mc/hist"
)

// ---------------------------------------------------------------------------------------------
// alphabet

type opKind int

const (
	opBegin opKind = iota
	opBeginRO
	opCommit
	opRollback
	opAC0
	opAC1
	opIns  // insert into t the session's own row
	opUpd  // update the session's own row of t
	opDel  // delete the session's own row of t
	opUpdU // update the session's own row of u (second table)
	opDDL  // create table if not exists x<s> (implicit commit)
	opRead // select * from t; select * from u
	opFail // select nope from t: resolves t, fails in analysis (its statement transaction is neither committed nor rolled back)
	nKinds
)

var kindName = [...]string{"begin", "begin-ro", "commit", "rollback", "ac0", "ac1", "ins", "upd", "del", "updu", "ddl", "read", "fail"}

type op struct {
	Sess int // 0,1
	Kind opKind
}

func alphabet() []op {
	var a []op
	for s := 0; s < 2; s++ {
		for k := opKind(0); k < nKinds; k++ {
			a = append(a, op{s, k})
		}
	}
	return a
}

// ownKey is the primary-key value only session s writes (in t and in u).
func ownKey(s int) int { return s + 1 }

// sqlOf renders the statement(s) of an operation; stamp is the unique value a write stores.
func sqlOf(o op, stamp int) []string {
	k := ownKey(o.Sess)
	switch o.Kind {
	case opBegin:
		return []string{"begin"}
	case opBeginRO:
		return []string{"start transaction read only"}
	case opCommit:
		return []string{"commit"}
	case opRollback:
		return []string{"rollback"}
	case opAC0:
		return []string{"set autocommit=0"}
	case opAC1:
		return []string{"set autocommit=1"}
	case opIns:
		return []string{fmt.Sprintf("insert into t values (%d,%d)", k, stamp)}
	case opUpd:
		return []string{fmt.Sprintf("update t set b=%d where a=%d", stamp, k)}
	case opDel:
		return []string{fmt.Sprintf("delete from t where a=%d", k)}
	case opUpdU:
		return []string{fmt.Sprintf("update u set b=%d where a=%d", stamp, k)}
	case opDDL:
		return []string{fmt.Sprintf("create table if not exists x%d (a int primary key)", k)}
	case opRead:
		return []string{"select * from t", "select * from u"}
	case opFail:
		return []string{"select nope from t"}
	}
	return nil
}

func label(o op, step int) string {
	return fmt.Sprintf("s%d: %s", o.Sess+1, strings.Join(sqlOf(o, step), "; "))
}

var fixture = []string{
	"create table t (a int primary key, b int)",
	"insert into t values (0,0)",
	"create table u (a int primary key, b int)",
	"insert into u values (0,0),(1,0),(2,0)",
}

// ---------------------------------------------------------------------------------------------
// real system

type system struct {
	e    *eng.Engine
	sess [2]*eng.Session
	// obs is the third session: it ran the fixture (autocommit, every transaction ended) and
	// afterwards only reads the committed state, each read being a new transaction
	obs *eng.Session
}

// newSystem builds a fresh engine. The process-global variable tables are reset once per worker
// (no statement of this check changes a global), not per history.
func newSystem() *system {
	db := memory.NewDatabase("mydb")
	pro := memory.NewDBProvider(db)
	e := &eng.Engine{E: sqle.NewDefault(pro), Pro: pro, DBs: []*memory.Database{db}}
	setup := e.NewSession("root")
	for _, q := range fixture {
		setup.MustExec(q)
	}
	s := &system{e: e, obs: setup}
	s.sess[0] = e.NewSession("root")
	s.sess[1] = e.NewSession("root")
	return s
}

// rowsOf parses "select * from <two int columns>" into a table value.
func rowsOf(r *eng.Result) (table, bool) {
	t := table{}
	for _, row := range r.Rows {
		if len(row) != 2 {
			return nil, false
		}
		a, ok1 := toInt(row[0])
		b, ok2 := toInt(row[1])
		if !ok1 || !ok2 {
			return nil, false
		}
		if _, dup := t[a]; dup {
			return nil, false
		}
		t[a] = b
	}
	return t, true
}

func toInt(v any) (int, bool) {
	switch x := v.(type) {
	case int32:
		return int(x), true
	case int64:
		return int(x), true
	case int:
		return x, true
	}
	return 0, false
}

// ---------------------------------------------------------------------------------------------
// stepper

type witness struct {
	Ops    []int    `json:"ops"`
	Labels []string `json:"labels,omitempty"`
	At     string   `json:"at,omitempty"`
}

type stepper struct {
	r     *core.Run
	alpha []op
}

func (st *stepper) wit(h []int, at string) json.RawMessage {
	w := witness{Ops: h, At: at}
	for i, oi := range h {
		w.Labels = append(w.Labels, label(st.alpha[oi], i+1))
	}
	return core.J(w)
}

// violation raised by the oracle for one statement
type viol struct {
	check, clause, kind string
	observed, expected  string
}

// actor: classifying coordinates of the session in which the symptom shows (the session that
// issued the last statement — for the statement's own result and for what the third session
// sees — or the session whose read is wrong), taken before the statement / the read.
type actor struct {
	mode         string // autocommit | explicit | explicit-read-only | implicit-autocommit-off
	sinceDDLInTx bool
	endingTx     string // the transaction open before the statement: none | non-writing | writing
}

func actorOf(ms *sessModel) actor {
	a := actor{ms.mode(), ms.sinceDDLInTx, "none"}
	if ms.open {
		a.endingTx = "non-writing"
		if ms.wrote {
			a.endingTx = "writing"
		}
	}
	return a
}

func (st *stepper) report(h []int, at string, a actor, ev string, v *viol) {
	subject := map[string]string{
		"event":           ev,
		"tx":              a.mode,
		"open_tx":         a.endingTx,
		"since_ddl_in_tx": yesno(a.sinceDDLInTx),
		"seen_by":         atClass(at),
	}
	st.r.Violate(core.Violation{Check: v.check, Clause: v.clause, Kind: v.kind, Subject: subject,
		Witness: st.wit(h, at), Observed: v.observed, Expected: v.expected})
}

func atClass(at string) string {
	switch {
	case at == "step":
		return "statement"
	case strings.HasPrefix(at, "observer"):
		return "new-session"
	case strings.HasPrefix(at, "post-own"):
		return "acting-session"
	}
	return "other-session"
}

func yesno(b bool) string {
	if b {
		return "yes"
	}
	return "no"
}

// runOp executes one operation on the real system and the model; returns the oracle's verdict
// (nil = conforms) and the model event class.
func runOp(sys *system, m *model, o op, stamp int) (*viol, string, string) {
	sqls := sqlOf(o, stamp)
	ev := "none"
	outcome := kindName[o.Kind]
	switch o.Kind {
	case opRead:
		for i, q := range sqls {
			res := sys.sess[o.Sess].Exec(q)
			tbl := "t"
			if i == 1 {
				tbl = "u"
			}
			if v := m.read(o.Sess, tbl, res); v != nil {
				return v, "read", outcome + ":violation"
			}
		}
		return nil, "read", outcome + ":" + m.lastReadClass
	default:
		res := sys.sess[o.Sess].Exec(sqls[0])
		v, e, oc := m.apply(o, stamp, res)
		ev = e
		return v, ev, outcome + ":" + oc
	}
}

// Step runs history h on a fresh engine and applies the oracle to the last operation and to the
// observations made after it (the engine is thrown away afterwards, so these may disturb it).
func (st *stepper) Step(h []int) (string, bool) {
	r := st.r
	if len(h) > 0 && st.alpha[h[0]].Sess != 0 {
		// sessions are symmetric: the first statement is issued by session 1 (w.l.o.g.)
		return hist.Disabled, false
	}
	sys := newSystem()
	m := newModel()
	for i, oi := range h {
		o := st.alpha[oi]
		last := i == len(h)-1
		if !m.enabled(o) {
			if last {
				r.Count("disabled", 1)
				return hist.Disabled, false
			}
			return "unreachable", false
		}
		hadPending := m.pendingAnywhere()
		nVersions := len(m.versions)
		wasDegraded := m.degraded
		act := actorOf(&m.s[o.Sess])
		m.step = i + 1
		v, ev, outcome := runOp(sys, m, o, i+1)
		if !last {
			if v != nil {
				return "unreachable", false // such prefixes are never expanded
			}
			continue
		}
		r.Outcome(outcome)
		if hadPending || len(m.versions) > nVersions {
			r.NonTrivial(fmt.Sprint(h))
		}
		if v != nil {
			st.report(h, "step", act, ev, v)
			return "violation", false
		}
		if m.degraded && !wasDegraded {
			r.Count("histories_entering_overlapping_writers", 1)
		}
		if m.degraded {
			r.Count("steps_overlapping_writers_weak_oracle", 1)
		} else {
			r.Count("steps_full_oracle", 1)
		}
		key := m.key()
		// observations after the last step: a third session reads the committed state, then both
		// sessions read everything (acting session first)
		ob := sys.obs
		for _, tbl := range []string{"t", "u"} {
			res := ob.Exec("select * from " + tbl)
			r.Count("observations", 1)
			if v := m.observe(tbl, res); v != nil {
				st.report(h, "observer "+tbl, act, ev, v)
				return "violation", false
			}
		}
		if v := m.observeTables(ob.Exec("show tables")); v != nil {
			st.report(h, "observer tables", act, ev, v)
			return "violation", false
		}
		var obs []string
		for k := 0; k < 2; k++ {
			s := o.Sess
			at := "post-own"
			if k == 1 {
				s = 1 - o.Sess
				at = "post-other"
			}
			for _, tbl := range []string{"t", "u"} {
				reader := actorOf(&m.s[s])
				res := sys.sess[s].Exec("select * from " + tbl)
				r.Count("observations", 1)
				if v := m.read(s, tbl, res); v != nil {
					st.report(h, fmt.Sprintf("%s s%d %s", at, s+1, tbl), reader, ev, v)
					return "violation", false
				}
				obs = append(obs, m.normRows(res))
			}
		}
		if r.WantSample() && len(h) >= 4 && hadPending && ev == "commit" {
			var w witness
			json.Unmarshal(st.wit(h, ""), &w)
			r.Sample(map[string]any{"history": w.Labels, "committed_after": m.latest().String(), "last_event": ev})
		}
		if m.degraded {
			// the weak oracle depends on which values were ever committed: no merging here
			return "overlapping-writers " + fmt.Sprint(h), true
		}
		return normalise(key + "|" + strings.Join(obs, "|")), true
	}
	return "init", true
}

// ---------------------------------------------------------------------------------------------

func sortedKeys(t table) []int {
	ks := make([]int, 0, len(t))
	for k := range t {
		ks = append(ks, k)
	}
	sort.Ints(ks)
	return ks
}

func (t table) String() string {
	var sb strings.Builder
	for i, k := range sortedKeys(t) {
		if i > 0 {
			sb.WriteByte(' ')
		}
		sb.WriteString("(" + strconv.Itoa(k) + "," + strconv.Itoa(t[k]) + ")")
	}
	return "{" + sb.String() + "}"
}

func explore(r *core.Run, unmerged, maxDepth int) {
	eng.ResetGlobals()
	debug.SetGCPercent(400) // a fresh engine per history is mostly garbage
	st := &stepper{r: r, alpha: alphabet()}
	r.Info("alphabet", len(st.alpha))
	r.Info("unmerged_depth", unmerged)
	r.Info("max_depth_bound", maxDepth)
	hist.Explore(r, hist.Config{
		NOps: len(st.alpha), MaxDepth: maxDepth, UnmergedDepth: unmerged,
		Step:  st.Step,
		Label: func(i int) string { return label(st.alpha[i], 0) },
	})
}

func init() {
	core.Register(&core.Prop{
		ID:    "C17",
		Level: "model_checking",
		Rule: "BFS over all statement-granularity interleavings of two sessions on one real engine (fresh engine per history; tables t(a pk,b), u(a pk,b); session i only writes the row with key i; every write stores a unique stamp = its step number). " +
			"Alphabet per session (13): BEGIN, START TRANSACTION READ ONLY, COMMIT, ROLLBACK, SET autocommit=0, SET autocommit=1, insert/update/delete of its row in t, update of its row in u, a DDL (create table if not exists x<i>, implicit commit), read-all (select * from t, u), a statement that fails in analysis after resolving t (select nope from t: must fail and change nothing). " +
			"Sessions are symmetric, so the first statement is by session 1. The last statement of each history is judged (error class, affected rows, read visibility) and afterwards — the engine is discarded per history — both sessions read both tables and a brand-new session reads the committed state and the table list. " +
			"Oracle: model = list of committed versions + per-session overlay; a read by s must equal V (+) overlay(s) for some committed version V between the one current at s's transaction begin and the latest (snapshot-at-begin and read-latest-committed both accepted); a new session must see exactly the latest version. " +
			"Histories in which two WRITING transactions that both commit overlap in time (BEGIN..COMMIT intervals) are classified at the second commit; from there only the weak clauses are checked (no never-committed value is ever visible to anyone but its writer, own pending writes stay visible, untouched rows stay). " +
			"quick: every history of length <= 4 is run (no merging); thorough: every history of length <= 3, then BFS to depth 6 in which a history reaching an already seen key (model state incl. which committed versions every open transaction can still see and which snapshot it took, plus everything the three sessions read afterwards; write stamps renamed in order of appearance) is not expanded again. SET autocommit=1 inside an explicit transaction started under autocommit=0 is outside the domain (disabled). " +
			"non-trivial = the last statement is executed while some session holds uncommitted changes, or it publishes a new committed version (autocommit write, commit of pending changes, DDL)",
		Assumptions: []string{
			"statements of the two sessions execute one after another (statement-granularity interleavings; true concurrency is C37/C38's business)",
			"sessions write disjoint rows, so V (+) overlay is independent of V on the writer's own rows; write-write conflicts are outside this check (the in-memory backend documents no isolation for overlapping writers)",
			"a DDL inside START TRANSACTION READ ONLY may either fail with a read-only error or commit implicitly and succeed",
			"an implicit (autocommit=0) transaction begins with the first DML/DDL/SELECT after the previous transaction ended",
		},
		QuickBudget:    70,
		ThoroughBudget: 900,
		Run: func(r *core.Run) {
			if r.Quick() {
				explore(r, 4, 4)
			} else {
				explore(r, 3, 6)
			}
		},
		Replay: func(r *core.Run, w json.RawMessage) {
			var wt witness
			if json.Unmarshal(w, &wt) != nil {
				return
			}
			st := &stepper{r: r, alpha: alphabet()}
			for _, i := range wt.Ops {
				if i < 0 || i >= len(st.alpha) {
					return
				}
			}
			st.Step(wt.Ops)
		},
	})
}
