package c17

import (
	"fmt"
	"regexp"
	"strconv"
	"strings"

	"verif/mc/eng"
)

// table is the content of t or u: primary key -> value of column b.
type table map[int]int

func (t table) clone() table {
	c := make(table, len(t))
	for k, v := range t {
		c[k] = v
	}
	return c
}

func (t table) equal(o table) bool {
	if len(t) != len(o) {
		return false
	}
	for k, v := range t {
		if w, ok := o[k]; !ok || w != v {
			return false
		}
	}
	return true
}

// version is one committed state.
type version struct {
	tb [2]table // 0 = t, 1 = u
	x  [2]bool  // DDL tables x1, x2 exist
}

func (v version) String() string {
	return fmt.Sprintf("t=%s u=%s x1=%v x2=%v", v.tb[0], v.tb[1], v.x[0], v.x[1])
}

func tblIdx(name string) int {
	if name == "u" {
		return 1
	}
	return 0
}

var tblName = [2]string{"t", "u"}

type stampState int

const (
	stPending stampState = iota
	stCommitted
	stRolledBack
)

type stampInfo struct {
	sess  int
	tbl   int
	state stampState
}

// ovEntry is a session's uncommitted change of its own row in one table.
type ovEntry struct {
	has bool // the row was written in the open transaction
	del bool // ... and is deleted
	val int  // ... or has this value
}

type sessModel struct {
	ac       bool // @@autocommit
	explicit bool // inside BEGIN / START TRANSACTION
	ro       bool // ... READ ONLY
	open     bool // a transaction is open between statements
	// sinceDDLInTx: the session executed a DDL inside an explicit transaction and has not issued
	// BEGIN/COMMIT/ROLLBACK since (classifying coordinate only)
	sinceDDLInTx bool
	beginV       int // index of the committed version current at transaction begin
	beginStep    int
	wrote        bool
	ov           [2]ovEntry
	touched      [2]int // version index current when the open tx first touched the table, -1 = not yet (state key only)
}

func (s *sessModel) mode() string {
	switch {
	case s.explicit && s.ro:
		return "explicit-read-only"
	case s.explicit:
		return "explicit"
	case !s.ac:
		return "implicit-autocommit-off"
	}
	return "autocommit"
}

func (s *sessModel) hasPending() bool { return s.open && (s.ov[0].has || s.ov[1].has) }

type model struct {
	versions        []version
	s               [2]sessModel
	stamps          map[int]*stampInfo
	degraded        bool   // two committed writing transactions overlapped in time
	step            int    // number of the statement being executed
	lastWriteCommit [2]int // step of the session's last commit of a writing transaction
	lastReadClass   string
}

func newModel() *model {
	m := &model{stamps: map[int]*stampInfo{}}
	m.versions = []version{{tb: [2]table{{0: 0}, {0: 0, 1: 0, 2: 0}}}}
	for i := range m.s {
		m.s[i].ac = true
		m.s[i].touched = [2]int{-1, -1}
	}
	return m
}

func (m *model) latest() version { return m.versions[len(m.versions)-1] }

func (m *model) pendingAnywhere() bool { return m.s[0].hasPending() || m.s[1].hasPending() }

// enabled: SET autocommit=1 inside an explicit transaction that was started under autocommit=0
// is outside the domain (MySQL commits, other servers do not; the property is silent).
func (m *model) enabled(o op) bool {
	s := &m.s[o.Sess]
	if o.Kind == opAC1 && !s.ac && s.explicit {
		return false
	}
	return true
}

// view = V (+) overlay(s) for one table.
func (m *model) view(s int, ti int, v version) table {
	t := v.tb[ti].clone()
	if s >= 0 && m.s[s].open {
		if e := m.s[s].ov[ti]; e.has {
			if e.del {
				delete(t, ownKey(s))
			} else {
				t[ownKey(s)] = e.val
			}
		}
	}
	return t
}

func (m *model) ensureTx(s int) {
	ms := &m.s[s]
	if ms.open {
		return
	}
	ms.open = true
	ms.beginV = len(m.versions) - 1
	ms.beginStep = m.step
	ms.wrote = false
	ms.ov = [2]ovEntry{}
	ms.touched = [2]int{-1, -1}
}

func (m *model) touch(s, ti int) {
	if m.s[s].touched[ti] < 0 {
		m.s[s].touched[ti] = len(m.versions) - 1
	}
}

// commit publishes the session's overlay as a new version; reports whether anything was pending.
func (m *model) commit(s int) bool {
	ms := &m.s[s]
	if !ms.open {
		return false
	}
	had := ms.hasPending()
	if had {
		nv := version{x: m.latest().x}
		for ti := 0; ti < 2; ti++ {
			nv.tb[ti] = m.view(s, ti, m.latest())
		}
		m.versions = append(m.versions, nv)
	}
	for _, si := range m.stamps {
		if si.sess == s && si.state == stPending {
			si.state = stCommitted
		}
	}
	if ms.wrote {
		if m.lastWriteCommit[1-s] >= ms.beginStep && m.lastWriteCommit[1-s] > 0 {
			m.degraded = true
		}
		m.lastWriteCommit[s] = m.step
	}
	ms.open, ms.wrote = false, false
	ms.ov = [2]ovEntry{}
	ms.touched = [2]int{-1, -1}
	return had
}

func (m *model) rollback(s int) bool {
	ms := &m.s[s]
	had := ms.hasPending()
	for _, si := range m.stamps {
		if si.sess == s && si.state == stPending {
			si.state = stRolledBack
		}
	}
	ms.open, ms.wrote = false, false
	ms.ov = [2]ovEntry{}
	ms.touched = [2]int{-1, -1}
	return had
}

// endStatement: with autocommit on and no explicit transaction each statement is its own
// transaction.
func (m *model) endStatement(s int) {
	ms := &m.s[s]
	if ms.ac && !ms.explicit && ms.open {
		m.commit(s)
	}
}

func errViol(res *eng.Result, expected string) *viol {
	if res.Panic != nil {
		return &viol{"statement", "no-panic", "panic", fmt.Sprintf("panic: %v", res.Panic), expected}
	}
	return &viol{"statement", "result", "wrong-error", "error class " + eng.ErrClass(res.Err) + ": " + res.Err.Error(), expected}
}

// apply runs a non-read operation on the model and judges the real result. It returns the
// violation (or nil), the model event class and an outcome class.
func (m *model) apply(o op, stamp int, res *eng.Result) (*viol, string, string) {
	s := o.Sess
	ms := &m.s[s]
	switch o.Kind {
	case opBegin, opBeginRO:
		if res.Err != nil {
			return errViol(res, "no error"), "begin", ""
		}
		ev, oc := "begin", "fresh"
		if ms.open {
			if m.commit(s) {
				ev, oc = "commit", "implicit-commit-of-pending"
			} else {
				oc = "implicit-commit-empty"
			}
		}
		ms.explicit, ms.ro, ms.sinceDDLInTx = true, o.Kind == opBeginRO, false
		m.ensureTx(s)
		return nil, ev, oc
	case opCommit:
		if res.Err != nil {
			return errViol(res, "no error"), "commit", ""
		}
		oc := "no-transaction"
		if ms.open {
			oc = "empty"
			if m.commit(s) {
				oc = "published"
			}
		}
		ms.explicit, ms.ro, ms.sinceDDLInTx = false, false, false
		return nil, "commit", oc
	case opRollback:
		if res.Err != nil {
			return errViol(res, "no error"), "rollback", ""
		}
		oc := "no-transaction"
		if ms.open {
			oc = "empty"
			if m.rollback(s) {
				oc = "discarded"
			}
		}
		ms.explicit, ms.ro, ms.sinceDDLInTx = false, false, false
		return nil, "rollback", oc
	case opAC0:
		if res.Err != nil {
			return errViol(res, "no error"), "set", ""
		}
		ms.ac = false
		return nil, "set", "ok"
	case opAC1:
		if res.Err != nil {
			return errViol(res, "no error"), "set", ""
		}
		ev, oc := "set", "ok"
		if !ms.ac && ms.open && !ms.explicit {
			ev, oc = "commit", "commit-empty"
			if m.commit(s) {
				oc = "commit-published"
			}
		}
		ms.ac = true
		return nil, ev, oc
	case opDDL:
		if ms.open && ms.ro && res.Err != nil && res.Panic == nil && eng.ErrClass(res.Err) == "read-only" {
			return nil, "ddl", "rejected-read-only"
		}
		if res.Err != nil {
			return errViol(res, "no error (DDL commits implicitly)"), "ddl", ""
		}
		ev, oc := "ddl", "no-transaction"
		if ms.open {
			oc = "implicit-commit-empty"
			if m.commit(s) {
				ev, oc = "commit", "implicit-commit-of-pending"
			}
		}
		if ms.explicit {
			ms.sinceDDLInTx = true
		}
		ms.explicit, ms.ro = false, false
		if !m.latest().x[s] {
			nv := version{x: m.latest().x}
			nv.x[s] = true
			nv.tb = [2]table{m.latest().tb[0].clone(), m.latest().tb[1].clone()}
			m.versions = append(m.versions, nv)
		}
		return nil, ev, oc
	case opIns, opUpd, opDel, opUpdU:
		return m.write(o, stamp, res)
	case opFail:
		if res.Panic != nil {
			return errViol(res, "an unknown-column error, no panic"), "fail", ""
		}
		if res.Err == nil {
			return &viol{"statement", "result", "missing-error", res.Summary(), "unknown column error"}, "fail", ""
		}
		// like a read that returns nothing: under autocommit=0 / inside a transaction it may have
		// begun the transaction and looked at t (widens what later reads may see, never narrows)
		m.ensureTx(s)
		m.touch(s, 0)
		m.endStatement(s)
		return nil, "fail", "failed"
	}
	return nil, "none", ""
}

func (m *model) write(o op, stamp int, res *eng.Result) (*viol, string, string) {
	s := o.Sess
	ms := &m.s[s]
	ev := "write-in-transaction"
	if ms.ac && !ms.explicit {
		ev = "autocommit-write"
	}
	if ms.open && ms.ro {
		if res.Err == nil || res.Panic != nil || eng.ErrClass(res.Err) != "read-only" {
			if res.Err == nil {
				return &viol{"statement", "result", "missing-error", res.Summary(), "read-only transaction error"}, ev, ""
			}
			return errViol(res, "read-only transaction error"), ev, ""
		}
		return nil, ev, "rejected-read-only"
	}
	m.ensureTx(s)
	ti := 0
	if o.Kind == opUpdU {
		ti = 1
	}
	m.touch(s, ti)
	defer m.endStatement(s)
	k := ownKey(s)
	// presence of the own row: independent of the base version (only s writes it and s's commits
	// end its transaction) — unless overlapping writers made the committed state unspecified
	known := !m.degraded || ms.ov[ti].has
	_, present := m.view(s, ti, m.latest())[k]
	if res.Panic != nil {
		return errViol(res, "no panic"), ev, ""
	}
	var affected int64 = -1
	if ok, is := res.OK(); is {
		affected = int64(ok.RowsAffected)
	}
	if !known {
		// follow the observation
		switch {
		case o.Kind == opIns:
			present = res.Err != nil
		default:
			present = affected == 1
		}
	}
	oc := ""
	switch o.Kind {
	case opIns:
		if present {
			if res.Err == nil || eng.ErrClass(res.Err) != "duplicate-key" {
				if res.Err == nil {
					return &viol{"statement", "result", "missing-error", res.Summary(), "duplicate-key error: the session's view already has the row"}, ev, ""
				}
				return errViol(res, "duplicate-key error"), ev, ""
			}
			oc = "duplicate-key"
		} else {
			if res.Err != nil {
				return errViol(res, "no error: the row is not in the session's view"), ev, ""
			}
			if affected != 1 {
				return &viol{"statement", "result", "wrong-affected", fmt.Sprint(affected), "1"}, ev, ""
			}
			ms.ov[ti] = ovEntry{has: true, val: stamp}
			m.stamps[stamp] = &stampInfo{sess: s, tbl: ti}
			ms.wrote = true
			oc = "inserted"
		}
	case opUpd, opUpdU, opDel:
		if res.Err != nil {
			return errViol(res, "no error"), ev, ""
		}
		want := int64(0)
		if present {
			want = 1
		}
		if affected != want {
			return &viol{"statement", "result", "wrong-affected", fmt.Sprint(affected), fmt.Sprint(want)}, ev, ""
		}
		oc = "no-row"
		if present {
			ms.wrote = true
			if o.Kind == opDel {
				ms.ov[ti] = ovEntry{has: true, del: true}
				oc = "deleted"
			} else {
				ms.ov[ti] = ovEntry{has: true, val: stamp}
				m.stamps[stamp] = &stampInfo{sess: s, tbl: ti}
				oc = "updated"
			}
		}
	}
	return nil, ev, oc
}

// read judges "select * from <tbl>" issued by session s.
func (m *model) read(s int, tbl string, res *eng.Result) *viol {
	ti := tblIdx(tbl)
	if res.Err != nil {
		return errViol(res, "rows")
	}
	obs, ok := rowsOf(res)
	if !ok {
		return &viol{"visibility", "committed-visible", "wrong-rows", res.Summary(), "two integer columns, unique keys"}
	}
	ms := &m.s[s]
	lo := len(m.versions) - 1
	if ms.open {
		lo = ms.beginV
	}
	m.ensureTx(s)
	m.touch(s, ti)
	defer m.endStatement(s)
	if m.degraded {
		m.lastReadClass = "weak-oracle"
		return m.weak(s, ti, obs)
	}
	for vi := len(m.versions) - 1; vi >= lo; vi-- {
		if m.view(s, ti, m.versions[vi]).equal(obs) {
			m.lastReadClass = "latest"
			if !m.view(s, ti, m.latest()).equal(obs) {
				m.lastReadClass = "older-version-in-range"
			}
			return nil
		}
	}
	// classify
	var exp []string
	for vi := lo; vi < len(m.versions); vi++ {
		exp = append(exp, m.view(s, ti, m.versions[vi]).String())
	}
	expected := tbl + " in one of " + strings.Join(dedup(exp), " | ")
	if v := m.foreignStamps(s, ti, obs, expected); v != nil {
		return v
	}
	if e := ms.ov[ti]; e.has {
		got, present := obs[ownKey(s)]
		if (e.del && present) || (!e.del && (!present || got != e.val)) {
			return &viol{"visibility", "own-changes-visible", "own-change-lost", tbl + "=" + obs.String(), expected}
		}
	}
	for vi := lo - 1; vi >= 0; vi-- {
		if m.view(s, ti, m.versions[vi]).equal(obs) {
			return &viol{"visibility", "committed-visible", "stale-snapshot", tbl + "=" + obs.String() + " (a version older than the transaction's begin)", expected}
		}
	}
	return &viol{"visibility", "committed-visible", "wrong-rows", tbl + "=" + obs.String(), expected}
}

// foreignStamps reports values that were never committed and are not the reader's own pending
// writes.
func (m *model) foreignStamps(s, ti int, obs table, expected string) *viol {
	for _, k := range sortedKeys(obs) {
		v := obs[k]
		if v == 0 {
			continue
		}
		si := m.stamps[v]
		if si == nil {
			continue
		}
		switch {
		case si.state == stPending && si.sess != s:
			return &viol{"visibility", "no-uncommitted-visible", "sees-uncommitted", fmt.Sprintf("%s=%s: value %d is an uncommitted write of session %d", tblName[ti], obs, v, si.sess+1), expected}
		case si.state == stRolledBack && si.sess == s:
			return &viol{"visibility", "rollback-discards", "rollback-leaves-rows", fmt.Sprintf("%s=%s: value %d was rolled back", tblName[ti], obs, v), expected}
		case si.state == stRolledBack:
			return &viol{"visibility", "no-uncommitted-visible", "sees-rolled-back", fmt.Sprintf("%s=%s: value %d was rolled back by session %d", tblName[ti], obs, v, si.sess+1), expected}
		}
	}
	return nil
}

// weak is the oracle that remains after overlapping writers: the committed state is unspecified,
// but nobody may see a never-committed value of another session, a rolled-back value, or lose
// its own pending write; rows nobody writes stay.
func (m *model) weak(s, ti int, obs table) *viol {
	expected := "only committed values, the reader's own pending writes, and the untouched row (0,0)"
	if v := m.foreignStamps(s, ti, obs, expected); v != nil {
		return v
	}
	init := m.versions[0].tb[ti]
	for _, k := range sortedKeys(obs) {
		v := obs[k]
		if k < 0 || k > 2 {
			return &viol{"visibility", "committed-visible", "wrong-rows", tblName[ti] + "=" + obs.String(), expected}
		}
		if v == 0 {
			if _, ok := init[k]; !ok {
				return &viol{"visibility", "committed-visible", "wrong-rows", tblName[ti] + "=" + obs.String(), expected}
			}
			continue
		}
		si := m.stamps[v]
		if si == nil || si.tbl != ti || ownKey(si.sess) != k {
			return &viol{"visibility", "committed-visible", "wrong-rows", tblName[ti] + "=" + obs.String(), expected}
		}
	}
	if v, ok := obs[0]; !ok || v != 0 {
		return &viol{"visibility", "committed-visible", "untouched-row-lost", tblName[ti] + "=" + obs.String(), expected}
	}
	if s >= 0 && m.s[s].open {
		if e := m.s[s].ov[ti]; e.has {
			got, present := obs[ownKey(s)]
			if (e.del && present) || (!e.del && (!present || got != e.val)) {
				return &viol{"visibility", "own-changes-visible", "own-change-lost", tblName[ti] + "=" + obs.String(), expected}
			}
		}
	}
	return nil
}

// observe judges what a brand-new session reads: exactly the latest committed version.
func (m *model) observe(tbl string, res *eng.Result) *viol {
	ti := tblIdx(tbl)
	if res.Err != nil {
		return errViol(res, "rows")
	}
	obs, ok := rowsOf(res)
	if !ok {
		return &viol{"committed-state", "serial-equivalence", "wrong-rows", res.Summary(), "two integer columns, unique keys"}
	}
	if m.degraded {
		if v := m.weak(-1, ti, obs); v != nil {
			v.check = "committed-state"
			return v
		}
		return nil
	}
	want := m.latest().tb[ti]
	if want.equal(obs) {
		return nil
	}
	expected := tbl + "=" + want.String()
	if v := m.foreignStamps(-1, ti, obs, expected); v != nil {
		v.check, v.clause, v.kind = "committed-state", "only-committed-published", "uncommitted-published"
		return v
	}
	for vi := len(m.versions) - 2; vi >= 0; vi-- {
		if m.versions[vi].tb[ti].equal(obs) {
			return &viol{"committed-state", "committed-stays", "committed-lost", tbl + "=" + obs.String() + " (an older committed version)", expected}
		}
	}
	// a committed value is missing although nothing uncommitted shows
	for k, v := range want {
		if got, ok := obs[k]; !ok || got != v {
			return &viol{"committed-state", "committed-stays", "committed-lost", tbl + "=" + obs.String(), expected}
		}
	}
	return &viol{"committed-state", "serial-equivalence", "wrong-rows", tbl + "=" + obs.String(), expected}
}

func (m *model) observeTables(res *eng.Result) *viol {
	if res.Err != nil {
		return errViol(res, "table list")
	}
	got := map[string]bool{}
	for _, r := range res.Rows {
		got[fmt.Sprint(r[0])] = true
	}
	want := map[string]bool{"t": true, "u": true}
	for i, x := range m.latest().x {
		if x {
			want["x"+strconv.Itoa(i+1)] = true
		}
	}
	if len(got) != len(want) {
		return &viol{"committed-state", "ddl-commits", "wrong-tables", fmt.Sprint(keysOf(got)), fmt.Sprint(keysOf(want))}
	}
	for k := range want {
		if !got[k] {
			return &viol{"committed-state", "ddl-commits", "wrong-tables", fmt.Sprint(keysOf(got)), fmt.Sprint(keysOf(want))}
		}
	}
	return nil
}

func keysOf(m map[string]bool) []string {
	var ks []string
	for k := range m {
		ks = append(ks, k)
	}
	sortStrings(ks)
	return ks
}

func sortStrings(a []string) {
	for i := 1; i < len(a); i++ {
		for j := i; j > 0 && a[j] < a[j-1]; j-- {
			a[j], a[j-1] = a[j-1], a[j]
		}
	}
}

func dedup(a []string) []string {
	var out []string
	seen := map[string]bool{}
	for _, x := range a {
		if !seen[x] {
			seen[x] = true
			out = append(out, x)
		}
	}
	return out
}

// ---------------------------------------------------------------------------------------------
// state key

func keyTable(t table) string {
	var sb strings.Builder
	for _, k := range sortedKeys(t) {
		fmt.Fprintf(&sb, "%d:#%d,", k, t[k])
	}
	return sb.String()
}

func keyVersion(v version) string {
	return keyTable(v.tb[0]) + "/" + keyTable(v.tb[1]) + "/" + fmt.Sprint(v.x)
}

// key is everything about the model state that decides the oracle's future verdicts, plus the
// implementation's hidden per-session snapshot (which version each open transaction saw when it
// first touched a table). Stamps are still raw here; normalise renames them.
func (m *model) key() string {
	var sb strings.Builder
	sb.WriteString(keyVersion(m.latest()))
	for s := 0; s < 2; s++ {
		ms := &m.s[s]
		fmt.Fprintf(&sb, "|s%d ac=%v ex=%v ro=%v open=%v ddl=%v", s, ms.ac, ms.explicit, ms.ro, ms.open, ms.sinceDDLInTx)
		if !ms.open {
			continue
		}
		fmt.Fprintf(&sb, " wrote=%v overlapped=%v", ms.wrote, m.lastWriteCommit[1-s] > 0 && m.lastWriteCommit[1-s] >= ms.beginStep)
		for ti := 0; ti < 2; ti++ {
			e := ms.ov[ti]
			fmt.Fprintf(&sb, " ov%d=%v,%v,#%d", ti, e.has, e.del, e.val)
		}
		sb.WriteString(" range=")
		var vs []string
		for vi := ms.beginV; vi < len(m.versions); vi++ {
			vs = append(vs, keyVersion(m.versions[vi]))
		}
		sb.WriteString(strings.Join(dedup(vs), ";"))
		for ti := 0; ti < 2; ti++ {
			if ms.touched[ti] >= 0 {
				fmt.Fprintf(&sb, " snap%d=%s", ti, keyTable(m.versions[ms.touched[ti]].tb[ti]))
			}
		}
	}
	return sb.String()
}

func (m *model) normRows(res *eng.Result) string {
	t, ok := rowsOf(res)
	if !ok {
		return "?"
	}
	return keyTable(t)
}

var stampRe = regexp.MustCompile(`#\d+`)

// normalise renames the stamps of a key in order of first appearance (#0, the initial value, is
// kept): futures only depend on which values are equal, and new stamps are always fresh.
func normalise(key string) string {
	names := map[string]string{"#0": "#0"}
	return stampRe.ReplaceAllStringFunc(key, func(s string) string {
		n, ok := names[s]
		if !ok {
			n = "#" + string(rune('a'+len(names)-1))
			names[s] = n
		}
		return n
	})
}
