package c18

import (
	"encoding/json"
	"fmt"
	"os"
	"runtime/debug"
	"sort"
	"strconv"
	"strings"

	"github.com/dolthub/go-mysql-server/sql"

	"verif/mc/core"
	"verif/mc/eng"
	"verif/mc/hist"
)

// ---------------------------------------------------------------- graphs

func graphs() []*graph {
	return []*graph{
		{
			name:   "self",
			tabs:   []tableDef{{"s", []string{"id", "r"}}},
			fks:    []fkDef{{"fk_s_s", 0, 1, 0}},
			full:   [][][]int{{{1, null}, {2, 1}, {3, 2}}},
			sparse: [][][]int{{{1, 1}, {2, 1}}},
		},
		{
			name:   "chain",
			tabs:   []tableDef{{"p", []string{"id"}}, {"c", []string{"id", "r"}}, {"g", []string{"id", "r"}}},
			fks:    []fkDef{{"fk_c_p", 1, 1, 0}, {"fk_g_c", 2, 1, 1}},
			full:   [][][]int{{{1}, {2}}, {{1, 1}, {2, 1}}, {{1, 1}, {2, 2}}},
			sparse: [][][]int{{{1}, {2}}, {{1, 1}}, {{1, 1}}},
		},
		{
			// the child's primary key is its foreign key: an ON UPDATE action on p reaches g through c
			name:   "keychain",
			tabs:   []tableDef{{"p", []string{"id"}}, {"c", []string{"id"}}, {"g", []string{"id", "r"}}},
			fks:    []fkDef{{"fk_c_p", 1, 0, 0}, {"fk_g_c", 2, 1, 1}},
			full:   [][][]int{{{1}, {2}}, {{1}, {2}}, {{1, 1}, {2, 1}}},
			sparse: [][][]int{{{1}, {2}}, {{1}}, {{1, 1}}},
			noNil:  []bool{true, false},
		},
		{
			name:   "twofk",
			tabs:   []tableDef{{"p", []string{"id"}}, {"c", []string{"id", "r1", "r2"}}},
			fks:    []fkDef{{"fk_c_p1", 1, 1, 0}, {"fk_c_p2", 1, 2, 0}},
			full:   [][][]int{{{1}, {2}}, {{1, 1, 1}, {2, 1, 2}}},
			sparse: [][][]int{{{1}, {2}}, {{1, 1, 2}}},
		},
		{
			name:   "diamond",
			tabs:   []tableDef{{"p", []string{"id"}}, {"l", []string{"id", "r"}}, {"m", []string{"id", "r"}}, {"b", []string{"id", "lr", "mr"}}},
			fks:    []fkDef{{"fk_l_p", 1, 1, 0}, {"fk_m_p", 2, 1, 0}, {"fk_b_l", 3, 1, 1}, {"fk_b_m", 3, 2, 2}},
			full:   [][][]int{{{1}, {2}}, {{1, 1}, {2, 2}}, {{1, 1}, {2, 1}}, {{1, 1, 1}, {2, 2, 2}}},
			sparse: [][][]int{{{1}, {2}}, {{1, 1}}, {{1, 1}}, {{1, 1, 1}}},
		},
	}
}

func (g *graph) fill(start string) [][][]int {
	switch start {
	case "full":
		return g.full
	case "sparse":
		return g.sparse
	}
	return nil
}

func graphByName(n string) *graph {
	for _, g := range graphs() {
		if g.name == n {
			return g
		}
	}
	return nil
}

func (c *config) ddl() []string {
	var out []string
	for ti, t := range c.g.tabs {
		var parts []string
		parts = append(parts, "id int primary key")
		for _, col := range t.cols[1:] {
			parts = append(parts, col+" int")
		}
		for fi, f := range c.g.fks {
			if f.child == ti {
				parts = append(parts, fmt.Sprintf("constraint %s foreign key (%s) references %s(id) on delete %s on update %s",
					f.name, t.cols[f.col], c.g.tabs[f.parent].name, actSQL[c.od[fi]], actSQL[c.ou[fi]]))
			}
		}
		out = append(out, fmt.Sprintf("create table %s (%s)", t.name, strings.Join(parts, ", ")))
	}
	return out
}

func sqlVal(v int) string { return fmtVal(v) }

func insertSQL(t tableDef, rows [][]int) string {
	var rs []string
	for _, r := range rows {
		vs := make([]string, len(r))
		for i, v := range r {
			vs[i] = sqlVal(v)
		}
		rs = append(rs, "("+strings.Join(vs, ",")+")")
	}
	return fmt.Sprintf("insert into %s values %s", t.name, strings.Join(rs, ","))
}

// alphabet builds the statement alphabet of a graph: DML on every table over keys {1,2,NULL}
// (key updates may move a row to id 3) and the two SET foreign_key_checks statements. The
// thorough alphabet is the full product; the quick one drops statements that differ from a kept
// one only by exchanging the roles of keys 1 and 2.
func alphabet(g *graph, thorough bool) []op {
	var ops []op
	add := func(o op) { ops = append(ops, o) }
	refVals := []int{null, 1, 2}
	for ti, t := range g.tabs {
		nref := len(t.cols) - 1
		// single-row inserts
		var rows [][]int
		switch nref {
		case 0:
			rows = [][]int{{1}, {2}}
		case 1:
			for _, id := range []int{1, 2} {
				for _, v := range refVals {
					rows = append(rows, []int{id, v})
				}
			}
		default:
			if thorough {
				for _, id := range []int{1, 2} {
					for _, a := range refVals {
						for _, b := range refVals {
							rows = append(rows, []int{id, a, b})
						}
					}
				}
			} else {
				rows = [][]int{{1, null, null}, {1, 1, null}, {1, null, 2}, {1, 1, 1}, {1, 1, 2}, {1, 2, 1}, {2, 1, 2}, {2, null, null}}
			}
		}
		for _, row := range rows {
			add(op{kind: opInsert, tab: ti, rows: [][]int{row}, sql: insertSQL(t, [][]int{row})})
		}
		// multi-row insert: the second row is the one that may violate
		{
			r1, r2 := []int{1}, []int{2}
			for k := 0; k < nref; k++ {
				r1 = append(r1, 1)
				r2 = append(r2, 2)
			}
			rows := [][]int{r1, r2}
			add(op{kind: opInsert, tab: ti, rows: rows, sql: insertSQL(t, rows)})
		}
		for _, id := range []int{1, 2} {
			add(op{kind: opDelete, tab: ti, id: id, sql: fmt.Sprintf("delete from %s where id = %d", t.name, id)})
		}
		add(op{kind: opDeleteAll, tab: ti, sql: fmt.Sprintf("delete from %s", t.name)})
		moves := [][2]int{{1, 3}, {2, 1}}
		if thorough {
			moves = append(moves, [2]int{3, 2})
		}
		for _, mv := range moves {
			add(op{kind: opUpdateID, tab: ti, id: mv[0], val: mv[1], sql: fmt.Sprintf("update %s set id = %d where id = %d", t.name, mv[1], mv[0])})
		}
		for col := 1; col <= nref; col++ {
			for _, id := range []int{1, 2} {
				for _, v := range refVals {
					if !thorough && id == 2 && v != 2 {
						continue
					}
					add(op{kind: opUpdateRef, tab: ti, id: id, col: col, val: v, sql: fmt.Sprintf("update %s set %s = %s where id = %d", t.name, t.cols[col], sqlVal(v), id)})
				}
			}
			for _, v := range refVals {
				if !thorough && v == 1 {
					continue
				}
				add(op{kind: opUpdateRefAll, tab: ti, col: col, val: v, sql: fmt.Sprintf("update %s set %s = %s", t.name, t.cols[col], sqlVal(v))})
			}
		}
	}
	add(op{kind: opSetChecks, val: 0, sql: "set foreign_key_checks = 0"})
	add(op{kind: opSetChecks, val: 1, sql: "set foreign_key_checks = 1"})
	return ops
}

// actionDependent: the statement's effect depends on the referential actions (DELETE / key
// UPDATE on a table that some constraint references).
func actionDependent(g *graph, o op) bool {
	if o.kind != opDelete && o.kind != opDeleteAll && o.kind != opUpdateID {
		return false
	}
	for _, f := range g.fks {
		if f.parent == o.tab {
			return true
		}
	}
	return false
}

// configs enumerates the action assignments explored for a graph; the first one (RESTRICT
// everywhere) is the base configuration. Every edge gets a pair (ON DELETE, ON UPDATE).
//
// ON DELETE actions only meet ON DELETE actions of other edges and ON UPDATE actions only ON
// UPDATE actions (no graph here lets a SET NULL re-key a referenced column), so (1) every
// assignment of one action per edge, used for both events, covers every combination of actions
// that can interact, and (2) "cross" pairs with different actions for the two events (the same
// pair on all edges) separate the two events.
func configs(g *graph, thorough bool) []*config {
	all := []action{actRestrict, actNoAction, actCascade, actSetNull}
	noN := []action{actRestrict, actCascade, actSetNull}
	ne := len(g.fks)
	var out []*config
	seen := map[string]bool{}
	add := func(od, ou []action) {
		for i := range g.fks {
			if len(g.noNil) > i && g.noNil[i] && (od[i] == actSetNull || ou[i] == actSetNull) {
				return
			}
		}
		c := &config{g: g, od: append([]action(nil), od...), ou: append([]action(nil), ou...)}
		if !seen[c.String()] {
			seen[c.String()] = true
			out = append(out, c)
		}
	}
	uni := func(a ...action) { add(a, a) }
	if g.name == "diamond" && !thorough {
		// four edges: the quick tier leaves out NO ACTION (a synonym of RESTRICT, covered on the
		// other graphs), lets the two upper edges share their action, and keeps RESTRICT on the
		// upper edges (nothing propagates) only in the base configuration
		uni(actRestrict, actRestrict, actRestrict, actRestrict)
		for _, t := range []action{actCascade, actSetNull} {
			for _, bl := range noN {
				for _, bm := range noN {
					uni(t, t, bl, bm)
				}
			}
		}
		add([]action{actCascade, actCascade, actCascade, actCascade}, []action{actSetNull, actSetNull, actSetNull, actSetNull})
		add([]action{actSetNull, actSetNull, actSetNull, actSetNull}, []action{actCascade, actCascade, actCascade, actCascade})
		return out
	}
	// (1) every assignment of one action per edge (diamond: RESTRICT/CASCADE/SET NULL)
	per := all
	if g.name == "diamond" {
		per = noN
	}
	var rec func(cur []action)
	rec = func(cur []action) {
		if len(cur) == ne {
			uni(cur...)
			return
		}
		for _, a := range per {
			rec(append(append([]action(nil), cur...), a))
		}
	}
	rec(nil)
	// (2) cross pairs, the same pair on all edges
	cross := noN
	if thorough || ne == 1 {
		cross = all
	}
	for _, d := range cross {
		for _, u := range cross {
			od, ou := make([]action, ne), make([]action, ne)
			for e := range od {
				od[e], ou[e] = d, u
			}
			add(od, ou)
		}
	}
	return out
}

// ---------------------------------------------------------------- the case

type caseID struct {
	Graph string   `json:"graph"`
	OD    []string `json:"on_delete"`
	OU    []string `json:"on_update"`
	Start string   `json:"start"`
	Thor  bool     `json:"thorough_alphabet"`
	SQL   []string `json:"sql,omitempty"`
	DDL   []string `json:"ddl,omitempty"`
}

func actNames(a []action) []string {
	out := make([]string, len(a))
	for i, x := range a {
		out[i] = actSQL[x]
	}
	return out
}

func parseActs(s []string) []action {
	out := make([]action, len(s))
	for i, x := range s {
		for j, n := range actSQL {
			if n == x {
				out[i] = action(j)
			}
		}
	}
	return out
}

func startState(g *graph, start string) *state {
	s := &state{checks: true, tabs: make([][][]int, len(g.tabs))}
	if fill := g.fill(start); fill != nil {
		for i := range g.tabs {
			for _, r := range fill[i] {
				s.tabs[i] = append(s.tabs[i], append([]int(nil), r...))
			}
		}
	}
	return s
}

// errClass unwraps the insert wrapper before classifying.
func errClass(err error) string {
	if err == nil {
		return "ok"
	}
	if strings.HasPrefix(err.Error(), "panic:") {
		return "panic"
	}
	return eng.ErrClass(sql.UnwrapError(err))
}

func readTable(s *eng.Session, t tableDef) ([][]int, error) {
	r := s.Exec("select * from " + t.name)
	if r.Err != nil {
		return nil, r.Err
	}
	rows := make([][]int, 0, len(r.Rows))
	for _, row := range r.Rows {
		out := make([]int, len(row))
		for i, v := range row {
			if v == nil {
				out[i] = null
				continue
			}
			n, err := strconv.Atoi(eng.FormatValue(v))
			if err != nil {
				return nil, fmt.Errorf("unexpected value %v", v)
			}
			out[i] = n
		}
		rows = append(rows, out)
	}
	sort.Slice(rows, func(i, j int) bool {
		for k := range rows[i] {
			if rows[i][k] != rows[j][k] {
				return rows[i][k] < rows[j][k]
			}
		}
		return false
	})
	return rows, nil
}

func readContents(s *eng.Session, g *graph) (string, error) {
	var sb strings.Builder
	for _, t := range g.tabs {
		rows, err := readTable(s, t)
		if err != nil {
			return "", err
		}
		fmt.Fprintf(&sb, "%s: %s\n", t.name, fmtRows(rows))
	}
	return sb.String(), nil
}

// antiJoin counts, on the engine, per constraint the child rows that have a non-NULL key and no
// parent (one statement: a UNION ALL of one NOT EXISTS anti-join per constraint).
func antiJoin(s *eng.Session, g *graph) ([]int, error) {
	var parts []string
	for fi, f := range g.fks {
		ct, pt := g.tabs[f.child], g.tabs[f.parent]
		parts = append(parts, fmt.Sprintf("select %d, count(*) from %s x where x.%s is not null and not exists (select 1 from %s y where y.id = x.%s)",
			fi, ct.name, ct.cols[f.col], pt.name, ct.cols[f.col]))
	}
	r := s.Exec(strings.Join(parts, " union all "))
	if r.Err != nil {
		return nil, r.Err
	}
	if len(r.Rows) != len(g.fks) {
		return nil, fmt.Errorf("anti-join returned %d rows", len(r.Rows))
	}
	out := make([]int, len(g.fks))
	for _, row := range r.Rows {
		fi, err1 := strconv.Atoi(eng.FormatValue(row[0]))
		n, err2 := strconv.Atoi(eng.FormatValue(row[1]))
		if err1 != nil || err2 != nil || fi < 0 || fi >= len(out) {
			return nil, fmt.Errorf("anti-join returned %s", eng.FormatRow(row))
		}
		out[fi] = n
	}
	return out, nil
}

type stepper struct {
	r        *core.Run
	c        *config
	start    string
	thor     bool
	ops      []op
	orders   int
	prev     string // classification of the statement before the last one (set by Step)
	base     bool   // base configuration: every history; others: only histories with an action-dependent statement
	maxDepth int
}

func (sp *stepper) witness(h []int) json.RawMessage {
	sqls := make([]string, len(h))
	for i, x := range h {
		sqls[i] = sp.ops[x].sql
	}
	ddl := sp.c.ddl()
	if fill := sp.c.g.fill(sp.start); fill != nil {
		for i, t := range sp.c.g.tabs {
			ddl = append(ddl, insertSQL(t, fill[i]))
		}
	}
	return core.J(caseID{Graph: sp.c.g.name, OD: actNames(sp.c.od), OU: actNames(sp.c.ou), Start: sp.start, Thor: sp.thor,
		SQL: sqls, DDL: ddl})
}

// relevantActions names the actions the statement can trigger: the ON DELETE / ON UPDATE actions
// of the constraints referencing the target table (empty for pure child-side statements).
func (sp *stepper) relevantActions(o op) string {
	var acts []string
	for fi, f := range sp.c.g.fks {
		if f.parent != o.tab {
			continue
		}
		switch o.kind {
		case opDelete, opDeleteAll:
			acts = append(acts, actSQL[sp.c.od[fi]])
		case opUpdateID:
			acts = append(acts, actSQL[sp.c.ou[fi]])
		}
	}
	if len(acts) == 0 {
		return "none"
	}
	return strings.Join(acts, "+")
}

func (sp *stepper) subject(o op, path string) map[string]string {
	m := sp.subject0(o, path)
	m["prev"] = sp.prev
	return m
}

func (sp *stepper) subject0(o op, path string) map[string]string {
	role := "leaf"
	isParent, isChild := false, false
	for _, f := range sp.c.g.fks {
		if f.parent == o.tab {
			isParent = true
		}
		if f.child == o.tab {
			isChild = true
		}
	}
	switch {
	case isParent && isChild:
		role = "middle"
	case isParent:
		role = "parent"
	case isChild:
		role = "child"
	}
	if path == "" {
		path = "none"
	}
	return map[string]string{"graph": sp.c.g.name, "statement": opKindName[o.kind], "role": role, "actions": sp.relevantActions(o), "model_path": path}
}

// prevClass classifies a replayed statement for violation subjects: the only thing that matters
// for what follows is whether it failed after the model had already changed some row (the
// rollback of such a statement is a separate mechanism).
func prevClass(o op, oc *outcome) string {
	if !oc.ok() && oc.partial {
		return "failed-after-partial-work"
	}
	return "-"
}

// Step: fresh engine, DDL, optional start state, replay h; oracle on the last statement.
func (sp *stepper) Step(h []int) (string, bool) {
	r, c, g := sp.r, sp.c, sp.c.g
	if !sp.base && len(h) == sp.maxDepth {
		// non-base action assignments: only histories containing an action-dependent statement
		dep := false
		for _, oi := range h {
			dep = dep || actionDependent(g, sp.ops[oi])
		}
		if !dep {
			return hist.Disabled, false
		}
	}
	lastTag := ""
	sp.prev = "-"
	e := eng.New()
	s := e.NewSession("root")
	for _, q := range c.ddl() {
		s.MustExec(q)
	}
	m := startState(g, sp.start)
	if fill := g.fill(sp.start); fill != nil {
		for i, t := range g.tabs {
			s.MustExec(insertSQL(t, fill[i]))
		}
	}
	for i, oi := range h {
		o := sp.ops[oi]
		last := i == len(h)-1
		outs := run(c, m, o)
		res := s.Exec(o.sql)
		cls := errClass(res.Err)
		if !last && len(outs) == 1 {
			// checked when this prefix was the last step
			m = outs[0].st
			sp.prev = prevClass(o, outs[0])
			continue
		}
		got, err := readContents(s, g)
		if err != nil {
			if last {
				r.Violate(core.Violation{Check: "step", Clause: "tables-readable", Kind: "unexpected-error", Subject: sp.subject(o, ""),
					Witness: sp.witness(h), Observed: err.Error()})
			}
			return "", false
		}
		var match *outcome
		for _, oc := range outs {
			if oc.st.contents(g) != got {
				continue
			}
			if (oc.ok() && cls == "ok") || (!oc.ok() && oc.classes[cls]) {
				match = oc
				break
			}
		}
		if !last {
			if match == nil {
				return "", false
			}
			m = match.st
			sp.prev = prevClass(o, match)
			continue
		}
		// ---- oracle on the last step
		if sp.orders < len(outs) {
			sp.orders = len(outs)
			r.Max("max_accepted_outcomes_per_step", int64(len(outs)))
		}
		resKind := cls
		if cls == "ok" && match != nil && match.path != "" {
			resKind = "ok:" + match.path
		}
		r.Outcome(opKindName[o.kind] + " -> " + resKind)
		if match == nil {
			sp.report(h, o, m, outs, cls, got, res)
			return "", false
		}
		if match.path != "" {
			r.NonTrivial(c.String() + "/" + sp.start + "/" + fmt.Sprint(h))
		}
		m = match.st
		lastTag = opKindName[o.kind] + "/" + cls + "/" + match.path
		lastClass := prevClass(o, match)
		// invariant: the engine's anti-join agrees with the model's orphan count; without any
		// unchecked statement there is no orphan
		morph := m.orphans(g)
		eorph, aerr := antiJoin(s, g)
		for fi, f := range g.fks {
			if !m.unchecked && morph[fi] != 0 {
				panic(fmt.Sprintf("c18 model bug: orphan in a checked history %v %s", h, c))
			}
			if aerr != nil || eorph[fi] != morph[fi] {
				obs := ""
				if aerr != nil {
					obs = "anti-join query failed: " + aerr.Error()
				} else {
					obs = fmt.Sprintf("anti-join count %d", eorph[fi])
				}
				r.Violate(core.Violation{Check: "invariant", Clause: "anti-join-agrees", Kind: "orphan-count", Subject: map[string]string{"graph": g.name, "fk": f.name, "prev": sp.prev, "last": lastClass},
					Witness: sp.witness(h), Observed: obs, Expected: fmt.Sprintf("%d child rows without parent\n%s", morph[fi], m.contents(g))})
				return "", false
			}
		}
		if len(outs) > 1 {
			r.Count("steps_with_order_freedom", 1)
		}
	}
	// the key holds everything the oracle observes plus the mechanism of the last statement
	// (states reached through different mechanisms are not merged)
	return m.key(g) + " last=" + lastTag, true
}

func (sp *stepper) report(h []int, o op, before *state, outs []*outcome, cls, got string, res *eng.Result) {
	g := sp.c.g
	var exp []string
	allErr, allOK := true, true
	path := ""
	for _, oc := range outs {
		exp = append(exp, fmt.Sprintf("[%s]\n%s", oc.classList(), oc.st.contents(g)))
		if oc.ok() {
			allErr = false
		} else {
			allOK = false
		}
		if len(oc.path) > len(path) {
			path = oc.path
		}
	}
	obs := fmt.Sprintf("[%s]\n%s", cls, got)
	if res.Err != nil {
		obs = fmt.Sprintf("[%s] %v\n%s", cls, res.Err, got)
	}
	clause, kind := "contents-equal-model", "wrong-contents"
	switch {
	case cls == "panic":
		clause, kind = "no-panic", "panic"
		obs += "\n" + core.TopFrame(res.Stack)
	case cls != "ok" && got != before.contents(g):
		clause, kind = "failed-statement-has-no-effect", "partial-effect"
	case cls == "ok" && allErr:
		clause, kind = "violating-statement-fails", "accepted"
	case cls != "ok" && allOK:
		clause, kind = "valid-statement-succeeds", "rejected:"+cls
	case cls != "ok" && allErr:
		clause, kind = "error-class", "class:"+cls
	}
	sp.r.Violate(core.Violation{Check: "step", Clause: clause, Kind: kind, Subject: sp.subject(o, path), Witness: sp.witness(h),
		Observed: obs, Expected: "one of:\n" + strings.Join(exp, "--or--\n")})
}

// ---------------------------------------------------------------- registration

func init() {
	core.Register(&core.Prop{
		ID:    "C18",
		Level: "model_checking",
		Rule: "for each FK graph {chain p<-c<-g, keychain (the child's PK is its FK, so ON UPDATE reaches g through c), diamond p<-l,m<-b, self-reference, two FKs from one child to one parent} x action assignment " +
			"(every assignment of one of RESTRICT/NO ACTION/CASCADE/SET NULL per edge used for both events, plus every (ON DELETE, ON UPDATE) pair with different actions on all edges; quick diamond: upper edges share their action, no NO ACTION; thorough diamond: 3^4 assignments) " +
			"x start state (quick: populated [+ sparse on self]; thorough: populated, sparse, empty): BFS over ALL statement histories of depth <= 2 over the alphabet {single-row INSERT, a 2-row INSERT whose second row may violate, DELETE by key / all rows, UPDATE of the key, " +
			"UPDATE of a reference column by key / all rows, keys {1,2,NULL}, SET foreign_key_checks=0/1} on every table (thorough: the full key product); in assignments other than RESTRICT-everywhere only histories containing a DELETE / key UPDATE on a referenced table are run (the others do not depend on the actions); " +
			"thorough adds depth 3 from the populated state for the uniform RESTRICT / CASCADE / SET NULL assignments of the non-diamond graphs, merging states equal in (contents, flags, mechanism of the last statement) beyond depth 1. " +
			"each history runs on a fresh engine; oracle on the last statement: (error class, contents of all tables) must be one of the outcomes of the reference model (cascade fixpoint under MySQL's row-by-row semantics, all evaluation orders MySQL leaves open), " +
			"a failing statement leaves all tables unchanged, and per constraint the engine's NOT EXISTS anti-join count of parentless child rows equals the model's (0 unless a statement ran with foreign_key_checks=0). " +
			"non-trivial = the model's execution of the last statement found a violation or applied a referential action to at least one row",
		Assumptions: []string{
			"MySQL (InnoDB) semantics: immediate row-by-row checking, NO ACTION = RESTRICT, self-referential ON UPDATE CASCADE/SET NULL act like RESTRICT",
			"where both a duplicate key and a foreign-key violation apply either error class is accepted; whether a row that references only itself can be deleted under RESTRICT is left open",
			"single-column integer keys referencing a primary key; MATCH SIMPLE; one session; no REPLACE / ON DUPLICATE KEY / multi-table statements / SET DEFAULT",
		},
		Run:    runProp,
		Replay: replay,
	})
}

func runProp(r *core.Run) {
	debug.SetGCPercent(400)
	thor := r.Thorough()
	only := os.Getenv("VERIF_C18_GRAPHS") // development aid: comma-separated graph names
	total := 0
	if only != "" {
		r.Capped("development run restricted to graphs " + only + " (VERIF_C18_GRAPHS)")
	}
	explore := func(g *graph, ops []op, c *config, base bool, start string, depth int) bool {
		total++
		if r.Expired() {
			r.Capped(fmt.Sprintf("time budget reached at graph %s, depth-%d pass (order: depth-2 pass over self, chain, keychain, twofk, diamond; thorough: then the depth-3 pass)", g.name, depth))
			return false
		}
		// rotate the alphabet per exploration so that sharding by first statement spreads evenly
		rot := make([]op, len(ops))
		for i := range ops {
			rot[i] = ops[(i+total)%len(ops)]
		}
		sp := &stepper{r: r, c: c, start: start, thor: thor, ops: rot, base: base, maxDepth: depth}
		hist.Explore(r, hist.Config{NOps: len(rot), MaxDepth: depth, UnmergedDepth: 1, ShardDepth: 1, Step: sp.Step,
			Label: func(o int) string { return rot[o].sql }})
		r.Count(fmt.Sprintf("explorations_depth%d", depth), 1)
		return true
	}
	// pass 1: depth 2, every configuration
	for _, g := range graphs() {
		if only != "" && !strings.Contains(","+only+",", ","+g.name+",") {
			continue
		}
		ops := alphabet(g, thor)
		cfgs := configs(g, thor)
		r.Info("alphabet_"+g.name, len(ops))
		r.Info("configs_"+g.name, len(cfgs))
		starts := []string{"full"}
		switch {
		case thor && g.name == "diamond":
			starts = []string{"full", "sparse"}
		case thor:
			starts = []string{"full", "sparse", "empty"}
		case g.name == "self":
			starts = []string{"full", "sparse"} // quick: the second start state only on the (cheap) self-reference graph
		}
		for ci, c := range cfgs {
			for _, start := range starts {
				if !explore(g, ops, c, ci == 0, start, 2) {
					return
				}
			}
		}
	}
	if !thor {
		return
	}
	// pass 2 (thorough): depth 3 from the populated state, equal (contents, flags, last mechanism)
	// states merged beyond depth 1, for the uniform RESTRICT / CASCADE / SET NULL assignments
	for _, g := range graphs() {
		if g.name == "diamond" || (only != "" && !strings.Contains(","+only+",", ","+g.name+",")) {
			continue
		}
		ops := alphabet(g, thor)
		for ci, c := range configs(g, thor) {
			uniform := true
			for e := range c.od {
				uniform = uniform && c.od[e] == c.od[0] && c.ou[e] == c.od[0] && c.od[0] != actNoAction
			}
			if g.name == "keychain" {
				// SET NULL cannot be used on the first edge: take (CASCADE, SET NULL) as the third one
				uniform = uniform || (c.od[0] == actCascade && c.ou[0] == actCascade && c.od[1] == actSetNull && c.ou[1] == actSetNull)
			}
			if !uniform {
				continue
			}
			if !explore(g, ops, c, ci == 0, "full", 3) {
				return
			}
		}
	}
	r.Info("explorations_total", total)
}

func replay(r *core.Run, w json.RawMessage) {
	var c caseID
	if json.Unmarshal(w, &c) != nil {
		return
	}
	g := graphByName(c.Graph)
	if g == nil {
		return
	}
	cfg := &config{g: g, od: parseActs(c.OD), ou: parseActs(c.OU)}
	ops := alphabet(g, true)
	var h []int
	for _, q := range c.SQL {
		for i, o := range ops {
			if o.sql == q {
				h = append(h, i)
				break
			}
		}
	}
	if len(h) != len(c.SQL) {
		return
	}
	sp := &stepper{r: r, c: cfg, start: c.Start, thor: c.Thor, ops: ops, base: true}
	for i := 1; i <= len(h); i++ {
		if _, cont := sp.Step(h[:i]); !cont {
			break
		}
	}
}
