// Package c18 decides property C18 (foreign keys keep referential integrity) by a breadth-first
// search over DML histories on fresh engines, every step compared with the reference model in
// this file.
//
// The model is written from MySQL's documented (InnoDB) semantics, not from the implementation:
//   - a child row whose key column is NULL is exempt; otherwise a parent row with id = key must
//     exist when the child row is inserted / its key column is changed (a row may reference itself);
//   - constraints are checked row by row while the statement runs (no deferral): NO ACTION =
//     RESTRICT; deleting / changing the key of a parent row that still has children fails under
//     RESTRICT/NO ACTION, deletes / re-keys the children under CASCADE (recursively, the children's
//     own constraints apply), sets the children's key to NULL under SET NULL;
//   - a self-referencing ON UPDATE CASCADE / SET NULL acts like RESTRICT (MySQL manual, "FOREIGN
//     KEY Constraints", referential actions);
//   - an error anywhere aborts the statement and the statement has no effect;
//   - with foreign_key_checks=0 nothing is checked and no action runs.
//
// Where MySQL leaves the order of evaluation open the model enumerates every order and the
// oracle accepts the set of outcomes: the order in which a multi-row statement visits its target
// rows, the order in which the constraints referencing one parent table are processed, whether
// the duplicate-key check or the foreign-key check reports first when both fail, and whether a
// row that references only itself may be deleted under RESTRICT.
package c18

import (
	"fmt"
	"sort"
	"strings"
)

const null = -1 // keys are positive

type action int

const (
	actRestrict action = iota
	actNoAction
	actCascade
	actSetNull
)

var actSQL = []string{"RESTRICT", "NO ACTION", "CASCADE", "SET NULL"}
var actShort = []string{"R", "N", "C", "S"}

type tableDef struct {
	name string
	cols []string // cols[0] is always the primary key "id"
}

// fkDef: child.cols[col] references parent.id
type fkDef struct {
	name   string
	child  int
	col    int
	parent int
}

type graph struct {
	name   string
	tabs   []tableDef
	fks    []fkDef
	full   [][][]int // populated start state
	sparse [][][]int // second start state: one row per child table
	noNil  []bool    // per fk: SET NULL impossible (child column is NOT NULL)
}

type config struct {
	g      *graph
	od, ou []action
}

func (c *config) String() string {
	var sb strings.Builder
	sb.WriteString(c.g.name + ":")
	for i := range c.g.fks {
		if i > 0 {
			sb.WriteString(",")
		}
		sb.WriteString(actShort[c.od[i]] + actShort[c.ou[i]])
	}
	return sb.String()
}

type state struct {
	tabs   [][][]int // per table rows sorted by id
	checks bool
	// unchecked: some data-changing statement ran with foreign_key_checks=0 (orphans may exist)
	unchecked bool
}

func (s *state) clone() *state {
	n := &state{checks: s.checks, unchecked: s.unchecked, tabs: make([][][]int, len(s.tabs))}
	for i, t := range s.tabs {
		n.tabs[i] = make([][]int, len(t))
		for j, r := range t {
			n.tabs[i][j] = append([]int(nil), r...)
		}
	}
	return n
}

func fmtVal(v int) string {
	if v == null {
		return "NULL"
	}
	return fmt.Sprint(v)
}

func fmtRows(rows [][]int) string {
	parts := make([]string, len(rows))
	for i, r := range rows {
		vs := make([]string, len(r))
		for j, v := range r {
			vs[j] = fmtVal(v)
		}
		parts[i] = "(" + strings.Join(vs, ",") + ")"
	}
	return strings.Join(parts, " ")
}

func (s *state) contents(g *graph) string {
	var sb strings.Builder
	for i, t := range s.tabs {
		fmt.Fprintf(&sb, "%s: %s\n", g.tabs[i].name, fmtRows(t))
	}
	return sb.String()
}

func (s *state) key(g *graph) string {
	return fmt.Sprintf("%schecks=%v unchecked=%v", s.contents(g), s.checks, s.unchecked)
}

func (s *state) find(t, id int) int {
	for i, r := range s.tabs[t] {
		if r[0] == id {
			return i
		}
	}
	return -1
}

func (s *state) sortTab(t int) {
	sort.Slice(s.tabs[t], func(i, j int) bool { return s.tabs[t][i][0] < s.tabs[t][j][0] })
}

// orphans returns per foreign key the number of child rows with a non-NULL key and no parent.
func (s *state) orphans(g *graph) []int {
	out := make([]int, len(g.fks))
	for i, f := range g.fks {
		for _, r := range s.tabs[f.child] {
			if r[f.col] != null && s.find(f.parent, r[f.col]) < 0 {
				out[i]++
			}
		}
	}
	return out
}

// ---------------------------------------------------------------- statements

const (
	opInsert = iota
	opDelete
	opDeleteAll
	opUpdateID
	opUpdateRef
	opUpdateRefAll
	opSetChecks
)

var opKindName = []string{"insert", "delete", "delete-all", "update-key", "update-ref", "update-ref-all", "set-fk-checks"}

type op struct {
	kind int
	tab  int
	rows [][]int // insert
	id   int     // where id = …
	col  int     // set col = val
	val  int
	sql  string
}

// ---------------------------------------------------------------- execution with fixed orders

type merr struct{ class string }

func (e *merr) Error() string { return e.class }

var errFK = &merr{"fk-violation"}
var errDup = &merr{"duplicate-key"}

type variant struct {
	fkOrder    [][]int // per table: order of the constraints referencing it
	selfCounts bool    // a row referencing itself blocks its own deletion under RESTRICT
	dupFirst   bool    // duplicate key is detected before foreign-key checks
}

type exec struct {
	c    *config
	s    *state
	v    variant
	path []string // referential mechanisms that found rows / raised, for classification
	// changed: the statement has already inserted / removed / changed some row (what a rollback
	// has to undo if the statement fails later)
	changed bool
}

func (x *exec) note(s string) {
	for _, p := range x.path {
		if p == s {
			return
		}
	}
	x.path = append(x.path, s)
}

func (x *exec) childrenOf(f fkDef, key int) [][]int {
	var out [][]int
	for _, r := range x.s.tabs[f.child] {
		if r[f.col] == key {
			out = append(out, append([]int(nil), r...))
		}
	}
	return out
}

func (x *exec) checkParent(t int, f fkDef, row []int) error {
	v := row[f.col]
	if v == null {
		return nil
	}
	if x.s.find(f.parent, v) >= 0 {
		return nil
	}
	if f.parent == t && row[0] == v { // the row references itself
		return nil
	}
	x.note("child-check")
	return errFK
}

func (x *exec) insertRow(t int, row []int) error {
	dup := x.s.find(t, row[0]) >= 0
	if dup && (x.v.dupFirst || !x.s.checks) {
		return errDup
	}
	if x.s.checks {
		for _, f := range x.c.g.fks {
			if f.child == t {
				if err := x.checkParent(t, f, row); err != nil {
					return err
				}
			}
		}
	}
	if dup {
		return errDup
	}
	x.s.tabs[t] = append(x.s.tabs[t], append([]int(nil), row...))
	x.s.sortTab(t)
	x.changed = true
	return nil
}

func (x *exec) removeRow(t, id int) {
	i := x.s.find(t, id)
	x.s.tabs[t] = append(x.s.tabs[t][:i:i], x.s.tabs[t][i+1:]...)
	x.changed = true
}

func (x *exec) deleteRow(t, id int) error {
	i := x.s.find(t, id)
	if i < 0 {
		return nil // already removed by a cascade of the same statement
	}
	self := append([]int(nil), x.s.tabs[t][i]...)
	x.removeRow(t, id)
	if !x.s.checks {
		return nil
	}
	for _, fi := range x.v.fkOrder[t] {
		f := x.c.g.fks[fi]
		kids := x.childrenOf(f, id)
		switch x.c.od[fi] {
		case actRestrict, actNoAction:
			n := len(kids)
			if f.child == t && self[f.col] == id && x.v.selfCounts {
				n++
			}
			if n > 0 {
				x.note("delete-" + actShort[x.c.od[fi]])
				return errFK
			}
		case actCascade:
			for _, k := range kids {
				x.note("delete-C")
				if err := x.deleteRow(f.child, k[0]); err != nil {
					return err
				}
			}
		case actSetNull:
			for _, k := range kids {
				if x.s.find(f.child, k[0]) < 0 {
					continue
				}
				x.note("delete-S")
				nk := append([]int(nil), k...)
				nk[f.col] = null
				if err := x.updateRow(f.child, k, nk, fi); err != nil {
					return err
				}
			}
		}
	}
	return nil
}

func same(a, b []int) bool {
	for i := range a {
		if a[i] != b[i] {
			return false
		}
	}
	return true
}

// updateRow changes row old of table t into nw; via is the constraint whose referential action
// produced this change (-1 for the statement itself).
func (x *exec) updateRow(t int, old, nw []int, via int) error {
	if same(old, nw) {
		return nil
	}
	keyChanged := old[0] != nw[0]
	dup := keyChanged && x.s.find(t, nw[0]) >= 0
	if !x.s.checks {
		if dup {
			return errDup
		}
		i := x.s.find(t, old[0])
		x.s.tabs[t][i] = append([]int(nil), nw...)
		x.s.sortTab(t)
		return nil
	}
	if dup && x.v.dupFirst {
		return errDup
	}
	// child side: changed key columns must find a parent
	for fi, f := range x.c.g.fks {
		if f.child == t && fi != via && old[f.col] != nw[f.col] {
			// while the row is being re-keyed its old key no longer counts as a parent
			if err := x.checkParentDuringUpdate(t, f, old, nw); err != nil {
				return err
			}
		}
	}
	// parent side, RESTRICT-like actions first look at the old key
	type todo struct {
		fi   int
		kids [][]int
	}
	if keyChanged {
		for _, fi := range x.v.fkOrder[t] {
			f := x.c.g.fks[fi]
			a := x.c.ou[fi]
			if f.child == f.parent && (a == actCascade || a == actSetNull) {
				a = actRestrict // MySQL: self-referential ON UPDATE CASCADE/SET NULL acts like RESTRICT
			}
			if a == actRestrict || a == actNoAction {
				if len(x.childrenOf(f, old[0])) > 0 {
					x.note("update-" + actShort[x.c.ou[fi]])
					return errFK
				}
			}
		}
	}
	if dup {
		return errDup
	}
	i := x.s.find(t, old[0])
	x.s.tabs[t][i] = append([]int(nil), nw...)
	x.s.sortTab(t)
	x.changed = true
	if keyChanged {
		for _, fi := range x.v.fkOrder[t] {
			f := x.c.g.fks[fi]
			if f.child == f.parent {
				continue
			}
			a := x.c.ou[fi]
			if a != actCascade && a != actSetNull {
				continue
			}
			for _, k := range x.childrenOf(f, old[0]) {
				nk := append([]int(nil), k...)
				if a == actCascade {
					x.note("update-C")
					nk[f.col] = nw[0]
				} else {
					x.note("update-S")
					nk[f.col] = null
				}
				if err := x.updateRow(f.child, k, nk, fi); err != nil {
					return err
				}
			}
		}
	}
	return nil
}

func (x *exec) checkParentDuringUpdate(t int, f fkDef, old, nw []int) error {
	v := nw[f.col]
	if v == null {
		return nil
	}
	if f.parent == t {
		if nw[0] == v { // references itself after the update
			return nil
		}
		if i := x.s.find(t, v); i >= 0 && !(old[0] == v && nw[0] != v) {
			return nil
		}
		x.note("child-check")
		return errFK
	}
	if x.s.find(f.parent, v) >= 0 {
		return nil
	}
	x.note("child-check")
	return errFK
}

// ---------------------------------------------------------------- statement level

type outcome struct {
	classes map[string]bool // empty = success; otherwise the accepted error classes
	st      *state
	path    string
	partial bool // (error outcomes) some row had already been changed when the error was raised
}

func (o *outcome) ok() bool { return len(o.classes) == 0 }

func (o *outcome) classList() string {
	if o.ok() {
		return "ok"
	}
	var l []string
	for c := range o.classes {
		l = append(l, c)
	}
	sort.Strings(l)
	return strings.Join(l, "|")
}

func permutations(n int) [][]int {
	if n == 0 {
		return [][]int{{}}
	}
	var out [][]int
	var rec func(cur []int, used []bool)
	rec = func(cur []int, used []bool) {
		if len(cur) == n {
			out = append(out, append([]int(nil), cur...))
			return
		}
		for i := 0; i < n; i++ {
			if !used[i] {
				used[i] = true
				rec(append(cur, i), used)
				used[i] = false
			}
		}
	}
	rec(nil, make([]bool, n))
	return out
}

// fkOrders enumerates every assignment of a processing order to the constraints referencing
// each table.
func fkOrders(g *graph) [][][]int {
	per := make([][][]int, len(g.tabs))
	for t := range g.tabs {
		var refs []int
		for fi, f := range g.fks {
			if f.parent == t {
				refs = append(refs, fi)
			}
		}
		for _, p := range permutations(len(refs)) {
			o := make([]int, len(refs))
			for i, j := range p {
				o[i] = refs[j]
			}
			per[t] = append(per[t], o)
		}
	}
	out := [][][]int{nil}
	for t := range g.tabs {
		var next [][][]int
		for _, prefix := range out {
			for _, o := range per[t] {
				next = append(next, append(append([][]int(nil), prefix...), o))
			}
		}
		out = next
	}
	return out
}

// run executes statement o from state s under every evaluation order and returns the distinct
// accepted outcomes. Error outcomes always carry the unchanged state.
func run(c *config, s *state, o op) []*outcome {
	if o.kind == opSetChecks {
		n := s.clone()
		n.checks = o.val == 1
		return []*outcome{{classes: map[string]bool{}, st: n}}
	}
	var targets []int // ids, ascending
	switch o.kind {
	case opDelete, opUpdateID, opUpdateRef:
		if s.find(o.tab, o.id) >= 0 {
			targets = []int{o.id}
		}
	case opDeleteAll, opUpdateRefAll:
		for _, r := range s.tabs[o.tab] {
			targets = append(targets, r[0])
		}
	}
	rowPerms := permutations(len(targets))
	var fkos [][][]int
	if s.checks {
		fkos = fkOrders(c.g)
	} else {
		fkos = fkOrders(c.g)[:1]
	}
	byKey := map[string]*outcome{}
	var keys []string
	for _, rp := range rowPerms {
		for _, fko := range fkos {
			for _, selfCounts := range []bool{true, false} {
				for _, dupFirst := range []bool{true, false} {
					x := &exec{c: c, s: s.clone(), v: variant{fkOrder: fko, selfCounts: selfCounts, dupFirst: dupFirst}}
					var err error
					switch o.kind {
					case opInsert:
						for _, r := range o.rows {
							if err = x.insertRow(o.tab, r); err != nil {
								break
							}
						}
					case opDelete, opDeleteAll:
						for _, pi := range rp {
							if err = x.deleteRow(o.tab, targets[pi]); err != nil {
								break
							}
						}
					case opUpdateID:
						for _, pi := range rp {
							i := x.s.find(o.tab, targets[pi])
							old := append([]int(nil), x.s.tabs[o.tab][i]...)
							nw := append([]int(nil), old...)
							nw[0] = o.val
							if err = x.updateRow(o.tab, old, nw, -1); err != nil {
								break
							}
						}
					case opUpdateRef, opUpdateRefAll:
						for _, pi := range rp {
							i := x.s.find(o.tab, targets[pi])
							if i < 0 {
								continue
							}
							old := append([]int(nil), x.s.tabs[o.tab][i]...)
							nw := append([]int(nil), old...)
							nw[o.col] = o.val
							if err = x.updateRow(o.tab, old, nw, -1); err != nil {
								break
							}
						}
					}
					var oc *outcome
					if err != nil {
						oc = &outcome{classes: map[string]bool{err.(*merr).class: true}, st: s, partial: x.changed}
					} else {
						if !s.checks && x.s.contents(c.g) != s.contents(c.g) {
							x.s.unchecked = true
						}
						oc = &outcome{classes: map[string]bool{}, st: x.s}
					}
					oc.path = strings.Join(x.path, ">")
					k := oc.st.key(c.g)
					if err != nil {
						k = "ERR\n" + k
					}
					if prev, ok := byKey[k]; ok {
						for cl := range oc.classes {
							prev.classes[cl] = true
						}
						if len(oc.path) > len(prev.path) {
							prev.path = oc.path
						}
						prev.partial = prev.partial || oc.partial
					} else {
						byKey[k] = oc
						keys = append(keys, k)
					}
				}
			}
		}
	}
	out := make([]*outcome, 0, len(keys))
	for _, k := range keys {
		out = append(out, byKey[k])
	}
	return out
}
