package c19

import (
	"encoding/json"
	"fmt"
	"runtime/debug"
	"strconv"
	"strings"

	"github.com/dolthub/go-mysql-server/sql"

	"verif/mc/core"
	"verif/mc/eng"
	"verif/mc/hist"
)

// ---------------------------------------------------------------- schema grammar

type feature struct {
	name     string
	apply    func(s *schema)
	excl     []string // incompatible features
	requires []string // needs one of these
}

func features() []feature {
	ck := func(kind int, enforced bool) func(s *schema) {
		return func(s *schema) { s.checks = append(s.checks, check{kind, enforced}) }
	}
	fs := []feature{
		{name: "a:notnull", apply: func(s *schema) { s.cols[0].notNull = true }},
		{name: "a:default-const", apply: func(s *schema) { s.cols[0].def, s.cols[0].defConst = 1, 1 }, excl: []string{"a:default-expr"}},
		{name: "a:default-expr", apply: func(s *schema) { s.cols[0].def = 2 }, excl: []string{"a:default-const"}},
		{name: "b:notnull", apply: func(s *schema) { s.cols[1].notNull = true }, excl: []string{"b:stored", "b:virtual"}},
		{name: "b:default-const", apply: func(s *schema) { s.cols[1].def, s.cols[1].defConst = 1, 2 }, excl: []string{"b:default-expr", "b:stored", "b:virtual"}},
		{name: "b:default-expr", apply: func(s *schema) { s.cols[1].def = 2 }, excl: []string{"b:default-const", "b:stored", "b:virtual"}},
		{name: "b:stored", apply: func(s *schema) { s.cols[1].gen = 1 }, excl: []string{"b:virtual", "b:notnull", "b:default-const", "b:default-expr"}},
		{name: "b:virtual", apply: func(s *schema) { s.cols[1].gen = 2 }, excl: []string{"b:stored", "b:notnull", "b:default-const", "b:default-expr"}},
		{name: "b:unique", apply: func(s *schema) { s.uniqueB = true }, requires: []string{"b:stored", "b:virtual"}},
		{name: "c:notnull", apply: func(s *schema) { s.cols[2].notNull = true }},
		{name: "c:default-const", apply: func(s *schema) { s.cols[2].def, s.cols[2].defConst = 1, 3 }},
	}
	for k, n := range []string{"a<c", "a-not-null", "c-in", "b<4"} {
		fs = append(fs,
			feature{name: "check:" + n, apply: ck(k, true), excl: []string{"check:" + n + ":not-enforced"}},
			feature{name: "check:" + n + ":not-enforced", apply: ck(k, false), excl: []string{"check:" + n}})
	}
	return fs
}

// schemas enumerates every compatible set of at most maxFeat features.
func schemas(maxFeat int) []*schema {
	fs := features()
	var out []*schema
	var rec func(start int, chosen []int)
	has := func(chosen []int, name string) bool {
		for _, i := range chosen {
			if fs[i].name == name {
				return true
			}
		}
		return false
	}
	rec = func(start int, chosen []int) {
		// complete?
		ok := true
		for _, i := range chosen {
			if len(fs[i].requires) > 0 {
				found := false
				for _, rq := range fs[i].requires {
					found = found || has(chosen, rq)
				}
				ok = ok && found
			}
		}
		if ok {
			s := &schema{}
			for _, i := range chosen {
				fs[i].apply(s)
				s.feats = append(s.feats, fs[i].name)
			}
			if len(chosen) == 0 {
				s.feats = []string{"plain"}
			}
			out = append(out, s)
		}
		if len(chosen) == maxFeat {
			return
		}
		for i := start; i < len(fs); i++ {
			bad := false
			for _, e := range fs[i].excl {
				bad = bad || has(chosen, e)
			}
			if !bad {
				rec(i+1, append(append([]int(nil), chosen...), i))
			}
		}
	}
	rec(0, nil)
	return out
}

func schemaByName(n string) *schema {
	for _, s := range schemas(4) {
		if s.name() == n {
			return s
		}
	}
	return nil
}

// ---------------------------------------------------------------- DML alphabet

func c(v int) vspec { return vspec{vConst, v} }
func omit() vspec   { return vspec{mode: vOmit} }
func dflt() vspec   { return vspec{mode: vDefault} }
func (v vspec) sql() string {
	switch v.mode {
	case vDefault:
		return "DEFAULT"
	case vAPlus1:
		return "a + 1"
	}
	return fmtVal(v.v)
}

func mkInsert(ignore bool, rows ...[3]vspec) stmt {
	names := []string{"a", "b", "c"}
	var cols []string
	for i := 0; i < 3; i++ {
		if rows[0][i].mode != vOmit {
			cols = append(cols, names[i])
		}
	}
	var vals []string
	for _, r := range rows {
		var vs []string
		for i := 0; i < 3; i++ {
			if r[i].mode != vOmit {
				vs = append(vs, r[i].sql())
			}
		}
		vals = append(vals, "("+strings.Join(vs, ", ")+")")
	}
	kw := "insert"
	if ignore {
		kw = "insert ignore"
	}
	return stmt{kind: "insert", ignore: ignore, rows: rows, where: -1,
		sql: fmt.Sprintf("%s into t (%s) values %s", kw, strings.Join(cols, ", "), strings.Join(vals, ", "))}
}

func mkUpdate(ignore bool, set [3]vspec, where, whereV int) stmt {
	names := []string{"a", "b", "c"}
	var sets []string
	for i := 0; i < 3; i++ {
		if set[i].mode != vOmit {
			sets = append(sets, names[i]+" = "+set[i].sql())
		}
	}
	kw := "update"
	if ignore {
		kw = "update ignore"
	}
	q := fmt.Sprintf("%s t set %s", kw, strings.Join(sets, ", "))
	if where >= 0 {
		q += fmt.Sprintf(" where %s = %d", names[where], whereV)
	}
	return stmt{kind: "update", ignore: ignore, set: set, where: where, whereV: whereV, sql: q}
}

func alphabet() []stmt {
	o := omit()
	n := c(null)
	ops := []stmt{
		mkInsert(false, [3]vspec{c(1), c(2), c(3)}),                    // every column given (b: error if generated)
		mkInsert(false, [3]vspec{c(1), o, c(2)}),                       // b omitted
		mkInsert(false, [3]vspec{c(3), o, c(1)}),                       // a<c false, b<4 false
		mkInsert(false, [3]vspec{o, o, c(2)}),                          // a omitted
		mkInsert(false, [3]vspec{c(2), o, o}),                          // c omitted
		mkInsert(false, [3]vspec{n, o, c(2)}),                          // a NULL
		mkInsert(false, [3]vspec{c(2), o, n}),                          // c NULL
		mkInsert(false, [3]vspec{dflt(), dflt(), dflt()}),              // explicit DEFAULT everywhere
		mkInsert(false, [3]vspec{c(1), o, c(5)}),                       // c in (1,2,3) false
		mkInsert(false, [3]vspec{c(2), o, c(3)}, [3]vspec{n, o, c(2)}), // second row may fail: no effect
		mkInsert(true, [3]vspec{c(1), o, c(2)}),
		mkInsert(true, [3]vspec{c(3), o, c(1)}),
		mkInsert(true, [3]vspec{o, o, c(2)}),
		mkInsert(true, [3]vspec{n, o, c(2)}),
		mkInsert(true, [3]vspec{c(2), o, n}),
		mkInsert(true, [3]vspec{c(1), o, c(5)}),
		mkInsert(true, [3]vspec{c(2), o, c(3)}, [3]vspec{n, o, c(2)}),
		mkUpdate(false, [3]vspec{c(2), o, o}, -1, 0), // base column of the generated one, all rows
		mkUpdate(false, [3]vspec{n, o, o}, -1, 0),
		mkUpdate(false, [3]vspec{c(3), o, o}, 2, 2),
		mkUpdate(false, [3]vspec{{mode: vAPlus1}, o, o}, -1, 0),
		mkUpdate(false, [3]vspec{o, o, c(1)}, -1, 0),
		mkUpdate(false, [3]vspec{o, o, n}, -1, 0),
		mkUpdate(false, [3]vspec{dflt(), o, o}, -1, 0),
		mkUpdate(false, [3]vspec{o, c(9), o}, -1, 0), // assigns b (error if generated)
		mkUpdate(true, [3]vspec{n, o, o}, -1, 0),
		mkUpdate(true, [3]vspec{o, o, c(1)}, -1, 0),
		{kind: "delete", where: 0, whereV: 1, sql: "delete from t where a = 1"},
	}
	return ops
}

// ---------------------------------------------------------------- step

type caseID struct {
	Schema string   `json:"schema"`
	DDL    string   `json:"ddl"`
	SQL    []string `json:"sql"`
}

func errClass(err error) string {
	if err == nil {
		return "ok"
	}
	if strings.HasPrefix(err.Error(), "panic:") {
		return "panic"
	}
	err = sql.UnwrapError(err)
	switch {
	case sql.ErrGeneratedColumnValue.Is(err):
		return "generated-value"
	case sql.ErrColumnDefaultReturnedNull.Is(err):
		return "not-null"
	}
	return eng.ErrClass(err)
}

func readRows(s *eng.Session, q string) ([][3]int, error) {
	r := s.Exec(q)
	if r.Err != nil {
		return nil, r.Err
	}
	rows := make([][3]int, 0, len(r.Rows))
	for _, row := range r.Rows {
		if len(row) != 3 {
			return nil, fmt.Errorf("row of %d columns", len(row))
		}
		var out [3]int
		for i, v := range row {
			if v == nil {
				out[i] = null
				continue
			}
			n, err := strconv.Atoi(eng.FormatValue(v))
			if err != nil {
				return nil, fmt.Errorf("unexpected value %v", v)
			}
			out[i] = n
		}
		rows = append(rows, out)
	}
	sortRows(rows)
	return rows, nil
}

type stepper struct {
	r   *core.Run
	sch *schema
	ops []stmt
}

func (sp *stepper) witness(h []int) json.RawMessage {
	sqls := make([]string, len(h))
	for i, x := range h {
		sqls[i] = sp.ops[x].sql
	}
	return core.J(caseID{Schema: sp.sch.name(), DDL: sp.sch.ddl(), SQL: sqls})
}

func stmtClass(st stmt) string {
	k := st.kind
	if st.ignore {
		k += "-ignore"
	}
	if st.kind == "insert" && len(st.rows) > 1 {
		k += "-multi"
	}
	return k
}

// subject: classifying coordinates - kind of generated column, unique index, statement class and
// the rules of the model that fired for this statement (MySQL's evaluation order).
func (sp *stepper) subject(st stmt, outs []*outcome) map[string]string {
	gen := []string{"none", "stored", "virtual"}[sp.sch.cols[1].gen]
	uniq := "no"
	if sp.sch.uniqueB {
		uniq = "yes"
	}
	ev := "none"
	if len(outs) > 0 {
		ev = outs[0].eventList()
	}
	k := st.kind
	if st.ignore {
		k += "-ignore"
	}
	return map[string]string{"gen": gen, "unique": uniq, "statement": k, "events": ev}
}

func (sp *stepper) Step(h []int) (string, bool) {
	r, sch := sp.r, sp.sch
	e := eng.New()
	s := e.NewSession("root")
	if res := s.Exec(sch.ddl()); res.Err != nil {
		// the engine rejects the schema: outside the domain
		if len(h) == 1 && h[0] == 0 {
			r.Count("skipped_unsupported", 1)
			r.Note("schema rejected: " + sch.ddl() + ": " + res.Err.Error())
		}
		return hist.Disabled, false
	}
	var m [][3]int
	for i, oi := range h {
		st := sp.ops[oi]
		last := i == len(h)-1
		outs := sch.run(m, st)
		res := s.Exec(st.sql)
		if !last && len(outs) == 1 {
			m = outs[0].rows
			continue
		}
		cls := errClass(res.Err)
		warned := len(s.Ctx.Session.Warnings()) > 0
		got, err := readRows(s, "select a, b, c from t")
		if err != nil {
			if last {
				r.Violate(core.Violation{Check: "step", Clause: "table-readable", Kind: "unexpected-error", Subject: sp.subject(st, outs), Witness: sp.witness(h), Observed: err.Error()})
			}
			return "", false
		}
		var match *outcome
		for _, oc := range outs {
			if fmtRows(oc.rows) != fmtRows(got) {
				continue
			}
			if (oc.ok() && cls == "ok" && oc.warn == warned) || (!oc.ok() && oc.classes[cls]) {
				match = oc
				break
			}
		}
		if !last {
			if match == nil {
				return "", false
			}
			m = match.rows
			continue
		}
		// ---- invariant on every stored row, evaluated by the model on the engine's rows
		for _, row := range got {
			if why := sch.invariant(row); why != "" {
				r.Violate(core.Violation{Check: "invariant", Clause: why, Kind: "stored-row", Subject: sp.subject(st, outs), Witness: sp.witness(h),
					Observed: "stored rows: " + fmtRows(got), Expected: "every stored row satisfies " + sch.ddl()})
				return "", false
			}
		}
		if sch.cols[1].gen != 0 {
			// the generated value as seen through a filter on b (the unique index when there is one)
			seen := map[int]bool{}
			for _, row := range append(cloneRows(got), [3]int{0, 7, 0}) {
				v := row[1]
				if v == null || seen[v] {
					continue
				}
				seen[v] = true
				via, err := readRows(s, fmt.Sprintf("select a, b, c from t where b = %d", v))
				var want [][3]int
				for _, g := range got {
					if g[1] == v {
						want = append(want, g)
					}
				}
				if err != nil || fmtRows(via) != fmtRows(want) {
					obs := fmtRows(via)
					if err != nil {
						obs = err.Error()
					}
					r.Violate(core.Violation{Check: "invariant", Clause: "lookup-by-generated-column-agrees", Kind: "wrong-rows", Subject: sp.subject(st, outs), Witness: sp.witness(h),
						Observed: fmt.Sprintf("where b = %d: %s", v, obs), Expected: fmtRows(want) + " (full scan: " + fmtRows(got) + ")"})
					return "", false
				}
			}
		}
		resKind := cls
		if cls == "ok" && warned {
			resKind = "ok+warning"
		}
		r.Outcome(stmtClass(st) + " -> " + resKind)
		if match == nil {
			sp.report(h, st, m, outs, cls, warned, got, res)
			return "", false
		}
		if cls != "ok" || warned || sp.usesFeature(st) {
			r.NonTrivial(sch.name() + "/" + fmt.Sprint(h))
		}
		m = match.rows
	}
	return fmtRows(m), true
}

// usesFeature: the statement leaves a column with a default/generated definition to the engine.
func (sp *stepper) usesFeature(st stmt) bool {
	if st.kind == "insert" {
		for _, row := range st.rows {
			for i := 0; i < 3; i++ {
				if row[i].mode != vConst && (sp.sch.cols[i].def != 0 || sp.sch.cols[i].gen != 0) {
					return true
				}
			}
		}
	}
	if st.kind == "update" {
		return sp.sch.cols[1].gen != 0 && st.set[0].mode != vOmit || st.set[0].mode == vDefault
	}
	return false
}

func (sp *stepper) report(h []int, st stmt, before [][3]int, outs []*outcome, cls string, warned bool, got [][3]int, res *eng.Result) {
	var exp []string
	allErr, allOK := true, true
	sameRowsOK := false
	for _, oc := range outs {
		w := ""
		if oc.warn {
			w = "+warning"
		}
		exp = append(exp, fmt.Sprintf("[%s%s] %s", oc.classList(), w, fmtRows(oc.rows)))
		if oc.ok() {
			allErr = false
			if fmtRows(oc.rows) == fmtRows(got) {
				sameRowsOK = true
			}
		} else {
			allOK = false
		}
	}
	w := ""
	if warned {
		w = "+warning"
	}
	obs := fmt.Sprintf("[%s%s] %s", cls, w, fmtRows(got))
	if res.Err != nil {
		obs += " -- " + res.Err.Error()
	}
	clause, kind := "rows-equal-model", "wrong-rows"
	switch {
	case cls == "panic":
		clause, kind = "no-panic", "panic"
		obs += "\n" + core.TopFrame(res.Stack)
	case cls != "ok" && fmtRows(got) != fmtRows(before):
		clause, kind = "failed-statement-has-no-effect", "partial-effect"
	case cls == "ok" && allErr:
		clause, kind = "violating-statement-fails", "accepted"
	case cls != "ok" && allOK:
		clause, kind = "valid-statement-succeeds", "rejected:"+cls
	case cls != "ok" && allErr:
		clause, kind = "error-class", "class:"+cls
	case cls == "ok" && sameRowsOK && warned:
		clause, kind = "warning-iff-adjusted", "unexpected-warning"
	case cls == "ok" && sameRowsOK && !warned:
		clause, kind = "warning-iff-adjusted", "missing-warning"
	}
	sp.r.Violate(core.Violation{Check: "step", Clause: clause, Kind: kind, Subject: sp.subject(st, outs), Witness: sp.witness(h),
		Observed: obs, Expected: "one of: " + strings.Join(exp, " --or-- ")})
}

// ---------------------------------------------------------------- registration

func init() {
	core.Register(&core.Prop{
		ID:    "C19",
		Level: "model_checking",
		Rule: "for every schema t(a,b,c) built from every compatible set of at most 2 (quick) / 3 (thorough) features out of {a|b|c NOT NULL, a DEFAULT 1|(1+1), b DEFAULT 2|(a+1), c DEFAULT 3, b GENERATED ALWAYS AS (a+1) STORED|VIRTUAL [+ UNIQUE KEY(b)], " +
			"CHECK (a<c | a IS NOT NULL | c IN (1,2,3) | b<4) ENFORCED|NOT ENFORCED}: BFS over ALL histories of depth <= 2 (thorough: additionally depth 3 for schemas of <= 1 feature) over 28 statements " +
			"(INSERT with every column / omitted columns / explicit DEFAULT / NULLs / check-violating values / a 2-row VALUES whose second row may fail, the same with IGNORE, UPDATE of the generated column's base column (constant, NULL, a+1, DEFAULT), of c, of b, UPDATE IGNORE, DELETE) on a fresh engine; " +
			"oracle on the last statement: (error class, stored rows, warning present) is one of the reference model's outcomes under MySQL strict-mode rules (IGNORE: NULL into NOT NULL -> 0 + warning, check/duplicate -> row skipped + warning; a failing statement has no effect); " +
			"invariant evaluated by the model on every row the engine stores: no NULL in a NOT NULL column, no enforced CHECK false, generated = a+1, and `WHERE b = v` agrees with the full scan. " +
			"non-trivial = the statement failed, warned, or left a defaulted/generated column to the engine",
		Assumptions: []string{
			"MySQL 8 strict sql_mode (the engine's default); integer columns only",
			"warnings are compared by presence, not by code or level",
			"accepted freedom: row order of multi-row UPDATE; whether an expression default over a sees a's IGNORE-adjusted value; which applicable error of the first failing row is reported",
			"NOT NULL on generated columns, ALTER TABLE, ON DUPLICATE KEY UPDATE and REPLACE are outside the alphabet",
		},
		Run:    runProp,
		Replay: replay,
	})
}

func runProp(r *core.Run) {
	debug.SetGCPercent(400)
	runUpserts(r)
	maxFeat := 2
	if r.Thorough() {
		maxFeat = 3
	}
	ops := alphabet()
	schs := schemas(maxFeat)
	r.Info("schemas", len(schs))
	r.Info("alphabet", len(ops))
	for si, sch := range schs {
		if r.Expired() {
			r.Capped(fmt.Sprintf("time budget reached after %d of %d schemas", si, len(schs)))
			return
		}
		depth := 2
		if r.Thorough() && len(sch.feats) <= 1 {
			depth = 3
		}
		// rotate the alphabet per schema so that the sharding by first statement spreads evenly
		rot := make([]stmt, len(ops))
		for i := range ops {
			rot[i] = ops[(i+si)%len(ops)]
		}
		sp := &stepper{r: r, sch: sch, ops: rot}
		hist.Explore(r, hist.Config{NOps: len(rot), MaxDepth: depth, UnmergedDepth: 2, ShardDepth: 1, Step: sp.Step,
			Label: func(o int) string { return rot[o].sql }})
		r.Count("schemas_explored", 1)
	}
}

func replay(r *core.Run, w json.RawMessage) {
	if replayUpsert(r, w) {
		return
	}
	var c caseID
	if json.Unmarshal(w, &c) != nil {
		return
	}
	sch := schemaByName(c.Schema)
	if sch == nil {
		return
	}
	ops := alphabet()
	var h []int
	for _, q := range c.SQL {
		for i, o := range ops {
			if o.sql == q {
				h = append(h, i)
			}
		}
	}
	if len(h) != len(c.SQL) {
		return
	}
	sp := &stepper{r: r, sch: sch, ops: ops}
	for i := 1; i <= len(h); i++ {
		if _, cont := sp.Step(h[:i]); !cont {
			break
		}
	}
}
