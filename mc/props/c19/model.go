// Package c19 decides property C19 (CHECK / NOT NULL / defaults / generated columns hold for
// stored rows) by a breadth-first search over DML histories on fresh engines for every schema of
// a small DDL grammar; every step is compared with the reference model in this file and every
// stored row is checked against the schema by the model.
//
// The model encodes MySQL 8 rules under the default strict sql_mode:
//   - a column omitted from INSERT (or given DEFAULT) takes its declared default (constant or
//     expression over the row); without a default a nullable column takes NULL and a NOT NULL
//     column is an error (1364);
//   - NULL into a NOT NULL column is an error (1048); an enforced CHECK that evaluates to FALSE is
//     an error (3819; NULL/unknown passes, NOT ENFORCED checks are not evaluated); a duplicate in
//     a unique index is an error (1062); an explicit value for a generated column is an error
//     (3105); an error aborts the statement without effect;
//   - generated columns are recomputed from the row's current values on every write;
//   - with IGNORE: NULL / missing value for a NOT NULL column becomes the type's implicit default
//     0 with a warning and the row goes on (generated columns and checks see the 0); a row
//     that violates a CHECK or a unique index is skipped with a warning.
//
// Freedom accepted (see type variant): the order in which a multi-row UPDATE visits rows (matters
// with a unique index); whether an expression DEFAULT over another column sees that column's
// IGNORE-adjusted value or the original NULL; whether under IGNORE the CHECKs see the adjusted or
// the original row (a FALSE check then skips the row - "skipped or adjusted with a warning");
// whether IGNORE also adjusts a NULL produced by an expression DEFAULT or still fails; which of
// several applicable errors of the first failing row is reported.
package c19

import (
	"fmt"
	"sort"
	"strings"
)

const null = -1 << 30

type col struct {
	notNull  bool
	def      int // 0 none, 1 constant, 2 expression
	defConst int
	gen      int // 0 plain, 1 stored, 2 virtual (only b)
}

const (
	ckALtC     = iota // a < c
	ckANotNull        // a is not null
	ckCIn             // c in (1,2,3)
	ckBLt4            // b < 4
)

var ckSQL = []string{"a < c", "a is not null", "c in (1,2,3)", "b < 4"}

type check struct {
	kind     int
	enforced bool
}

// schema of table t(a, b, c). Defaults: a DEFAULT 1 | DEFAULT (1+1); b DEFAULT 2 | DEFAULT (a+1);
// c DEFAULT 3. b may be GENERATED ALWAYS AS (a+1) STORED|VIRTUAL, optionally with a unique index.
type schema struct {
	cols    [3]col
	uniqueB bool
	checks  []check
	feats   []string
}

func (s *schema) ddl() string {
	names := []string{"a", "b", "c"}
	var parts []string
	for i, c := range s.cols {
		p := names[i] + " int"
		if c.gen != 0 {
			p += " generated always as (a + 1)"
			if c.gen == 1 {
				p += " stored"
			} else {
				p += " virtual"
			}
		}
		if c.notNull {
			p += " not null"
		}
		switch c.def {
		case 1:
			p += fmt.Sprintf(" default %d", c.defConst)
		case 2:
			if i == 0 {
				p += " default (1 + 1)"
			} else {
				p += " default (a + 1)"
			}
		}
		parts = append(parts, p)
	}
	if s.uniqueB {
		parts = append(parts, "unique key ub (b)")
	}
	for i, ck := range s.checks {
		p := fmt.Sprintf("constraint ck%d check (%s)", i+1, ckSQL[ck.kind])
		if !ck.enforced {
			p += " not enforced"
		}
		parts = append(parts, p)
	}
	return "create table t (" + strings.Join(parts, ", ") + ")"
}

func (s *schema) name() string { return strings.Join(s.feats, "+") }

// 3-valued logic: 1 true, 0 false, -1 unknown
func (s *schema) evalCheck(kind int, r [3]int) int {
	a, b, c := r[0], r[1], r[2]
	switch kind {
	case ckALtC:
		if a == null || c == null {
			return -1
		}
		if a < c {
			return 1
		}
		return 0
	case ckANotNull:
		if a != null {
			return 1
		}
		return 0
	case ckCIn:
		if c == null {
			return -1
		}
		if c >= 1 && c <= 3 {
			return 1
		}
		return 0
	case ckBLt4:
		if b == null {
			return -1
		}
		if b < 4 {
			return 1
		}
		return 0
	}
	return -1
}

func plus1(a int) int {
	if a == null {
		return null
	}
	return a + 1
}

// invariant evaluates the property's state invariant on one stored row; "" = holds.
func (s *schema) invariant(r [3]int) string {
	for i, c := range s.cols {
		if c.notNull && r[i] == null {
			return "null-in-not-null-column"
		}
	}
	if s.cols[1].gen != 0 && r[1] != plus1(r[0]) {
		return "generated-differs-from-expression"
	}
	for _, ck := range s.checks {
		if ck.enforced && s.evalCheck(ck.kind, r) == 0 {
			return "enforced-check-false"
		}
	}
	return ""
}

// ---------------------------------------------------------------- statements

const (
	vOmit = iota
	vDefault
	vConst // includes NULL
	vAPlus1
)

type vspec struct {
	mode int
	v    int
}

type stmt struct {
	kind   string // insert | update | delete
	ignore bool
	rows   [][3]vspec // insert
	set    [3]vspec   // update: vOmit = not assigned
	where  int        // column index of "where <col> = whereV", -1 none
	whereV int
	sql    string
}

type outcome struct {
	classes map[string]bool // empty = ok
	rows    [][3]int        // sorted
	warn    bool
	events  []string // which rules of the model fired (for classification)
}

func (o *outcome) eventList() string {
	if len(o.events) == 0 {
		return "none"
	}
	l := append([]string(nil), o.events...)
	sort.Strings(l)
	return strings.Join(l, "+")
}

func (o *outcome) ok() bool { return len(o.classes) == 0 }

func (o *outcome) classList() string {
	if o.ok() {
		return "ok"
	}
	var l []string
	for c := range o.classes {
		l = append(l, c)
	}
	sort.Strings(l)
	return strings.Join(l, "|")
}

func fmtVal(v int) string {
	if v == null {
		return "NULL"
	}
	return fmt.Sprint(v)
}

func fmtRows(rows [][3]int) string {
	parts := make([]string, len(rows))
	for i, r := range rows {
		parts[i] = "(" + fmtVal(r[0]) + "," + fmtVal(r[1]) + "," + fmtVal(r[2]) + ")"
	}
	return strings.Join(parts, " ")
}

func sortRows(rows [][3]int) {
	sort.Slice(rows, func(i, j int) bool {
		for k := 0; k < 3; k++ {
			if rows[i][k] != rows[j][k] {
				return rows[i][k] < rows[j][k]
			}
		}
		return false
	})
}

func cloneRows(rows [][3]int) [][3]int { return append([][3]int(nil), rows...) }

type rowResult struct {
	row    [3]int
	errs   []string // applicable error classes in MySQL's evaluation order (non-IGNORE) / fatal ones (IGNORE)
	warn   bool
	skip   bool
	events []string
	raw    [3]int  // the row before IGNORE adjustments (adjusted columns still NULL)
	rawSet [3]bool // which columns were adjusted
}

func (res *rowResult) event(e string) {
	for _, x := range res.events {
		if x == e {
			return
		}
	}
	res.events = append(res.events, e)
}

// variant: the evaluation orders the oracle accepts.
type variant struct {
	// an expression DEFAULT over a sees a's IGNORE-adjusted value (MySQL) or the original NULL
	seesAdjusted bool
	// under IGNORE the CHECKs are evaluated on the adjusted row (MySQL) or on the row before the
	// NULL -> 0 adjustment (then a FALSE check skips the row, which the property also allows)
	checkSeesRaw bool
	// under IGNORE a NULL produced by an expression DEFAULT for a NOT NULL column is adjusted to 0
	// (MySQL) or still rejected with an error
	exprNullFatal bool
}

// finish applies generated column, checks and the unique index to a row whose base columns are
// final. others = rows the unique index is compared with.
func (s *schema) finish(r [3]int, others [][3]int, ignore bool, v variant, res *rowResult) {
	if s.cols[1].gen != 0 {
		r[1] = plus1(r[0])
	}
	res.row = r
	ckRow := r
	if ignore && v.checkSeesRaw {
		for i := 0; i < 3; i++ {
			if res.rawSet[i] {
				ckRow[i] = null
			}
		}
		if s.cols[1].gen != 0 {
			ckRow[1] = plus1(ckRow[0])
		}
	}
	for _, ck := range s.checks {
		if ck.enforced && s.evalCheck(ck.kind, ckRow) == 0 {
			if ignore {
				res.warn, res.skip = true, true
				res.event("check-skip")
				return
			}
			res.errs = append(res.errs, "check")
			res.event("check-error")
			break
		}
	}
	if s.uniqueB && r[1] != null {
		for _, o := range others {
			if o[1] == r[1] {
				if ignore {
					res.warn, res.skip = true, true
					res.event("dup-skip")
					return
				}
				res.errs = append(res.errs, "duplicate-key")
				res.event("dup-error")
				break
			}
		}
	}
}

// assign stores value v (possibly NULL) into base column i under NOT NULL rules.
func (s *schema) assign(r *[3]int, i, v int, ignore bool, res *rowResult) {
	if v == null && s.cols[i].notNull {
		if ignore {
			r[i] = 0
			res.warn = true
			res.rawSet[i] = true
			res.event("notnull-adjust")
			return
		}
		res.errs = append(res.errs, "not-null")
		res.event("notnull-error")
		r[i] = null
		return
	}
	r[i] = v
}

// missing handles a NOT NULL column without default that got no value (omitted / DEFAULT).
func (s *schema) missing(r *[3]int, i int, ignore bool, res *rowResult) {
	if !s.cols[i].notNull {
		r[i] = null
		return
	}
	if ignore {
		r[i] = 0
		res.warn = true
		res.rawSet[i] = true
		res.event("notnull-adjust")
		return
	}
	res.errs = append(res.errs, "not-null")
	res.event("notnull-error")
	r[i] = null
}

// exprDefault stores the value of b's expression default (a+1 over src).
func (s *schema) exprDefault(r *[3]int, i, val int, ignore bool, v variant, res *rowResult) {
	if val == null && s.cols[i].notNull {
		res.event("expr-default-null")
		if ignore && v.exprNullFatal {
			res.errs = append(res.errs, "not-null")
			r[i] = null
			return
		}
	}
	s.assign(r, i, val, ignore, res)
}

// insertRow builds the stored row for one VALUES row.
func (s *schema) insertRow(spec [3]vspec, existing [][3]int, ignore bool, v variant) rowResult {
	var res rowResult
	var r [3]int
	rawA := null
	for _, i := range []int{0, 2, 1} { // a and c first: b's default / generation depends on a
		c := s.cols[i]
		sp := spec[i]
		if c.gen != 0 {
			if sp.mode == vConst {
				res.errs = append(res.errs, "generated-value")
				res.event("generated-value-error")
			}
			continue
		}
		switch sp.mode {
		case vConst:
			if i == 0 {
				rawA = sp.v
			}
			s.assign(&r, i, sp.v, ignore, &res)
		default: // omitted or DEFAULT
			switch c.def {
			case 1:
				r[i] = c.defConst
				if i == 0 {
					rawA = r[i]
				}
			case 2:
				if i == 0 {
					r[i] = 2
					rawA = 2
				} else {
					src := r[0]
					if !v.seesAdjusted {
						src = rawA
					}
					s.exprDefault(&r, i, plus1(src), ignore, v, &res)
				}
			default:
				s.missing(&r, i, ignore, &res)
				if i == 0 {
					rawA = null
				}
			}
		}
	}
	s.finish(r, existing, ignore, v, &res)
	return res
}

func variants(ignore bool) []variant {
	if !ignore {
		return []variant{{seesAdjusted: true}}
	}
	var out []variant
	for _, a := range []bool{true, false} {
		for _, b := range []bool{false, true} {
			for _, c := range []bool{false, true} {
				out = append(out, variant{seesAdjusted: a, checkSeesRaw: b, exprNullFatal: c})
			}
		}
	}
	return out
}

// run executes st on rows and returns the accepted outcomes; the first one is MySQL's.
func (s *schema) run(rows [][3]int, st stmt) []*outcome {
	var outs []*outcome
	add := func(o *outcome) {
		sortRows(o.rows)
		for _, p := range outs {
			if fmtRows(p.rows) == fmtRows(o.rows) && p.ok() == o.ok() && p.warn == o.warn {
				for c := range o.classes {
					p.classes[c] = true
				}
				return
			}
		}
		outs = append(outs, o)
	}
	fail := func(cur [][3]int, errs []string, ev []string) *outcome {
		o := &outcome{classes: map[string]bool{}, rows: cloneRows(cur), events: ev}
		for _, e := range errs {
			o.classes[e] = true
		}
		return o
	}
	addEvents := func(dst []string, src []string) []string {
		for _, e := range src {
			found := false
			for _, d := range dst {
				found = found || d == e
			}
			if !found {
				dst = append(dst, e)
			}
		}
		return dst
	}
	switch st.kind {
	case "delete":
		var keep [][3]int
		for _, r := range rows {
			if !(st.where >= 0 && r[st.where] == st.whereV && st.whereV != null) {
				keep = append(keep, r)
			}
		}
		add(&outcome{classes: map[string]bool{}, rows: keep})
	case "insert":
		for _, v := range variants(st.ignore) {
			cur := cloneRows(rows)
			warn := false
			var errs, ev []string
			for _, spec := range st.rows {
				res := s.insertRow(spec, cur, st.ignore, v)
				ev = addEvents(ev, res.events)
				if len(res.errs) > 0 {
					errs = res.errs
					break
				}
				warn = warn || res.warn
				if !res.skip {
					cur = append(cur, res.row)
				}
			}
			if errs != nil {
				// a failing statement has no effect
				add(fail(rows, errs, ev))
			} else {
				add(&outcome{classes: map[string]bool{}, rows: cur, warn: warn, events: ev})
			}
		}
	case "update":
		// statement-level error: assigning a generated column
		if st.set[1].mode == vConst && s.cols[1].gen != 0 {
			add(fail(rows, []string{"generated-value"}, []string{"generated-value-error"}))
			return outs
		}
		var targets []int
		for i, r := range rows {
			if st.where < 0 || (r[st.where] == st.whereV && st.whereV != null) {
				targets = append(targets, i)
			}
		}
		perms := [][]int{identity(len(targets))}
		if s.uniqueB && len(targets) > 1 {
			perms = permutations(len(targets))
		}
		for _, v := range variants(st.ignore) {
			for _, perm := range perms {
				cur := cloneRows(rows)
				warn := false
				var errs, ev []string
				for _, pi := range perm {
					ti := targets[pi]
					old := cur[ti]
					nw := old
					var res rowResult
					for i := 0; i < 3; i++ {
						sp := st.set[i]
						switch sp.mode {
						case vConst:
							s.assign(&nw, i, sp.v, st.ignore, &res)
						case vAPlus1:
							s.assign(&nw, i, plus1(old[0]), st.ignore, &res)
						case vDefault:
							c := s.cols[i]
							switch c.def {
							case 1:
								nw[i] = c.defConst
							case 2:
								if i == 0 {
									nw[i] = 2
								} else {
									s.exprDefault(&nw, i, plus1(nw[0]), st.ignore, v, &res)
								}
							default:
								s.missing(&nw, i, st.ignore, &res)
							}
						}
					}
					if s.cols[1].gen != 0 {
						nw[1] = plus1(nw[0])
					}
					if len(res.errs) == 0 && nw == old {
						warn = warn || res.warn
						ev = addEvents(ev, res.events)
						continue
					}
					var others [][3]int
					for j, o := range cur {
						if j != ti {
							others = append(others, o)
						}
					}
					s.finish(nw, others, st.ignore, v, &res)
					ev = addEvents(ev, res.events)
					if len(res.errs) > 0 {
						errs = res.errs
						break
					}
					warn = warn || res.warn
					if !res.skip {
						cur[ti] = res.row
					}
				}
				if errs != nil {
					add(fail(rows, errs, ev))
				} else {
					add(&outcome{classes: map[string]bool{}, rows: cur, warn: warn, events: ev})
				}
			}
		}
	}
	return outs
}

func identity(n int) []int {
	out := make([]int, n)
	for i := range out {
		out[i] = i
	}
	return out
}

func permutations(n int) [][]int {
	var out [][]int
	var rec func(cur []int, used []bool)
	rec = func(cur []int, used []bool) {
		if len(cur) == n {
			out = append(out, append([]int(nil), cur...))
			return
		}
		for i := 0; i < n; i++ {
			if !used[i] {
				used[i] = true
				rec(append(cur, i), used)
				used[i] = false
			}
		}
	}
	rec(nil, make([]bool, n))
	return out
}
