package c19

import (
	"encoding/json"
	"fmt"
	"strings"

	"verif/mc/core"
	"verif/mc/eng"
)

// Upsert part: INSERT … ON DUPLICATE KEY UPDATE, REPLACE and their IGNORE forms on keyed tables
// with a generated column and CHECK constraints. The statement-level model of this package does
// not cover these statements; the property's STATE invariant needs no model of the statement:
// after every history, every row the engine stores must satisfy the enforced CHECKs, hold
// b = a + 1 in the generated column, and have no NULL in a NOT NULL column — whatever the
// statements returned.

type upSchema struct {
	Name   string
	DDL    string
	Checks []func(a, b, c int) int // 1 true, 0 false, -1 NULL  (NULL ints are `null`)
}

func tv(cond bool) int {
	if cond {
		return 1
	}
	return 0
}

func upSchemas() []upSchema {
	bLt4 := func(a, b, c int) int {
		if b == null {
			return -1
		}
		return tv(b < 4)
	}
	aLtC := func(a, b, c int) int {
		if a == null || c == null {
			return -1
		}
		return tv(a < c)
	}
	return []upSchema{
		{"pk+stored+check(b<4)", "create table t (a int primary key, b int as (a + 1) stored, c int, check (b < 4))", []func(a, b, c int) int{bLt4}},
		{"pk+virtual+check(b<4)", "create table t (a int primary key, b int as (a + 1) virtual, c int, check (b < 4))", []func(a, b, c int) int{bLt4}},
		{"pk+stored+check(a<c)", "create table t (a int primary key, b int as (a + 1) stored, c int, check (a < c))", []func(a, b, c int) int{aLtC}},
		{"uc+stored+check(b<4)+check(a<c)", "create table t (a int, b int as (a + 1) stored, c int not null, unique key uc (c), check (b < 4), check (a < c))", []func(a, b, c int) int{bLt4, aLtC}},
	}
}

func upStatements() []string {
	var out []string
	for _, row := range []string{"(1, 2)", "(2, 5)", "(1, 5)", "(3, 4)"} {
		out = append(out, "insert into t (a, c) values "+row)
		out = append(out, "replace into t (a, c) values "+row)
		for _, upd := range []string{"a = a + 1", "a = a + 2", "c = 0", "a = 3, c = 2", "c = values(c) - 3"} {
			out = append(out, "insert into t (a, c) values "+row+" on duplicate key update "+upd)
		}
		out = append(out, "insert ignore into t (a, c) values "+row+" on duplicate key update a = a + 2")
	}
	out = append(out, "update t set a = a + 1", "update ignore t set a = a + 2", "delete from t where a = 1")
	return out
}

type upCase struct {
	Upsert string   `json:"upsert"` // schema name
	SQL    []string `json:"sql"`
}

func stmtKindOf(q string) string {
	switch {
	case strings.Contains(q, "on duplicate key"):
		if strings.HasPrefix(q, "insert ignore") {
			return "insert-ignore-odku"
		}
		return "insert-odku"
	case strings.HasPrefix(q, "replace"):
		return "replace"
	case strings.HasPrefix(q, "update ignore"):
		return "update-ignore"
	}
	return strings.Fields(q)[0]
}

func upCheck(r *core.Run, sch upSchema, sqls []string) {
	e := eng.New()
	s := e.NewSession("root")
	if res := s.Exec(sch.DDL); res.Err != nil {
		r.Count("skipped_unsupported", 1)
		return
	}
	for _, q := range sqls {
		s.Exec(q) // any outcome: the invariant is about what is stored afterwards
	}
	r.Eval()
	got, err := readRows(s, "select a, b, c from t")
	last := sqls[len(sqls)-1]
	subj := map[string]string{"schema": sch.Name, "statement": stmtKindOf(last)}
	w := core.J(upCase{Upsert: sch.Name, SQL: sqls})
	if err != nil {
		r.Violate(core.Violation{Check: "upsert-invariant", Clause: "table-readable", Kind: "unexpected-error", Subject: subj, Witness: w, Observed: err.Error()})
		return
	}
	if len(got) > 0 {
		r.NonTrivial(sch.Name + "|" + strings.Join(sqls, ";"))
		r.Outcome("upsert:" + stmtKindOf(last))
	}
	for _, row := range got {
		a, b, c := row[0], row[1], row[2]
		why := ""
		switch {
		case a != null && b != a+1, a == null && b != null:
			why = "generated-column-equals-expression"
		case strings.Contains(sch.DDL, "c int not null") && c == null:
			why = "no-null-in-not-null-column"
		}
		for i, ck := range sch.Checks {
			if why == "" && ck(a, b, c) == 0 {
				why = fmt.Sprintf("enforced-check-%d-not-false", i+1)
			}
		}
		if why != "" {
			r.Violate(core.Violation{Check: "upsert-invariant", Clause: why, Kind: "stored-row", Subject: subj, Witness: w,
				Observed: "stored rows: " + fmtRows(got), Expected: "every stored row satisfies " + sch.DDL})
			return
		}
	}
	if r.WantSample() && len(got) > 0 && strings.Contains(last, "duplicate") {
		r.Sample(map[string]any{"upsert_schema": sch.Name, "sql": sqls, "stored": fmtRows(got)})
	}
}

func runUpserts(r *core.Run) {
	stmts := upStatements()
	depth := 2
	if r.Thorough() {
		depth = 3
	}
	idx := int64(1 << 41)
	for _, sch := range upSchemas() {
		var rec func(h []string)
		rec = func(h []string) {
			if len(h) > 0 {
				idx++
				if r.Mine(idx) {
					upCheck(r, sch, h)
				}
			}
			if len(h) == depth {
				return
			}
			for _, q := range stmts {
				rec(append(append([]string{}, h...), q))
			}
		}
		rec(nil)
	}
}

func replayUpsert(r *core.Run, w json.RawMessage) bool {
	var c upCase
	if json.Unmarshal(w, &c) != nil || c.Upsert == "" {
		return false
	}
	for _, sch := range upSchemas() {
		if sch.Name == c.Upsert {
			upCheck(r, sch, c.SQL)
		}
	}
	return true
}
