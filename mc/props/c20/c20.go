// Package c20 — AUTO_INCREMENT values are unique, increasing and reported correctly.
//
// Explorer: hist (every statement history up to a depth bound, fresh engine per history, two
// sessions). Reference: a high-water-mark model of the column's counter that accepts gaps. See
// design.d/C20.md.
package c20

import (
	"encoding/json"
	"fmt"
	"runtime/debug"
	"sort"
	"strconv"
	"strings"

	"github.com/dolthub/go-mysql-server/memory"

	"verif/mc/core"
	"verif/mc/eng"
	"verif/mc/hist"
)

const ddl = "create table t (id int primary key auto_increment, v int)"
const typeMax = int64(2147483647)

// ---------------------------------------------------------------------------------------------
// alphabet

// one row of an INSERT: Implicit (NULL / 0 / omitted) or an explicit id
type irow struct {
	Implicit bool
	Form     string // NULL | 0 | omit (implicit rows)
	ID       int64  // explicit rows
}

type op struct {
	Name     string
	Kind     string // insert insert-ignore insert-failing delete-max update-id alter truncate
	Sess     int    // 0 or 1
	Rows     []irow
	N        int64  // alter: the new AUTO_INCREMENT
	SQL      string // non-insert statements
	Thorough bool   // only in the thorough alphabet
}

func imp(form string) irow { return irow{Implicit: true, Form: form} }
func expl(id int64) irow   { return irow{ID: id} }
func insert(name string, sess int, rows ...irow) op {
	return op{Name: name, Kind: "insert", Sess: sess, Rows: rows}
}

func alphabet(thorough bool) []op {
	all := []op{
		insert("ins-null", 0, imp("NULL")),
		insert("ins-zero", 0, imp("0")),
		insert("ins-omit", 0, imp("omit")),
		insert("ins-1", 0, expl(1)),
		insert("ins-5", 0, expl(5)),
		insert("ins-neg", 0, expl(-1)),
		insert("ins-max", 0, expl(typeMax)),
		insert("ins-mix-null-7-null", 0, imp("NULL"), expl(7), imp("NULL")),
		insert("ins-mix-3-null", 0, expl(3), imp("NULL")),
		{Name: "ins-failing", Kind: "insert-failing", Rows: []irow{imp("NULL"), expl(9), expl(9)}},
		{Name: "del-max", Kind: "delete-max", SQL: "delete from t order by id desc limit 1"},
		{Name: "upd-id", Kind: "update-id", SQL: "update t set id = id + 10 order by id desc limit 1"},
		{Name: "alter-3", Kind: "alter", N: 3, SQL: "alter table t auto_increment = 3"},
		{Name: "alter-20", Kind: "alter", N: 20, SQL: "alter table t auto_increment = 20"},
		{Name: "truncate", Kind: "truncate", SQL: "truncate table t"},
		{Name: "ins-ignore-1-null", Kind: "insert-ignore", Rows: []irow{expl(1), imp("NULL")}},
		insert("s2-ins-null", 1, imp("NULL")),
		insert("s2-ins-null-null", 1, imp("NULL"), imp("NULL")),
		{Name: "ins-ignore-null-1", Kind: "insert-ignore", Rows: []irow{imp("NULL"), expl(1)}, Thorough: true},
		{Name: "upd-id-to-next", Kind: "update-id", SQL: "update t set id = id + 1 order by id desc limit 1", Thorough: true},
	}
	if thorough {
		return all
	}
	var out []op
	for _, o := range all {
		if !o.Thorough {
			out = append(out, o)
		}
	}
	return out
}

// sql renders an insert; every row carries a tag (v) that is unique in the history.
func (o op) sql(step int) string {
	if o.SQL != "" {
		return o.SQL
	}
	omit := len(o.Rows) == 1 && o.Rows[0].Form == "omit"
	var tuples []string
	for i, rw := range o.Rows {
		tag := strconv.Itoa(tagOf(step, i))
		switch {
		case omit:
			tuples = append(tuples, "("+tag+")")
		case rw.Implicit:
			tuples = append(tuples, "("+rw.Form+", "+tag+")")
		default:
			tuples = append(tuples, "("+strconv.FormatInt(rw.ID, 10)+", "+tag+")")
		}
	}
	verb := "insert"
	if o.Kind == "insert-ignore" {
		verb = "insert ignore"
	}
	cols := "(id, v)"
	if omit {
		cols = "(v)"
	}
	return verb + " into t " + cols + " values " + strings.Join(tuples, ", ")
}

func tagOf(step, row int) int { return (step+1)*10 + row }

// ---------------------------------------------------------------------------------------------
// model

type model struct {
	// hw: every generated value must exceed it. Maximum of the values generated or explicitly
	// inserted since the counter was last reset (TRUNCATE: 0; ALTER TABLE … AUTO_INCREMENT = n:
	// max(n-1, largest id in the table) — MySQL raises n to max+1 and may lower the counter to
	// n when n is above every id in the table).
	hw int64
	// alterBelowMax: an ALTER … AUTO_INCREMENT = n with n <= the largest id happened since the
	// last reset of the counter above it (classifies violations)
	alterBelowMax bool
	lid           [2]int64 // expected LAST_INSERT_ID() per session
	lidKnown      [2]bool  // false after a failed insert (MySQL: undefined)
}

func newModel() *model { return &model{lidKnown: [2]bool{true, true}} }

func (m *model) regime() string {
	switch {
	case m.hw >= typeMax:
		// checked first: once the column has reached the type maximum the (separate) saturation
		// defect governs, whatever ALTER did before
		return "at-type-max"
	case m.alterBelowMax:
		return "after-alter-below-max"
	}
	return "normal"
}

type row struct{ id, v int64 }

func maxID(rows []row) int64 {
	mx := int64(0)
	for _, r := range rows {
		if r.id > mx {
			mx = r.id
		}
	}
	return mx
}

func hasID(rows []row, id int64) bool {
	for _, r := range rows {
		if r.id == id {
			return true
		}
	}
	return false
}

func fmtRows(rows []row) string {
	p := make([]string, len(rows))
	for i, r := range rows {
		p[i] = fmt.Sprintf("(%d,%d)", r.id, r.v)
	}
	return "{" + strings.Join(p, " ") + "}"
}

// ---------------------------------------------------------------------------------------------
// system

type system struct {
	e *eng.Engine
	s [2]*eng.Session
}

func newSystem() *system {
	e := eng.New()
	y := &system{e: e}
	y.s[0] = e.NewSession("root")
	y.s[1] = e.NewSession("root")
	y.s[0].MustExec(ddl)
	return y
}

func toInt(v interface{}) (int64, bool) {
	switch x := v.(type) {
	case int8:
		return int64(x), true
	case int16:
		return int64(x), true
	case int32:
		return int64(x), true
	case int64:
		return x, true
	case int:
		return int64(x), true
	case uint64:
		return int64(x), true
	case uint32:
		return int64(x), true
	}
	return 0, false
}

// rowsFast reads the committed rows of t straight from the memory backend (both sessions run in
// autocommit mode, so that is the table every statement sees).
func (y *system) rowsFast() []row {
	d := memory.VerifC16Committed(y.e.DBs[0].BaseDatabase, "t")
	var out []row
	for _, pk := range d.PartitionKeys {
		for _, r := range d.Partitions[pk] {
			id, _ := toInt(r[0])
			v, _ := toInt(r[1])
			out = append(out, row{id, v})
		}
	}
	sort.Slice(out, func(i, j int) bool { return out[i].id < out[j].id })
	return out
}

func (y *system) rowsSQL(sess int) ([]row, error) {
	r := y.s[sess].Exec("select id, v from t order by id")
	if r.Err != nil {
		return nil, r.Err
	}
	var out []row
	for _, x := range r.Rows {
		id, _ := toInt(x[0])
		v, _ := toInt(x[1])
		out = append(out, row{id, v})
	}
	return out, nil
}

func (y *system) lastInsertID(sess int) (int64, error) {
	r := y.s[sess].Exec("select last_insert_id()")
	if r.Err != nil || len(r.Rows) != 1 {
		return 0, fmt.Errorf("select last_insert_id(): %s", r.Summary())
	}
	v, ok := toInt(r.Rows[0][0])
	if !ok {
		return 0, fmt.Errorf("select last_insert_id(): %s", r.Summary())
	}
	return v, nil
}

// ---------------------------------------------------------------------------------------------
// one step: run + judge

type finding struct {
	clause, kind string
	subject      map[string]string
	observed     string
	expected     string
}

type stepper struct {
	r        *core.Run
	thorough bool
	ops      []op
}

type witness struct {
	Alphabet string   `json:"alphabet"`
	History  []int    `json:"history"`
	SQL      []string `json:"sql"`
}

func (st *stepper) alphaName() string {
	if st.thorough {
		return "thorough"
	}
	return "quick"
}

func (st *stepper) wit(h []int) json.RawMessage {
	w := witness{Alphabet: st.alphaName(), History: h, SQL: []string{ddl}}
	for i, oi := range h {
		o := st.ops[oi]
		q := o.sql(i)
		if o.Sess == 1 {
			q = "[session 2] " + q
		}
		w.SQL = append(w.SQL, q)
	}
	return core.J(w)
}

// apply runs operation o as step number `step`, updates the model and judges the step. full:
// also the observations that need extra statements (LAST_INSERT_ID() of both sessions, SQL scan).
func (st *stepper) apply(y *system, m *model, o op, step int, full bool) (f *finding, outcome string) {
	before := y.rowsFast()
	q := o.sql(step)
	res := y.s[o.Sess].Exec(q)
	after := y.rowsFast()
	subject := func(extra ...string) map[string]string {
		s := map[string]string{"statement": o.Kind, "regime": m.regime()}
		for i := 0; i+1 < len(extra); i += 2 {
			s[extra[i]] = extra[i+1]
		}
		return s
	}
	if res.Panic != nil {
		return &finding{"no-panic", "panic", subject("frame", core.TopFrame(res.Stack)), q + ": " + fmt.Sprint(res.Panic), "no panic"}, "panic"
	}
	same := fmtRows(before) == fmtRows(after)
	outcome = "ok"
	if res.Err != nil {
		outcome = "err-" + eng.ErrClass(res.Err)
	}
	lidChanged := false // this statement defines a new LAST_INSERT_ID() for its session
	// shape: what precedes the first generated row inside the statement (classifies reported-id findings)
	shape := "n/a"

	switch o.Kind {
	case "insert", "insert-ignore", "insert-failing":
		ignore := o.Kind == "insert-ignore"
		// what must happen, row by row
		cur := append([]row{}, before...)
		explicitDup := false
		nImplicit := 0
		// meetsLater: an explicit id above the high-water mark follows an implicit row — the value
		// generated for that row may legitimately be that very id (then the explicit row collides)
		meetsLater := false
		for _, rw := range o.Rows {
			if rw.Implicit {
				nImplicit++
				continue
			}
			if nImplicit > 0 && rw.ID > m.hw {
				meetsLater = true
			}
			if hasID(cur, rw.ID) {
				if !ignore {
					explicitDup = true
				}
				continue
			}
			cur = append(cur, row{id: rw.ID})
		}
		if res.Err != nil {
			if !same {
				return &finding{"failed-insert-no-effect", "table-changed", subject(), q + " failed (" + res.Err.Error() + ") but the table changed: " + fmtRows(before) + " -> " + fmtRows(after), "a failed statement leaves the table unchanged"}, outcome
			}
			m.lidKnown[o.Sess] = false
			if explicitDup {
				if eng.ErrClass(res.Err) != "duplicate-key" {
					return &finding{"insert-outcome", "unexpected-error", subject(), q + ": " + res.Err.Error(), "duplicate-key error"}, outcome
				}
				return nil, outcome
			}
			// no explicit value collides: the error comes from a generated value
			if nImplicit > 0 && m.hw >= typeMax {
				return nil, outcome + "-exhausted" // no value above the high-water mark exists
			}
			if meetsLater && eng.ErrClass(res.Err) == "duplicate-key" {
				return nil, outcome + "-generated-meets-later-explicit"
			}
			if nImplicit > 0 && maxID(before) > m.hw && eng.ErrClass(res.Err) == "duplicate-key" {
				// an id above the high-water mark can only have been put there by UPDATE; MySQL
				// (before 8.0) does not move the counter for it either and reports a duplicate
				return nil, outcome + "-collides-with-updated-id"
			}
			kind := "unexpected-error"
			if eng.ErrClass(res.Err) == "duplicate-key" {
				kind = "generated-duplicate"
			}
			return &finding{"generated-values", kind, subject(), q + " on " + fmtRows(before) + " (every earlier generated / explicitly inserted value <= " + fmt.Sprint(m.hw) + "): " + res.Err.Error(), "a generated value above " + fmt.Sprint(m.hw) + " and success"}, outcome
		}
		// success
		if explicitDup {
			return &finding{"insert-outcome", "duplicate-accepted", subject(), q + " on " + fmtRows(before) + " succeeded: " + fmtRows(after), "duplicate-key error"}, outcome
		}
		firstGen := int64(0)
		haveGen := false
		sawExplicit, sawIgnored := false, false
		hw := m.hw
		seenBefore := append([]row{}, before...)
		for i, rw := range o.Rows {
			tag := int64(tagOf(step, i))
			var got *row
			for k := range after {
				if after[k].v == tag {
					got = &after[k]
				}
			}
			if !rw.Implicit {
				if hasID(seenBefore, rw.ID) { // ignored duplicate
					if got != nil {
						return &finding{"insert-outcome", "duplicate-accepted", subject(), q + ": row " + fmt.Sprint(i+1) + " stored although id " + fmt.Sprint(rw.ID) + " existed: " + fmtRows(after), "row ignored"}, outcome
					}
					sawIgnored = sawIgnored || !haveGen
					continue
				}
				sawExplicit = sawExplicit || !haveGen
				if got == nil || got.id != rw.ID {
					return &finding{"insert-outcome", "explicit-value-not-stored", subject(), q + ": row " + fmt.Sprint(i+1) + " -> " + fmtRows(after), "id " + fmt.Sprint(rw.ID)}, outcome
				}
				seenBefore = append(seenBefore, *got)
				if rw.ID > hw {
					hw = rw.ID
				}
				continue
			}
			if got == nil && ignore {
				// INSERT IGNORE skipped the row: its generated value collided
				switch {
				case hw >= typeMax:
					outcome = "ok-exhausted-row-skipped"
					shape = "generated-row-skipped"
					continue
				case maxID(before) > m.hw:
					outcome = "ok-collides-with-updated-id-row-skipped"
					shape = "generated-row-skipped"
					continue
				}
				return &finding{"generated-values", "generated-duplicate", subject(), q + " on " + fmtRows(before) + " (every earlier generated / explicitly inserted value <= " + fmt.Sprint(hw) + "): row " + fmt.Sprint(i+1) + " was skipped as a duplicate: " + fmtRows(after), "a generated value above " + fmt.Sprint(hw) + ", row stored"}, outcome
			}
			if got == nil {
				return &finding{"generated-values", "row-missing", subject(), q + ": row " + fmt.Sprint(i+1) + " is not in the table: " + fmtRows(after), "a row with a generated id"}, outcome
			}
			if got.id <= hw {
				return &finding{"generated-values", "generated-not-greater", subject(), q + " on " + fmtRows(before) + ": row " + fmt.Sprint(i+1) + " got id " + fmt.Sprint(got.id) + "; table now " + fmtRows(after), "a value greater than " + fmt.Sprint(hw) + " (the largest value generated or explicitly inserted since the counter was last reset)"}, outcome
			}
			hw = got.id
			seenBefore = append(seenBefore, *got)
			if !haveGen {
				haveGen, firstGen = true, got.id
			}
		}
		if len(after) != len(seenBefore) {
			return &finding{"insert-outcome", "rows-differ", subject(), q + " on " + fmtRows(before) + " -> " + fmtRows(after), fmt.Sprint(len(seenBefore)) + " rows"}, outcome
		}
		m.hw = hw
		if haveGen {
			switch {
			case shape == "generated-row-skipped":
			case sawIgnored:
				shape = "ignored-row-before-first-generated"
			case sawExplicit:
				shape = "explicit-row-before-first-generated"
			default:
				shape = "generated-first"
			}
			m.lid[o.Sess], m.lidKnown[o.Sess] = firstGen, true
			lidChanged = true
			ok, isOK := res.OK()
			if !isOK || int64(ok.InsertID) != firstGen {
				return &finding{"reported-id", "wrong-ok-insert-id", subject("shape", shape), q + ": OkResult " + res.Summary() + "; rows now " + fmtRows(after), "InsertID = " + fmt.Sprint(firstGen) + " (first generated value)"}, outcome
			}
			outcome = "ok-generated"
		}
	case "delete-max", "update-id":
		// no requirement on the counter (MySQL 8.0 moves it for UPDATE, earlier versions do not)
		if res.Err != nil && !same {
			return &finding{"failed-statement-no-effect", "table-changed", subject(), q + " failed but the table changed", "unchanged"}, outcome
		}
	case "alter":
		if res.Err != nil {
			return &finding{"alter-outcome", "unexpected-error", subject(), q + ": " + res.Err.Error(), "success"}, outcome
		}
		if !same {
			return &finding{"alter-outcome", "table-changed", subject(), q + ": " + fmtRows(before) + " -> " + fmtRows(after), "rows unchanged"}, outcome
		}
		mx := maxID(after)
		if o.N <= mx {
			m.alterBelowMax = true
			outcome = "ok-below-max"
		} else {
			m.alterBelowMax = false
			if o.N-1 < m.hw {
				outcome = "ok-between-max-and-counter"
			} else {
				outcome = "ok-raises"
			}
		}
		m.hw = o.N - 1
		if mx > m.hw {
			m.hw = mx
		}
	case "truncate":
		if res.Err != nil || len(after) != 0 {
			return &finding{"truncate-outcome", "not-emptied", subject(), q + ": " + res.Summary() + " " + fmtRows(after), "empty table"}, outcome
		}
		m.hw = 0
		m.alterBelowMax = false
	}

	if !full {
		return nil, outcome
	}
	// LAST_INSERT_ID() of both sessions
	for k := 0; k < 2; k++ {
		got, err := y.lastInsertID(k)
		if err != nil {
			return &finding{"reported-id", "error", subject(), err.Error(), "a value"}, outcome
		}
		if !m.lidKnown[k] {
			continue
		}
		if got != m.lid[k] {
			which := "same-session"
			if k != o.Sess {
				which = "other-session"
			}
			kind := "stale-last-insert-id"
			if !(k == o.Sess && lidChanged) {
				kind = "last-insert-id-changed"
			}
			return &finding{"reported-id", kind, subject("session", which, "shape", shape), "after " + q + ": LAST_INSERT_ID() of session " + fmt.Sprint(k+1) + " = " + fmt.Sprint(got) + "; rows " + fmtRows(after), fmt.Sprint(m.lid[k]) + " (first value generated by that session's last successful insert that generated one)"}, outcome
		}
	}
	// the SQL-level scan agrees with the storage read used for the earlier steps
	for k := 0; k < 2; k++ {
		sq, err := y.rowsSQL(k)
		if err != nil || fmtRows(sq) != fmtRows(after) {
			return &finding{"harness", "scan-differs-from-storage", subject(), fmt.Sprintf("session %d: %v %s vs %s", k+1, err, fmtRows(sq), fmtRows(after)), "equal"}, outcome
		}
	}
	return nil, outcome
}

// Step runs history h on a fresh engine and judges its last step.
func (st *stepper) Step(h []int) (string, bool) {
	r := st.r
	y := newSystem()
	m := newModel()
	for i, oi := range h {
		o := st.ops[oi]
		last := i == len(h)-1
		f, outcome := st.apply(y, m, o, i, last)
		if !last {
			if f != nil {
				return "unreachable", false // prefixes with a finding are never expanded
			}
			continue
		}
		if f != nil {
			r.Violate(core.Violation{Check: "auto-increment", Clause: f.clause, Kind: f.kind, Subject: f.subject, Witness: st.wit(h), Observed: f.observed, Expected: f.expected})
			r.Outcome(o.Kind + ":violation")
			return "violation", false
		}
		r.Outcome(o.Kind + ":" + outcome)
		if strings.HasPrefix(o.Kind, "insert") && (outcome == "ok-generated" || strings.HasPrefix(outcome, "err")) && len(h) > 1 {
			r.NonTrivial(st.alphaName() + fmt.Sprint(h))
			if len(h) >= 4 && outcome == "ok-generated" && r.WantSample() {
				var w witness
				json.Unmarshal(st.wit(h), &w)
				r.Sample(map[string]any{"history": w.SQL[1:], "rows_after": fmtRows(y.rowsFast()), "high_water_mark": m.hw, "last_insert_id": m.lid})
			}
		}
	}
	// no merging is used (UnmergedDepth = MaxDepth); the key still identifies the state
	return fmt.Sprintf("%s hw=%d lid=%v/%v", fmtRows(y.rowsFast()), m.hw, m.lid, m.lidKnown), true
}

func explore(r *core.Run, thorough bool, depth int) {
	st := &stepper{r: r, thorough: thorough, ops: alphabet(thorough)}
	var names []string
	for _, o := range st.ops {
		q := o.sql(0)
		if o.Sess == 1 {
			q = "[session 2] " + q
		}
		names = append(names, o.Name+": "+q)
	}
	r.Info("alphabet", names)
	r.Info("alphabet_size", len(st.ops))
	r.Info("depth_bound", depth)
	hist.Explore(r, hist.Config{
		NOps: len(st.ops), MaxDepth: depth, UnmergedDepth: depth,
		Step:  st.Step,
		Label: func(i int) string { return st.ops[i].Name },
	})
}

func init() {
	core.Register(&core.Prop{
		ID:    "C20",
		Level: "model_checking",
		Rule: "every statement history (hist, no merging) on a fresh engine with table t(id INT PRIMARY KEY AUTO_INCREMENT, v) and two autocommit sessions, over the alphabet: " +
			"INSERT with an implicit id (NULL, 0, column omitted), explicit id 1 / 5 / -1 / 2147483647, multi-row mixes (NULL,7,NULL) and (3,NULL), a 3-row insert that always fails on its last row after generating a value, " +
			"DELETE of the row with the largest id, UPDATE id = id + 10 of that row, ALTER TABLE t AUTO_INCREMENT = 3 / = 20, TRUNCATE, INSERT IGNORE (1,NULL), session 2: INSERT NULL and INSERT (NULL),(NULL) (18 operations; thorough adds INSERT IGNORE (NULL,1) and UPDATE id = id + 1); " +
			"quick: all histories of length <= 4, thorough: length <= 5. Each row carries a tag unique in the history, so the id every row received is read back. " +
			"Oracle on the last statement of every history (model state carried through the prefix): each generated id is greater than the high-water mark = largest value generated or explicitly inserted since the counter was last reset " +
			"(TRUNCATE: 0; ALTER ... = n: max(n-1, largest id in the table)), gaps allowed; an insert whose explicit ids do not collide must succeed unless no value above the mark exists or it collides with an id put above the mark by UPDATE; " +
			"OkResult.InsertID = first generated id of the statement; LAST_INSERT_ID() of each session = first id generated by that session's last successful generating insert, unchanged by every other statement and by the other session (unchecked after a failed insert: undefined in MySQL); failed statements leave the table unchanged. " +
			"non-trivial = last step is an insert that generated a value or failed, after at least one earlier statement",
		Assumptions: []string{
			"UPDATE of the id column need not move the counter (MySQL < 8.0 behaviour is accepted as well as 8.0's)",
			"values consumed by a failed statement may or may not be skipped afterwards (gaps allowed, not required)",
			"OkResult.InsertID of an insert that generated no value is not constrained",
			"ALTER TABLE ... AUTO_INCREMENT = n with n above every id in the table may lower the counter (InnoDB does)",
			"both sessions run in autocommit mode, statements are not interleaved (C17 / sched properties cover concurrency)",
		},
		QuickBudget:    70,
		ThoroughBudget: 900,
		Run: func(r *core.Run) {
			debug.SetGCPercent(400)
			if r.Quick() {
				explore(r, false, 4)
			} else {
				explore(r, true, 5)
			}
		},
		Replay: func(r *core.Run, w json.RawMessage) {
			var wt witness
			if json.Unmarshal(w, &wt) != nil {
				return
			}
			st := &stepper{r: r, thorough: wt.Alphabet == "thorough", ops: alphabet(wt.Alphabet == "thorough")}
			for _, i := range wt.History {
				if i < 0 || i >= len(st.ops) {
					return
				}
			}
			st.Step(wt.History)
		},
	})
}
