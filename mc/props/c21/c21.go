// Package c21 — schema changes preserve existing data.
//
// BFS over ALTER TABLE histories on pre-filled tables (hist explorer). A reference model applies
// each statement's column map and a reference conversion; the engine must (a) succeed exactly
// when every stored value is representable under the new definition, (b) then hold exactly the
// converted rows, (c) otherwise fail and leave the full dump unchanged, (d) report the model's
// schema in SHOW CREATE TABLE, DESCRIBE and information_schema.columns, (e) answer index-driven
// reads like the model's full scan.
package c21

import (
	"encoding/json"
	"fmt"
	"runtime/debug"
	"sort"
	"strings"

	"verif/mc/core"
	"verif/mc/eng"
	"verif/mc/hist"
)

const (
	collBin = "utf8mb4_0900_bin"
	collCI  = "utf8mb4_0900_ai_ci"
	collGen = "utf8mb4_general_ci"
)

func vc(n int) colType            { return colType{K: kVarchar, Len: n} }
func vcc(n int, c string) colType { return colType{K: kVarchar, Len: n, Coll: c} }

var (
	tInt  = colType{K: kInt}
	tBig  = colType{K: kBig}
	tTiny = colType{K: kTiny}
)

// ---------------------------------------------------------------- pre-filled tables

type fixture struct {
	Name string
	DDL  string
	Ins  string
	T    *table
}

func i64(n int) value { return int64(n) }

func fixtures() []*fixture {
	mk := func(name, ddl string, t *table) *fixture {
		var rows []string
		for _, r := range t.Rows {
			rows = append(rows, fmtRow(r))
		}
		for i := range t.Cols {
			if t.Cols[i].T.K == kVarchar && t.Cols[i].T.Coll == "" {
				t.Cols[i].T.Coll = t.Coll
			}
		}
		return &fixture{Name: name, DDL: ddl, Ins: "INSERT INTO t VALUES " + strings.Join(rows, ", "), T: t}
	}
	idab := func(idNN bool) []column {
		return []column{{Name: "id", T: tInt, NotNull: idNN}, {Name: "a", T: tInt}, {Name: "b", T: vc(4)}}
	}
	return []*fixture{
		mk("pk+index/all-values-fit", "CREATE TABLE t (id INT PRIMARY KEY, a INT, b VARCHAR(4), KEY ia (a))",
			&table{Name: "t", Coll: collBin, Cols: idab(true), PK: []string{"id"}, Indexes: []index{{"ia", false, []string{"a"}}},
				Rows: [][]value{{i64(1), i64(1), "12"}, {i64(2), i64(-5), "7"}, {i64(3), i64(100), "-3"}}}),
		mk("pk+index/values-that-do-not-fit", "CREATE TABLE t (id INT PRIMARY KEY, a INT, b VARCHAR(4), KEY ia (a))",
			&table{Name: "t", Coll: collBin, Cols: idab(true), PK: []string{"id"}, Indexes: []index{{"ia", false, []string{"a"}}},
				Rows: [][]value{{i64(1), i64(1), "ab"}, {i64(2), i64(300), "abcd"}, {i64(3), i64(12345), "12"}, {i64(4), i64(-5), nil}, {i64(5), nil, "7"}}}),
		mk("keyless/duplicates", "CREATE TABLE t (id INT, a INT, b VARCHAR(4))",
			&table{Name: "t", Coll: collBin, Cols: idab(false),
				Rows: [][]value{{i64(1), i64(1), "a"}, {i64(2), i64(1), "A"}, {i64(3), i64(2), "b"}}}),
		mk("pk+unique/case-variants", "CREATE TABLE t (id INT PRIMARY KEY, a INT, b VARCHAR(4), UNIQUE KEY ub (b))",
			&table{Name: "t", Coll: collBin, Cols: idab(true), PK: []string{"id"}, Indexes: []index{{"ub", true, []string{"b"}}},
				Rows: [][]value{{i64(1), i64(1), "a"}, {i64(2), i64(2), "A"}, {i64(3), i64(3), "á"}, {i64(4), nil, nil}}}),
		mk("pk-on-second-column/defaults", "CREATE TABLE t (id INT NOT NULL DEFAULT 5, a INT PRIMARY KEY, b VARCHAR(4) DEFAULT 'd', KEY ib (b))",
			&table{Name: "t", Coll: collBin, Cols: []column{{Name: "id", T: tInt, NotNull: true, Default: i64(5)}, {Name: "a", T: tInt, NotNull: true}, {Name: "b", T: vc(4), Default: "d"}},
				PK: []string{"a"}, Indexes: []index{{"ib", false, []string{"b"}}},
				Rows: [][]value{{i64(1), i64(10), "x"}, {i64(2), i64(200), "d"}, {i64(3), i64(-1), nil}}}),
		mk("varchar-pk/case-variants", "CREATE TABLE t (id INT, a INT, b VARCHAR(4) PRIMARY KEY)",
			&table{Name: "t", Coll: collBin, Cols: []column{{Name: "id", T: tInt}, {Name: "a", T: tInt}, {Name: "b", T: vc(4), NotNull: true}}, PK: []string{"b"},
				Rows: [][]value{{i64(1), i64(1), "a"}, {i64(2), i64(2), "A"}, {i64(3), i64(3), "abc"}}}),
	}
}

// ---------------------------------------------------------------- the ALTER alphabet

func one(c clause) stmt { return stmt{[]clause{c}} }

func alphabet(thorough bool) []stmt {
	a := []stmt{
		one(clause{K: cAddColumn, Col: "n", T: tInt}),
		one(clause{K: cAddColumn, Col: "n", T: tInt, Default: i64(7), Pos: "FIRST"}),
		one(clause{K: cAddColumn, Col: "n", T: vc(4), Default: "x", Pos: "AFTER a"}),
		one(clause{K: cAddColumn, Col: "n", T: tInt, NotNull: true}),
		one(clause{K: cAddColumn, Col: "n", T: tInt, NotNull: true, Default: i64(3), Pos: "AFTER id"}),
		one(clause{K: cDropColumn, Col: "a"}),
		one(clause{K: cDropColumn, Col: "b"}),
		one(clause{K: cDropColumn, Col: "n"}),
		one(clause{K: cModify, Col: "a", T: tBig}),
		one(clause{K: cModify, Col: "a", T: tTiny}),
		one(clause{K: cModify, Col: "a", T: vc(4)}),
		one(clause{K: cModify, Col: "a", T: tInt}),
		one(clause{K: cModify, Col: "b", T: vc(2)}),
		one(clause{K: cModify, Col: "b", T: tInt}),
		one(clause{K: cModify, Col: "b", T: vc(4)}),
		one(clause{K: cModify, Col: "a", T: tInt, NotNull: true}),
		one(clause{K: cModify, Col: "b", T: vc(4), NotNull: true}),
		one(clause{K: cModify, Col: "a", T: tInt, Pos: "FIRST"}),
		one(clause{K: cModify, Col: "a", T: tTiny, Pos: "FIRST"}), // type change on the table-rewrite path
		one(clause{K: cModify, Col: "b", T: vc(4), Pos: "AFTER id"}),
		one(clause{K: cModify, Col: "b", T: vcc(4, collCI)}),
		one(clause{K: cRenameColumn, Col: "a", NewName: "x"}),
		one(clause{K: cRenameColumn, Col: "x", NewName: "a"}),
		one(clause{K: cModify, Col: "a", NewName: "x", T: tBig}),
		one(clause{K: cAddPK, Cols: []string{"id"}}),
		one(clause{K: cAddPK, Cols: []string{"a"}}),
		one(clause{K: cDropPK}),
		one(clause{K: cAddIndex, Index: "ia", Cols: []string{"a"}}),
		one(clause{K: cAddIndex, Index: "ib", Cols: []string{"b"}}),
		one(clause{K: cAddIndex, Index: "ua", Unique: true, Cols: []string{"a"}}),
		one(clause{K: cAddIndex, Index: "ub", Unique: true, Cols: []string{"b"}}),
		one(clause{K: cAddIndex, Index: "iab", Cols: []string{"a", "b"}}),
		one(clause{K: cDropIndex, Index: "ia"}),
		one(clause{K: cDropIndex, Index: "ub"}),
		one(clause{K: cRenameTable, NewName: "t2"}),
		one(clause{K: cRenameTable, NewName: "t"}),
		one(clause{K: cTableCollate, Coll: collGen}),
		one(clause{K: cConvertTo, Coll: collCI}),
		{[]clause{{K: cAddColumn, Col: "n", T: tInt, Default: i64(7)}, {K: cModify, Col: "a", T: tTiny}}},
		{[]clause{{K: cDropColumn, Col: "b"}, {K: cModify, Col: "a", T: tInt, NotNull: true}}},
		{[]clause{{K: cRenameColumn, Col: "a", NewName: "x"}, {K: cAddIndex, Index: "ux", Unique: true, Cols: []string{"x"}}}},
	}
	if thorough {
		a = append(a,
			one(clause{K: cAddColumn, Col: "n", T: vc(4)}),
			one(clause{K: cModify, Col: "a", T: tInt, Pos: "AFTER b"}),
			one(clause{K: cModify, Col: "b", T: vcc(4, collBin)}),
			one(clause{K: cRenameColumn, Col: "b", NewName: "y"}),
			one(clause{K: cAddPK, Cols: []string{"a", "b"}}),
			one(clause{K: cDropIndex, Index: "iab"}),
			one(clause{K: cModify, Col: "n", T: tBig, NotNull: true, Default: i64(5)}),
		)
	}
	return a
}

// ---------------------------------------------------------------- one exploration

type caseID struct {
	Fixture  string   `json:"fixture"`
	Thorough bool     `json:"thorough_alphabet"`
	Hist     []int    `json:"history"`
	SQL      []string `json:"statements"`
	Setup    []string `json:"setup"`
}

type stepper struct {
	r          *core.Run
	f          *fixture
	thor       bool
	ops        []stmt
	shardDepth int
	maxDepth   int
	// schema reports already compared for a model state (per worker): information_schema.columns costs
	// as much as the rest of a step, so it is compared once per distinct reached state and statement kind
	reported map[string]bool
	// sampleOnly: the history is run to write a sample into the evidence, not as part of the exploration
	sampleOnly bool
}

// counted: hist runs proper prefixes of the shard prefixes in every worker but counts them in one
// (the worker owning prefix+zeros); counters of this package follow the same rule.
func (sp *stepper) counted(h []int) bool {
	if len(h) >= sp.shardDepth || sp.shardDepth == 0 {
		return true
	}
	idx := int64(0)
	for i := 0; i < sp.shardDepth; i++ {
		idx *= int64(len(sp.ops))
		if i < len(h) {
			idx += int64(h[i])
		}
	}
	return sp.r.Mine(idx)
}

func (sp *stepper) witness(h []int, sqls []string) json.RawMessage {
	return core.J(caseID{Fixture: sp.f.Name, Thorough: sp.thor, Hist: h, SQL: sqls, Setup: []string{sp.f.DDL, sp.f.Ins}})
}

func engineDump(s *eng.Session) string { return s.Dump() }

func topFrame(stack string) string {
	for _, l := range strings.Split(stack, "\n") {
		if strings.HasPrefix(l, "github.com/dolthub/go-mysql-server/") && !strings.Contains(l, "verifshim") {
			if j := strings.LastIndex(l, "("); j > 0 {
				l = l[:j]
			}
			return l
		}
	}
	return "unknown"
}

func sqlLit(v value) string { return fmtValue(v) }

// Step replays h on a fresh engine next to the model and applies the oracle to the last statement.
func (sp *stepper) Step(h []int) (string, bool) {
	r := sp.r
	e := eng.New()
	s := e.NewSession("root")
	s.MustExec(sp.f.DDL)
	s.MustExec(sp.f.Ins)
	m := sp.f.T.clone()
	var sqls []string
	for i, oi := range h {
		st := sp.ops[oi]
		last := i == len(h)-1
		after, reason, change, enabled := st.run(m)
		if !enabled {
			return hist.Disabled, false
		}
		q := st.SQL(m.Name)
		sqls = append(sqls, q)
		if !last {
			if res := s.Exec(q); (res.Err == nil) != (reason == "") {
				return "", false // a prefix that already deviated is never expanded; defensive
			}
			m = after
			continue
		}
		counted := sp.counted(h) && !sp.sampleOnly
		outcomeOf := func(o string) {
			if counted {
				r.Outcome(o)
			}
		}
		nontrivial := func() {
			if counted {
				r.NonTrivial(sp.f.Name + fmt.Sprint(h))
			}
		}
		before := engineDump(s)
		res := s.Exec(q)
		cls := eng.ErrClass(res.Err)
		subj := map[string]string{"statement": st.kindName(), "change": change}
		w := sp.witness(h, sqls)
		outcome := st.kindName() + " -> "
		switch {
		case res.Panic != nil:
			outcomeOf(outcome + "panic")
			subj["frame"] = topFrame(res.Stack)
			r.Violate(core.Violation{Check: "step", Clause: "no-panic", Kind: "panic", Subject: subj, Witness: w, Observed: fmt.Sprint(res.Panic), Expected: expectText(reason)})
			return "", false
		case res.Err != nil && cls == "unsupported":
			r.Count("skipped_unsupported:"+st.kindName(), 1)
			return hist.Disabled, false
		case res.Err != nil && reason == "":
			outcomeOf(outcome + "rejected:" + cls)
			r.Violate(core.Violation{Check: "step", Clause: "representable-change-succeeds", Kind: "rejected:" + cls, Subject: subj, Witness: w, Observed: res.Err.Error(), Expected: "success; table afterwards:\n" + after.String()})
			return "", false
		case res.Err == nil && reason != "":
			outcomeOf(outcome + "accepted-unrepresentable:" + reason)
			subj["reason"] = reason
			r.Violate(core.Violation{Check: "step", Clause: "unrepresentable-change-fails", Kind: "accepted", Subject: subj, Witness: w, Observed: "statement succeeded; dump afterwards:\n" + engineDump(s), Expected: expectText(reason)})
			return "", false
		case res.Err != nil:
			// expected failure: nothing may have changed
			outcomeOf(outcome + "fails:" + reason + " [" + cls + "]")
			nontrivial()
			if now := engineDump(s); now != before {
				subj["reason"] = reason
				r.Violate(core.Violation{Check: "step", Clause: "failed-statement-has-no-effect", Kind: "partial-effect", Subject: subj, Witness: w, Observed: "error: " + res.Err.Error() + "\ndump afterwards:\n" + now, Expected: "dump unchanged:\n" + before})
				return "", false
			}
		default:
			outcomeOf(outcome + "ok")
			if len(after.Rows) > 0 && rewrites(st) {
				nontrivial()
			}
		}
		m = after
		if !sp.checkState(s, m, st, change, w, counted) {
			return "", false
		}
		if sp.sampleOnly {
			r.Sample(map[string]any{"fixture": sp.f.Name, "setup": []string{sp.f.DDL, sp.f.Ins}, "statements": sqls, "model_verdict_on_last": expectText(reason), "engine_error_class": cls, "model_table_after": strings.Split(strings.TrimSpace(m.String()), "\n")})
		}
	}
	return m.String(), true
}

// rewrites: the statement re-maps, converts or re-validates the stored rows
func rewrites(st stmt) bool {
	for _, c := range st.Clauses {
		switch c.K {
		case cAddColumn, cDropColumn, cModify, cAddPK, cDropPK, cConvertTo:
			return true
		case cAddIndex:
			if c.Unique {
				return true
			}
		}
	}
	return false
}

func expectText(reason string) string {
	if reason == "" {
		return "success"
	}
	return "failure without effect (" + reason + ")"
}

// checkState compares everything observable of the engine's table with the model.
func (sp *stepper) checkState(s *eng.Session, m *table, st stmt, change string, w json.RawMessage, counted bool) bool {
	r := sp.r
	subj := func(extra ...string) map[string]string {
		x := map[string]string{"statement": st.kindName(), "change": change}
		for i := 0; i+1 < len(extra); i += 2 {
			x[extra[i]] = extra[i+1]
		}
		return x
	}
	// the table exists under the model's name only
	tabs := s.Tables("mydb")
	if len(tabs) != 1 || tabs[0] != m.Name {
		r.Violate(core.Violation{Check: "state", Clause: "table-name", Kind: "wrong-table-list", Subject: subj(), Witness: w, Observed: fmt.Sprint(tabs), Expected: m.Name})
		return false
	}
	// contents
	res := s.Exec("SELECT * FROM `" + m.Name + "`")
	if res.Err != nil {
		kind := "error:" + eng.ErrClass(res.Err)
		sj := subj()
		if res.Panic != nil {
			kind = "panic"
			sj["frame"] = topFrame(res.Stack)
		}
		r.Violate(core.Violation{Check: "state", Clause: "table-readable", Kind: kind, Subject: sj, Witness: w, Observed: res.Err.Error(), Expected: strings.Join(m.rowStrings(), " ")})
		return false
	}
	var names []string
	for _, c := range res.Schema {
		names = append(names, c.Name)
	}
	var mnames []string
	for _, c := range m.Cols {
		mnames = append(mnames, c.Name)
	}
	if fmt.Sprint(names) != fmt.Sprint(mnames) {
		r.Violate(core.Violation{Check: "state", Clause: "column-map", Kind: "wrong-columns", Subject: subj(), Witness: w, Observed: fmt.Sprint(names), Expected: fmt.Sprint(mnames)})
		return false
	}
	if got, want := res.Multiset(), m.rowStrings(); !eng.EqualStrings(got, want) {
		r.Violate(core.Violation{Check: "state", Clause: "rows-kept-and-converted", Kind: "wrong-rows", Subject: subj(), Witness: w, Observed: strings.Join(got, " "), Expected: strings.Join(want, " ")})
		return false
	}
	// schema reports
	want := modelView(m)
	sc := s.Exec("SHOW CREATE TABLE `" + m.Name + "`")
	if sc.Err != nil || len(sc.Rows) != 1 {
		r.Violate(core.Violation{Check: "schema", Clause: "report-available", Kind: "error", Subject: subj("report", "show-create-table"), Witness: w, Observed: fmt.Sprint(sc.Err)})
		return false
	}
	text := fmt.Sprint(sc.Rows[0][1])
	scv, scName, err := parseShowCreate(text)
	if err != nil {
		panic("c21: " + err.Error())
	}
	if scName != m.Name {
		r.Violate(core.Violation{Check: "schema", Clause: "report-agrees-with-model", Kind: "mismatch", Subject: subj("report", "show-create-table", "field", "table-name"), Witness: w, Observed: scName, Expected: m.Name})
		return false
	}
	if f, txt := diffViews(m, want, scv, false); f != "" {
		r.Violate(core.Violation{Check: "schema", Clause: "report-agrees-with-model", Kind: "mismatch", Subject: subj("report", "show-create-table", "field", f), Witness: w, Observed: txt + "\n" + text, Expected: m.String()})
		return false
	}
	dv, err := describeView(s, m.Name, scv.Coll)
	if err != nil {
		r.Violate(core.Violation{Check: "schema", Clause: "report-available", Kind: "error", Subject: subj("report", "describe"), Witness: w, Observed: err.Error()})
		return false
	}
	if f, txt := diffViews(m, want, dv, true); f != "" {
		r.Violate(core.Violation{Check: "schema", Clause: "report-agrees-with-model", Kind: "mismatch", Subject: subj("report", "describe", "field", f), Witness: w, Observed: txt, Expected: m.String()})
		return false
	}
	memo := st.kindName() + "\n" + m.String()
	if sp.reported[memo] {
		if counted {
			r.Count("schema_report_comparisons", 2)
			r.Count("information_schema_comparisons_skipped_state_seen", 1)
		}
		return sp.checkIndexReads(s, m, st, change, w, counted)
	}
	sp.reported[memo] = true
	iv, err := infoSchemaView(s, m.Name)
	if err != nil {
		r.Violate(core.Violation{Check: "schema", Clause: "report-available", Kind: "error", Subject: subj("report", "information_schema.columns"), Witness: w, Observed: err.Error()})
		return false
	}
	if f, txt := diffViews(m, want, iv, true); f != "" {
		r.Violate(core.Violation{Check: "schema", Clause: "report-agrees-with-model", Kind: "mismatch", Subject: subj("report", "information_schema.columns", "field", f), Witness: w, Observed: txt, Expected: m.String()})
		return false
	}
	if counted {
		r.Count("schema_report_comparisons", 3)
	}
	// index-driven reads: every column that leads the primary key or an index, every stored value
	return sp.checkIndexReads(s, m, st, change, w, counted)
}

func (sp *stepper) checkIndexReads(s *eng.Session, m *table, st stmt, change string, w json.RawMessage, counted bool) bool {
	r := sp.r
	lead := map[string]string{}
	if len(m.PK) > 0 {
		lead[m.PK[0]] = "primary-key"
	}
	for _, ix := range m.Indexes {
		if _, ok := lead[ix.Cols[0]]; !ok {
			lead[ix.Cols[0]] = "secondary-index"
		}
	}
	var cols []string
	for c := range lead {
		cols = append(cols, c)
	}
	sort.Strings(cols)
	for _, cn := range cols {
		ci := m.colIdx(cn)
		col := m.Cols[ci]
		// distinct stored values plus one absent value
		seen := map[string]bool{}
		var probes []value
		for _, row := range m.Rows {
			if row[ci] == nil || seen[fmtValue(row[ci])] {
				continue
			}
			seen[fmtValue(row[ci])] = true
			probes = append(probes, row[ci])
		}
		if col.T.isInt() {
			probes = append(probes, int64(77))
		} else {
			probes = append(probes, "zz")
		}
		for pi, p := range probes {
			ops := []string{"="}
			if col.T.isInt() && pi == 0 {
				ops = append(ops, ">=", "<")
			}
			for _, op := range ops {
				q := fmt.Sprintf("SELECT * FROM `%s` WHERE `%s` %s %s", m.Name, cn, op, sqlLit(p))
				var want []string
				for _, row := range m.Rows {
					if matchRow(row[ci], p, op, col.T.Coll) {
						want = append(want, fmtRow(row))
					}
				}
				sort.Strings(want)
				res := s.Exec(q)
				if counted {
					r.Count("index_read_comparisons", 1)
				}
				subj := map[string]string{"statement": st.kindName(), "change": change, "access": lead[cn], "predicate": op}
				if res.Err != nil {
					kind := "error:" + eng.ErrClass(res.Err)
					if res.Panic != nil {
						kind = "panic"
						subj["frame"] = topFrame(res.Stack)
					}
					r.Violate(core.Violation{Check: "index-read", Clause: "index-read-agrees-with-full-scan", Kind: kind, Subject: subj, Witness: w, Observed: q + ": " + res.Err.Error(), Expected: strings.Join(want, " ")})
					return false
				}
				if got := res.Multiset(); !eng.EqualStrings(got, want) {
					plan, _ := s.Plan(q)
					subj["plan"] = "table-scan"
					if strings.Contains(plan, "IndexedTableAccess") {
						subj["plan"] = "indexed-access"
					}
					r.Violate(core.Violation{Check: "index-read", Clause: "index-read-agrees-with-full-scan", Kind: "wrong-rows", Subject: subj, Witness: w, Observed: q + " -> " + strings.Join(got, " "), Expected: strings.Join(want, " ") + "  (rows of the model's full scan)"})
					return false
				}
			}
		}
	}
	return true
}

func matchRow(v, p value, op, coll string) bool {
	if v == nil {
		return false
	}
	switch x := v.(type) {
	case int64:
		y := p.(int64)
		switch op {
		case "=":
			return x == y
		case ">=":
			return x >= y
		case "<":
			return x < y
		}
	case string:
		return collKey(x, coll) == collKey(p.(string), coll)
	}
	return false
}

// ---------------------------------------------------------------- registration

func run(r *core.Run) {
	debug.SetGCPercent(400)
	thor := r.Thorough()
	depth := 2
	if thor {
		depth = 3
	}
	ops := alphabet(thor)
	r.Info("alphabet_statements", len(ops))
	r.Info("fixtures", len(fixtures()))
	r.Info("depth", depth)
	if r.Mine(0) {
		writeSamples(r, ops, thor)
	}
	for _, f := range fixtures() {
		if r.Expired() {
			r.Capped("time budget reached before fixture " + f.Name)
			return
		}
		shard := 1
		if depth > 2 {
			shard = 2
		}
		sp := &stepper{r: r, f: f, thor: thor, ops: ops, shardDepth: shard, maxDepth: depth, reported: map[string]bool{}}
		hist.Explore(r, hist.Config{NOps: len(ops), MaxDepth: depth, UnmergedDepth: depth, ShardDepth: shard, Step: sp.Step,
			Label: func(o int) string { return ops[o].SQL("t") }})
		r.Count("explorations", 1)
	}
}

// writeSamples runs four fixed histories (two expected failures, two conversions) only to write
// them out into the evidence; they are part of the explored space and are judged there.
func writeSamples(r *core.Run, ops []stmt, thor bool) {
	find := func(sql string) int {
		for i, o := range ops {
			if o.SQL("t") == sql {
				return i
			}
		}
		panic("c21: sample statement not in the alphabet: " + sql)
	}
	fx := fixtures()
	cases := []struct {
		f *fixture
		h []string
	}{
		{fx[1], []string{"ALTER TABLE t MODIFY COLUMN a BIGINT", "ALTER TABLE t MODIFY COLUMN a TINYINT"}},
		{fx[1], []string{"ALTER TABLE t ADD COLUMN n INT DEFAULT 7 FIRST", "ALTER TABLE t MODIFY COLUMN b VARCHAR(4) NOT NULL"}},
		{fx[0], []string{"ALTER TABLE t MODIFY COLUMN a VARCHAR(4)", "ALTER TABLE t MODIFY COLUMN b INT"}},
		{fx[2], []string{"ALTER TABLE t RENAME COLUMN a TO x", "ALTER TABLE t ADD PRIMARY KEY (id)"}},
	}
	for _, c := range cases {
		var h []int
		for _, q := range c.h {
			h = append(h, find(q))
		}
		sp := &stepper{r: r, f: c.f, thor: thor, ops: ops, maxDepth: len(h), reported: map[string]bool{}, sampleOnly: true}
		sp.Step(h)
	}
}

func replay(r *core.Run, w json.RawMessage) {
	var c caseID
	if json.Unmarshal(w, &c) != nil {
		return
	}
	for _, f := range fixtures() {
		if f.Name != c.Fixture {
			continue
		}
		sp := &stepper{r: r, f: f, thor: c.Thorough, ops: alphabet(c.Thorough), maxDepth: len(c.Hist), reported: map[string]bool{}}
		for _, oi := range c.Hist {
			if oi < 0 || oi >= len(sp.ops) {
				return
			}
		}
		for i := 1; i <= len(c.Hist); i++ {
			if _, cont := sp.Step(c.Hist[:i]); !cont {
				break
			}
		}
	}
}

func init() {
	core.Register(&core.Prop{
		ID:    "C21",
		Level: "model_checking",
		Rule: "for each of 6 pre-filled tables (PK+index with values that all fit / with values that do not fit the target types and NULLs; keyless with duplicates; PK+unique index over case variants; PK on the second column with column defaults; VARCHAR primary key with case variants): " +
			"BFS over ALL histories of ALTER TABLE statements up to the depth bound (quick 2, thorough 3, nothing merged) over an alphabet of 41 (thorough 48) statements: ADD COLUMN (plain / DEFAULT / NOT NULL / FIRST / AFTER), DROP COLUMN, " +
			"MODIFY INT->BIGINT / INT->TINYINT / INT->VARCHAR(4) / VARCHAR->INT / VARCHAR(4)->VARCHAR(2) / NULL->NOT NULL / FIRST / AFTER / COLLATE, RENAME COLUMN, CHANGE (rename + type), ADD/DROP PRIMARY KEY, ADD [UNIQUE] INDEX (1 and 2 columns), DROP INDEX, RENAME TO, table COLLATE, CONVERT TO CHARACTER SET, " +
			"and three two-clause statements whose second clause can fail; statements that do not apply to the current schema (unknown column/index, name taken, second primary key) are disabled. Every history runs on a fresh engine next to a reference model (column map + strict reference conversion + key re-validation). " +
			"Oracle on the last statement: it succeeds iff every stored value is representable under the new definition (range, length, integer syntax, NULL in NOT NULL / primary key, duplicates under the key's collation); on failure the full dump (SHOW CREATE TABLE + rows) is byte-identical to the dump before; " +
			"on success the rows equal the model's converted rows, SHOW CREATE TABLE, DESCRIBE and information_schema.columns (the latter once per distinct statement kind and reached state per worker - it costs as much as the rest of a step) report the model's columns (order, type, collation, nullability, default, key flag), primary key, indexes and table collation, and for every column leading the primary key or an index `col = v` for every stored and one absent value (plus >= and < for integers) returns the rows of the model's full scan. " +
			"non-trivial = the last statement is expected to fail on the stored data, or it succeeds and rewrites / re-maps the rows of a non-empty table",
		Assumptions: []string{
			"MySQL 8 semantics in strict SQL mode: an ALTER whose data is not representable fails as a whole (also multi-clause statements); MODIFY / CHANGE redefine the column completely (nullability and default are taken from the new definition, primary-key columns stay NOT NULL)",
			"dropping a column removes it from the primary key and from indexes (an index without columns disappears); ADD PRIMARY KEY makes its columns NOT NULL; a column defined without COLLATE takes the table's default collation at that moment; ALTER TABLE ... COLLATE changes only the default",
			"which error is raised is not specified: only success/failure is compared (error classes are recorded as outcomes); DESCRIBE may print UNI or PRI for a NOT NULL unique column of a table without primary key",
			"single session; one table; types INT/BIGINT/TINYINT/VARCHAR with collations utf8mb4_0900_bin, utf8mb4_0900_ai_ci, utf8mb4_general_ci",
		},
		Run:    run,
		Replay: replay,
	})
}
