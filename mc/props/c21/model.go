package c21

import (
	"fmt"
	"regexp"
	"sort"
	"strconv"
	"strings"
	"unicode/utf8"
)

// ---------------------------------------------------------------- reference model of a table

type kind int

const (
	kTiny kind = iota
	kInt
	kBig
	kVarchar
)

type colType struct {
	K    kind
	Len  int    // varchar length
	Coll string // varchar collation ("" = take the table default when the column is defined)
}

func (t colType) isInt() bool { return t.K != kVarchar }

// sqlType is the type as the engine prints it in column_type / DESCRIBE (without collation).
func (t colType) sqlType() string {
	switch t.K {
	case kTiny:
		return "tinyint"
	case kInt:
		return "int"
	case kBig:
		return "bigint"
	}
	return fmt.Sprintf("varchar(%d)", t.Len)
}

func (t colType) class() string {
	if t.K == kVarchar {
		return fmt.Sprintf("varchar(%d)", t.Len)
	}
	return t.sqlType()
}

// value: nil (NULL) | int64 | string
type value any

type column struct {
	Name    string
	T       colType
	NotNull bool
	Default value // nil = no default (or DEFAULT NULL)
}

type index struct {
	Name   string
	Unique bool
	Cols   []string
}

type table struct {
	Name    string
	Coll    string // table default collation
	Cols    []column
	PK      []string
	Indexes []index
	Rows    [][]value
}

func (t *table) clone() *table {
	n := &table{Name: t.Name, Coll: t.Coll}
	n.Cols = append([]column{}, t.Cols...)
	n.PK = append([]string{}, t.PK...)
	for _, ix := range t.Indexes {
		n.Indexes = append(n.Indexes, index{ix.Name, ix.Unique, append([]string{}, ix.Cols...)})
	}
	for _, r := range t.Rows {
		n.Rows = append(n.Rows, append([]value{}, r...))
	}
	return n
}

func (t *table) colIdx(name string) int {
	for i, c := range t.Cols {
		if strings.EqualFold(c.Name, name) {
			return i
		}
	}
	return -1
}

func (t *table) idxIdx(name string) int {
	for i, ix := range t.Indexes {
		if strings.EqualFold(ix.Name, name) {
			return i
		}
	}
	return -1
}

func (t *table) inPK(name string) bool {
	for _, p := range t.PK {
		if p == name {
			return true
		}
	}
	return false
}

func fmtValue(v value) string {
	switch x := v.(type) {
	case nil:
		return "NULL"
	case int64:
		return strconv.FormatInt(x, 10)
	case string:
		return "'" + x + "'"
	}
	return fmt.Sprint(v)
}

func fmtRow(r []value) string {
	p := make([]string, len(r))
	for i, v := range r {
		p[i] = fmtValue(v)
	}
	return "(" + strings.Join(p, ",") + ")"
}

func (t *table) rowStrings() []string {
	out := make([]string, len(t.Rows))
	for i, r := range t.Rows {
		out[i] = fmtRow(r)
	}
	sort.Strings(out)
	return out
}

// String is the canonical state (everything the oracle observes).
func (t *table) String() string {
	var sb strings.Builder
	fmt.Fprintf(&sb, "%s collate=%s\n", t.Name, t.Coll)
	for _, c := range t.Cols {
		fmt.Fprintf(&sb, " %s %s %s notnull=%v default=%s\n", c.Name, c.T.sqlType(), c.T.Coll, c.NotNull, fmtValue(c.Default))
	}
	fmt.Fprintf(&sb, " pk=%v\n", t.PK)
	ixs := append([]index{}, t.Indexes...)
	sort.Slice(ixs, func(i, j int) bool { return ixs[i].Name < ixs[j].Name })
	for _, ix := range ixs {
		fmt.Fprintf(&sb, " index %s unique=%v %v\n", ix.Name, ix.Unique, ix.Cols)
	}
	for _, r := range t.rowStrings() {
		sb.WriteString(" " + r + "\n")
	}
	return sb.String()
}

// ---------------------------------------------------------------- reference conversion

var intRe = regexp.MustCompile(`^[+-]?[0-9]+$`)

func intRange(k kind) (int64, int64) {
	switch k {
	case kTiny:
		return -128, 127
	case kInt:
		return -2147483648, 2147483647
	}
	return -9223372036854775808, 9223372036854775807
}

// convert is the reference conversion of a stored value to a new column type under strict SQL
// mode: the converted value, or the reason why the value is not representable.
func convert(v value, to colType) (value, string) {
	switch x := v.(type) {
	case nil:
		return nil, ""
	case int64:
		if to.isInt() {
			lo, hi := intRange(to.K)
			if x < lo || x > hi {
				return nil, "out-of-range"
			}
			return x, ""
		}
		s := strconv.FormatInt(x, 10)
		if len(s) > to.Len {
			return nil, "too-long"
		}
		return s, ""
	case string:
		if !to.isInt() {
			if utf8.RuneCountInString(x) > to.Len {
				return nil, "too-long"
			}
			return x, ""
		}
		if !intRe.MatchString(x) {
			return nil, "not-an-integer"
		}
		n, err := strconv.ParseInt(x, 10, 64)
		if err != nil {
			return nil, "out-of-range"
		}
		lo, hi := intRange(to.K)
		if n < lo || n > hi {
			return nil, "out-of-range"
		}
		return n, ""
	}
	panic("c21: bad value")
}

// collation-aware equality key of a string (only the collations and letters of the alphabet)
func collKey(s, coll string) string {
	switch {
	case strings.HasSuffix(coll, "_ai_ci") || coll == "utf8mb4_general_ci" || coll == "utf8mb4_unicode_ci":
		return strings.ToLower(strings.NewReplacer("á", "a", "Á", "a").Replace(s))
	}
	return s
}

func (t *table) keyOf(row []value, cols []string) (string, bool) {
	var sb strings.Builder
	for _, cn := range cols {
		i := t.colIdx(cn)
		v := row[i]
		switch x := v.(type) {
		case nil:
			return "", false
		case int64:
			fmt.Fprintf(&sb, "i%d|", x)
		case string:
			fmt.Fprintf(&sb, "s%s|", collKey(x, t.Cols[i].T.Coll))
		}
	}
	return sb.String(), true
}

// uniqueViolation reports whether the rows violate uniqueness over cols (rows with a NULL in a key
// column never collide): "" (no), "duplicate-key" (two rows with identical key values) or
// "duplicate-key-under-collation" (the key values differ as bytes but are equal under the
// collation of a string column).
func (t *table) uniqueViolation(cols []string) string {
	seen := map[string]bool{}
	exact := map[string]bool{}
	out := ""
	for _, r := range t.Rows {
		k, ok := t.keyOf(r, cols)
		if !ok {
			continue
		}
		var raw []string
		for _, cn := range cols {
			raw = append(raw, fmtValue(r[t.colIdx(cn)]))
		}
		e := strings.Join(raw, "|")
		if exact[e] {
			return "duplicate-key"
		}
		if seen[k] {
			out = "duplicate-key-under-collation"
		}
		seen[k] = true
		exact[e] = true
	}
	return out
}

func (t *table) hasNull(col string) bool {
	i := t.colIdx(col)
	for _, r := range t.Rows {
		if r[i] == nil {
			return true
		}
	}
	return false
}

// checkKeys re-validates the primary key and all unique indexes (after a type / collation change).
func (t *table) checkKeys() string {
	if len(t.PK) > 0 {
		if why := t.uniqueViolation(t.PK); why != "" {
			return why
		}
	}
	for _, ix := range t.Indexes {
		if ix.Unique {
			if why := t.uniqueViolation(ix.Cols); why != "" {
				return why
			}
		}
	}
	return ""
}

// ---------------------------------------------------------------- ALTER clauses

type clauseKind int

const (
	cAddColumn clauseKind = iota
	cDropColumn
	cModify // also CHANGE (rename + redefinition)
	cRenameColumn
	cAddPK
	cDropPK
	cAddIndex
	cDropIndex
	cRenameTable
	cTableCollate
	cConvertTo
)

var clauseName = map[clauseKind]string{cAddColumn: "add-column", cDropColumn: "drop-column", cModify: "modify-column", cRenameColumn: "rename-column", cAddPK: "add-primary-key",
	cDropPK: "drop-primary-key", cAddIndex: "add-index", cDropIndex: "drop-index", cRenameTable: "rename-table", cTableCollate: "table-collation", cConvertTo: "convert-to-charset"}

type clause struct {
	K       clauseKind
	Col     string // target column (add: new column name; modify/drop/rename: existing)
	NewName string // rename column / CHANGE / rename table
	T       colType
	NotNull bool
	Default value
	Pos     string // "", "FIRST", "AFTER <col>"
	Cols    []string
	Index   string
	Unique  bool
	Coll    string
}

func (c clause) after() string { return strings.TrimPrefix(c.Pos, "AFTER ") }

func typeSQL(t colType) string {
	s := strings.ToUpper(t.sqlType())
	if t.K == kVarchar && t.Coll != "" {
		s += " COLLATE " + t.Coll
	}
	return s
}

func (c clause) colDef() string {
	s := typeSQL(c.T)
	if c.NotNull {
		s += " NOT NULL"
	}
	if c.Default != nil {
		s += " DEFAULT " + fmtValue(c.Default)
	}
	if c.Pos != "" {
		s += " " + c.Pos
	}
	return s
}

func (c clause) SQL() string {
	switch c.K {
	case cAddColumn:
		return "ADD COLUMN " + c.Col + " " + c.colDef()
	case cDropColumn:
		return "DROP COLUMN " + c.Col
	case cModify:
		if c.NewName != "" {
			return "CHANGE COLUMN " + c.Col + " " + c.NewName + " " + c.colDef()
		}
		return "MODIFY COLUMN " + c.Col + " " + c.colDef()
	case cRenameColumn:
		return "RENAME COLUMN " + c.Col + " TO " + c.NewName
	case cAddPK:
		return "ADD PRIMARY KEY (" + strings.Join(c.Cols, ", ") + ")"
	case cDropPK:
		return "DROP PRIMARY KEY"
	case cAddIndex:
		u := ""
		if c.Unique {
			u = "UNIQUE "
		}
		return "ADD " + u + "INDEX " + c.Index + " (" + strings.Join(c.Cols, ", ") + ")"
	case cDropIndex:
		return "DROP INDEX " + c.Index
	case cRenameTable:
		return "RENAME TO " + c.NewName
	case cTableCollate:
		return "COLLATE " + c.Coll
	case cConvertTo:
		return "CONVERT TO CHARACTER SET utf8mb4 COLLATE " + c.Coll
	}
	panic("bad clause")
}

// change is the classifying description of a clause on the current table (signature coordinate).
func (c clause) change(t *table) string {
	switch c.K {
	case cAddColumn:
		s := c.T.class()
		if c.NotNull {
			s += " not-null"
		}
		if c.Default != nil {
			s += " default"
		}
		if c.Pos != "" {
			s += " " + strings.ToLower(strings.Fields(c.Pos)[0])
		}
		return s
	case cModify:
		i := t.colIdx(c.Col)
		if i < 0 {
			return "?"
		}
		old := t.Cols[i]
		var parts []string
		if old.T.class() != c.T.class() {
			parts = append(parts, old.T.class()+"->"+c.T.class())
		}
		if old.T.K == kVarchar && c.T.K == kVarchar {
			nc := c.T.Coll
			if nc == "" {
				nc = t.Coll
			}
			if nc != old.T.Coll {
				parts = append(parts, "collation")
			}
		}
		if !old.NotNull && c.NotNull {
			parts = append(parts, "null->not-null")
		}
		if c.Pos != "" {
			parts = append(parts, "reorder")
		}
		if c.NewName != "" {
			parts = append(parts, "rename")
		}
		if len(parts) == 0 {
			return "same-definition"
		}
		return strings.Join(parts, "+")
	case cAddIndex:
		if c.Unique {
			return fmt.Sprintf("unique/%dcol", len(c.Cols))
		}
		return fmt.Sprintf("non-unique/%dcol", len(c.Cols))
	case cAddPK:
		return fmt.Sprintf("%dcol", len(c.Cols))
	case cDropColumn:
		var f []string
		if t.inPK(c.Col) {
			f = append(f, "pk-column")
		}
		uniq, plain := false, false
		for _, ix := range t.Indexes {
			for _, ic := range ix.Cols {
				if ic == c.Col {
					uniq = uniq || ix.Unique
					plain = plain || !ix.Unique
				}
			}
		}
		if uniq {
			f = append(f, "unique-indexed")
		}
		if plain {
			f = append(f, "indexed")
		}
		if len(f) == 0 {
			return "plain"
		}
		return strings.Join(f, "+")
	}
	return "-"
}

const disabled = "\x00disabled"

// apply runs one clause on the model. It returns disabled for a clause that does not apply to the
// current schema (unknown column / index, name already taken, no / second primary key), a failure
// reason when the stored data is not representable under the new definition, or "".
func (t *table) apply(c clause) string {
	switch c.K {
	case cAddColumn:
		if t.colIdx(c.Col) >= 0 {
			return disabled
		}
		pos := len(t.Cols)
		switch {
		case c.Pos == "FIRST":
			pos = 0
		case c.Pos != "":
			i := t.colIdx(c.after())
			if i < 0 {
				return disabled
			}
			pos = i + 1
		}
		nc := column{Name: c.Col, T: c.T, NotNull: c.NotNull, Default: c.Default}
		if nc.T.K == kVarchar && nc.T.Coll == "" {
			nc.T.Coll = t.Coll
		}
		fill := c.Default
		if fill == nil && c.NotNull {
			// implicit default of a NOT NULL column without DEFAULT
			if nc.T.isInt() {
				fill = int64(0)
			} else {
				fill = ""
			}
		}
		t.Cols = append(t.Cols[:pos], append([]column{nc}, t.Cols[pos:]...)...)
		for i, r := range t.Rows {
			nr := append([]value{}, r[:pos]...)
			nr = append(nr, fill)
			nr = append(nr, r[pos:]...)
			t.Rows[i] = nr
		}
		return ""
	case cDropColumn:
		i := t.colIdx(c.Col)
		if i < 0 || len(t.Cols) == 1 {
			return disabled
		}
		name := t.Cols[i].Name
		t.Cols = append(t.Cols[:i], t.Cols[i+1:]...)
		for ri, r := range t.Rows {
			t.Rows[ri] = append(append([]value{}, r[:i]...), r[i+1:]...)
		}
		drop := func(cols []string) []string {
			var out []string
			for _, x := range cols {
				if x != name {
					out = append(out, x)
				}
			}
			return out
		}
		t.PK = drop(t.PK)
		var ixs []index
		for _, ix := range t.Indexes {
			ix.Cols = drop(ix.Cols)
			if len(ix.Cols) > 0 {
				ixs = append(ixs, ix)
			}
		}
		t.Indexes = ixs
		return t.checkKeys()
	case cModify:
		i := t.colIdx(c.Col)
		if i < 0 {
			return disabled
		}
		if c.NewName != "" && t.colIdx(c.NewName) >= 0 {
			return disabled
		}
		old := t.Cols[i]
		nc := column{Name: old.Name, T: c.T, NotNull: c.NotNull || t.inPK(old.Name), Default: c.Default}
		if nc.T.K == kVarchar && nc.T.Coll == "" {
			nc.T.Coll = t.Coll
		}
		pos := i
		switch {
		case c.Pos == "FIRST":
			pos = 0
		case c.Pos != "":
			if strings.EqualFold(c.after(), old.Name) {
				return disabled
			}
			j := t.colIdx(c.after())
			if j < 0 {
				return disabled
			}
			if j < i {
				pos = j + 1
			} else {
				pos = j
			}
		}
		for ri, r := range t.Rows {
			v, why := convert(r[i], nc.T)
			if why != "" {
				return why
			}
			if v == nil && nc.NotNull {
				return "null-in-not-null"
			}
			nr := append(append([]value{}, r[:i]...), r[i+1:]...)
			nr = append(nr[:pos], append([]value{v}, nr[pos:]...)...)
			t.Rows[ri] = nr
		}
		cols := append(append([]column{}, t.Cols[:i]...), t.Cols[i+1:]...)
		cols = append(cols[:pos], append([]column{nc}, cols[pos:]...)...)
		t.Cols = cols
		if c.NewName != "" {
			t.renameCol(old.Name, c.NewName)
		}
		return t.checkKeys()
	case cRenameColumn:
		if t.colIdx(c.Col) < 0 || t.colIdx(c.NewName) >= 0 {
			return disabled
		}
		t.renameCol(t.Cols[t.colIdx(c.Col)].Name, c.NewName)
		return ""
	case cAddPK:
		if len(t.PK) > 0 {
			return disabled
		}
		for _, cn := range c.Cols {
			if t.colIdx(cn) < 0 {
				return disabled
			}
		}
		for _, cn := range c.Cols {
			if t.hasNull(cn) {
				return "null-in-primary-key"
			}
		}
		if why := t.uniqueViolation(c.Cols); why != "" {
			return why
		}
		for _, cn := range c.Cols {
			t.Cols[t.colIdx(cn)].NotNull = true
			t.PK = append(t.PK, t.Cols[t.colIdx(cn)].Name)
		}
		return ""
	case cDropPK:
		if len(t.PK) == 0 {
			return disabled
		}
		t.PK = nil
		return ""
	case cAddIndex:
		if t.idxIdx(c.Index) >= 0 {
			return disabled
		}
		var cols []string
		for _, cn := range c.Cols {
			i := t.colIdx(cn)
			if i < 0 {
				return disabled
			}
			cols = append(cols, t.Cols[i].Name)
		}
		if c.Unique {
			if why := t.uniqueViolation(cols); why != "" {
				return why
			}
		}
		t.Indexes = append(t.Indexes, index{Name: c.Index, Unique: c.Unique, Cols: cols})
		return ""
	case cDropIndex:
		i := t.idxIdx(c.Index)
		if i < 0 {
			return disabled
		}
		t.Indexes = append(t.Indexes[:i], t.Indexes[i+1:]...)
		return ""
	case cRenameTable:
		if t.Name == c.NewName {
			return disabled
		}
		t.Name = c.NewName
		return ""
	case cTableCollate:
		if t.Coll == c.Coll {
			return disabled
		}
		t.Coll = c.Coll
		return ""
	case cConvertTo:
		t.Coll = c.Coll
		for i := range t.Cols {
			if t.Cols[i].T.K == kVarchar {
				t.Cols[i].T.Coll = c.Coll
			}
		}
		return t.checkKeys()
	}
	panic("bad clause")
}

func (t *table) renameCol(old, nw string) {
	t.Cols[t.colIdx(old)].Name = nw
	ren := func(cols []string) {
		for i, x := range cols {
			if x == old {
				cols[i] = nw
			}
		}
	}
	ren(t.PK)
	for _, ix := range t.Indexes {
		ren(ix.Cols)
	}
}

// ---------------------------------------------------------------- statements (1..n clauses, atomic)

type stmt struct {
	Clauses []clause
}

func (s stmt) SQL(tableName string) string {
	p := make([]string, len(s.Clauses))
	for i, c := range s.Clauses {
		p[i] = c.SQL()
	}
	return "ALTER TABLE " + tableName + " " + strings.Join(p, ", ")
}

func (s stmt) kindName() string {
	if len(s.Clauses) == 1 {
		return clauseName[s.Clauses[0].K]
	}
	p := make([]string, len(s.Clauses))
	for i, c := range s.Clauses {
		p[i] = clauseName[c.K]
	}
	return "multi:" + strings.Join(p, "+")
}

// run applies the statement atomically: returns the new table (or the unchanged one), the failure
// reason ("" = success) and whether the statement is enabled at all.
func (s stmt) run(t *table) (after *table, reason string, change string, enabled bool) {
	w := t.clone()
	var changes []string
	for _, c := range s.Clauses {
		changes = append(changes, c.change(w))
		why := w.apply(c)
		if why == disabled {
			return t, "", "", false
		}
		if why != "" {
			return t, why, strings.Join(changes, ", "), true
		}
	}
	return w, "", strings.Join(changes, ", "), true
}
