package c21

import (
	"fmt"
	"regexp"
	"sort"
	"strings"

	"verif/mc/eng"
)

// ---------------------------------------------------------------- what the engine reports

// schemaView is one schema report (SHOW CREATE TABLE / DESCRIBE / information_schema.columns)
// normalised to the attributes all three can express.
type colView struct {
	Name    string
	Type    string // int, varchar(4), ...
	Coll    string // "" for non-strings
	NotNull bool
	Default string // "" = none, else the literal text without quotes
	Key     string // PRI / UNI / MUL / "" (DESCRIBE and information_schema only)
}

type schemaView struct {
	Cols    []colView
	PK      []string
	Indexes []index
	Coll    string
	HasKeys bool // PK / Indexes / Coll are filled (SHOW CREATE only)
}

var (
	reCol   = regexp.MustCompile("^\\s*`([^`]+)` ([a-z]+(?:\\([0-9,]+\\))?(?: unsigned)?)(.*?),?$")
	rePK    = regexp.MustCompile("^\\s*PRIMARY KEY \\((.*)\\),?$")
	reKey   = regexp.MustCompile("^\\s*(UNIQUE )?KEY `([^`]+)` \\((.*)\\),?$")
	reTail  = regexp.MustCompile(`^\) ENGINE=\S+ DEFAULT CHARSET=\S+ COLLATE=(\S+)`)
	reColl  = regexp.MustCompile(`(?:CHARACTER SET \S+ )?COLLATE (\S+)`)
	reDef   = regexp.MustCompile(`DEFAULT (?:'((?:[^']|'')*)'|(\S+))`)
	reIdent = regexp.MustCompile("`([^`]+)`")
)

func identList(s string) []string {
	var out []string
	for _, m := range reIdent.FindAllStringSubmatch(s, -1) {
		out = append(out, m[1])
	}
	return out
}

// parseShowCreate reads the engine's SHOW CREATE TABLE text.
func parseShowCreate(text string) (*schemaView, string, error) {
	lines := strings.Split(text, "\n")
	if len(lines) < 3 || !strings.HasPrefix(lines[0], "CREATE TABLE `") {
		return nil, "", fmt.Errorf("unrecognised SHOW CREATE TABLE text: %q", text)
	}
	name := identList(lines[0])[0]
	v := &schemaView{HasKeys: true}
	for _, l := range lines[1:] {
		switch {
		case rePK.MatchString(l):
			v.PK = identList(rePK.FindStringSubmatch(l)[1])
		case reKey.MatchString(l):
			m := reKey.FindStringSubmatch(l)
			v.Indexes = append(v.Indexes, index{Name: m[2], Unique: m[1] != "", Cols: identList(m[3])})
		case reTail.MatchString(l):
			v.Coll = reTail.FindStringSubmatch(l)[1]
		case reCol.MatchString(l):
			m := reCol.FindStringSubmatch(l)
			c := colView{Name: m[1], Type: m[2]}
			rest := m[3]
			if cm := reColl.FindStringSubmatch(rest); cm != nil {
				c.Coll = cm[1]
			}
			c.NotNull = strings.Contains(rest, " NOT NULL")
			if dm := reDef.FindStringSubmatch(rest); dm != nil {
				c.Default = dm[1] + dm[2]
				if dm[2] == "NULL" {
					c.Default = ""
				}
			}
			v.Cols = append(v.Cols, c)
		default:
			return nil, "", fmt.Errorf("unrecognised line %q in SHOW CREATE TABLE", l)
		}
	}
	// a string column without COLLATE has the table's collation
	for i := range v.Cols {
		if strings.HasPrefix(v.Cols[i].Type, "varchar") && v.Cols[i].Coll == "" {
			v.Cols[i].Coll = v.Coll
		}
	}
	return v, name, nil
}

func stripQuotes(s string) string {
	if len(s) >= 2 && s[0] == '\'' && s[len(s)-1] == '\'' {
		return s[1 : len(s)-1]
	}
	return s
}

func cell(v any) string {
	if v == nil {
		return ""
	}
	return stripQuotes(eng.FormatValue(v))
}

// describeView reads DESCRIBE <table>; tableColl resolves a type printed without collation.
func describeView(s *eng.Session, name, tableColl string) (*schemaView, error) {
	res := s.Exec("DESCRIBE `" + name + "`")
	if res.Err != nil {
		return nil, res.Err
	}
	v := &schemaView{}
	for _, r := range res.Rows {
		if len(r) < 6 {
			return nil, fmt.Errorf("DESCRIBE row with %d columns", len(r))
		}
		typ := cell(r[1])
		c := colView{Name: cell(r[0]), NotNull: cell(r[2]) == "NO", Key: cell(r[3]), Default: stripQuotes(cell(r[4]))}
		if cm := reColl.FindStringSubmatch(typ); cm != nil {
			c.Coll = cm[1]
			typ = strings.TrimSpace(typ[:strings.Index(typ, " ")])
		}
		c.Type = typ
		// DESCRIBE is not a collation report (MySQL prints none; the engine prints one only when it
		// differs from the server default): not compared
		c.Coll = "*"
		if r[4] == nil {
			c.Default = ""
		}
		v.Cols = append(v.Cols, c)
	}
	return v, nil
}

func infoSchemaView(s *eng.Session, name string) (*schemaView, error) {
	res := s.Exec("SELECT column_name, ordinal_position, column_default, is_nullable, column_type, column_key, collation_name, data_type, character_maximum_length FROM information_schema.columns WHERE table_schema = 'mydb' AND table_name = '" + name + "' ORDER BY ordinal_position")
	if res.Err != nil {
		return nil, res.Err
	}
	v := &schemaView{}
	for i, r := range res.Rows {
		if cell(r[1]) != fmt.Sprint(i+1) {
			return nil, fmt.Errorf("ordinal_position %s at position %d", cell(r[1]), i+1)
		}
		c := colView{Name: cell(r[0]), NotNull: cell(r[3]) == "NO", Type: cell(r[4]), Key: cell(r[5]), Coll: cell(r[6])}
		if r[2] != nil {
			c.Default = cell(r[2])
		}
		// data_type / character_maximum_length must agree with column_type
		dt, ml := cell(r[7]), cell(r[8])
		want := dt
		if ml != "" {
			want = fmt.Sprintf("%s(%s)", dt, ml)
		}
		if want != c.Type {
			return nil, fmt.Errorf("column %s: data_type %q / character_maximum_length %q disagree with column_type %q", c.Name, dt, ml, c.Type)
		}
		v.Cols = append(v.Cols, c)
	}
	return v, nil
}

// modelView renders the model as the report it must produce.
func modelView(t *table) *schemaView {
	v := &schemaView{HasKeys: true, Coll: t.Coll, PK: append([]string{}, t.PK...)}
	for _, ix := range t.Indexes {
		v.Indexes = append(v.Indexes, index{ix.Name, ix.Unique, append([]string{}, ix.Cols...)})
	}
	for _, c := range t.Cols {
		cv := colView{Name: c.Name, Type: c.T.sqlType(), NotNull: c.NotNull}
		if c.T.K == kVarchar {
			cv.Coll = c.T.Coll
		}
		if c.Default != nil {
			cv.Default = stripQuotes(fmtValue(c.Default))
		}
		v.Cols = append(v.Cols, cv)
	}
	return v
}

// keyFlags: the set of acceptable DESCRIBE / information_schema Key values of a column.
func keyFlags(t *table, col string) []string {
	if t.inPK(col) {
		return []string{"PRI"}
	}
	uni, mul := false, false
	for _, ix := range t.Indexes {
		if ix.Cols[0] != col {
			continue
		}
		if ix.Unique && len(ix.Cols) == 1 {
			uni = true
		} else {
			mul = true
		}
	}
	switch {
	case uni:
		c := t.Cols[t.colIdx(col)]
		if c.NotNull && len(t.PK) == 0 {
			// MySQL promotes the first NOT NULL unique index to PRI when there is no primary key
			return []string{"UNI", "PRI"}
		}
		return []string{"UNI"}
	case mul:
		return []string{"MUL"}
	}
	return []string{""}
}

// diffViews compares a report with the model; it returns the first differing attribute and a text.
func diffViews(t *table, want, got *schemaView, withKeyFlags bool) (field, text string) {
	if len(want.Cols) != len(got.Cols) {
		return "column-list", fmt.Sprintf("%d columns, model has %d", len(got.Cols), len(want.Cols))
	}
	for i, w := range want.Cols {
		g := got.Cols[i]
		switch {
		case w.Name != g.Name:
			return "column-order-or-name", fmt.Sprintf("position %d is %q, model has %q", i+1, g.Name, w.Name)
		case w.Type != g.Type:
			return "type", fmt.Sprintf("column %s has type %q, model has %q", w.Name, g.Type, w.Type)
		case w.Coll != g.Coll && g.Coll != "*":
			return "collation", fmt.Sprintf("column %s has collation %q, model has %q", w.Name, g.Coll, w.Coll)
		case w.NotNull != g.NotNull:
			return "nullability", fmt.Sprintf("column %s NOT NULL=%v, model has %v", w.Name, g.NotNull, w.NotNull)
		case w.Default != g.Default:
			return "default", fmt.Sprintf("column %s has default %q, model has %q", w.Name, g.Default, w.Default)
		}
		if withKeyFlags {
			ok := false
			for _, k := range keyFlags(t, w.Name) {
				ok = ok || k == g.Key
			}
			if !ok {
				return "key-flag:" + g.Key + "-instead-of-" + strings.Join(keyFlags(t, w.Name), "|"), fmt.Sprintf("column %s has Key %q, model allows %v", w.Name, g.Key, keyFlags(t, w.Name))
			}
		}
	}
	if !want.HasKeys || !got.HasKeys {
		return "", ""
	}
	if want.Coll != got.Coll {
		return "table-collation", fmt.Sprintf("table collation %q, model has %q", got.Coll, want.Coll)
	}
	if fmt.Sprint(want.PK) != fmt.Sprint(got.PK) {
		return "primary-key", fmt.Sprintf("PRIMARY KEY %v, model has %v", got.PK, want.PK)
	}
	ixs := func(v *schemaView) string {
		var p []string
		for _, ix := range v.Indexes {
			p = append(p, fmt.Sprintf("%s unique=%v %v", ix.Name, ix.Unique, ix.Cols))
		}
		sort.Strings(p)
		return strings.Join(p, "; ")
	}
	if ixs(want) != ixs(got) {
		return "indexes", fmt.Sprintf("indexes {%s}, model has {%s}", ixs(got), ixs(want))
	}
	return "", ""
}
