// Package c22 decides property C22: executing the statement printed by SHOW CREATE re-creates an
// object whose SHOW CREATE text is byte-identical, whose information_schema rows are identical
// and which behaves the same under a fixed probe workload.
package c22

import (
	"encoding/json"
	"fmt"
	"runtime/debug"
	"strings"
	"time"

	"github.com/dolthub/go-mysql-server/sql"

	"verif/mc/core"
	"verif/mc/eng"
)

// finding is one failed oracle clause on one case.
type finding struct {
	Clause, Kind, Part string
	Observed, Expected string
}

func (f *finding) same(g *finding) bool {
	return g != nil && f.Clause == g.Clause && f.Kind == g.Kind && f.Part == g.Part
}

// result of running a case
type outcome struct {
	Class  string // accepted | rejected:<class> | create-panic
	F      *finding
	Show   string
	Probes []string
}

var infoQueries = []struct{ name, q string }{
	// need: which feature of the case / printed statement makes the query worth its cost
	// (information_schema.columns alone costs ~3 ms: it renders every column of every database)
	{"columns", "select * from information_schema.columns where table_schema = 'mydb' and table_name = 'x' order by ordinal_position"},
	{"statistics", "select * from information_schema.statistics where table_schema = 'mydb' and table_name = 'x' order by index_name, seq_in_index"},
	{"table_constraints", "select * from information_schema.table_constraints where table_schema = 'mydb' and table_name = 'x' order by constraint_name, constraint_type"},
	{"key_column_usage", "select * from information_schema.key_column_usage where table_schema = 'mydb' and table_name = 'x' order by constraint_name, ordinal_position"},
	{"check_constraints", "select * from information_schema.check_constraints where constraint_schema = 'mydb' order by constraint_name"},
	{"referential_constraints", "select * from information_schema.referential_constraints where constraint_schema = 'mydb' and table_name = 'x' order by constraint_name"},
	{"tables", "select table_name, table_type, engine, table_collation, table_comment, auto_increment from information_schema.tables where table_schema = 'mydb' and table_name = 'x'"},
}

type infoSnap struct {
	names [][]string // per query: column names
	rows  [][][]string
	errs  []string
}

// infoNeeds decides which information_schema tables are compared for a case: columns always;
// the index/constraint tables when the case declares or the printed statement shows a key,
// check or foreign key; tables when table options are involved.
func infoNeeds(t tcase, show string) []bool {
	key, chk, fk, topt := false, false, false, len(t.TOpts) > 0
	for _, c := range t.Cols {
		for _, o := range c.Opts {
			switch o.Dim {
			case "autoinc", "key":
				key = true
			case "check":
				chk = true
			}
		}
	}
	for _, k := range t.Keys {
		key = true
		if strings.Contains(k.Label, "check") {
			chk = true
		}
		if strings.Contains(k.Label, "foreign") {
			fk = true
		}
	}
	key = key || strings.Contains(show, "KEY ")
	chk = chk || strings.Contains(show, " CHECK ")
	fk = fk || strings.Contains(show, "FOREIGN KEY")
	topt = topt || strings.Contains(show, "COMMENT=") || strings.Contains(show, "AUTO_INCREMENT=")
	// order of infoQueries
	return []bool{true, key, key || chk || fk, key || fk, chk, fk, topt}
}

func takeInfo(s *eng.Session, need []bool) *infoSnap {
	sn := &infoSnap{}
	for qi, iq := range infoQueries {
		if !need[qi] {
			sn.names = append(sn.names, nil)
			sn.rows = append(sn.rows, nil)
			sn.errs = append(sn.errs, "")
			continue
		}
		res := s.Exec(iq.q)
		var names []string
		for _, c := range res.Schema {
			names = append(names, c.Name)
		}
		var rows [][]string
		for _, row := range res.Rows {
			var rr []string
			for _, v := range row {
				rr = append(rr, eng.FormatValue(v))
			}
			rows = append(rows, rr)
		}
		e := ""
		if res.Err != nil {
			e = eng.ErrClass(res.Err) + ": " + res.Err.Error()
		}
		sn.names = append(sn.names, names)
		sn.rows = append(sn.rows, rows)
		sn.errs = append(sn.errs, e)
	}
	return sn
}

// diffInfo returns the first difference as (part, observed, expected).
func diffInfo(a, b *infoSnap) (string, string, string, bool) {
	for qi, iq := range infoQueries {
		if a.errs[qi] != b.errs[qi] {
			return iq.name + ".(error)", b.errs[qi], a.errs[qi], true
		}
		ra, rb := a.rows[qi], b.rows[qi]
		if len(ra) != len(rb) {
			return iq.name + "." + rowCountPart(a.names[qi], ra, rb), fmt.Sprint(rb), fmt.Sprint(ra), true
		}
		for i := range ra {
			for j := range ra[i] {
				if j < len(rb[i]) && ra[i][j] != rb[i][j] {
					col := "?"
					if j < len(a.names[qi]) {
						col = strings.ToUpper(a.names[qi][j])
					}
					return iq.name + "." + col, rb[i][j] + "   in row " + strings.Join(rb[i], ","), ra[i][j] + "   in row " + strings.Join(ra[i], ","), true
				}
			}
		}
	}
	return "", "", "", false
}

// rowCountPart names a row that is on one side only by its classifying column (constraint type,
// index name for PRIMARY, else "row").
func rowCountPart(names []string, ra, rb [][]string) string {
	side, more, less := "missing", ra, rb
	if len(rb) > len(ra) {
		side, more, less = "extra", rb, ra
	}
	have := map[string]int{}
	for _, r := range less {
		have[strings.Join(r, "\x00")]++
	}
	for _, r := range more {
		k := strings.Join(r, "\x00")
		if have[k] > 0 {
			have[k]--
			continue
		}
		for j, n := range names {
			if strings.EqualFold(n, "constraint_type") && j < len(r) {
				return side + ":" + strings.Trim(r[j], "'")
			}
		}
		return side + "-row"
	}
	return side + "-row"
}

func runProbes(s *eng.Session, probes []string, sel string) []string {
	var out []string
	for _, p := range probes {
		res := s.Exec(p)
		switch {
		case res.Panic != nil:
			out = append(out, p+" => panic")
		case res.Err != nil:
			out = append(out, p+" => error:"+eng.ErrClass(res.Err))
		default:
			if ok, is := res.OK(); is {
				out = append(out, fmt.Sprintf("%s => ok(%d)", p, ok.RowsAffected))
			} else {
				out = append(out, p+" => rows:"+strings.Join(res.Multiset(), " "))
			}
		}
	}
	res := s.Exec(sel)
	if res.Err != nil {
		out = append(out, sel+" => error:"+eng.ErrClass(res.Err))
	} else {
		out = append(out, sel+" => "+strings.Join(res.Multiset(), " "))
	}
	return out
}

func showCreate(s *eng.Session, stmt string, col int) (string, *eng.Result) {
	res := s.Exec(stmt)
	if res.Err != nil || len(res.Rows) != 1 || len(res.Rows[0]) <= col {
		return "", res
	}
	return fmt.Sprint(res.Rows[0][col]), res
}

func errKind(res *eng.Result) string {
	if res.Panic != nil {
		return "panic"
	}
	if res.Err != nil {
		return "error:" + eng.ErrClass(res.Err)
	}
	return "no-row"
}

func errText(res *eng.Result) string {
	if res.Panic != nil {
		return fmt.Sprintf("panic: %v at %s", res.Panic, topFrame(res.Stack))
	}
	if res.Err != nil {
		return res.Err.Error()
	}
	return fmt.Sprintf("%d rows", len(res.Rows))
}

func topFrame(stack string) string {
	lines := strings.Split(stack, "\n")
	seenPanic := false
	for _, l := range lines {
		if strings.HasPrefix(l, "panic(") {
			seenPanic = true
			continue
		}
		if !seenPanic || strings.HasPrefix(l, "\t") || strings.HasPrefix(l, "runtime") {
			continue
		}
		if j := strings.LastIndex(l, "("); j > 0 {
			l = l[:j]
		}
		return l
	}
	return "unknown"
}

// runTable runs the whole oracle on one CREATE TABLE case.
func runTable(t tcase) outcome {
	e := eng.New()
	s := e.NewSession("root")
	for _, q := range t.setup() {
		if res := s.Exec(q); res.Err != nil && !strings.HasPrefix(q, "insert") {
			return outcome{Class: "rejected-setup:" + eng.ErrClass(res.Err)}
		}
	}
	create := t.createSQL()
	res := s.Exec(create)
	if res.Panic != nil {
		return outcome{Class: "create-panic"}
	}
	if res.Err != nil {
		return outcome{Class: "rejected:" + eng.ErrClass(res.Err)}
	}
	out := outcome{Class: "accepted"}
	s1, r1 := showCreate(s, "show create table x", 1)
	if s1 == "" {
		out.F = &finding{Clause: "show-create-succeeds", Kind: errKind(r1), Part: "original", Observed: errText(r1), Expected: "one row"}
		return out
	}
	out.Show = s1
	need := infoNeeds(t, s1)
	i1 := takeInfo(s, need)
	probes := t.probes()
	p1 := runProbes(s, probes, "select * from x")
	out.Probes = p1

	// drop and re-create from the printed statement
	if res := s.Exec("drop table x"); res.Err != nil {
		// cannot drop: use a fresh engine instead
		e = eng.New()
		s = e.NewSession("root")
		for _, q := range t.setup() {
			s.Exec(q)
		}
	}
	res = s.Exec(s1)
	if res.Err != nil {
		out.F = &finding{Clause: "recreate-accepted", Kind: errKind(res), Part: stmtPart(res), Observed: errText(res) + "   statement: " + s1, Expected: "the printed statement executes"}
		return out
	}
	s2, r2 := showCreate(s, "show create table x", 1)
	if s2 == "" {
		out.F = &finding{Clause: "show-create-succeeds", Kind: errKind(r2), Part: "recreated", Observed: errText(r2), Expected: "one row"}
		return out
	}
	if s1 != s2 {
		out.F = &finding{Clause: "text-identical", Kind: "differs", Part: diffPart(s1, s2), Observed: s2, Expected: s1}
		return out
	}
	i2 := takeInfo(s, need)
	if part, obs, exp, d := diffInfo(i1, i2); d {
		out.F = &finding{Clause: "information-schema-identical", Kind: "differs", Part: part, Observed: obs, Expected: exp}
		return out
	}
	p2 := runProbes(s, probes, "select * from x")
	for i := range p1 {
		if p1[i] != p2[i] {
			part := "statement-outcome"
			if i == len(p1)-1 {
				part = "table-content"
			}
			out.F = &finding{Clause: "behaves-the-same", Kind: "differs", Part: part, Observed: p2[i], Expected: p1[i]}
			return out
		}
	}
	return out
}

// stmtPart classifies a re-creation error coarsely.
func stmtPart(res *eng.Result) string {
	if res.Panic != nil {
		return topFrame(res.Stack)
	}
	return "statement"
}

// diffPart classifies where two SHOW CREATE TABLE texts differ: the kind of the first differing
// line and, for a column line, the clause.
func diffPart(a, b string) string {
	la, lb := strings.Split(a, "\n"), strings.Split(b, "\n")
	if len(la) != len(lb) {
		// find the first line present in only one
		for i := 0; i < len(la) && i < len(lb); i++ {
			if la[i] != lb[i] {
				return "line-missing:" + lineKind(la[i]) + "/" + lineKind(lb[i])
			}
		}
		return "line-count"
	}
	for i := range la {
		if la[i] == lb[i] {
			continue
		}
		k := lineKind(la[i])
		if k != "column" {
			return k
		}
		ca, cb := columnClauses(la[i]), columnClauses(lb[i])
		for _, name := range clauseNames {
			if ca[name] != cb[name] {
				return "column:" + name
			}
		}
		return "column"
	}
	return "none"
}

func lineKind(l string) string {
	t := strings.TrimSpace(l)
	switch {
	case strings.HasPrefix(t, "CREATE "):
		return "header"
	case strings.HasPrefix(t, "`"):
		return "column"
	case strings.HasPrefix(t, "PRIMARY KEY"):
		return "primary-key"
	case strings.HasPrefix(t, "UNIQUE KEY"), strings.HasPrefix(t, "KEY"), strings.HasPrefix(t, "FULLTEXT"), strings.HasPrefix(t, "SPATIAL"), strings.HasPrefix(t, "VECTOR"):
		return "key"
	case strings.HasPrefix(t, "CONSTRAINT") && strings.Contains(t, "FOREIGN KEY"):
		return "foreign-key"
	case strings.HasPrefix(t, "CONSTRAINT") && strings.Contains(t, "CHECK"):
		return "check"
	case strings.HasPrefix(t, ")"):
		return "table-options"
	}
	return "other"
}

var clauseNames = []string{"type", "CHARACTER SET", "COLLATE", "NOT NULL", "AUTO_INCREMENT", "SRID", "GENERATED", "DEFAULT", "ON UPDATE", "COMMENT"}

// columnClauses splits a printed column line into its clauses (keyword search outside quotes).
func columnClauses(l string) map[string]string {
	t := strings.TrimSuffix(strings.TrimSpace(l), ",")
	// skip the quoted name
	if i := strings.Index(t[1:], "` "); i >= 0 {
		t = t[i+3:]
	}
	type hit struct {
		pos  int
		name string
	}
	var hits []hit
	inq := byte(0)
	depth := 0
	for i := 0; i < len(t); i++ {
		c := t[i]
		if inq != 0 {
			if c == inq {
				inq = 0
			}
			continue
		}
		switch c {
		case '\'', '"', '`':
			inq = c
			continue
		case '(':
			depth++
			continue
		case ')':
			depth--
			continue
		}
		if depth > 0 || (i > 0 && t[i-1] != ' ') {
			continue
		}
		for _, kw := range []string{"CHARACTER SET", "COLLATE", "NOT NULL", "AUTO_INCREMENT", "/*!80003 SRID", "GENERATED", "DEFAULT", "ON UPDATE", "COMMENT"} {
			if strings.HasPrefix(t[i:], kw+" ") || t[i:] == kw {
				name := kw
				if strings.Contains(kw, "SRID") {
					name = "SRID"
				}
				hits = append(hits, hit{i, name})
			}
		}
	}
	m := map[string]string{}
	end := len(t)
	if len(hits) > 0 {
		end = hits[0].pos
	}
	m["type"] = strings.TrimSpace(t[:end])
	for i, h := range hits {
		e := len(t)
		if i+1 < len(hits) {
			e = hits[i+1].pos
		}
		m[h.name] = strings.TrimSpace(t[h.pos:e])
	}
	return m
}

// ---------------------------------------------------------------------------------------------
// minimisation: drop options / second column / key clauses / table options while the same clause
// keeps failing; then try the family's representative type.

func minimise(t tcase, f *finding) (tcase, *finding) {
	try := func(c tcase) bool {
		o := runTable(c)
		if o.F != nil && o.F.same(f) {
			f = o.F
			return true
		}
		return false
	}
	for changed := true; changed; {
		changed = false
		if len(t.Cols) > 1 {
			for drop := len(t.Cols) - 1; drop >= 0 && len(t.Cols) > 1; drop-- {
				c := t.clone()
				c.Cols = append(c.Cols[:drop], c.Cols[drop+1:]...)
				if try(c) {
					t, changed = c, true
				}
			}
		}
		for i := len(t.Keys) - 1; i >= 0; i-- {
			c := t.clone()
			c.Keys = append(c.Keys[:i], c.Keys[i+1:]...)
			if try(c) {
				t, changed = c, true
			}
		}
		for i := len(t.TOpts) - 1; i >= 0; i-- {
			c := t.clone()
			c.TOpts = append(c.TOpts[:i], c.TOpts[i+1:]...)
			if try(c) {
				t, changed = c, true
			}
		}
		for ci := range t.Cols {
			for i := len(t.Cols[ci].Opts) - 1; i >= 0; i-- {
				c := t.clone()
				c.Cols[ci].Opts = append(c.Cols[ci].Opts[:i], c.Cols[ci].Opts[i+1:]...)
				if try(c) {
					t, changed = c, true
				}
			}
		}
	}
	_, reps := allTypes()
	for ci := range t.Cols {
		// the type does not matter at all when a plain int column fails the same way
		other := colType{SQL: "int", Fam: "any"}
		if t.Cols[ci].Type.Fam == "int" {
			other = colType{SQL: "varchar(20)", Fam: "any"}
		}
		if c := t.clone(); true {
			c.Cols[ci].Type = other
			if try(c) {
				if other.SQL == "int" {
					t = c
				} else {
					t.Cols[ci].Type = colType{SQL: "int", Fam: "any"}
				}
				continue
			}
		}
		for _, rep := range reps {
			if rep.Fam == t.Cols[ci].Type.Fam && rep.SQL != t.Cols[ci].Type.SQL {
				c := t.clone()
				c.Cols[ci].Type = rep
				if try(c) {
					t = c
				}
			}
		}
	}
	return t, f
}

// typeSubject: family when the representative type fails too, else the type with digits removed.
func typeSubject(t tcase) string {
	_, reps := allTypes()
	var out []string
	for _, c := range t.Cols {
		if c.Type.Fam == "any" {
			out = append(out, "any")
			continue
		}
		isRep := false
		for _, rep := range reps {
			if rep.SQL == c.Type.SQL {
				isRep = true
			}
		}
		if isRep {
			out = append(out, "family:"+c.Type.Fam)
		} else {
			out = append(out, normType(c.Type.SQL))
		}
	}
	return strings.Join(out, "+")
}

func normType(s string) string {
	var sb strings.Builder
	prevDigit := false
	for _, r := range s {
		if r >= '0' && r <= '9' {
			if !prevDigit {
				sb.WriteByte('N')
			}
			prevDigit = true
			continue
		}
		prevDigit = false
		sb.WriteRune(r)
	}
	return sb.String()
}

type witness struct {
	Object string   `json:"object"`
	Table  *tcase   `json:"table,omitempty"`
	Obj    *objCase `json:"obj,omitempty"`
	SQL    []string `json:"sql"`
}

func checkTable(r *core.Run, t tcase, minimised bool) {
	o := runTable(t)
	r.Outcome(t.Space + ":" + o.Class)
	if o.Class != "accepted" {
		if strings.HasPrefix(o.Class, "rejected") {
			r.Count("skipped_rejected_by_engine", 1)
			if strings.HasSuffix(o.Class, ":unsupported") || strings.HasSuffix(o.Class, ":parse") {
				r.Count("skipped_unsupported", 1)
			}
		} else {
			r.Count("skipped_create_panic", 1)
		}
		return
	}
	create := t.createSQL()
	r.NonTrivial(create)
	if o.F == nil {
		if r.WantSample() && (len(t.Cols[0].Opts) > 0 || len(t.Keys) > 0) {
			r.Sample(map[string]any{"create": create, "show_create": o.Show, "recreated_identically": true, "probe_outcomes": o.Probes})
		}
		return
	}
	f := o.F
	if !minimised {
		t, f = minimise(t, f)
	}
	_, opts := t.labels()
	w := witness{Object: "table", Table: &t, SQL: append(t.setup(), t.createSQL())}
	r.Violate(core.Violation{
		Check: "table", Clause: f.Clause, Kind: f.Kind,
		Subject:  map[string]string{"part": f.Part, "type": typeSubject(t), "options": opts},
		Witness:  core.J(w),
		Observed: f.Observed, Expected: f.Expected,
	})
}

// ---------------------------------------------------------------------------------------------
// enumeration

func applicable(ct colType, os ...opt) bool {
	for _, o := range os {
		if !o.applies(ct.Fam) {
			return false
		}
	}
	for i := range os {
		for j := i + 1; j < len(os); j++ {
			if incompatible(os[i], os[j]) {
				return false
			}
		}
	}
	return true
}

type enumerator struct {
	r   *core.Run
	idx int64
}

// multiplePrimaryKeys: MySQL rejects a table that declares more than one primary key (the engine
// accepts some of these statements; that is not a SHOW CREATE defect, so they are not generated).
func multiplePrimaryKeys(t tcase) bool {
	n := 0
	for _, c := range t.Cols {
		for _, o := range c.Opts {
			if (o.Dim == "key" && o.Label == "primary-key") || (o.Dim == "autoinc" && o.Label == "auto-increment-primary") {
				n++
			}
		}
	}
	for _, k := range t.Keys {
		n += strings.Count(k.SQL, "PRIMARY KEY")
	}
	return n > 1
}

func (en *enumerator) table(t tcase) bool {
	if multiplePrimaryKeys(t) {
		return true
	}
	i := en.idx
	en.idx++
	en.r.Count("cases_"+t.Space, 0)
	if !en.r.Mine(i) {
		return true
	}
	if en.r.Expired() {
		en.r.Capped("time budget reached in space " + t.Space)
		return false
	}
	en.r.Eval()
	en.r.Count("cases_"+t.Space, 1)
	checkTable(en.r, t, false)
	return true
}

func colC(ct colType, os ...opt) column { return column{Name: "c", Type: ct, Opts: os} }
func colD(ct colType, os ...opt) column { return column{Name: "d", Type: ct, Opts: os} }

func run(r *core.Run) {
	all, reps := allTypes()
	r.Info("alphabet_types", len(all))
	r.Info("alphabet_type_families", len(reps))
	r.Info("alphabet_column_option_values", len(colOpts))
	r.Info("alphabet_key_clauses", len(keyClauses))
	r.Info("alphabet_table_options", len(tableOpts))
	en := &enumerator{r: r}

	// S1: every type on its own
	for _, ct := range all {
		if !en.table(tcase{Space: "type", Cols: []column{colC(ct)}}) {
			return
		}
	}
	// S2: every type x every applicable option value
	for _, ct := range all {
		for _, o := range colOpts {
			if applicable(ct, o) {
				if !en.table(tcase{Space: "type*option", Cols: []column{colC(ct, o)}}) {
					return
				}
			}
		}
	}
	// S3: pairs of option values within one column definition (quick: family representatives,
	// thorough: every type)
	pairTypes := reps
	if r.Thorough() {
		pairTypes = all
	}
	for _, ct := range pairTypes {
		for i, a := range colOpts {
			for _, b := range colOpts[i+1:] {
				if applicable(ct, a, b) {
					if !en.table(tcase{Space: "option*option", Cols: []column{colC(ct, a, b)}}) {
						return
					}
				}
			}
		}
	}
	// S4: key clauses and table options on their own (per family representative), and
	// table character set x column character set
	for _, ct := range reps {
		for _, k := range keyClauses {
			if k.applies(ct.Fam) {
				if !en.table(tcase{Space: "type*key-clause", Cols: []column{colC(ct)}, Keys: []opt{k}}) {
					return
				}
			}
		}
		for _, o := range tableOpts {
			if !en.table(tcase{Space: "type*table-option", Cols: []column{colC(ct)}, TOpts: []opt{o}}) {
				return
			}
		}
		for _, o := range tableOpts {
			if !isCharsetTopt(o) {
				continue
			}
			for _, co := range colOpts {
				if co.Dim == "charset" && applicable(ct, co) {
					if !en.table(tcase{Space: "column-charset*table-charset", Cols: []column{colC(ct, co)}, TOpts: []opt{o}}) {
						return
					}
				}
			}
		}
	}
	// generated column x table option (the table is wrapped differently when it has virtual
	// columns; the full (type, option) x table option product is in thorough)
	for _, co := range colOpts {
		if co.Dim != "generated" || !applicable(reps[0], co) {
			continue
		}
		for _, o := range tableOpts {
			if !en.table(tcase{Space: "generated-column*table-option", Cols: []column{colC(reps[0], co)}, TOpts: []opt{o}}) {
				return
			}
		}
	}
	// S5: views, triggers, procedures, events
	for _, oc := range objectCases() {
		i := en.idx
		en.idx++
		if !r.Mine(i) {
			continue
		}
		if r.Expired() {
			r.Capped("time budget reached in space objects")
			return
		}
		r.Eval()
		r.Count("cases_"+oc.Kind, 1)
		checkObject(r, oc)
	}
	if !r.Thorough() {
		return
	}
	// T1: pairs of option values across two columns (family representatives)
	type cd struct {
		ct colType
		o  opt
	}
	var defs []cd
	for _, ct := range reps {
		for _, o := range colOpts {
			if applicable(ct, o) {
				defs = append(defs, cd{ct, o})
			}
		}
	}
	r.Info("two_column_definitions", len(defs))
	for i, a := range defs {
		for _, b := range defs[i:] { // unordered pairs (the first definition is column c, the second d)
			// two PRIMARY KEY / AUTO_INCREMENT columns are not a valid table
			if (a.o.Dim == "autoinc" || a.o.Label == "primary-key") && (b.o.Dim == "autoinc" || b.o.Label == "primary-key") {
				continue
			}
			if !en.table(tcase{Space: "column*column", Cols: []column{colC(a.ct, a.o), colD(b.ct, b.o)}}) {
				return
			}
		}
	}
	// T2: every type x key clause, and (representative type, option) x key clause;
	// T3: (representative type, option) x table option
	for _, ct := range all {
		if ct.SQL == reps0(reps, ct.Fam) {
			continue // done in quick
		}
		for _, k := range keyClauses {
			if k.applies(ct.Fam) {
				if !en.table(tcase{Space: "type*key-clause", Cols: []column{colC(ct)}, Keys: []opt{k}}) {
					return
				}
			}
		}
	}
	for _, ct := range reps {
		for _, o := range colOpts {
			if !applicable(ct, o) {
				continue
			}
			for _, k := range keyClauses {
				if k.applies(ct.Fam) {
					if !en.table(tcase{Space: "column*key-clause", Cols: []column{colC(ct, o)}, Keys: []opt{k}}) {
						return
					}
				}
			}
		}
	}
	for _, ct := range reps {
		for _, o := range colOpts {
			if !applicable(ct, o) {
				continue
			}
			for _, to := range tableOpts {
				if !en.table(tcase{Space: "column*table-option", Cols: []column{colC(ct, o)}, TOpts: []opt{to}}) {
					return
				}
			}
		}
	}
}

func reps0(reps []colType, fam string) string {
	for _, r := range reps {
		if r.Fam == fam {
			return r.SQL
		}
	}
	return ""
}

var fixedNow = time.Date(2024, 3, 5, 6, 7, 8, 123456000, time.UTC)

func frozen(f func()) {
	sql.RunWithNowFunc(func() time.Time { return fixedNow }, func() error { f(); return nil })
}

func init() {
	core.Register(&core.Prop{
		ID:    "C22",
		Level: "exploration",
		Rule: "CREATE TABLE x (k int, c <type> <options>[, d …][, <key clause>]) [<table option>] from an option grammar: every column type (all length/precision/unsigned/alias variants) on its own; every type x every option value that MySQL allows for its family " +
			"(NULL/NOT NULL, literal and expression defaults, ON UPDATE, character set/collation incl. values equal to the table's and the server's default, SRID, AUTO_INCREMENT, column keys, INVISIBLE, comments with quotes/backslashes, generated STORED/VIRTUAL, inline CHECK); " +
			"all pairs of option values within one column definition (quick: one representative type per family; thorough: every type); every key clause (PK, UNIQUE, prefix, multi-column, DESC, comment, FULLTEXT, SPATIAL, FK with actions, CHECK) and table option per family, table charset x column charset, generated column x table option; " +
			"thorough adds all unordered pairs of (representative type, option) across two columns, every type x key clause, (representative type, option) x key clause and x table option. Plus views, triggers, procedures and events from small grammars of headers x bodies. " +
			"Oracle per case: s1 = SHOW CREATE; information_schema rows (columns, statistics, table_constraints, key_column_usage, check_constraints, referential_constraints, tables); a fixed workload of inserts/updates; DROP; execute s1; s2 must equal s1 byte-wise, the information_schema rows and every workload outcome and the final table content must be equal. " +
			"The clock is frozen. Failing cases are minimised (drop options while the same clause fails). non-trivial = the engine accepted the generated statement (the round trip was executed)",
		Assumptions: []string{
			"a generated statement the engine rejects is outside the domain (counted by error class)",
			"option values are only combined with type families for which MySQL accepts them",
			"the session clock is frozen with sql.RunWithNowFunc so CURRENT_TIMESTAMP defaults compare equal",
		},
		Run: func(r *core.Run) { debug.SetGCPercent(400); frozen(func() { run(r) }) },
		Replay: func(r *core.Run, w json.RawMessage) {
			var wt witness
			if err := json.Unmarshal(w, &wt); err != nil {
				return
			}
			frozen(func() {
				if wt.Table != nil {
					checkTable(r, *wt.Table, true)
				} else if wt.Obj != nil {
					checkObject(r, *wt.Obj)
				}
			})
		},
	})
}
