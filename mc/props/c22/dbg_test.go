package c22

import (
	"fmt"
	"os"
	"strings"
	"testing"

	"verif/mc/core"
)

// dev aid: C22_KIND=view go test -run TestObjects -v : runs the object cases of one kind
func TestObjects(t *testing.T) {
	kind := os.Getenv("C22_KIND")
	if kind == "" {
		t.Skip()
	}
	r := core.NewRun(core.Lookup("C22"), "quick", 0, 0, 1, 1e12)
	frozen(func() {
		for _, oc := range objectCases() {
			if oc.Kind == kind {
				checkObject(r, oc)
			}
		}
	})
	res := r.Result()
	fmt.Println(res.Outcomes, res.Counters)
	for sig, v := range res.Violations {
		fmt.Println(sig, "\n   obs:", strings.ReplaceAll(v.Observed, "\n", "\\n"), "\n   exp:", strings.ReplaceAll(v.Expected, "\n", "\\n"), "\n   ", string(v.Witness)[:300])
	}
}

func TestSizes(t *testing.T) {
	all, reps := allTypes()
	nd := 0
	for _, ct := range reps {
		for _, o := range colOpts {
			if applicable(ct, o) {
				nd++
			}
		}
	}
	ck, oo := 0, 0
	for _, ct := range all {
		for _, o := range colOpts {
			if !applicable(ct, o) {
				continue
			}
			for _, k := range keyClauses {
				if k.applies(ct.Fam) {
					ck++
				}
			}
		}
		for i, a := range colOpts {
			for _, b := range colOpts[i+1:] {
				if applicable(ct, a, b) {
					oo++
				}
			}
		}
	}
	fmt.Println("defs", nd, "two-col pairs", nd*nd, "col*key", ck, "opt*opt all types", oo, "col*topt", nd*len(tableOpts))
}
