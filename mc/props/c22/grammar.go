package c22

import (
	"sort"
	"strings"
)

// ---------------------------------------------------------------------------------------------
// The CREATE TABLE option grammar.
//
// A column definition is a type plus at most one value per option dimension. Every option value
// says for which type families it is meaningful in MySQL (a literal DEFAULT on a BLOB, a
// character set on an INT, AUTO_INCREMENT on a string … are rejected by MySQL, so they are not
// generated: the engine accepting them would not be a SHOW CREATE defect).
//
// Placeholders in option SQL: $c = the column's own name, $k = the helper column `k int`.

type colType struct {
	SQL string `json:"sql"`
	Fam string `json:"fam"`
}

// Type families. The first type of each family is its representative (used for option × option
// pairs and for two-column pairs).
var typeTable = []struct {
	fam   string
	types []string
}{
	{"int", []string{"int", "tinyint", "smallint", "mediumint", "bigint", "tinyint unsigned", "smallint unsigned", "mediumint unsigned", "int unsigned", "bigint unsigned",
		"int(11)", "tinyint(1)", "bigint(20) unsigned", "int zerofill", "integer", "bool", "boolean", "int1", "int2", "int3", "int4", "int8", "middleint", "int signed"}},
	{"float", []string{"double", "float", "float unsigned", "double unsigned", "double precision", "real", "float(10)", "float(30)", "float(10,2)", "double(10,2)", "float4", "float8"}},
	{"decimal", []string{"decimal(10,2)", "decimal", "decimal(10)", "decimal(65,30)", "decimal(5,5)", "decimal(1,0)", "decimal unsigned", "decimal(10,2) unsigned", "numeric(5)", "dec(5,1)", "fixed"}},
	{"bit", []string{"bit(8)", "bit", "bit(1)", "bit(64)"}},
	{"char", []string{"varchar(20)", "char", "char(10)", "char(255)", "varchar(1)", "varchar(255)", "varchar(16383)", "national char(3)", "nchar(3)", "nvarchar(3)", "character varying(3)", "char(0)"}},
	{"binary", []string{"varbinary(20)", "binary", "binary(3)", "binary(255)", "varbinary(1)", "varbinary(255)"}},
	{"text", []string{"text", "tinytext", "mediumtext", "longtext", "text(100)", "long", "long varchar"}},
	{"blob", []string{"blob", "tinyblob", "mediumblob", "longblob"}},
	{"date", []string{"date"}},
	{"datetime", []string{"datetime", "datetime(0)", "datetime(3)", "datetime(6)"}},
	{"timestamp", []string{"timestamp", "timestamp(3)", "timestamp(6)"}},
	{"time", []string{"time", "time(6)"}},
	{"year", []string{"year"}},
	{"enum", []string{"enum('a','b')", "enum('a')", "enum('a','B','c c')", "enum('it''s','x,y')", "enum('')"}},
	{"set", []string{"set('a','b')", "set('a')", "set('a','b','c')", "set('x y','it''s')"}},
	{"json", []string{"json"}},
	{"point", []string{"point"}},
	{"geometry", []string{"geometry", "linestring", "polygon", "multipoint", "multilinestring", "multipolygon", "geometrycollection"}},
	{"vector", []string{"vector(3)"}},
}

func allTypes() (all []colType, reps []colType) {
	for _, f := range typeTable {
		for i, t := range f.types {
			ct := colType{SQL: t, Fam: f.fam}
			all = append(all, ct)
			if i == 0 {
				reps = append(reps, ct)
			}
		}
	}
	return
}

// opt is one option value.
type opt struct {
	Dim   string `json:"dim"`
	Label string `json:"label"` // class label used in signatures
	SQL   string `json:"sql"`
	// Setup statements run before the CREATE (parent table of a foreign key). $type = the
	// column's type text.
	Setup []string `json:"setup,omitempty"`
	fams  string   // space separated families it applies to ("" = all); "!x y" = all but
}

func (o opt) applies(fam string) bool {
	if o.fams == "" {
		return true
	}
	neg := strings.HasPrefix(o.fams, "!")
	list := strings.Fields(strings.TrimPrefix(o.fams, "!"))
	in := false
	for _, f := range list {
		if f == fam {
			in = true
		}
	}
	return in != neg
}

// rendering order of the column option dimensions
var dimOrder = []string{"charset", "srid", "generated", "null", "default", "onupdate", "autoinc", "invisible", "key", "comment", "check"}

const (
	strFams   = "char text enum set"
	numFams   = "int float decimal"
	noLitFams = "!text blob json point geometry vector" // families that accept a literal DEFAULT
)

var colOpts = []opt{
	// nullability
	{Dim: "null", Label: "NULL", SQL: "NULL"},
	{Dim: "null", Label: "NOT NULL", SQL: "NOT NULL"},

	// character set / collation (string types)
	{Dim: "charset", Label: "charset-only", SQL: "CHARACTER SET latin1", fams: strFams},
	{Dim: "charset", Label: "charset-only-same-as-table", SQL: "CHARACTER SET utf8mb4", fams: strFams},
	{Dim: "charset", Label: "charset-only", SQL: "CHARSET utf8mb3", fams: strFams},
	{Dim: "charset", Label: "charset-only", SQL: "CHARACTER SET ascii", fams: strFams},
	{Dim: "charset", Label: "charset-binary", SQL: "CHARACTER SET binary", fams: strFams},
	{Dim: "charset", Label: "collate-only", SQL: "COLLATE utf8mb4_unicode_ci", fams: strFams},
	{Dim: "charset", Label: "collate-server-default", SQL: "COLLATE utf8mb4_0900_ai_ci", fams: strFams},
	{Dim: "charset", Label: "collate-same-as-table", SQL: "COLLATE utf8mb4_0900_bin", fams: strFams},
	{Dim: "charset", Label: "collate-other-charset", SQL: "COLLATE latin1_general_cs", fams: strFams},
	{Dim: "charset", Label: "charset+collate", SQL: "CHARACTER SET latin1 COLLATE latin1_bin", fams: strFams},
	{Dim: "charset", Label: "charset+default-collate", SQL: "CHARACTER SET latin1 COLLATE latin1_swedish_ci", fams: strFams},
	{Dim: "charset", Label: "charset+collate", SQL: "CHARACTER SET utf8mb4 COLLATE utf8mb4_general_ci", fams: strFams},
	{Dim: "charset", Label: "binary-attribute", SQL: "BINARY", fams: "char text"},

	// SRID (spatial)
	{Dim: "srid", Label: "srid-0", SQL: "SRID 0", fams: "point geometry"},
	{Dim: "srid", Label: "srid-4326", SQL: "SRID 4326", fams: "point geometry"},

	// literal defaults
	{Dim: "default", Label: "default-null", SQL: "DEFAULT NULL"},
	{Dim: "default", Label: "literal-int", SQL: "DEFAULT 5", fams: numFams + " bit year"},
	{Dim: "default", Label: "literal-int", SQL: "DEFAULT 0", fams: numFams + " bit"},
	{Dim: "default", Label: "literal-negative", SQL: "DEFAULT -3", fams: numFams},
	{Dim: "default", Label: "literal-quoted-number", SQL: "DEFAULT '7'", fams: numFams},
	{Dim: "default", Label: "literal-bool", SQL: "DEFAULT TRUE", fams: "int"},
	{Dim: "default", Label: "literal-bool", SQL: "DEFAULT FALSE", fams: "int"},
	{Dim: "default", Label: "literal-fraction", SQL: "DEFAULT 1.5", fams: "float decimal"},
	{Dim: "default", Label: "literal-fraction", SQL: "DEFAULT -0.25", fams: "float decimal"},
	{Dim: "default", Label: "literal-exponent", SQL: "DEFAULT 1e3", fams: "float"},
	{Dim: "default", Label: "literal-bit", SQL: "DEFAULT b'1'", fams: "bit"},
	{Dim: "default", Label: "literal-bit", SQL: "DEFAULT b'101'", fams: "bit"},
	{Dim: "default", Label: "literal-string", SQL: "DEFAULT 'abc'", fams: "char binary"},
	{Dim: "default", Label: "literal-empty-string", SQL: "DEFAULT ''", fams: "char binary"},
	{Dim: "default", Label: "literal-string-with-quote", SQL: "DEFAULT 'it''s'", fams: "char binary"},
	{Dim: "default", Label: "literal-string-with-backslash", SQL: `DEFAULT 'a\\b'`, fams: "char binary"},
	{Dim: "default", Label: "literal-string-double-quoted", SQL: `DEFAULT "x y"`, fams: "char binary"},
	{Dim: "default", Label: "literal-string-NULL-word", SQL: "DEFAULT 'NULL'", fams: "char binary"},
	{Dim: "default", Label: "literal-string-non-ascii", SQL: "DEFAULT 'é'", fams: "char"},
	{Dim: "default", Label: "literal-string-digits", SQL: "DEFAULT '12'", fams: "char binary"},
	{Dim: "default", Label: "literal-number-for-string", SQL: "DEFAULT 12", fams: "char"},
	{Dim: "default", Label: "literal-hex", SQL: "DEFAULT 0x4142", fams: "binary char"},
	{Dim: "default", Label: "literal-hex", SQL: "DEFAULT x'4142'", fams: "binary"},
	{Dim: "default", Label: "literal-date", SQL: "DEFAULT '2020-01-02'", fams: "date datetime timestamp"},
	{Dim: "default", Label: "literal-datetime", SQL: "DEFAULT '2020-01-02 03:04:05'", fams: "datetime timestamp"},
	{Dim: "default", Label: "literal-datetime-fraction", SQL: "DEFAULT '2020-01-02 03:04:05.123456'", fams: "datetime timestamp"},
	{Dim: "default", Label: "current-timestamp", SQL: "DEFAULT CURRENT_TIMESTAMP", fams: "datetime timestamp"},
	{Dim: "default", Label: "current-timestamp", SQL: "DEFAULT NOW()", fams: "datetime timestamp"},
	{Dim: "default", Label: "current-timestamp-fsp", SQL: "DEFAULT CURRENT_TIMESTAMP(6)", fams: "datetime timestamp"},
	{Dim: "default", Label: "current-timestamp-fsp", SQL: "DEFAULT CURRENT_TIMESTAMP(3)", fams: "datetime timestamp"},
	{Dim: "default", Label: "literal-time", SQL: "DEFAULT '10:11:12'", fams: "time"},
	{Dim: "default", Label: "literal-time", SQL: "DEFAULT '-01:02:03'", fams: "time"},
	{Dim: "default", Label: "literal-year", SQL: "DEFAULT '2021'", fams: "year"},
	{Dim: "default", Label: "literal-member", SQL: "DEFAULT 'a'", fams: "enum set"},
	{Dim: "default", Label: "literal-member-index", SQL: "DEFAULT 1", fams: "enum set"},
	{Dim: "default", Label: "literal-set-list", SQL: "DEFAULT 'a,b'", fams: "set"},
	{Dim: "default", Label: "literal-empty-string", SQL: "DEFAULT ''", fams: "set"},
	// expression defaults
	{Dim: "default", Label: "expr-arith", SQL: "DEFAULT (1 + 2)", fams: numFams + " bit"},
	{Dim: "default", Label: "expr-func", SQL: "DEFAULT (abs(-4))", fams: numFams},
	{Dim: "default", Label: "expr-nested", SQL: "DEFAULT ((1 + 2) * 3)", fams: numFams},
	{Dim: "default", Label: "expr-nested", SQL: "DEFAULT (10 - (4 - 3))", fams: numFams},
	{Dim: "default", Label: "expr-column-ref", SQL: "DEFAULT ($k + 1)", fams: numFams},
	{Dim: "default", Label: "expr-literal", SQL: "DEFAULT (1.5)", fams: "float decimal"},
	{Dim: "default", Label: "expr-literal", SQL: "DEFAULT ('abc')", fams: "char binary text blob"},
	{Dim: "default", Label: "expr-func", SQL: "DEFAULT (concat('a', 'b'))", fams: "char binary text blob"},
	{Dim: "default", Label: "expr-func-quote", SQL: "DEFAULT (concat('it''s', \"q\"))", fams: "char text"},
	{Dim: "default", Label: "expr-column-ref", SQL: "DEFAULT (concat('v', $k))", fams: "char text"},
	{Dim: "default", Label: "expr-case", SQL: "DEFAULT (case when 1 < 2 then 'a' else 'b' end)", fams: "char text enum"},
	{Dim: "default", Label: "expr-literal", SQL: "DEFAULT ('a')", fams: "enum set"},
	{Dim: "default", Label: "expr-func", SQL: "DEFAULT (json_object('a', 1))", fams: "json"},
	{Dim: "default", Label: "expr-literal", SQL: "DEFAULT ('[1, 2]')", fams: "json"},
	{Dim: "default", Label: "expr-func", SQL: "DEFAULT (point(1, 2))", fams: "point geometry"},
	{Dim: "default", Label: "expr-func", SQL: "DEFAULT (curdate())", fams: "date"},
	{Dim: "default", Label: "expr-func", SQL: "DEFAULT (current_date)", fams: "date"},
	{Dim: "default", Label: "expr-func", SQL: "DEFAULT (now())", fams: "datetime timestamp"},
	{Dim: "default", Label: "expr-func", SQL: "DEFAULT (date_add('2020-01-01', interval 1 day))", fams: "date datetime"},
	{Dim: "default", Label: "expr-literal", SQL: "DEFAULT ('2020-01-02')", fams: "date datetime timestamp"},
	{Dim: "default", Label: "expr-func", SQL: "DEFAULT (sec_to_time(90))", fams: "time"},
	{Dim: "default", Label: "expr-arith", SQL: "DEFAULT (2000 + 20)", fams: "year"},

	// ON UPDATE
	{Dim: "onupdate", Label: "on-update", SQL: "ON UPDATE CURRENT_TIMESTAMP", fams: "datetime timestamp"},
	{Dim: "onupdate", Label: "on-update-now", SQL: "ON UPDATE NOW()", fams: "datetime timestamp"},
	{Dim: "onupdate", Label: "on-update-fsp", SQL: "ON UPDATE CURRENT_TIMESTAMP(6)", fams: "datetime timestamp"},
	{Dim: "onupdate", Label: "on-update-fsp", SQL: "ON UPDATE CURRENT_TIMESTAMP(3)", fams: "datetime timestamp"},

	// AUTO_INCREMENT (needs a key: bundled)
	{Dim: "autoinc", Label: "auto-increment-primary", SQL: "AUTO_INCREMENT PRIMARY KEY", fams: "int float"},
	{Dim: "autoinc", Label: "auto-increment-unique", SQL: "AUTO_INCREMENT UNIQUE KEY", fams: "int float"},
	{Dim: "autoinc", Label: "auto-increment-key", SQL: "AUTO_INCREMENT KEY", fams: "int float"},

	// column-level keys
	{Dim: "key", Label: "primary-key", SQL: "PRIMARY KEY", fams: "!text blob json point geometry vector"},
	{Dim: "key", Label: "unique", SQL: "UNIQUE", fams: "!text blob json point geometry vector"},
	{Dim: "key", Label: "unique", SQL: "UNIQUE KEY", fams: "!text blob json point geometry vector"},

	{Dim: "invisible", Label: "invisible", SQL: "INVISIBLE"},

	// comments
	{Dim: "comment", Label: "comment-plain", SQL: "COMMENT 'plain text'"},
	{Dim: "comment", Label: "comment-with-quote", SQL: "COMMENT 'it''s'"},
	{Dim: "comment", Label: "comment-with-backslash", SQL: `COMMENT 'a\\b'`},
	{Dim: "comment", Label: "comment-double-quoted", SQL: `COMMENT "say ""hi"""`},
	{Dim: "comment", Label: "comment-non-ascii", SQL: "COMMENT 'é ü'"},
	{Dim: "comment", Label: "comment-empty", SQL: "COMMENT ''"},
	{Dim: "comment", Label: "comment-with-newline", SQL: `COMMENT 'l1\nl2'`},

	// generated columns
	{Dim: "generated", Label: "stored", SQL: "AS ($k + 1) STORED", fams: numFams + " bit year"},
	{Dim: "generated", Label: "virtual", SQL: "AS ($k + 1) VIRTUAL", fams: numFams + " bit year"},
	{Dim: "generated", Label: "virtual-implicit", SQL: "GENERATED ALWAYS AS ($k * 2)", fams: numFams},
	{Dim: "generated", Label: "stored-nested", SQL: "AS (($k + 1) * 2) STORED", fams: numFams},
	{Dim: "generated", Label: "stored", SQL: "AS (concat('v', $k)) STORED", fams: "char binary text blob"},
	{Dim: "generated", Label: "virtual", SQL: "AS (concat('v', $k)) VIRTUAL", fams: "char binary text blob"},
	{Dim: "generated", Label: "virtual-implicit", SQL: "GENERATED ALWAYS AS (upper('it''s'))", fams: "char text"},
	{Dim: "generated", Label: "stored", SQL: "AS (if($k > 1, 'a', 'b')) STORED", fams: "enum set char"},
	{Dim: "generated", Label: "virtual", SQL: "AS (if($k > 1, 'a', 'b')) VIRTUAL", fams: "enum set char"},
	{Dim: "generated", Label: "stored", SQL: "AS (json_array($k)) STORED", fams: "json"},
	{Dim: "generated", Label: "virtual", SQL: "AS (json_array($k)) VIRTUAL", fams: "json"},
	{Dim: "generated", Label: "stored", SQL: "AS (point($k, 1)) STORED", fams: "point geometry"},
	{Dim: "generated", Label: "virtual", SQL: "AS (point($k, 1)) VIRTUAL", fams: "point geometry"},
	{Dim: "generated", Label: "stored", SQL: "AS (date_add('2020-01-01', interval $k day)) STORED", fams: "date datetime timestamp"},
	{Dim: "generated", Label: "virtual", SQL: "AS (date_add('2020-01-01', interval $k day)) VIRTUAL", fams: "date datetime timestamp"},
	{Dim: "generated", Label: "stored", SQL: "AS (sec_to_time($k)) STORED", fams: "time"},
	{Dim: "generated", Label: "virtual", SQL: "AS (sec_to_time($k)) VIRTUAL", fams: "time"},

	// inline CHECK
	{Dim: "check", Label: "check", SQL: "CHECK ($c is not null or $k is null)"},
	{Dim: "check", Label: "check-named", SQL: "CONSTRAINT ck_col CHECK ($c <> $c + 1)", fams: numFams},
	{Dim: "check", Label: "check-named", SQL: "CONSTRAINT ck_col CHECK ($c <> 'zz''z')", fams: "char text enum"},
	{Dim: "check", Label: "check-not-enforced", SQL: "CHECK ($k > 0) NOT ENFORCED"},
}

// Option dimensions that MySQL does not allow together in one column definition.
func incompatible(a, b opt) bool {
	if a.Dim == b.Dim {
		return true
	}
	pair := func(x, y string) bool { return (a.Dim == x && b.Dim == y) || (a.Dim == y && b.Dim == x) }
	switch {
	case pair("generated", "default"), pair("generated", "autoinc"), pair("generated", "onupdate"):
		return true
	case pair("autoinc", "default"), pair("autoinc", "key"):
		return true
	}
	// AUTO_INCREMENT / PRIMARY KEY with an explicit NULL
	for _, p := range [][2]opt{{a, b}, {b, a}} {
		if p[0].Dim == "null" && p[0].Label == "NULL" && (p[1].Dim == "autoinc" || (p[1].Dim == "key" && p[1].Label == "primary-key")) {
			return true
		}
		// DEFAULT NULL on a NOT NULL / key column
		if p[0].Label == "default-null" && ((p[1].Dim == "null" && p[1].Label == "NOT NULL") || (p[1].Dim == "key" && p[1].Label == "primary-key")) {
			return true
		}
	}
	return false
}

// values a probe INSERT supplies for a column of the family
var famValues = map[string][2]string{
	"int": {"1", "0"}, "float": {"1.5", "2"}, "decimal": {"1", "0.5"}, "bit": {"1", "0"},
	"char": {"'a'", "''"}, "binary": {"'a'", "'b'"}, "text": {"'hello'", "''"}, "blob": {"'hello'", "x'00ff'"},
	"date": {"'2021-02-03'", "'1999-12-31'"}, "datetime": {"'2021-02-03 04:05:06.789'", "'1999-12-31 23:59:59'"},
	"timestamp": {"'2021-02-03 04:05:06.789'", "'1999-12-31 23:59:59'"}, "time": {"'01:02:03.5'", "'-10:00:00'"}, "year": {"2001", "1999"},
	"enum": {"'a'", "1"}, "set": {"'a'", "''"}, "json": {`'{"a": 1}'`, "'[1, 2]'"},
	"point": {"point(1, 2)", "point(0, 0)"}, "geometry": {"point(1, 2)", "linestring(point(0, 0), point(1, 1))"},
	"vector": {"'[1,2,3]'", "'[0,0,0]'"},
	"any":    {"1", "0"},
}

// ---------------------------------------------------------------------------------------------
// table-level key clauses. $c = the (first) generated column, $k = helper column.

var keyClauses = []opt{
	{Dim: "tkey", Label: "primary-key", SQL: "PRIMARY KEY ($c)"},
	{Dim: "tkey", Label: "primary-key-multi", SQL: "PRIMARY KEY ($k, $c)"},
	{Dim: "tkey", Label: "primary-key-multi", SQL: "PRIMARY KEY ($c, $k)"},
	{Dim: "tkey", Label: "primary-key-prefix", SQL: "PRIMARY KEY ($c(2))"},
	{Dim: "tkey", Label: "primary-key-named", SQL: "CONSTRAINT pkname PRIMARY KEY ($k)"},
	{Dim: "tkey", Label: "unique", SQL: "UNIQUE ($c)"},
	{Dim: "tkey", Label: "unique-named", SQL: "UNIQUE KEY uk ($c)"},
	{Dim: "tkey", Label: "unique-constraint", SQL: "CONSTRAINT uq UNIQUE ($c)"},
	{Dim: "tkey", Label: "unique-multi", SQL: "UNIQUE KEY uk2 ($c, $k)"},
	{Dim: "tkey", Label: "unique-prefix", SQL: "UNIQUE KEY up ($c(3))"},
	{Dim: "tkey", Label: "key", SQL: "KEY ($c)"},
	{Dim: "tkey", Label: "key-named", SQL: "INDEX ix ($c)"},
	{Dim: "tkey", Label: "key-multi", SQL: "KEY ix2 ($k, $c)"},
	{Dim: "tkey", Label: "key-prefix", SQL: "KEY ixp ($c(2))"},
	{Dim: "tkey", Label: "key-multi-prefix", SQL: "KEY ixp2 ($k, $c(4))"},
	{Dim: "tkey", Label: "key-desc", SQL: "KEY ixd ($c DESC)"},
	{Dim: "tkey", Label: "key-comment", SQL: "KEY ixc ($c) COMMENT 'plain'"},
	{Dim: "tkey", Label: "key-comment-with-quote", SQL: "KEY ixc ($k) COMMENT 'it''s'"},
	{Dim: "tkey", Label: "key-using", SQL: "KEY ixb ($c) USING BTREE"},
	{Dim: "tkey", Label: "key-invisible", SQL: "KEY ixi ($k) INVISIBLE"},
	{Dim: "tkey", Label: "two-keys", SQL: "KEY b_second ($c), KEY a_first ($k)"},
	{Dim: "tkey", Label: "key-name-needs-quoting", SQL: "KEY `odd ``name` ($k)"},
	{Dim: "tkey", Label: "fulltext", SQL: "FULLTEXT ($c), PRIMARY KEY ($k)", fams: "char text"},
	{Dim: "tkey", Label: "fulltext-named", SQL: "FULLTEXT KEY ft ($c), UNIQUE KEY ($k)", fams: "char text"},
	{Dim: "tkey", Label: "spatial", SQL: "SPATIAL KEY sp ($c)", fams: "point geometry"},
	{Dim: "tkey", Label: "foreign-key-on-helper", SQL: "FOREIGN KEY ($k) REFERENCES p (pk)", Setup: []string{"create table p (pk int primary key)", "insert into p values (1),(2),(3),(4),(5),(6),(7),(8),(9)"}},
	{Dim: "tkey", Label: "foreign-key-named", SQL: "CONSTRAINT fk_named FOREIGN KEY ($k) REFERENCES p (pk)", Setup: []string{"create table p (pk int primary key)", "insert into p values (1),(2),(3),(4),(5),(6),(7),(8),(9)"}},
	{Dim: "tkey", Label: "foreign-key-actions", SQL: "CONSTRAINT fk_act FOREIGN KEY ($k) REFERENCES p (pk) ON DELETE CASCADE ON UPDATE SET NULL", Setup: []string{"create table p (pk int primary key)", "insert into p values (1),(2),(3),(4),(5),(6),(7),(8),(9)"}},
	{Dim: "tkey", Label: "foreign-key-actions", SQL: "CONSTRAINT fk_act FOREIGN KEY ($k) REFERENCES p (pk) ON DELETE RESTRICT ON UPDATE NO ACTION", Setup: []string{"create table p (pk int primary key)", "insert into p values (1),(2),(3),(4),(5),(6),(7),(8),(9)"}},
	{Dim: "tkey", Label: "foreign-key-actions", SQL: "CONSTRAINT fk_act FOREIGN KEY ($k) REFERENCES p (pk) ON DELETE SET NULL", Setup: []string{"create table p (pk int primary key)", "insert into p values (1),(2),(3),(4),(5),(6),(7),(8),(9)"}},
	{Dim: "tkey", Label: "foreign-key-on-column", SQL: "KEY ($c), CONSTRAINT fk_col FOREIGN KEY ($c) REFERENCES p (pc)", Setup: []string{"create table p (pc $type not null, primary key (pc))", "insert into p values ($v0)", "insert into p values ($v1)"}, fams: "!text blob json point geometry vector"},
	{Dim: "tkey", Label: "foreign-key-multi", SQL: "CONSTRAINT fk_multi FOREIGN KEY ($k, $c) REFERENCES p (pk, pc)", Setup: []string{"create table p (pk int not null, pc $type not null, primary key (pk, pc))", "insert into p values (2, $v0), (3, $v1), (5, $v0)"}, fams: "!text blob json point geometry vector"},
	{Dim: "tkey", Label: "foreign-key-self", SQL: "UNIQUE KEY self_uk ($k), CONSTRAINT fk_self FOREIGN KEY ($c) REFERENCES x ($k)", fams: "int"},
	{Dim: "tkey", Label: "check", SQL: "CHECK ($c is not null or $k is null)"},
	{Dim: "tkey", Label: "check-named", SQL: "CONSTRAINT ck_tab CHECK ($k > 0)"},
	{Dim: "tkey", Label: "check-not-enforced", SQL: "CONSTRAINT ck_ne CHECK ($k > 0) NOT ENFORCED"},
	{Dim: "tkey", Label: "check-two", SQL: "CHECK ($k > 0), CHECK ($k < 100)"},
	{Dim: "tkey", Label: "check-string-literal", SQL: "CONSTRAINT ck_str CHECK ($c <> 'it''s')", fams: "char text enum"},
	{Dim: "tkey", Label: "check-nested", SQL: "CHECK (($k + 1) * 2 > 0 and 10 - ($k - 3) > 0)"},
	{Dim: "tkey", Label: "check-function", SQL: "CHECK (coalesce($k, 0) between 0 and 50 and $k not in (7, 8))"},
}

// table options (rendered after the closing parenthesis)
var tableOpts = []opt{
	{Dim: "topt", Label: "comment-plain", SQL: "COMMENT='plain'"},
	{Dim: "topt", Label: "comment-with-quote", SQL: "COMMENT='it''s'"},
	{Dim: "topt", Label: "comment-with-backslash", SQL: `COMMENT 'a\\b'`},
	{Dim: "topt", Label: "comment-non-ascii", SQL: "COMMENT='é'"},
	{Dim: "topt", Label: "auto-increment-start", SQL: "AUTO_INCREMENT=10"},
	{Dim: "topt", Label: "engine", SQL: "ENGINE=InnoDB"},
	{Dim: "topt", Label: "charset", SQL: "DEFAULT CHARSET=latin1"},
	{Dim: "topt", Label: "charset", SQL: "CHARACTER SET utf8mb3"},
	{Dim: "topt", Label: "charset-same", SQL: "CHARSET=utf8mb4"},
	{Dim: "topt", Label: "collate", SQL: "COLLATE=utf8mb4_unicode_ci"},
	{Dim: "topt", Label: "collate-server-default", SQL: "COLLATE utf8mb4_0900_ai_ci"},
	{Dim: "topt", Label: "charset+collate", SQL: "DEFAULT CHARSET=latin1 COLLATE=latin1_bin"},
	{Dim: "topt", Label: "charset+collate", SQL: "CHARSET=utf8mb4 COLLATE=utf8mb4_general_ci"},
	{Dim: "topt", Label: "row-format", SQL: "ROW_FORMAT=DYNAMIC"},
	{Dim: "topt", Label: "several", SQL: "ENGINE=InnoDB AUTO_INCREMENT=5 DEFAULT CHARSET=latin1 COMMENT='c'"},
}

func isCharsetTopt(o opt) bool {
	return strings.Contains(o.Label, "charset") || strings.Contains(o.Label, "collate") || o.Label == "several"
}

// ---------------------------------------------------------------------------------------------
// cases

type column struct {
	Name string  `json:"name"`
	Type colType `json:"type"`
	Opts []opt   `json:"opts,omitempty"`
}

type tcase struct {
	Space string   `json:"space"`
	Cols  []column `json:"cols"`
	Keys  []opt    `json:"keys,omitempty"`
	TOpts []opt    `json:"topts,omitempty"`
}

func dimRank(d string) int {
	for i, x := range dimOrder {
		if x == d {
			return i
		}
	}
	return len(dimOrder)
}

func (c column) render() string {
	opts := append([]opt{}, c.Opts...)
	sort.SliceStable(opts, func(i, j int) bool { return dimRank(opts[i].Dim) < dimRank(opts[j].Dim) })
	parts := []string{c.Name, c.Type.SQL}
	for _, o := range opts {
		parts = append(parts, subst(o.SQL, c))
	}
	return strings.Join(parts, " ")
}

func subst(s string, c column) string {
	s = strings.ReplaceAll(s, "$c", c.Name)
	s = strings.ReplaceAll(s, "$k", "k")
	s = strings.ReplaceAll(s, "$type", c.Type.SQL)
	s = strings.ReplaceAll(s, "$v0", famValues[c.Type.Fam][0])
	s = strings.ReplaceAll(s, "$v1", famValues[c.Type.Fam][1])
	return s
}

func (t tcase) setup() []string {
	var out []string
	for _, k := range t.Keys {
		for _, s := range k.Setup {
			out = append(out, subst(s, t.Cols[0]))
		}
	}
	return out
}

func (t tcase) createSQL() string {
	parts := []string{"k int"}
	for _, c := range t.Cols {
		parts = append(parts, c.render())
	}
	for _, k := range t.Keys {
		parts = append(parts, subst(k.SQL, t.Cols[0]))
	}
	s := "CREATE TABLE x (" + strings.Join(parts, ", ") + ")"
	for _, o := range t.TOpts {
		s += " " + o.SQL
	}
	return s
}

// probes: statements whose outcomes (error class / affected rows) and the final table content
// must be the same on the original and on the re-created table.
func (t tcase) probes() []string {
	var out []string
	out = append(out, "insert into x () values ()", "insert into x (k) values (1)")
	n := 2
	for _, c := range t.Cols {
		v := famValues[c.Type.Fam]
		for _, val := range []string{v[0], v[1], "NULL", v[0]} {
			out = append(out, "insert into x (k, "+c.Name+") values ("+itoa(n)+", "+val+")")
			n++
		}
	}
	out = append(out, "update x set k = k + 20 where k = 1")
	return out
}

func itoa(n int) string {
	if n == 0 {
		return "0"
	}
	s := ""
	for n > 0 {
		s = string(rune('0'+n%10)) + s
		n /= 10
	}
	return s
}

// labels is the classifying description of a case (subject of signatures).
func (t tcase) labels() (types, opts string) {
	var ts, os []string
	for _, c := range t.Cols {
		ts = append(ts, c.Type.Fam)
		for _, o := range c.Opts {
			os = append(os, o.Dim+"="+o.Label)
		}
	}
	for _, k := range t.Keys {
		os = append(os, "tkey="+k.Label)
	}
	for _, o := range t.TOpts {
		os = append(os, "topt="+o.Label)
	}
	sort.Strings(os)
	return strings.Join(ts, "+"), strings.Join(os, ",")
}

func (t tcase) clone() tcase {
	n := tcase{Space: t.Space}
	for _, c := range t.Cols {
		n.Cols = append(n.Cols, column{Name: c.Name, Type: c.Type, Opts: append([]opt{}, c.Opts...)})
	}
	n.Keys = append([]opt{}, t.Keys...)
	n.TOpts = append([]opt{}, t.TOpts...)
	return n
}
