package c22

import (
	"strings"

	"verif/mc/core"
	"verif/mc/eng"
)

// Views, triggers, procedures and events: small grammars of headers x bodies.

type objPart struct {
	Name  string `json:"name"`
	Class string `json:"class"`
	SQL   string `json:"sql"`
	// Plain is the simplest alternative of this part (minimisation replaces the part by it when
	// the same clause keeps failing); empty = the part is not minimised.
	Plain string `json:"plain,omitempty"`
}

type objCase struct {
	Kind    string    `json:"kind"` // view | trigger | procedure | event
	Parts   []objPart `json:"parts"`
	Setup   []string  `json:"setup"`
	Show    string    `json:"show"`
	ShowCol int       `json:"show_col"`
	Drop    string    `json:"drop"`
	Info    string    `json:"info"`
	Probes  []string  `json:"probes"`
	Final   string    `json:"final"`
}

type hb struct{ class, sql string }

func (c objCase) Create() string {
	var sb strings.Builder
	for _, p := range c.Parts {
		sb.WriteString(p.SQL)
	}
	return sb.String()
}

func (c objCase) subject() map[string]string {
	m := map[string]string{}
	for _, p := range c.Parts {
		if p.Class != "plain" && p.Class != "" {
			m[p.Name] = p.Class
		}
	}
	return m
}

func part(name string, h hb, plain string) objPart {
	p := objPart{Name: name, Class: h.class, SQL: h.sql, Plain: plain}
	if h.sql == strings.TrimPrefix(plain, "\x00") {
		p.Class = "plain"
	}
	return p
}

var objSetup = []string{
	"create table t (a int primary key, b varchar(20))",
	"create table log (id int auto_increment primary key, msg varchar(50))",
	"insert into t values (1, 'x'), (2, 'y'), (3, null)",
}

func objectCases() []objCase {
	var out []objCase

	// ---- views
	vh := []hb{
		{"plain", "CREATE VIEW v AS "},
		{"or-replace", "CREATE OR REPLACE VIEW v AS "},
		{"algorithm", "CREATE ALGORITHM=MERGE VIEW v AS "},
		{"definer", "CREATE DEFINER=`root`@`localhost` VIEW v AS "},
		{"sql-security", "CREATE SQL SECURITY INVOKER VIEW v AS "},
		{"column-list", "CREATE VIEW v (p, q) AS "},
		{"quoted-name", "CREATE VIEW `v` AS "},
		{"qualified-name", "create view mydb.v as "},
		{"leading-comment", "/* c */ CREATE VIEW v AS "},
	}
	vb := []hb{
		{"columns", "select a, b from t"},
		{"star", "select * from t"},
		{"expressions-where", "select a + 1 as p, upper(b) as q from t where a > 1"},
		{"order-limit", "select a, b from t order by a desc limit 2"},
		{"join", "select t.a, u.b from t join t u on t.a = u.a"},
		{"literals-with-quote", "select 1 as p, 'it''s' as q"},
		{"group-by", "select a, count(*) as q from t group by a"},
		{"union", "select a, b from t union select a + 10, b from t"},
		{"parenthesised", "(select a, b from t)"},
		{"trailing-comment", "select a, b from t /* trailing */"},
		{"cte", "with w as (select a, b from t) select a, b from w"},
		{"quoted-alias", "select a as `odd name`, b from t"},
		{"multi-line", "select a,\n  b\nfrom t"},
		{"double-quoted-string", "SELECT a, b FROM t WHERE b = \"x\""},
		{"check-option", "select a, b from t where a > 1 with check option"},
		{"subquery", "select a, (select max(a) from t) as q from t where a in (select a from t)"},
		{"trailing-semicolon", "select a, b from t;"},
	}
	for _, h := range vh {
		for _, b := range vb {
			out = append(out, objCase{Kind: "view", Parts: []objPart{part("header", h, vh[0].sql), part("body", b, vb[0].sql)}, Setup: objSetup,
				Show: "show create view v", ShowCol: 1, Drop: "drop view v",
				Info:   "select table_name, view_definition, check_option, is_updatable, definer, security_type from information_schema.views where table_schema = 'mydb'",
				Probes: []string{"select * from v", "insert into t values (4, 'z')", "select * from v", "describe v"}, Final: "select * from t"})
		}
	}

	// ---- triggers
	th := []hb{
		{"plain", "CREATE TRIGGER tr "},
		{"definer", "CREATE DEFINER=`root`@`localhost` TRIGGER tr "},
		{"quoted-name", "CREATE TRIGGER `tr` "},
		{"qualified-name", "create trigger mydb.tr "},
		{"leading-comment", "/* c */ CREATE TRIGGER tr "},
	}
	type tb struct {
		class, when, body string
	}
	anyWhen := []string{"BEFORE INSERT", "AFTER INSERT", "BEFORE UPDATE", "AFTER UPDATE", "BEFORE DELETE", "AFTER DELETE"}
	var tbs []tb
	for _, w := range anyWhen {
		tbs = append(tbs,
			tb{"insert-literal", w, "INSERT INTO log (msg) VALUES ('fired')"},
			tb{"block-two-statements-quotes", w, "BEGIN INSERT INTO log (msg) VALUES ('it''s'); INSERT INTO log (msg) VALUES (\"two\"); END"},
			tb{"block-declare-if", w, "begin declare v int default 0; if v = 0 then insert into log (msg) values (concat('v', v)); end if; end"},
			tb{"multi-line-comment", w, "BEGIN\n  -- note\n  INSERT INTO log (msg) VALUES ('x'); /* c */\nEND"},
		)
	}
	for _, w := range []string{"BEFORE INSERT", "BEFORE UPDATE"} {
		tbs = append(tbs,
			tb{"set-new", w, "SET NEW.b = upper(NEW.b)"},
			tb{"block-set-new-if", w, "BEGIN IF NEW.a < 0 THEN SET NEW.a = 0; END IF; SET NEW.b = concat(NEW.b, '!'); END"},
		)
	}
	for _, w := range []string{"AFTER INSERT", "AFTER UPDATE"} {
		tbs = append(tbs, tb{"reference-new", w, "INSERT INTO log (msg) VALUES (concat('row ', NEW.a, ' ', NEW.b))"})
	}
	for _, w := range []string{"AFTER UPDATE", "BEFORE DELETE", "AFTER DELETE"} {
		tbs = append(tbs, tb{"reference-old", w, "INSERT INTO log (msg) VALUES (concat('old ', OLD.a))"})
	}
	trProbes := []string{"insert into t values (5, 'new')", "insert into t values (-1, 'neg')", "update t set b = 'upd' where a = 1", "delete from t where a = 2", "select * from log"}
	for _, h := range th {
		for _, b := range tbs {
			out = append(out, objCase{Kind: "trigger", Parts: []objPart{part("header", h, th[0].sql), {Name: "when", Class: strings.ToLower(b.when), SQL: b.when + " ON t FOR EACH ROW "}, part("body", hb{b.class, b.body}, tbs[0].body)}, Setup: objSetup,
				Show: "show create trigger tr", ShowCol: 2, Drop: "drop trigger tr",
				Info:   "select trigger_name, event_manipulation, event_object_table, action_order, action_statement, action_timing, definer from information_schema.triggers where trigger_schema = 'mydb' order by trigger_name",
				Probes: trProbes, Final: "select * from t"})
		}
	}
	// ordering clauses need a second trigger
	for _, ord := range []string{"FOLLOWS tr0", "PRECEDES tr0"} {
		setup := append(append([]string{}, objSetup...), "create trigger tr0 before insert on t for each row set new.b = concat(new.b, '0')")
		out = append(out, objCase{Kind: "trigger", Parts: []objPart{{Name: "header", Class: "plain", SQL: "CREATE TRIGGER tr BEFORE INSERT ON t FOR EACH ROW "}, {Name: "order", Class: strings.ToLower(strings.Fields(ord)[0]), SQL: ord + " "}, {Name: "body", Class: "set-new", SQL: "SET NEW.b = concat(NEW.b, '1')"}}, Setup: setup,
			Show: "show create trigger tr", ShowCol: 2, Drop: "drop trigger tr",
			Info:   "select trigger_name, event_manipulation, event_object_table, action_order, action_statement, action_timing, definer from information_schema.triggers where trigger_schema = 'mydb' order by trigger_name",
			Probes: trProbes, Final: "select * from t"})
	}

	// ---- procedures
	ph := []hb{
		{"plain", "CREATE PROCEDURE pr"},
		{"definer", "CREATE DEFINER=`root`@`localhost` PROCEDURE pr"},
		{"quoted-name", "CREATE PROCEDURE `pr`"},
		{"qualified-name", "create procedure mydb.pr"},
	}
	type pp struct {
		class, params string
		calls         []string
		bodies        []hb
	}
	generic := []hb{
		{"select", "SELECT 1"},
		{"block-select", "BEGIN SELECT 1; END"},
		{"block-declare-set", "BEGIN DECLARE v int DEFAULT 0; SET v = v + 1; SELECT v; END"},
		{"insert-with-quote", "INSERT INTO log (msg) VALUES ('it''s')"},
		{"block-if-else", "BEGIN IF 1 < 2 THEN SELECT 'a'; ELSE SELECT \"b\"; END IF; END"},
		{"multi-line-comment", "BEGIN\n  -- note\n  SELECT 2; /* c */\nEND"},
	}
	pps := []pp{
		{"none", "()", []string{"call pr()"}, generic},
		{"one-in", "(x int)", []string{"call pr(1)"}, append([]hb{{"use-param", "SELECT x + 1"}}, generic[:2]...)},
		{"in-out", "(IN x int, OUT y int)", []string{"set @y = 0", "call pr(1, @y)", "select @y"}, append([]hb{{"set-out", "SET y = x + 1"}}, generic[:1]...)},
		{"inout-string", "(INOUT x varchar(10))", []string{"set @x = 'a'", "call pr(@x)", "select @x"}, append([]hb{{"set-inout", "BEGIN SET x = concat(x, '!'); END"}}, generic[:1]...)},
		{"typed", "(x decimal(10,2), y datetime, z enum('a','b'))", []string{"call pr(1.5, '2020-01-01', 'a')"}, append([]hb{{"use-param", "SELECT x, y, z"}}, generic[:1]...)},
	}
	chars := []hb{
		{"none", ""}, {"deterministic", "DETERMINISTIC "}, {"comment-with-quote", "COMMENT 'it''s' "}, {"sql-security", "SQL SECURITY INVOKER "},
		{"reads-sql-data", "READS SQL DATA "}, {"several", "NOT DETERMINISTIC CONTAINS SQL LANGUAGE SQL COMMENT 'c' "},
	}
	for _, h := range ph {
		for _, p := range pps {
			for _, c := range chars {
				for _, b := range p.bodies {
					out = append(out, objCase{Kind: "procedure", Parts: []objPart{part("header", h, ph[0].sql), {Name: "params", Class: p.class, SQL: p.params + " "}, part("characteristic", c, "\x00"), part("body", b, p.bodies[len(p.bodies)-1].sql)}, Setup: objSetup,
						Show: "show create procedure pr", ShowCol: 2, Drop: "drop procedure pr",
						Info:   "select routine_name, routine_type, routine_definition, is_deterministic, sql_data_access, security_type, routine_comment, definer from information_schema.routines where routine_schema = 'mydb'",
						Probes: append(append([]string{}, p.calls...), "select routine_name, param_list, data_type, parameter_mode, parameter_name, ordinal_position from information_schema.parameters where specific_schema = 'mydb' order by ordinal_position", "select * from log"), Final: "select * from t"})
				}
			}
		}
	}

	// ---- events
	eh := []hb{
		{"plain", "CREATE EVENT ev "},
		{"definer", "CREATE DEFINER=`root`@`localhost` EVENT ev "},
		{"quoted-name", "CREATE EVENT `ev` "},
	}
	scheds := []hb{
		{"at-literal", "ON SCHEDULE AT '2030-01-01 00:00:00' "},
		{"at-expression", "ON SCHEDULE AT CURRENT_TIMESTAMP + INTERVAL 1 DAY "},
		{"every", "ON SCHEDULE EVERY 1 DAY "},
		{"every-starts", "ON SCHEDULE EVERY 2 HOUR STARTS '2030-01-01 00:00:00' "},
		{"every-starts-ends", "ON SCHEDULE EVERY 1 MONTH STARTS '2030-01-01 00:00:00' ENDS '2031-01-01 00:00:00' "},
		{"every-compound-interval", "ON SCHEDULE EVERY '1:30' HOUR_MINUTE "},
	}
	eopts := []hb{
		{"none", ""}, {"preserve", "ON COMPLETION PRESERVE "}, {"not-preserve", "ON COMPLETION NOT PRESERVE "}, {"disable", "DISABLE "}, {"enable", "ENABLE "},
		{"comment-with-quote", "COMMENT 'it''s' "}, {"several", "ON COMPLETION PRESERVE DISABLE COMMENT 'c' "},
	}
	ebodies := []hb{
		{"insert", "INSERT INTO log (msg) VALUES ('ev')"},
		{"insert-with-quote", "INSERT INTO log (msg) VALUES ('it''s')"},
		{"block", "BEGIN INSERT INTO log (msg) VALUES ('a'); INSERT INTO log (msg) VALUES (\"b\"); END"},
	}
	for _, h := range eh {
		for _, sc := range scheds {
			for _, o := range eopts {
				for _, b := range ebodies {
					out = append(out, objCase{Kind: "event", Parts: []objPart{part("header", h, eh[0].sql), part("schedule", sc, scheds[0].sql), part("option", o, "\x00"), {Name: "do", Class: "plain", SQL: "DO "}, part("body", b, ebodies[0].sql)}, Setup: objSetup,
						Show: "show create event ev", ShowCol: 3, Drop: "drop event ev",
						Info:   "select event_name, definer, event_body, event_definition, event_type, execute_at, interval_value, interval_field, starts, ends, status, on_completion, event_comment from information_schema.events where event_schema = 'mydb'",
						Probes: []string{"show events"}, Final: "select * from log"})
				}
			}
		}
	}
	return out
}

func infoRows(s *eng.Session, q string) string {
	res := s.Exec(q)
	if res.Err != nil {
		return "error:" + eng.ErrClass(res.Err) + " " + res.Err.Error()
	}
	return strings.Join(res.RowStrings(), " ")
}

func runObject(c objCase) outcome {
	build := func() *eng.Session {
		e := eng.New()
		// with no account at all the session has no privilege set and information_schema
		// views / triggers / routines list nothing
		e.E.Analyzer.Catalog.MySQLDb.AddRootAccount()
		s := e.NewSession("root")
		for _, q := range c.Setup {
			s.MustExec(q)
		}
		return s
	}
	// engine A: original object, its behaviour
	sa := build()
	res := sa.Exec(c.Create())
	if res.Panic != nil {
		return outcome{Class: "create-panic"}
	}
	if res.Err != nil {
		return outcome{Class: "rejected:" + eng.ErrClass(res.Err)}
	}
	out := outcome{Class: "accepted"}
	s1, r1 := showCreate(sa, c.Show, c.ShowCol)
	if s1 == "" {
		out.F = &finding{Clause: "show-create-succeeds", Kind: errKind(r1), Part: "original", Observed: errText(r1), Expected: "one row"}
		return out
	}
	out.Show = s1
	i1 := infoRows(sa, c.Info)
	p1 := runProbes(sa, c.Probes, c.Final)
	out.Probes = p1

	// engine B: create, drop, execute the printed statement
	sb := build()
	sb.Exec(c.Create())
	if res := sb.Exec(c.Drop); res.Err != nil {
		out.F = &finding{Clause: "drop-succeeds", Kind: errKind(res), Part: "drop", Observed: errText(res), Expected: "ok"}
		return out
	}
	res = sb.Exec(s1)
	if res.Err != nil {
		out.F = &finding{Clause: "recreate-accepted", Kind: errKind(res), Part: stmtPart(res), Observed: errText(res) + "   statement: " + s1, Expected: "the printed statement executes"}
		return out
	}
	s2, r2 := showCreate(sb, c.Show, c.ShowCol)
	if s2 == "" {
		out.F = &finding{Clause: "show-create-succeeds", Kind: errKind(r2), Part: "recreated", Observed: errText(r2), Expected: "one row"}
		return out
	}
	if s1 != s2 {
		out.F = &finding{Clause: "text-identical", Kind: "differs", Part: "statement", Observed: s2, Expected: s1}
		return out
	}
	if i2 := infoRows(sb, c.Info); i1 != i2 {
		out.F = &finding{Clause: "information-schema-identical", Kind: "differs", Part: "row", Observed: i2, Expected: i1}
		return out
	}
	p2 := runProbes(sb, c.Probes, c.Final)
	for i := range p1 {
		if p1[i] != p2[i] {
			out.F = &finding{Clause: "behaves-the-same", Kind: "differs", Part: "statement-outcome", Observed: p2[i], Expected: p1[i]}
			return out
		}
	}
	return out
}

func checkObject(r *core.Run, c objCase) {
	o := runObject(c)
	r.Outcome(c.Kind + ":" + o.Class)
	if o.Class != "accepted" {
		if strings.HasPrefix(o.Class, "rejected") {
			r.Count("skipped_rejected_by_engine", 1)
			r.Count("skipped_"+c.Kind+"_"+strings.TrimPrefix(o.Class, "rejected:"), 1)
			if strings.HasSuffix(o.Class, ":unsupported") || strings.HasSuffix(o.Class, ":parse") {
				r.Count("skipped_unsupported", 1)
			}
		} else {
			r.Count("skipped_create_panic", 1)
		}
		return
	}
	r.NonTrivial(c.Kind + "|" + c.Create())
	if o.F == nil {
		if r.WantSample() && len(c.subject()) >= 2 {
			r.Sample(map[string]any{"create": c.Create(), "show_create": o.Show, "recreated_identically": true, "probe_outcomes": o.Probes})
		}
		return
	}
	f := o.F
	// minimise: replace each part by its plain alternative while the same clause keeps failing
	for i := range c.Parts {
		p := c.Parts[i]
		if p.Plain == "" || p.Class == "plain" {
			continue
		}
		alt := c
		alt.Parts = append([]objPart{}, c.Parts...)
		alt.Parts[i].SQL, alt.Parts[i].Class = strings.TrimPrefix(p.Plain, "\x00"), "plain"
		if o2 := runObject(alt); o2.F != nil && o2.F.same(f) {
			c, f = alt, o2.F
		}
	}
	w := witness{Object: c.Kind, Obj: &c, SQL: append(append([]string{}, c.Setup...), c.Create())}
	subj := c.subject()
	subj["part"] = f.Part
	r.Violate(core.Violation{
		Check: c.Kind, Clause: f.Clause, Kind: f.Kind,
		Subject:  subj,
		Witness:  core.J(w),
		Observed: f.Observed, Expected: f.Expected,
	})
}
