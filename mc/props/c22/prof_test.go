package c22

import "testing"

func BenchmarkCase(b *testing.B) {
	all, _ := allTypes()
	frozen(func() {
		for i := 0; i < b.N; i++ {
			ct := all[i%len(all)]
			runTable(tcase{Space: "type", Cols: []column{colC(ct)}})
		}
	})
}
