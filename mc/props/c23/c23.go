package c23

import (
	"encoding/json"
	"fmt"
	"runtime/debug"
	"strconv"
	"strings"

	"github.com/dolthub/go-mysql-server/sql"

	"verif/mc/core"
	"verif/mc/eng"
	"verif/mc/hist"
)

// ---------------------------------------------------------------- trigger programs

// kinds: every (time, event, body) that MySQL accepts: SET NEW only in BEFORE INSERT/UPDATE.
func kinds() []trig {
	var out []trig
	for time := 0; time < 2; time++ {
		for ev := 0; ev < 3; ev++ {
			for body := 0; body < 3; body++ {
				if body == bSet && (time == tAfter || ev == eDelete) {
					continue
				}
				out = append(out, trig{Time: time, Event: ev, Body: body})
			}
		}
	}
	return out
}

// programs enumerates every multiset of at most maxTrig trigger kinds (a kind may repeat only
// for audit bodies - two SIGNALs / the same SET twice add nothing) in canonical creation order,
// and for every trigger that shares its (time, event) with an earlier one every placement:
// default, FOLLOWS x, PRECEDES x for each earlier x of the same (time, event).
func programs(maxTrig int) []program {
	ks := kinds()
	var out []program
	var place func(p program, i int)
	place = func(p program, i int) {
		if i == len(p) {
			out = append(out, append(program(nil), p...))
			return
		}
		p[i].Order, p[i].Ref = 0, 0
		place(p, i+1)
		for j := 0; j < i; j++ {
			if p[j].slot() == p[i].slot() {
				for ord := 1; ord <= 2; ord++ {
					p[i].Order, p[i].Ref = ord, j
					place(p, i+1)
				}
			}
		}
		p[i].Order, p[i].Ref = 0, 0
	}
	var rec func(start int, cur program)
	rec = func(start int, cur program) {
		place(append(program(nil), cur...), 0)
		if len(cur) == maxTrig {
			return
		}
		for k := start; k < len(ks); k++ {
			next := k + 1
			if ks[k].Body == bAudit {
				next = k // an audit kind may be taken again
			}
			// at most two of the same kind
			cnt := 0
			for _, t := range cur {
				if t.Time == ks[k].Time && t.Event == ks[k].Event && t.Body == ks[k].Body {
					cnt++
				}
			}
			if cnt >= 2 {
				continue
			}
			rec(next, append(append(program(nil), cur...), ks[k]))
		}
	}
	rec(0, nil)
	return out
}

// ---------------------------------------------------------------- statements and start states

func ins(ignore bool, rows ...[2]int) stmt {
	var vs []string
	for _, r := range rows {
		vs = append(vs, fmt.Sprintf("(%d,%d)", r[0], r[1]))
	}
	kw := "insert"
	if ignore {
		kw = "insert ignore"
	}
	return stmt{kind: eInsert, ignore: ignore, rows: rows, sql: fmt.Sprintf("%s into t values %s", kw, strings.Join(vs, ","))}
}

func alphabet() []stmt {
	return []stmt{
		ins(false, [2]int{5, 50}),
		ins(false, [2]int{5, 50}, [2]int{6, 60}),
		ins(false, [2]int{5, 50}, [2]int{3, 30}, [2]int{6, 60}), // a = 3 in the middle: SIGNAL triggers fail the statement
		ins(false, [2]int{7, 70}, [2]int{1, 10}),                // second row is a duplicate when 1 exists
		ins(true, [2]int{5, 50}, [2]int{1, 10}, [2]int{6, 60}),  // IGNORE: the duplicate row is skipped
		{kind: eUpdate, setB: func(a, b int) int { return b + 5 }, where: func(a int) bool { return a == 1 }, sql: "update t set b = b + 5 where a = 1"},
		{kind: eUpdate, setB: func(a, b int) int { return 0 }, sql: "update t set b = 0"},
		{kind: eUpdate, setA: func(a, b int) int { return 3 }, where: func(a int) bool { return a == 2 }, sql: "update t set a = 3 where a = 2"},
		{kind: eUpdate, setA: func(a, b int) int { return a + 10 }, sql: "update t set a = a + 10"},
		{kind: eUpdate, setB: func(a, b int) int { return b }, where: func(a int) bool { return a == 1 }, sql: "update t set b = b where a = 1"},
		{kind: eDelete, where: func(a int) bool { return a == 1 }, sql: "delete from t where a = 1"},
		{kind: eDelete, sql: "delete from t"},
		{kind: eDelete, where: func(a int) bool { return a >= 2 }, sql: "delete from t where a >= 2"},
	}
}

var starts = [][][2]int{
	nil,
	{{1, 10}},
	{{1, 10}, {2, 20}, {3, 30}},
}

var startNames = []string{"empty", "one-row", "three-rows"}

// ---------------------------------------------------------------- step

type caseID struct {
	Program program  `json:"program"`
	Labels  string   `json:"triggers"`
	Start   int      `json:"start"`
	DDL     []string `json:"ddl"`
	SQL     []string `json:"sql"`
}

func errClass(err error) string {
	if err == nil {
		return "ok"
	}
	if strings.HasPrefix(err.Error(), "panic:") {
		return "panic"
	}
	err = sql.UnwrapError(err)
	if strings.Contains(err.Error(), "(errno 1644)") {
		return "signal"
	}
	return eng.ErrClass(err)
}

type stepper struct {
	r     *core.Run
	p     program
	start int
	ops   []stmt
}

func (sp *stepper) ddl() []string {
	out := []string{
		"create table t (a int primary key, b int)",
		"create table audit (seq int primary key auto_increment, trg varchar(10), olda int, newa int, newb int)",
	}
	if len(starts[sp.start]) > 0 {
		out = append(out, ins(false, starts[sp.start]...).sql)
	}
	for i, t := range sp.p {
		out = append(out, t.ddl(i))
	}
	return out
}

func (sp *stepper) witness(h []int) json.RawMessage {
	sqls := make([]string, len(h))
	for i, x := range h {
		sqls[i] = sp.ops[x].sql
	}
	return core.J(caseID{Program: sp.p, Labels: sp.p.String(), Start: sp.start, DDL: sp.ddl(), SQL: sqls})
}

func atoi(v any) int {
	if v == nil {
		return null
	}
	n, err := strconv.Atoi(eng.FormatValue(v))
	if err != nil {
		panic(fmt.Sprintf("c23: unexpected value %v", v))
	}
	return n
}

func readState(s *eng.Session) (*state, error) {
	st := &state{rows: map[int]int{}}
	r := s.Exec("select a, b from t")
	if r.Err != nil {
		return nil, r.Err
	}
	for _, row := range r.Rows {
		st.rows[atoi(row[0])] = atoi(row[1])
	}
	if len(st.rows) != len(r.Rows) {
		return nil, fmt.Errorf("duplicate primary key in t: %v", r.RowStrings())
	}
	r = s.Exec("select trg, olda, newa, newb from audit order by seq")
	if r.Err != nil {
		return nil, r.Err
	}
	for _, row := range r.Rows {
		st.audit = append(st.audit, auditRow{trg: fmt.Sprint(row[0]), olda: atoi(row[1]), newa: atoi(row[2]), newb: atoi(row[3])})
	}
	return st, nil
}

// shape classifies the trigger program for signatures: which bodies at which time for the
// statement's event.
func (sp *stepper) shape(st stmt) string {
	var parts []string
	f := sp.p.firing()
	for time := 0; time < 2; time++ {
		for _, ti := range f[time*3+st.kind] {
			parts = append(parts, timeSQL[time]+"-"+bodyName[sp.p[ti].Body])
		}
	}
	if len(parts) == 0 {
		return "no-trigger-for-event"
	}
	return strings.Join(parts, ",")
}

func (sp *stepper) subject(st stmt, outs []*outcome) map[string]string {
	ev := eventSQL[st.kind]
	if st.ignore {
		ev += "-ignore"
	}
	fail := "none"
	fired := "no"
	if len(outs) > 0 && outs[0].err != "" {
		fail = outs[0].failAt
	}
	if len(outs) > 0 && outs[0].fired > 0 {
		fired = "yes"
	}
	// how many triggers share one (time, event) slot of this statement's event, and how many of
	// them were created with FOLLOWS / PRECEDES
	slotMax, placed := 0, 0
	for time := 0; time < 2; time++ {
		n, pl := 0, 0
		for _, t := range sp.p {
			if t.Time == time && t.Event == st.kind {
				n++
				if t.Order != 0 {
					pl++
				}
			}
		}
		if n > slotMax || (n == slotMax && pl > placed) {
			slotMax, placed = n, pl
		}
	}
	return map[string]string{"event": ev, "triggers": sp.shape(st), "model_failure": fail, "trigger_fired": fired,
		"same_slot": fmt.Sprint(slotMax), "explicit_placements": fmt.Sprint(placed)}
}

func (sp *stepper) Step(h []int) (string, bool) {
	r := sp.r
	e := eng.New()
	s := e.NewSession("root")
	nfix := 2
	if len(starts[sp.start]) > 0 {
		nfix = 3
	}
	for i, q := range sp.ddl() {
		if res := s.Exec(q); res.Err != nil {
			if i < nfix {
				panic("c23 fixture failed: " + q + ": " + res.Err.Error())
			}
			// the engine rejects a trigger definition
			if len(h) == 1 && h[0] == 0 {
				cls := errClass(res.Err)
				if cls == "unsupported" || cls == "parse" {
					r.Count("skipped_unsupported", 1)
					r.Note("trigger rejected: " + q + ": " + res.Err.Error())
				} else {
					r.Violate(core.Violation{Check: "create", Clause: "trigger-definition-accepted", Kind: "rejected:" + cls,
						Subject: map[string]string{"triggers": sp.p.String()}, Witness: sp.witness(nil), Observed: res.Err.Error()})
				}
			}
			return hist.Disabled, false
		}
	}
	m := &state{rows: map[int]int{}}
	for _, row := range starts[sp.start] {
		m.rows[row[0]] = row[1]
	}
	for i, oi := range h {
		st := sp.ops[oi]
		last := i == len(h)-1
		outs := run(sp.p, m, st)
		res := s.Exec(st.sql)
		if !last && len(outs) == 1 {
			m = outs[0].st
			continue
		}
		cls := errClass(res.Err)
		got, err := readState(s)
		if err != nil {
			if last {
				r.Violate(core.Violation{Check: "step", Clause: "tables-readable", Kind: "unexpected-error", Subject: sp.subject(st, outs), Witness: sp.witness(h), Observed: err.Error()})
			}
			return "", false
		}
		var match *outcome
		for _, oc := range outs {
			if oc.st.String() == got.String() && ((oc.err == "" && cls == "ok") || (oc.err != "" && oc.err == cls)) {
				match = oc
				break
			}
		}
		if !last {
			if match == nil {
				return "", false
			}
			m = match.st
			continue
		}
		ev := eventSQL[st.kind]
		r.Outcome(ev + " -> " + cls)
		if match == nil {
			sp.report(h, st, m, outs, cls, got, res)
			return "", false
		}
		if match.fired > 0 {
			r.NonTrivial(sp.p.String() + "/" + fmt.Sprint(sp.start) + "/" + fmt.Sprint(h))
		}
		r.Max("max_trigger_invocations_per_statement", int64(match.fired))
		m = match.st
	}
	return m.String(), true
}

func (sp *stepper) report(h []int, st stmt, before *state, outs []*outcome, cls string, got *state, res *eng.Result) {
	var exp []string
	allErr, allOK := true, true
	for _, oc := range outs {
		c := oc.err
		if c == "" {
			c = "ok"
			allErr = false
		} else {
			allOK = false
		}
		exp = append(exp, "["+c+"] "+oc.st.String())
	}
	obs := "[" + cls + "] " + got.String()
	if res.Err != nil {
		obs += " -- " + res.Err.Error()
	}
	clause, kind := "audit-and-rows-equal-model", "wrong-state"
	switch {
	case cls == "panic":
		clause, kind = "no-panic", "panic"
		obs += "\n" + core.TopFrame(res.Stack)
	case cls != "ok" && got.String() != before.String():
		clause = "failed-statement-discards-all-effects"
		var kept []string
		if got.rowsString() != before.rowsString() {
			kept = append(kept, "rows")
		}
		if fmtAudit(got.audit) != fmtAudit(before.audit) {
			kept = append(kept, "audit")
		}
		kind = "kept:" + strings.Join(kept, "+")
	case cls == "ok" && allErr:
		clause, kind = "failing-statement-fails", "accepted"
	case cls != "ok" && allOK:
		clause, kind = "valid-statement-succeeds", "rejected:"+cls
	case cls != "ok" && allErr:
		clause, kind = "error-class", "class:"+cls
	case cls == "ok" && got.rowsString() != outs[0].st.rowsString():
		clause, kind = "stored-rows-reflect-before-triggers", "wrong-rows"
	case cls == "ok":
		clause = "audit-equals-firing-list"
		n, want := len(got.audit)-len(before.audit), len(outs[0].st.audit)-len(before.audit)
		switch {
		case n < want:
			kind = "missing-firings"
		case n > want:
			kind = "extra-firings"
		default:
			kind = "wrong-order-or-values"
		}
	}
	sp.r.Violate(core.Violation{Check: "step", Clause: clause, Kind: kind, Subject: sp.subject(st, outs), Witness: sp.witness(h),
		Observed: obs, Expected: "one of: " + strings.Join(exp, " --or-- ")})
}

// ---------------------------------------------------------------- registration

func init() {
	core.Register(&core.Prop{
		ID:    "C23",
		Level: "model_checking",
		Rule: "every trigger program = multiset of at most 2 (quick) / 3 (thorough) triggers on t(a PRIMARY KEY, b) out of {BEFORE,AFTER} x {INSERT,UPDATE,DELETE} x bodies {append (trigger id, OLD.a, NEW.a, NEW.b) to the audit table; SET NEW.b = NEW.b + 1 (BEFORE INSERT/UPDATE only); SIGNAL when NEW.a (DELETE: OLD.a) = 3}, " +
			"with every placement (default / FOLLOWS x / PRECEDES x) of a trigger that shares its time and event with an earlier one; x 3 start states (0, 1, 3 rows) x BFS over ALL histories of depth <= 2 (quick: depth 2 only from the 3-row state, depth 1 from the others) over 13 statements " +
			"(INSERT of 1-3 rows incl. a row with a = 3 and a duplicate key, INSERT IGNORE with a duplicate, UPDATE of one / all rows incl. key changes, a no-change UPDATE and one setting a = 3, DELETE of one / several / all rows) on a fresh engine; " +
			"oracle on the last statement: error class, rows of t and the audit rows in seq order equal the reference model (per row: BEFORE triggers in prescribed order, row operation, AFTER triggers; SET NEW visible to later triggers and stored; a failing statement leaves t and audit unchanged). " +
			"non-trivial = at least one trigger invocation in the model's execution of the last statement",
		Assumptions: []string{
			"MySQL trigger semantics; audit rows are compared in auto-increment order, the seq values themselves are ignored (gaps are allowed)",
			"accepted freedom: row order of multi-row UPDATE/DELETE (all permutations up to 4 target rows, primary-key order above); whether a no-change UPDATE fires the UPDATE triggers",
			"trigger bodies touch only the audit table; no nested triggers, no ON DUPLICATE KEY UPDATE / REPLACE, one session, autocommit",
		},
		Run:    runProp,
		Replay: replay,
	})
}

func runProp(r *core.Run) {
	debug.SetGCPercent(400)
	maxTrig := 2
	if r.Thorough() {
		maxTrig = 3
	}
	progs := programs(maxTrig)
	ops := alphabet()
	r.Info("trigger_programs", len(progs))
	r.Info("alphabet", len(ops))
	r.Info("start_states", len(starts))
	n := 0
	for pi, p := range progs {
		for si := range starts {
			n++
			if r.Expired() {
				r.Capped(fmt.Sprintf("time budget reached after %d of %d trigger programs", pi, len(progs)))
				return
			}
			rot := make([]stmt, len(ops))
			for i := range ops {
				rot[i] = ops[(i+n)%len(ops)]
			}
			depth := 2
			if !r.Thorough() && si != len(starts)-1 {
				depth = 1 // quick: two-statement histories only from the three-row start state
			}
			sp := &stepper{r: r, p: p, start: si, ops: rot}
			hist.Explore(r, hist.Config{NOps: len(rot), MaxDepth: depth, UnmergedDepth: 2, ShardDepth: 1, Step: sp.Step,
				Label: func(o int) string { return rot[o].sql }})
		}
		r.Count("programs_explored", 1)
	}
}

func replay(r *core.Run, w json.RawMessage) {
	var c caseID
	if json.Unmarshal(w, &c) != nil || c.Start < 0 || c.Start >= len(starts) {
		return
	}
	ops := alphabet()
	var h []int
	for _, q := range c.SQL {
		for i, o := range ops {
			if o.sql == q {
				h = append(h, i)
				break
			}
		}
	}
	if len(h) != len(c.SQL) {
		return
	}
	sp := &stepper{r: r, p: c.Program, start: c.Start, ops: ops}
	for i := 1; i <= len(h); i++ {
		if _, cont := sp.Step(h[:i]); !cont {
			break
		}
	}
}
