// Package c23 decides property C23 (triggers fire exactly once per affected row, inside the
// statement) by enumerating trigger programs, start states and DML histories on fresh engines and
// comparing the audit table the triggers write, and the stored rows, with the reference model in
// this file.
//
// Model = MySQL's documented trigger semantics:
//   - for each row the statement touches, in this order: the BEFORE triggers of the event, the
//     row operation, the AFTER triggers of the event; rows are processed one after the other
//     (INSERT: VALUES order; UPDATE/DELETE: any row order is accepted);
//   - triggers of the same event and time fire in creation order; FOLLOWS x places a new trigger
//     immediately after x, PRECEDES x immediately before x;
//   - a BEFORE trigger's SET NEW.col changes what the row operation stores (and what later
//     triggers of that row see); OLD is the row before, NEW the row after the operation;
//   - a BEFORE trigger fires for the attempt (also for a row that INSERT IGNORE then skips as a
//     duplicate), an AFTER trigger only when the row operation succeeded;
//   - an error raised by a trigger (SIGNAL) or by the row operation (duplicate key) fails the
//     statement; everything the statement and its triggers did is discarded.
//
// Freedom accepted: row order of multi-row UPDATE/DELETE; whether an UPDATE that does not change
// a matched row counts the row as affected (fires the UPDATE triggers) or not.
package c23

import (
	"fmt"
	"sort"
	"strings"
)

const null = -1 << 30

const (
	tBefore = 0
	tAfter  = 1
	eInsert = 0
	eUpdate = 1
	eDelete = 2
	bAudit  = 0
	bSet    = 1
	bSignal = 2
)

var timeSQL = []string{"before", "after"}
var eventSQL = []string{"insert", "update", "delete"}
var bodyName = []string{"audit", "set", "signal"}

type trig struct {
	Time, Event, Body int
	Order             int // 0 none, 1 follows, 2 precedes
	Ref               int // index (creation order) of the referenced trigger
}

func (t trig) slot() int { return t.Time*3 + t.Event }

func trigName(i int) string { return fmt.Sprintf("g%d", i) }

func (t trig) ddl(i int) string {
	name := trigName(i)
	old, nw, nb := "NULL", "NULL", "NULL"
	if t.Event != eInsert {
		old = "old.a"
	}
	if t.Event != eDelete {
		nw, nb = "new.a", "new.b"
	}
	var body string
	switch t.Body {
	case bAudit:
		body = fmt.Sprintf("insert into audit (trg, olda, newa, newb) values ('%s', %s, %s, %s)", name, old, nw, nb)
	case bSet:
		body = "set new.b = new.b + 1"
	case bSignal:
		v := "new.a"
		if t.Event == eDelete {
			v = "old.a"
		}
		body = fmt.Sprintf("begin if %s = 3 then signal sqlstate '45000' set message_text = '%s'; end if; end", v, name)
	}
	ord := ""
	switch t.Order {
	case 1:
		ord = " follows " + trigName(t.Ref)
	case 2:
		ord = " precedes " + trigName(t.Ref)
	}
	return fmt.Sprintf("create trigger %s %s %s on t for each row%s %s", name, timeSQL[t.Time], eventSQL[t.Event], ord, body)
}

func (t trig) label(i int) string {
	s := fmt.Sprintf("%s:%s-%s-%s", trigName(i), timeSQL[t.Time], eventSQL[t.Event], bodyName[t.Body])
	switch t.Order {
	case 1:
		s += ">" + trigName(t.Ref)
	case 2:
		s += "<" + trigName(t.Ref)
	}
	return s
}

type program []trig

func (p program) String() string {
	if len(p) == 0 {
		return "no-triggers"
	}
	parts := make([]string, len(p))
	for i, t := range p {
		parts[i] = t.label(i)
	}
	return strings.Join(parts, ",")
}

// firing returns, per slot, the trigger indices in firing order.
func (p program) firing() [6][]int {
	var out [6][]int
	for i, t := range p {
		s := t.slot()
		l := out[s]
		pos := len(l)
		if t.Order != 0 {
			for k, x := range l {
				if x == t.Ref {
					if t.Order == 1 {
						pos = k + 1
					} else {
						pos = k
					}
				}
			}
		}
		l = append(l, 0)
		copy(l[pos+1:], l[pos:])
		l[pos] = i
		out[s] = l
	}
	return out
}

// ---------------------------------------------------------------- state

type auditRow struct {
	trg              string
	olda, newa, newb int
}

type state struct {
	rows  map[int]int // a -> b
	audit []auditRow
}

func (s *state) clone() *state {
	n := &state{rows: map[int]int{}, audit: append([]auditRow(nil), s.audit...)}
	for k, v := range s.rows {
		n.rows[k] = v
	}
	return n
}

func fmtVal(v int) string {
	if v == null {
		return "NULL"
	}
	return fmt.Sprint(v)
}

func (s *state) keys() []int {
	var ks []int
	for k := range s.rows {
		ks = append(ks, k)
	}
	sort.Ints(ks)
	return ks
}

func (s *state) rowsString() string {
	var parts []string
	for _, k := range s.keys() {
		parts = append(parts, fmt.Sprintf("(%d,%s)", k, fmtVal(s.rows[k])))
	}
	return strings.Join(parts, " ")
}

func fmtAudit(a []auditRow) string {
	parts := make([]string, len(a))
	for i, r := range a {
		parts[i] = fmt.Sprintf("%s(%s,%s,%s)", r.trg, fmtVal(r.olda), fmtVal(r.newa), fmtVal(r.newb))
	}
	return strings.Join(parts, " ")
}

func (s *state) String() string { return "t: " + s.rowsString() + " | audit: " + fmtAudit(s.audit) }

// ---------------------------------------------------------------- statements

type stmt struct {
	kind   int // eInsert, eUpdate, eDelete
	ignore bool
	rows   [][2]int // insert
	// update: set
	setA    func(a, b int) int // nil = unchanged
	setB    func(a, b int) int
	where   func(a int) bool
	sql     string
	changes string // classification
}

type outcome struct {
	err    string // "" ok, "signal", "duplicate-key"
	st     *state
	fired  int    // trigger invocations
	failAt string // classification of the failure: cause + whether earlier rows were processed
}

type modelErr struct{ class, where string }

func (e *modelErr) Error() string { return e.class }

type exec struct {
	p     program
	f     [6][]int
	s     *state
	fired int
}

// fire runs the triggers of one slot for one row; nw may be modified by SET triggers.
func (x *exec) fire(time, event int, old, nw *[2]int) error {
	for _, ti := range x.f[time*3+event] {
		t := x.p[ti]
		x.fired++
		switch t.Body {
		case bAudit:
			r := auditRow{trg: trigName(ti), olda: null, newa: null, newb: null}
			if old != nil {
				r.olda = old[0]
			}
			if nw != nil {
				r.newa, r.newb = nw[0], nw[1]
			}
			x.s.audit = append(x.s.audit, r)
		case bSet:
			if nw != nil && nw[1] != null {
				nw[1]++
			}
		case bSignal:
			v := null
			if event == eDelete {
				v = old[0]
			} else {
				v = nw[0]
			}
			if v == 3 {
				return &modelErr{"signal", timeSQL[time]}
			}
		}
	}
	return nil
}

func permutations(n int) [][]int {
	var out [][]int
	var rec func(cur []int, used []bool)
	rec = func(cur []int, used []bool) {
		if len(cur) == n {
			out = append(out, append([]int(nil), cur...))
			return
		}
		for i := 0; i < n; i++ {
			if !used[i] {
				used[i] = true
				rec(append(cur, i), used)
				used[i] = false
			}
		}
	}
	rec(nil, make([]bool, n))
	return out
}

// run returns the accepted outcomes of st on s under program p.
func run(p program, s *state, st stmt) []*outcome {
	f := p.firing()
	var outs []*outcome
	add := func(o *outcome) {
		for _, q := range outs {
			if q.err == o.err && q.st.String() == o.st.String() {
				return
			}
		}
		outs = append(outs, o)
	}
	finish := func(x *exec, err error, processed int) {
		if err != nil {
			me := err.(*modelErr)
			where := me.where
			if processed > 0 {
				where += "-after-rows"
			} else {
				where += "-first-row"
			}
			add(&outcome{err: me.class, st: s, fired: x.fired, failAt: me.class + ":" + where})
			return
		}
		add(&outcome{st: x.s, fired: x.fired})
	}
	switch st.kind {
	case eInsert:
		x := &exec{p: p, f: f, s: s.clone()}
		var err error
		n := 0
		for _, r := range st.rows {
			nw := r
			if err = x.fire(tBefore, eInsert, nil, &nw); err != nil {
				break
			}
			if _, dup := x.s.rows[nw[0]]; dup {
				if st.ignore {
					n++
					continue // BEFORE fired for the attempt, no AFTER
				}
				err = &modelErr{"duplicate-key", "row-operation"}
				break
			}
			x.s.rows[nw[0]] = nw[1]
			if err = x.fire(tAfter, eInsert, nil, &nw); err != nil {
				break
			}
			n++
		}
		finish(x, err, n)
	case eUpdate, eDelete:
		var targets []int
		for _, k := range s.keys() {
			if st.where == nil || st.where(k) {
				targets = append(targets, k)
			}
		}
		perms := [][]int{nil}
		if len(targets) <= 4 {
			perms = permutations(len(targets))
		} else {
			id := make([]int, len(targets))
			for i := range id {
				id[i] = i
			}
			perms = [][]int{id}
		}
		for _, fireOnNoChange := range []bool{true, false} {
			for _, perm := range perms {
				x := &exec{p: p, f: f, s: s.clone()}
				var err error
				n := 0
				for _, pi := range perm {
					k := targets[pi]
					old := [2]int{k, x.s.rows[k]}
					if st.kind == eDelete {
						if err = x.fire(tBefore, eDelete, &old, nil); err != nil {
							break
						}
						delete(x.s.rows, k)
						if err = x.fire(tAfter, eDelete, &old, nil); err != nil {
							break
						}
						n++
						continue
					}
					nw := old
					if st.setA != nil {
						nw[0] = st.setA(old[0], old[1])
					}
					if st.setB != nil {
						nw[1] = st.setB(old[0], old[1])
					}
					if nw == old && !fireOnNoChange {
						continue
					}
					if err = x.fire(tBefore, eUpdate, &old, &nw); err != nil {
						break
					}
					if nw[0] != old[0] {
						if _, dup := x.s.rows[nw[0]]; dup {
							err = &modelErr{"duplicate-key", "row-operation"}
							break
						}
						delete(x.s.rows, old[0])
					}
					x.s.rows[nw[0]] = nw[1]
					if err = x.fire(tAfter, eUpdate, &old, &nw); err != nil {
						break
					}
					n++
				}
				finish(x, err, n)
			}
			if st.kind == eDelete {
				break
			}
		}
	}
	return outs
}
