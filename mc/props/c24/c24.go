// Package c24: stored procedures follow structured-program semantics.
//
// Bounded-exhaustive enumeration of procedure bodies (one root statement, explicit AST nodes <= N,
// compound nesting <= D) from a statement grammar; every program is created on a fresh engine and
// CALLed with argument tuples over {NULL,0,1,3}; the trace table, the OUT/INOUT user variables,
// the returned result set and the error/termination outcome must equal those of a reference
// structured interpreter working on the same AST.
package c24

import (
	"encoding/json"
	"fmt"
	"os"
	"runtime"
	"runtime/debug"
	"strings"

	"verif/mc/core"
)

// ---------------------------------------------------------------------------------------------
// constructs the engine rejects at CREATE PROCEDURE time: outside the domain. A rejection that is
// not in this list is a violation (clause create-accepted).
// key = feature, value = substring of the error message
// ---------------------------------------------------------------------------------------------

var unsupportedCreate = map[string]string{}

// argument tuples (a, c): quick = 4 tuples covering every value of each parameter; thorough = all 16
var argVals = []*int64{nil, ip(0), ip(1), ip(3)}

func ip(n int64) *int64 { return &n }

func argTuples(thorough, flow bool, root *Node) [][3]*int64 {
	ua, uc := uses(root)
	hasLoop := false
	walk(root, func(x *Node) {
		if isLoop(x.K) {
			hasLoop = true
		}
	})
	var out [][3]*int64
	switch {
	case thorough:
		for _, a := range argVals {
			for _, c := range argVals {
				out = append(out, [3]*int64{a, c, nil})
			}
		}
	case hasLoop && flow:
		// size-4 control-flow programs: a = 0, 1, 3 (0, 1, 3 iterations; REPEAT at least once)
		out = [][3]*int64{{ip(0), ip(3), nil}, {ip(1), ip(3), nil}, {ip(3), ip(3), nil}}
	case hasLoop:
		// a bounds the loops: NULL,0,1,3 give 0..3 iterations
		out = [][3]*int64{{nil, ip(0), nil}, {ip(0), nil, nil}, {ip(1), ip(3), nil}, {ip(3), ip(1), nil}}
	default:
		// without loops a only feeds `a > 0` (NULL and 0 behave alike) and the trace column
		out = [][3]*int64{{nil, ip(3), nil}, {ip(1), nil, nil}}
	}
	// parameters the program never touches need one value only (a is traced, but a constant)
	var red [][3]*int64
	seen := map[string]bool{}
	for _, t := range out {
		if !ua {
			t[0] = ip(1)
		}
		if !uc {
			t[1] = ip(3)
		}
		k := lit(t[0]) + "," + lit(t[1])
		if !seen[k] {
			seen[k] = true
			red = append(red, t)
		}
	}
	return red
}

// ---------------------------------------------------------------------------------------------
// running and judging
// ---------------------------------------------------------------------------------------------

type checker struct {
	r        *core.Run
	memo     map[string]Verdict // canonical case -> verdict (minimisation reuses results)
	runs     int64
	fixtures int64
	shared   *Runner
	// confirmed: minimal cases re-run on a fresh engine
	confirmed map[string]Verdict
}

func caseKey(root *Node, a, c, bIn *int64) string {
	return mustJSON(root) + "|" + lit(a) + "|" + lit(c) + "|" + lit(bIn)
}

// verdicts runs the argument tuples of a program. fresh: on an engine of its own (replay,
// confirmation); otherwise on the worker's shared engine (fixture built once, the procedure
// replaced, a new session per program). Enumeration and minimisation use the shared engine; the
// minimal case is confirmed on a fresh engine before it is reported (see confirm).
func (ck *checker) verdicts(root *Node, tuples [][3]*int64, fresh bool) []Verdict {
	out := make([]Verdict, len(tuples))
	need := false
	for i, t := range tuples {
		if v, ok := ck.memo[caseKey(root, t[0], t[1], t[2])]; ok {
			out[i] = v
		} else {
			need = true
		}
	}
	if !need {
		return out
	}
	sqlText, tags := ProcSQL(root)
	var rn *Runner
	for i, t := range tuples {
		k := caseKey(root, t[0], t[1], t[2])
		if _, ok := ck.memo[k]; ok {
			continue
		}
		if rn == nil {
			ck.runs++
			if fresh {
				rn = NewRunner(sqlText)
			} else {
				if ck.shared == nil || ck.shared.Dirty {
					ck.shared = newFixture()
					ck.fixtures++
				}
				rn = ck.shared
				rn.Load(sqlText)
			}
		}
		var v Verdict
		if rn.CreateErr != nil {
			v = judgeCreate(root, rn.CreateErr)
		} else {
			refs := refOutcomes(root, tags, t[0], t[1], t[2])
			obs := rn.Call(t[0], t[1], t[2], stepBudget(refs[0].Steps))
			v = judgeObserved(obs, refs)
			if rn.Dirty {
				rn = nil // the engine may be left in any state: do not reuse it
			}
		}
		ck.memo[k] = v
		out[i] = v
	}
	return out
}

func judgeCreate(root *Node, err error) Verdict {
	msg := err.Error()
	for _, f := range features(root) {
		if sub, ok := unsupportedCreate[f]; ok && strings.Contains(msg, sub) {
			return Verdict{Unsupported: f}
		}
	}
	return Verdict{Clause: "create-accepted", Kind: "rejected", Observed: "CREATE PROCEDURE failed: " + msg, Expected: "accepted (valid MySQL; not in the committed unsupported list)"}
}

// ---------------------------------------------------------------------------------------------
// minimisation: one root cause => one signature. A failing (program, arguments) is reduced
// greedily (delete a statement, hoist a child list into its parent's place, drop block
// attributes) while the same clause keeps failing; the signature is built from the constructs of
// the 1-minimal program.
// ---------------------------------------------------------------------------------------------

func clone(n *Node) *Node {
	c := *n
	if n.B != nil {
		c.B = make([][]*Node, len(n.B))
		for i, l := range n.B {
			c.B[i] = make([]*Node, len(l))
			for j, x := range l {
				c.B[i][j] = clone(x)
			}
		}
	}
	return &c
}

// valid: every LEAVE/ITERATE resolves (ITERATE to a loop) — reductions may break references.
func valid(n *Node, labels []bool) bool {
	switch n.K {
	case "leave", "iterate":
		if n.Up >= len(labels) {
			return false
		}
		if n.K == "iterate" && !labels[len(labels)-1-n.Up] {
			return false
		}
		return true
	}
	inner := labels
	if isLabelled(n.K) {
		inner = append(append([]bool{}, labels...), isLoop(n.K))
	}
	for _, l := range n.B {
		for _, c := range l {
			if !valid(c, inner) {
				return false
			}
		}
	}
	return true
}

// dropLabel rewrites the LEAVE/ITERATE references below a labelled construct that is being
// removed; depth = labelled constructs between the removed one and n. false: a reference to the
// removed label exists.
func dropLabel(n *Node, depth int) bool {
	if n.K == "leave" || n.K == "iterate" {
		if n.Up == depth {
			return false
		}
		if n.Up > depth {
			n.Up--
		}
		return true
	}
	d := depth
	if isLabelled(n.K) {
		d++
	}
	for _, l := range n.B {
		for _, c := range l {
			if !dropLabel(c, d) {
				return false
			}
		}
	}
	return true
}

// reductions returns candidate smaller programs (single root).
func reductions(root *Node) []*Node {
	var out []*Node
	// paths to every node: (parent, slot, index)
	type pos struct {
		parent *Node
		slot   int
		idx    int
	}
	var collect func(n *Node, acc *[]pos)
	collect = func(n *Node, acc *[]pos) {
		for s, l := range n.B {
			for i, c := range l {
				*acc = append(*acc, pos{n, s, i})
				collect(c, acc)
			}
		}
	}
	// 1. the root replaced by one of its children (when the root has exactly one child overall)
	if slots[root.K] > 0 {
		for _, l := range root.B {
			for _, c := range l {
				cc := clone(c)
				if isLabelled(root.K) && !dropLabel(cc, 0) {
					continue
				}
				out = append(out, cc)
			}
		}
	}
	// work on clones: apply an edit at the k-th position
	var base []pos
	collect(root, &base)
	for k := range base {
		// 2. delete the node
		c := clone(root)
		var ps []pos
		collect(c, &ps)
		p := ps[k]
		l := p.parent.B[p.slot]
		p.parent.B[p.slot] = append(append([]*Node{}, l[:p.idx]...), l[p.idx+1:]...)
		out = append(out, c)
		// 3. hoist: replace a compound node by the statements of one of its child lists
		if slots[base[k].parent.B[base[k].slot][base[k].idx].K] > 0 {
			n := base[k].parent.B[base[k].slot][base[k].idx]
			for s := range n.B {
				c := clone(root)
				var ps []pos
				collect(c, &ps)
				p := ps[k]
				l := p.parent.B[p.slot]
				node := l[p.idx]
				if isLabelled(node.K) {
					// the label disappears: references to outer labels move one level in,
					// references to the label itself make the candidate invalid
					okRefs := true
					for _, ch := range node.B[s] {
						if !dropLabel(ch, 0) {
							okRefs = false
						}
					}
					if !okRefs {
						continue
					}
				}
				nl := append([]*Node{}, l[:p.idx]...)
				nl = append(nl, node.B[s]...)
				nl = append(nl, l[p.idx+1:]...)
				p.parent.B[p.slot] = nl
				out = append(out, c)
			}
		}
	}
	// 4. attribute simplifications on every block (including the root)
	var nodes []*Node
	walk(root, func(x *Node) { nodes = append(nodes, x) })
	for k, x := range nodes {
		if x.K != "blk" {
			continue
		}
		edit := func(f func(b *Node)) {
			c := clone(root)
			var cn []*Node
			walk(c, func(y *Node) { cn = append(cn, y) })
			f(cn[k])
			out = append(out, c)
		}
		if x.Shadow {
			edit(func(b *Node) { b.Shadow = false })
		}
		if x.H != "" {
			edit(func(b *Node) { b.H, b.HB = "", "" })
			if x.HB != "set" {
				edit(func(b *Node) { b.HB = "set" })
			}
		}
	}
	// 5. a conditional replaced by the plainest one
	for k, x := range nodes {
		if (x.K == "if" || x.K == "ifelse") && x.C != 0 {
			c := clone(root)
			var cn []*Node
			walk(c, func(y *Node) { cn = append(cn, y) })
			cn[k].C = 0
			out = append(out, c)
		}
	}
	var ok []*Node
	for _, c := range out {
		if valid(c, nil) {
			ok = append(ok, c)
		}
	}
	return ok
}

// canonicalisations: replace a construct by the plainest member of its class (any loop -> LOOP,
// any statement that only raises an SQLEXCEPTION -> SIGNAL, any conditional -> IF) so that one
// root cause is not reported once per sibling construct.
func canonicalisations(root *Node) []*Node {
	var out []*Node
	var nodes []*Node
	walk(root, func(x *Node) { nodes = append(nodes, x) })
	edit := func(k int, f func(n *Node)) {
		c := clone(root)
		var cn []*Node
		walk(c, func(y *Node) { cn = append(cn, y) })
		f(cn[k])
		if valid(c, nil) {
			out = append(out, c)
		}
	}
	for k, x := range nodes {
		switch x.K {
		case "while", "repeat":
			edit(k, func(n *Node) { n.K = "loop" })
		case "case1", "cases", "calle", "dup":
			empty := true
			for _, l := range x.B {
				if len(l) > 0 {
					empty = false
				}
			}
			if empty {
				edit(k, func(n *Node) { n.K, n.B = "err", nil })
			}
		case "ifelse", "ifelseif", "case2":
			for s := range x.B {
				s := s
				edit(k, func(n *Node) { n.K, n.C, n.B = "if", 0, [][]*Node{n.B[s]} })
			}
		case "callv", "callm", "calln":
			edit(k, func(n *Node) { n.K = "call" })
		case "setc", "seta", "setb", "sbc":
			edit(k, func(n *Node) { n.K = "inc" })
		case "cnt":
			edit(k, func(n *Node) { n.K = "sbc" })
		}
	}
	return out
}

// minimise reduces a failing case greedily. A candidate is accepted when it still fails; the
// same clause/kind is preferred, but any failure is accepted (a smaller failing program explains
// the larger one).
func (ck *checker) minimise(root *Node, a, c, bIn *int64, v Verdict) (*Node, *int64, *int64, Verdict) {
	fails := func(cand *Node, ca, cc *int64) (Verdict, bool) {
		cv := ck.verdicts(cand, [][3]*int64{{ca, cc, bIn}}, false)[0]
		return cv, cv.Clause != "" && cv.Unsupported == ""
	}
	for round := 0; round < 60; round++ {
		improved := false
		cands := append(reductions(root), canonicalisations(root)...)
		var fallback *Node
		var fallbackV Verdict
		for _, cand := range cands {
			cv, bad := fails(cand, a, c)
			if !bad {
				continue
			}
			if cv.Clause == v.Clause && cv.Kind == v.Kind {
				root, v = cand, cv
				improved = true
				break
			}
			if fallback == nil {
				fallback, fallbackV = cand, cv
			}
		}
		if !improved && fallback != nil {
			root, v = fallback, fallbackV
			improved = true
		}
		if !improved {
			break
		}
	}
	// arguments: a NULL argument that is not needed for the failure is replaced by a number
	if a == nil {
		for _, n := range []int64{1, 3} {
			if cv, bad := fails(root, ip(n), c); bad {
				a, v = ip(n), cv
				break
			}
		}
	}
	if c == nil {
		if cv, bad := fails(root, a, ip(3)); bad {
			c, v = ip(3), cv
		}
	}
	return root, a, c, v
}

// confirm re-runs a (minimal) case on a fresh engine; a case that only fails on the shared engine
// is counted, not reported.
func (ck *checker) confirm(root *Node, a, c, bIn *int64) (Verdict, bool) {
	k := caseKey(root, a, c, bIn)
	if v, ok := ck.confirmed[k]; ok {
		return v, v.Clause != ""
	}
	saved := ck.memo
	ck.memo = map[string]Verdict{}
	v := ck.verdicts(root, [][3]*int64{{a, c, bIn}}, true)[0]
	ck.memo = saved
	ck.confirmed[k] = v
	if v.Clause == "" {
		ck.r.Count("flagged_on_shared_engine_only", 1)
	}
	return v, v.Clause != ""
}

func (ck *checker) report(check string, root *Node, a, c, bIn *int64, v Verdict) {
	r := ck.r
	var nulls []string
	if a == nil {
		nulls = append(nulls, "a")
	}
	if c == nil {
		nulls = append(nulls, "c")
	}
	// null_args: NULL arguments (after minimisation: the ones the failure needs)
	sub := map[string]string{"constructs": strings.Join(features(root), ","), "null_args": strings.Join(nulls, ",")}
	if check == "out-parameter-initial-value" {
		sub = map[string]string{}
	}
	if v.Frame != "" {
		sub["frame"] = v.Frame
	}
	sqlText, _ := ProcSQL(root)
	w := Case{Prog: root, A: a, C: c, BIn: bIn, SQL: sqlText + ";\nSET @b = " + lit(bIn) + ", @c = " + lit(c) + "; CALL p(" + lit(a) + ", @b, @c);"}
	r.Violate(core.Violation{Check: check, Clause: v.Clause, Kind: v.Kind, Subject: sub, Witness: core.J(w), Observed: v.Observed, Expected: v.Expected})
}

// checkProgram runs one program with all its argument tuples.
func (ck *checker) checkProgram(root *Node, thorough, flow bool) {
	r := ck.r
	tuples := argTuples(thorough, flow, root)
	vs := ck.verdicts(root, tuples, false)
	feat := strings.Join(features(root), ",")
	for i, v := range vs {
		t := tuples[i]
		r.Eval()
		if v.Unsupported != "" {
			r.Count("skipped_unsupported", 1)
			r.Outcome("unsupported:" + v.Unsupported)
			continue
		}
		// non-trivial: the reference executes a compound statement's body or raises a condition
		if v.RefTraceLen >= 2 || v.RefFailed {
			r.NonTrivial(caseKey(root, t[0], t[1], t[2]))
		}
		cls := "ok"
		if v.RefFailed {
			cls = "call-fails"
		}
		r.Outcome(fmt.Sprintf("ref:%s:trace=%s:results=%d", cls, bucket(v.RefTraceLen), min(v.RefResults, 3)))
		r.Max("max_context_uses_per_call", v.Ticks)
		if v.Clause == "" {
			if v.RefTraceLen >= 4 && size(root) >= 3 && r.WantSample() {
				sqlText, tags := ProcSQL(root)
				ref := refOutcomes(root, tags, t[0], t[1], t[2])[0]
				r.Sample(map[string]any{"procedure": sqlText, "call": fmt.Sprintf("SET @b = %s, @c = %s; CALL p(%s, @b, @c)", lit(t[2]), lit(t[1]), lit(t[0])),
					"trace (tag,v,b,c,a) = reference": ref.TraceStrings(), "@b": ref.B.String(), "@c": ref.C.String(), "call_fails": ref.Failed, "result_sets_reference": ref.Results, "constructs": feat})
			}
			continue
		}
		r.Count("cases_flagged", 1)
		mroot, ma, mc, _ := ck.minimise(root, t[0], t[1], t[2], v)
		if fv, ok := ck.confirm(mroot, ma, mc, t[2]); ok {
			ck.report("call", mroot, ma, mc, t[2], fv)
		}
	}
}

func bucket(n int) string {
	switch {
	case n <= 1:
		return "0-1"
	case n <= 4:
		return "2-4"
	case n <= 10:
		return "5-10"
	}
	return ">10"
}

func init() {
	core.Register(&core.Prop{
		ID:          "C24",
		Level:       "exploration",
		QuickBudget: 110,
		Rule: "every procedure body = one root statement with <= N explicit AST nodes and compound nesting <= D (quick N=3,D=2; thorough N=3,D=3 over the larger alphabet plus all size-4 programs, D=3, over a reduced 'flow' alphabet {SET, SIGNAL, LEAVE, ITERATE; IF, REPEAT, LOOP, LOOP-with-block-body, BEGIN..END with shadowing DECLARE / CONTINUE SQLEXCEPTION handler / EXIT SQLEXCEPTION handler}, a in {0,1,3}) over the grammar: " +
			"leaves {SET v=v+1, SELECT v,c+1 INTO b,c, SELECT x INTO v (no row: NOT FOUND), SIGNAL SQLSTATE '45000', SELECT v,tag (result set), CALL q(v,b,c), LEAVE/ITERATE of every enclosing label" +
			"; thorough adds SET b=v, SELECT COUNT(*) INTO v FROM trace, SET c=c+1, SET a=a+1, INSERT into a unique table (fails the 2nd time), CALL q(a,v,c), CALL of a procedure that assigns its IN parameter, CALL of a procedure whose parameters are also named a,b,c, CALL of a failing procedure, CALL of a procedure returning a result set}; " +
			"compounds {IF, IF/ELSE (condition v<2; thorough also a>0 and c IS NULL), IF/ELSEIF/ELSE (thorough), simple CASE without ELSE, simple CASE with ELSE (thorough), searched CASE without ELSE, WHILE, REPEAT, LOOP, LOOP whose body is a BEGIN..END block with its own DECLARE v (labelled, counters i1..i3, at most 3 iterations, bound = parameter a), " +
			"labelled BEGIN..END plain | with shadowing DECLARE v | with DECLARE CONTINUE|EXIT HANDLER FOR SQLEXCEPTION|NOT FOUND (handler body SET | INSERT | BEGIN..END)}; every statement list starts with a trace INSERT (tag,v,b,c,a) and has one after every compound statement; " +
			"frame: PROCEDURE p(IN a INT, OUT b INT, INOUT c INT) with DECLARE v INT DEFAULT 0 and a final trace; arguments (a,c) over {NULL,0,1,3}: thorough all 16 tuples; quick 4 tuples covering every value of each parameter for programs with loops (a bounds the loops) and 2 tuples (a in {NULL,1}, c in {3,NULL}) for loop-free programs (one value for a parameter the program never uses); @b preset to NULL (and every one-statement program once more with @b = 7: check out-parameter-initial-value). " +
			"Oracle = reference structured interpreter on the same AST: CALL fails/succeeds, trace table rows in order, @b, @c (unchanged when the CALL fails), the returned result set (= the LAST result set of the reference sequence; none => OK result), termination (deterministic step guard). " +
			"A flagged case is reduced to a 1-minimal failing program; the signature is its construct set. non-trivial = the reference executes at least one compound body (>= 2 trace rows) or the CALL fails",
		Assumptions: []string{
			"the engine's CALL returns a single result: only the last result set of the reference sequence is compared (go-mysql-server cannot return multiple result sets from one statement)",
			"ITERATE inside REPEAT: MySQL's manual only says 'start the loop again'; both readings (re-run the statement list directly / evaluate UNTIL first) are accepted",
			"autocommit: effects of statements executed before an unhandled error persist (trace rows), OUT/INOUT user variables are not assigned when the CALL fails",
			"an unhandled NOT FOUND condition raised by SELECT ... INTO is a warning: execution continues and the target variable is unchanged (MySQL manual, DECLARE ... HANDLER)",
			"only the error/no-error outcome of a failing CALL is compared, not the error code",
			"cursors, RESIGNAL, GET DIAGNOSTICS, SQLWARNING and SQLSTATE/condition-name handlers are outside the grammar",
			"a CALL that exceeds a deterministic budget of context uses by the engine (20000 + 2000 per statement the reference executes) is reported as non-terminating",
		},
		Run: func(r *core.Run) {
			debug.SetGCPercent(800)
			runtime.GOMAXPROCS(2)
			ck := &checker{r: r, memo: map[string]Verdict{}, confirmed: map[string]Verdict{}}
			var total int64
			stopped := false
			type part struct {
				al         Alphabet
				fullTuples bool
				name       string
			}
			parts := []part{{alphabet(r.Thorough()), r.Thorough(), "main"}}
			if r.Thorough() {
				fl := flowAlphabet()
				fl.MinSize = 4
				parts = append(parts, part{fl, false, "flow-size-4"})
			}
			if v := os.Getenv("VERIF_C24_PART"); v == "flow" && len(parts) == 2 {
				parts = parts[1:]
				r.Capped("development filter VERIF_C24_PART=flow")
			}
			if v := os.Getenv("VERIF_C24_MAXSIZE"); v != "" {
				var maxSize int
				fmt.Sscan(v, &maxSize)
				parts = parts[:1]
				parts[0].al.MaxSize = maxSize
				r.Capped("development filter VERIF_C24_MAXSIZE=" + v)
			}
			var base int64
			for _, pt := range parts {
				var n int64
				pt.al.Programs(func(idx int64, root *Node) {
					n++
					total++
					if stopped || !r.Mine(base+idx) {
						return
					}
					if r.Expired() {
						r.Capped(fmt.Sprintf("time budget reached in part %s at program %d (size %d)", pt.name, idx, size(root)))
						stopped = true
						return
					}
					r.AnnounceCase(mustJSON(root))
					ck.checkProgram(root, pt.fullTuples, pt.name != "main")
					if size(root) == 1 {
						// OUT parameters start as NULL whatever the caller's variable holds, and a failing
						// CALL leaves the caller's variables alone: every one-statement program with @b = 7
						t := [3]*int64{ip(1), ip(3), ip(7)}
						v := ck.verdicts(root, [][3]*int64{t}, false)[0]
						r.Eval()
						r.NonTrivial(caseKey(root, t[0], t[1], t[2]))
						// only failures caused by the caller's @b count here: the same call with
						// @b = NULL must pass (otherwise the main check reports the program)
						if v.Clause != "" && v.Unsupported == "" && ck.verdicts(root, [][3]*int64{{t[0], t[1], nil}}, false)[0].Clause == "" {
							if fv, ok := ck.confirm(root, t[0], t[1], t[2]); ok {
								ck.report("out-parameter-initial-value", root, t[0], t[1], t[2], fv)
							}
						}
					}
					r.Count("programs", 1)
					r.Max("max_program_size", int64(size(root)))
					r.Max("max_nesting_depth", int64(depthOf(root)))
					if len(ck.memo) > 200000 {
						ck.memo = map[string]Verdict{}
					}
				})
				base += n
				if r.Shard == 0 {
					r.Info("programs_in_part_"+pt.name, n)
				}
			}
			r.Count("engine_runs", ck.runs)
			r.Count("engines_built", ck.fixtures)
			if r.Shard == 0 {
				r.Info("programs_in_space", total)
				r.Info("unsupported_list", unsupportedCreate)
			}
		},
		Replay: func(r *core.Run, w json.RawMessage) {
			var c Case
			if json.Unmarshal(w, &c) != nil || c.Prog == nil || !valid(c.Prog, nil) {
				return
			}
			ck := &checker{r: r, memo: map[string]Verdict{}, confirmed: map[string]Verdict{}}
			v := ck.verdicts(c.Prog, [][3]*int64{{c.A, c.C, c.BIn}}, true)[0]
			if v.Clause != "" {
				check := "call"
				if c.BIn != nil {
					check = "out-parameter-initial-value"
					if ck.verdicts(c.Prog, [][3]*int64{{c.A, c.C, nil}}, true)[0].Clause != "" {
						return
					}
				}
				ck.report(check, c.Prog, c.A, c.C, c.BIn, v)
			}
		},
	})
}
