package c24

import (
	"fmt"
	"testing"
)

func TestCountFlow(t *testing.T) {
	count := func(a Alphabet) int {
		n := 0
		a.Programs(func(idx int64, root *Node) { n++ })
		return n
	}
	a := Alphabet{MinSize: 4, MaxSize: 4, MaxDepth: 3}
	a.Leaves = []string{"inc", "err"}
	a.Compounds = []*Node{{K: "if", C: 0}, {K: "while"}, {K: "repeat"}, {K: "loop"},
		{K: "blk"}, {K: "blk", Shadow: true}, {K: "blk", H: "cs", HB: "set"}, {K: "blk", H: "es", HB: "set"}}
	fmt.Println("flow A", count(a))
	a.Leaves = []string{"inc", "err", "nf"}
	fmt.Println("flow B (+nf)", count(a))
	a.Leaves = []string{"inc", "err"}
	a.Compounds = []*Node{{K: "if", C: 0}, {K: "while"}, {K: "repeat"}, {K: "loop"},
		{K: "blk", Shadow: true}, {K: "blk", H: "cs", HB: "set"}, {K: "blk", H: "es", HB: "set"}}
	fmt.Println("flow C (no plain blk)", count(a))
}
