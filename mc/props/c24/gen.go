package c24

import (
	"fmt"
	"strings"
)

// ---------------------------------------------------------------------------------------------
// Program AST. A program is ONE root statement inside the fixed procedure frame
//
//	CREATE PROCEDURE p(IN a INT, OUT b INT, INOUT c INT)
//	BEGIN
//	  DECLARE v INT DEFAULT 0; DECLARE i1 INT DEFAULT 0; DECLARE i2 ...; DECLARE i3 ...;
//	  <root>
//	  INSERT INTO trace(tag,v,b,c,a) VALUES (999, v, b, c, a);
//	END
//
// Every statement list (body of a compound statement) starts with an implicit trace INSERT and
// gets another one after every compound statement in it; trace rows record (tag, v, b, c, a), so
// control flow and the visible variable state are observable everywhere without spending
// enumeration size on it. The enumeration size of a program counts explicit nodes only.
// ---------------------------------------------------------------------------------------------

type Node struct {
	K string `json:"k"`
	// C: condition index (if / ifelse); Up: how many labelled constructs outward a LEAVE/ITERATE
	// refers to (0 = innermost)
	C  int `json:"c,omitempty"`
	Up int `json:"up,omitempty"`
	// blocks: Shadow declares an own v (DEFAULT 5); H = handler "", "cs","es" (CONTINUE/EXIT FOR
	// SQLEXCEPTION), "cn","en" (.. FOR NOT FOUND); HB = handler body "set" | "ins" | "blk"
	Shadow bool   `json:"shadow,omitempty"`
	H      string `json:"h,omitempty"`
	HB     string `json:"hb,omitempty"`
	// child statement lists (number depends on the kind)
	B [][]*Node `json:"b,omitempty"`
}

// conditions usable in IF / searched CASE
var conds = []string{"v < 2", "a > 0", "c IS NULL", "v = 1"}

// kind tables ------------------------------------------------------------------------------

// slots: number of child lists of each compound kind
var slots = map[string]int{
	"if": 1, "ifelse": 2, "ifelseif": 3, "case1": 1, "case2": 2, "cases": 2,
	"while": 1, "repeat": 1, "loop": 1, "loopb": 1, "blk": 1,
}

func isLoop(k string) bool { return k == "while" || k == "repeat" || k == "loop" || k == "loopb" }
func isLabelled(k string) bool {
	return isLoop(k) || k == "blk"
}

// feature name of a node for classification (signature subject)
func (n *Node) feature() []string {
	switch n.K {
	case "blk":
		f := []string{"blk"}
		if n.Shadow {
			f = append(f, "shadow")
		}
		if n.H != "" {
			f = append(f, "handler-"+n.H, "hbody-"+n.HB)
		}
		return f
	case "loopb":
		return []string{"loopb", "shadow"} // its block declares an own v
	}
	return []string{n.K}
}

// emission ----------------------------------------------------------------------------------

// nodeTags: the trace tags the emitter assigned inside a node (the reference interpreter uses the
// same numbers).
type nodeTags struct {
	Start []int   // per child list: tag of the trace at the start of the list
	After [][]int // per child list, per child: tag of the trace after a compound child (0: none)
	Self  int     // sel: tag column of the result set; blk: tag of the handler body's trace
}

type emitter struct {
	sb      strings.Builder
	tags    map[*Node]*nodeTags
	tag     int
	indent  int
	labels  []labelInfo // enclosing labelled constructs, innermost last
	loopLvl int
	blkLvl  int
}

type labelInfo struct {
	name string
	loop bool
}

func (e *emitter) line(format string, args ...any) {
	e.sb.WriteString(strings.Repeat("  ", e.indent))
	fmt.Fprintf(&e.sb, format, args...)
	e.sb.WriteString("\n")
}

func (e *emitter) nextTag() int { e.tag++; return e.tag }

func traceSQL(tag int) string {
	return fmt.Sprintf("INSERT INTO trace(tag,v,b,c,a) VALUES (%d, v, b, c, a);", tag)
}

// Tags are assigned in emission order; the reference interpreter walks the AST in the same order
// (see tagger in ref.go) so both agree on the tag of every trace site.

func (e *emitter) nt(n *Node) *nodeTags {
	t := e.tags[n]
	if t == nil {
		t = &nodeTags{Start: make([]int, len(n.B)), After: make([][]int, len(n.B))}
		e.tags[n] = t
	}
	return t
}

func (e *emitter) list(parent *Node, slot int) {
	l := parent.B[slot]
	t := e.nt(parent)
	t.Start[slot] = e.nextTag()
	t.After[slot] = make([]int, len(l))
	e.line("%s", traceSQL(t.Start[slot]))
	for i, n := range l {
		e.stmt(n)
		if slots[n.K] > 0 {
			t.After[slot][i] = e.nextTag()
			e.line("%s", traceSQL(t.After[slot][i]))
		}
	}
}

func (e *emitter) body(parent *Node, slot int) {
	e.indent++
	e.list(parent, slot)
	e.indent--
}

func (e *emitter) stmt(n *Node) {
	switch n.K {
	case "inc":
		e.line("SET v = v + 1;")
	case "setb":
		e.line("SET b = v;")
	case "setc":
		e.line("SET c = c + 1;")
	case "seta":
		e.line("SET a = a + 1;")
	case "sbc":
		e.line("SELECT v, c + 1 INTO b, c;")
	case "cnt":
		e.line("SELECT COUNT(*) INTO v FROM trace;")
	case "nf":
		e.line("SELECT x INTO v FROM src WHERE x < 0;")
	case "err":
		e.line("SIGNAL SQLSTATE '45000';")
	case "dup":
		e.line("INSERT INTO uq VALUES (1);")
	case "sel":
		e.nt(n).Self = e.nextTag()
		e.line("SELECT v AS v, %d AS tag;", e.nt(n).Self)
	case "call":
		e.line("CALL q(v, b, c);")
	case "callv":
		e.line("CALL q(a, v, c);")
	case "callm":
		e.line("CALL qm(v, b, c);")
	case "calln":
		e.line("CALL qn(v, b, c);")
	case "calle":
		e.line("CALL qe();")
	case "calls":
		e.line("CALL qs(v);")
	case "leave", "iterate":
		li := e.labels[len(e.labels)-1-n.Up]
		e.line("%s %s;", strings.ToUpper(n.K), li.name)
	case "if":
		e.line("IF %s THEN", conds[n.C])
		e.body(n, 0)
		e.line("END IF;")
	case "ifelse":
		e.line("IF %s THEN", conds[n.C])
		e.body(n, 0)
		e.line("ELSE")
		e.body(n, 1)
		e.line("END IF;")
	case "ifelseif":
		e.line("IF %s THEN", conds[0])
		e.body(n, 0)
		e.line("ELSEIF %s THEN", conds[1])
		e.body(n, 1)
		e.line("ELSE")
		e.body(n, 2)
		e.line("END IF;")
	case "case1":
		e.line("CASE v WHEN 1 THEN")
		e.body(n, 0)
		e.line("END CASE;")
	case "case2":
		e.line("CASE v WHEN 0 THEN")
		e.body(n, 0)
		e.line("ELSE")
		e.body(n, 1)
		e.line("END CASE;")
	case "cases":
		e.line("CASE WHEN %s THEN", conds[3])
		e.body(n, 0)
		e.line("WHEN %s THEN", conds[1])
		e.body(n, 1)
		e.line("END CASE;")
	case "while", "repeat", "loop", "loopb":
		e.loopLvl++
		i := fmt.Sprintf("i%d", e.loopLvl)
		lbl := fmt.Sprintf("l%d", e.loopLvl)
		e.labels = append(e.labels, labelInfo{lbl, true})
		e.line("SET %s = 0;", i)
		switch n.K {
		case "while":
			e.line("%s: WHILE %s < a AND %s < 3 DO", lbl, i, i)
			e.indent++
			e.line("SET %s = %s + 1;", i, i)
			e.list(n, 0)
			e.indent--
			e.line("END WHILE %s;", lbl)
		case "repeat":
			e.line("%s: REPEAT", lbl)
			e.indent++
			e.line("SET %s = %s + 1;", i, i)
			e.line("IF %s > 3 THEN LEAVE %s; END IF;", i, lbl)
			e.list(n, 0)
			e.indent--
			e.line("UNTIL %s >= a END REPEAT %s;", i, lbl)
		case "loop":
			e.line("%s: LOOP", lbl)
			e.indent++
			e.line("SET %s = %s + 1;", i, i)
			e.line("IF %s > a OR %s > 3 THEN LEAVE %s; END IF;", i, i, lbl)
			e.list(n, 0)
			e.indent--
			e.line("END LOOP %s;", lbl)
		case "loopb":
			// a LOOP whose body is one BEGIN..END block with its own v (the loop's start is the
			// block's start; LEAVE/ITERATE of the loop cross the block's scope)
			e.line("%s: LOOP", lbl)
			e.indent++
			e.line("BEGIN")
			e.indent++
			e.line("DECLARE v INT DEFAULT 5;")
			e.line("SET %s = %s + 1;", i, i)
			e.line("IF %s > a OR %s > 3 THEN LEAVE %s; END IF;", i, i, lbl)
			e.list(n, 0)
			e.indent--
			e.line("END;")
			e.indent--
			e.line("END LOOP %s;", lbl)
		}
		e.labels = e.labels[:len(e.labels)-1]
		e.loopLvl--
	case "blk":
		e.blkLvl++
		lbl := fmt.Sprintf("b%d", e.blkLvl)
		e.labels = append(e.labels, labelInfo{lbl, false})
		e.line("%s: BEGIN", lbl)
		e.indent++
		if n.Shadow {
			e.line("DECLARE v INT DEFAULT 5;")
		}
		if n.H != "" {
			action := "CONTINUE"
			if n.H[0] == 'e' {
				action = "EXIT"
			}
			cond := "SQLEXCEPTION"
			if n.H[1] == 'n' {
				cond = "NOT FOUND"
			}
			var body string
			switch n.HB {
			case "set":
				body = "SET v = v + 10;"
			case "ins":
				e.nt(n).Self = e.nextTag()
				body = traceSQL(e.nt(n).Self)
			case "blk":
				e.nt(n).Self = e.nextTag()
				body = "BEGIN SET v = v + 10; " + traceSQL(e.nt(n).Self) + " END;"
			}
			e.line("DECLARE %s HANDLER FOR %s %s", action, cond, body)
		}
		e.list(n, 0)
		e.indent--
		e.line("END %s;", lbl)
		e.labels = e.labels[:len(e.labels)-1]
		e.blkLvl--
	default:
		panic("unknown node kind " + n.K)
	}
}

const finalTag = 999

// ProcSQL renders the CREATE PROCEDURE statement of a program and returns the trace tags.
func ProcSQL(root *Node) (string, map[*Node]*nodeTags) {
	e := &emitter{indent: 1, tags: map[*Node]*nodeTags{}}
	e.line("DECLARE v INT DEFAULT 0;")
	e.line("DECLARE i1 INT DEFAULT 0;")
	e.line("DECLARE i2 INT DEFAULT 0;")
	e.line("DECLARE i3 INT DEFAULT 0;")
	e.stmt(root)
	e.line("%s", traceSQL(finalTag))
	return "CREATE PROCEDURE p(IN a INT, OUT b INT, INOUT c INT)\nBEGIN\n" + e.sb.String() + "END", e.tags
}

// fixture -----------------------------------------------------------------------------------

var fixtureSQL = []string{
	"CREATE TABLE trace (seq INT PRIMARY KEY AUTO_INCREMENT, tag INT, v INT, b INT, c INT, a INT)",
	"CREATE TABLE src (x INT PRIMARY KEY)",
	"INSERT INTO src VALUES (1),(2)",
	"CREATE TABLE uq (x INT PRIMARY KEY)",
	// helper procedures: q (own parameter names), qm (reads its OUT parameter before assigning it and
	// assigns its IN parameter), qn (reuses the
	// caller's parameter names), qe (fails), qs (returns a result set)
	"CREATE PROCEDURE q(IN x INT, OUT y INT, INOUT z INT)\nBEGIN\n  INSERT INTO trace(tag,v,b,c,a) VALUES (700, NULL, NULL, z, x);\n  SET y = x + 10;\n  SET z = z + 100;\n  INSERT INTO trace(tag,v,b,c,a) VALUES (701, NULL, y, z, x);\nEND",
	"CREATE PROCEDURE qm(IN x INT, OUT y INT, INOUT z INT)\nBEGIN\n  INSERT INTO trace(tag,v,b,c,a) VALUES (700, NULL, y, z, x);\n  SET y = x + 10;\n  SET z = z + 100;\n  SET x = 77;\n  INSERT INTO trace(tag,v,b,c,a) VALUES (701, NULL, y, z, x);\nEND",
	"CREATE PROCEDURE qn(IN a INT, OUT b INT, INOUT c INT)\nBEGIN\n  INSERT INTO trace(tag,v,b,c,a) VALUES (700, NULL, b, c, a);\n  SET b = a + 10;\n  SET c = c + 100;\n  INSERT INTO trace(tag,v,b,c,a) VALUES (701, NULL, b, c, a);\nEND",
	"CREATE PROCEDURE qe()\nBEGIN\n  INSERT INTO trace(tag,v,b,c,a) VALUES (710, NULL, NULL, NULL, NULL);\n  SIGNAL SQLSTATE '45000';\n  INSERT INTO trace(tag,v,b,c,a) VALUES (711, NULL, NULL, NULL, NULL);\nEND",
	"CREATE PROCEDURE qs(IN x INT)\nBEGIN\n  INSERT INTO trace(tag,v,b,c,a) VALUES (720, NULL, NULL, NULL, x);\n  SELECT x AS v, 720 AS tag;\nEND",
}

// enumeration -------------------------------------------------------------------------------

// Alphabet of a tier.
type Alphabet struct {
	Leaves    []string // plain leaves (no label needed)
	Compounds []*Node  // compound templates (children empty)
	MinSize   int      // explicit nodes (0 = 1)
	MaxSize   int      // explicit nodes
	MaxDepth  int      // compound nesting
}

func blkVariants(thorough bool) []*Node {
	out := []*Node{
		{K: "blk"},
		{K: "blk", Shadow: true},
		{K: "blk", H: "cs", HB: "set"},
		{K: "blk", H: "es", HB: "set"},
		{K: "blk", H: "cn", HB: "set"},
		{K: "blk", H: "en", HB: "set"},
		{K: "blk", H: "cs", HB: "ins"},
		{K: "blk", H: "cs", HB: "blk"},
	}
	if thorough {
		out = append(out,
			&Node{K: "blk", Shadow: true, H: "es", HB: "set"},
			&Node{K: "blk", Shadow: true, H: "cs", HB: "set"},
			&Node{K: "blk", H: "es", HB: "ins"},
			&Node{K: "blk", H: "es", HB: "blk"},
			&Node{K: "blk", H: "cn", HB: "ins"},
			&Node{K: "blk", H: "en", HB: "blk"},
		)
	}
	return out
}

// alphabet of a tier. "flow" (thorough only) is the reduced alphabet used for size-4 programs.
func alphabet(thorough bool) Alphabet {
	a := Alphabet{MaxSize: 3, MaxDepth: 2}
	a.Leaves = []string{"inc", "sbc", "nf", "err", "sel", "call"}
	ifConds := []int{0}
	if thorough {
		a.MaxSize, a.MaxDepth = 3, 3
		a.Leaves = append(a.Leaves, "setb", "cnt", "setc", "seta", "dup", "callv", "callm", "calln", "calle", "calls")
		ifConds = []int{0, 1, 2}
	}
	for _, c := range ifConds {
		a.Compounds = append(a.Compounds, &Node{K: "if", C: c}, &Node{K: "ifelse", C: c})
	}
	if thorough {
		a.Compounds = append(a.Compounds, &Node{K: "ifelseif"})
	}
	if thorough {
		a.Compounds = append(a.Compounds, &Node{K: "case2"})
	}
	a.Compounds = append(a.Compounds, &Node{K: "case1"}, &Node{K: "cases"},
		&Node{K: "while"}, &Node{K: "repeat"}, &Node{K: "loop"}, &Node{K: "loopb"})
	a.Compounds = append(a.Compounds, blkVariants(thorough)...)
	return a
}

func flowAlphabet() Alphabet {
	a := Alphabet{MaxSize: 4, MaxDepth: 3}
	a.Leaves = []string{"inc", "err"}
	a.Compounds = []*Node{{K: "if", C: 0}, {K: "repeat"}, {K: "loop"}, {K: "loopb"},
		{K: "blk", Shadow: true}, {K: "blk", H: "cs", HB: "set"}, {K: "blk", H: "es", HB: "set"}}
	return a
}

type ctxLabel struct{ loop bool }

// genStmts enumerates every statement with exactly `size` explicit nodes and compound nesting
// <= depth, in the context of the enclosing labels (innermost last).
func (a *Alphabet) genStmts(size, depth int, labels []ctxLabel, yield func(*Node)) {
	if size == 1 {
		for _, k := range a.Leaves {
			yield(&Node{K: k})
		}
		for up := 0; up < len(labels); up++ {
			yield(&Node{K: "leave", Up: up})
			if labels[len(labels)-1-up].loop {
				yield(&Node{K: "iterate", Up: up})
			}
		}
	}
	if depth == 0 {
		return
	}
	for _, t := range a.Compounds {
		ns := slots[t.K]
		inner := labels
		if isLabelled(t.K) {
			inner = append(append([]ctxLabel{}, labels...), ctxLabel{isLoop(t.K)})
		}
		// distribute size-1 nodes over the ns child lists
		a.genLists(ns, size-1, depth-1, inner, func(ls [][]*Node) {
			n := *t
			n.B = ls
			yield(&n)
		})
	}
}

// genLists enumerates every tuple of `n` statement lists with `size` explicit nodes in total.
func (a *Alphabet) genLists(n, size, depth int, labels []ctxLabel, yield func([][]*Node)) {
	if n == 0 {
		if size == 0 {
			yield(nil)
		}
		return
	}
	for first := 0; first <= size; first++ {
		a.genList(first, depth, labels, func(l []*Node) {
			a.genLists(n-1, size-first, depth, labels, func(rest [][]*Node) {
				out := make([][]*Node, 0, n)
				out = append(out, l)
				out = append(out, rest...)
				yield(out)
			})
		})
	}
}

// genList enumerates every statement list with `size` explicit nodes in total.
func (a *Alphabet) genList(size, depth int, labels []ctxLabel, yield func([]*Node)) {
	if size == 0 {
		yield([]*Node{})
		return
	}
	for first := 1; first <= size; first++ {
		a.genStmts(first, depth, labels, func(s *Node) {
			a.genList(size-first, depth, labels, func(rest []*Node) {
				out := make([]*Node, 0, 1+len(rest))
				out = append(out, s)
				out = append(out, rest...)
				yield(out)
			})
		})
	}
}

// Programs enumerates all root statements of size MinSize(default 1)..MaxSize in a fixed order.
func (a *Alphabet) Programs(yield func(idx int64, root *Node)) {
	idx := int64(0)
	from := a.MinSize
	if from == 0 {
		from = 1
	}
	for size := from; size <= a.MaxSize; size++ {
		a.genStmts(size, a.MaxDepth, nil, func(n *Node) {
			yield(idx, n)
			idx++
		})
	}
}

// walk visits all nodes.
func walk(n *Node, f func(*Node)) {
	f(n)
	for _, l := range n.B {
		for _, c := range l {
			walk(c, f)
		}
	}
}

func size(n *Node) int {
	s := 0
	walk(n, func(*Node) { s++ })
	return s
}

func depthOf(n *Node) int {
	if slots[n.K] == 0 {
		return 0
	}
	d := 0
	for _, l := range n.B {
		for _, c := range l {
			if x := depthOf(c); x > d {
				d = x
			}
		}
	}
	return d + 1
}

// features returns the sorted distinct feature names of a program.
func features(n *Node) []string {
	set := map[string]bool{}
	walk(n, func(x *Node) {
		for _, f := range x.feature() {
			set[f] = true
		}
	})
	out := make([]string, 0, len(set))
	for f := range set {
		out = append(out, f)
	}
	sortStrings(out)
	return out
}

// usesParam reports whether the program reads/writes a (loops always read a), or c.
func uses(n *Node) (usesA, usesC bool) {
	walk(n, func(x *Node) {
		switch x.K {
		case "while", "repeat", "loop", "loopb", "seta", "callv":
			usesA = true
		case "if", "ifelse":
			if strings.Contains(conds[x.C], "a ") {
				usesA = true
			}
			if strings.Contains(conds[x.C], "c ") {
				usesC = true
			}
		case "ifelseif", "cases":
			usesA = true
		case "setc", "sbc", "call", "callm", "calln":
			usesC = true
		}
		if x.K == "callv" {
			usesC = true
		}
	})
	return
}
