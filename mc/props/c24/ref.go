package c24

import (
	"fmt"
	"sort"
	"strings"
)

// ---------------------------------------------------------------------------------------------
// Reference structured interpreter for the program AST (MySQL 8.0 stored program semantics as
// documented in the manual, chapters "Compound Statement Syntax", "DECLARE ... HANDLER",
// "Flow Control Statements", "CALL"). It never looks at the SQL text or the engine.
// ---------------------------------------------------------------------------------------------

type val struct {
	Null bool
	N    int64
}

func iv(n int64) val { return val{N: n} }

var null = val{Null: true}

func (v val) String() string {
	if v.Null {
		return "NULL"
	}
	return fmt.Sprint(v.N)
}

func add(a, b val) val {
	if a.Null || b.Null {
		return null
	}
	return iv(a.N + b.N)
}

// three-valued logic: 1 true, 0 false, -1 unknown
func cmpLT(a, b val) int {
	if a.Null || b.Null {
		return -1
	}
	if a.N < b.N {
		return 1
	}
	return 0
}
func cmpGT(a, b val) int { return cmpLT(b, a) }
func cmpGE(a, b val) int {
	switch cmpLT(a, b) {
	case -1:
		return -1
	case 1:
		return 0
	}
	return 1
}
func cmpEQ(a, b val) int {
	if a.Null || b.Null {
		return -1
	}
	if a.N == b.N {
		return 1
	}
	return 0
}
func or3(a, b int) int {
	if a == 1 || b == 1 {
		return 1
	}
	if a == -1 || b == -1 {
		return -1
	}
	return 0
}
func and3(a, b int) int {
	if a == 0 || b == 0 {
		return 0
	}
	if a == -1 || b == -1 {
		return -1
	}
	return 1
}

type traceRow struct {
	Tag        int
	V, B, C, A val
}

func (t traceRow) String() string {
	return fmt.Sprintf("(%d,%s,%s,%s,%s)", t.Tag, t.V, t.B, t.C, t.A)
}

// Outcome of one CALL p(a, @b, @c).
type Outcome struct {
	Failed  bool   // the CALL ends with an unhandled SQLEXCEPTION
	ErrKind string // signal | case-not-found | duplicate-key
	Trace   []traceRow
	B, C    val        // @b, @c after the call (unchanged when the call failed)
	Results [][]string // result sets in order (each one row: "(v,tag)")
	Steps   int        // simple statements executed (for step limits)
}

type ctlKind int

const (
	ctlNone ctlKind = iota
	ctlLeave
	ctlIterate
	ctlExitBlock // EXIT handler ran: leave the block that declared it
	ctlFail      // unhandled exception
)

type ctl struct {
	kind   ctlKind
	target *Node
	err    string
}

type handlerFrame struct {
	blk  *Node
	vIdx int // index into vstack of the v visible where the handler was declared
}

type interp struct {
	tags map[*Node]*nodeTags
	// semantics switch: does ITERATE inside REPEAT evaluate the UNTIL condition (engine style) or
	// restart the statement list directly (MySQL's sp_head code generation)? The manual only says
	// "start the loop again"; both are accepted.
	repeatIterateChecksUntil bool

	a, b, c  val
	ctr      [4]val // i1..i3
	vstack   []val
	labels   []*Node
	loopLvl  int
	handlers []handlerFrame
	uq       map[int64]bool
	out      *Outcome
}

func (st *interp) v() *val { return &st.vstack[len(st.vstack)-1] }

func (st *interp) trace(tag int) {
	st.out.Steps++
	st.out.Trace = append(st.out.Trace, traceRow{tag, *st.v(), st.b, st.c, st.a})
}

func (st *interp) cond(i int) int {
	switch i {
	case 0:
		return cmpLT(*st.v(), iv(2))
	case 1:
		return cmpGT(st.a, iv(0))
	case 2:
		if st.c.Null {
			return 1
		}
		return 0
	case 3:
		return cmpEQ(*st.v(), iv(1))
	}
	panic("cond")
}

// raise delivers a condition raised by the current simple statement: "exception" (SQLEXCEPTION
// class) or "notfound" (SQLSTATE class 02 raised as a warning by SELECT ... INTO).
func (st *interp) raise(class, err string) ctl {
	for i := len(st.handlers) - 1; i >= 0; i-- {
		h := st.handlers[i]
		want := "exception"
		if h.blk.H[1] == 'n' {
			want = "notfound"
		}
		if want != class {
			continue
		}
		// run the handler body in the scope of its block
		st.out.Steps++
		hv := &st.vstack[h.vIdx]
		switch h.blk.HB {
		case "set":
			*hv = add(*hv, iv(10))
		case "ins":
			st.out.Trace = append(st.out.Trace, traceRow{st.tags[h.blk].Self, *hv, st.b, st.c, st.a})
		case "blk":
			*hv = add(*hv, iv(10))
			st.out.Trace = append(st.out.Trace, traceRow{st.tags[h.blk].Self, *hv, st.b, st.c, st.a})
		}
		if h.blk.H[0] == 'c' {
			return ctl{}
		}
		return ctl{kind: ctlExitBlock, target: h.blk}
	}
	if class == "notfound" {
		return ctl{} // unhandled NOT FOUND raised by SELECT ... INTO is a warning: continue
	}
	return ctl{kind: ctlFail, err: err}
}

func (st *interp) list(parent *Node, slot int) ctl {
	t := st.tags[parent]
	st.trace(t.Start[slot])
	for i, n := range parent.B[slot] {
		if c := st.stmt(n); c.kind != ctlNone {
			return c
		}
		if slots[n.K] > 0 {
			st.trace(t.After[slot][i])
		}
	}
	return ctl{}
}

func (st *interp) stmt(n *Node) ctl {
	if slots[n.K] == 0 {
		st.out.Steps++
	}
	switch n.K {
	case "inc":
		*st.v() = add(*st.v(), iv(1))
	case "setb":
		st.b = *st.v()
	case "setc":
		st.c = add(st.c, iv(1))
	case "seta":
		st.a = add(st.a, iv(1))
	case "sbc":
		st.b, st.c = *st.v(), add(st.c, iv(1))
	case "cnt":
		*st.v() = iv(int64(len(st.out.Trace)))
	case "nf":
		return st.raise("notfound", "")
	case "err":
		return st.raise("exception", "signal")
	case "dup":
		if st.uq[1] {
			return st.raise("exception", "duplicate-key")
		}
		st.uq[1] = true
	case "sel":
		st.out.Results = append(st.out.Results, []string{fmt.Sprintf("(%s,%d)", *st.v(), st.tags[n].Self)})
	case "call", "callm", "calln": // CALL q|qm|qn(v, b, c): IN arguments are passed by value
		nb, nc := st.callQ(*st.v(), st.c, n.K == "callm")
		st.b, st.c = nb, nc
	case "callv": // CALL q(a, v, c)
		nb, nc := st.callQ(st.a, st.c, false)
		*st.v(), st.c = nb, nc
	case "calle":
		st.out.Steps++
		st.out.Trace = append(st.out.Trace, traceRow{710, null, null, null, null})
		return st.raise("exception", "signal")
	case "calls":
		st.out.Steps += 2
		st.out.Trace = append(st.out.Trace, traceRow{720, null, null, null, *st.v()})
		st.out.Results = append(st.out.Results, []string{fmt.Sprintf("(%s,%d)", *st.v(), 720)})
	case "leave":
		return ctl{kind: ctlLeave, target: st.labels[len(st.labels)-1-n.Up]}
	case "iterate":
		return ctl{kind: ctlIterate, target: st.labels[len(st.labels)-1-n.Up]}
	case "if":
		if st.cond(n.C) == 1 {
			return st.list(n, 0)
		}
	case "ifelse":
		if st.cond(n.C) == 1 {
			return st.list(n, 0)
		}
		return st.list(n, 1)
	case "ifelseif":
		if st.cond(0) == 1 {
			return st.list(n, 0)
		}
		if st.cond(1) == 1 {
			return st.list(n, 1)
		}
		return st.list(n, 2)
	case "case1":
		if cmpEQ(*st.v(), iv(1)) == 1 {
			return st.list(n, 0)
		}
		return st.raise("exception", "case-not-found")
	case "case2":
		if cmpEQ(*st.v(), iv(0)) == 1 {
			return st.list(n, 0)
		}
		return st.list(n, 1)
	case "cases":
		if st.cond(3) == 1 {
			return st.list(n, 0)
		}
		if st.cond(1) == 1 {
			return st.list(n, 1)
		}
		return st.raise("exception", "case-not-found")
	case "while", "repeat", "loop", "loopb":
		return st.loop(n)
	case "blk":
		return st.block(n)
	default:
		panic("ref: unknown kind " + n.K)
	}
	return ctl{}
}

// callQ models the helper q(IN a, OUT b, INOUT c): returns the values assigned to the OUT and
// INOUT arguments.
func (st *interp) callQ(a, c val, assignsIn bool) (val, val) {
	st.out.Steps += 5
	b := null
	st.out.Trace = append(st.out.Trace, traceRow{700, null, b, c, a})
	b = add(a, iv(10))
	c = add(c, iv(100))
	if assignsIn {
		a = iv(77) // local to the callee
	}
	st.out.Trace = append(st.out.Trace, traceRow{701, null, b, c, a})
	return b, c
}

func (st *interp) loop(n *Node) ctl {
	st.loopLvl++
	lvl := st.loopLvl
	st.labels = append(st.labels, n)
	defer func() {
		st.labels = st.labels[:len(st.labels)-1]
		st.loopLvl--
	}()
	i := &st.ctr[lvl]
	*i = iv(0)
	st.out.Steps++
	// body runs one iteration; returns (leaveLoop, iterate, ctl-to-propagate)
	body := func() (leave bool, iterated bool, out ctl) {
		if n.K == "loopb" {
			// the body is a block with its own v: entered (and left) on every iteration
			st.out.Steps++
			st.vstack = append(st.vstack, iv(5))
			defer func() { st.vstack = st.vstack[:len(st.vstack)-1] }()
		}
		st.out.Steps++
		*i = add(*i, iv(1))
		switch n.K {
		case "repeat":
			st.out.Steps++
			if cmpGT(*i, iv(3)) == 1 {
				return true, false, ctl{}
			}
		case "loop", "loopb":
			st.out.Steps++
			if or3(cmpGT(*i, st.a), cmpGT(*i, iv(3))) == 1 {
				return true, false, ctl{}
			}
		}
		c := st.list(n, 0)
		switch {
		case c.kind == ctlNone:
			return false, false, ctl{}
		case c.kind == ctlLeave && c.target == n:
			return true, false, ctl{}
		case c.kind == ctlIterate && c.target == n:
			return false, true, ctl{}
		}
		return true, false, c
	}
	for guard := 0; ; guard++ {
		if guard > 1000 {
			panic("ref: loop does not terminate")
		}
		if n.K == "while" {
			st.out.Steps++
			if and3(cmpLT(*i, st.a), cmpLT(*i, iv(3))) != 1 {
				return ctl{}
			}
		}
		leave, iterated, c := body()
		if c.kind != ctlNone {
			return c
		}
		if leave {
			return ctl{}
		}
		if n.K == "repeat" {
			if iterated && !st.repeatIterateChecksUntil {
				continue
			}
			st.out.Steps++
			if cmpGE(*i, st.a) == 1 {
				return ctl{}
			}
		}
	}
}

func (st *interp) block(n *Node) ctl {
	st.labels = append(st.labels, n)
	pushedV := false
	if n.Shadow {
		st.out.Steps++
		st.vstack = append(st.vstack, iv(5))
		pushedV = true
	}
	pushedH := false
	if n.H != "" {
		st.out.Steps++
		st.handlers = append(st.handlers, handlerFrame{blk: n, vIdx: len(st.vstack) - 1})
		pushedH = true
	}
	c := st.list(n, 0)
	if pushedH {
		st.handlers = st.handlers[:len(st.handlers)-1]
	}
	if pushedV {
		st.vstack = st.vstack[:len(st.vstack)-1]
	}
	st.labels = st.labels[:len(st.labels)-1]
	switch {
	case c.kind == ctlLeave && c.target == n:
		return ctl{}
	case c.kind == ctlExitBlock && c.target == n:
		return ctl{}
	}
	return c
}

// Interpret runs the program for one argument tuple; bIn is the value of @b before the call (it
// must not be visible inside: OUT parameters start as NULL).
func Interpret(root *Node, tags map[*Node]*nodeTags, a, bIn, c val, repeatIterateChecksUntil bool) *Outcome {
	st := &interp{tags: tags, repeatIterateChecksUntil: repeatIterateChecksUntil, a: a, b: null, c: c,
		vstack: []val{iv(0)}, uq: map[int64]bool{}, out: &Outcome{}}
	st.ctr = [4]val{iv(0), iv(0), iv(0), iv(0)}
	st.out.Steps = 5
	r := st.stmt(root)
	switch r.kind {
	case ctlNone:
		st.trace(finalTag)
		st.out.B, st.out.C = st.b, st.c
	case ctlFail:
		st.out.Failed, st.out.ErrKind = true, r.err
		st.out.B, st.out.C = bIn, c
	default:
		panic(fmt.Sprintf("ref: control signal %d escaped the program", r.kind))
	}
	return st.out
}

func (o *Outcome) TraceStrings() []string {
	out := make([]string, len(o.Trace))
	for i, t := range o.Trace {
		out[i] = t.String()
	}
	return out
}

// Key renders the complete outcome (used to compare the two REPEAT/ITERATE readings).
func (o *Outcome) Key() string {
	return fmt.Sprintf("failed=%v b=%s c=%s trace=%s results=%v", o.Failed, o.B, o.C, strings.Join(o.TraceStrings(), ""), o.Results)
}

func sortStrings(s []string) { sort.Strings(s) }
