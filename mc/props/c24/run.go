package c24

import (
	"context"
	"encoding/json"
	"fmt"
	"io"
	"runtime/debug"
	"strings"

	"github.com/dolthub/go-mysql-server/sql"

	"verif/mc/eng"
)

// ---------------------------------------------------------------------------------------------
// Driving the real engine for one (program, argument tuple)
// ---------------------------------------------------------------------------------------------

// Case is the replayable unit: a program and one argument tuple (nil = NULL).
type Case struct {
	Prog *Node  `json:"prog"`
	A    *int64 `json:"a"`
	C    *int64 `json:"c"`
	BIn  *int64 `json:"b_in"`          // value of @b before the CALL (nil = NULL)
	SQL  string `json:"sql,omitempty"` // informational: the CREATE PROCEDURE text and the CALL
}

func pv(p *int64) val {
	if p == nil {
		return null
	}
	return iv(*p)
}

func lit(p *int64) string {
	if p == nil {
		return "NULL"
	}
	return fmt.Sprint(*p)
}

// stepLimit is the panic value of the step guard.
type stepLimit struct{}

// limitCtx counts every use of the context by the engine (Done/Err/Value are consulted by every
// statement the procedure interpreter runs: new sub-contexts, spans, table iterators); when the
// count exceeds the limit it panics with stepLimit{}. This bounds non-terminating CALLs
// deterministically (no wall clock).
type limitCtx struct {
	context.Context
	n     *int64
	limit int64
}

func (l limitCtx) tick() {
	*l.n++
	if *l.n > l.limit {
		panic(stepLimit{})
	}
}
func (l limitCtx) Done() <-chan struct{} { l.tick(); return nil }
func (l limitCtx) Err() error            { l.tick(); return nil }
func (l limitCtx) Value(k any) any       { l.tick(); return l.Context.Value(k) }

// Observed outcome of one CALL.
type Observed struct {
	CreateErr error
	Hang      bool // step limit exceeded
	Ticks     int64
	Panic     any
	Stack     string
	Err       error
	IsOK      bool     // CALL returned an OkResult (no result set)
	Rows      []string // rows of the result set the CALL returned
	Trace     []string
	B, C      string
	Broken    string // the engine could not be inspected after the call (harness must not go on)
}

// execLimited runs one statement with the step guard.
func execLimited(s *eng.Session, q string, limit int64) (res *eng.Result, hang bool, ticks int64) {
	res = &eng.Result{}
	var n int64
	ctx := sql.NewContext(limitCtx{context.Background(), &n, limit}, sql.WithSession(s.Sess))
	defer func() {
		ticks = n
		if x := recover(); x != nil {
			if _, ok := x.(stepLimit); ok {
				hang = true
				return
			}
			res.Panic = x
			res.Stack = string(debug.Stack())
			res.Err = fmt.Errorf("panic: %v", x)
		}
	}()
	sch, it, _, err := s.Eng.E.Query(ctx, q)
	if err != nil {
		res.Err = err
		return
	}
	res.Schema = sch
	for {
		row, err := it.Next(ctx)
		if err == io.EOF {
			break
		}
		if err != nil {
			res.Err = err
			it.Close(ctx)
			return
		}
		res.Rows = append(res.Rows, row)
	}
	if err := it.Close(ctx); err != nil {
		res.Err = err
	}
	return
}

// Runner holds an engine with the fixture and the procedure under test.
type Runner struct {
	e         *eng.Engine
	s         *eng.Session
	CreateErr error
	usesUQ    bool
	usesCnt   bool  // the program counts the trace rows: the table is emptied before every CALL
	lastSeq   int64 // trace rows up to this seq belong to earlier CALLs
	Dirty     bool  // a hang/panic happened: the engine must not be reused
}

// NewRunner builds a fresh engine with the fixture and creates the procedure.
func NewRunner(procSQL string) *Runner {
	r := newFixture()
	r.Load(procSQL)
	return r
}

func newFixture() *Runner {
	e := eng.New()
	s := e.NewSession("root")
	for _, q := range fixtureSQL {
		s.MustExec(q)
	}
	return &Runner{e: e, s: s}
}

// Load replaces procedure p (on a reused engine: in a new session, so that no session state of
// an earlier program is visible).
func (r *Runner) Load(procSQL string) {
	if r.CreateErr == nil && r.usesUQ {
		// keep the fixture tables clean for the next program
		r.s.MustExec("DELETE FROM uq")
	}
	r.s = r.e.NewSession("root")
	r.s.MustExec("DROP PROCEDURE IF EXISTS p")
	r.usesUQ = strings.Contains(procSQL, "INTO uq")
	r.usesCnt = strings.Contains(procSQL, "COUNT(*)")
	r.CreateErr = nil
	if res := r.s.Exec(procSQL); res.Err != nil {
		r.CreateErr = res.Err
	}
}

// Call runs CALL p(a, @b, @c) on the runner's engine and collects everything observable.
func (r *Runner) Call(a, c, bIn *int64, stepBudget int64) *Observed {
	o := &Observed{}
	s := r.s
	if r.usesCnt {
		s.MustExec("DELETE FROM trace")
	}
	if r.usesUQ {
		s.MustExec("DELETE FROM uq")
	}
	s.MustExec(fmt.Sprintf("SET @b = %s, @c = %s", lit(bIn), lit(c)))
	res, hang, ticks := execLimited(s, fmt.Sprintf("CALL p(%s, @b, @c)", lit(a)), stepBudget)
	o.Ticks = ticks
	if hang {
		o.Hang, r.Dirty = true, true
		return o
	}
	if res.Panic != nil {
		o.Panic, o.Stack, r.Dirty = res.Panic, res.Stack, true
		return o
	}
	o.Err = res.Err
	if res.Err == nil {
		if _, ok := res.OK(); ok {
			o.IsOK = true
		} else {
			o.Rows = res.RowStrings()
		}
	}
	tr := s.Exec(fmt.Sprintf("SELECT tag,v,b,c,a,seq FROM trace WHERE seq > %d ORDER BY seq", r.lastSeq))
	if tr.Err != nil {
		o.Broken = "trace unreadable: " + tr.Err.Error()
		return o
	}
	for _, row := range tr.Rows {
		if n, ok := row[5].(int32); ok {
			r.lastSeq = int64(n)
		} else {
			o.Broken = fmt.Sprintf("trace seq has type %T", row[5])
			return o
		}
		o.Trace = append(o.Trace, eng.FormatRow(row[:5]))
	}
	bc := s.Exec("SELECT @b, @c")
	if bc.Err != nil || len(bc.Rows) != 1 {
		o.Broken = "user variables unreadable: " + bc.Summary()
		return o
	}
	o.B, o.C = eng.FormatValue(bc.Rows[0][0]), eng.FormatValue(bc.Rows[0][1])
	return o
}

// ---------------------------------------------------------------------------------------------
// Judging one case
// ---------------------------------------------------------------------------------------------

// Verdict of one case; Clause == "" means the engine agrees with the reference.
type Verdict struct {
	Clause   string
	Kind     string
	Observed string
	Expected string
	Frame    string
	// evidence
	RefFailed   bool
	RefResults  int
	RefTraceLen int
	Ticks       int64
	Unsupported string // CREATE PROCEDURE rejected with a listed "unsupported" error
}

func topFrame(stack string) string {
	for _, l := range strings.Split(stack, "\n") {
		if !strings.HasPrefix(l, "github.com/dolthub/go-mysql-server/") {
			continue
		}
		if j := strings.LastIndex(l, "("); j > 0 {
			l = l[:j]
		}
		return strings.TrimPrefix(l, "github.com/dolthub/go-mysql-server/")
	}
	return "unknown"
}

// refOutcomes returns the accepted reference outcomes (both readings of ITERATE in REPEAT).
func refOutcomes(root *Node, tags map[*Node]*nodeTags, a, c, bIn *int64) []*Outcome {
	o1 := Interpret(root, tags, pv(a), pv(bIn), pv(c), false)
	o2 := Interpret(root, tags, pv(a), pv(bIn), pv(c), true)
	if o1.Key() == o2.Key() {
		return []*Outcome{o1}
	}
	return []*Outcome{o1, o2}
}

func compare(obs *Observed, ref *Outcome) (clause, kind, observed, expected string) {
	if ref.Failed != (obs.Err != nil) {
		if ref.Failed {
			return "call-outcome", "missing-error", "CALL succeeded; trace " + strings.Join(obs.Trace, ""), "CALL fails with an unhandled " + ref.ErrKind + " condition; trace " + strings.Join(ref.TraceStrings(), "")
		}
		return "call-outcome", "unexpected-error", "CALL failed: " + obs.Err.Error() + "; trace " + strings.Join(obs.Trace, ""), "CALL succeeds; trace " + strings.Join(ref.TraceStrings(), "")
	}
	if want := ref.TraceStrings(); !eng.EqualStrings(obs.Trace, want) {
		return "trace-equals-reference", traceDiffKind(obs.Trace, want), strings.Join(obs.Trace, ""), strings.Join(want, "")
	}
	if obs.B != ref.B.String() {
		return "out-parameter", "out-differs", "@b = " + obs.B, "@b = " + ref.B.String()
	}
	if obs.C != ref.C.String() {
		return "inout-parameter", "inout-differs", "@c = " + obs.C, "@c = " + ref.C.String()
	}
	if !ref.Failed {
		// the engine's CALL delivers ONE result: it must be the last result set of the sequence
		if len(ref.Results) == 0 {
			if !obs.IsOK {
				return "result-sets", "unexpected-result-set", strings.Join(obs.Rows, ""), "no result set (OK)"
			}
		} else {
			last := ref.Results[len(ref.Results)-1]
			if obs.IsOK {
				return "result-sets", "missing-result-set", "OK, no result set", "last result set " + strings.Join(last, "")
			}
			if !eng.EqualStrings(obs.Rows, last) {
				k := "wrong-result-set"
				for _, earlier := range ref.Results[:len(ref.Results)-1] {
					if eng.EqualStrings(obs.Rows, earlier) {
						k = "earlier-result-set-returned"
					}
				}
				return "result-sets", k, strings.Join(obs.Rows, ""), "last result set " + strings.Join(last, "") + fmt.Sprintf(" (of %d)", len(ref.Results))
			}
		}
	}
	return "", "", "", ""
}

func traceDiffKind(got, want []string) string {
	switch {
	case len(got) > len(want) && eng.EqualStrings(got[:len(want)], want):
		return "extra-statements-executed"
	case len(got) < len(want) && eng.EqualStrings(want[:len(got)], got):
		return "statements-not-executed"
	}
	// same tags in the same order, different values?
	if len(got) == len(want) {
		same := true
		for i := range got {
			if tagOf(got[i]) != tagOf(want[i]) {
				same = false
			}
		}
		if same {
			return "variable-values-differ"
		}
	}
	return "control-flow-differs"
}

func tagOf(row string) string {
	if i := strings.Index(row, ","); i > 0 {
		return row[:i]
	}
	return row
}

// judgeObserved compares an observation with the accepted reference outcomes.
func judgeObserved(obs *Observed, refs []*Outcome) Verdict {
	v := Verdict{RefFailed: refs[0].Failed, RefResults: len(refs[0].Results), RefTraceLen: len(refs[0].Trace), Ticks: obs.Ticks}
	switch {
	case obs.Panic != nil:
		v.Clause, v.Kind, v.Observed, v.Frame = "no-panic", "panic", fmt.Sprint(obs.Panic), topFrame(obs.Stack)
		return v
	case obs.Hang:
		v.Clause, v.Kind = "call-terminates", "nontermination"
		v.Observed = fmt.Sprintf("CALL still running after %d context uses by the engine", obs.Ticks)
		v.Expected = fmt.Sprintf("terminates after %d statements; trace %s", refs[0].Steps, strings.Join(refs[0].TraceStrings(), ""))
		return v
	case obs.Broken != "":
		v.Clause, v.Kind, v.Observed = "state-readable-after-call", "error", obs.Broken
		return v
	}
	for i, ref := range refs {
		cl, k, o, e := compare(obs, ref)
		if cl == "" {
			v.Clause, v.Kind, v.Observed, v.Expected = "", "", "", ""
			return v
		}
		if i == 0 {
			v.Clause, v.Kind, v.Observed, v.Expected = cl, k, o, e
		}
	}
	return v
}

// stepBudget: context uses allowed for a CALL whose reference executes `steps` statements.
// Measured: 2-3 context uses per interpreted statement (evidence key max_context_uses_per_call);
// the factor leaves a >= 4x margin.
func stepBudget(steps int) int64 { return 150 + int64(steps)*12 }

func mustJSON(x any) string {
	b, _ := json.Marshal(x)
	return string(b)
}
