package c25

import (
	"fmt"
	"math/big"
	"strings"
)

// colType is one column type of the operand alphabet.
type colType struct {
	SQL      string // column type text
	Dec      bool   // DECIMAL(P,S)
	Unsigned bool
	Bits     int // integer width
	P, S     int // decimal precision/scale
}

func (t colType) class() string {
	switch {
	case t.Dec:
		return "dec"
	case t.Unsigned:
		return "uint"
	}
	return "sint"
}

func pow(b int64, e int) *big.Int { return new(big.Int).Exp(big.NewInt(b), big.NewInt(int64(e)), nil) }

// min/max of an integer type.
func (t colType) bounds() (*big.Int, *big.Int) {
	if t.Unsigned {
		return big.NewInt(0), new(big.Int).Sub(pow(2, t.Bits), big.NewInt(1))
	}
	return new(big.Int).Neg(pow(2, t.Bits-1)), new(big.Int).Sub(pow(2, t.Bits-1), big.NewInt(1))
}

var intTypes = []colType{
	{SQL: "tinyint", Bits: 8}, {SQL: "tinyint unsigned", Bits: 8, Unsigned: true},
	{SQL: "smallint", Bits: 16}, {SQL: "smallint unsigned", Bits: 16, Unsigned: true},
	{SQL: "mediumint", Bits: 24}, {SQL: "mediumint unsigned", Bits: 24, Unsigned: true},
	{SQL: "int", Bits: 32}, {SQL: "int unsigned", Bits: 32, Unsigned: true},
	{SQL: "bigint", Bits: 64}, {SQL: "bigint unsigned", Bits: 64, Unsigned: true},
}

var decTypesQuick = []colType{
	{SQL: "decimal(10,2)", Dec: true, P: 10, S: 2},
	{SQL: "decimal(65,30)", Dec: true, P: 65, S: 30},
	{SQL: "decimal(65,0)", Dec: true, P: 65, S: 0},
}

var decTypesThorough = []colType{
	{SQL: "decimal(5,0)", Dec: true, P: 5, S: 0},
	{SQL: "decimal(30,30)", Dec: true, P: 30, S: 30},
	{SQL: "decimal(38,10)", Dec: true, P: 38, S: 10},
	{SQL: "decimal(20,17)", Dec: true, P: 20, S: 17},
}

func colTypes(thorough bool) []colType {
	out := append([]colType{}, intTypes...)
	out = append(out, decTypesQuick...)
	if thorough {
		out = append(out, decTypesThorough...)
	}
	return out
}

func typeByName(name string) (colType, bool) {
	for _, t := range colTypes(true) {
		if t.SQL == name {
			return t, true
		}
	}
	return colType{}, false
}

// intAlphabet is the boundary alphabet of DESIGN.md §5 C25 for one integer type, plus ±2, ±3 (so
// that DIV and % see quotients that are not integers, with every sign combination). thorough adds
// min+2/max-2, ±7, 10 and the powers of two next to every narrower width's boundaries.
func intAlphabet(t colType, thorough bool) []string {
	min, max := t.bounds()
	one := big.NewInt(1)
	half := new(big.Int).Div(max, big.NewInt(2))
	sq := new(big.Int).Sqrt(max)
	if new(big.Int).Mul(sq, sq).Cmp(max) < 0 {
		sq.Add(sq, one)
	}
	cand := []*big.Int{
		min, new(big.Int).Add(min, one), big.NewInt(-1), big.NewInt(0), big.NewInt(1),
		new(big.Int).Sub(max, one), max, half, new(big.Int).Add(half, one), sq, new(big.Int).Neg(sq),
		big.NewInt(2), big.NewInt(-2), big.NewInt(3), big.NewInt(-3),
	}
	if thorough {
		cand = append(cand, new(big.Int).Add(min, big.NewInt(2)), new(big.Int).Sub(max, big.NewInt(2)), big.NewInt(7), big.NewInt(-7), big.NewInt(10))
		for _, b := range []int{7, 8, 15, 16, 23, 24, 31, 32, 63} {
			p := pow(2, b)
			cand = append(cand, p, new(big.Int).Sub(p, one), new(big.Int).Neg(p))
		}
	}
	var out []string
	seen := map[string]bool{}
	for _, c := range cand {
		if c.Cmp(min) < 0 || c.Cmp(max) > 0 || seen[c.String()] {
			continue
		}
		seen[c.String()] = true
		out = append(out, c.String())
	}
	return out
}

// decAlphabet: 0, ± smallest unit, ±1.5 (when it fits), ± largest value, 10^k landmarks, 1, -3, 7.
func decAlphabet(t colType, thorough bool) []string {
	ip := t.P - t.S // integer digits
	unit := "1"
	if t.S > 0 {
		unit = "0." + strings.Repeat("0", t.S-1) + "1"
	}
	maxs := strings.Repeat("9", ip)
	if ip == 0 {
		maxs = "0"
	}
	if t.S > 0 {
		maxs += "." + strings.Repeat("9", t.S)
	}
	cand := []string{"0", unit, "-" + unit, maxs, "-" + maxs}
	if ip >= 1 {
		cand = append(cand, "1", "-3", "7")
		if t.S >= 1 {
			cand = append(cand, "1.5", "-1.5", "2.5")
		}
	}
	if ip >= 5 && t.S >= 2 {
		cand = append(cand, "99999.99", "-99999.99")
	}
	if ip >= 31 {
		cand = append(cand, "1"+strings.Repeat("0", 30), "-1"+strings.Repeat("0", 30))
	}
	if ip >= 20 {
		cand = append(cand, "18446744073709551616", "9223372036854775807", "-9223372036854775808")
	}
	if t.S >= 1 {
		cand = append(cand, "0."+strings.Repeat("3", t.S), "-0."+strings.Repeat("6", t.S-1)+"7", "0.5", "-0.5")
	}
	if thorough {
		if ip >= 2 {
			cand = append(cand, "10", "-10", "99")
		}
		if t.S >= 2 {
			cand = append(cand, "0.25", "-0.75", "0.05")
		}
	}
	var out []string
	seen := map[string]bool{}
	for _, c := range cand {
		c = padScale(c, t.S)
		if seen[c] {
			continue
		}
		seen[c] = true
		out = append(out, c)
	}
	return out
}

// padScale writes the decimal text with exactly s fractional digits (the way a DECIMAL(p,s) column
// holds it, and the way the literal is spelled so that literal and column carry the same scale).
func padScale(v string, s int) string {
	neg := strings.HasPrefix(v, "-")
	v = strings.TrimPrefix(v, "-")
	ip, fp := v, ""
	if i := strings.IndexByte(v, '.'); i >= 0 {
		ip, fp = v[:i], v[i+1:]
	}
	if len(fp) > s {
		panic(fmt.Sprintf("padScale: %s has more than %d fractional digits", v, s))
	}
	fp += strings.Repeat("0", s-len(fp))
	out := ip
	if s > 0 {
		out += "." + fp
	}
	if neg && strings.Trim(out, "0.") != "" {
		out = "-" + out
	}
	return out
}

func alphabet(t colType, thorough bool) []string {
	if t.Dec {
		return decAlphabet(t, thorough)
	}
	return intAlphabet(t, thorough)
}

// literal operands: every distinct value text of every column alphabet, plus decimal literals
// with the scales a column cannot produce, plus the integers just outside 64 bits.
func literalAlphabet(thorough bool) []string {
	var out []string
	seen := map[string]bool{}
	add := func(s string) {
		if !seen[s] {
			seen[s] = true
			out = append(out, s)
		}
	}
	for _, t := range colTypes(thorough) {
		for _, v := range alphabet(t, thorough) {
			add(v)
		}
	}
	for _, v := range []string{
		"0.01", "-0.01", "1.5", "-1.5", "99999.99", "0.5", "2.5",
		"18446744073709551616", "-9223372036854775809", "0.3333", "1.00",
	} {
		add(v)
	}
	return out
}

// operand is one side of a case.
type operand struct {
	Route string `json:"route"` // "lit" | "col"
	Type  string `json:"type"`  // column type; for literals "literal"
	Val   string `json:"val"`   // decimal text of the value
}

// info derives value, scale and class of an operand. For a literal the class is the one MySQL
// (and the parser here) gives the token: an integer token up to 2^63-1 (or negative down to
// -2^63) is a signed integer, up to 2^64-1 unsigned, anything else (wider, or with a '.') a
// DECIMAL whose scale is the number of digits written after the point.
type opInfo struct {
	V     *big.Rat
	Scale int
	Class string // sint | uint | dec
	// integer digits available in the operand's declared type (for the non-trivial rule)
	Lo, Hi *big.Rat // representable range of the operand's type
}

var (
	minI64 = new(big.Int).Neg(pow(2, 63))
	maxI64 = new(big.Int).Sub(pow(2, 63), big.NewInt(1))
	maxU64 = new(big.Int).Sub(pow(2, 64), big.NewInt(1))
)

func ratOf(s string) *big.Rat {
	r, ok := new(big.Rat).SetString(s)
	if !ok {
		panic("bad number " + s)
	}
	return r
}

func scaleOfText(s string) int {
	if i := strings.IndexByte(s, '.'); i >= 0 {
		return len(s) - i - 1
	}
	return 0
}

func (o operand) info() opInfo {
	v := ratOf(o.Val)
	if o.Route == "col" {
		t, ok := typeByName(o.Type)
		if !ok {
			panic("unknown type " + o.Type)
		}
		if t.Dec {
			hi := new(big.Rat).SetFrac(new(big.Int).Sub(pow(10, t.P), big.NewInt(1)), pow(10, t.S))
			return opInfo{V: v, Scale: t.S, Class: "dec", Lo: new(big.Rat).Neg(hi), Hi: hi}
		}
		lo, hi := t.bounds()
		return opInfo{V: v, Class: t.class(), Lo: new(big.Rat).SetInt(lo), Hi: new(big.Rat).SetInt(hi)}
	}
	if strings.Contains(o.Val, ".") || !v.IsInt() {
		sc := scaleOfText(o.Val)
		digits := len(strings.TrimLeft(strings.Replace(strings.TrimPrefix(o.Val, "-"), ".", "", 1), "0"))
		if digits < sc {
			digits = sc
		}
		hi := new(big.Rat).SetFrac(new(big.Int).Sub(pow(10, digits), big.NewInt(1)), pow(10, sc))
		return opInfo{V: v, Scale: sc, Class: "dec", Lo: new(big.Rat).Neg(hi), Hi: hi}
	}
	n := v.Num()
	switch {
	case n.Cmp(minI64) >= 0 && n.Cmp(maxI64) <= 0:
		return opInfo{V: v, Class: "sint", Lo: new(big.Rat).SetInt(minI64), Hi: new(big.Rat).SetInt(maxI64)}
	case n.Sign() > 0 && n.Cmp(maxU64) <= 0:
		return opInfo{V: v, Class: "uint", Lo: new(big.Rat), Hi: new(big.Rat).SetInt(maxU64)}
	}
	digits := len(strings.TrimPrefix(o.Val, "-"))
	hi := new(big.Rat).SetInt(new(big.Int).Sub(pow(10, digits), big.NewInt(1)))
	return opInfo{V: v, Class: "dec", Lo: new(big.Rat).Neg(hi), Hi: hi}
}

func (o operand) sqlText(col string) string {
	if o.Route == "col" {
		return col
	}
	if strings.HasPrefix(o.Val, "-") {
		return "(" + o.Val + ")"
	}
	return o.Val
}
