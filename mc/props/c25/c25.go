// Package c25 — integer and decimal arithmetic is exact or reports out-of-range.
//
// Every pair of operands over per-type boundary alphabets × every operator of {+ - * / DIV % and
// unary -}, each operand once as a literal and once as a table column of every integer
// width/signedness and of several DECIMAL(p,s); the result of the real engine (a SELECT) is
// compared with a math/big oracle.
package c25

import (
	"encoding/json"
	"fmt"
	"math/big"
	"strings"

	"github.com/cockroachdb/apd/v3"

	"verif/mc/core"
	"verif/mc/eng"
)

var binOps = []string{"+", "-", "*", "/", "div", "%"}

type c25Case struct {
	Op string   `json:"op"` // + - * / div % neg
	L  operand  `json:"l"`
	R  *operand `json:"r,omitempty"`
	// Dual: literal-only case run as a bare "select <expr>" (no FROM). Literal-only cases are
	// otherwise run as "select <expr> from <table> where id = <k>" (three times cheaper: the
	// engine builds a whole session for every dual-table test).
	Dual bool `json:"dual,omitempty"`
}

func (c c25Case) expr() string {
	l := c.L.sqlText("a")
	if c.Op == "neg" {
		if c.L.Route == "lit" {
			return "-(" + c.L.Val + ")"
		}
		return "-a"
	}
	return l + " " + c.Op + " " + c.R.sqlText("b")
}

func (c c25Case) key() string {
	k := c.Op + "|" + c.L.Route + "|" + c.L.Type + "|" + c.L.Val
	if c.R != nil {
		k += "|" + c.R.Route + "|" + c.R.Type + "|" + c.R.Val
	}
	if c.Dual {
		k += "|dual"
	}
	return k
}

// toRat converts an engine result value to an exact rational. kind names the Go representation.
func toRat(v any) (r *big.Rat, kind string, ok bool) {
	switch x := v.(type) {
	case int8:
		return new(big.Rat).SetInt64(int64(x)), "int", true
	case int16:
		return new(big.Rat).SetInt64(int64(x)), "int", true
	case int32:
		return new(big.Rat).SetInt64(int64(x)), "int", true
	case int64:
		return new(big.Rat).SetInt64(x), "int", true
	case int:
		return new(big.Rat).SetInt64(int64(x)), "int", true
	case uint8:
		return new(big.Rat).SetInt64(int64(x)), "int", true
	case uint16:
		return new(big.Rat).SetInt64(int64(x)), "int", true
	case uint32:
		return new(big.Rat).SetInt64(int64(x)), "int", true
	case uint:
		return new(big.Rat).SetInt(new(big.Int).SetUint64(uint64(x))), "int", true
	case uint64:
		return new(big.Rat).SetInt(new(big.Int).SetUint64(x)), "int", true
	case *apd.Decimal:
		if x == nil || x.Form != apd.Finite {
			return nil, "decimal-nonfinite", false
		}
		q, good := new(big.Rat).SetString(x.Text('f'))
		return q, "decimal", good
	case apd.Decimal:
		return toRat(&x)
	case float64:
		q := new(big.Rat)
		if q.SetFloat64(x) == nil {
			return nil, "float-nonfinite", false
		}
		return q, "float", true
	case float32:
		q := new(big.Rat)
		if q.SetFloat64(float64(x)) == nil {
			return nil, "float-nonfinite", false
		}
		return q, "float", true
	}
	return nil, fmt.Sprintf("%T", v), false
}

var two64 = pow(2, 64)

// congruent mod 2^64
func wraps64(got, exact *big.Rat) bool {
	if !got.IsInt() || !exact.IsInt() {
		return false
	}
	d := new(big.Int).Sub(got.Num(), exact.Num())
	return d.Sign() != 0 && new(big.Int).Mod(d, two64).Sign() == 0
}

func clamp64(x *big.Rat) *big.Rat {
	if x.Cmp(new(big.Rat).SetInt(maxI64)) > 0 {
		return new(big.Rat).SetInt(maxI64)
	}
	if x.Cmp(new(big.Rat).SetInt(minI64)) < 0 {
		return new(big.Rat).SetInt(minI64)
	}
	return x
}

// classify a wrong integer result: "wrapped" (congruent to the exact value modulo 2^64),
// "operand-saturated" (what the operation yields — possibly wrapped — after an operand beyond
// the signed 64-bit range was first clamped into it), else "wrong-value".
func classifyWrong(op string, l, r opInfo, got *big.Rat, e expect) string {
	if wraps64(got, e.Exact) {
		return "wrapped"
	}
	if l.Class != "dec" && (op == "neg" || r.Class != "dec") {
		l2, r2 := l, r
		l2.V = clamp64(l.V)
		if op != "neg" {
			r2.V = clamp64(r.V)
		}
		if l2.V.Cmp(l.V) != 0 || (op != "neg" && r2.V.Cmp(r.V) != 0) {
			e2 := expected(op, l2, r2)
			if !e2.Null && (got.Cmp(e2.Exact) == 0 || wraps64(got, e2.Exact)) {
				return "operand-saturated"
			}
		}
	}
	// narrow wrap: congruent modulo 2^8/2^16/2^32 (computation done in a narrow machine type)
	if got.IsInt() && e.Exact.IsInt() {
		d := new(big.Int).Sub(got.Num(), e.Exact.Num())
		for _, b := range []int{32, 16, 8} {
			if new(big.Int).Mod(d, pow(2, b)).Sign() == 0 {
				return fmt.Sprintf("wrapped-%dbit", b)
			}
		}
	}
	return "wrong-value"
}

// topFrame: first frame of a panic stack that belongs to go-mysql-server (core.TopFrame stops at
// the eng fixture's own stack helper).
func topFrame(stack string) string {
	for _, l := range strings.Split(stack, "\n") {
		if strings.HasPrefix(l, "github.com/dolthub/go-mysql-server/") {
			if j := strings.LastIndex(l, "("); j > 0 {
				l = l[:j]
			}
			return strings.TrimPrefix(l, "github.com/dolthub/go-mysql-server/")
		}
	}
	return core.TopFrame(stack)
}

type outcome struct {
	Err   error
	Panic any
	Stack string
	Val   any
	NRows int
}

func runQuery(s *eng.Session, q string) outcome {
	res := s.Exec(q)
	o := outcome{Err: res.Err, Panic: res.Panic, Stack: res.Stack, NRows: len(res.Rows)}
	if res.Err == nil && len(res.Rows) == 1 && len(res.Rows[0]) == 1 {
		o.Val = res.Rows[0][0]
	}
	return o
}

// subject: the classifying coordinates of a case: the operator and mix = signed | unsigned | mixed
// (integer operands of both signs) | decimal (at least one DECIMAL operand), by MySQL's reading of
// the operands. Route (literal/column), operand order and magnitudes are not part of it: one
// defect of an operator shows on all of them; the witness and the observed SQL carry the route.
func subject(c c25Case, li, ri opInfo) map[string]string {
	m := map[string]string{"op": c.Op}
	cls := []string{li.Class}
	if c.R != nil {
		cls = append(cls, ri.Class)
	}
	ns, nu, nd := 0, 0, 0
	for _, k := range cls {
		switch k {
		case "sint":
			ns++
		case "uint":
			nu++
		default:
			nd++
		}
	}
	switch {
	case nd > 0:
		m["mix"] = "decimal"
	case ns > 0 && nu > 0:
		m["mix"] = "mixed"
	case nu > 0:
		m["mix"] = "unsigned"
	default:
		m["mix"] = "signed"
	}
	return m
}

// judge applies the oracle to one executed case.
func judge(r *core.Run, c c25Case, q string, o outcome) {
	li := c.L.info()
	var ri opInfo
	if c.R != nil {
		ri = c.R.info()
	}
	e := expected(c.Op, li, ri)
	if nonTrivial(c.Op, li, ri, e) {
		r.NonTrivial(c.key())
	}
	subj := subject(c, li, ri)
	viol := func(clause, kind, observed string) {
		r.Outcome(c.Op + ":VIOLATION-" + kind)
		r.Violate(core.Violation{Check: "select", Clause: clause, Kind: kind, Subject: subj,
			Witness: core.J(c), Observed: q + " => " + observed, Expected: e.String()})
	}
	if o.Panic != nil {
		subj["frame"] = topFrame(o.Stack)
		viol("no-panic", "panic", fmt.Sprint(o.Panic))
		return
	}
	if o.Err != nil {
		cls := eng.ErrClass(o.Err)
		if cls == "out-of-range" {
			if e.Null {
				viol("zero-divisor-gives-null", "error-instead-of-null", "ERR "+o.Err.Error())
				return
			}
			if e.ErrOK {
				r.Outcome(c.Op + ":out-of-range-error")
				return
			}
			viol("exact-or-out-of-range", "spurious-out-of-range", "ERR "+o.Err.Error())
			return
		}
		subj["errclass"] = cls
		viol("exact-or-out-of-range", "unexpected-error", "ERR "+o.Err.Error())
		return
	}
	if o.NRows != 1 {
		viol("one-row", "row-count", fmt.Sprintf("%d rows", o.NRows))
		return
	}
	if e.Null {
		if o.Val != nil {
			viol("zero-divisor-gives-null", "not-null", eng.FormatValue(o.Val))
			return
		}
		r.Outcome(c.Op + ":null-on-zero-divisor")
		return
	}
	if o.Val == nil {
		viol("exact-or-out-of-range", "null-result", "NULL")
		return
	}
	got, kind, ok := toRat(o.Val)
	if !ok {
		subj["result"] = kind
		viol("exact-or-out-of-range", "non-numeric-result", eng.FormatValue(o.Val))
		return
	}
	if got.Cmp(e.Lo) >= 0 && got.Cmp(e.Hi) <= 0 {
		switch {
		case e.Lo.Cmp(e.Hi) == 0:
			r.Outcome(c.Op + ":exact")
		case got.Cmp(e.Exact) == 0:
			r.Outcome(c.Op + ":exact-beyond-scale")
		default:
			r.Outcome(c.Op + ":rounded-to-neighbour")
		}
		if r.WantSample() && nonTrivial(c.Op, li, ri, e) {
			r.Sample(map[string]any{"case": c, "sql": q, "got": eng.FormatValue(o.Val), "exact": ratText(e.Exact)})
		}
		return
	}
	k := "wrong-value"
	if e.Lo.Cmp(e.Hi) == 0 && kind == "int" {
		k = classifyWrong(c.Op, li, ri, got, e)
	}
	subj["got"] = fmt.Sprintf("%T", o.Val)
	viol("exact-or-out-of-range", k, fmt.Sprintf("%s (%T)", eng.FormatValue(o.Val), o.Val))
}

// ---- fixtures -------------------------------------------------------------------------------

// fixture holds the tables of one worker: for every (left type, right type) a table
// p_<i>_<j>(id, a, b) with one row per value pair; id = li*1000 + ri.
type fixture struct {
	s      *eng.Session
	types  []colType
	alpha  [][]string
	built  map[[2]int]bool
	tindex map[string]int
}

func newFixture(thorough bool) *fixture {
	f := &fixture{s: eng.New().NewSession("root"), types: colTypes(thorough), built: map[[2]int]bool{}, tindex: map[string]int{}}
	for i, t := range f.types {
		f.alpha = append(f.alpha, alphabet(t, thorough))
		f.tindex[t.SQL] = i
	}
	return f
}

func (f *fixture) table(i, j int) string {
	name := fmt.Sprintf("p_%d_%d", i, j)
	k := [2]int{i, j}
	if f.built[k] {
		return name
	}
	f.built[k] = true
	f.s.MustExec(fmt.Sprintf("create table %s (id int primary key, a %s, b %s)", name, f.types[i].SQL, f.types[j].SQL))
	var sb strings.Builder
	fmt.Fprintf(&sb, "insert into %s values ", name)
	n := 0
	for li, lv := range f.alpha[i] {
		for ri, rv := range f.alpha[j] {
			if n > 0 {
				sb.WriteByte(',')
			}
			n++
			fmt.Fprintf(&sb, "(%d,%s,%s)", li*1000+ri, lv, rv)
		}
	}
	f.s.MustExec(sb.String())
	// fixture sanity: the stored operands are exactly the alphabet values
	res := f.s.MustExec("select id, a, b from " + name + " order by id")
	if len(res.Rows) != n {
		panic(fmt.Sprintf("fixture %s: %d rows, want %d", name, len(res.Rows), n))
	}
	for _, row := range res.Rows {
		idr, _, _ := toRat(row[0])
		id := int(idr.Num().Int64())
		for k, want := range []string{f.alpha[i][id/1000], f.alpha[j][id%1000]} {
			got, _, ok := toRat(row[1+k])
			if !ok || got.Cmp(ratOf(want)) != 0 {
				panic(fmt.Sprintf("fixture %s: row %d column %d holds %s, want %s", name, id, k, eng.FormatValue(row[1+k]), want))
			}
		}
	}
	return name
}

// query for a case whose column operands sit at alphabet positions li (left) / ri (right).
func (f *fixture) run(c c25Case, li, ri int) (string, outcome) {
	if c.L.Route == "lit" && (c.R == nil || c.R.Route == "lit") {
		q := "select " + c.expr()
		if !c.Dual {
			q += " from " + f.table(0, 0) + " where id = 0"
		}
		return q, runQuery(f.s, q)
	}
	var ti, tj, row int
	switch {
	case c.L.Route == "col" && c.R != nil && c.R.Route == "col":
		ti, tj, row = f.tindex[c.L.Type], f.tindex[c.R.Type], li*1000+ri
	case c.L.Route == "col":
		ti, tj, row = f.tindex[c.L.Type], f.tindex[c.L.Type], li*1000
	default:
		ti, tj, row = f.tindex[c.R.Type], f.tindex[c.R.Type], ri
	}
	q := fmt.Sprintf("select %s from %s where id = %d", c.expr(), f.table(ti, tj), row)
	return q, runQuery(f.s, q)
}

// replayCase rebuilds exactly one case on a fresh engine with a one-row table.
func replayCase(r *core.Run, c c25Case) {
	s := eng.New().NewSession("root")
	q := "select " + c.expr()
	if !c.Dual {
		at, av, bt, bv := "int", "0", "int", "0"
		if c.L.Route == "col" {
			at, av = c.L.Type, c.L.Val
		}
		if c.R != nil && c.R.Route == "col" {
			bt, bv = c.R.Type, c.R.Val
		}
		s.MustExec(fmt.Sprintf("create table p (id int primary key, a %s, b %s)", at, bt))
		s.MustExec(fmt.Sprintf("insert into p values (1,%s,%s)", av, bv))
		q += " from p where id = 1"
	}
	judge(r, c, q, runQuery(s, q))
}

func init() {
	core.Register(&core.Prop{
		ID:    "C25",
		Level: "exploration",
		// ≈0.5 ms per case: quick ≈ 0.5 M cases ≈ 5 core-min, thorough ≈ 3.3 M cases ≈ 30 core-min;
		// the soft budgets leave room for a loaded machine and few workers.
		QuickBudget: 900, ThoroughBudget: 7200,
		Rule: "every operator of {+ - * / DIV % unary-} on every ordered pair of operands; operand = (route, type, value): route literal or table column; " +
			"column types = the 10 integer types (5 widths x signedness) + DECIMAL(10,2), (65,30), (65,0) [thorough: + (5,0),(30,30),(38,10),(20,17)]; " +
			"values per integer type {min,min+1,-1,0,1,max-1,max,max/2,max/2+1,+-ceil(sqrt(max)),+-2,+-3} [thorough: + min+2,max-2,+-7,10, 2^k,2^k-1,-2^k for k in 7,8,15,16,23,24,31,32,63]; " +
			"per decimal type {0,+-unit,+-max,1,-3,7,+-1.5,2.5,+-0.5,0.33..,-0.66..7,+-99999.99,+-10^30,2^64,2^63-1,-2^63} as far as they fit; literal operands = every distinct column value text + 11 extra decimal/65-bit literals; " +
			"routes col-col, lit-col, col-lit, lit-lit all complete. Oracle math/big: result inside [floor,ceil] of the exact value at the result scale MySQL prescribes (exact for integer results), or an out-of-range error when the exact value does not fit MySQL's result type; zero divisor => NULL. " +
			"non-trivial = exact result not representable in the type of at least one operand (range or scale), or zero divisor",
		Assumptions: []string{
			"result scale rules: + - max(s1,s2); * min(s1+s2,30); / min(s1+4,30) (div_precision_increment=4); DIV BIGINT; % max(s1,s2)",
			"a result between two adjacent values of the result scale may be either neighbour (rounding freedom); a result that carries more digits than the result scale and is inside that interval is accepted",
			"an out-of-range error is accepted only when the exact result lies outside MySQL's result type: BIGINT, BIGINT UNSIGNED if either operand is unsigned, DECIMAL with 65 digits",
			"the operand values themselves are stored exactly (checked when each fixture table is built)",
			"default sql_mode; FLOAT/DOUBLE operands are outside the property",
		},
		Run: run,
		Replay: func(r *core.Run, w json.RawMessage) {
			var c c25Case
			if json.Unmarshal(w, &c) == nil {
				replayCase(r, c)
			}
		},
	})
}

func run(r *core.Run) {
	th := r.Thorough()
	f := newFixture(th)
	lits := literalAlphabet(th)
	ncol := 0
	for i := range f.types {
		ncol += len(f.alpha[i])
	}
	r.Info("column_types", len(f.types))
	r.Info("column_operands", ncol)
	r.Info("literal_operands", len(lits))
	r.Info("operators", len(binOps)+1)

	var n, mine int64
	stop := false
	do := func(c c25Case, li, ri int) {
		n++
		if stop || !r.Mine(n) {
			return
		}
		mine++
		if mine%256 == 0 && r.Expired() {
			r.Capped(fmt.Sprintf("time budget reached at case %d", n))
			stop = true
			return
		}
		r.Eval()
		q, o := f.run(c, li, ri)
		judge(r, c, q, o)
	}
	litOp := func(v string) operand { return operand{Route: "lit", Type: "literal", Val: v} }

	// literal-only cases that are also run as a bare SELECT (no FROM): quick = the literals of the
	// BIGINT, BIGINT UNSIGNED, TINYINT UNSIGNED and DECIMAL(10,2) alphabets; thorough = all.
	dual := lits
	if !th {
		dual = nil
		seen := map[string]bool{}
		for _, tn := range []string{"bigint", "bigint unsigned", "tinyint unsigned", "decimal(10,2)"} {
			for _, v := range f.alpha[f.tindex[tn]] {
				if !seen[v] {
					seen[v] = true
					dual = append(dual, v)
				}
			}
		}
	}
	r.Info("literal_operands_without_from", len(dual))

	// unary minus
	for _, v := range lits {
		do(c25Case{Op: "neg", L: litOp(v)}, 0, 0)
		do(c25Case{Op: "neg", L: litOp(v), Dual: true}, 0, 0)
	}
	for i, t := range f.types {
		for li, v := range f.alpha[i] {
			do(c25Case{Op: "neg", L: operand{Route: "col", Type: t.SQL, Val: v}}, li, 0)
		}
	}
	// binary operators
	for _, op := range binOps {
		// col-col
		for i, ti := range f.types {
			for j, tj := range f.types {
				for li, lv := range f.alpha[i] {
					for ri, rv := range f.alpha[j] {
						rr := operand{Route: "col", Type: tj.SQL, Val: rv}
						do(c25Case{Op: op, L: operand{Route: "col", Type: ti.SQL, Val: lv}, R: &rr}, li, ri)
					}
				}
			}
		}
		// lit-col and col-lit
		for _, lv := range lits {
			for j, tj := range f.types {
				for ri, rv := range f.alpha[j] {
					rr := operand{Route: "col", Type: tj.SQL, Val: rv}
					do(c25Case{Op: op, L: litOp(lv), R: &rr}, 0, ri)
					ll := litOp(lv)
					do(c25Case{Op: op, L: operand{Route: "col", Type: tj.SQL, Val: rv}, R: &ll}, ri, 0)
				}
			}
		}
		// lit-lit
		for _, lv := range lits {
			for _, rv := range lits {
				rr := litOp(rv)
				do(c25Case{Op: op, L: litOp(lv), R: &rr}, 0, 0)
			}
		}
		// lit-lit as a bare SELECT without FROM
		for _, lv := range dual {
			for _, rv := range dual {
				rr := litOp(rv)
				do(c25Case{Op: op, L: litOp(lv), R: &rr, Dual: true}, 0, 0)
			}
		}
	}
	r.Info("cases_enumerated", n)
}
