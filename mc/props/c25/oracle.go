package c25

import (
	"fmt"
	"math/big"
)

// expectation for one case, from math/big only.
type expect struct {
	Null bool     // the result must be NULL (division by zero)
	Lo   *big.Rat // accepted interval [Lo,Hi] (Lo==Hi: exact)
	Hi   *big.Rat
	// ErrOK: an out-of-range error is an acceptable outcome (the exact result does not fit the
	// result type MySQL prescribes for the operation).
	ErrOK bool
	Exact *big.Rat // the mathematically exact result (nil when Null)
	Scale int      // result scale MySQL prescribes (decimal results)
}

const maxScale = 30
const maxPrec = 65
const divPrecInc = 4

func floorAt(x *big.Rat, scale int) *big.Rat {
	m := new(big.Rat).Mul(x, new(big.Rat).SetInt(pow(10, scale)))
	q := new(big.Int)
	mod := new(big.Int)
	q.DivMod(m.Num(), m.Denom(), mod) // Euclidean: floor for positive denominators
	return new(big.Rat).SetFrac(q, pow(10, scale))
}

func ceilAt(x *big.Rat, scale int) *big.Rat {
	f := floorAt(x, scale)
	if f.Cmp(x) == 0 {
		return f
	}
	return f.Add(f, new(big.Rat).SetFrac(big.NewInt(1), pow(10, scale)))
}

// truncRat truncates toward zero to an integer.
func truncRat(x *big.Rat) *big.Int {
	q := new(big.Int).Quo(x.Num(), x.Denom()) // Quo truncates toward zero
	return q
}

func inRange(x *big.Rat, lo, hi *big.Int) bool {
	return x.Cmp(new(big.Rat).SetInt(lo)) >= 0 && x.Cmp(new(big.Rat).SetInt(hi)) <= 0
}

func min(a, b int) int {
	if a < b {
		return a
	}
	return b
}
func max(a, b int) int {
	if a > b {
		return a
	}
	return b
}

// decFits: |x| < 10^(65-scale)
func decFits(x *big.Rat, scale int) bool {
	lim := new(big.Rat).SetInt(pow(10, maxPrec-scale))
	return new(big.Rat).Abs(x).Cmp(lim) < 0
}

// intResultErrOK: may an integer operation on these operand classes report out-of-range for the
// exact result x? MySQL's result type is BIGINT UNSIGNED when either operand is unsigned, else
// BIGINT; the property lets the engine report instead of widening, so a report is accepted
// whenever x is outside the range that *both* 64-bit result types share with MySQL's choice:
// [0, 2^63-1] with an unsigned operand, [-2^63, 2^63-1] otherwise.
func intResultErrOK(x *big.Rat, anyUnsigned bool) bool {
	if anyUnsigned {
		return !inRange(x, big.NewInt(0), maxI64)
	}
	return !inRange(x, minI64, maxI64)
}

// expected computes the oracle for op on (l, r); r is ignored for unary minus ("neg").
func expected(op string, l, r opInfo) expect {
	anyDec := l.Class == "dec" || (op != "neg" && r.Class == "dec")
	anyUns := l.Class == "uint" || (op != "neg" && r.Class == "uint")
	x, y := l.V, r.V
	switch op {
	case "neg":
		e := new(big.Rat).Neg(x)
		if l.Class == "dec" {
			return expect{Lo: e, Hi: e, Exact: e, Scale: l.Scale}
		}
		// -(unsigned) and -(signed) are BIGINT in MySQL
		return expect{Lo: e, Hi: e, Exact: e, ErrOK: !inRange(e, minI64, maxI64)}
	case "+", "-", "*":
		var e *big.Rat
		switch op {
		case "+":
			e = new(big.Rat).Add(x, y)
		case "-":
			e = new(big.Rat).Sub(x, y)
		default:
			e = new(big.Rat).Mul(x, y)
		}
		if !anyDec {
			return expect{Lo: e, Hi: e, Exact: e, ErrOK: intResultErrOK(e, anyUns)}
		}
		sc := max(l.Scale, r.Scale)
		if op == "*" {
			sc = min(l.Scale+r.Scale, maxScale)
		}
		return expect{Lo: floorAt(e, sc), Hi: ceilAt(e, sc), Exact: e, Scale: sc, ErrOK: !decFits(e, sc)}
	case "/":
		if y.Sign() == 0 {
			return expect{Null: true}
		}
		e := new(big.Rat).Quo(x, y)
		sc := min(l.Scale+divPrecInc, maxScale)
		return expect{Lo: floorAt(e, sc), Hi: ceilAt(e, sc), Exact: e, Scale: sc, ErrOK: !decFits(e, sc)}
	case "div":
		if y.Sign() == 0 {
			return expect{Null: true}
		}
		q := new(big.Rat).SetInt(truncRat(new(big.Rat).Quo(x, y)))
		return expect{Lo: q, Hi: q, Exact: q, ErrOK: intResultErrOK(q, anyUns)}
	case "%":
		if y.Sign() == 0 {
			return expect{Null: true}
		}
		q := new(big.Rat).SetInt(truncRat(new(big.Rat).Quo(x, y)))
		e := new(big.Rat).Sub(x, new(big.Rat).Mul(y, q))
		// the remainder always fits; only a negative remainder with an unsigned operand may be
		// reported as out of range (BIGINT UNSIGNED result)
		return expect{Lo: e, Hi: e, Exact: e, Scale: max(l.Scale, r.Scale), ErrOK: !anyDec && anyUns && e.Sign() < 0}
	}
	panic("unknown op " + op)
}

// nonTrivial: the exact result is not representable in the type of (at least) one operand —
// outside its range or needing more fractional digits than its scale — or the divisor is zero.
func nonTrivial(op string, l, r opInfo, e expect) bool {
	if e.Null {
		return true
	}
	fits := func(o opInfo) bool {
		if e.Exact.Cmp(o.Lo) < 0 || e.Exact.Cmp(o.Hi) > 0 {
			return false
		}
		return floorAt(e.Exact, o.Scale).Cmp(e.Exact) == 0
	}
	if op == "neg" {
		return !fits(l)
	}
	return !fits(l) || !fits(r)
}

func ratText(x *big.Rat) string {
	if x == nil {
		return "NULL"
	}
	if x.IsInt() {
		return x.Num().String()
	}
	// finite decimal expansions print exactly with enough digits; others as a fraction
	for d := 1; d <= 70; d++ {
		if floorAt(x, d).Cmp(x) == 0 {
			return x.FloatString(d)
		}
	}
	return fmt.Sprintf("%s (=%s…)", x.String(), x.FloatString(40))
}

func (e expect) String() string {
	if e.Null {
		return "NULL"
	}
	s := ratText(e.Exact)
	if e.Lo.Cmp(e.Hi) != 0 {
		s = fmt.Sprintf("%s, i.e. %s or %s at the result scale %d", s, ratText(e.Lo), ratText(e.Hi), e.Scale)
	}
	if e.ErrOK {
		s += " or an out-of-range error"
	}
	return s
}
