package c26

import (
	"fmt"
	"math"
	"sort"
	"strconv"
	"time"

	"github.com/cockroachdb/apd/v3"
	"github.com/dolthub/vitess/go/sqltypes"

	"github.com/dolthub/go-mysql-server/sql"
	"github.com/dolthub/go-mysql-server/sql/types"
)

// val is one element of a type's value alphabet.
//
//	Label identifies it (witnesses name values by label), Rep is the *representation class* that goes
//	into violation subjects (Go kind + what it denotes), Dom says whether it is meant to be a value
//	of the type ("in": a value of the type, possibly in another representation; "out": deliberately
//	outside the domain — junk or out of range — kept small; used to separate signatures).
type val struct {
	Label string
	Rep   string
	V     any
	Thor  bool // only in the thorough tier
	Out   bool // NOT a value of the type: junk, out of range, or only convertible with loss (rounding, padding, re-interpretation)
}

type typ struct {
	Name   string // unique, used in witnesses
	Family string // classifying: int, uint, float, decimal, char, binary, datetime, date, timestamp, time, year, enum, set, bit, json, geometry
	T      sql.Type
	Vals   []val
	Thor   bool
}

func dec(s string) *apd.Decimal {
	d, _, err := apd.NewFromString(s)
	if err != nil {
		panic(err)
	}
	return d
}

func v(label, rep string, x any) val  { return val{Label: label, Rep: rep, V: x} }
func vt(label, rep string, x any) val { return val{Label: label, Rep: rep, V: x, Thor: true} }

// vo / vto: values that are not values of the type (kept for the order laws, excluded from the
// coherence-with-Convert law)
func vo(label, rep string, x any) val { return val{Label: label, Rep: rep, V: x, Out: true} }
func vto(label, rep string, x any) val {
	return val{Label: label, Rep: rep, V: x, Thor: true, Out: true}
}

// markOut flags the named labels as outside the type (per-type differences of a shared alphabet).
func markOut(vals []val, labels ...string) []val {
	out := append([]val{}, vals...)
	for _, l := range labels {
		found := false
		for i := range out {
			if out[i].Label == l {
				out[i].Out, found = true, true
			}
		}
		if !found {
			panic("markOut: no label " + l)
		}
	}
	return out
}

func tm(s string) time.Time {
	for _, l := range []string{"2006-01-02 15:04:05.999999", "2006-01-02"} {
		if t, err := time.Parse(l, s); err == nil {
			return t
		}
	}
	panic("bad time " + s)
}

func signedAlphabet(min, max int64) []val {
	return []val{
		v("i64:0", "int", int64(0)),
		v("i64:1", "int", int64(1)),
		v("i64:-1", "int", int64(-1)),
		v("i64:2", "int", int64(2)),
		v("i64:min", "int", min),
		v("i64:max", "int", max),
		v("i64:max-1", "int", max-1),
		v("i8:1", "int", int8(1)),
		v("u8:1", "uint", uint8(1)),
		v("u64:2", "uint", uint64(2)),
		v("f64:1.0", "float-integral", float64(1)),
		v("f64:-1.0", "float-integral", float64(-1)),
		v("str:1", "string-integer", "1"),
		v("str:max", "string-integer", strconv.FormatInt(max, 10)),
		v("str:min", "string-integer", strconv.FormatInt(min, 10)),
		v("str:-0", "string-integer", "-0"),
		v("bool:true", "bool", true),
		v("bool:false", "bool", false),
		v("dec:1", "decimal-integral", dec("1")),
		v("dec:2.00", "decimal-integral", dec("2.00")),
		vt("str:+1", "string-integer", "+1"),
		vt("str: 1 ", "string-integer-padded", " 1 "),
		vt("str:1.0", "string-decimal-integral", "1.0"),
		vt("str:1e0", "string-exponent", "1e0"),
		vt("f32:2", "float-integral", float32(2)),
		// outside the domain
		vo("str:abc", "string-non-numeric", "abc"),
		vto("str:1abc", "string-numeric-prefix", "1abc"),
		vto("f64:1.5", "float-fraction", float64(1.5)),
		vto("str:1.5", "string-fraction", "1.5"),
		vto("str:", "string-empty", ""),
	}
}

func unsignedAlphabet(max uint64) []val {
	return []val{
		v("u64:0", "uint", uint64(0)),
		v("u64:1", "uint", uint64(1)),
		v("u64:2", "uint", uint64(2)),
		v("u64:max", "uint", max),
		v("u64:max-1", "uint", max-1),
		v("i64:1", "int", int64(1)),
		v("i8:2", "int", int8(2)),
		v("u8:1", "uint", uint8(1)),
		v("f64:1.0", "float-integral", float64(1)),
		v("str:1", "string-integer", "1"),
		v("str:max", "string-integer", strconv.FormatUint(max, 10)),
		v("str:0", "string-integer", "0"),
		v("bool:true", "bool", true),
		v("bool:false", "bool", false),
		v("dec:1", "decimal-integral", dec("1")),
		v("dec:2.00", "decimal-integral", dec("2.00")),
		vt("str:1.0", "string-decimal-integral", "1.0"),
		vt("f32:2", "float-integral", float32(2)),
		// outside the domain
		vo("i64:-1", "int-negative", int64(-1)),
		vo("str:abc", "string-non-numeric", "abc"),
		vto("str:-1", "string-negative", "-1"),
		vto("f64:1.5", "float-fraction", float64(1.5)),
		vto("f64:-1.0", "float-negative", float64(-1)),
	}
}

func floatAlphabet(max float64, smallest float64) []val {
	return []val{
		v("f64:0", "float", float64(0)),
		v("f64:-0", "float", math.Copysign(0, -1)),
		v("f64:1", "float", float64(1)),
		v("f64:-1", "float", float64(-1)),
		v("f64:1.5", "float", float64(1.5)),
		v("f64:0.25", "float", float64(0.25)),
		v("f64:max", "float", max),
		v("f64:-max", "float", -max),
		v("f64:smallest", "float", smallest),
		v("f32:1.5", "float32", float32(1.5)),
		v("i64:1", "int", int64(1)),
		v("u64:1", "uint", uint64(1)),
		v("i64:2^53", "int", int64(1)<<53),
		v("str:1", "string-numeric", "1"),
		v("str:1.5", "string-numeric", "1.5"),
		v("str:15e-1", "string-numeric", "15e-1"),
		v("str:-0", "string-numeric", "-0"),
		v("bool:true", "bool", true),
		v("dec:1.5", "decimal", dec("1.5")),
		v("dec:0.250", "decimal", dec("0.250")),
		vt("str: 1.5", "string-numeric-padded", " 1.5"),
		vto("i64:2^53+1", "int-not-representable", int64(1)<<53+1),
		// outside the domain
		vo("str:abc", "string-non-numeric", "abc"),
		vto("str:1.5abc", "string-numeric-prefix", "1.5abc"),
		vto("str:", "string-empty", ""),
	}
}

func decimalAlphabet(max string, unit string, oneScaled string) []val {
	return []val{
		v("dec:0", "decimal", dec("0")),
		v("dec:1", "decimal", dec("1")),
		v("dec:-1", "decimal", dec("-1")),
		v("dec:1-scaled", "decimal-trailing-zeros", dec(oneScaled)), // 1.00…0 at (or beyond) the type's scale
		v("dec:unit", "decimal", dec(unit)),                         // smallest positive
		v("dec:-unit", "decimal", dec("-"+unit)),
		v("dec:max", "decimal", dec(max)),
		v("dec:-max", "decimal", dec("-"+max)),
		v("dec:2", "decimal", dec("2")),
		v("i64:1", "int", int64(1)),
		v("u64:2", "uint", uint64(2)),
		v("i8:-1", "int", int8(-1)),
		v("f64:1.0", "float-integral", float64(1)),
		v("f64:2.0", "float-integral", float64(2)),
		v("str:1", "string-numeric", "1"),
		v("str:1.0", "string-numeric", "1.0"),
		v("str:max", "string-numeric", max),
		v("str:unit", "string-numeric", unit),
		v("str:1e0", "string-exponent", "1e0"),
		v("bool:true", "bool", true),
		v("bool:false", "bool", false),
		vt("bytes:1", "bytes-numeric", []byte("1")),
		vt("str:-0", "string-numeric", "-0"),
		vt("str: 2 ", "string-numeric-padded", " 2 "),
		// outside the domain
		vo("str:abc", "string-non-numeric", "abc"),
		vto("str:1abc", "string-numeric-prefix", "1abc"),
		vto("str:", "string-empty", ""),
	}
}

func stringAlphabet() []val {
	return []val{
		v("s:", "string", ""),
		v("s:a", "string", "a"),
		v("s:A", "string-upper", "A"),
		v("s:a_", "string-trailing-space", "a "),
		v("s:a__", "string-trailing-space", "a  "),
		v("s:b", "string", "b"),
		v("s:B", "string-upper", "B"),
		v("s:ab", "string", "ab"),
		v("s:aB", "string-upper", "aB"),
		v("s:_", "string-trailing-space", " "),
		v("s:1", "string", "1"),
		v("s:10", "string", "10"),
		v("s:2", "string", "2"),
		v("s:á", "string-accent", "á"),
		v("s:ä", "string-accent", "ä"),
		v("s:ß", "string-expansion", "ß"),
		v("s:ss", "string", "ss"),
		v("s:z", "string", "z"),
		v("s:a\\t", "string-control", "a\t"),
		v("b:a", "bytes", []byte("a")),
		v("b:A", "bytes", []byte("A")),
		v("b:a_", "bytes", []byte("a ")),
		v("i64:1", "int", int64(1)),
		v("i64:10", "int", int64(10)),
		v("u64:2", "uint", uint64(2)),
		vt("f64:1.5", "float", float64(1.5)),
		vt("s:1.5", "string", "1.5"),
		vt("dec:1.50", "decimal", dec("1.50")),
		vt("s:1.50", "string", "1.50"),
		vt("bool:true", "bool", true),
		vt("s:é", "string-accent", "é"),
		vt("s:e\u0301", "string-combining", "e\u0301"),
		vt("s:😀", "string-supplementary", "😀"),
		vt("s:Ǆ", "string-titlecase", "Ǆ"),
		vt("s:abcdefghijk", "string-long", "abcdefghijk"),
	}
}

func binaryAlphabet() []val {
	return []val{
		v("b:", "bytes", []byte{}),
		v("b:00", "bytes", []byte{0}),
		v("b:0000", "bytes", []byte{0, 0}),
		v("b:a", "bytes", []byte("a")),
		v("b:a00", "bytes-zero-padded", []byte{'a', 0}),
		v("b:a000", "bytes-zero-padded", []byte{'a', 0, 0}),
		v("b:a000000", "bytes-zero-padded", []byte{'a', 0, 0, 0}),
		v("b:abcd", "bytes", []byte("abcd")),
		v("s:abcd", "string", "abcd"),
		v("s:a000000", "string-zero-padded", "a\x00\x00\x00"),
		v("b:00000000", "bytes", []byte{0, 0, 0, 0}),
		v("b:A", "bytes", []byte("A")),
		v("b:a_", "bytes", []byte("a ")),
		v("b:ab", "bytes", []byte("ab")),
		v("b:b", "bytes", []byte("b")),
		v("b:ff", "bytes", []byte{0xff}),
		v("b:80", "bytes", []byte{0x80}),
		v("b:7f", "bytes", []byte{0x7f}),
		v("s:a", "string", "a"),
		v("s:", "string", ""),
		v("s:ab", "string", "ab"),
		v("s:b", "string", "b"),
		v("s:a00", "string-zero-padded", "a\x00"),
		v("s:ff", "string-high-byte", "\xff"),
		v("s:1", "string", "1"),
		v("i64:1", "int", int64(1)),
		vt("b:1", "bytes", []byte("1")),
		vt("s:á", "string-multibyte", "á"),
		vt("b:c3a1", "bytes", []byte("á")),
		vt("b:abcde", "bytes-long", []byte("abcde")),
	}
}

func datetimeAlphabet(lo, hi string, date bool) []val {
	out := []val{
		v("t:lo", "time.Time", tm(lo)),
		v("t:hi", "time.Time", tm(hi)),
		v("t:2020-01-02", "time.Time", tm("2020-01-02")),
		v("t:2020-01-02 03:04:05", "time.Time-with-clock", tm("2020-01-02 03:04:05")),
		v("t:2020-01-02 03:04:05.5", "time.Time-with-fraction", tm("2020-01-02 03:04:05.5")),
		v("t:2020-01-02 03:04:05.999999", "time.Time-with-fraction", tm("2020-01-02 03:04:05.999999")),
		v("t:2020-01-02 03:04:06", "time.Time-with-clock", tm("2020-01-02 03:04:06")),
		v("t:2020-01-03", "time.Time", tm("2020-01-03")),
		v("t:2020-01-02 +0100", "time.Time-zoned", time.Date(2020, 1, 2, 1, 0, 0, 0, time.FixedZone("x", 3600))),
		v("s:2020-01-02", "string-date", "2020-01-02"),
		v("s:2020-01-02 03:04:05", "string-datetime", "2020-01-02 03:04:05"),
		v("s:2020-01-02 03:04:05.5", "string-datetime-fraction", "2020-01-02 03:04:05.5"),
		v("s:2020-01-02 00:00:00", "string-datetime", "2020-01-02 00:00:00"),
		v("s:20200102", "string-compact", "20200102"),
		v("s:2020-1-2", "string-short", "2020-1-2"),
		v("s:lo", "string-datetime", lo),
		v("s:hi", "string-datetime", hi),
		v("i64:20200102", "int-yyyymmdd", int64(20200102)),
		v("i64:20200102030405", "int-yyyymmddhhmmss", int64(20200102030405)),
		vt("b:2020-01-02", "bytes-date", []byte("2020-01-02")),
		vt("s:2020-01-02T03:04:05Z", "string-rfc3339", "2020-01-02T03:04:05Z"),
		vt("f64:20200102", "float-yyyymmdd", float64(20200102)),
		vt("s:0000-00-00", "string-zero-date", "0000-00-00"),
		vt("t:zero", "time.Time-zero", time.Time{}),
		// outside the domain
		vo("s:abc", "string-not-a-date", "abc"),
		vto("s:2020-13-01", "string-invalid-date", "2020-13-01"),
		vto("s:2020-02-30", "string-invalid-date", "2020-02-30"),
	}
	_ = date
	return out
}

func timeAlphabet() []val {
	mk := func(us int64) any { return types.Time.MicrosecondsToTimespan(us) }
	return []val{
		v("ts:0", "Timespan", mk(0)),
		v("ts:1s", "Timespan", mk(1000000)),
		v("ts:-1s", "Timespan", mk(-1000000)),
		v("ts:10:20:30", "Timespan", mk((10*3600+20*60+30)*1000000)),
		v("ts:10:20:30.5", "Timespan", mk((10*3600+20*60+30)*1000000+500000)),
		v("ts:max", "Timespan", mk((838*3600+59*60+59)*1000000)),
		v("ts:min", "Timespan", mk(-(838*3600+59*60+59)*1000000)),
		v("s:00:00:00", "string-time", "00:00:00"),
		v("s:00:00:01", "string-time", "00:00:01"),
		v("s:-00:00:01", "string-time", "-00:00:01"),
		v("s:10:20:30", "string-time", "10:20:30"),
		v("s:10:20:30.5", "string-time-fraction", "10:20:30.5"),
		v("s:838:59:59", "string-time", "838:59:59"),
		v("s:-838:59:59", "string-time", "-838:59:59"),
		v("s:102030", "string-compact", "102030"),
		v("i64:102030", "int-hhmmss", int64(102030)),
		v("i64:1", "int-hhmmss", int64(1)),
		v("i64:-1", "int-hhmmss", int64(-1)),
		v("i64:0", "int-hhmmss", int64(0)),
		v("f64:102030.5", "float-hhmmss", float64(102030.5)),
		vt("dec:102030.5", "decimal-hhmmss", dec("102030.5")),
		vt("s:1 10:20:30", "string-days", "1 10:20:30"),
		vt("s:10:20", "string-hhmm", "10:20"),
		vt("d:1s", "time.Duration", time.Second),
		// outside the domain
		vo("s:abc", "string-not-a-time", "abc"),
		vto("s:839:00:00", "string-out-of-range", "839:00:00"),
		vto("i64:8390000", "int-out-of-range", int64(8390000)),
		vto("s:10:61:00", "string-invalid", "10:61:00"),
	}
}

func yearAlphabet() []val {
	return []val{
		v("i16:0", "int16", int16(0)),
		v("i16:1901", "int16", int16(1901)),
		v("i16:2155", "int16", int16(2155)),
		v("i16:1970", "int16", int16(1970)),
		v("i16:2000", "int16", int16(2000)),
		v("i16:2069", "int16", int16(2069)),
		v("i64:1970", "int", int64(1970)),
		v("i64:70", "int-two-digit", int64(70)),
		v("i64:69", "int-two-digit", int64(69)),
		v("i64:1", "int-two-digit", int64(1)),
		v("i64:0", "int-zero", int64(0)),
		v("s:1970", "string-year", "1970"),
		v("s:70", "string-two-digit", "70"),
		v("s:69", "string-two-digit", "69"),
		v("s:0", "string-zero", "0"),
		v("s:00", "string-zero", "00"),
		v("s:2155", "string-year", "2155"),
		v("u64:2000", "uint", uint64(2000)),
		v("f64:1970", "float", float64(1970)),
		v("t:1970", "time.Time", tm("1970-06-01")),
		vt("dec:1970", "decimal", dec("1970")),
		vt("i8:70", "int-two-digit", int8(70)),
		vt("s:0000", "string-zero", "0000"),
		// outside the domain
		vo("i64:1900", "int-out-of-range", int64(1900)),
		vo("i64:2156", "int-out-of-range", int64(2156)),
		vo("s:abc", "string-not-a-year", "abc"),
		vto("i64:-1", "int-out-of-range", int64(-1)),
		vto("i64:100", "int-out-of-range", int64(100)),
	}
}

func enumAlphabet() []val {
	return []val{
		v("u16:1", "uint16-index", uint16(1)),
		v("u16:2", "uint16-index", uint16(2)),
		v("u16:3", "uint16-index", uint16(3)),
		v("i64:1", "int-index", int64(1)),
		v("i64:3", "int-index", int64(3)),
		v("i:2", "int-index", int(2)),
		v("u64:2", "uint-index", uint64(2)),
		v("s:first", "string-name", "<1>"),
		v("s:second", "string-name", "<2>"),
		v("s:third", "string-name", "<3>"),
		v("s:FIRST", "string-name-upper", "<1U>"),
		v("b:second", "bytes-name", []byte("<2>")),
		v("f64:2", "float-index", float64(2)),
		vt("dec:3", "decimal-index", dec("3")),
		vt("s:first_", "string-name-trailing-space", "<1> "),
		// outside the domain
		vo("u16:0", "index-zero", uint16(0)),
		vo("i64:0", "index-zero", int64(0)),
		vo("i64:4", "index-out-of-range", int64(4)),
		vo("s:nope", "string-not-a-member", "nope"),
		vo("s:", "string-empty", ""),
		vto("i64:-1", "index-out-of-range", int64(-1)),
		vto("s:2", "string-digit", "2"),
	}
}

func setAlphabet() []val {
	return []val{
		v("u64:0", "uint64-bits", uint64(0)),
		v("u64:1", "uint64-bits", uint64(1)),
		v("u64:2", "uint64-bits", uint64(2)),
		v("u64:3", "uint64-bits", uint64(3)),
		v("u64:4", "uint64-bits", uint64(4)),
		v("u64:5", "uint64-bits", uint64(5)),
		v("u64:7", "uint64-bits", uint64(7)),
		v("i64:1", "int-bits", int64(1)),
		v("i64:3", "int-bits", int64(3)),
		v("i64:0", "int-bits", int64(0)),
		v("s:", "string-empty", ""),
		v("s:m1", "string-list", "<1>"),
		v("s:m2", "string-list", "<2>"),
		v("s:m1,m2", "string-list", "<1>,<2>"),
		v("s:m2,m1", "string-list-reordered", "<2>,<1>"),
		v("s:m1,m1", "string-list-duplicate", "<1>,<1>"),
		v("s:m1,m3", "string-list", "<1>,<3>"),
		v("s:m1,m2,m3", "string-list", "<1>,<2>,<3>"),
		v("s:M1", "string-list-upper", "<1U>"),
		v("b:m2", "bytes-list", []byte("<2>")),
		v("f64:3", "float-bits", float64(3)),
		vt("dec:5", "decimal-bits", dec("5")),
		vt("s:3", "string-digit", "3"),
		// outside the domain
		vo("u64:8", "bits-out-of-range", uint64(8)),
		vo("s:nope", "string-not-a-member", "nope"),
		vto("i64:-1", "bits-out-of-range", int64(-1)),
		vto("s:m1,nope", "string-not-a-member", "<1>,nope"),
	}
}

func bitAlphabet(bits uint8) []val {
	max := uint64(math.MaxUint64)
	if bits < 64 {
		max = uint64(1)<<bits - 1
	}
	return []val{
		v("u64:0", "uint", uint64(0)),
		v("u64:1", "uint", uint64(1)),
		v("u64:max", "uint", max),
		v("u64:max-1", "uint", max-1),
		v("i64:1", "int", int64(1)),
		v("i64:0", "int", int64(0)),
		v("i8:1", "int", int8(1)),
		v("u8:1", "uint", uint8(1)),
		v("b:01", "bytes", []byte{1}),
		v("b:00", "bytes", []byte{0}),
		v("b:", "bytes-empty", []byte{}),
		v("b:0001", "bytes-leading-zero", []byte{0, 1}),
		v("s:01", "string-bytes", "\x01"),
		v("bool:true", "bool", true),
		v("bool:false", "bool", false),
		v("f64:1", "float", float64(1)),
		vt("dec:1", "decimal", dec("1")),
		vt("b:max", "bytes", maxBytes(max)),
		vt("s:1", "string-digit", "1"),
		// outside the domain
		vo("i64:-1", "int-negative", int64(-1)),
		vto("f64:1.5", "float-fraction", float64(1.5)),
	}
}

// binaryFixed: in BINARY(n) only n-byte values are values of the type (shorter ones are zero-padded
// by Convert, which is a different value in MySQL; numbers are rendered as text first).
func binaryFixed(vals []val, n int) []val {
	out := append([]val{}, vals...)
	for i := range out {
		switch x := out[i].V.(type) {
		case []byte:
			out[i].Out = out[i].Out || len(x) != n
		case string:
			out[i].Out = out[i].Out || len(x) != n
		default:
			out[i].Out = true
		}
	}
	return out
}

func maxBytes(max uint64) []byte {
	var b []byte
	for max > 0 {
		b = append([]byte{byte(max)}, b...)
		max >>= 8
	}
	return b
}

func jsonAlphabet() []val {
	j := func(s string) any { return types.MustJSON(s) }
	return []val{
		v("j:null", "json-null", j("null")),
		v("j:true", "json-bool", j("true")),
		v("j:false", "json-bool", j("false")),
		v("j:0", "json-number", j("0")),
		v("j:1", "json-number", j("1")),
		v("j:1.0", "json-number", j("1.0")),
		v("j:-1", "json-number", j("-1")),
		v("j:1.5", "json-number", j("1.5")),
		v("j:2", "json-number", j("2")),
		v("j:10", "json-number", j("10")),
		v("j:\"\"", "json-string", j(`""`)),
		v("j:\"a\"", "json-string", j(`"a"`)),
		v("j:\"A\"", "json-string", j(`"A"`)),
		v("j:\"b\"", "json-string", j(`"b"`)),
		v("j:\"1\"", "json-string", j(`"1"`)),
		v("j:[]", "json-array", j("[]")),
		v("j:[1]", "json-array", j("[1]")),
		v("j:[2]", "json-array", j("[2]")),
		v("j:[1,2]", "json-array", j("[1,2]")),
		v("j:[1,\"a\"]", "json-array", j(`[1,"a"]`)),
		v("j:[[]]", "json-array", j("[[]]")),
		v("j:{}", "json-object", j("{}")),
		v("j:{a:1}", "json-object", j(`{"a":1}`)),
		v("j:{a:2}", "json-object", j(`{"a":2}`)),
		v("j:{b:1}", "json-object", j(`{"b":1}`)),
		v("j:{a:1,b:1}", "json-object", j(`{"a":1,"b":1}`)),
		v("j:{b:1,a:1}", "json-object", j(`{"b":1,"a":1}`)),
		// documents as the engine builds them from SQL numbers (CAST(1 AS JSON), JSON_ARRAY(1e19))
		v("jd:int64:1", "json-number", types.JSONDocument{Val: int64(1)}),
		v("jd:int64:max", "json-number-big", types.JSONDocument{Val: int64(math.MaxInt64)}),
		v("jd:int64:min", "json-number-big", types.JSONDocument{Val: int64(math.MinInt64)}),
		v("jd:uint64:max", "json-number-big", types.JSONDocument{Val: uint64(math.MaxUint64)}),
		v("jd:f64:2^63", "json-number-big", types.JSONDocument{Val: float64(1 << 63)}),
		v("jd:f64:1e19", "json-number-big", types.JSONDocument{Val: float64(1e19)}),
		v("jd:f64:-1e19", "json-number-big", types.JSONDocument{Val: float64(-1e19)}),
		v("jd:f64:2^64", "json-number-big", types.JSONDocument{Val: float64(1<<63) * 2}),
		v("jd:f64:1.5", "json-number", types.JSONDocument{Val: float64(1.5)}),
		// integers around 2^53 that float64 cannot tell apart, and the double they round to (a
		// comparison that rounds the integer before the exact tie-break equates 2^53 and 2^53+1)
		v("jd:int64:2^53", "json-number-53", types.JSONDocument{Val: int64(1 << 53)}),
		v("jd:int64:2^53+1", "json-number-53", types.JSONDocument{Val: int64(1<<53 + 1)}),
		v("jd:int64:2^53-1", "json-number-53", types.JSONDocument{Val: int64(1<<53 - 1)}),
		v("jd:f64:2^53", "json-number-53", types.JSONDocument{Val: float64(1 << 53)}),
		v("jd:uint64:2^53+1", "json-number-53", types.JSONDocument{Val: uint64(1<<53 + 1)}),
		v("jd:[int64:1]", "json-array", types.JSONDocument{Val: types.JsonArray{int64(1)}}),
		v("g:int64:1", "go-int", int64(1)),
		v("g:f64:1.5", "go-float", float64(1.5)),
		v("g:bool:true", "go-bool", true),
		v("g:str:a", "go-string", "a"),
		vo("s:1", "string-json-text", "1"),
		vo("s:\"a\"", "string-json-text", `"a"`),
		vo("s:[1]", "string-json-text", "[1]"),
		vo("s:{a:1}", "string-json-text", `{"a": 1}`),
		vto("b:[1,2]", "bytes-json-text", []byte("[1, 2]")),
		vt("j:9223372036854775807", "json-number-big", j("9223372036854775807")),
		vt("j:9223372036854775806", "json-number-big", j("9223372036854775806")),
		vt("j:9.223372036854776e18", "json-number-big", j("9.223372036854776e18")),
		vt("j:[null]", "json-array", j("[null]")),
		vt("j:{a:null}", "json-object", j(`{"a":null}`)),
		vt("j:{a:[1]}", "json-object", j(`{"a":[1]}`)),
		vt("j:\"ab\"", "json-string", j(`"ab"`)),
		vt("j:\"á\"", "json-string", j(`"á"`)),
		vt("g:u64:max", "go-uint", uint64(math.MaxUint64)),
		vt("g:f64:1e19", "go-float", float64(1e19)),
		// outside the domain
		vto("s:not json", "string-not-json", "not json"),
	}
}

func geometryAlphabet() []val {
	p := func(srid uint32, x, y float64) types.Point { return types.Point{SRID: srid, X: x, Y: y} }
	ls := func(srid uint32, ps ...types.Point) types.LineString { return types.LineString{SRID: srid, Points: ps} }
	ring := ls(0, p(0, 0, 0), p(0, 1, 0), p(0, 1, 1), p(0, 0, 0))
	ring2 := ls(0, p(0, 0, 0), p(0, 2, 0), p(0, 2, 2), p(0, 0, 0))
	return []val{
		v("pt(0 0)", "point", p(0, 0, 0)),
		v("pt(1 0)", "point", p(0, 1, 0)),
		v("pt(0 1)", "point", p(0, 0, 1)),
		v("pt(-1 0)", "point", p(0, -1, 0)),
		v("pt(-0 0)", "point-negative-zero", p(0, math.Copysign(0, -1), 0)),
		v("pt(0 0)@4326", "point-srid", p(4326, 0, 0)),
		v("pt(1 0)@4326", "point-srid", p(4326, 1, 0)),
		v("pt(1e308 0)", "point", p(0, 1e308, 0)),
		v("ls(0 0,1 1)", "linestring", ls(0, p(0, 0, 0), p(0, 1, 1))),
		v("ls(1 1,0 0)", "linestring", ls(0, p(0, 1, 1), p(0, 0, 0))),
		v("ls(0 0,1 1,2 2)", "linestring", ls(0, p(0, 0, 0), p(0, 1, 1), p(0, 2, 2))),
		v("poly(unit)", "polygon", types.Polygon{SRID: 0, Lines: []types.LineString{ring}}),
		v("poly(2x2)", "polygon", types.Polygon{SRID: 0, Lines: []types.LineString{ring2}}),
		v("poly(2x2 hole)", "polygon", types.Polygon{SRID: 0, Lines: []types.LineString{ring2, ring}}),
		v("mpt(0 0,1 0)", "multipoint", types.MultiPoint{SRID: 0, Points: []types.Point{p(0, 0, 0), p(0, 1, 0)}}),
		v("mpt(1 0,0 0)", "multipoint", types.MultiPoint{SRID: 0, Points: []types.Point{p(0, 1, 0), p(0, 0, 0)}}),
		v("gc()", "geomcollection", types.GeomColl{SRID: 0, Geoms: []types.GeometryValue{}}),
		v("gc(pt(0 0))", "geomcollection", types.GeomColl{SRID: 0, Geoms: []types.GeometryValue{p(0, 0, 0)}}),
		vto("wkb:pt(0 0)", "bytes-ewkb", p(0, 0, 0).Serialize()), // a storage encoding: Convert decodes it, Compare rejects it
		vto("wkb:pt(1 0)", "bytes-ewkb", p(0, 1, 0).Serialize()),
		// outside the domain
		vto("s:abc", "string-not-geometry", "abc"),
		vto("i64:1", "int", int64(1)),
	}
}

// named substitutes the member-name placeholders of enum/set alphabets.
func named(vals []val, m1, m2, m3, m1u string) []val {
	rep := func(s string) string {
		out := ""
		for i := 0; i < len(s); {
			switch {
			case len(s)-i >= 4 && s[i:i+4] == "<1U>":
				out += m1u
				i += 4
			case len(s)-i >= 3 && s[i:i+3] == "<1>":
				out += m1
				i += 3
			case len(s)-i >= 3 && s[i:i+3] == "<2>":
				out += m2
				i += 3
			case len(s)-i >= 3 && s[i:i+3] == "<3>":
				out += m3
				i += 3
			default:
				out += s[i : i+1]
				i++
			}
		}
		return out
	}
	out := make([]val, len(vals))
	for i, x := range vals {
		switch s := x.V.(type) {
		case string:
			x.V = rep(s)
		case []byte:
			x.V = []byte(rep(string(s)))
		}
		out[i] = x
	}
	// member names may coincide (empty-string member): keep the first of identical Go values
	var ded []val
	seen := map[string]bool{}
	for _, x := range out {
		key := fmt.Sprintf("%T|%#v", x.V, x.V)
		if !seen[key] {
			seen[key] = true
			ded = append(ded, x)
		}
	}
	return ded
}

// values with a fractional second are not values of a precision-0 type (Convert rounds them)
var fracLabels = []string{"t:2020-01-02 03:04:05.5", "t:2020-01-02 03:04:05.999999", "s:2020-01-02 03:04:05.5"}

var quickCollations = []string{
	"utf8mb4_0900_bin", "utf8mb4_0900_ai_ci", "utf8mb4_0900_as_cs", "utf8mb4_general_ci", "utf8mb4_bin", "utf8mb4_unicode_ci",
	"utf8mb3_general_ci", "latin1_swedish_ci", "latin1_bin", "ascii_general_ci", "utf16_general_ci", "binary",
}

func collationByName(name string) (sql.CollationID, bool) {
	it := sql.NewCollationsIterator()
	for c, ok := it.Next(); ok; c, ok = it.Next() {
		if c.Name == name {
			return c.ID, true
		}
	}
	return 0, false
}

// usableCollations: implemented collations (sorter and encoder present), sorted by name.
func usableCollations() []sql.Collation {
	var out []sql.Collation
	it := sql.NewCollationsIterator()
	for c, ok := it.Next(); ok; c, ok = it.Next() {
		if c.Sorter == nil || c.ID.CharacterSet().Encoder() == nil {
			continue
		}
		out = append(out, c)
	}
	sort.Slice(out, func(i, j int) bool { return out[i].Name < out[j].Name })
	return out
}

// allTypes builds the complete (thorough) list; quick drops entries marked Thor.
func allTypes() []typ {
	var ts []typ
	add := func(name, fam string, t sql.Type, vals []val, thor bool) {
		ts = append(ts, typ{Name: name, Family: fam, T: t, Vals: vals, Thor: thor})
	}
	add("TINYINT", "int", types.Int8, signedAlphabet(math.MinInt8, math.MaxInt8), false)
	add("BOOLEAN", "int", types.Boolean, signedAlphabet(math.MinInt8, math.MaxInt8), true)
	add("SMALLINT", "int", types.Int16, signedAlphabet(math.MinInt16, math.MaxInt16), false)
	add("MEDIUMINT", "int", types.Int24, signedAlphabet(-(1<<23), 1<<23-1), false)
	add("INT", "int", types.Int32, signedAlphabet(math.MinInt32, math.MaxInt32), false)
	add("BIGINT", "int", types.Int64, signedAlphabet(math.MinInt64, math.MaxInt64), false)
	add("TINYINT UNSIGNED", "uint", types.Uint8, unsignedAlphabet(math.MaxUint8), false)
	add("SMALLINT UNSIGNED", "uint", types.Uint16, unsignedAlphabet(math.MaxUint16), true)
	add("MEDIUMINT UNSIGNED", "uint", types.Uint24, unsignedAlphabet(1<<24-1), false)
	add("INT UNSIGNED", "uint", types.Uint32, unsignedAlphabet(math.MaxUint32), false)
	add("BIGINT UNSIGNED", "uint", types.Uint64, unsignedAlphabet(math.MaxUint64), false)
	add("FLOAT", "float", types.Float32, floatAlphabet(math.MaxFloat32, math.SmallestNonzeroFloat32), false)
	add("DOUBLE", "float", types.Float64, floatAlphabet(math.MaxFloat64, math.SmallestNonzeroFloat64), false)
	add("DECIMAL(10,2)", "decimal", types.MustCreateColumnDecimalType(10, 2), decimalAlphabet("99999999.99", "0.01", "1.00"), false)
	add("DECIMAL(5,0)", "decimal", types.MustCreateColumnDecimalType(5, 0), decimalAlphabet("99999", "1", "1.0"), false)
	add("DECIMAL(65,30)", "decimal", types.MustCreateColumnDecimalType(65, 30), decimalAlphabet("99999999999999999999999999999999999.999999999999999999999999999999", "0.000000000000000000000000000001", "1.000000000000000000000000000000"), false)
	add("DECIMAL(10,2) expression", "decimal", types.MustCreateDecimalType(10, 2), decimalAlphabet("99999999.99", "0.01", "1.00"), false)

	quick := map[string]bool{}
	for _, n := range quickCollations {
		quick[n] = true
	}
	for _, c := range usableCollations() {
		q := quick[c.Name]
		if c.Name == "binary" {
			continue
		}
		add("VARCHAR(20) "+c.Name, "char", types.MustCreateString(sqltypes.VarChar, 20, c.ID), stringAlphabet(), false) // every implemented collation, both tiers
		if q {
			add("CHAR(3) "+c.Name, "char", types.MustCreateString(sqltypes.Char, 3, c.ID), stringAlphabet(), c.Name != "utf8mb4_0900_ai_ci" && c.Name != "utf8mb4_bin")
			add("TEXT "+c.Name, "char", types.CreateText(c.ID), stringAlphabet(), c.Name != "utf8mb4_0900_bin" && c.Name != "utf8mb4_general_ci")
		}
	}
	add("BINARY(4)", "binary", types.MustCreateBinary(sqltypes.Binary, 4), binaryFixed(binaryAlphabet(), 4), false)
	add("VARBINARY(10)", "binary", types.MustCreateBinary(sqltypes.VarBinary, 10), binaryAlphabet(), false)
	add("BLOB", "binary", types.Blob, binaryAlphabet(), false)

	add("DATETIME", "datetime", types.Datetime, markOut(datetimeAlphabet("1000-01-01 00:00:00", "9999-12-31 23:59:59", false), fracLabels...), false)
	add("DATETIME(6)", "datetime", types.DatetimeMaxPrecision, datetimeAlphabet("1000-01-01 00:00:00", "9999-12-31 23:59:59.999999", false), false)
	add("DATETIME(3)", "datetime", types.MustCreateDatetimeType(sqltypes.Datetime, 3), markOut(datetimeAlphabet("1000-01-01 00:00:00", "9999-12-31 23:59:59.999", false), "t:2020-01-02 03:04:05.999999"), true)
	add("TIMESTAMP", "timestamp", types.Timestamp, markOut(datetimeAlphabet("1970-01-01 00:00:01", "2038-01-19 03:14:07", false), fracLabels...), false)
	add("TIMESTAMP(6)", "timestamp", types.TimestampMaxPrecision, datetimeAlphabet("1970-01-01 00:00:01", "2038-01-19 03:14:07.999999", false), false)
	add("DATE", "date", types.Date, datetimeAlphabet("1000-01-01", "9999-12-31", true), false)
	add("TIME", "time", types.Time, timeAlphabet(), false)
	add("YEAR", "year", types.Year, yearAlphabet(), false)

	ci, _ := collationByName("utf8mb4_0900_ai_ci")
	bin, _ := collationByName("utf8mb4_0900_bin")
	add("ENUM('a','b','c') utf8mb4_0900_bin", "enum", types.MustCreateEnumType([]string{"a", "b", "c"}, bin), named(enumAlphabet(), "a", "b", "c", "A"), false)
	add("ENUM('a','b','c') utf8mb4_0900_ai_ci", "enum", types.MustCreateEnumType([]string{"a", "b", "c"}, ci), named(enumAlphabet(), "a", "b", "c", "A"), false)
	add("ENUM('2','1','3') utf8mb4_0900_bin", "enum", types.MustCreateEnumType([]string{"2", "1", "3"}, bin), named(enumAlphabet(), "2", "1", "3", "2"), false)
	add("ENUM('c','b','a') utf8mb4_0900_ai_ci", "enum", types.MustCreateEnumType([]string{"c", "b", "a"}, ci), named(enumAlphabet(), "c", "b", "a", "C"), true)
	add("SET('a','b','c') utf8mb4_0900_bin", "set", types.MustCreateSetType([]string{"a", "b", "c"}, bin), named(setAlphabet(), "a", "b", "c", "A"), false)
	add("SET('a','b','c') utf8mb4_0900_ai_ci", "set", types.MustCreateSetType([]string{"a", "b", "c"}, ci), named(setAlphabet(), "a", "b", "c", "A"), false)
	add("SET('','a','b') utf8mb4_0900_bin", "set", types.MustCreateSetType([]string{"", "a", "b"}, bin), named(setAlphabet(), "", "a", "b", ""), false)
	add("SET('a','','b') utf8mb4_0900_bin", "set", types.MustCreateSetType([]string{"a", "", "b"}, bin), named(setAlphabet(), "a", "", "b", "A"), false)
	add("SET('1','2','4') utf8mb4_0900_bin", "set", types.MustCreateSetType([]string{"1", "2", "4"}, bin), named(setAlphabet(), "1", "2", "4", "1"), true)
	add("BIT(1)", "bit", types.MustCreateBitType(1), bitAlphabet(1), false)
	add("BIT(8)", "bit", types.MustCreateBitType(8), bitAlphabet(8), false)
	add("BIT(64)", "bit", types.MustCreateBitType(64), bitAlphabet(64), false)
	add("JSON", "json", types.JSON, jsonAlphabet(), false)
	add("GEOMETRY", "geometry", types.GeometryType{}, geometryAlphabet(), false)
	add("POINT", "geometry", types.PointType{}, geometryAlphabet(), false)
	add("LINESTRING", "geometry", types.LineStringType{}, geometryAlphabet(), true)
	add("POLYGON", "geometry", types.PolygonType{}, geometryAlphabet(), true)

	seen := map[string]bool{}
	for _, t := range ts {
		if seen[t.Name] {
			panic("duplicate type name " + t.Name)
		}
		seen[t.Name] = true
		ls := map[string]bool{}
		for _, x := range t.Vals {
			if ls[x.Label] {
				panic(fmt.Sprintf("duplicate label %s in %s", x.Label, t.Name))
			}
			ls[x.Label] = true
		}
	}
	return ts
}
