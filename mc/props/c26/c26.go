// Package c26 — C26 "comparison of values is a consistent total order per type".
//
// For every SQL type of a fixed list and a per-type boundary alphabet (values of the type in
// every representation the engine passes around, plus a few deliberately out-of-domain values),
// sql.Type.Compare is run on every ordered pair (twice) and the order laws are evaluated on every
// pair and every triple of the resulting relation; Convert is run on every value and Compare is
// re-run on the converted values.
package c26

import (
	"context"
	"encoding/json"
	"fmt"
	"strings"
	"time"

	"github.com/cockroachdb/apd/v3"

	"github.com/dolthub/go-mysql-server/sql"
	"github.com/dolthub/go-mysql-server/sql/types"

	"verif/mc/core"
)

type witness struct {
	Law    string   `json:"law"`
	Type   string   `json:"type"`
	Values []string `json:"values"`    // labels in the type's alphabet; "NULL" = nil
	Go     []string `json:"go_values"` // %#v of the values, for the reader
	Reps   []string `json:"value_classes,omitempty"`
}

type cell struct {
	res   int
	err   error
	panic string // top frame
	pv    string
}

func (c cell) ok() bool { return c.err == nil && c.panic == "" }

func sign(x int) int {
	switch {
	case x < 0:
		return -1
	case x > 0:
		return 1
	}
	return 0
}

func compare(ctx *sql.Context, t sql.Type, a, b any) (c cell) {
	pv, stack := core.Try(func() { c.res, c.err = t.Compare(ctx, a, b) })
	if pv != nil {
		c.panic, c.pv = core.TopFrame(stack), fmt.Sprint(pv)
	}
	return c
}

type conv struct {
	v       any
	inRange sql.ConvertInRange
	err     error
	panic   string
	pv      string
}

// inDomain: the value converts to the type without error and in range.
func (c conv) inDomain() bool { return c.err == nil && c.panic == "" && c.inRange == sql.InRange }

func convert(ctx *sql.Context, t sql.Type, a any) (c conv) {
	pv, stack := core.Try(func() { c.v, c.inRange, c.err = t.Convert(ctx, a) })
	if pv != nil {
		c.panic, c.pv = core.TopFrame(stack), fmt.Sprint(pv)
	}
	return c
}

func goString(x any) string {
	switch y := x.(type) {
	case nil:
		return "nil"
	case fmt.Stringer:
		return fmt.Sprintf("%T(%s)", x, y.String())
	}
	s := fmt.Sprintf("%#v", x)
	if len(s) > 120 {
		s = s[:120] + "…"
	}
	return s
}

type checker struct {
	r        *core.Run
	ctx      *sql.Context
	nullSign int // sign of BIGINT.Compare(NULL, 0): the reference for "NULL is at the same end everywhere"
}

func newChecker(r *core.Run) *checker {
	k := &checker{r: r, ctx: sql.NewEmptyContext()}
	k.nullSign, _ = types.Int64.Compare(context.Background(), nil, int64(0))
	return k
}

var null = val{Label: "NULL", Rep: "NULL", V: nil}

// goKind: the coarse Go representation of a value (witnesses carry it together with the fine class val.Rep).
func goKind(x any) string {
	switch x.(type) {
	case nil:
		return "NULL"
	case int, int8, int16, int32, int64:
		return "int"
	case uint, uint8, uint16, uint32, uint64:
		return "uint"
	case float32, float64:
		return "float"
	case string:
		return "string"
	case []byte:
		return "bytes"
	case bool:
		return "bool"
	case *apd.Decimal:
		return "decimal"
	case time.Time:
		return "time.Time"
	}
	return "native"
}

func (k *checker) subject(t *typ, vs ...val) map[string]string {
	s := map[string]string{"family": t.Family}
	if twc, ok := t.T.(sql.TypeWithCollation); ok && (t.Family == "char" || t.Family == "enum" || t.Family == "set") {
		c := twc.Collation()
		s["pad"] = c.PadAttribute()
		n := c.Name()
		switch {
		case strings.HasSuffix(n, "_bin") || n == "binary":
			s["collation_kind"] = "bin"
		case strings.HasSuffix(n, "_cs"):
			s["collation_kind"] = "cs"
		default:
			s["collation_kind"] = "ci"
		}
	}
	if t.Family == "json" {
		// what distinguishes the known root causes: raw Go values vs documents, and numbers beyond int64
		raw, wrapped, big := false, false, false
		for _, x := range vs {
			if x.V == nil {
				continue
			}
			if _, ok := x.V.(sql.JSONWrapper); ok {
				wrapped = true
			} else {
				raw = true
			}
			big = big || x.Rep == "json-number-big" || strings.HasSuffix(x.Label, "1e19") || strings.HasSuffix(x.Label, "u64:max")
		}
		s["operands"] = map[[2]bool]string{{true, true}: "raw+document", {true, false}: "raw-go-values", {false, true}: "documents", {false, false}: "NULL"}[[2]bool{raw, wrapped}]
		s["numbers"] = map[bool]string{true: "beyond-int64", false: "within-int64"}[big]
	}
	if st, ok := t.T.(sql.SetType); ok {
		s["empty_member"] = "no"
		for _, m := range st.Values() {
			if m == "" {
				s["empty_member"] = "yes"
			}
		}
	}
	return s
}

func (k *checker) violate(t *typ, law, kind string, vs []val, observed, expected string, extra map[string]string) {
	w := witness{Law: law, Type: t.Name}
	for _, x := range vs {
		w.Values = append(w.Values, x.Label)
		w.Go = append(w.Go, goString(x.V))
		w.Reps = append(w.Reps, goKind(x.V)+"/"+x.Rep)
	}
	sub := k.subject(t, vs...)
	for a, b := range extra {
		sub[a] = b
	}
	k.r.Violate(core.Violation{Check: "order-laws", Clause: law, Kind: kind, Subject: sub, Witness: core.J(w), Observed: observed, Expected: expected})
}

func cmpText(t *typ, a, b val, c cell) string {
	switch {
	case c.panic != "":
		return fmt.Sprintf("Compare(%s, %s) panics: %s", a.Label, b.Label, c.pv)
	case c.err != nil:
		return fmt.Sprintf("Compare(%s, %s) = error %q", a.Label, b.Label, short(c.err.Error()))
	}
	return fmt.Sprintf("Compare(%s, %s) = %d", a.Label, b.Label, c.res)
}

func short(s string) string {
	if len(s) > 140 {
		return s[:140] + "…"
	}
	return s
}

// ---- the laws; each works on explicit values so that Replay can re-run exactly one instance ----

func (k *checker) lawPanic(t *typ, a, b val, c cell) bool {
	if c.panic == "" {
		return false
	}
	k.violate(t, "no-panic", "panic", []val{a, b}, cmpText(t, a, b, c), "a result or an error", map[string]string{"frame": c.panic})
	return true
}

func (k *checker) lawDeterministic(t *typ, a, b val, c1, c2 cell) {
	if c1.ok() != c2.ok() || (c1.ok() && c1.res != c2.res) {
		k.violate(t, "deterministic", "differs-between-calls", []val{a, b}, cmpText(t, a, b, c1)+" then "+cmpText(t, a, b, c2), "same result", nil)
	}
}

func (k *checker) lawReflexive(t *typ, a val, c cell) {
	if c.ok() && c.res != 0 {
		k.violate(t, "reflexive", "value-not-equal-to-itself", []val{a}, cmpText(t, a, a, c), "0", nil)
	}
}

func (k *checker) lawAntisymmetric(t *typ, a, b val, ab, ba cell) {
	switch {
	case ab.panic != "" || ba.panic != "":
	case ab.ok() != ba.ok():
		if a.Out || b.Out {
			k.r.Count("pairs_error_asymmetric_outside_domain", 1)
			return // a value the type does not claim to order
		}
		k.violate(t, "antisymmetric", "error-in-one-direction-only", []val{a, b}, cmpText(t, a, b, ab)+"; "+cmpText(t, b, a, ba), "both succeed or both fail", nil)
	case ab.ok() && sign(ab.res) != -sign(ba.res):
		k.violate(t, "antisymmetric", "sign-not-mirrored", []val{a, b}, cmpText(t, a, b, ab)+"; "+cmpText(t, b, a, ba), "opposite signs", nil)
	}
}

// lawTransitive returns false when the triple is outside the law's domain (some comparison failed).
func (k *checker) lawTransitive(t *typ, a, b, c val, ab, bc, ac cell) bool {
	if !ab.ok() || !bc.ok() || !ac.ok() {
		return false
	}
	if ab.res <= 0 && bc.res <= 0 {
		strict := ab.res < 0 || bc.res < 0
		if ac.res > 0 || (strict && ac.res == 0) {
			kind := "not-transitive"
			if !strict {
				kind = "equality-not-transitive"
			}
			k.violate(t, "transitive", kind, []val{a, b, c}, cmpText(t, a, b, ab)+"; "+cmpText(t, b, c, bc)+"; "+cmpText(t, a, c, ac),
				map[bool]string{true: "Compare(a,c) < 0", false: "Compare(a,c) = 0"}[strict], nil)
		}
	}
	return true
}

func (k *checker) lawNull(t *typ, a val, nn, na, an cell) {
	if nn.ok() && nn.res != 0 {
		k.violate(t, "null-order", "null-not-equal-to-null", []val{null, null}, cmpText(t, null, null, nn), "0", nil)
	}
	if !na.ok() || !an.ok() {
		if na.panic == "" && an.panic == "" {
			k.violate(t, "null-order", "error-comparing-with-null", []val{null, a}, cmpText(t, null, a, na)+"; "+cmpText(t, a, null, an), "a result", nil)
		}
		return
	}
	switch {
	case na.res == 0 || an.res == 0:
		k.violate(t, "null-order", "null-equal-to-a-value", []val{null, a}, cmpText(t, null, a, na)+"; "+cmpText(t, a, null, an), "non-zero", nil)
	case sign(na.res) != -sign(an.res):
		k.violate(t, "null-order", "null-sign-not-mirrored", []val{null, a}, cmpText(t, null, a, na)+"; "+cmpText(t, a, null, an), "opposite signs", nil)
	case sign(na.res) != k.nullSign:
		k.violate(t, "null-order", "null-at-the-other-end-than-for-BIGINT", []val{null, a}, cmpText(t, null, a, na), fmt.Sprintf("%d as for BIGINT", k.nullSign), nil)
	case na.res > 0:
		// The property: NULL sorts before every non-NULL value. Type.Compare(NULL, x) must be negative.
		// Reps are irrelevant for this clause: the subject is the type family only.
		w := witness{Law: "null-lowest", Type: t.Name, Values: []string{"NULL", a.Label}, Go: []string{"nil", goString(a.V)}}
		k.r.Violate(core.Violation{Check: "order-laws", Clause: "null-lowest", Kind: "null-sorts-after-values", Subject: map[string]string{"family": t.Family},
			Witness: core.J(w), Observed: cmpText(t, null, a, na), Expected: "negative (NULL first)"})
	}
}

func (k *checker) lawConvert(t *typ, a, b val, ab cell, ca, cb conv) (applies bool) {
	if ca.panic != "" {
		k.violate(t, "no-panic", "panic", []val{a}, fmt.Sprintf("Convert(%s) panics: %s", a.Label, ca.pv), "a result or an error", map[string]string{"frame": ca.panic})
		return false
	}
	if a.Out || b.Out || ab.panic != "" {
		return false
	}
	if !ca.inDomain() || !cb.inDomain() {
		return false
	}
	if ca.v == nil || cb.v == nil {
		return false // converts to NULL: covered by the NULL clause
	}
	if !ab.ok() {
		k.violate(t, "convert-coherent", "compare-fails-on-convertible-values", []val{a, b}, cmpText(t, a, b, ab), "a result: both values convert to the type", nil)
		return true
	}
	cc := compare(k.ctx, t.T, ca.v, cb.v)
	switch {
	case cc.panic != "":
		k.violate(t, "no-panic", "panic", []val{a, b}, fmt.Sprintf("Compare(Convert(%s), Convert(%s)) panics: %s", a.Label, b.Label, cc.pv), "a result", map[string]string{"frame": cc.panic})
	case cc.err != nil:
		k.violate(t, "convert-coherent", "compare-fails-on-converted-values", []val{a, b}, fmt.Sprintf("Compare(%s, %s) = error %q", goString(ca.v), goString(cb.v), short(cc.err.Error())), "a result", nil)
	case sign(cc.res) != sign(ab.res):
		k.violate(t, "convert-coherent", "differs-from-comparison-of-converted-values", []val{a, b},
			fmt.Sprintf("%s but Compare(%s, %s) = %d", cmpText(t, a, b, ab), goString(ca.v), goString(cb.v), cc.res), "same sign", nil)
	}
	return true
}

// ---- enumeration ----

func tierVals(t *typ, thorough bool) []val {
	var out []val
	for _, x := range t.Vals {
		if thorough || !x.Thor {
			out = append(out, x)
		}
	}
	return out
}

func (k *checker) checkType(t *typ, thorough bool) {
	r := k.r
	vals := tierVals(t, thorough)
	n := len(vals)
	all := append(append([]val{}, vals...), null) // index n = NULL
	m := make([][]cell, n+1)
	var calls int64
	for i := range all {
		m[i] = make([]cell, n+1)
		for j := range all {
			m[i][j] = compare(k.ctx, t.T, all[i].V, all[j].V)
			calls++
		}
	}
	// second pass: panics, determinism
	for i := range all {
		for j := range all {
			if k.lawPanic(t, all[i], all[j], m[i][j]) {
				continue
			}
			c2 := compare(k.ctx, t.T, all[i].V, all[j].V)
			calls++
			k.lawDeterministic(t, all[i], all[j], m[i][j], c2)
		}
	}
	cv := make([]conv, n)
	inDom := 0
	for i := range vals {
		cv[i] = convert(k.ctx, t.T, vals[i].V)
		if cv[i].inDomain() && !vals[i].Out {
			inDom++
		}
		if !cv[i].inDomain() && !vals[i].Out && cv[i].panic == "" {
			// the alphabet claims this is a value of the type but Convert rejects it: no coherence check for it
			r.Count("values_claimed_in_type_but_rejected_by_convert", 1)
			r.Note(fmt.Sprintf("Convert rejects %s value %s (%s)", t.Family, vals[i].Label, vals[i].Rep))
		}
	}
	r.Count("compare_calls", calls)
	r.Count("convert_calls", int64(n))
	r.Count("alphabet_values", int64(n))
	r.Count("alphabet_values_in_domain", int64(inDom))
	r.Count("types", 1)

	for i := 0; i < n; i++ {
		r.Eval()
		k.lawReflexive(t, vals[i], m[i][i])
		k.lawNull(t, vals[i], m[n][n], m[n][i], m[i][n])
		for j := 0; j < n; j++ {
			r.Eval()
			if i < j {
				k.lawAntisymmetric(t, vals[i], vals[j], m[i][j], m[j][i])
			}
			if k.lawConvert(t, vals[i], vals[j], m[i][j], cv[i], cv[j]) {
				r.Count("pairs_convert_coherence_checked", 1)
			} else {
				r.Count("pairs_outside_convert_domain", 1)
			}
		}
	}
	// every ordered triple, NULL included
	N := n + 1
	var evals, skipped int64
	for i := 0; i < N; i++ {
		for j := 0; j < N; j++ {
			for l := 0; l < N; l++ {
				evals++
				if !k.lawTransitive(t, all[i], all[j], all[l], m[i][j], m[j][l], m[i][l]) {
					skipped++
					r.Outcome("comparison-error")
					continue
				}
				pat := fmt.Sprintf("%+d%+d%+d", sign(m[i][j].res), sign(m[j][l].res), sign(m[i][l].res))
				r.Outcome(pat)
				if i != j && j != l && i != l {
					r.NonTrivial(t.Name + "|" + all[i].Label + "|" + all[j].Label + "|" + all[l].Label)
					if r.WantSample() && i < j && j%5 == 1 && l == n-1 {
						r.Sample(map[string]any{"type": t.Name, "values": []string{goString(all[i].V), goString(all[j].V), goString(all[l].V)}, "signs(ab,bc,ac)": pat})
					}
				}
			}
		}
	}
	r.EvalN(evals)
	r.Count("triples", evals)
	r.Count("triples_with_a_failing_comparison", skipped)
}

func run(r *core.Run) {
	k := newChecker(r)
	ts := allTypes()
	var idx int64
	fams := map[string]bool{}
	for i := range ts {
		t := &ts[i]
		if t.Thor && !r.Thorough() {
			continue
		}
		fams[t.Family] = true
		mine := r.Mine(idx)
		idx++
		if !mine {
			continue
		}
		if r.Expired() {
			r.Capped("time budget: not every type was checked")
			break
		}
		k.checkType(t, r.Thorough())
	}
	r.Info("types_in_tier", idx)
	r.Info("type_families", len(fams))
}

func replay(r *core.Run, w json.RawMessage) {
	var wt witness
	if json.Unmarshal(w, &wt) != nil {
		return
	}
	k := newChecker(r)
	ts := allTypes()
	var t *typ
	for i := range ts {
		if ts[i].Name == wt.Type {
			t = &ts[i]
		}
	}
	if t == nil {
		fmt.Println("unknown type", wt.Type)
		return
	}
	var vs []val
	for _, l := range wt.Values {
		found := l == "NULL"
		x := null
		for _, y := range t.Vals {
			if y.Label == l {
				x, found = y, true
			}
		}
		if !found {
			fmt.Println("unknown value", l)
			return
		}
		vs = append(vs, x)
	}
	cmp := func(a, b val) cell { return compare(k.ctx, t.T, a.V, b.V) }
	// re-run every law the witness' values can take part in
	for _, a := range vs {
		k.lawReflexive(t, a, cmp(a, a))
		if a.Label != "NULL" {
			k.lawNull(t, a, cmp(null, null), cmp(null, a), cmp(a, null))
		}
		for _, b := range vs {
			c := cmp(a, b)
			if k.lawPanic(t, a, b, c) {
				continue
			}
			k.lawDeterministic(t, a, b, c, cmp(a, b))
			if a.Label != "NULL" && b.Label != "NULL" {
				k.lawAntisymmetric(t, a, b, c, cmp(b, a))
				k.lawConvert(t, a, b, c, convert(k.ctx, t.T, a.V), convert(k.ctx, t.T, b.V))
			}
			for _, d := range vs {
				k.lawTransitive(t, a, b, d, c, cmp(b, d), cmp(a, d))
			}
		}
	}
}

func init() {
	core.Register(&core.Prop{
		ID:    "C26",
		Level: "exploration",
		Rule: "for every type of a fixed list (integers of every width/signedness, FLOAT/DOUBLE, DECIMAL column and expression types, VARCHAR under every implemented collation, CHAR/TEXT under 12 collations, BINARY/VARBINARY/BLOB, DATETIME/TIMESTAMP/DATE with precisions, TIME, YEAR, ENUM, SET incl. empty-string member, BIT(1/8/64), JSON, geometry) " +
			"a hand-built boundary alphabet (type boundaries + the same value in every representation the engine passes around: Go ints/uints/floats/decimals/strings/bytes/bools/time.Time/…, + a few out-of-domain values; quick ≈ 16-45 values, thorough ≈ 22-60) plus NULL: " +
			"Compare on every ordered pair (twice: determinism), Convert on every value, Compare on every pair of converted in-domain values; laws evaluated on every value (reflexive, NULL order), every pair (antisymmetric in sign, coherence with Convert) and every ordered triple of the relation (transitive, incl. transitivity of equality). " +
			"evaluations = values + pairs + ordered triples; non-trivial = ordered triple of three different alphabet elements whose three comparisons all succeed",
		Assumptions: []string{
			"the laws are evaluated on the relation matrix obtained from one Compare call per ordered pair (a second call only checks determinism)",
			"a value is 'in the type' when Convert returns no error and InRange; coherence with Convert is only demanded for such pairs",
			"pairs whose comparison returns an error are outside the order's domain unless both values are in the type",
			"NaN and ±Inf are not SQL values and are not in the float alphabets",
			"alphabets are hand-built: values outside them (longer strings, other code points, other dates) are not explored",
		},
		Run:    run,
		Replay: replay,
	})
}
