// Package c27 — storing a value keeps it exactly or reports the change.
//
// Every (column type, input) pair of a boundary alphabet goes through four routes of the real
// code — sql.Type.Convert, RoundingNumberType.ConvertRound (the conversion INSERT uses for
// numbers), INSERT + SELECT and INSERT IGNORE + SELECT — and the outcome of each is judged by a
// reference model of the column type written from the MySQL manual (model.go).
package c27

import (
	"context"
	"encoding/json"
	"fmt"
	"math"
	"math/big"
	"strings"
	"time"

	"github.com/cockroachdb/apd/v3"
	"github.com/dolthub/go-mysql-server/sql"
	"github.com/dolthub/go-mysql-server/sql/types"

	"verif/mc/core"
	"verif/mc/eng"
)

type c27Case struct {
	Type string `json:"type"`
	SQL  string `json:"sql"`           // input literal
	Via  string `json:"via,omitempty"` // thorough chains: first converted by this type
}

var inputIndex map[string]input

func findInput(sqlText string) (input, bool) {
	if inputIndex == nil {
		inputIndex = map[string]input{}
		for _, in := range inputs(true) {
			if _, dup := inputIndex[in.SQL]; !dup {
				inputIndex[in.SQL] = in
			}
		}
	}
	in, ok := inputIndex[sqlText]
	return in, ok
}

// ---- denotation of engine values ------------------------------------------------------------

func ratOfValue(v any) (*big.Rat, bool) {
	switch x := v.(type) {
	case int8:
		return new(big.Rat).SetInt64(int64(x)), true
	case int16:
		return new(big.Rat).SetInt64(int64(x)), true
	case int32:
		return new(big.Rat).SetInt64(int64(x)), true
	case int64:
		return new(big.Rat).SetInt64(x), true
	case int:
		return new(big.Rat).SetInt64(int64(x)), true
	case uint8:
		return new(big.Rat).SetInt64(int64(x)), true
	case uint16:
		return new(big.Rat).SetInt64(int64(x)), true
	case uint32:
		return new(big.Rat).SetInt64(int64(x)), true
	case uint:
		return new(big.Rat).SetInt(new(big.Int).SetUint64(uint64(x))), true
	case uint64:
		return new(big.Rat).SetInt(new(big.Int).SetUint64(x)), true
	case bool:
		if x {
			return big.NewRat(1, 1), true
		}
		return new(big.Rat), true
	case float32:
		if math.IsNaN(float64(x)) || math.IsInf(float64(x), 0) {
			return nil, false
		}
		r := new(big.Rat)
		r.SetFloat64(float64(x))
		return r, true
	case float64:
		if math.IsNaN(x) || math.IsInf(x, 0) {
			return nil, false
		}
		r := new(big.Rat)
		r.SetFloat64(x)
		return r, true
	case *apd.Decimal:
		if x == nil || x.Form != apd.Finite {
			return nil, false
		}
		return new(big.Rat).SetString(x.Text('f'))
	case apd.Decimal:
		return ratOfValue(&x)
	}
	return nil, false
}

func unwrapString(v any) (string, bool) {
	switch x := v.(type) {
	case string:
		return x, true
	case []byte:
		return string(x), true
	case sql.StringWrapper:
		s, err := x.Unwrap(context.Background())
		return s, err == nil
	case sql.BytesWrapper:
		b, err := x.Unwrap(context.Background())
		return string(b), err == nil
	}
	return "", false
}

// denote maps a stored / converted engine value to the denotation domain of the model.
func denote(t colT, v any) string {
	if v == nil {
		return dNull
	}
	switch t.Fam {
	case "int", "float", "decimal", "year", "bit", "enum", "set":
		if t.Fam == "bit" {
			if b, ok := v.([]byte); ok {
				return dInt(new(big.Int).SetBytes(b))
			}
		}
		if s, ok := v.(string); ok && (t.Fam == "enum" || t.Fam == "set") {
			return "member-text:" + s
		}
		if r, ok := ratOfValue(v); ok {
			return dNum(r)
		}
		if f, ok := v.(float64); ok {
			return fmt.Sprintf("n:%v", f) // +Inf, -Inf, NaN
		}
		if f, ok := v.(float32); ok {
			return fmt.Sprintf("n:%v", f)
		}
	case "char":
		if s, ok := unwrapString(v); ok {
			return dStr(s)
		}
	case "binary":
		if s, ok := unwrapString(v); ok {
			return dBytes([]byte(s))
		}
	case "json":
		if w, ok := v.(sql.JSONWrapper); ok {
			s, err := types.JsonToMySqlString(context.Background(), w)
			if err == nil {
				if d, ok := dJSON(s); ok {
					return d
				}
			}
			return "j!" + s
		}
		if s, ok := v.(string); ok {
			if d, ok := dJSON(s); ok {
				return d
			}
		}
	case "date", "datetime", "timestamp":
		if tm, ok := v.(time.Time); ok {
			if tm.Equal(types.ZeroTime) || tm.Year() <= 0 {
				return dZeroTime
			}
			return dTime(tm)
		}
	case "time":
		if ts, ok := v.(types.Timespan); ok {
			return dDur(ts.AsMicroseconds())
		}
	}
	return fmt.Sprintf("?%T:%s", v, eng.FormatValue(v))
}

func short(s string) string {
	if len(s) > 160 {
		return s[:70] + fmt.Sprintf("…(%d bytes)…", len(s)) + s[len(s)-40:]
	}
	return s
}

// ---- one case -------------------------------------------------------------------------------

type caseRun struct {
	r  *core.Run
	c  c27Case
	t  colT
	in input
	v  verdict
	// gotype: Go type of the value the literal evaluates to (what Convert receives)
	gotype string
	// chainType: exact Go type of the intermediate value (chains only)
	chainType string
}

func (cr *caseRun) violate(route, clause, kind, observed string) {
	subj := map[string]string{"family": cr.t.Fam, "input": cr.in.Kind, "gotype": cr.gotype, "class": cr.v.Class, "reason": cr.v.Reason}
	if cr.chainType != "" {
		subj["chain_gotype"] = cr.chainType
	}
	exp := cr.v.Class + " (" + cr.v.Reason + ")"
	if cr.v.Want != "" {
		exp += "; stored value must be " + short(cr.v.Want)
	}
	if cr.v.Near != "" && cr.v.Class != "rep" && cr.v.Class != "between" {
		exp += "; rejected, or under IGNORE " + short(cr.v.Near) + " with a warning"
	}
	cr.r.Outcome(route + ":VIOLATION-" + kind)
	// the route (convert, convert-round, insert, insert-ignore) is not part of the signature: one
	// defect of a type's conversion shows on all of them
	cr.r.Violate(core.Violation{Check: "store", Clause: clause, Kind: kind, Subject: subj,
		Witness: core.J(cr.c), Observed: "[" + route + "] " + short(observed), Expected: exp})
}

func (cr *caseRun) panicked(route string, pv any, stack string) {
	subj := map[string]string{"family": cr.t.Fam, "gotype": cr.gotype, "route": route, "frame": topFrame(stack)}
	cr.r.Outcome(route + ":VIOLATION-panic")
	cr.r.Violate(core.Violation{Check: "store", Clause: "no-panic", Kind: "panic", Subject: subj,
		Witness: core.J(cr.c), Observed: "[" + route + "] " + short(fmt.Sprint(pv))})
}

// judgeStored: a route stored/returned value d without reporting anything.
func (cr *caseRun) judgeSilent(route, d string) {
	v := cr.v
	switch v.Class {
	case "rep", "between", "edge", "lenient":
		if v.Accept != nil && v.Accept(d) {
			cr.r.Outcome(route + ":" + v.Class + "-stored")
			return
		}
		kind := "silent-change"
		if v.Class == "between" {
			kind = "beyond-neighbours"
		}
		cr.violate(route, "stored-exactly-or-reported", kind, "stored "+d+" without any report")
	case "bad":
		cr.violate(route, "invalid-input-is-reported", "accepted-invalid", "stored "+d+" without any report")
	}
}

// judgeRejected: a route refused the value (error / out-of-range flag).
func (cr *caseRun) judgeRejected(route, how string) {
	switch cr.v.Class {
	case "rep", "between":
		cr.violate(route, "representable-is-stored", "spurious-rejection", how)
	default:
		cr.r.Outcome(route + ":" + cr.v.Class + "-rejected")
	}
}

// topFrame: first frame of a panic stack that belongs to go-mysql-server.
func topFrame(stack string) string {
	for _, l := range strings.Split(stack, "\n") {
		if strings.HasPrefix(l, "github.com/dolthub/go-mysql-server/") {
			if j := strings.LastIndex(l, "("); j > 0 {
				l = l[:j]
			}
			return strings.TrimPrefix(l, "github.com/dolthub/go-mysql-server/")
		}
	}
	return core.TopFrame(stack)
}

// goClass coarsens the Go type of a value to the class that selects the conversion code path.
func goClass(v any) string {
	switch v.(type) {
	case nil:
		return "nil"
	case int, int8, int16, int32, int64, uint, uint8, uint16, uint32, uint64:
		return "int"
	case float32, float64:
		return "float"
	case *apd.Decimal, apd.Decimal:
		return "decimal"
	case string:
		return "string"
	case []byte:
		return "bytes"
	case bool:
		return "bool"
	}
	return fmt.Sprintf("%T", v)
}

func isUnsupported(err error) bool {
	return err != nil && (eng.ErrClass(err) == "unsupported" || strings.Contains(err.Error(), "not yet supported"))
}

func (cr *caseRun) convertRoute(route string, conv func(context.Context, any) (any, sql.ConvertInRange, error), ctx *sql.Context, goIn any) {
	var out any
	var ir sql.ConvertInRange
	var err error
	pv, stack := core.Try(func() { out, ir, err = conv(ctx, goIn) })
	if pv != nil {
		cr.panicked(route, pv, stack)
		return
	}
	if cr.v.Class != "skip" {
		switch {
		case err != nil:
			cr.judgeRejected(route, "error: "+err.Error())
		case ir != sql.InRange:
			cr.judgeRejected(route, fmt.Sprintf("out-of-range flag %d, value %s", ir, denote(cr.t, out)))
		default:
			cr.judgeSilent(route, denote(cr.t, out))
		}
	} else {
		cr.r.Outcome(route + ":unmodelled")
	}
	// idempotence: whatever Convert hands back as converted (no error, in range) converts to itself
	if err == nil && ir == sql.InRange && out != nil {
		var out2 any
		var ir2 sql.ConvertInRange
		var err2 error
		pv, stack := core.Try(func() { out2, ir2, err2 = conv(ctx, out) })
		switch {
		case pv != nil:
			cr.panicked(route+"-again", pv, stack)
		case err2 != nil || ir2 != sql.InRange:
			cr.violate(route, "idempotent", "reconvert-rejected", fmt.Sprintf("Convert(%s) = %s, converting that again: err=%v inRange=%d", cr.in.SQL, denote(cr.t, out), err2, ir2))
		case denote(cr.t, out2) != denote(cr.t, out):
			cr.violate(route, "idempotent", "reconvert-changes", fmt.Sprintf("Convert(%s) = %s, converting that again gives %s", cr.in.SQL, denote(cr.t, out), denote(cr.t, out2)))
		default:
			cr.r.Count("idempotence_checks", 1)
		}
	}
}

func (cr *caseRun) insertRoute(ignore bool) {
	route, stmt := "insert", "insert into t values ("
	if ignore {
		route, stmt = "insert-ignore", "insert ignore into t values ("
	}
	s := eng.New().NewSession("root")
	s.MustExec("create table t (c " + cr.t.SQL + ")")
	res := s.Exec(stmt + cr.in.SQL + ")")
	if res.Panic != nil {
		cr.panicked(route, res.Panic, res.Stack)
		return
	}
	warnings := len(s.Sess.Warnings())
	sel := s.Exec("select c from t")
	if sel.Panic != nil {
		cr.panicked(route+"-select", sel.Panic, sel.Stack)
		return
	}
	if sel.Err != nil {
		cr.violate(route, "select-after-insert", "select-fails", "select c from t: "+sel.Err.Error())
		return
	}
	if res.Err != nil {
		if len(sel.Rows) != 0 {
			cr.violate(route, "failed-insert-stores-nothing", "row-after-error", fmt.Sprintf("error %v but %d row(s) stored: %s", res.Err, len(sel.Rows), denote(cr.t, sel.Rows[0][0])))
			return
		}
		if cr.v.Class == "skip" {
			cr.r.Outcome(route + ":unmodelled")
			return
		}
		if ignore && cr.v.Class == "bad" && cr.t.Fam != "json" {
			// the property asks INSERT IGNORE to store the nearest value with a warning
			cr.violate(route, "ignore-stores-nearest-with-warning", "ignore-rejected", "error: "+res.Err.Error())
			return
		}
		cr.judgeRejected(route, "error: "+res.Err.Error())
		return
	}
	if len(sel.Rows) != 1 {
		cr.violate(route, "one-row-stored", "row-count", fmt.Sprintf("%d rows after a successful insert", len(sel.Rows)))
		return
	}
	d := denote(cr.t, sel.Rows[0][0])
	if cr.v.Class == "skip" {
		cr.r.Outcome(route + ":unmodelled")
		return
	}
	if !ignore || warnings == 0 {
		cr.judgeSilent(route, d)
		return
	}
	// INSERT IGNORE stored d and raised a warning
	switch cr.v.Class {
	case "rep", "between":
		if cr.v.Accept(d) {
			cr.r.Outcome(route + ":" + cr.v.Class + "-stored-with-warning")
			return
		}
		cr.violate(route, "stored-exactly-or-reported", "ignore-changed-representable", "stored "+d+" (with a warning) although the value is representable")
	default:
		if cr.v.Class == "lenient" || (cr.v.Nearest != nil && cr.v.Nearest(d)) || (cr.v.Accept != nil && cr.v.Accept(d)) {
			cr.r.Outcome(route + ":" + cr.v.Class + "-nearest-with-warning")
			return
		}
		cr.violate(route, "ignore-stores-nearest-with-warning", "ignore-not-nearest", "stored "+d+" (with a warning)")
	}
}

// literalValue evaluates the literal through the engine: the Go value INSERT hands to Convert.
func literalValue(s *eng.Session, lit string) (any, error) {
	res := s.Exec("select " + lit)
	if res.Err != nil {
		return nil, res.Err
	}
	if len(res.Rows) != 1 || len(res.Rows[0]) != 1 {
		return nil, fmt.Errorf("literal gave %d rows", len(res.Rows))
	}
	return res.Rows[0][0], nil
}

func columnType(s *eng.Session) sql.Type {
	res := s.MustExec("select c from t")
	return res.Schema[0].Type
}

func runCase(r *core.Run, c c27Case) {
	t, ok := typeByName(c.Type)
	in, ok2 := findInput(c.SQL)
	if !ok || !ok2 {
		return
	}
	cr := &caseRun{r: r, c: c, t: t, in: in, v: model(t, in)}
	s := eng.New().NewSession("root")
	goIn, err := literalValue(s, in.SQL)
	if err != nil {
		r.Count("skipped_unsupported_literal", 1)
		return
	}
	cr.gotype = goClass(goIn)
	cres := s.Exec("create table t (c " + t.SQL + ")")
	if cres.Err != nil {
		if isUnsupported(cres.Err) {
			r.Count("skipped_unsupported", 1)
			return
		}
		panic(fmt.Sprintf("fixture: create table with %s: %v", t.SQL, cres.Err))
	}
	ct := columnType(s)
	if c.Via != "" {
		// chain: the input is first converted by another type; its result is the new input
		via, okv := typeByName(c.Via)
		if !okv {
			return
		}
		s.MustExec("create table u (c " + via.SQL + ")")
		vt := s.MustExec("select c from u").Schema[0].Type
		var mid any
		var ir sql.ConvertInRange
		var cerr error
		if pv, _ := core.Try(func() { mid, ir, cerr = vt.Convert(s.NewCtx(), goIn) }); pv != nil || cerr != nil || ir != sql.InRange || mid == nil {
			r.Outcome("chain:first-stage-not-stored")
			return
		}
		mr, okr := ratOfValue(mid)
		if !okr {
			return
		}
		kind := "int"
		text := mr.RatString()
		f32 := false
		switch x := mid.(type) {
		case float32:
			kind, f32 = "float", true
		case float64:
			kind = "float"
		case *apd.Decimal:
			kind = "dec"
			text = x.Text('f')
		}
		cr.in = input{SQL: fmt.Sprintf("%s via %s", in.SQL, via.SQL), Kind: kind, num: mr, text: text, f32: f32}
		cr.gotype = goClass(mid)
		// in a chain the exact Go type of the intermediate value can select the code path
		cr.chainType = fmt.Sprintf("%T", mid)
		cr.v = model(t, cr.in)
		r.Eval()
		if cr.v.Class != "skip" {
			r.NonTrivial("chain|" + c.Type + "|" + c.Via + "|" + c.SQL)
		}
		cr.convertRoute("convert-chain", ct.Convert, s.NewCtx(), mid)
		return
	}
	if cr.v.Class != "skip" && cr.v.Class != "rep" {
		r.NonTrivial(c.Type + "|" + c.SQL)
	}
	if cr.v.Class == "skip" {
		r.Count("unmodelled_pairs", 1)
		r.Count("unmodelled:"+t.Fam+"<-"+in.Kind, 1)
	}
	r.Outcome("model:" + cr.v.Class + "/" + cr.v.Reason)
	if r.WantSample() && cr.v.Class == "bad" {
		r.Sample(map[string]any{"case": c, "class": cr.v.Class, "reason": cr.v.Reason, "ignore_may_store": cr.v.Near})
	}
	if goIn != nil { // INSERT never hands NULL to Convert
		r.Eval()
		cr.convertRoute("convert", ct.Convert, s.NewCtx(), goIn)
		if rt, isR := ct.(sql.RoundingNumberType); isR {
			r.Eval()
			cr.convertRoute("convert-round", rt.ConvertRound, s.NewCtx(), goIn)
		}
	}
	r.Eval()
	cr.insertRoute(false)
	r.Eval()
	cr.insertRoute(true)
}

func init() {
	// TIMESTAMP bounds are judged in UTC; make the process time zone independent of the host
	time.Local = time.UTC
	core.Register(&core.Prop{
		ID:    "C27",
		Level: "exploration",
		Rule: "every (column type, input) pair: 37 column types [thorough 55] covering every integer width/signedness, FLOAT, DOUBLE, DECIMAL(5,2)/(10,0)/(65,30), CHAR, VARCHAR, TINYTEXT, TEXT, BINARY, VARBINARY, TINYBLOB, BLOB, DATE, DATETIME(0/6), TIMESTAMP(0/6), TIME(0/6), YEAR, ENUM, SET, BIT(1/8/64), JSON; " +
			"general input alphabet paired with every type: NULL, TRUE, small integers, every integer width boundary and its outside neighbour (2^k-1, 2^k, -2^(k-1), -2^(k-1)-1 for k=8,16,24,32,64), decimals with .5/.4 fractions and at the DECIMAL(5,2) boundary, 10^-30, 65-digit, doubles (1e39, 1e-50, 1.7e308, 2^24+1, 2^53+1), numeric/junk-suffixed/empty/padded/over-long/multi-byte strings, 255/256-byte strings, binary strings incl. invalid UTF-8, bit literals; " +
			"family-specific boundary inputs paired with their family: date/datetime strings (leap days, month 13, day 0, zero date, range ends, fractional seconds .5/.9999995), TIME strings and hhmmss numbers around +-838:59:59, YEAR 0/69/70/99/100/1900/1901/2155/2156 as numbers and strings, ENUM/SET members, non-members, indexes and bitmasks, JSON texts valid and malformed. " +
			"Each pair through 4 routes: Type.Convert, ConvertRound (number types), INSERT+SELECT, INSERT IGNORE+SELECT (each on a fresh engine), plus Convert(Convert(v)) idempotence; thorough adds every chain T2.Convert(T1.Convert(v)) for numeric T1. " +
			"non-trivial = the model classifies the pair as not exactly representable (between neighbours, boundary rounding, out of range, over-long, malformed, lenient)",
		Assumptions: []string{
			"default sql_mode (STRICT_TRANS_TABLES, no NO_ZERO_DATE): zero dates may be stored; process time zone forced to UTC",
			"a value strictly between two representable values may be stored as either neighbour; a value that keeps more digits than the column declares is accepted when exact",
			"class 'lenient' (MySQL idiosyncrasies: numbers as dates/times, numeric strings as ENUM index, hex literals as numbers, exponent strings into integers, doubles as text, numbers into JSON, zero dates): MySQL's stored value, a rejection, or a warned value are all accepted; a different value stored silently is not",
			"pairs the model does not cover are counted in unmodelled_pairs and only checked for panics and idempotence",
			"malformed numeric strings under INSERT IGNORE may store the numeric prefix (rounded either way, clamped) or zero",
			"JSON text errors are not ignorable (MySQL documents error 3140 under IGNORE)",
			"table default collation utf8mb4_0900_bin; inputs that match an ENUM/SET member only up to case are not modelled",
		},
		QuickBudget: 600, ThoroughBudget: 3600,
		Run: run,
		Replay: func(r *core.Run, w json.RawMessage) {
			var c c27Case
			if json.Unmarshal(w, &c) == nil {
				runCase(r, c)
			}
		},
	})
}

func run(r *core.Run) {
	th := r.Thorough()
	ts := columnTypes(th)
	ins := inputs(th)
	r.Info("column_types", len(ts))
	r.Info("inputs", len(ins))
	var n int64
	seen := map[string]bool{}
	for _, t := range ts {
		for _, in := range ins {
			if !in.appliesTo(t) {
				continue
			}
			k := t.SQL + "|" + in.SQL
			if seen[k] {
				continue
			}
			seen[k] = true
			n++
			if !r.Mine(n) {
				continue
			}
			if r.Expired() {
				r.Capped(fmt.Sprintf("time budget reached at pair %d", n))
				return
			}
			runCase(r, c27Case{Type: t.SQL, SQL: in.SQL})
		}
	}
	r.Info("pairs", n)
	if !th {
		return
	}
	// chains: numeric T1, every T2, the general numeric inputs
	var nc int64
	for _, t1 := range ts {
		if t1.Fam != "int" && t1.Fam != "float" && t1.Fam != "decimal" {
			continue
		}
		for _, t2 := range ts {
			for _, in := range ins {
				if len(in.Only) > 0 || (in.Kind != "int" && in.Kind != "dec" && in.Kind != "float") {
					continue
				}
				n++
				nc++
				if !r.Mine(n) {
					continue
				}
				if r.Expired() {
					r.Capped(fmt.Sprintf("time budget reached at chain %d", nc))
					return
				}
				runCase(r, c27Case{Type: t2.SQL, SQL: in.SQL, Via: t1.SQL})
			}
		}
	}
	r.Info("chains", nc)
}
