package c27

import (
	"encoding/hex"
	"encoding/json"
	"fmt"
	"math"
	"math/big"
	"regexp"
	"sort"
	"strconv"
	"strings"
	"time"
	"unicode/utf8"
)

// verdict is what the reference model says about storing one input into one column type.
//
//	rep      the value is representable: every route must store a value denoting exactly it
//	between  inside the range, between two adjacent representable values: either neighbour
//	bad      out of range / over-long / malformed: strict INSERT must fail, Convert must report,
//	         INSERT IGNORE must store one of Nearest and raise a warning
//	edge     rounding crosses the range boundary (127.5 -> TINYINT): the in-range neighbour
//	         (silently) or the treatment of a bad value are both accepted
//	lenient  MySQL's treatment is an idiosyncrasy the property does not prescribe (numbers as
//	         dates, '1e2' into INT, zero dates ...): the value MySQL would store (silently) or
//	         a rejection / a warned Nearest value are both accepted
//	skip     not modelled: only the model-free clauses (no panic, idempotence) apply
type verdict struct {
	Class   string
	Reason  string              // in-range, fraction, out-of-range, over-long, malformed, invalid-utf8, not-member, invalid-date ...
	Accept  func(d string) bool // acceptable stored denotations (rep, between, edge, lenient)
	Nearest func(d string) bool // acceptable stored denotations under INSERT IGNORE for bad/edge/lenient
	Want    string              // description of Accept
	Near    string              // description of Nearest
}

func oneOf(vals ...string) (func(string) bool, string) {
	m := map[string]bool{}
	var u []string
	for _, v := range vals {
		if !m[v] {
			m[v] = true
			u = append(u, v)
		}
	}
	return func(d string) bool { return m[d] }, strings.Join(u, " | ")
}

func mk(class, reason string, accept []string, nearest []string) verdict {
	v := verdict{Class: class, Reason: reason}
	if accept != nil {
		v.Accept, v.Want = oneOf(accept...)
	}
	if nearest != nil {
		v.Nearest, v.Near = oneOf(nearest...)
	}
	return v
}

func skip(reason string) verdict { return verdict{Class: "skip", Reason: reason} }

// ---- denotations ----------------------------------------------------------------------------

func dNum(r *big.Rat) string   { return "n:" + r.RatString() }
func dInt(i *big.Int) string   { return "n:" + i.String() }
func dStr(s string) string     { return "s:" + s }
func dBytes(b []byte) string   { return "x:" + hex.EncodeToString(b) }
func dTime(t time.Time) string { return "t:" + t.UTC().Format("2006-01-02 15:04:05.000000") }
func dDur(us int64) string     { return fmt.Sprintf("d:%d", us) }

const dZeroTime = "t:zero"
const dNull = "NULL"

func dJSON(text string) (string, bool) {
	dec := json.NewDecoder(strings.NewReader(text))
	dec.UseNumber()
	var v any
	if err := dec.Decode(&v); err != nil {
		return "", false
	}
	// trailing garbage?
	var extra any
	if err := dec.Decode(&extra); err == nil || !strings.Contains(err.Error(), "EOF") {
		return "", false
	}
	return "j:" + canonJSON(v), true
}

func canonJSON(v any) string {
	switch x := v.(type) {
	case map[string]any:
		keys := make([]string, 0, len(x))
		for k := range x {
			keys = append(keys, k)
		}
		sort.Strings(keys)
		parts := make([]string, len(keys))
		for i, k := range keys {
			kb, _ := json.Marshal(k)
			parts[i] = string(kb) + ":" + canonJSON(x[k])
		}
		return "{" + strings.Join(parts, ",") + "}"
	case []any:
		parts := make([]string, len(x))
		for i, e := range x {
			parts[i] = canonJSON(e)
		}
		return "[" + strings.Join(parts, ",") + "]"
	case json.Number:
		// integers that fit BIGINT / BIGINT UNSIGNED are exact; every other number is a double
		if r, ok := new(big.Rat).SetString(string(x)); ok {
			if r.IsInt() && r.Num().Cmp(new(big.Int).Neg(pow(2, 63))) >= 0 && r.Num().Cmp(pow(2, 64)) < 0 {
				return r.RatString()
			}
		}
		if f, err := strconv.ParseFloat(string(x), 64); err == nil && !math.IsInf(f, 0) {
			r := new(big.Rat)
			r.SetFloat64(f)
			return r.RatString()
		}
		return string(x)
	case string:
		b, _ := json.Marshal(x)
		return string(b)
	case nil:
		return "null"
	case bool:
		return strconv.FormatBool(x)
	}
	b, _ := json.Marshal(v)
	return string(b)
}

// ---- numeric helpers ------------------------------------------------------------------------

func floorAt(x *big.Rat, scale int) *big.Rat {
	m := new(big.Rat).Mul(x, new(big.Rat).SetInt(pow(10, scale)))
	q, mod := new(big.Int), new(big.Int)
	q.DivMod(m.Num(), m.Denom(), mod)
	return new(big.Rat).SetFrac(q, pow(10, scale))
}
func ceilAt(x *big.Rat, scale int) *big.Rat {
	f := floorAt(x, scale)
	if f.Cmp(x) == 0 {
		return f
	}
	return f.Add(f, new(big.Rat).SetFrac(big.NewInt(1), pow(10, scale)))
}
func ratInt(x *big.Rat) *big.Int { return new(big.Int).Set(x.Num()) } // x must be an integer

var numPrefix = regexp.MustCompile(`^[+-]?(\d+\.?\d*|\.\d+)([eE][+-]?\d+)?`)

// parseNumString: MySQL's reading of a string in numeric context. clean = the whole string
// (apart from surrounding white space) is a number.
func parseNumString(s string) (val *big.Rat, clean bool) {
	t := strings.TrimLeft(s, " \t\n\r")
	m := numPrefix.FindString(t)
	if m == "" {
		return new(big.Rat), false
	}
	rest := strings.TrimRight(t[len(m):], " \t\n\r")
	v, ok := new(big.Rat).SetString(strings.TrimPrefix(m, "+"))
	if !ok {
		// huge exponents: treat as out-of-range magnitudes
		mant := m
		exp := 0
		if i := strings.IndexAny(m, "eE"); i >= 0 {
			mant = m[:i]
			exp, _ = strconv.Atoi(m[i+1:])
		}
		mv, ok2 := new(big.Rat).SetString(strings.TrimPrefix(mant, "+"))
		if !ok2 {
			return new(big.Rat), false
		}
		if exp > 0 {
			if exp > 5000 {
				exp = 5000
			}
			mv.Mul(mv, new(big.Rat).SetInt(pow(10, exp)))
		} else {
			mv = new(big.Rat)
		}
		v = mv
	}
	return v, rest == ""
}

// numericOf gives the numeric reading of an input: value, whether it is a clean number, and
// whether MySQL's reading is an idiosyncrasy (binary strings as big-endian integers).
func numericOf(in input) (v *big.Rat, clean bool, quirk bool, ok bool) {
	switch in.Kind {
	case "int", "dec", "float", "bool", "bit":
		return in.num, true, false, true
	case "str":
		v, clean = parseNumString(in.text)
		return v, clean, false, true
	case "hex":
		if len(in.raw) > 8 {
			return nil, false, true, false
		}
		return new(big.Rat).SetInt(new(big.Int).SetBytes(in.raw)), true, true, true
	}
	return nil, false, false, false
}

// float neighbours of an exact rational in float32 / float64.
func floatNeighbours(v *big.Rat, double bool) (lo, hi *big.Rat, overflow bool) {
	if double {
		f, exact := v.Float64()
		if math.IsInf(f, 0) {
			return nil, nil, true
		}
		a := new(big.Rat)
		a.SetFloat64(f)
		if exact {
			return a, a, false
		}
		var g float64
		if a.Cmp(v) < 0 {
			g = math.Nextafter(f, math.Inf(1))
		} else {
			g = math.Nextafter(f, math.Inf(-1))
		}
		if math.IsInf(g, 0) {
			return a, a, false
		}
		b := new(big.Rat)
		b.SetFloat64(g)
		if a.Cmp(b) > 0 {
			a, b = b, a
		}
		return a, b, false
	}
	f, exact := v.Float32()
	if math.IsInf(float64(f), 0) {
		return nil, nil, true
	}
	a := new(big.Rat)
	a.SetFloat64(float64(f))
	if exact {
		return a, a, false
	}
	var g float32
	if a.Cmp(v) < 0 {
		g = math.Nextafter32(f, float32(math.Inf(1)))
	} else {
		g = math.Nextafter32(f, float32(math.Inf(-1)))
	}
	if math.IsInf(float64(g), 0) {
		return a, a, false
	}
	b := new(big.Rat)
	b.SetFloat64(float64(g))
	if a.Cmp(b) > 0 {
		a, b = b, a
	}
	return a, b, false
}

// ---- the model ------------------------------------------------------------------------------

func model(t colT, in input) verdict {
	if in.Kind == "null" {
		return mk("rep", "null", []string{dNull}, nil)
	}
	switch t.Fam {
	case "int":
		return modelInt(t, in)
	case "float":
		return modelFloat(t, in)
	case "decimal":
		return modelDecimal(t, in)
	case "year":
		return modelYear(t, in)
	case "bit":
		return modelBit(t, in)
	case "enum":
		return modelEnum(t, in)
	case "set":
		return modelSet(t, in)
	case "char":
		return modelChar(t, in)
	case "binary":
		return modelBinary(t, in)
	case "json":
		return modelJSON(t, in)
	case "date", "datetime", "timestamp":
		return modelDatetime(t, in)
	case "time":
		return modelTime(t, in)
	}
	return skip("family")
}

// relax turns a verdict into "lenient" when MySQL's reading of the input is an idiosyncrasy.
func relax(v verdict, quirk bool, zeroNear string) verdict {
	if !quirk || v.Class == "skip" {
		return v
	}
	if v.Class == "rep" || v.Class == "between" {
		v.Class = "lenient"
	}
	// which value MySQL's reading clamps to is part of the idiosyncrasy: any warned value will do
	v.Nearest = func(string) bool { return true }
	v.Near = "anything"
	return v
}

func modelInt(t colT, in input) verdict {
	v, clean, quirk, ok := numericOf(in)
	if !ok {
		return skip("no numeric reading")
	}
	lo, hi := t.intBounds()
	clamp := func(x *big.Rat) string {
		if x.Cmp(new(big.Rat).SetInt(lo)) < 0 {
			return dInt(lo)
		}
		if x.Cmp(new(big.Rat).SetInt(hi)) > 0 {
			return dInt(hi)
		}
		return ""
	}
	fl, ce := ratInt(floorAt(v, 0)), ratInt(ceilAt(v, 0))
	inr := func(i *big.Int) bool { return i.Cmp(lo) >= 0 && i.Cmp(hi) <= 0 }
	if !clean {
		// malformed: the numeric prefix (rounded either way, clamped) or zero, with a warning
		near := []string{dInt(big.NewInt(0))}
		for _, c := range []*big.Int{fl, ce} {
			if inr(c) {
				near = append(near, dInt(c))
			} else {
				near = append(near, clamp(new(big.Rat).SetInt(c)))
			}
		}
		return mk("bad", malformedReason(in), nil, near)
	}
	var res verdict
	switch {
	case v.IsInt() && inr(fl):
		res = mk("rep", "in-range", []string{dInt(fl)}, nil)
	case !v.IsInt() && inr(fl) && inr(ce):
		res = mk("between", "fraction", []string{dInt(fl), dInt(ce)}, nil)
	case !v.IsInt() && (inr(fl) || inr(ce)):
		in1 := fl
		if !inr(fl) {
			in1 = ce
		}
		res = mk("edge", "fraction-at-boundary", []string{dInt(in1)}, []string{dInt(in1)})
	default:
		reason := "out-of-range"
		one := big.NewInt(1)
		if v.IsInt() && (fl.Cmp(new(big.Int).Add(hi, one)) == 0 || fl.Cmp(new(big.Int).Sub(lo, one)) == 0) {
			reason = "just-out-of-range" // max+1 / min-1: where off-by-one range tests show
		}
		res = mk("bad", reason, nil, []string{clamp(v)})
	}
	if in.Kind == "str" && strings.ContainsAny(in.text, "eE.") {
		// fraction or exponent notation in a string for an integer column: MySQL rounds it like a
		// number on assignment but truncates it (with a warning) in a cast
		quirk = true
	}
	return relax(res, quirk, "")
}

// malformedReason separates the empty (or blank) string from strings with junk in them.
func malformedReason(in input) string {
	// "empty-string": no digits at all — empty, blank, or a bare sign
	if in.Kind == "str" && strings.TrimLeft(strings.TrimSpace(in.text), "+-") == "" {
		return "empty-string"
	}
	if in.Kind == "str" && (strings.HasPrefix(strings.TrimSpace(in.text), "0x") || strings.HasPrefix(strings.TrimSpace(in.text), "0X")) {
		return "hex-notation-string"
	}
	return "malformed"
}

func modelFloat(t colT, in input) verdict {
	v, clean, quirk, ok := numericOf(in)
	if !ok {
		return skip("no numeric reading")
	}
	maxf := new(big.Rat)
	if t.Double {
		maxf.SetFloat64(math.MaxFloat64)
	} else {
		maxf.SetFloat64(math.MaxFloat32)
	}
	nearOf := func(x *big.Rat) []string {
		a, b, over := floatNeighbours(x, t.Double)
		if over {
			if x.Sign() < 0 {
				return []string{dNum(new(big.Rat).Neg(maxf))}
			}
			return []string{dNum(maxf)}
		}
		return []string{dNum(a), dNum(b)}
	}
	if !clean {
		return mk("bad", malformedReason(in), nil, append(nearOf(v), dNum(new(big.Rat))))
	}
	a, b, over := floatNeighbours(v, t.Double)
	if over {
		return mk("bad", "out-of-range", nil, nearOf(v))
	}
	res := mk("rep", "in-range", []string{dNum(a)}, nil)
	if a.Cmp(b) != 0 {
		res = mk("between", "inexact", []string{dNum(a), dNum(b)}, nil)
	}
	return relax(res, quirk, "")
}

func modelDecimal(t colT, in input) verdict {
	v, clean, quirk, ok := numericOf(in)
	if !ok {
		return skip("no numeric reading")
	}
	limit := new(big.Rat).SetInt(pow(10, t.P-t.S))
	maxv := new(big.Rat).Sub(limit, new(big.Rat).SetFrac(big.NewInt(1), pow(10, t.S)))
	fits := func(x *big.Rat) bool { return new(big.Rat).Abs(x).Cmp(limit) < 0 }
	clamp := func(x *big.Rat) string {
		if x.Sign() < 0 {
			return dNum(new(big.Rat).Neg(maxv))
		}
		return dNum(maxv)
	}
	fl, ce := floorAt(v, t.S), ceilAt(v, t.S)
	if !clean {
		near := []string{dNum(new(big.Rat))}
		for _, c := range []*big.Rat{fl, ce} {
			if fits(c) {
				near = append(near, dNum(c))
			} else {
				near = append(near, clamp(c))
			}
		}
		return mk("bad", malformedReason(in), nil, near)
	}
	// a double reaches a DECIMAL through its shortest decimal form (1.1e0 -> 1.1, 2^63 ->
	// 9223372036854776000), in MySQL as well: the neighbours of that numeral are accepted too
	var alt []string
	altOut := false // the shortest decimal form of the double does not fit although its exact value does
	if in.Kind == "float" {
		f, _ := in.num.Float64()
		widths := []int{64}
		if in.f32 {
			widths = []int{32, 64}
		}
		for _, bits := range widths {
			if sv, ok := new(big.Rat).SetString(strconv.FormatFloat(f, 'f', -1, bits)); ok {
				for _, c := range []*big.Rat{floorAt(sv, t.S), ceilAt(sv, t.S)} {
					if fits(c) {
						alt = append(alt, dNum(c))
					} else {
						altOut = true
					}
				}
			}
		}
	}
	var res verdict
	switch {
	case fl.Cmp(ce) == 0 && fits(fl) && allEqual(alt, dNum(fl)):
		res = mk("rep", "in-range", []string{dNum(fl)}, nil)
	case fits(fl) && fits(ce):
		res = mk("between", "fraction", append([]string{dNum(fl), dNum(ce)}, alt...), nil)
	case fits(fl) || fits(ce):
		in1 := fl
		if !fits(fl) {
			in1 = ce
		}
		res = mk("edge", "fraction-at-boundary", append([]string{dNum(in1)}, alt...), []string{dNum(in1)})
	default:
		res = mk("bad", "out-of-range", nil, []string{clamp(v)})
	}
	if altOut && (res.Class == "rep" || res.Class == "between") {
		res.Class, res.Reason = "edge", "double-at-boundary"
		res.Nearest, res.Near = oneOf(clamp(v))
	}
	return relax(res, quirk, "")
}

func allEqual(xs []string, want string) bool {
	for _, x := range xs {
		if x != want {
			return false
		}
	}
	return true
}

func modelYear(t colT, in input) verdict {
	v, clean, _, ok := numericOf(in)
	if !ok || in.Kind == "hex" || in.Kind == "bit" {
		return skip("no year reading")
	}
	zero := dInt(big.NewInt(0))
	if !clean {
		return mk("bad", malformedReason(in), nil, []string{zero})
	}
	if in.Kind == "str" && (strings.TrimSpace(in.text) != in.text || strings.ContainsAny(in.text, "eE.+-")) {
		return skip("padded / non-integer string as YEAR")
	}
	conv := func(n *big.Int) (string, bool) {
		if !n.IsInt64() {
			return "", false
		}
		k := n.Int64()
		switch {
		case k == 0:
			return zero, true
		case k >= 1 && k <= 69:
			return dInt(big.NewInt(2000 + k)), true
		case k >= 70 && k <= 99:
			return dInt(big.NewInt(1900 + k)), true
		case k >= 1901 && k <= 2155:
			return dInt(big.NewInt(k)), true
		}
		return "", false
	}
	if v.IsInt() {
		d, good := conv(ratInt(v))
		if !good {
			return mk("bad", "out-of-range", nil, []string{zero})
		}
		if v.Sign() == 0 {
			// numeric 0 is year 0000; the strings '0' and '00' are year 2000
			return mk("lenient", "zero-year", []string{zero, dInt(big.NewInt(2000))}, []string{zero})
		}
		if in.Kind != "int" && in.Kind != "str" {
			return mk("lenient", "non-integer-literal", []string{d}, []string{zero})
		}
		return mk("rep", "in-range", []string{d}, nil)
	}
	var acc []string
	for _, c := range []*big.Int{ratInt(floorAt(v, 0)), ratInt(ceilAt(v, 0))} {
		if d, good := conv(c); good {
			acc = append(acc, d)
		}
	}
	if len(acc) == 0 {
		return mk("bad", "out-of-range", nil, []string{zero})
	}
	return mk("lenient", "fraction", acc, []string{zero})
}

func modelBit(t colT, in input) verdict {
	var v *big.Rat
	quirk := false
	switch in.Kind {
	case "int", "bit", "bool":
		v = in.num
	case "dec", "float":
		v = in.num
		quirk = true
	case "str":
		if len(in.text) > 8 {
			return mk("bad", "out-of-range", nil, []string{dInt(new(big.Int).Sub(pow(2, t.Bits), big.NewInt(1))), dInt(big.NewInt(0))})
		}
		v = new(big.Rat).SetInt(new(big.Int).SetBytes([]byte(in.text)))
	case "hex":
		if len(in.raw) > 8 {
			return mk("bad", "out-of-range", nil, []string{dInt(new(big.Int).Sub(pow(2, t.Bits), big.NewInt(1))), dInt(big.NewInt(0))})
		}
		v = new(big.Rat).SetInt(new(big.Int).SetBytes(in.raw))
	default:
		return skip("no bit reading")
	}
	maxv := new(big.Int).Sub(pow(2, t.Bits), big.NewInt(1))
	inr := func(i *big.Int) bool { return i.Sign() >= 0 && i.Cmp(maxv) <= 0 }
	if v.Sign() < 0 {
		// MySQL stores the two's complement bytes of a negative integer; the property has no opinion
		return skip("negative into BIT")
	}
	if v.IsInt() {
		if inr(ratInt(v)) {
			return relax(mk("rep", "in-range", []string{dInt(ratInt(v))}, nil), quirk, "")
		}
		return mk("bad", "out-of-range", nil, []string{dInt(maxv)})
	}
	var acc []string
	for _, c := range []*big.Int{ratInt(floorAt(v, 0)), ratInt(ceilAt(v, 0))} {
		if inr(c) {
			acc = append(acc, dInt(c))
		}
	}
	if len(acc) == 0 {
		return mk("bad", "out-of-range", nil, []string{dInt(maxv)})
	}
	return mk("lenient", "fraction", acc, []string{dInt(maxv)})
}

func modelEnum(t colT, in input) verdict {
	zero := dInt(big.NewInt(0))
	k := int64(len(t.Members))
	switch in.Kind {
	case "str":
		for i, m := range t.Members {
			if m == in.text {
				return mk("rep", "member", []string{dInt(big.NewInt(int64(i + 1)))}, nil)
			}
		}
		for _, m := range t.Members {
			if strings.EqualFold(m, in.text) {
				return skip("member up to case (collation dependent)")
			}
		}
		if n, err := strconv.ParseInt(in.text, 10, 64); err == nil && n >= 1 && n <= k {
			// MySQL reads a numeric string that is no member as an index
			return mk("lenient", "index-as-string", []string{dInt(big.NewInt(n))}, []string{zero})
		}
		return mk("bad", "not-member", nil, []string{zero})
	case "int":
		if in.num.IsInt() && in.num.Num().IsInt64() {
			n := in.num.Num().Int64()
			if n >= 1 && n <= k {
				return mk("rep", "index", []string{dInt(big.NewInt(n))}, nil)
			}
		}
		return mk("bad", "out-of-range", nil, []string{zero})
	}
	return skip("no enum reading")
}

func modelSet(t colT, in input) verdict {
	zero := dInt(big.NewInt(0))
	k := len(t.Members)
	full := new(big.Int).Sub(pow(2, k), big.NewInt(1))
	switch in.Kind {
	case "str":
		if in.text == "" {
			return mk("rep", "empty", []string{zero}, nil)
		}
		mask := big.NewInt(0)
		bad := false
		for _, part := range strings.Split(in.text, ",") {
			found := false
			for i, m := range t.Members {
				if m == part {
					mask.SetBit(mask, i, 1)
					found = true
				}
			}
			if !found {
				if part == "" {
					return skip("empty element in a SET string")
				}
				for _, m := range t.Members {
					if strings.EqualFold(m, part) {
						return skip("member up to case (collation dependent)")
					}
				}
				bad = true
			}
		}
		if !bad {
			return mk("rep", "members", []string{dInt(mask)}, nil)
		}
		if n, err := strconv.ParseInt(in.text, 10, 64); err == nil && n >= 0 && big.NewInt(n).Cmp(full) <= 0 {
			return mk("lenient", "bitmask-as-string", []string{dInt(big.NewInt(n))}, []string{zero, dInt(mask)})
		}
		return mk("bad", "not-member", nil, []string{dInt(mask), zero})
	case "int":
		if in.num.IsInt() {
			n := in.num.Num()
			if n.Sign() >= 0 && n.Cmp(full) <= 0 {
				return mk("rep", "bitmask", []string{dInt(n)}, nil)
			}
			if n.Sign() < 0 {
				return mk("bad", "out-of-range", nil, []string{zero, dInt(full)})
			}
			return mk("bad", "out-of-range", nil, []string{zero, dInt(full), dInt(new(big.Int).And(n, full))})
		}
	}
	return skip("no set reading")
}

// textOfNumber: the characters MySQL stores for a number written into a string column, as a
// predicate: any numeral that reads back as exactly the same number (float: the same double).
func numberTextPredicate(in input) (func(string) bool, string) {
	if in.Kind == "float" {
		want, _ := in.num.Float64()
		if in.f32 {
			return func(s string) bool {
				f, err := strconv.ParseFloat(s, 32)
				return err == nil && float32(f) == float32(want)
			}, fmt.Sprintf("a numeral that reads back as the float %v", float32(want))
		}
		return func(s string) bool {
			f, err := strconv.ParseFloat(s, 64)
			return err == nil && f == want
		}, fmt.Sprintf("a numeral that reads back as the double %v", want)
	}
	return func(s string) bool {
		if numPrefix.FindString(s) != s || s == "" {
			return false
		}
		r, ok := new(big.Rat).SetString(s)
		return ok && r.Cmp(in.num) == 0
	}, "a numeral equal to " + in.num.RatString()
}

func canonicalNumberText(in input) string {
	switch in.Kind {
	case "bool":
		return "1"
	case "float":
		f, _ := in.num.Float64()
		return strconv.FormatFloat(f, 'g', -1, 64)
	}
	return in.text
}

func charLimitOK(t colT, s string) bool {
	if t.N > 0 && utf8.RuneCountInString(s) > t.N {
		return false
	}
	if t.MaxBytes > 0 && len(s) > t.MaxBytes {
		return false
	}
	return true
}

// longest prefix of s (whole characters) that fits the column
func charPrefix(t colT, s string) string {
	out := ""
	n := 0
	for _, r := range s {
		c := string(r)
		if t.N > 0 && n+1 > t.N {
			break
		}
		if t.MaxBytes > 0 && len(out)+len(c) > t.MaxBytes {
			break
		}
		out += c
		n++
	}
	return out
}

func validPrefix(b []byte) []byte {
	i := 0
	for i < len(b) {
		r, sz := utf8.DecodeRune(b[i:])
		if r == utf8.RuneError && sz <= 1 {
			break
		}
		i += sz
	}
	return b[:i]
}

func modelChar(t colT, in input) verdict {
	var s string
	switch in.Kind {
	case "str":
		s = in.text
	case "hex":
		if !utf8.Valid(in.raw) {
			p := string(validPrefix(in.raw))
			return mk("bad", "invalid-utf8", nil, []string{dStr(charPrefix(t, p)), dStr("")})
		}
		s = string(in.raw)
	case "int", "dec", "float", "bool":
		pred, desc := numberTextPredicate(in)
		canon := canonicalNumberText(in)
		okLen := func(d string) bool { return strings.HasPrefix(d, "s:") && charLimitOK(t, d[2:]) }
		acc := func(d string) bool { return okLen(d) && pred(strings.TrimRight(d[2:], " ")) }
		if charLimitOK(t, canon) {
			cls := "rep"
			if in.Kind == "float" || in.Kind == "bool" {
				cls = "lenient"
			}
			v := verdict{Class: cls, Reason: "number-as-text", Accept: acc, Want: "string: " + desc}
			if cls == "lenient" {
				v.Nearest, v.Near = func(string) bool { return true }, "anything, with a warning"
			}
			return v
		}
		if in.Kind == "float" {
			return skip("double whose text form may or may not fit")
		}
		near, nd := oneOf(dStr(charPrefix(t, canon)), dStr(""))
		return verdict{Class: "bad", Reason: "over-long", Nearest: near, Near: nd}
	default:
		return skip("no string reading")
	}
	if charLimitOK(t, s) {
		acc := []string{dStr(s)}
		if t.Fixed {
			acc = append(acc, dStr(strings.TrimRight(s, " ")))
		}
		return mk("rep", "fits", acc, nil)
	}
	p := charPrefix(t, s)
	if strings.TrimRight(s, " ") == strings.TrimRight(p, " ") {
		// only trailing spaces are cut off: MySQL truncates with a note, no error
		return mk("lenient", "over-long-by-spaces", []string{dStr(p), dStr(strings.TrimRight(p, " "))}, []string{dStr(p), dStr(strings.TrimRight(p, " "))})
	}
	return mk("bad", "over-long", nil, []string{dStr(p), dStr(strings.TrimRight(p, " "))})
}

func modelBinary(t colT, in input) verdict {
	var b []byte
	cls := "rep"
	switch in.Kind {
	case "str":
		b = []byte(in.text)
	case "hex":
		b = in.raw
	case "int", "dec":
		b = []byte(canonicalNumberText(in))
	case "float", "bool":
		return skip("double/bool as bytes")
	default:
		return skip("no bytes reading")
	}
	limit := t.N
	if limit == 0 {
		limit = t.MaxBytes
	}
	pad := func(x []byte) []byte {
		if !t.Fixed {
			return x
		}
		out := append([]byte{}, x...)
		for len(out) < t.N {
			out = append(out, 0)
		}
		return out
	}
	if len(b) <= limit {
		return mk(cls, "fits", []string{dBytes(pad(b))}, nil)
	}
	return mk("bad", "over-long", nil, []string{dBytes(b[:limit])})
}

func modelJSON(t colT, in input) verdict {
	switch in.Kind {
	case "str":
		if d, ok := dJSON(in.text); ok {
			if jsonNumberBeyondDouble(in.text) {
				// MySQL: "Invalid JSON text: Number too big to be stored in double"
				return verdict{Class: "bad", Reason: "json-number-out-of-range", Nearest: func(string) bool { return false }, Near: "(nothing: JSON text errors are not ignorable)"}
			}
			return mk("rep", "valid-json", []string{d}, nil)
		}
		// MySQL rejects invalid JSON text even under INSERT IGNORE
		return verdict{Class: "bad", Reason: "malformed", Nearest: func(string) bool { return false }, Near: "(nothing: JSON text errors are not ignorable)"}
	case "int", "dec":
		acc := []string{"j:" + in.num.RatString()}
		if f, exact := in.num.Float64(); !exact || !in.num.IsInt() {
			r := new(big.Rat)
			r.SetFloat64(f)
			acc = append(acc, "j:"+r.RatString())
		}
		return mk("lenient", "number-as-json", acc, []string{dNull})
	case "bool":
		return mk("lenient", "bool-as-json", []string{"j:true", "j:1"}, []string{dNull})
	}
	return skip("no json reading")
}

var reJSONNumber = regexp.MustCompile(`-?\d+(\.\d+)?([eE][+-]?\d+)?`)

func jsonNumberBeyondDouble(text string) bool {
	inString := false
	clean := []byte(text)
	for i := 0; i < len(clean); i++ { // blank out string literals
		switch {
		case clean[i] == '\\' && inString:
			clean[i] = ' '
			if i+1 < len(clean) {
				clean[i+1] = ' '
				i++
			}
		case clean[i] == '"':
			inString = !inString
			clean[i] = ' '
		case inString:
			clean[i] = ' '
		}
	}
	for _, m := range reJSONNumber.FindAllString(string(clean), -1) {
		if f, err := strconv.ParseFloat(m, 64); err != nil || math.IsInf(f, 0) {
			return true
		}
	}
	return false
}

// ---- temporal -------------------------------------------------------------------------------

var reDateTime = regexp.MustCompile(`^(\d{4})-(\d\d)-(\d\d)(?: (\d\d):(\d\d):(\d\d)(?:\.(\d{1,7}))?)?$`)
var reTime = regexp.MustCompile(`^(-)?(\d{1,3}):(\d\d):(\d\d)(?:\.(\d{1,7}))?$`)

var garbageTemporal = map[string]bool{"": true, "abc": true, "not a date": true, "12abc": true, "a": true, "1.5x": true, "abcdef": true, "héé": true, "hééééé": true, "20x": true}

func daysIn(y, m int) int {
	return time.Date(y, time.Month(m)+1, 0, 0, 0, 0, 0, time.UTC).Day()
}

var (
	maxDatetime  = time.Date(9999, 12, 31, 23, 59, 59, 999999000, time.UTC)
	minTimestamp = time.Date(1970, 1, 1, 0, 0, 1, 0, time.UTC)
	maxTimestamp = time.Date(2038, 1, 19, 3, 14, 7, 999999000, time.UTC)
)

func modelDatetime(t colT, in input) verdict {
	zero := []string{dZeroTime}
	build := func(y, mo, d, h, mi, s int, fracDigits string) verdict {
		if y == 0 && mo == 0 && d == 0 && h == 0 && mi == 0 && s == 0 {
			return mk("lenient", "zero-date", zero, zero)
		}
		if mo < 1 || mo > 12 || d < 1 || d > daysIn(y, mo) || h > 23 || mi > 59 || s > 59 || y < 1000 {
			return mk("bad", "invalid-date", nil, zero)
		}
		fd := fracDigits
		extra := false // digits beyond microseconds
		if len(fd) > 6 {
			extra = strings.Trim(fd[6:], "0") != ""
			fd = fd[:6]
		}
		us, _ := strconv.Atoi((fd + "000000")[:6])
		tm := time.Date(y, time.Month(mo), d, h, mi, s, us*1000, time.UTC)
		if t.Fam == "date" {
			day := time.Date(y, time.Month(mo), d, 0, 0, 0, 0, time.UTC)
			if tm.Equal(day) {
				return mk("rep", "valid", []string{dTime(day)}, nil)
			}
			// the time part is cut off (MySQL: a note); rounding up to the next day is not MySQL's
			return mk("between", "time-part", []string{dTime(day)}, nil)
		}
		unit := time.Duration(1000) * time.Microsecond * time.Duration(1) // placeholder
		switch t.Fsp {
		case 0:
			unit = time.Second
		case 3:
			unit = time.Millisecond
		case 6:
			unit = time.Microsecond
		}
		flo := tm.Truncate(unit)
		res := mk("rep", "valid", []string{dTime(tm)}, nil)
		lo, hi := flo, flo
		if !flo.Equal(tm) || extra {
			hi = flo.Add(unit)
			// the exact value is accepted as well (a column may keep more digits than declared)
			acc := []string{dTime(flo), dTime(hi), dTime(tm.Truncate(time.Microsecond))}
			if extra {
				acc = append(acc, dTime(tm.Truncate(time.Microsecond).Add(time.Microsecond)))
			}
			res = mk("between", "fraction", acc, nil)
		}
		rng := func(x time.Time) bool {
			if t.Fam == "timestamp" {
				return !x.Before(minTimestamp) && !x.After(maxTimestamp)
			}
			return !x.After(maxDatetime)
		}
		switch {
		case rng(lo) && rng(hi):
			return res
		case rng(lo) || rng(hi):
			in1 := lo
			if !rng(lo) {
				in1 = hi
			}
			return mk("edge", "fraction-at-boundary", []string{dTime(in1)}, append([]string{dTime(in1)}, zero...))
		}
		return mk("bad", "out-of-range", nil, zero)
	}
	switch in.Kind {
	case "str":
		m := reDateTime.FindStringSubmatch(in.text)
		if m == nil {
			if garbageTemporal[in.text] {
				return mk("bad", malformedReason(in), nil, zero)
			}
			return skip("string format not modelled as a date")
		}
		at := func(i int) int { n, _ := strconv.Atoi(m[i]); return n }
		return build(at(1), at(2), at(3), at(4), at(5), at(6), m[7])
	case "int":
		if !in.num.IsInt() {
			return skip("number as date")
		}
		n := in.num.Num()
		if n.Sign() == 0 {
			return mk("lenient", "zero-date", zero, zero)
		}
		s := n.String()
		var v verdict
		switch len(s) {
		case 8:
			at := func(a, b int) int { k, _ := strconv.Atoi(s[a:b]); return k }
			v = build(at(0, 4), at(4, 6), at(6, 8), 0, 0, 0, "")
		case 14:
			at := func(a, b int) int { k, _ := strconv.Atoi(s[a:b]); return k }
			v = build(at(0, 4), at(4, 6), at(6, 8), at(8, 10), at(10, 12), at(12, 14), "")
		default:
			return skip("number as date")
		}
		// numbers as dates are a MySQL idiosyncrasy: storing MySQL's reading or rejecting are both fine
		if v.Class == "rep" || v.Class == "between" {
			v.Class = "lenient"
			v.Nearest, v.Near = oneOf(dZeroTime)
		}
		return v
	}
	return skip("no date reading")
}

const maxTimeUS = (838*3600 + 59*60 + 59) * 1000000

func modelTime(t colT, in input) verdict {
	zero := []string{dDur(0)}
	build := func(neg bool, h, mi, s int, frac string, quirk bool) verdict {
		if mi > 59 || s > 59 {
			return mk("bad", "invalid-time", nil, zero)
		}
		fd := frac
		extra := false
		if len(fd) > 6 {
			extra = strings.Trim(fd[6:], "0") != ""
			fd = fd[:6]
		}
		us, _ := strconv.Atoi((fd + "000000")[:6])
		total := int64(h*3600+mi*60+s)*1000000 + int64(us)
		sign := int64(1)
		if neg {
			sign = -1
		}
		if total > maxTimeUS || (total == maxTimeUS && extra) {
			return mk("bad", "out-of-range", nil, []string{dDur(sign * maxTimeUS)})
		}
		unit := int64(1)
		switch t.Fsp {
		case 0:
			unit = 1000000
		case 3:
			unit = 1000
		}
		flo := total / unit * unit
		res := mk("rep", "valid", []string{dDur(sign * total)}, nil)
		if flo != total || extra {
			hi := flo + unit
			if hi > maxTimeUS {
				hi = maxTimeUS
			}
			// the value kept to the microsecond (either neighbour) is accepted as well: a column
			// may keep more digits than it declares
			acc := []string{dDur(sign * flo), dDur(sign * hi), dDur(sign * total)}
			if extra && total+1 <= maxTimeUS {
				acc = append(acc, dDur(sign*(total+1)))
			}
			res = mk("between", "fraction", acc, nil)
		}
		if quirk {
			res.Class = "lenient"
			res.Nearest, res.Near = oneOf(dDur(0))
		}
		return res
	}
	switch in.Kind {
	case "str":
		m := reTime.FindStringSubmatch(in.text)
		if m == nil {
			if garbageTemporal[in.text] {
				return mk("bad", malformedReason(in), nil, zero)
			}
			return skip("string format not modelled as a time")
		}
		at := func(i int) int { n, _ := strconv.Atoi(m[i]); return n }
		return build(m[1] == "-", at(2), at(3), at(4), m[5], false)
	case "int":
		if !in.num.IsInt() || !in.num.Num().IsInt64() {
			return skip("number as time")
		}
		n := in.num.Num().Int64()
		neg := n < 0
		if neg {
			n = -n
		}
		if n > 99999999 {
			return skip("number as time")
		}
		v := build(neg, int(n/10000), int(n/100%100), int(n%100), "", true)
		return v
	}
	return skip("no time reading")
}
